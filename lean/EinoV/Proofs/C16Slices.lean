/-
  C16 — lemmas about the slice-level run (Model/C16Slices.lean): when every list of `optMap`
  grows from the map's own slot, the run on the heap is the pure run `runW`, and no array that
  existed before the call is written.
-/
import EinoV.Model.C16Slices
import EinoV.Proofs.C16
import EinoV.Proofs.C16Keys
import EinoV.Proofs.C16Resume

namespace EinoV.C16

/-! ### heap primitives -/

theorem read_length (h : VHeap) (s : Hdr) : (h.read s).length = s.len := by
  simp [VHeap.read]

theorem read_eq_nil (h : VHeap) (s : Hdr) : h.read s = [] ↔ s.len = 0 := by
  rw [← List.length_eq_zero_iff, read_length]

theorem map_getD_range (xs : List Nat) : (List.range xs.length).map (fun i => (xs[i]?).getD 0) = xs := by
  apply List.ext_getElem
  · simp
  · intro i h1 h2
    simp at h1
    simp [h1]

/-- `h'` extends `h`: every array of `h` is still there, with the same cells -/
def Frame (h h' : VHeap) : Prop :=
  h.next ≤ h'.next ∧ ∀ a i, a < h.next → h'.cell a i = h.cell a i

theorem Frame.refl (h : VHeap) : Frame h h := ⟨Nat.le_refl _, fun _ _ _ => rfl⟩

theorem Frame.trans {h1 h2 h3 : VHeap} (a : Frame h1 h2) (b : Frame h2 h3) : Frame h1 h3 :=
  ⟨Nat.le_trans a.1 b.1, fun x i hx => by rw [b.2 x i (Nat.lt_of_lt_of_le hx a.1), a.2 x i hx]⟩

theorem read_congr {h h' : VHeap} {s : Hdr} (hc : ∀ i, i < s.len → h'.cell s.arr i = h.cell s.arr i) :
    h'.read s = h.read s := by
  unfold VHeap.read
  apply List.map_congr_left
  intro i hi
  exact hc i (List.mem_range.mp hi)

theorem read_frame {h h' : VHeap} (hf : Frame h h') {s : Hdr} (hs : s.arr < h.next) :
    h'.read s = h.read s :=
  read_congr (fun i _ => hf.2 s.arr i hs)

theorem abs_frame {h h' : VHeap} (hf : Frame h h') {o : SOpt} (hs : o.vh.arr < h.next) :
    o.abs h' = o.abs h := by
  simp [SOpt.abs, read_frame hf hs]

theorem alloc_frame (h : VHeap) (xs : List Nat) : Frame h (h.alloc xs).1 := by
  refine ⟨Nat.le_succ _, fun a i ha => ?_⟩
  simp [VHeap.alloc, Nat.ne_of_lt ha]

theorem alloc_next (h : VHeap) (xs : List Nat) : (h.alloc xs).1.next = h.next + 1 := rfl
theorem alloc_id (h : VHeap) (xs : List Nat) : (h.alloc xs).2 = h.next := rfl

theorem read_alloc (h : VHeap) (xs : List Nat) (c : Nat) :
    (h.alloc xs).1.read ⟨h.next, xs.length, c⟩ = xs := by
  simp [VHeap.read, VHeap.alloc, map_getD_range]

theorem write_next (h : VHeap) (a pos : Nat) (xs : List Nat) : (h.write a pos xs).next = h.next := rfl

theorem write_other (h : VHeap) (a pos : Nat) (xs : List Nat) (a' i : Nat) (hne : a' ≠ a ∨ i < pos) :
    (h.write a pos xs).cell a' i = h.cell a' i := by
  simp only [VHeap.write]
  rw [if_neg]
  rintro ⟨h1, h2, _⟩
  rcases hne with hne | hne
  · exact hne h1
  · omega

theorem read_write_other (h : VHeap) (a pos : Nat) (xs : List Nat) (s : Hdr)
    (hne : s.arr ≠ a ∨ s.len ≤ pos) : (h.write a pos xs).read s = h.read s := by
  apply read_congr
  intro i hi
  apply write_other
  rcases hne with hne | hne
  · exact Or.inl hne
  · exact Or.inr (Nat.lt_of_lt_of_le hi hne)

theorem read_write_same (h : VHeap) (a pos c c' : Nat) (xs : List Nat) :
    (h.write a pos xs).read ⟨a, pos + xs.length, c⟩ = h.read ⟨a, pos, c'⟩ ++ xs := by
  simp only [VHeap.read, List.range_add, List.map_append, List.map_map]
  congr 1
  · apply List.map_congr_left
    intro i hi
    exact write_other h a pos xs a i (Or.inr (List.mem_range.mp hi))
  · conv => rhs; rw [← map_getD_range xs]
    apply List.map_congr_left
    intro i hi
    have hi' := List.mem_range.mp hi
    simp [VHeap.write, hi']

/-- `append`: the result reads as the old elements followed by the new ones -/
theorem read_sAppend (grow : Nat → Nat → Nat) (h : VHeap) (cur : Hdr) (xs : List Nat) :
    (sAppend grow h cur xs).1.read (sAppend grow h cur xs).2 = h.read cur ++ xs := by
  unfold sAppend
  by_cases hc : cur.len + xs.length ≤ cur.cap
  · simp only [hc, if_true]
    exact read_write_same h cur.arr cur.len _ cur.cap xs
  · simp only [hc, if_false]
    have := read_alloc h (h.read cur ++ xs) (max (cur.len + xs.length) (grow cur.cap (cur.len + xs.length)))
    simpa [read_length, alloc_id] using this

/-- `append` either writes in place behind `cur` (same array) or allocates -/
theorem sAppend_cases (grow : Nat → Nat → Nat) (h : VHeap) (cur : Hdr) (xs : List Nat) :
    ((sAppend grow h cur xs).2.arr = cur.arr ∧ (sAppend grow h cur xs).1 = h.write cur.arr cur.len xs ∧
      cur.len + xs.length ≤ cur.cap) ∨
    ((sAppend grow h cur xs).2.arr = h.next ∧ (sAppend grow h cur xs).1 = (h.alloc (h.read cur ++ xs)).1 ∧
      ¬ cur.len + xs.length ≤ cur.cap) := by
  unfold sAppend
  by_cases hc : cur.len + xs.length ≤ cur.cap
  · left; simp [hc]
  · right; simp [hc, alloc_id]

/-! ### which appends are performed: `sExtract` is `extract` on the Options as they read now -/

/-- the appends of Model/C16.lean's log that one slice-level append stands for -/
def absItems (h : VHeap) : Key × SItem → Log
  | (k, .vals src) => (h.read src).map (fun v => (k, Item.val v))
  | (k, .fwd o _) => [(k, .opt (o.abs h))]

def absLog (h : VHeap) (sl : SLog) : Log := sl.flatMap (absItems h)

theorem absLog_append (h : VHeap) (a b : SLog) : absLog h (a ++ b) = absLog h a ++ absLog h b := by
  simp [absLog]

theorem absLog_flatten (h : VHeap) (ls : List SLog) :
    absLog h ls.flatten = (ls.map (absLog h)).flatten := by
  induction ls with
  | nil => rfl
  | cons a as ih => simp [absLog_append, ih]

theorem sUndesignatedFor_abs (F : Facts) (h : VHeap) (o : SOpt) (n : Node) :
    absLog h (sUndesignatedFor F o n) = undesignatedFor F (o.abs h) n := by
  cases n with
  | comp k ty =>
    simp only [sUndesignatedFor, undesignatedFor]
    have hty : (o.abs h).ty = o.ty := rfl
    rw [hty]
    by_cases hc : (!F.typeCmpIdentity || tyMatch F ty o.ty) = true
    · simp [hc, absLog, absItems, SOpt.abs]
    · simp [hc, absLog]
  | pass k => simp [sUndesignatedFor, undesignatedFor, absLog, absItems]
  | graph k ch => simp [sUndesignatedFor, undesignatedFor, absLog, absItems]

theorem sUndesignatedEntries_abs (F : Facts) (h : VHeap) (nodes : Nodes) (o : SOpt) :
    absLog h (sUndesignatedEntries F nodes o) = undesignatedEntries F nodes (o.abs h) := by
  unfold sUndesignatedEntries undesignatedEntries
  have hc : (o.paths = [] ∧ o.vh.len ≠ 0) ↔ ((o.abs h).paths = [] ∧ (o.abs h).vals ≠ []) := by
    simp [SOpt.abs, read_eq_nil]
  by_cases hcond : o.paths = [] ∧ o.vh.len ≠ 0
  · rw [if_pos hcond, if_pos (hc.mp hcond)]
    generalize nodes.toList = l
    induction l with
    | nil => rfl
    | cons n ns ih => simp only [List.flatMap_cons, absLog_append, ih, sUndesignatedFor_abs]
  · rw [if_neg hcond, if_neg (fun x => hcond (hc.mpr x))]
    rfl

theorem sPathEntry_abs (F : Facts) (h : VHeap) (nodes : Nodes) (o : SOpt) (p : Path) :
    Except.map (absLog h) (sPathEntry F nodes o p) = pathEntry F nodes (o.abs h) p := by
  have hv : ((o.abs h).vals = []) ↔ o.vh.len = 0 := by simp [SOpt.abs, read_eq_nil]
  cases p with
  | nil => rfl
  | cons k rest =>
    simp only [sPathEntry, pathEntry]
    cases nodes.find k with
    | none => rfl
    | some n =>
      simp only []
      by_cases hr : rest = []
      · simp only [hr, if_true]
        by_cases hl : o.vh.len = 0
        · rw [if_pos hl, if_pos (hv.mpr hl)]; rfl
        · rw [if_neg hl, if_neg (fun x => hl (hv.mp x))]
          cases n with
          | comp k' ty =>
            simp only []
            have hty : (o.abs h).ty = o.ty := rfl
            rw [hty]
            by_cases hc : (F.typeCmpIdentity && !tyMatch F ty o.ty) = true
            · rw [if_pos hc, if_pos hc]; rfl
            · rw [if_neg hc, if_neg hc]
              simp [Except.map, absLog, absItems, SOpt.abs]
          | pass k' => simp [Except.map, absLog, absItems, SOpt.abs]
          | graph k' ch => simp [Except.map, absLog, absItems, SOpt.abs]
      · simp only [hr, if_false]
        cases n with
        | comp k' ty => rfl
        | pass k' =>
          simp only []
          split
          · rfl
          · simp [Except.map, absLog, absItems, SOpt.abs]
        | graph k' ch => simp [Except.map, absLog, absItems, SOpt.abs]

theorem mapE_nat {α β β' ε : Type} (f : α → Except ε β) (f' : α → Except ε β') (φ : β' → β)
    (hf : ∀ a, Except.map φ (f' a) = f a) (l : List α) :
    Except.map (List.map φ) (mapE f' l) = mapE f l := by
  induction l with
  | nil => rfl
  | cons a as ih =>
    simp only [mapE]
    rw [← hf a, ← ih]
    cases f' a with
    | error e => rfl
    | ok b =>
      cases mapE f' as with
      | error e => rfl
      | ok bs => rfl

theorem sOptEntries_abs (F : Facts) (h : VHeap) (nodes : Nodes) (o : SOpt) :
    Except.map (absLog h) (sOptEntries F nodes o) = optEntries F nodes (o.abs h) := by
  unfold sOptEntries optEntries
  have := mapE_nat (pathEntry F nodes (o.abs h)) (sPathEntry F nodes o) (absLog h)
    (sPathEntry_abs F h nodes o) o.paths
  have hp : (o.abs h).paths = o.paths := rfl
  rw [hp, ← this]
  cases mapE (sPathEntry F nodes o) o.paths with
  | error e => rfl
  | ok ds =>
    simp [Except.map, absLog_append, absLog_flatten, sUndesignatedEntries_abs]

theorem mapE_map {α α' β ε : Type} (f : α → Except ε β) (ψ : α' → α) (l : List α') :
    mapE f (l.map ψ) = mapE (fun a => f (ψ a)) l := by
  induction l with
  | nil => rfl
  | cons a as ih => simp only [List.map_cons, mapE, ih]

theorem sExtract_abs (F : Facts) (h : VHeap) (nodes : Nodes) (opts : List SOpt) :
    Except.map (absLog h) (sExtract F nodes opts) = extract F nodes (opts.map (SOpt.abs h)) := by
  unfold sExtract extract
  rw [mapE_map]
  have := mapE_nat (fun o => optEntries F nodes (SOpt.abs h o)) (sOptEntries F nodes) (absLog h)
    (sOptEntries_abs F h nodes) opts
  rw [← this]
  cases mapE (sOptEntries F nodes) opts with
  | error e => rfl
  | ok ls => simp [Except.map, absLog_flatten]

/-! ### the appends only mention slices of the Options handed in -/

/-- the slice an append takes its values from -/
def evHdr : Key × SItem → Hdr
  | (_, .vals src) => src
  | (_, .fwd o _) => o.vh

/-- `append(optMap[k], opt.options...)` is only reached with `len(opt.options) != 0` -/
def evNonEmpty : Key × SItem → Prop
  | (_, .vals src) => src.len ≠ 0
  | (_, .fwd _ _) => True

theorem sUndesignatedFor_src {F : Facts} {o : SOpt} {n : Node} {ev : Key × SItem}
    (h : ev ∈ sUndesignatedFor F o n) : evHdr ev = o.vh := by
  cases n with
  | comp k ty =>
    simp only [sUndesignatedFor] at h
    split at h
    · simp at h; subst h; rfl
    · simp at h
  | pass k => simp [sUndesignatedFor] at h; subst h; rfl
  | graph k ch => simp [sUndesignatedFor] at h; subst h; rfl

theorem sUndesignatedEntries_src {F : Facts} {nodes : Nodes} {o : SOpt} {ev : Key × SItem}
    (h : ev ∈ sUndesignatedEntries F nodes o) : evHdr ev = o.vh ∧ evNonEmpty ev := by
  unfold sUndesignatedEntries at h
  split at h
  · rename_i hc
    obtain ⟨n, _, hn⟩ := List.mem_flatMap.mp h
    have hh := sUndesignatedFor_src hn
    refine ⟨hh, ?_⟩
    rcases ev with ⟨k, it⟩
    cases it with
    | vals src => simp only [evHdr] at hh; subst hh; exact hc.2
    | fwd o' c => trivial
  · simp at h

theorem sPathEntry_src {F : Facts} {nodes : Nodes} {o : SOpt} {p : Path} {l : SLog}
    (h : sPathEntry F nodes o p = .ok l) {ev : Key × SItem} (hev : ev ∈ l) :
    evHdr ev = o.vh ∧ evNonEmpty ev := by
  cases p with
  | nil => simp [sPathEntry] at h
  | cons k rest =>
    simp only [sPathEntry] at h
    split at h
    · cases h
    · rename_i n _
      split at h
      · split at h
        · cases h; simp at hev
        · rename_i hl
          cases n with
          | comp k' ty =>
            simp only [] at h
            split at h
            · cases h
            · cases h; simp at hev; subst hev; exact ⟨rfl, hl⟩
          | pass k' => simp only [] at h; cases h; simp at hev; subst hev; exact ⟨rfl, trivial⟩
          | graph k' ch => simp only [] at h; cases h; simp at hev; subst hev; exact ⟨rfl, trivial⟩
      · cases n with
        | comp k' ty => simp only [] at h; cases h
        | pass k' =>
          simp only [] at h
          split at h
          · cases h
          · cases h; simp at hev; subst hev; exact ⟨rfl, trivial⟩
        | graph k' ch => simp only [] at h; cases h; simp at hev; subst hev; exact ⟨rfl, trivial⟩

theorem sExtract_srcs {F : Facts} {nodes : Nodes} {opts : List SOpt} {sl : SLog}
    (h : sExtract F nodes opts = .ok sl) {ev : Key × SItem} (hev : ev ∈ sl) :
    evNonEmpty ev ∧ ∃ o ∈ opts, evHdr ev = o.vh := by
  unfold sExtract at h
  split at h
  · cases h
  · rename_i ls hls
    cases h
    obtain ⟨l, hl, hevl⟩ := List.mem_flatten.mp hev
    obtain ⟨o, ho, hol⟩ := (mapE_ok_mem hls l).mp hl
    unfold sOptEntries at hol
    split at hol
    · cases hol
    · rename_i ds hds
      cases hol
      rcases List.mem_append.mp hevl with hu | hd
      · have := sUndesignatedEntries_src hu
        exact ⟨this.2, o, ho, this.1⟩
      · obtain ⟨d, hd1, hd2⟩ := List.mem_flatten.mp hd
        obtain ⟨p, _, hp⟩ := (mapE_ok_mem hds d).mp hd1
        have := sPathEntry_src hp hd2
        exact ⟨this.2, o, ho, this.1⟩

/-! ### the pure log, key by key -/

theorem itemsFor_append (a b : Log) (k : Key) : itemsFor (a ++ b) k = itemsFor a k ++ itemsFor b k := by
  simp [itemsFor]

theorem valsOf_append (a b : List Item) : valsOf (a ++ b) = valsOf a ++ valsOf b := by
  simp [valsOf]

theorem optsOf_append (a b : List Item) : optsOf (a ++ b) = optsOf a ++ optsOf b := by
  simp [optsOf]

theorem absLog_snoc (h : VHeap) (pre : SLog) (ev : Key × SItem) :
    absLog h (pre ++ [ev]) = absLog h pre ++ absItems h ev := by
  simp [absLog]

theorem vals_absItems_vals (h : VHeap) (k0 k : Key) (src : Hdr) :
    valsOf (itemsFor (absItems h (k0, .vals src)) k) = if k0 = k then h.read src else [] := by
  simp only [absItems, itemsFor, valsOf, List.filterMap_map, List.filterMap_filterMap]
  by_cases hk : k0 = k
  · subst hk
    simp
  · simp [hk]

theorem opts_absItems_vals (h : VHeap) (k0 k : Key) (src : Hdr) :
    optsOf (itemsFor (absItems h (k0, .vals src)) k) = [] := by
  simp only [absItems, itemsFor, optsOf, List.filterMap_map, List.filterMap_filterMap]
  by_cases hk : k0 = k <;> simp [hk]

theorem vals_absItems_fwd (h : VHeap) (k0 k : Key) (o : SOpt) (c : Bool) :
    valsOf (itemsFor (absItems h (k0, .fwd o c)) k) = [] := by
  by_cases hk : k0 = k <;> simp [absItems, itemsFor, valsOf, hk]

theorem opts_absItems_fwd (h : VHeap) (k0 k : Key) (o : SOpt) (c : Bool) :
    optsOf (itemsFor (absItems h (k0, .fwd o c)) k) = if k0 = k then [o.abs h] else [] := by
  by_cases hk : k0 = k <;> simp [absItems, itemsFor, optsOf, hk]

theorem mem_glFor {gl : List (Key × SOpt)} {k : Key} {o : SOpt} : o ∈ glFor gl k ↔ (k, o) ∈ gl := by
  simp only [glFor, List.mem_filterMap]
  constructor
  · rintro ⟨⟨k', o'⟩, hm, hx⟩
    by_cases hk : k' = k
    · simp [hk] at hx; subst hk; subst hx; exact hm
    · simp [hk] at hx
  · intro hm
    exact ⟨(k, o), hm, by simp⟩

theorem glFor_snoc (gl : List (Key × SOpt)) (k0 k : Key) (o : SOpt) :
    glFor (gl ++ [(k0, o)]) k = glFor gl k ++ (if k0 = k then [o] else []) := by
  by_cases hk : k0 = k <;> simp [glFor, List.filterMap_append, hk]

/-! ### performing the appends: the invariant of `replayStep` when lists grow from the map's slot -/

/-- `h0` = the heap when `extractOption` starts, `pre` = the appends performed so far.  Every
    slice stored in `optMap` lives in an array allocated since (`own`), no two keys share an
    array (`inj`), the Options in the lists of graph keys point to arrays no slice of the map
    points to (`glb`), and the lists read as the pure log says (`vals`, `opts`). -/
structure RInv (h0 : VHeap) (pre : SLog) (st : RState) : Prop where
  frame : Frame h0 st.h
  own : ∀ k hd, st.vm k = some hd → h0.next ≤ hd.arr ∧ hd.arr < st.h.next
  inj : ∀ k1 k2 hd1 hd2, st.vm k1 = some hd1 → st.vm k2 = some hd2 → hd1.arr = hd2.arr → k1 = k2
  glb : ∀ k o, (k, o) ∈ st.gl → o.vh.arr < st.h.next ∧ ∀ k' hd, st.vm k' = some hd → hd.arr ≠ o.vh.arr
  vals : ∀ k, st.h.read (vmGet st.vm k) = valsOf (itemsFor (absLog h0 pre) k)
  opts : ∀ k, (glFor st.gl k).map (SOpt.abs st.h) = optsOf (itemsFor (absLog h0 pre) k)

theorem read_nilHdr (h : VHeap) : h.read nilHdr = [] := rfl

/-- a slice of the map reads the same after a step that left its array alone -/
theorem read_vmGet_stable {h h' : VHeap} {vm : Key → Option Hdr} {k : Key}
    (hc : ∀ hd, vm k = some hd → ∀ i, i < hd.len → h'.cell hd.arr i = h.cell hd.arr i) :
    h'.read (vmGet vm k) = h.read (vmGet vm k) := by
  unfold vmGet
  cases hv : vm k with
  | none => rfl
  | some hd => exact read_congr (hc hd hv)

theorem vmGet_set_same (vm : Key → Option Hdr) (k : Key) (hd : Hdr) : vmGet (vmSet vm k hd) k = hd := by
  simp [vmGet, vmSet]

theorem vmGet_set_other (vm : Key → Option Hdr) {k k' : Key} (hd : Hdr) (hne : k' ≠ k) :
    vmGet (vmSet vm k hd) k' = vmGet vm k' := by
  simp [vmGet, vmSet, hne]

theorem replayStep_vals_fresh (copies : Bool) {V : SliceFacts} (hV : V.valsGrowFromMapSlot = true)
    (grow : Nat → Nat → Nat) (st : RState) (k0 : Key) (src : Hdr) :
    replayStep copies V grow st (k0, .vals src) =
      { st with h := (sAppend grow st.h (vmGet st.vm k0) (st.h.read src)).1,
                vm := vmSet st.vm k0 (sAppend grow st.h (vmGet st.vm k0) (st.h.read src)).2 } := by
  simp only [replayStep, vmGet]
  cases st.vm k0 <;> simp [hV]

theorem RInv_vals_step {h0 : VHeap} {pre : SLog} {st : RState} (inv : RInv h0 pre st)
    (copies : Bool) {V : SliceFacts} (hV : V.valsGrowFromMapSlot = true) (grow : Nat → Nat → Nat)
    (k0 : Key) (src : Hdr) (hsrc : src.arr < h0.next) (hne : src.len ≠ 0) :
    RInv h0 (pre ++ [(k0, .vals src)]) (replayStep copies V grow st (k0, .vals src)) := by
  rw [replayStep_vals_fresh copies hV]
  have hx : st.h.read src = h0.read src := read_frame inv.frame hsrc
  have hxl : (st.h.read src).length ≠ 0 := by rw [read_length]; exact hne
  have habs : ∀ k, valsOf (itemsFor (absLog h0 (pre ++ [(k0, SItem.vals src)])) k)
      = valsOf (itemsFor (absLog h0 pre) k) ++ (if k0 = k then h0.read src else []) := by
    intro k; rw [absLog_snoc, itemsFor_append, valsOf_append, vals_absItems_vals]
  have habso : ∀ k, optsOf (itemsFor (absLog h0 (pre ++ [(k0, SItem.vals src)])) k)
      = optsOf (itemsFor (absLog h0 pre) k) := by
    intro k; rw [absLog_snoc, itemsFor_append, optsOf_append, opts_absItems_vals, List.append_nil]
  rcases sAppend_cases grow st.h (vmGet st.vm k0) (st.h.read src) with ⟨harr, hheap, hcap⟩ | ⟨harr, hheap, hcap⟩
  · -- in place: the key already owns an array with room
    have hcur : st.vm k0 = some (vmGet st.vm k0) := by
      cases hv : st.vm k0 with
      | none =>
        exfalso
        simp only [vmGet, hv, Option.getD_none, nilHdr] at hcap
        omega
      | some hd => simp [vmGet, hv]
    have hown := inv.own k0 _ hcur
    refine ⟨?_, ?_, ?_, ?_, ?_, ?_⟩
    · show Frame h0 (sAppend grow st.h (vmGet st.vm k0) (st.h.read src)).1
      rw [hheap]
      refine ⟨inv.frame.1, fun a i ha => ?_⟩
      rw [write_other _ _ _ _ _ _ (Or.inl (by omega)), inv.frame.2 a i ha]
    · intro k hd hk
      show _ ∧ hd.arr < (sAppend grow st.h (vmGet st.vm k0) (st.h.read src)).1.next
      rw [hheap, write_next]
      simp only [vmSet] at hk
      split at hk
      · cases hk; rw [harr]; exact hown
      · exact inv.own k hd hk
    · intro k1 k2 hd1 hd2 h1 h2 he
      simp only [vmSet] at h1 h2
      split at h1 <;> split at h2
      · rename_i a b; rw [a, b]
      · rename_i a b; cases h1; rw [harr] at he; rw [a]; exact inv.inj _ _ _ _ hcur h2 he
      · rename_i a b; cases h2; rw [harr] at he; rw [b]; exact inv.inj _ _ _ _ h1 hcur he
      · exact inv.inj _ _ _ _ h1 h2 he
    · intro k o hm
      have := inv.glb k o hm
      refine ⟨?_, ?_⟩
      · show o.vh.arr < (sAppend grow st.h (vmGet st.vm k0) (st.h.read src)).1.next
        rw [hheap, write_next]; exact this.1
      · intro k' hd hk
        simp only [vmSet] at hk
        split at hk
        · cases hk; rw [harr]; exact this.2 k0 _ hcur
        · exact this.2 k' hd hk
    · intro k
      show (sAppend grow st.h (vmGet st.vm k0) (st.h.read src)).1.read (vmGet (vmSet st.vm k0 _) k) = _
      rw [habs]
      by_cases hk : k0 = k
      · subst hk
        rw [vmGet_set_same, read_sAppend, inv.vals, if_pos rfl, hx]
      · rw [vmGet_set_other _ _ (fun x => hk x.symm), if_neg hk, List.append_nil, ← inv.vals, hheap]
        apply read_vmGet_stable
        intro hd hv i _
        apply write_other
        left
        intro he
        exact hk (inv.inj _ _ _ _ hcur hv he.symm)
    · intro k
      show (glFor st.gl k).map (SOpt.abs (sAppend grow st.h (vmGet st.vm k0) (st.h.read src)).1) = _
      rw [habso, ← inv.opts, hheap]
      apply List.map_congr_left
      intro o ho
      have := (inv.glb k o (mem_glFor.mp ho)).2 k0 _ hcur
      simp only [SOpt.abs]
      rw [read_write_other _ _ _ _ _ (Or.inl (fun x => this x.symm))]
  · -- a new array
    have hfr : Frame st.h (sAppend grow st.h (vmGet st.vm k0) (st.h.read src)).1 := by
      rw [hheap]; exact alloc_frame _ _
    have hnx : (sAppend grow st.h (vmGet st.vm k0) (st.h.read src)).1.next = st.h.next + 1 := by
      rw [hheap]; rfl
    refine ⟨inv.frame.trans hfr, ?_, ?_, ?_, ?_, ?_⟩
    · intro k hd hk
      show _ ∧ hd.arr < (sAppend grow st.h (vmGet st.vm k0) (st.h.read src)).1.next
      rw [hnx]
      simp only [vmSet] at hk
      split at hk
      · cases hk; rw [harr]; exact ⟨inv.frame.1, Nat.lt_succ_self _⟩
      · have := inv.own k hd hk; exact ⟨this.1, Nat.lt_succ_of_lt this.2⟩
    · intro k1 k2 hd1 hd2 h1 h2 he
      simp only [vmSet] at h1 h2
      split at h1 <;> split at h2
      · rename_i a b; rw [a, b]
      · cases h1; rw [harr] at he; have := (inv.own _ _ h2).2; omega
      · cases h2; rw [harr] at he; have := (inv.own _ _ h1).2; omega
      · exact inv.inj _ _ _ _ h1 h2 he
    · intro k o hm
      have := inv.glb k o hm
      refine ⟨?_, ?_⟩
      · show o.vh.arr < (sAppend grow st.h (vmGet st.vm k0) (st.h.read src)).1.next
        rw [hnx]; exact Nat.lt_succ_of_lt this.1
      · intro k' hd hk
        simp only [vmSet] at hk
        split at hk
        · cases hk; rw [harr]; have := this.1; omega
        · exact this.2 k' hd hk
    · intro k
      show (sAppend grow st.h (vmGet st.vm k0) (st.h.read src)).1.read (vmGet (vmSet st.vm k0 _) k) = _
      rw [habs]
      by_cases hk : k0 = k
      · subst hk
        rw [vmGet_set_same, read_sAppend, inv.vals, if_pos rfl, hx]
      · rw [vmGet_set_other _ _ (fun x => hk x.symm), if_neg hk, List.append_nil, ← inv.vals]
        apply read_vmGet_stable
        intro hd hv i _
        exact hfr.2 _ _ (inv.own _ _ hv).2
    · intro k
      show (glFor st.gl k).map (SOpt.abs (sAppend grow st.h (vmGet st.vm k0) (st.h.read src)).1) = _
      rw [habso, ← inv.opts]
      apply List.map_congr_left
      intro o ho
      exact abs_frame hfr (inv.glb k o (mem_glFor.mp ho)).1

theorem RInv_fwd_step {h0 : VHeap} {pre : SLog} {st : RState} (inv : RInv h0 pre st)
    (copies : Bool) (V : SliceFacts) (grow : Nat → Nat → Nat)
    (k0 : Key) (o : SOpt) (c : Bool) (ho : o.vh.arr < h0.next) :
    RInv h0 (pre ++ [(k0, .fwd o c)]) (replayStep copies V grow st (k0, .fwd o c)) := by
  have habs : ∀ k, valsOf (itemsFor (absLog h0 (pre ++ [(k0, SItem.fwd o c)])) k)
      = valsOf (itemsFor (absLog h0 pre) k) := by
    intro k; rw [absLog_snoc, itemsFor_append, valsOf_append, vals_absItems_fwd, List.append_nil]
  have habso : ∀ k, optsOf (itemsFor (absLog h0 (pre ++ [(k0, SItem.fwd o c)])) k)
      = optsOf (itemsFor (absLog h0 pre) k) ++ (if k0 = k then [o.abs h0] else []) := by
    intro k; rw [absLog_snoc, itemsFor_append, optsOf_append, opts_absItems_fwd]
  have ho' : o.vh.arr < st.h.next := Nat.lt_of_lt_of_le ho inv.frame.1
  simp only [replayStep]
  by_cases hc : (c && copies) = true
  · -- deepCopy: a new exact-capacity array
    rw [if_pos hc]
    have hfr : Frame st.h (st.h.alloc (st.h.read o.vh)).1 := alloc_frame _ _
    refine ⟨inv.frame.trans hfr, ?_, inv.inj, ?_, ?_, ?_⟩
    · intro k hd hk
      have := inv.own k hd hk
      exact ⟨this.1, Nat.lt_succ_of_lt this.2⟩
    · intro k o1 hm
      rcases List.mem_append.mp hm with hm | hm
      · have := inv.glb k o1 hm
        exact ⟨Nat.lt_succ_of_lt this.1, this.2⟩
      · simp only [List.mem_singleton, Prod.mk.injEq] at hm
        obtain ⟨_, rfl⟩ := hm
        refine ⟨Nat.lt_succ_self _, ?_⟩
        intro k' hd hk
        have := (inv.own k' hd hk).2
        show hd.arr ≠ st.h.next
        omega
    · intro k
      show (st.h.alloc (st.h.read o.vh)).1.read (vmGet st.vm k) = _
      rw [habs, ← inv.vals]
      apply read_vmGet_stable
      intro hd hv i _
      exact hfr.2 _ _ (inv.own _ _ hv).2
    · intro k
      show (glFor (st.gl ++ [(k0, _)]) k).map (SOpt.abs (st.h.alloc (st.h.read o.vh)).1) = _
      rw [habso, glFor_snoc, List.map_append, ← inv.opts]
      congr 1
      · apply List.map_congr_left
        intro o1 ho1
        exact abs_frame hfr (inv.glb k o1 (mem_glFor.mp ho1)).1
      · by_cases hk : k0 = k
        · simp only [if_pos hk, List.map_cons, List.map_nil, SOpt.abs, alloc_id]
          have := read_alloc st.h (st.h.read o.vh) o.vh.len
          rw [read_length] at this
          rw [this, read_frame inv.frame ho]
        · simp [hk]
  · -- the Option itself: its slice still points into the array it came with
    rw [if_neg hc]
    refine ⟨inv.frame, inv.own, inv.inj, ?_, ?_, ?_⟩
    · intro k o1 hm
      rcases List.mem_append.mp hm with hm | hm
      · exact inv.glb k o1 hm
      · simp only [List.mem_singleton, Prod.mk.injEq] at hm
        obtain ⟨_, rfl⟩ := hm
        refine ⟨ho', ?_⟩
        intro k' hd hk
        have := (inv.own k' hd hk).1
        omega
    · intro k
      show st.h.read (vmGet st.vm k) = _
      rw [habs, inv.vals]
    · intro k
      show (glFor (st.gl ++ [(k0, o)]) k).map (SOpt.abs st.h) = _
      rw [habso, glFor_snoc, List.map_append, inv.opts]
      congr 1
      by_cases hk : k0 = k
      · simp [hk, abs_frame inv.frame ho]
      · simp [hk]

theorem RInv_fold (copies : Bool) {V : SliceFacts} (hV : V.valsGrowFromMapSlot = true)
    (grow : Nat → Nat → Nat) {h0 : VHeap} :
    ∀ (sl pre : SLog) (st : RState), RInv h0 pre st →
      (∀ ev ∈ sl, evNonEmpty ev ∧ (evHdr ev).arr < h0.next) →
      RInv h0 (pre ++ sl) (sl.foldl (replayStep copies V grow) st)
  | [], pre, st, inv, _ => by simpa using inv
  | ev :: sl, pre, st, inv, hsl => by
    have hev := hsl ev (by simp)
    have step : RInv h0 (pre ++ [ev]) (replayStep copies V grow st ev) := by
      rcases ev with ⟨k0, it⟩
      cases it with
      | vals src => exact RInv_vals_step inv copies hV grow k0 src hev.2 hev.1
      | fwd o c => exact RInv_fwd_step inv copies V grow k0 o c hev.2
    have := RInv_fold copies hV grow sl (pre ++ [ev]) _ step (fun e he => hsl e (by simp [he]))
    simpa using this

theorem RInv_init (h0 : VHeap) : RInv h0 [] { h := h0, vm := fun _ => none, gl := [] } where
  frame := Frame.refl _
  own := fun k hd hk => by cases hk
  inj := fun _ _ _ _ hk => by cases hk
  glb := fun _ _ hm => by cases hm
  vals := fun k => rfl
  opts := fun k => rfl

/-- the lists `extractOption` left read – on heap `h` – as the pure log `log` says -/
def Rel (h : VHeap) (lv : LevelS) (log : Log) : Prop :=
  ∀ k, h.read (vmGet lv.vm k) = valsOf (itemsFor log k) ∧
       (glFor lv.gl k).map (SOpt.abs h) = optsOf (itemsFor log k)

/-- every slice of the level points to an existing array -/
def Bounded (h : VHeap) (lv : LevelS) : Prop :=
  (∀ k hd, lv.vm k = some hd → hd.arr < h.next) ∧ (∀ k o, (k, o) ∈ lv.gl → o.vh.arr < h.next)

theorem Rel_frame {h h' : VHeap} (hf : Frame h h') {lv : LevelS} {log : Log} (hb : Bounded h lv)
    (hr : Rel h lv log) : Rel h' lv log := by
  intro k
  refine ⟨?_, ?_⟩
  · rw [← (hr k).1]
    apply read_vmGet_stable
    intro hd hv i _
    exact hf.2 _ _ (hb.1 k hd hv)
  · rw [← (hr k).2]
    apply List.map_congr_left
    intro o ho
    exact abs_frame hf (hb.2 k o (mem_glFor.mp ho))

theorem Bounded_frame {h h' : VHeap} (hf : Frame h h') {lv : LevelS} (hb : Bounded h lv) : Bounded h' lv :=
  ⟨fun k hd hk => Nat.lt_of_lt_of_le (hb.1 k hd hk) hf.1, fun k o hm => Nat.lt_of_lt_of_le (hb.2 k o hm) hf.1⟩

/-- **one level.**  `extractOption` on the heap rejects exactly when the pure `extract` rejects
    the Options as they read now; otherwise its lists read as the pure log; arrays that existed
    before are untouched. -/
theorem extractS_refines {F : Facts} {V : SliceFacts} (hV : V.valsGrowFromMapSlot = true)
    (grow : Nat → Nat → Nat) (nodes : Nodes) (opts : List SOpt) (h : VHeap)
    (hb : ∀ o ∈ opts, o.vh.arr < h.next) :
    Frame h (extractS F V grow nodes opts h).1 ∧
    match (extractS F V grow nodes opts h).2 with
    | .error e => extract F nodes (opts.map (SOpt.abs h)) = .error e
    | .ok lv => ∃ log, extract F nodes (opts.map (SOpt.abs h)) = .ok log ∧
        Rel (extractS F V grow nodes opts h).1 lv log ∧ Bounded (extractS F V grow nodes opts h).1 lv := by
  have habs := sExtract_abs F h nodes opts
  unfold extractS
  cases hs : sExtract F nodes opts with
  | error e =>
    rw [hs] at habs
    exact ⟨Frame.refl _, habs.symm⟩
  | ok sl =>
    rw [hs] at habs
    have hsrc : ∀ ev ∈ sl, evNonEmpty ev ∧ (evHdr ev).arr < h.next := by
      intro ev hev
      obtain ⟨h1, o, ho, h2⟩ := sExtract_srcs hs hev
      exact ⟨h1, by rw [h2]; exact hb o ho⟩
    have inv := RInv_fold F.nestedCopies hV grow sl [] _ (RInv_init h) hsrc
    simp only [List.nil_append] at inv
    refine ⟨inv.frame, absLog h sl, habs.symm, fun k => ⟨inv.vals k, inv.opts k⟩, ?_, ?_⟩
    · intro k hd hk; exact (inv.own k hd hk).2
    · intro k o hm; exact (inv.glb k o hm).1

/-! ### the whole nested run -/

theorem nodeHandlers_shell (h : VHeap) (opts : List SOpt) (k : Key) :
    nodeHandlers (opts.map SOpt.shell) k = nodeHandlers (opts.map (SOpt.abs h)) k := by
  induction opts with
  | nil => rfl
  | cons o os ih =>
    simp only [nodeHandlers, List.map_cons, List.flatMap_cons] at ih ⊢
    rw [ih]; rfl

theorem graphHandlers_shell (h : VHeap) (opts : List SOpt) :
    graphHandlers (opts.map SOpt.shell) = graphHandlers (opts.map (SOpt.abs h)) := by
  induction opts with
  | nil => rfl
  | cons o os ih =>
    simp only [graphHandlers, List.map_cons, List.flatMap_cons] at ih ⊢
    rw [ih]; rfl

theorem map_abs_frame {h h' : VHeap} (hf : Frame h h') {opts : List SOpt}
    (hb : ∀ o ∈ opts, o.vh.arr < h.next) : opts.map (SOpt.abs h') = opts.map (SOpt.abs h) :=
  List.map_congr_left (fun o ho => abs_frame hf (hb o ho))

mutual
theorem runNodeSW_refines {F : Facts} {K : KeyFacts} {R : ResumeFacts} {V : SliceFacts}
    (hV : V.valsGrowFromMapSlot = true) (grow : Nat → Nat → Nat) (par : Paradigm) :
    ∀ (n : WNode) (part : Part) (pre : Path) (gH : List Nat) (opts : List SOpt) (lv : LevelS) (h : VHeap)
      (log : Log),
      (∀ o ∈ opts, o.vh.arr < h.next) → Rel h lv log → Bounded h lv →
      Frame h (runNodeSW F K R V grow par pre gH opts lv part h n).1 ∧
      (runNodeSW F K R V grow par pre gH opts lv part h n).2
        = runNodeWP F K R par pre gH (opts.map (SOpt.abs h)) log part n
  | .comp k ty w, part, pre, gH, opts, lv, h, log, _, hr, _ => by
    simp only [runNodeSW, runNodeWP]
    by_cases hs : part.skips = true
    · simp only [hs, if_true]; exact ⟨Frame.refl _, trivial⟩
    · simp only [hs]
      refine ⟨Frame.refl _, ?_⟩
      simp only [deliver, nodeHandlers_shell h]
      by_cases hf : w.forwards K par = true
      · simp only [hf, if_true, (hr k).1]; rfl
      · simp only [hf]; rfl
  | .pass k w, part, pre, gH, opts, lv, h, log, _, _, _ => ⟨Frame.refl _, rfl⟩
  | .graph k ch w, part, pre, gH, opts, lv, h, log, hob, hr, hb => by
    by_cases hs : part.skips = true
    · simp only [runNodeSW, runNodeWP, hs, if_true]; exact ⟨Frame.refl _, trivial⟩
    -- the Options the nested graph is called with
    have hsub : (if w.forwards K par = true then glFor lv.gl k else []).map (SOpt.abs h)
        = optsOf (deliver K par w (itemsFor log k)) := by
      unfold deliver
      by_cases hf : w.forwards K par = true
      · simp only [hf, if_true, (hr k).2]
      · simp only [hf]; rfl
    have hsb : ∀ o ∈ (if w.forwards K par = true then glFor lv.gl k else []), o.vh.arr < h.next := by
      intro o ho
      by_cases hf : w.forwards K par = true
      · simp only [hf, if_true] at ho; exact hb.2 k o (mem_glFor.mp ho)
      · simp only [hf] at ho; cases ho
    generalize hsubdef : (if w.forwards K par = true then glFor lv.gl k else []) = sub at hsub hsb
    have hlevel := extractS_refines (F := F) hV grow ch.erase sub h hsb
    simp only [runNodeSW, runNodeWP, hsubdef, hs]
    rw [← hsub, nodeHandlers_shell h, graphHandlers_shell h]
    rcases hex : extractS F V grow ch.erase sub h with ⟨h1, res⟩
    rw [hex] at hlevel
    cases res with
    | error e =>
      simp only [] at hlevel ⊢
      rw [hlevel.2]
      exact ⟨hlevel.1, rfl⟩
    | ok lv' =>
      obtain ⟨hf1, log', hlog', hrel', hbd'⟩ := hlevel
      simp only [] at hf1 hrel' hbd' ⊢
      rw [hlog']
      have hsb1 : ∀ o ∈ sub, o.vh.arr < h1.next := fun o ho => Nat.lt_of_lt_of_le (hsb o ho) hf1.1
      generalize hnH : (if (part.restored && !R.restoredTaskGetsNodeCallbacks) = true then []
        else nodeHandlers (opts.map (SOpt.abs h)) k) = nH
      have ih := runNodesSW_refines (F := F) (K := K) (R := R) hV grow par ch part (pre ++ [k])
        ((gH ++ nH) ++ graphHandlers (sub.map (SOpt.abs h)))
        sub lv' h1 log' hsb1 hrel' hbd'
      rw [map_abs_frame hf1 hsb] at ih
      rcases hrn : runNodesSW F K R V grow par (pre ++ [k])
        ((gH ++ nH) ++ graphHandlers (sub.map (SOpt.abs h)))
        sub lv' part h1 ch with ⟨h2, res2⟩
      rw [hrn] at ih
      simp only [] at ih ⊢
      rw [← ih.2]
      cases res2 with
      | error e => exact ⟨hf1.trans ih.1, rfl⟩
      | ok es => exact ⟨hf1.trans ih.1, rfl⟩
theorem runNodesSW_refines {F : Facts} {K : KeyFacts} {R : ResumeFacts} {V : SliceFacts}
    (hV : V.valsGrowFromMapSlot = true) (grow : Nat → Nat → Nat) (par : Paradigm) :
    ∀ (ns : WNodes) (part : Part) (pre : Path) (gH : List Nat) (opts : List SOpt) (lv : LevelS) (h : VHeap)
      (log : Log),
      (∀ o ∈ opts, o.vh.arr < h.next) → Rel h lv log → Bounded h lv →
      Frame h (runNodesSW F K R V grow par pre gH opts lv part h ns).1 ∧
      (runNodesSW F K R V grow par pre gH opts lv part h ns).2
        = runNodesWP F K R par pre gH (opts.map (SOpt.abs h)) log part ns
  | .nil, part, pre, gH, opts, lv, h, log, _, _, _ => ⟨Frame.refl _, rfl⟩
  | .cons n ns, part, pre, gH, opts, lv, h, log, hob, hr, hb => by
    have ih1 := runNodeSW_refines (F := F) (K := K) (R := R) hV grow par n (part.node n.key) pre gH opts lv h log hob hr hb
    simp only [runNodesSW, runNodesWP]
    rcases hn : runNodeSW F K R V grow par pre gH opts lv (part.node n.key) h n with ⟨h1, res1⟩
    rw [hn] at ih1
    simp only [] at ih1 ⊢
    rw [← ih1.2]
    cases res1 with
    | error e => exact ⟨ih1.1, rfl⟩
    | ok a =>
      simp only []
      have hob1 : ∀ o ∈ opts, o.vh.arr < h1.next := fun o ho => Nat.lt_of_lt_of_le (hob o ho) ih1.1.1
      have ih2 := runNodesSW_refines (F := F) (K := K) (R := R) hV grow par ns (part.rest n.key) pre gH opts lv h1 log hob1
        (Rel_frame ih1.1 hb hr) (Bounded_frame ih1.1 hb)
      rw [map_abs_frame ih1.1 hob] at ih2
      rcases hns : runNodesSW F K R V grow par pre gH opts lv (part.rest n.key) h1 ns with ⟨h2, res2⟩
      rw [hns] at ih2
      simp only [] at ih2 ⊢
      rw [← ih2.2]
      cases res2 with
      | error e => exact ⟨ih1.1.trans ih2.1, rfl⟩
      | ok b => exact ⟨ih1.1.trans ih2.1, rfl⟩
end

/-- **one call.**  On any heap on which the caller's Options exist, the call on the heap – fresh,
    interrupted or resuming – is the pure `runWP` of the Options as they read at the time of the
    call, and it leaves every existing array as it was (all cells, also those beyond a slice's length). -/
theorem runSW_refines {F : Facts} {K : KeyFacts} {R : ResumeFacts} {V : SliceFacts}
    (hV : V.valsGrowFromMapSlot = true)
    (grow : Nat → Nat → Nat) (par : Paradigm) (part : Part) (g : WNodes) (opts : List SOpt) (h : VHeap)
    (hb : ∀ o ∈ opts, o.vh.arr < h.next) :
    Frame h (runSW F K R V grow par part g opts h).1 ∧
    (runSW F K R V grow par part g opts h).2 = runWP F K R par part g (opts.map (SOpt.abs h)) := by
  have hlevel := extractS_refines (F := F) hV grow g.erase opts h hb
  unfold runSW runWP
  rw [graphHandlers_shell h]
  rcases hex : extractS F V grow g.erase opts h with ⟨h1, res⟩
  rw [hex] at hlevel
  cases res with
  | error e =>
    simp only [] at hlevel ⊢
    rw [hlevel.2]
    exact ⟨hlevel.1, rfl⟩
  | ok lv =>
    obtain ⟨hf1, log, hlog, hrel, hbd⟩ := hlevel
    simp only [] at hf1 hrel hbd ⊢
    rw [hlog]
    have hb1 : ∀ o ∈ opts, o.vh.arr < h1.next := fun o ho => Nat.lt_of_lt_of_le (hb o ho) hf1.1
    have ih := runNodesSW_refines (F := F) (K := K) (R := R) hV grow par g part []
      (graphHandlers (opts.map (SOpt.abs h))) opts lv h1 log hb1 hrel hbd
    rw [map_abs_frame hf1 hb] at ih
    rcases hrn : runNodesSW F K R V grow par [] (graphHandlers (opts.map (SOpt.abs h))) opts lv part h1 g
      with ⟨h2, res2⟩
    rw [hrn] at ih
    simp only [] at ih ⊢
    rw [← ih.2]
    cases res2 with
    | error e => exact ⟨hf1.trans ih.1, rfl⟩
    | ok es => exact ⟨hf1.trans ih.1, rfl⟩

theorem pickS_abs (h : VHeap) (store : List SOpt) (ixs : List Nat) :
    (pickS store ixs).map (SOpt.abs h) = pick (store.map (SOpt.abs h)) ixs := by
  induction ixs with
  | nil => rfl
  | cons i is ih =>
    simp only [pickS, pick, List.filterMap_cons, List.getElem?_map] at ih ⊢
    cases store[i]? with
    | none => simpa using ih
    | some o => simpa using ih

theorem mem_pickS {store : List SOpt} {ixs : List Nat} {o : SOpt} (h : o ∈ pickS store ixs) : o ∈ store := by
  simp only [pickS, List.mem_filterMap] at h
  obtain ⟨i, _, hi⟩ := h
  exact List.mem_of_getElem? hi

theorem storeAfterS_copies {F : Facts} (hC : F.nestedCopies = true) (h : VHeap) (store : List SOpt)
    (c : Call) : storeAfterS F h store c = store := by
  unfold storeAfterS storeAfter
  rw [storeAfterAux_copies hC]
  induction store with
  | nil => rfl
  | cons o os ih => simp only [List.map_cons, List.zip_cons_cons, ih]; rfl

/-- **sequences of calls** – plain, interrupted, resuming – sharing Option values, the heap and
    the checkpoint store: every call is the pure `runWP` (of the part the sequence determines) of
    the Options as the caller built them, the caller's Option values are unchanged, and no cell
    of an array that existed before the calls has changed. -/
theorem runCallsSW_refines {F : Facts} {K : KeyFacts} {R : ResumeFacts} {V : SliceFacts}
    (hC : F.nestedCopies = true)
    (hV : V.valsGrowFromMapSlot = true) (grow : Nat → Nat → Nat) :
    ∀ (cs : List CallP) (saved : Option Path) (h : VHeap) (store : List SOpt),
      (∀ o ∈ store, o.vh.arr < h.next) →
      (runCallsSW F K R V grow saved h store cs).1
          = callsSpec F K R (store.map (SOpt.abs h)) saved cs ∧
      (runCallsSW F K R V grow saved h store cs).2.1 = store ∧
      Frame h (runCallsSW F K R V grow saved h store cs).2.2
  | [], saved, h, store, _ => ⟨rfl, rfl, Frame.refl _⟩
  | c :: cs, saved, h, store, hb => by
    have hp : ∀ o ∈ pickS store c.ixs, o.vh.arr < h.next := fun o ho => hb o (mem_pickS ho)
    have h1 := runSW_refines (F := F) (K := K) (R := R) hV grow c.par (c.ask.part saved) c.g (pickS store c.ixs) h hp
    have hb1 : ∀ o ∈ store, o.vh.arr < (runSW F K R V grow c.par (c.ask.part saved) c.g (pickS store c.ixs) h).1.next :=
      fun o ho => Nat.lt_of_lt_of_le (hb o ho) h1.1.1
    have ih := runCallsSW_refines (K := K) (R := R) hC hV grow cs
      (c.ask.savedAfter saved (runSW F K R V grow c.par (c.ask.part saved) c.g (pickS store c.ixs) h).2) _ store hb1
    simp only [runCallsSW, storeAfterS_copies hC, callsSpec]
    refine ⟨?_, ih.2.1, h1.1.trans ih.2.2⟩
    rw [ih.1, h1.2, pickS_abs, map_abs_frame h1.1 hb]

/-! ### the caller's construction of the store -/

/-- a derived Option derives from an Option built before it -/
def storeOpsWf : List StoreOp → Nat → Bool
  | [], _ => true
  | .fresh _ _ _ _ _ :: ops, n => storeOpsWf ops (n + 1)
  | .derived src _ :: ops, n => decide (src < n) && storeOpsWf ops (n + 1)

/-- what the construction means, capacities aside: the Option values of Model/C16.lean -/
def specStoreStep (acc : List Opt) : StoreOp → List Opt
  | .fresh ty vals _ hs ps => acc ++ [{ ty := ty, vals := vals, handlers := hs, paths := ps }]
  | .derived src ps => acc ++ [{ (acc[src]?).getD default with paths := ps }]

def specStore (ops : List StoreOp) : List Opt := ops.foldl specStoreStep []

theorem buildStore_spec : ∀ (ops : List StoreOp) (h : VHeap) (st : List SOpt),
    storeOpsWf ops st.length = true → (∀ o ∈ st, o.vh.arr < h.next) →
    Frame h (buildStore ops (h, st)).1 ∧
    (∀ o ∈ (buildStore ops (h, st)).2, o.vh.arr < (buildStore ops (h, st)).1.next) ∧
    (buildStore ops (h, st)).2.map (SOpt.abs (buildStore ops (h, st)).1)
      = ops.foldl specStoreStep (st.map (SOpt.abs h))
  | [], h, st, _, hb => ⟨Frame.refl _, hb, rfl⟩
  | .fresh ty vals spare hs ps :: ops, h, st, hwf, hb => by
    simp only [storeOpsWf] at hwf
    simp only [buildStore, List.foldl_cons, specStoreStep]
    have hfr := alloc_frame h vals
    have hb' : ∀ o ∈ st ++ [(⟨ty, ⟨(h.alloc vals).2, vals.length, vals.length + spare⟩, hs, ps⟩ : SOpt)],
        o.vh.arr < (h.alloc vals).1.next := by
      intro o ho
      rcases List.mem_append.mp ho with ho | ho
      · exact Nat.lt_succ_of_lt (hb o ho)
      · simp only [List.mem_singleton] at ho; subst ho; exact Nat.lt_succ_self _
    have ih := buildStore_spec ops (h.alloc vals).1 _ (by simpa using hwf) hb'
    refine ⟨hfr.trans ih.1, ih.2.1, ?_⟩
    rw [ih.2.2, List.map_append, map_abs_frame hfr hb]
    simp [SOpt.abs, alloc_id, read_alloc]
  | .derived src ps :: ops, h, st, hwf, hb => by
    simp only [storeOpsWf, Bool.and_eq_true, decide_eq_true_eq] at hwf
    simp only [buildStore, List.foldl_cons, specStoreStep]
    obtain ⟨o0, ho0⟩ : ∃ o0, st[src]? = some o0 := ⟨st[src], List.getElem?_eq_getElem hwf.1⟩
    have hb' : ∀ o ∈ st ++ [{ (st[src]?).getD default with paths := ps }], o.vh.arr < h.next := by
      intro o ho
      rcases List.mem_append.mp ho with ho | ho
      · exact hb o ho
      · simp only [List.mem_singleton] at ho; subst ho
        simp only [ho0, Option.getD_some]
        exact hb o0 (List.mem_of_getElem? ho0)
    have ih := buildStore_spec ops h _ (by simpa using hwf.2) hb'
    refine ⟨ih.1, ih.2.1, ?_⟩
    rw [ih.2.2, List.map_append]
    simp [ho0, SOpt.abs]

/-- a store built from nothing: every Option points to an array of the heap built with it, and
    reads as the specification says -/
theorem buildStore_empty (ops : List StoreOp) (hwf : storeOpsWf ops 0 = true) :
    (∀ o ∈ (buildStore ops (VHeap.empty, [])).2, o.vh.arr < (buildStore ops (VHeap.empty, [])).1.next) ∧
    (buildStore ops (VHeap.empty, [])).2.map (SOpt.abs (buildStore ops (VHeap.empty, [])).1) = specStore ops := by
  have := buildStore_spec ops VHeap.empty [] hwf (by intro o ho; cases ho)
  exact ⟨this.2.1, this.2.2⟩

end EinoV.C16
