/-
  C01 — helper lemmas about the engine loop (no property statements here).
-/
import EinoV.Model.Engine
import EinoV.Model.GraphBuild

namespace EinoV.Engine

theorem loop_trace_length {V} (ops : ValOps V) (r : Runner V) (sched : Sched V) :
    ∀ (fuel : Nat) (cm : Chans V) (tasks : List (Key × V)) (tr : Trace V),
      (loop ops r sched fuel cm tasks tr).trace.length ≤ tr.length + fuel := by
  intro fuel
  induction fuel with
  | zero => intro cm tasks tr; simp [loop]
  | succ n ih =>
    intro cm tasks tr
    unfold loop
    simp only
    split
    · simp
    · split
      · simp
      · split
        · simp
        · simp
        · have := ih ‹_› ‹_› (tasks :: tr)
          simp only [List.length_cons] at this
          omega

/-- Result of running out of fuel: the run *fails* (it does not go on). -/
theorem loop_zero_result {V} (ops : ValOps V) (r : Runner V) (sched : Sched V) (cm : Chans V) (ts : List (Key × V)) (tr : Trace V) :
    (loop ops r sched 0 cm ts tr).result = .error { cls := if r.dag then .fuel else .maxSteps } := by
  simp [loop]

end EinoV.Engine
