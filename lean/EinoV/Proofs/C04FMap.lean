import EinoV.Model.C04FMap
import EinoV.Proofs.C04Lazy
namespace EinoV.C04
open EinoV.Engine

/-! ### bookkeeping -/

theorem consOk_ok {k : Key} {a : Except Err FVal} {b : Except Err FChunk} {t : FChunk}
    (h : consOk k a b = .ok t) : ∃ v r, a = .ok v ∧ b = .ok r ∧ t = (k, v) :: r := by
  cases a with
  | error e => simp [consOk] at h
  | ok v =>
    cases b with
    | error e => simp [consOk] at h
    | ok r =>
      simp only [consOk, Except.ok.injEq] at h
      exact ⟨v, r, rfl, rfl, h.symm⟩

theorem consOk_err {k : Key} {a : Except Err FVal} {b : Except Err FChunk} {e : Err}
    (h : consOk k a b = .error e) : (∃ e', a = .error e') ∨ (∃ e', b = .error e') := by
  cases a with
  | error e' => exact .inl ⟨e', rfl⟩
  | ok v =>
    cases b with
    | error e' => exact .inr ⟨e', rfl⟩
    | ok r => simp [consOk] at h

theorem consOk_of_ok (k : Key) (v : FVal) (r : FChunk) : consOk k (.ok v) (.ok r) = .ok ((k, v) :: r) := rfl

theorem consOk_left_err (k : Key) (e : Err) (b : Except Err FChunk) : consOk k (.error e) b = .error e := by
  cases b <;> rfl

theorem consOk_right_err (k : Key) (a : Except Err FVal) (e : Err) : ∃ e', consOk k a (.error e) = .error e' := by
  cases a with
  | ok v => exact ⟨e, rfl⟩
  | error e' => exact ⟨e', rfl⟩

theorem get_cons_self (k : Key) (v : FVal) (r : FChunk) : FChunk.get ((k, v) :: r) k = v := by
  simp [FChunk.get, List.lookup]

theorem get_cons_ne (k k' : Key) (v : FVal) (r : FChunk) (h : k' ≠ k) :
    FChunk.get ((k, v) :: r) k' = FChunk.get r k' := by
  have : (k' == k) = false := by simpa using h
  simp [FChunk.get, List.lookup, this]

theorem get_nil (k : Key) : FChunk.get [] k = .absent := rfl

/-- the checker returns the value it admits -/
theorem checkVal_ok {m : FMapping} {v v' : FVal} (hv : v ≠ .absent) (h : checkVal m v = .ok v') : v' = v := by
  cases v with
  | absent => exact absurd rfl hv
  | nilV =>
    simp only [checkVal] at h
    split at h
    · cases h
    · simpa using h.symm
  | wrong =>
    simp only [checkVal] at h
    split at h
    · cases h
    · simpa using h.symm
  | good s => simpa [checkVal] using h.symm

theorem checkVal_good (m : FMapping) (s : String) : checkVal m (.good s) = .ok (.good s) := rfl

/-! ### one chunk (with the checker that visits present keys only) -/

/-- a converted chunk carries only mapped targets -/
theorem fmChunk_keys (ms : List FMapping) (c t : FChunk) (h : fmChunk true ms c = .ok t) (k : Key)
    (hk : k ∉ ms.map (·.dst)) : t.get k = .absent := by
  induction ms generalizing t with
  | nil =>
    simp only [fmChunk, Except.ok.injEq] at h
    subst h; rfl
  | cons m ms ih =>
    have hk' : k ≠ m.dst ∧ k ∉ ms.map (·.dst) := by simpa using hk
    simp only [fmChunk] at h
    split at h
    · simp only [Bool.true_or, ↓reduceIte] at h
      exact ih t h hk'.2
    · obtain ⟨v, r, _, hr, ht⟩ := consOk_ok h
      subst ht
      rw [get_cons_ne _ _ _ _ hk'.1]
      exact ih r hr hk'.2

/-- a converted chunk carries, under each target, what the chunk carries under the source key, and
    the checker admitted it -/
theorem fmChunk_ok_get (ms : List FMapping) (c t : FChunk) (h : fmChunk true ms c = .ok t)
    (hnd : (ms.map (·.dst)).Nodup) :
    ∀ m ∈ ms, t.get m.dst = c.get m.src ∧
      (c.get m.src = .absent ∨ checkVal m (c.get m.src) = .ok (c.get m.src)) := by
  induction ms generalizing t with
  | nil => intro m hm; cases hm
  | cons m0 ms ih =>
    have hnd' : m0.dst ∉ ms.map (·.dst) ∧ (ms.map (·.dst)).Nodup := by simpa using hnd
    simp only [fmChunk] at h
    intro m hm
    split at h
    · rename_i habs
      simp only [Bool.true_or, ↓reduceIte] at h
      rcases List.mem_cons.mp hm with rfl | hm'
      · exact ⟨by rw [habs]; exact fmChunk_keys ms c t h _ hnd'.1, .inl habs⟩
      · exact ih t h hnd'.2 m hm'
    · rename_i hpres
      obtain ⟨v, r, hv, hr, ht⟩ := consOk_ok h
      subst ht
      have hvv : v = c.get m0.src := checkVal_ok hpres hv
      rcases List.mem_cons.mp hm with rfl | hm'
      · refine ⟨by rw [get_cons_self]; exact hvv, .inr ?_⟩
        rw [hv, hvv]
      · have hne : m.dst ≠ m0.dst := by
          intro heq
          exact hnd'.1 (heq ▸ List.mem_map_of_mem hm')
        rw [get_cons_ne _ _ _ _ hne]
        exact ih r hr hnd'.2 m hm'

/-- a chunk is refused only for a value it carries -/
theorem fmChunk_err (ms : List FMapping) (c : FChunk) (e : Err) (h : fmChunk true ms c = .error e) :
    ∃ m ∈ ms, c.get m.src ≠ .absent ∧ ∃ e', checkVal m (c.get m.src) = .error e' := by
  induction ms generalizing e with
  | nil => simp [fmChunk] at h
  | cons m0 ms ih =>
    simp only [fmChunk] at h
    split at h
    · simp only [Bool.true_or, ↓reduceIte] at h
      obtain ⟨m, hm, h1, h2⟩ := ih _ h
      exact ⟨m, List.mem_cons_of_mem _ hm, h1, h2⟩
    · rename_i hpres
      rcases consOk_err h with ⟨e', he'⟩ | ⟨e', he'⟩
      · exact ⟨m0, List.mem_cons_self, hpres, e', he'⟩
      · obtain ⟨m, hm, h1, h2⟩ := ih _ he'
        exact ⟨m, List.mem_cons_of_mem _ hm, h1, h2⟩

/-! ### the converted stream -/

/-- chunk by chunk, `ts` are the converted `cs` -/
inductive AllConv (ms : List FMapping) : List FChunk → List FChunk → Prop
  | nil : AllConv ms [] []
  | cons {c t : FChunk} {cs ts : List FChunk} : fmChunk true ms c = .ok t → AllConv ms cs ts → AllConv ms (c :: cs) (t :: ts)

theorem AllConv.mem_left {ms : List FMapping} {l1 l2 : List FChunk}
    (h : AllConv ms l1 l2) {a : FChunk} (ha : a ∈ l1) : ∃ b, b ∈ l2 ∧ fmChunk true ms a = .ok b := by
  induction h with
  | nil => cases ha
  | cons hab _ ih =>
    rcases List.mem_cons.mp ha with rfl | ha'
    · exact ⟨_, List.mem_cons_self, hab⟩
    · obtain ⟨b, hb, hr⟩ := ih ha'
      exact ⟨b, List.mem_cons_of_mem _ hb, hr⟩

theorem fmStream_none (ms : List FMapping) (cs : List FChunk) (h : (fmStream true ms cs).err = none) :
    AllConv ms cs (fmStream true ms cs).chunks := by
  induction cs with
  | nil => exact .nil
  | cons c cs ih =>
    simp only [fmStream] at h ⊢
    split at h
    · simp at h
    · rename_i t ht
      exact .cons ht (ih h)

theorem fmStream_some (ms : List FMapping) (cs : List FChunk) (e : Err) (h : (fmStream true ms cs).err = some e) :
    ∃ c ∈ cs, ∃ e', fmChunk true ms c = .error e' := by
  induction cs with
  | nil => simp [fmStream] at h
  | cons c cs ih =>
    simp only [fmStream] at h
    split at h
    · rename_i e' he'
      exact ⟨c, List.mem_cons_self, e', he'⟩
    · obtain ⟨c', hc', h'⟩ := ih h
      exact ⟨c', List.mem_cons_of_mem _ hc', h'⟩

/-- the converted chunks carry under a target exactly what the chunks carry under its source key -/
theorem occ_transfer (ms : List FMapping) (hnd : (ms.map (·.dst)).Nodup) (m : FMapping) (hm : m ∈ ms)
    (cs ts : List FChunk) (h : AllConv ms cs ts) :
    occ m.dst ts = occ m.src cs := by
  unfold occ
  congr 1
  induction h with
  | nil => rfl
  | cons hct _ ih =>
    simp only [List.map_cons, ih]
    rw [(fmChunk_ok_get ms _ _ hct hnd m hm).1]

theorem mem_occ {k : Key} {cs : List FChunk} {v : FVal} (h : v ∈ occ k cs) :
    v ≠ .absent ∧ ∃ c ∈ cs, c.get k = v := by
  unfold occ at h
  rw [List.mem_filter] at h
  obtain ⟨hmem, hne⟩ := h
  obtain ⟨c, hc, hcv⟩ := List.mem_map.mp hmem
  exact ⟨by simpa using hne, c, hc, hcv⟩

theorem occ_mem {k : Key} {cs : List FChunk} {c : FChunk} (hc : c ∈ cs) (hv : c.get k ≠ .absent) :
    c.get k ∈ occ k cs := by
  unfold occ
  rw [List.mem_filter]
  exact ⟨List.mem_map_of_mem hc, by simpa using hv⟩

/-! ### concatenation -/

theorem filter_notNil_of_allGood (l : List FVal) (h : ∀ v ∈ l, v.isGood = true) :
    l.filter (· != .nilV) = l := by
  rw [List.filter_eq_self]
  intro v hv
  have := h v hv
  cases v <;> simp_all [FVal.isGood]

/-- a well-formed split concatenates: nothing, the single value, or the joined string -/
theorem concatVals_split (l : List FVal) (h : SplitOK l) :
    ∃ v, concatVals l = .ok v ∧ (∀ w, l = [w] → v = w) ∧ (2 ≤ l.length → v.isGood = true) := by
  match l, h with
  | [], _ => exact ⟨.absent, rfl, by simp, by simp⟩
  | [w], _ => exact ⟨w, rfl, by simp, by simp⟩
  | w1 :: w2 :: rest, h =>
    have hall : ∀ v ∈ w1 :: w2 :: rest, v.isGood = true := by
      rcases h with h | h
      · exact h
      · simp at h
    have hf := filter_notNil_of_allGood _ hall
    refine ⟨.good (String.join ((w1 :: w2 :: rest).map FVal.str)), ?_, by simp, fun _ => rfl⟩
    have hallb : (w1 :: w2 :: rest).all FVal.isGood = true := List.all_eq_true.mpr hall
    simp only [concatVals, hf, hallb, ↓reduceIte]

theorem concatCols_exists (cs : List FChunk) (ks : List Key) (h : ∀ k ∈ ks, ∃ v, concatVals (occ k cs) = .ok v) :
    ∃ w, concatCols cs ks = .ok w := by
  induction ks with
  | nil => exact ⟨[], rfl⟩
  | cons k ks ih =>
    obtain ⟨v, hv⟩ := h k List.mem_cons_self
    obtain ⟨r, hr⟩ := ih (fun k' hk' => h k' (List.mem_cons_of_mem _ hk'))
    exact ⟨(k, v) :: r, by simp only [concatCols, hv, hr, consOk]⟩

theorem concatCols_get (cs : List FChunk) (ks : List Key) (w : FChunk) (h : concatCols cs ks = .ok w)
    (k : Key) (hk : k ∈ ks) : concatVals (occ k cs) = .ok (w.get k) := by
  induction ks generalizing w with
  | nil => cases hk
  | cons k0 ks ih =>
    simp only [concatCols] at h
    obtain ⟨v, r, hv, hr, hw⟩ := consOk_ok h
    subst hw
    by_cases hkk : k = k0
    · subst hkk
      rw [get_cons_self]; exact hv
    · rw [get_cons_ne _ _ _ _ hkk]
      rcases List.mem_cons.mp hk with h' | h'
      · exact absurd h' hkk
      · exact ih r hr h'

/-- concatenating over the mapped targets, each of which concatenates to `f m` -/
theorem concatCols_dsts (ts : List FChunk) (ms : List FMapping) (f : FMapping → FVal)
    (h : ∀ m ∈ ms, concatVals (occ m.dst ts) = .ok (f m)) :
    concatCols ts (ms.map (·.dst)) = .ok (ms.map fun m => (m.dst, f m)) := by
  induction ms with
  | nil => rfl
  | cons m ms ih =>
    simp only [List.map_cons, concatCols, h m List.mem_cons_self,
      ih (fun m' hm' => h m' (List.mem_cons_of_mem _ hm')), consOk]

/-! ### value mode -/

theorem fmValue_ok (ms : List FMapping) (whole : FChunk)
    (h : ∀ m ∈ ms, whole.get m.src ≠ .absent ∧ checkVal m (whole.get m.src) = .ok (whole.get m.src)) :
    fmValue ms whole = .ok (ms.map fun m => (m.dst, whole.get m.src)) := by
  induction ms with
  | nil => rfl
  | cons m ms ih =>
    obtain ⟨h1, h2⟩ := h m List.mem_cons_self
    simp only [fmValue, h1, ↓reduceIte, h2, ih (fun m' hm' => h m' (List.mem_cons_of_mem _ hm')), consOk,
      List.map_cons]

theorem fmValue_err (ms : List FMapping) (whole : FChunk) (m : FMapping) (hm : m ∈ ms)
    (h : whole.get m.src = .absent ∨ ∃ e, checkVal m (whole.get m.src) = .error e) :
    ∃ e, fmValue ms whole = .error e := by
  induction ms with
  | nil => cases hm
  | cons m0 ms ih =>
    simp only [fmValue]
    split
    · exact ⟨_, rfl⟩
    · rename_i hpres
      rcases List.mem_cons.mp hm with rfl | hm'
      · rcases h with h | ⟨e, he⟩
        · exact absurd h hpres
        · rw [he]; exact ⟨e, consOk_left_err _ _ _⟩
      · obtain ⟨e, he⟩ := ih hm'
        rw [he]
        exact consOk_right_err _ _ _

/-! ### one edge -/

/-- the side conditions on one edge: the source's chunks are a well-formed split of a map with keys
    `ks`, the mapped keys are among them and each is carried by some chunk -/
structure EdgeOK (ms : List FMapping) (cs : List FChunk) (ks : List Key) : Prop where
  ne : cs ≠ []
  srcs : ∀ m ∈ ms, m.src ∈ ks
  split : ∀ k ∈ ks, SplitOK (occ k cs)
  pres : ∀ m ∈ ms, occ m.src cs ≠ []

theorem EdgeOK.whole {ms : List FMapping} {cs : List FChunk} {ks : List Key} (h : EdgeOK ms cs ks) :
    ∃ whole, concatCols cs ks = .ok whole ∧ ∀ m ∈ ms, concatVals (occ m.src cs) = .ok (whole.get m.src) := by
  obtain ⟨whole, hwhole⟩ := concatCols_exists cs ks (fun k hk => by
    obtain ⟨v, hv, _⟩ := concatVals_split _ (h.split k hk)
    exact ⟨v, hv⟩)
  exact ⟨whole, hwhole, fun m hm => concatCols_get cs ks whole hwhole m.src (h.srcs m hm)⟩

/-- some chunk is refused: for a value that is the only one under its key, so value mode refuses it too -/
theorem fmap_fail {ms : List FMapping} {cs : List FChunk} {ks : List Key} (h : EdgeOK ms cs ks)
    (whole : FChunk) (hwhole : concatCols cs ks = .ok whole) (e : Err) (herr : (fmStream true ms cs).err = some e) :
    ∃ e', fmValue ms whole = .error e' := by
  have hget : ∀ m ∈ ms, concatVals (occ m.src cs) = .ok (whole.get m.src) :=
    fun m hm => concatCols_get cs ks whole hwhole m.src (h.srcs m hm)
  obtain ⟨c, hc, e', hce⟩ := fmStream_some ms cs e herr
  obtain ⟨m, hm, hcv, e'', hchk⟩ := fmChunk_err ms c e' hce
  have hocc : c.get m.src ∈ occ m.src cs := occ_mem hc hcv
  have hnotgood : (c.get m.src).isGood = false := by
    cases hv : c.get m.src with
    | good s => rw [hv, checkVal_good] at hchk; cases hchk
    | _ => rfl
  have hsingle : occ m.src cs = [c.get m.src] := by
    rcases h.split m.src (h.srcs m hm) with hall | hlen
    · have := hall _ hocc
      rw [hnotgood] at this; cases this
    · match hl : occ m.src cs, hlen, hocc with
      | [w], _, hocc' =>
        rw [hl] at hocc
        simp at hocc
        rw [hocc]
  obtain ⟨v, hv, hv1, _⟩ := concatVals_split _ (h.split m.src (h.srcs m hm))
  have hvw : whole.get m.src = c.get m.src := by
    have h1 := hget m hm
    rw [hv] at h1
    have h2 := hv1 _ hsingle
    simp only [Except.ok.injEq] at h1
    rw [← h1, h2]
  exact fmValue_err ms whole m hm (.inr ⟨e'', by rw [hvw]; exact hchk⟩)

/-- no chunk is refused: every value under a mapped key passes the checker, hence so does the
    concatenated one, and value mode builds the field map of the whole value -/
theorem fmap_pass {ms : List FMapping} {cs : List FChunk} {ks : List Key} (h : EdgeOK ms cs ks)
    (hnd : (ms.map (·.dst)).Nodup)
    (whole : FChunk) (hwhole : concatCols cs ks = .ok whole) (herr : (fmStream true ms cs).err = none) :
    fmValue ms whole = .ok (ms.map fun m => (m.dst, whole.get m.src)) := by
  have hget : ∀ m ∈ ms, concatVals (occ m.src cs) = .ok (whole.get m.src) :=
    fun m hm => concatCols_get cs ks whole hwhole m.src (h.srcs m hm)
  have hfa := fmStream_none ms cs herr
  apply fmValue_ok
  intro m hm
  obtain ⟨v, hv, hv1, hv2⟩ := concatVals_split _ (h.split m.src (h.srcs m hm))
  have hwv : whole.get m.src = v := by
    have h1 := hget m hm
    rw [hv] at h1
    simp only [Except.ok.injEq] at h1
    exact h1.symm
  rw [hwv]
  match hl : occ m.src cs with
  | [] => exact absurd hl (h.pres m hm)
  | [w] =>
    have hvw := hv1 w hl
    have hwmem : w ∈ occ m.src cs := by rw [hl]; exact List.mem_cons_self
    obtain ⟨hwabs, c, hc, hcw⟩ := mem_occ hwmem
    obtain ⟨t, _, hct⟩ := hfa.mem_left hc
    have := (fmChunk_ok_get ms c t hct hnd m hm).2
    rw [hvw]
    rw [hcw] at this
    rcases this with h' | h'
    · exact absurd h' hwabs
    · exact ⟨hwabs, h'⟩
  | w1 :: w2 :: rest =>
    have hg := hv2 (by rw [hl]; simp)
    cases v with
    | good s => exact ⟨by simp, rfl⟩
    | _ => simp [FVal.isGood] at hg

theorem AllConv.ne_nil {ms : List FMapping} {cs ts : List FChunk} (h : AllConv ms cs ts) (hne : cs ≠ []) : ts ≠ [] := by
  cases h with
  | nil => exact absurd rfl hne
  | cons _ _ => simp

/-- the family's statement for one edge, for the expected fact value -/
theorem fmap_agree_expected (ms : List FMapping) (cs : List FChunk) (ks : List Key)
    (hne : cs ≠ []) (hnd : (ms.map (·.dst)).Nodup)
    (hks : ∀ m ∈ ms, m.src ∈ ks)
    (hsplit : ∀ k ∈ ks, SplitOK (occ k cs))
    (hpres : ∀ m ∈ ms, occ m.src cs ≠ []) :
    ∃ whole, concatCols cs ks = .ok whole ∧
      (∀ t, fmValue ms whole = .ok t → fmConcat (ms.map (·.dst)) (fmStream true ms cs) = .ok t) ∧
      (∀ e, fmValue ms whole = .error e → ∃ e', fmConcat (ms.map (·.dst)) (fmStream true ms cs) = .error e') := by
  have hok : EdgeOK ms cs ks := ⟨hne, hks, hsplit, hpres⟩
  obtain ⟨whole, hwhole, hget⟩ := hok.whole
  refine ⟨whole, hwhole, ?_⟩
  cases herr : (fmStream true ms cs).err with
  | some e =>
    obtain ⟨ev, hev⟩ := fmap_fail hok whole hwhole e herr
    have hstream : fmConcat (ms.map (·.dst)) (fmStream true ms cs) = .error e := by
      simp [fmConcat, LStream.force, herr, bind, Except.bind]
    refine ⟨fun t ht => ?_, fun _ _ => ⟨e, hstream⟩⟩
    rw [hev] at ht; cases ht
  | none =>
    have hfa := fmStream_none ms cs herr
    have hval := fmap_pass hok hnd whole hwhole herr
    have hts := hfa.ne_nil hne
    have hcols : concatCols (fmStream true ms cs).chunks (ms.map (·.dst))
        = .ok (ms.map fun m => (m.dst, whole.get m.src)) :=
      concatCols_dsts _ ms _ (fun m hm => by
        rw [occ_transfer ms hnd m hm cs _ hfa]; exact hget m hm)
    have hstream : fmConcat (ms.map (·.dst)) (fmStream true ms cs)
        = .ok (ms.map fun m => (m.dst, whole.get m.src)) := by
      simp only [fmConcat, LStream.force, herr, bind, Except.bind]
      cases hch : (fmStream true ms cs).chunks with
      | nil => exact absurd hch hts
      | cons t ts =>
        rw [hch] at hcols
        simpa [concatMapsNE] using hcols
    refine ⟨fun t ht => ?_, fun e he => ?_⟩
    · rw [hval] at ht
      simp only [Except.ok.injEq] at ht
      rw [← ht]; exact hstream
    · rw [hval] at he; cases he

/-! ### several edges into one sink -/

theorem occ_append (k : Key) (a b : List FChunk) : occ k (a ++ b) = occ k a ++ occ k b := by
  simp [occ]

/-- converted chunks carry nothing under a key that is not a target of their edge -/
theorem occ_foreign (ms : List FMapping) (cs ts : List FChunk) (h : AllConv ms cs ts) (k : Key)
    (hk : k ∉ ms.map (·.dst)) : occ k ts = [] := by
  induction h with
  | nil => rfl
  | cons hct _ ih =>
    have := fmChunk_keys ms _ _ hct k hk
    simp only [occ, List.map_cons, this] at ih ⊢
    simpa using ih

theorem concatCols_append (cs : List FChunk) (k1 k2 : List Key) (r1 r2 : FChunk)
    (h1 : concatCols cs k1 = .ok r1) (h2 : concatCols cs k2 = .ok r2) :
    concatCols cs (k1 ++ k2) = .ok (r1 ++ r2) := by
  induction k1 generalizing r1 with
  | nil =>
    simp only [concatCols, Except.ok.injEq] at h1
    subst h1; simpa using h2
  | cons k k1 ih =>
    simp only [concatCols] at h1
    obtain ⟨v, r, hv, hr, hr1⟩ := consOk_ok h1
    subst hr1
    simp only [List.cons_append, concatCols, hv, ih r hr, consOk]

/-- the chunks the sink receives from all edges (in the merge's order) -/
def allTs (es : List FEdge) : List FChunk := (es.map fun e => (fmStream true e.ms e.cs).chunks).flatten

theorem allTs_cons (e : FEdge) (es : List FEdge) :
    allTs (e :: es) = (fmStream true e.ms e.cs).chunks ++ allTs es := by
  simp [allTs]

theorem occ_allTs_foreign (es : List FEdge) (hfree : ∀ e ∈ es, (fmStream true e.ms e.cs).err = none)
    (k : Key) (hk : ∀ e ∈ es, k ∉ e.dsts) : occ k (allTs es) = [] := by
  induction es with
  | nil => rfl
  | cons e es ih =>
    rw [allTs_cons, occ_append,
      occ_foreign e.ms e.cs _ (fmStream_none _ _ (hfree e List.mem_cons_self)) k (hk e List.mem_cons_self),
      ih (fun e' he' => hfree e' (List.mem_cons_of_mem _ he')) (fun e' he' => hk e' (List.mem_cons_of_mem _ he'))]
    rfl

theorem nodup_flatMap_cons {e : FEdge} {es : List FEdge} (h : ((e :: es).flatMap FEdge.dsts).Nodup) :
    e.dsts.Nodup ∧ (es.flatMap FEdge.dsts).Nodup ∧ (∀ k ∈ e.dsts, ∀ e' ∈ es, k ∉ e'.dsts) := by
  simp only [List.flatMap_cons, List.nodup_append] at h
  obtain ⟨h1, h2, h3⟩ := h
  refine ⟨h1, h2, fun k hk e' he' hk' => ?_⟩
  exact h3 k hk k (List.mem_flatMap.mpr ⟨e', he', hk'⟩) rfl

/-- under a target of one of the edges the sink receives exactly what that edge's source carries under
    the source key -/
theorem occ_allTs (es : List FEdge) (hfree : ∀ e ∈ es, (fmStream true e.ms e.cs).err = none)
    (hnd : (es.flatMap FEdge.dsts).Nodup) (e : FEdge) (he : e ∈ es) (m : FMapping) (hm : m ∈ e.ms) :
    occ m.dst (allTs es) = occ m.src e.cs := by
  induction es with
  | nil => cases he
  | cons e0 es ih =>
    obtain ⟨hnd0, hnds, hdisj⟩ := nodup_flatMap_cons hnd
    have hfree' : ∀ e' ∈ es, (fmStream true e'.ms e'.cs).err = none := fun e' he' => hfree e' (List.mem_cons_of_mem _ he')
    rw [allTs_cons, occ_append]
    rcases List.mem_cons.mp he with rfl | he'
    · have hmd : m.dst ∈ e.dsts := List.mem_map_of_mem hm
      rw [occ_transfer e.ms hnd0 m hm e.cs _ (fmStream_none _ _ (hfree e List.mem_cons_self)),
        occ_allTs_foreign es hfree' m.dst (fun e' he' => hdisj _ hmd e' he')]
      simp
    · have hmd : m.dst ∈ e.dsts := List.mem_map_of_mem hm
      have hnot : m.dst ∉ e0.ms.map (·.dst) := fun hin => hdisj _ hin e he' hmd
      rw [occ_foreign e0.ms e0.cs _ (fmStream_none _ _ (hfree e0 List.mem_cons_self)) m.dst hnot,
        ih hfree' hnds he']
      rfl

/-- concatenation over all edges' targets, each of which concatenates to `f e m` -/
theorem concatCols_all (T : List FChunk) (es : List FEdge) (f : FEdge → FMapping → FVal)
    (h : ∀ e ∈ es, ∀ m ∈ e.ms, concatVals (occ m.dst T) = .ok (f e m)) :
    concatCols T (es.flatMap FEdge.dsts) = .ok (es.flatMap fun e => e.ms.map fun m => (m.dst, f e m)) := by
  induction es with
  | nil => rfl
  | cons e es ih =>
    simp only [List.flatMap_cons]
    exact concatCols_append T _ _ _ _
      (concatCols_dsts T e.ms (f e) (h e List.mem_cons_self))
      (ih (fun e' he' => h e' (List.mem_cons_of_mem _ he')))

/-- the whole value of an edge's source (the empty map when the chunks do not concatenate) -/
def wholeOf (e : FEdge) : FChunk :=
  match concatCols e.cs e.keys with
  | .ok w => w
  | .error _ => []

theorem fmInvokeAll_pass (es : List FEdge) (hok : ∀ e ∈ es, EdgeOK e.ms e.cs e.keys)
    (hnd : ∀ e ∈ es, e.dsts.Nodup)
    (hfree : ∀ e ∈ es, (fmStream true e.ms e.cs).err = none) :
    fmInvokeAll es = .ok (es.flatMap fun e => e.ms.map fun m => (m.dst, (wholeOf e).get m.src)) := by
  induction es with
  | nil => rfl
  | cons e es ih =>
    obtain ⟨whole, hwhole, _⟩ := (hok e List.mem_cons_self).whole
    have hw : wholeOf e = whole := by simp [wholeOf, hwhole]
    have hv := fmap_pass (hok e List.mem_cons_self) (hnd e List.mem_cons_self) whole hwhole (hfree e List.mem_cons_self)
    have ih' := ih (fun e' he' => hok e' (List.mem_cons_of_mem _ he')) (fun e' he' => hnd e' (List.mem_cons_of_mem _ he'))
      (fun e' he' => hfree e' (List.mem_cons_of_mem _ he'))
    simp only [fmInvokeAll, hwhole, hv, ih', List.flatMap_cons, hw]

theorem fmInvokeAll_fail (es : List FEdge) (hok : ∀ e ∈ es, EdgeOK e.ms e.cs e.keys)
    (e : FEdge) (he : e ∈ es) (err : Err) (herr : (fmStream true e.ms e.cs).err = some err) :
    ∃ err', fmInvokeAll es = .error err' := by
  induction es with
  | nil => cases he
  | cons e0 es ih =>
    obtain ⟨whole, hwhole, _⟩ := (hok e0 List.mem_cons_self).whole
    simp only [fmInvokeAll, hwhole]
    rcases List.mem_cons.mp he with rfl | he'
    · obtain ⟨e', he'⟩ := fmap_fail (hok e List.mem_cons_self) whole hwhole err herr
      rw [he']
      exact ⟨e', by cases fmInvokeAll es <;> rfl⟩
    · obtain ⟨e', he''⟩ := ih (fun x hx => hok x (List.mem_cons_of_mem _ hx)) he'
      rw [he'']
      cases fmValue e0.ms whole with
      | ok t => exact ⟨e', rfl⟩
      | error e2 => exact ⟨e2, rfl⟩

/-- the family's statement for any number of edges into one sink, for the expected fact value -/
theorem fmap_fanin_agree_expected (es : List FEdge) (hes : es ≠ [])
    (hok : ∀ e ∈ es, EdgeOK e.ms e.cs e.keys) (hnd : (es.flatMap FEdge.dsts).Nodup) :
    (∀ t, fmInvokeAll es = .ok t → fmStreamAll true es = .ok t) ∧
    (∀ err, fmInvokeAll es = .error err → ∃ err', fmStreamAll true es = .error err') := by
  have hnd1 : ∀ e ∈ es, e.dsts.Nodup := by
    intro e he
    induction es with
    | nil => cases he
    | cons e0 es ih =>
      obtain ⟨h0, hs, _⟩ := nodup_flatMap_cons hnd
      rcases List.mem_cons.mp he with rfl | he'
      · exact h0
      · cases es with
        | nil => cases he'
        | cons e1 es' => exact ih (by simp) (fun x hx => hok x (List.mem_cons_of_mem _ hx)) hs he'
  cases hfs : (es.map fun e => fmStream true e.ms e.cs).findSome? (·.err) with
  | some err0 =>
    obtain ⟨s, hs, hse⟩ := findSome_err_mem _ err0 hfs
    obtain ⟨e, he, rfl⟩ := List.mem_map.mp hs
    obtain ⟨err', hinv⟩ := fmInvokeAll_fail es hok e he err0 hse
    have hstream : fmStreamAll true es = .error err0 := by
      simp [fmStreamAll, lazyOps, fmConcat, LStream.force, hfs, bind, Except.bind]
    refine ⟨fun t ht => ?_, fun _ _ => ⟨err0, hstream⟩⟩
    rw [hinv] at ht; cases ht
  | none =>
    have hfree : ∀ e ∈ es, (fmStream true e.ms e.cs).err = none := by
      intro e he
      rw [List.findSome?_eq_none_iff] at hfs
      exact hfs _ (List.mem_map_of_mem he)
    have hinv := fmInvokeAll_pass es hok hnd1 hfree
    have hT : allTs es ≠ [] := by
      cases es with
      | nil => exact absurd rfl hes
      | cons e es' =>
        rw [allTs_cons]
        have := (fmStream_none _ _ (hfree e List.mem_cons_self)).ne_nil (hok e List.mem_cons_self).ne
        intro h
        exact this (List.append_eq_nil_iff.mp h).1
    have hcols : concatCols (allTs es) (es.flatMap FEdge.dsts)
        = .ok (es.flatMap fun e => e.ms.map fun m => (m.dst, (wholeOf e).get m.src)) :=
      concatCols_all _ es _ (fun e he m hm => by
        rw [occ_allTs es hfree hnd e he m hm]
        obtain ⟨whole, hwhole, hget⟩ := (hok e he).whole
        have hw : wholeOf e = whole := by simp [wholeOf, hwhole]
        rw [hw]; exact hget m hm)
    have hstream : fmStreamAll true es = .ok (es.flatMap fun e => e.ms.map fun m => (m.dst, (wholeOf e).get m.src)) := by
      have hall : (List.map (fun x : LStream FChunk => x.chunks) (List.map (fun e => fmStream true e.ms e.cs) es)).flatten
          = allTs es := by simp [allTs, List.map_map, Function.comp_def]
      simp only [fmStreamAll, lazyOps, fmConcat, LStream.force, hfs, bind, Except.bind, hall]
      cases hch : allTs es with
      | nil => exact absurd hch hT
      | cons t ts =>
        rw [hch] at hcols
        simpa [concatMapsNE] using hcols
    refine ⟨fun t ht => ?_, fun e he => ?_⟩
    · rw [hinv] at ht
      simp only [Except.ok.injEq] at ht
      rw [← ht]; exact hstream
    · rw [hinv] at he; cases he

end EinoV.C04
