import EinoV.Model.C02Workflow
import EinoV.Proofs.C02Run
import EinoV.Proofs.C02Compile
import EinoV.Proofs.C02Just
namespace EinoV.Engine
namespace DagRun

theorem count_eraseIdx {V} (l : List (Key × V)) (i : Nat) (t : Key × V) (h : l[i]? = some t) (p : Key) :
    (akeys l).count p = (akeys (l.eraseIdx i)).count p + [t.1].count p := by
  induction l generalizing i with
  | nil => simp at h
  | cons a l' ih =>
    cases i with
    | zero =>
      simp only [List.getElem?_cons_zero, Option.some.injEq] at h
      subst h
      simp only [List.eraseIdx_cons_zero, akeys, List.map_cons, List.count_cons, List.count_nil]
      omega
    | succ j =>
      simp only [List.getElem?_cons_succ] at h
      have := ih j h
      simp only [List.eraseIdx_cons_succ, akeys, List.map_cons, List.count_cons] at this ⊢
      omega

theorem collect_exec_key {V} (r : Runner V) (t : Key × V) (d : Done V) (h : collectOne (execOne r t) = .ok d) :
    d.1 = t.1 := by
  unfold collectOne execOne at h
  cases hn : r.node? t.1 with
  | none => simp [hn] at h; rw [← h]
  | some n =>
    simp only [hn] at h
    cases ha : n.act t.2 with
    | ok o => simp [ha] at h; rw [← h]
    | error e => simp [ha] at h

structure EInv {V} (r : Runner V) (cm : Chans V) (running : List (Key × V)) (bs : List (List (Key × V)))
    (comp : List Key) : Prop where
  j : J (fun n => (keysOfTr bs).count n) (fun p => comp.count p + if p = START then 1 else 0) [] [] cm
  sh : shapes cm = shapes (initChans r)
  pos : ∀ n, 0 < (keysOfTr bs).count n → HasPred (shapes (initChans r)) n
  bal : ∀ p, comp.count p + (akeys running).count p = (keysOfTr bs).count p

theorem einv_bound {V} (r : Runner V) (wf : DagWF r) (cm : Chans V) (running : List (Key × V))
    (bs : List (List (Key × V))) (comp : List Key) (h : EInv r cm running bs comp) (k : Key) :
    (keysOfTr bs).count k ≤ 1 := by
  obtain ⟨rank, hrank⟩ := wf.acyclic
  have hk : akeys cm = akeys (initChans r) := by rw [← shapes_keys cm, h.sh, shapes_keys]
  have := static_bound cm rank (by rw [h.sh]; exact hrank) (by rw [hk]; exact wf.startFresh) h.j
    (by intro p; have := h.bal p; omega)
    (by rw [h.sh]; exact h.pos) k
  omega

theorem keysOfTr_append_single {V} (bs : List (List (Key × V))) (ts : List (Key × V)) :
    keysOfTr (bs ++ [ts]) = keysOfTr bs ++ akeys ts := by
  simp [keysOfTr, akeys]

theorem eagerLoop_once {V} (ops : ValOps V) (r : Runner V) (wf : DagWF r) (pick : Pick V) :
    ∀ (fuel : Nat) (cm : Chans V) (running : List (Key × V)) (bs : List (List (Key × V))) (comp : List Key),
      EInv r cm running bs comp →
      ∀ k, (akeys (eagerLoop ops r pick fuel cm running bs comp).submitted).count k ≤ 1 := by
  intro fuel
  induction fuel with
  | zero =>
    intro cm running bs comp h k
    exact einv_bound r wf cm running bs comp h k
  | succ f ih =>
    intro cm running bs comp h k
    have hb := einv_bound r wf cm running bs comp h k
    unfold eagerLoop
    cases hp : running[pick running % running.length]? with
    | none => exact hb
    | some t =>
      simp only
      cases hce : collectOne (execOne r t) with
      | error e => exact hb
      | ok d =>
        simp only
        cases hc : calcNext ops r cm [d] with
        | error e => exact hb
        | ok res =>
          obtain ⟨cm', nx⟩ := res
          obtain ⟨ready, j1, j2, j3, j4⟩ := calcNext_J ops r wf.dag wf.succ wf.startKey cm cm' [d] nx h.j h.sh hc
          rcases j4 with ⟨v, rfl⟩ | rfl
          · exact hb
          · simp only
            apply ih
            have hd := collect_exec_key r t d hce
            refine ⟨?_, j2, ?_, ?_⟩
            · have e1 : (fun n => (keysOfTr (bs ++ [ready])).count n) =
                  (fun n => (keysOfTr bs).count n + (akeys ready).count n) := by
                funext n; rw [keysOfTr_append_single, List.count_append]
              have e2 : (fun p => (comp ++ [t.1]).count p + if p = START then 1 else 0) =
                  (fun p => (comp.count p + if p = START then 1 else 0) + (([d] : List (Done V)).map (·.1)).count p) := by
                funext p
                rw [List.count_append]
                simp only [List.map_cons, List.map_nil, hd]; omega
              rw [e1, e2]; exact j1
            · intro n hn
              rw [keysOfTr_append_single, List.count_append] at hn
              by_cases h0 : 0 < (akeys ready).count n
              · exact j3 n (List.count_pos_iff.mp h0)
              · exact h.pos n (by omega)
            · intro p
              have b := h.bal p
              have c := count_eraseIdx running _ t hp p
              rw [keysOfTr_append_single, List.count_append, List.count_append]
              have : akeys (running.eraseIdx (pick running % running.length) ++ ready) =
                  akeys (running.eraseIdx (pick running % running.length)) ++ akeys ready := by simp [akeys]
              rw [this, List.count_append]
              omega

/-- **eager at most once.** Under the eager (Workflow) run loop — one completion at a time, in
    any order — no node of a well-formed acyclic runner is started twice. -/
theorem runEager_at_most_once {V} (ops : ValOps V) (r : Runner V) (wf : DagWF r) (pick : Pick V) (x : V) (k : Key) :
    (akeys (runEager ops r pick x).submitted).count k ≤ 1 := by
  unfold runEager
  cases hc : calcNext ops r (initChans r) [(START, x)] with
  | error e => simp [EOutcome.submitted, akeys]
  | ok res =>
    obtain ⟨cm', nx⟩ := res
    cases nx with
    | result v => simp [EOutcome.submitted, akeys]
    | tasks ts =>
      simp only
      have hl := start_LInv ops r wf x cm' ts hc
      apply eagerLoop_once ops r wf pick
      refine ⟨?_, hl.sh, hl.pos, ?_⟩
      · have e2 : (fun p => ([] : List Key).count p + if p = START then 1 else 0) =
            (fun p => (keysOfTr ([] : Trace V)).count p + if p = START then 1 else 0) := by
          funext p; simp [keysOfTr]
        rw [e2]; exact hl.j
      · intro p
        simp [keysOfTr, akeys]


theorem depsPreds_mono (deps : List WDep) (sel : WDep → Bool) (m : List (Key × List Key)) (t p : Key)
    (h : p ∈ lookupList t m) :
    p ∈ lookupList t (deps.foldl (fun m d => if sel d then addPred m d.to d.from_ else m) m) := by
  induction deps generalizing m with
  | nil => exact h
  | cons d rest ih =>
    simp only [List.foldl_cons]
    split
    · exact ih _ (lookupList_addPred_mono m d.to d.from_ t p h)
    · exact ih _ h

theorem depsPreds_mem (deps : List WDep) (sel : WDep → Bool) (m : List (Key × List Key)) (d : WDep)
    (hd : d ∈ deps) (hs : sel d = true) :
    d.from_ ∈ lookupList d.to (deps.foldl (fun m d => if sel d then addPred m d.to d.from_ else m) m) := by
  induction deps generalizing m with
  | nil => simp at hd
  | cons x rest ih =>
    simp only [List.foldl_cons]
    rcases List.mem_cons.mp hd with rfl | hd
    · simp only [hs, ↓reduceIte]
      exact depsPreds_mono rest sel _ _ _ (lookupList_addPred_self m d.to d.from_)
    · exact ih _ hd

/-- every compiled Workflow declares each node as a control or data predecessor of all its successors -/
theorem compileW_succOK {V} (ops : ValOps V) (w : WorkflowDef V) : SuccOK (compileW ops w) := by
  intro m hm s hs cs ds hsh
  simp only [shapes, List.mem_map] at hsh
  obtain ⟨⟨s', c⟩, hc, he⟩ := hsh
  simp only [Prod.mk.injEq] at he
  obtain ⟨rfl, he⟩ := he
  have hcs : cs = akeys c.ctrl := by
    have := congrArg Prod.fst he
    simpa [shapeOf] using this.symm
  have hds : ds = akeys c.data := by
    have := congrArg Prod.snd he
    simpa [shapeOf] using this.symm
  have hinit : c = Chan.init true (lookupList s' (compileW ops w).ctrlPreds) (lookupList s' (compileW ops w).dataPreds) := by
    simp only [initChans, List.mem_append, List.mem_map, List.mem_singleton, Prod.mk.injEq] at hc
    rcases hc with ⟨n, _, rfl, rfl⟩ | ⟨rfl, rfl⟩ <;> rfl
  have hkc : ∀ p, p ∈ lookupList s' w.ctrlPreds → p ∈ cs := by
    intro p hp
    rw [hcs, hinit]
    simp only [Chan.init, ↓reduceIte, akeys, List.map_map]
    simpa [Function.comp, compileW] using hp
  have hkd : ∀ p, p ∈ lookupList s' w.dataPreds → p ∈ ds := by
    intro p hp
    rw [hds, hinit]
    simp only [Chan.init, ↓reduceIte, akeys, List.map_map]
    simpa [Function.comp, compileW] using hp
  have hmk : ∃ k, m.key = k ∧ m.writeTo = w.dataOut k ∧ m.controls = w.ctrlOut k ∧ m.branches = w.branchesOf k := by
    rcases hm with hm | rfl
    · simp only [compileW, List.mem_map] at hm
      obtain ⟨p, _, rfl⟩ := hm
      exact ⟨p.1, rfl, rfl, rfl, rfl⟩
    · exact ⟨START, rfl, rfl, rfl, rfl⟩
  obtain ⟨k, hk1, hk2, hk3, hk4⟩ := hmk
  rw [hk1]
  simp only [Node.successors, List.mem_append, hk2, hk3, hk4, WorkflowDef.dataOut, WorkflowDef.ctrlOut,
    WorkflowDef.branchesOf, List.mem_map, List.mem_filter, List.mem_flatMap, Bool.and_eq_true, beq_iff_eq] at hs
  rcases hs with (⟨d, ⟨h1, h2, h3⟩, h4⟩ | ⟨d, ⟨h1, h2, h3⟩, h4⟩) | ⟨b, ⟨x, ⟨h1, h2⟩, rfl⟩, h3⟩
  · right
    apply hkd
    have := depsPreds_mem w.deps (fun d => d.data) [] d h1 h3
    rw [h2, h4] at this
    exact this
  · left
    apply hkc
    have := depsPreds_mem w.deps (fun d => d.control) [] d h1 h3
    rw [h2, h4] at this
    simp only [WorkflowDef.ctrlPreds]
    exact ctrlPreds_mono w.branches _ s' k this
  · left
    apply hkc
    simp only [WorkflowDef.ctrlPreds]
    exact ctrlPreds_mem w.branches _ k x.2 (by rw [← h2]; exact h1) s' h3


structure EKInv {V} (ops : ValOps V) (r : Runner V) (x : V) (cm : Chans V) (running : List (Key × V))
    (bs : List (List (Key × V))) : Prop where
  k : K r (histOf r x bs.reverse) cm
  sh : shapes cm = shapes (initChans r)
  just : JustTr ops r x bs.reverse
  run : ∀ t, t ∈ running → t ∈ bs.flatten

theorem mem_eraseIdx_sub {α} (l : List α) (i : Nat) : ∀ t, t ∈ l.eraseIdx i → t ∈ l :=
  fun _ h => (List.eraseIdx_sublist l i).subset h

theorem eagerLoop_justified {V} (ops : ValOps V) (r : Runner V) (wf : DagWF r) (pick : Pick V) (x : V) :
    ∀ (fuel : Nat) (cm : Chans V) (running : List (Key × V)) (bs : List (List (Key × V))) (comp : List Key),
      EKInv ops r x cm running bs →
      JustTr ops r x (eagerLoop ops r pick fuel cm running bs comp).batches.reverse ∧
      (∀ v, (eagerLoop ops r pick fuel cm running bs comp).result = .ok v →
        Justified ops r (histOf r x (eagerLoop ops r pick fuel cm running bs comp).batches.reverse) END v) := by
  obtain ⟨rank, hrank⟩ := wf.acyclic
  intro fuel
  induction fuel with
  | zero =>
    intro cm running bs comp h
    exact ⟨h.just, fun v hv => by simp [eagerLoop] at hv⟩
  | succ f ih =>
    intro cm running bs comp h
    unfold eagerLoop
    cases hp : running[pick running % running.length]? with
    | none => exact ⟨h.just, fun v hv => by simp at hv⟩
    | some t =>
      simp only
      cases hce : collectOne (execOne r t) with
      | error e => exact ⟨h.just, fun v hv => by simp at hv⟩
      | ok d =>
        simp only
        have htr : t ∈ running := List.mem_of_getElem? hp
        have hdH : d ∈ histOf r x bs.reverse := by
          have := h.run t htr
          simp only [histOf, List.mem_cons, List.mem_filterMap]
          refine Or.inr ⟨t, ?_, by simp [outOf, hce]⟩
          simp only [List.mem_flatten, List.mem_reverse] at this ⊢
          exact this
        cases hc : calcNext ops r cm [d] with
        | error e => exact ⟨h.just, fun v hv => by simp at hv⟩
        | ok res =>
          obtain ⟨cm', nx⟩ := res
          obtain ⟨j1, j2, j3⟩ := calcNext_K ops r wf.dag wf.succ wf.startKey rank hrank cm cm' [d] nx h.k h.sh
            (by intro t' ht'; simp only [List.mem_singleton] at ht'; subst ht'; exact hdH) hc
          rcases j3 with ⟨v, rfl, hj⟩ | ⟨ts, rfl, hj⟩
          · exact ⟨h.just, fun w hw => by simp only [Except.ok.injEq] at hw; subst hw; exact hj⟩
          · simp only
            apply ih
            have hrev : (bs ++ [ts]).reverse = ts :: bs.reverse := by simp
            refine ⟨?_, j2, ?_, ?_⟩
            · rw [hrev]; exact K_mono j1 (histOf_mono r x ts bs.reverse)
            · rw [hrev]; exact ⟨hj, h.just⟩
            · intro t' ht'
              simp only [List.flatten_append, List.flatten_cons, List.flatten_nil, List.append_nil, List.mem_append]
              rcases List.mem_append.mp ht' with h1 | h1
              · exact Or.inl (h.run t' (mem_eraseIdx_sub _ _ t' h1))
              · exact Or.inr h1

/-- **every start of the eager (Workflow) loop is justified**, for every completion order. -/
theorem runEager_justified {V} (ops : ValOps V) (r : Runner V) (wf : DagWF r) (pick : Pick V) (x : V) :
    JustTr ops r x (runEager ops r pick x).batches.reverse ∧
    (∀ v, (runEager ops r pick x).result = .ok v →
      Justified ops r (histOf r x (runEager ops r pick x).batches.reverse) END v) := by
  obtain ⟨rank, hrank⟩ := wf.acyclic
  unfold runEager
  cases hc : calcNext ops r (initChans r) [(START, x)] with
  | error e => exact ⟨trivial, fun v hv => by simp at hv⟩
  | ok res =>
    obtain ⟨cm', nx⟩ := res
    obtain ⟨j1, j2, j3⟩ := calcNext_K (H := histOf r x []) ops r wf.dag wf.succ wf.startKey rank hrank
      (initChans r) cm' [(START, x)] nx (init_K r wf.dag wf.nodup _) rfl
      (by intro t ht; simp only [List.mem_singleton] at ht; subst ht; simp [histOf]) hc
    rcases j3 with ⟨v, rfl, hj⟩ | ⟨ts, rfl, hj⟩
    · exact ⟨trivial, fun w hw => by simp only [Except.ok.injEq] at hw; subst hw; exact hj⟩
    · simp only
      apply eagerLoop_justified ops r wf pick x
      refine ⟨?_, j2, ?_, ?_⟩
      · exact K_mono j1 (histOf_mono r x ts [])
      · exact ⟨hj, trivial⟩
      · intro t ht; simpa using ht

end DagRun
end EinoV.Engine
