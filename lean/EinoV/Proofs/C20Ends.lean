/-
  The end nodes of one AddBranch call can be visited in any order: the loop
  `for endNode := range branch.endNodes` is characterised by the *set* of end nodes.
-/
import EinoV.Proofs.C20Sim

namespace EinoV.Build

/-- the state with the pending entries `s → e` (e ∈ L) all added at once (never built by the
    code; a device to describe the result of adding them one by one) -/
def addEnds (b : Builder) (s : Key) : List Key → Builder
  | [] => b
  | e :: es => addEnds (b.addToValidate s { dst := e, mapped := none }) s es

theorem addEnds_types (b : Builder) (s : Key) (L : List Key) :
    (∀ k, (addEnds b s L).nodeIn k = b.nodeIn k) ∧ (∀ k, (addEnds b s L).nodeOut k = b.nodeOut k) := by
  induction L generalizing b with
  | nil => exact ⟨fun _ => rfl, fun _ => rfl⟩
  | cons e es ih =>
    have := ih (b.addToValidate s { dst := e, mapped := none })
    exact ⟨fun k => (this.1 k).trans rfl, fun k => (this.2 k).trans rfl⟩

theorem addEnds_slice (b : Builder) (s : Key) (L : List Key) (s' : Key) (x : PEdge) :
    x ∈ getSlice (addEnds b s L).toValidate s' ↔
      (x ∈ getSlice b.toValidate s' ∨ (s' = s ∧ ∃ e ∈ L, x = { dst := e, mapped := none })) := by
  induction L generalizing b with
  | nil => simp [addEnds]
  | cons e es ih =>
    simp only [addEnds]
    rw [ih]
    have : x ∈ getSlice (b.addToValidate s { dst := e, mapped := none }).toValidate s' ↔
        (x ∈ getSlice b.toValidate s' ∨ (s' = s ∧ x = { dst := e, mapped := none })) := by
      show x ∈ getSlice (addPending b.toValidate s _) s' ↔ _
      rw [getSlice_addPending]
      by_cases hs' : s' = s
      · subst hs'; simp
      · simp [hs']
    rw [this]
    constructor
    · rintro ((h | ⟨h1, h2⟩) | ⟨h1, e', he', h2⟩)
      · exact Or.inl h
      · exact Or.inr ⟨h1, e, List.mem_cons_self, h2⟩
      · exact Or.inr ⟨h1, e', List.mem_cons_of_mem _ he', h2⟩
    · rintro (h | ⟨h1, e', he', h2⟩)
      · exact Or.inl (Or.inl h)
      · rcases List.mem_cons.mp he' with r | r
        · subst r; exact Or.inl (Or.inr ⟨h1, h2⟩)
        · exact Or.inr ⟨h1, e', r, h2⟩

/-- reachability only depends on the types and on the *set* of pending entries -/
theorem Reach.of_sets {b b' : Builder} (ht : ∀ k, (b.nodeIn k).isSome = true → Reach b' k)
    (hp : ∀ s x, x ∈ getSlice b.toValidate s →
        x ∈ getSlice b'.toValidate s ∨ ((b'.nodeIn x.dst).isSome = true ∧ (b'.nodeIn s).isSome = true))
    {k : Key} (h : Reach b k) : Reach b' k := by
  induction h with
  | typed hk => exact ht _ hk
  | @fwd s pe hpe _ ih =>
    rcases hp s pe hpe with r | r
    · exact Reach.fwd r ih
    · exact Reach.typed r.1
  | @bwd s pe hpe _ ih =>
    rcases hp s pe hpe with r | r
    · exact Reach.bwd r ih
    · exact Reach.typed r.2


/-- an end node the loop refuses: unknown, or typed with a type the start node's output can
    never be assigned to -/
def badEnd (im : Impl) (b : Builder) (A : Ty) (e : Key) : Prop :=
  (!b.hasNode e && e != END) = true ∨
  ∃ B, b.nodeIn e = some B ∧ checkAssignable im (some A) (some B) = .mustNot

theorem known_end {b : Builder} {e : Key} (hk : ¬ (!b.hasNode e && e != END) = true) :
    b.hasNode e = true ∨ b.nodeIn e ≠ none := by
  by_cases hh : b.hasNode e = true
  · exact Or.inl hh
  · right
    have : e = END := by simpa [hh] using hk
    unfold Builder.nodeIn
    by_cases h3 : e = START
    · simp [h3]
    · subst this; simp only [h3, ↓reduceIte]; simp

/-- one end node: the work list run on `b ⊕ (s → e)` with the start node typed `A` -/
theorem end_update_char (im : Impl) (ord : Ord) (hv : ord.Valid) (b : Builder) (X : List (Key × Key))
    (s e : Key) (A : Ty) (hi : InvC im b X) (hA : b.nodeOut s = some A)
    (hk : ¬ (!b.hasNode e && e != END) = true) :
    let b1 := b.addToValidate s { dst := e, mapped := none }
    ((∃ B, b.nodeIn e = some B ∧ checkAssignable im (some A) (some B) = .mustNot) →
        update im ord b1 = .error .edgeMismatch) ∧
    ((¬ ∃ B, b.nodeIn e = some B ∧ checkAssignable im (some A) (some B) = .mustNot) →
        ∃ c, update im ord b1 = .ok c ∧ StepT b c A ∧ WF c ∧
          (∀ k, (c.nodeIn k).isSome = true ↔ Reach b1 k) ∧
          (∀ s' x, x ∈ getSlice c.toValidate s' ↔
             (x ∈ getSlice b.toValidate s' ∧ c.nodeOut s' = none ∧ c.nodeIn x.dst = none)) ∧
          (∀ s' x, x ∈ getSlice b1.toValidate s' → x ∈ getSlice c.toValidate s' ∨
             ((c.nodeIn x.dst).isSome = true ∧ (c.nodeIn s').isSome = true))) := by
  intro b1
  have hs : b.hasNode s = true ∨ b.nodeOut s ≠ none := Or.inr (by rw [hA]; simp)
  have he := known_end hk
  obtain ⟨w, q, p⟩ := data_pre im b X s e hi hs he
  let pe : PEdge := { dst := e, mapped := none }
  have hsl : ∀ s' x, x ∈ getSlice b1.toValidate s' ↔ (x ∈ getSlice b.toValidate s' ∨ (s' = s ∧ x = pe)) := by
    intro s' x
    show x ∈ getSlice (addPending b.toValidate s pe) s' ↔ _
    rw [getSlice_addPending]
    by_cases hs' : s' = s
    · subst hs'; simp
    · simp [hs']
  have herr : Err im b1 ↔ ∃ B, b.nodeIn e = some B ∧ checkAssignable im (some A) (some B) = .mustNot := by
    constructor
    · rintro ⟨s', x, hx, A', B', ho, hin, hc⟩
      rcases (hsl s' x).mp hx with hx | ⟨rfl, rfl⟩
      · have := hi.i2 s' x hx
        have ho' : b.nodeOut s' = some A' := ho
        rw [this.1] at ho'; simp at ho'
      · have ho' : b.nodeOut s' = some A' := ho
        rw [hA] at ho'; simp at ho'; subst ho'
        exact ⟨B', hin, hc⟩
    · rintro ⟨B, hB, hc⟩
      exact ⟨s, pe, (hsl s pe).mpr (Or.inr ⟨rfl, rfl⟩), A, B, hA, hB, hc⟩
  constructor
  · intro hbad
    exact (update_error_iff im ord hv _ b1 w q p).1 (herr.mpr hbad)
  · intro hgood
    obtain ⟨c, hc⟩ := (update_error_iff im ord hv _ b1 w q p).2 (fun h => hgood (herr.mp h))
    obtain ⟨hu, hi2, _⟩ := update_spec im ord hv _ b1 c w q p hc
    obtain ⟨t1, t2, t3, t4⟩ := update_types im ord hv _ b1 c w q p hc
    refine ⟨c, hc, ?_, hu.wf, t1, ?_, ?_⟩
    rotate_left 2
    · intro s' x hx
      rcases hu.resolved s' x hx with r | r
      · exact Or.inl r
      · obtain ⟨A', B', h1, h2⟩ := r.typed
        exact Or.inr ⟨by rw [h2]; rfl, hu.wf.in_of_out (by rw [h1]; rfl)⟩
    · -- every newly typed node is typed A
      rcases hin : b.nodeIn e with _ | B
      · have hT : chooseT b s e = A := by simp [chooseT, hA, hin]
        rw [hT] at hu
        exact ⟨⟨hu.step.mono.tin, hu.step.mono.tout, hu.step.mono.may⟩, hu.step.tin, hu.step.tout⟩
      · -- the end is typed: nothing new is typed at all
        have hno : ∀ k, Reach b1 k → (b.nodeIn k).isSome = true := by
          intro k hr
          induction hr with
          | typed hk => exact hk
          | @fwd s' x hx _ ih =>
            rcases (hsl s' x).mp hx with hx | ⟨rfl, rfl⟩
            · have := (hi.i2 s' x hx).1
              have hin' := (hi.wf.untyped_iff s').mpr this
              rw [hin'] at ih; simp at ih
            · show (b.nodeIn e).isSome = true
              rw [hin]; rfl
          | @bwd s' x hx _ ih =>
            rcases (hsl s' x).mp hx with hx | ⟨rfl, rfl⟩
            · have := (hi.i2 s' x hx).2
              rw [this] at ih; simp at ih
            · exact hi.wf.in_of_out (by rw [hA]; rfl)
        have hsame_in : ∀ k, c.nodeIn k = b.nodeIn k := by
          intro k
          rcases hb : b.nodeIn k with _ | t
          · rcases hck : c.nodeIn k with _ | t'
            · rfl
            · have := hno k ((t1 k).mp (by rw [hck]; rfl))
              rw [hb] at this; simp at this
          · exact hu.step.mono.tin k t hb
        have hsame_out : ∀ k, c.nodeOut k = b.nodeOut k := by
          intro k
          rcases hb : b.nodeOut k with _ | t
          · have hbi : b.nodeIn k = none := (hi.wf.untyped_iff k).mpr hb
            have hci : c.nodeIn k = none := by rw [hsame_in]; exact hbi
            exact (hu.wf.untyped_iff k).mp hci
          · exact hu.step.mono.tout k t hb
        exact ⟨⟨hu.step.mono.tin, hu.step.mono.tout, hu.step.mono.may⟩,
          fun k => Or.inl (hsame_in k), fun k => Or.inl (hsame_out k)⟩
    · intro s' x
      rw [t4 s' x, hsl s' x]
      constructor
      · rintro ⟨hx | ⟨rfl, rfl⟩, ho, hin⟩
        · exact ⟨hx, ho, hin⟩
        · -- the new entry starts at a typed node: it cannot stay pending
          have := hu.step.mono.tout s' A hA
          rw [ho] at this; simp at this
      · rintro ⟨hx, ho, hin⟩
        exact ⟨Or.inl hx, ho, hin⟩


/-- result of the whole loop over the end nodes `L`, in terms of the state it started from -/
structure EndsPost (b c : Builder) (s : Key) (A : Ty) (L : List Key) : Prop where
  step : StepT b c A
  wf : WF c
  typed : ∀ k, (c.nodeIn k).isSome = true ↔ Reach (addEnds b s L) k
  pend : ∀ s' x, x ∈ getSlice c.toValidate s' ↔
      (x ∈ getSlice b.toValidate s' ∧ c.nodeOut s' = none ∧ c.nodeIn x.dst = none)
  fr : (c.cmp, c.inT, c.outT, c.stateTy, c.controlEdges, c.dataEdges, c.branches, c.fmRecords, c.compiled,
        c.preNode, keysOf c, c.buildError) =
       (b.cmp, b.inT, b.outT, b.stateTy, b.controlEdges, b.dataEdges, b.branches, b.fmRecords, b.compiled,
        b.preNode, keysOf b, b.buildError)
  sn : c.startNodes.isEmpty = (b.startNodes.isEmpty && (decide (s ≠ START) || L.isEmpty))
  en : c.endNodes.isEmpty = (b.endNodes.isEmpty && !(L.contains END))

theorem Frame.endsFr {b c : Builder} (h : Frame b c) :
    (c.cmp, c.inT, c.outT, c.stateTy, c.controlEdges, c.dataEdges, c.branches, c.fmRecords, c.compiled,
        c.preNode, keysOf c, c.buildError) =
    (b.cmp, b.inT, b.outT, b.stateTy, b.controlEdges, b.dataEdges, b.branches, b.fmRecords, b.compiled,
        b.preNode, keysOf b, b.buildError) := by
  simp only [Frame, Builder.frame, Prod.mk.injEq] at h
  obtain ⟨h1, h2, h3, h4, h5, h6, h7, h8, h9, h10, h11, h12, h13, h14, h15, h16⟩ := h
  simp only [keysOf, h1, h2, h3, h4, h5, h6, h7, h10, h13, h14, h15, h16]

theorem badEnd_step {im : Impl} {b c : Builder} {A : Ty} (hst : StepT b c A) (hk : keysOf c = keysOf b) (e : Key) :
    badEnd im c A e ↔ badEnd im b A e := by
  have hh : c.hasNode e = b.hasNode e := (findNode_isSome_of_keys hk e).1
  unfold badEnd
  rw [hh]
  constructor
  · rintro (h | ⟨B, hB, hc⟩)
    · exact Or.inl h
    · rcases hst.tin e with r | r
      · exact Or.inr ⟨B, by rw [← r]; exact hB, hc⟩
      · rw [hB] at r; simp at r; subst r
        rw [checkAssignable_same] at hc; simp at hc
  · rintro (h | ⟨B, hB, hc⟩)
    · exact Or.inl h
    · exact Or.inr ⟨B, hst.mono.tin _ _ hB, hc⟩

theorem branchEnds_char (im : Impl) (ord : Ord) (hv : ord.Valid) (s : Key) (A : Ty) :
    ∀ (L : List Key) (b : Builder) (X : List (Key × Key)), InvC im b X → b.nodeOut s = some A →
      ((∃ e ∈ L, badEnd im b A e) → ∃ k, branchEnds im ord s L b = .error k) ∧
      ((¬ ∃ e ∈ L, badEnd im b A e) → ∃ c, branchEnds im ord s L b = .ok c ∧ EndsPost b c s A L) := by
  intro L
  induction L with
  | nil =>
    intro b X hi hA
    refine ⟨fun ⟨e, he, _⟩ => by simp at he, fun _ => ⟨b, rfl, ?_⟩⟩
    refine ⟨StepT.refl b A, hi.wf, fun k => ⟨Reach.typed, fun h => ?_⟩, ?_, rfl, by simp, by simp⟩
    · -- nothing pending touches a typed node
      induction h with
      | typed hk => exact hk
      | @fwd s' x hx _ ih =>
        have := (hi.i2 s' x hx).1
        rw [(hi.wf.untyped_iff s').mpr this] at ih; simp at ih
      | @bwd s' x hx _ ih =>
        have := (hi.i2 s' x hx).2
        rw [this] at ih; simp at ih
    · intro s' x
      exact ⟨fun hx => ⟨hx, (hi.i2 s' x hx).1, (hi.i2 s' x hx).2⟩, fun h => h.1⟩
  | cons e es ih =>
    intro b X hi hA
    have hs : b.hasNode s = true ∨ b.nodeOut s ≠ none := Or.inr (by rw [hA]; simp)
    by_cases hk : (!b.hasNode e && e != END) = true
    · -- unknown end node
      refine ⟨fun _ => ⟨.branchUnknownEnd, by simp only [branchEnds, hk, ↓reduceIte]⟩, fun hn => absurd ⟨e, List.mem_cons_self, Or.inl hk⟩ hn⟩
    · obtain ⟨hbad, hgood⟩ := end_update_char im ord hv b X s e A hi hA hk
      by_cases hm : ∃ B, b.nodeIn e = some B ∧ checkAssignable im (some A) (some B) = .mustNot
      · have := hbad hm
        refine ⟨fun _ => ⟨.edgeMismatch, by simp only [branchEnds, hk, Bool.false_eq_true, ↓reduceIte, this]⟩,
          fun hn => absurd ⟨e, List.mem_cons_self, Or.inr hm⟩ hn⟩
      · obtain ⟨c0, hc0, hst0, hw0, ht0, hp0, hr0⟩ := hgood hm
        obtain ⟨hic0, hfr0, hmo0⟩ := data_step im ord hv b c0 X s e hi hs (known_end hk) hc0
        let c1 : Builder := { c0 with startNodes := if s = START then c0.startNodes ++ [e] else c0.startNodes,
                                      endNodes := if e = END then c0.endNodes ++ [s] else c0.endNodes }
        have hic1 : InvC im c1 ((s, e) :: X) := ⟨hic0.wf, hic0.i2, hic0.pn, hic0.conn⟩
        have hA1 : c1.nodeOut s = some A := hmo0.tout s A hA
        have hk01 : keysOf c0 = keysOf b := by
          have := hfr0.endsFr; simp only [Prod.mk.injEq] at this; exact this.2.2.2.2.2.2.2.2.2.2.1
        obtain ⟨ihbad, ihgood⟩ := ih c1 ((s, e) :: X) hic1 hA1
        have hst01' : StepT b c1 A := ⟨⟨hst0.mono.tin, hst0.mono.tout, hst0.mono.may⟩, hst0.tin, hst0.tout⟩
        have hbadiff : ∀ e', badEnd im c1 A e' ↔ badEnd im b A e' := fun e' => badEnd_step (c := c1) hst01' hk01 e'
        have hrun : branchEnds im ord s (e :: es) b = branchEnds im ord s es c1 := by
          simp only [branchEnds, hk, Bool.false_eq_true, ↓reduceIte, hc0]
          rfl
        rw [hrun]
        constructor
        · rintro ⟨e', he', hb'⟩
          rcases List.mem_cons.mp he' with r | r
          · subst r
            rcases hb' with hb' | hb'
            · exact absurd hb' hk
            · exact absurd hb' hm
          · exact ihbad ⟨e', r, (hbadiff e').mpr hb'⟩
        · intro hn
          have hn' : ¬ ∃ e' ∈ es, badEnd im c1 A e' := by
            rintro ⟨e', he', hb'⟩
            exact hn ⟨e', List.mem_cons_of_mem _ he', (hbadiff e').mp hb'⟩
          obtain ⟨c, hc, hpost⟩ := ihgood hn'
          refine ⟨c, hc, ?_⟩
          have hst01 : StepT b c1 A := ⟨⟨hst0.mono.tin, hst0.mono.tout, hst0.mono.may⟩, hst0.tin, hst0.tout⟩
          -- reachability in the all-at-once states
          have hR : ∀ k, Reach (addEnds c1 s es) k ↔ Reach (addEnds b s (e :: es)) k := by
            intro k
            show Reach (addEnds c1 s es) k ↔ Reach (addEnds (b.addToValidate s { dst := e, mapped := none }) s es) k
            have tyX := addEnds_types c1 s es
            have tyY := addEnds_types (b.addToValidate s { dst := e, mapped := none }) s es
            constructor
            · apply Reach.of_sets
              · intro k0 hk0
                rw [tyX.1] at hk0
                have : Reach (b.addToValidate s { dst := e, mapped := none }) k0 := (ht0 k0).mp hk0
                -- b ⊕ e is contained in b ⊕ (e :: es)
                refine Reach.of_sets (b' := addEnds (b.addToValidate s { dst := e, mapped := none }) s es) ?_ ?_ this
                · intro k1 hk1; exact Reach.typed (by rw [tyY.1]; exact hk1)
                · intro s1 x1 hx1; exact Or.inl ((addEnds_slice _ s es s1 x1).mpr (Or.inl hx1))
              · intro s1 x1 hx1
                left
                rcases (addEnds_slice c1 s es s1 x1).mp hx1 with r | r
                · have hx0 : x1 ∈ getSlice c0.toValidate s1 := r
                  have := ((hp0 s1 x1).mp hx0).1
                  apply (addEnds_slice _ s es s1 x1).mpr
                  left
                  show x1 ∈ getSlice (addPending b.toValidate s _) s1
                  rw [getSlice_addPending]
                  by_cases hs1 : s1 = s
                  · subst hs1; simp [this]
                  · simp [hs1, this]
                · exact (addEnds_slice _ s es s1 x1).mpr (Or.inr r)
            · apply Reach.of_sets
              · intro k0 hk0
                rw [tyY.1] at hk0
                have hk0' : (b.nodeIn k0).isSome = true := hk0
                refine Reach.typed ?_
                rw [tyX.1]
                rcases hb0 : b.nodeIn k0 with _ | t
                · rw [hb0] at hk0'; simp at hk0'
                · show (c0.nodeIn k0).isSome = true
                  rw [hst0.mono.tin _ _ hb0]; rfl
              · intro s1 x1 hx1
                rcases (addEnds_slice _ s es s1 x1).mp hx1 with r | r
                · rcases hr0 s1 x1 r with q | q
                  · exact Or.inl ((addEnds_slice c1 s es s1 x1).mpr (Or.inl q))
                  · right
                    rw [tyX.1, tyX.1]; exact q
                · exact Or.inl ((addEnds_slice c1 s es s1 x1).mpr (Or.inr r))
          refine ⟨hst01.trans hpost.step, hpost.wf, fun k => (hpost.typed k).trans (hR k), ?_, ?_, ?_, ?_⟩
          · intro s' x
            rw [hpost.pend s' x]
            constructor
            · rintro ⟨hx, ho, hin⟩
              exact ⟨((hp0 s' x).mp hx).1, ho, hin⟩
            · rintro ⟨hx, ho, hin⟩
              refine ⟨(hp0 s' x).mpr ⟨hx, ?_, ?_⟩, ho, hin⟩
              · rcases h0 : c0.nodeOut s' with _ | t
                · rfl
                · have := hpost.step.mono.tout s' t h0; rw [ho] at this; simp at this
              · rcases h0 : c0.nodeIn x.dst with _ | t
                · rfl
                · have := hpost.step.mono.tin x.dst t h0; rw [hin] at this; simp at this
          · rw [hpost.fr]; exact hfr0.endsFr
          · rw [hpost.sn]
            have e0 : c0.startNodes = b.startNodes := by
              have := hfr0; simp only [Frame, Builder.frame, Prod.mk.injEq] at this; exact this.2.2.2.2.2.2.2.1
            show (if s = START then c0.startNodes ++ [e] else c0.startNodes).isEmpty && _ = _
            by_cases hst : s = START
            · simp [hst, isEmpty_append_singleton]
            · simp [hst, e0]
          · rw [hpost.en]
            have e0 : c0.endNodes = b.endNodes := by
              have := hfr0; simp only [Frame, Builder.frame, Prod.mk.injEq] at this; exact this.2.2.2.2.2.2.2.2.1
            show (if e = END then c0.endNodes ++ [s] else c0.endNodes).isEmpty && _ = _
            by_cases hen : e = END
            · simp [hen, isEmpty_append_singleton]
            · have : ¬ END = e := fun h => hen h.symm
              simp [hen, e0, this]

end EinoV.Build
