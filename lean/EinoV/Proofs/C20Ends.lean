/-
  The end nodes of one AddBranch call can be visited in any order: the loop
  `for endNode := range branch.endNodes` is characterised by the *set* of end nodes.
-/
import EinoV.Proofs.C20Sim
import EinoV.Proofs.C20Kahn

namespace EinoV.Build

/-- the state with the pending entries `s → e` (e ∈ L) all added at once (never built by the
    code; a device to describe the result of adding them one by one) -/
def addEnds (b : Builder) (s : Key) : List Key → Builder
  | [] => b
  | e :: es => addEnds (b.addToValidate s { dst := e, mapped := none }) s es

theorem addEnds_types (b : Builder) (s : Key) (L : List Key) :
    (∀ k, (addEnds b s L).nodeIn k = b.nodeIn k) ∧ (∀ k, (addEnds b s L).nodeOut k = b.nodeOut k) := by
  induction L generalizing b with
  | nil => exact ⟨fun _ => rfl, fun _ => rfl⟩
  | cons e es ih =>
    have := ih (b.addToValidate s { dst := e, mapped := none })
    exact ⟨fun k => (this.1 k).trans rfl, fun k => (this.2 k).trans rfl⟩

theorem addEnds_slice (b : Builder) (s : Key) (L : List Key) (s' : Key) (x : PEdge) :
    x ∈ getSlice (addEnds b s L).toValidate s' ↔
      (x ∈ getSlice b.toValidate s' ∨ (s' = s ∧ ∃ e ∈ L, x = { dst := e, mapped := none })) := by
  induction L generalizing b with
  | nil => simp [addEnds]
  | cons e es ih =>
    simp only [addEnds]
    rw [ih]
    have : x ∈ getSlice (b.addToValidate s { dst := e, mapped := none }).toValidate s' ↔
        (x ∈ getSlice b.toValidate s' ∨ (s' = s ∧ x = { dst := e, mapped := none })) := by
      show x ∈ getSlice (addPending b.toValidate s _) s' ↔ _
      rw [getSlice_addPending]
      by_cases hs' : s' = s
      · subst hs'; simp
      · simp [hs']
    rw [this]
    constructor
    · rintro ((h | ⟨h1, h2⟩) | ⟨h1, e', he', h2⟩)
      · exact Or.inl h
      · exact Or.inr ⟨h1, e, List.mem_cons_self, h2⟩
      · exact Or.inr ⟨h1, e', List.mem_cons_of_mem _ he', h2⟩
    · rintro (h | ⟨h1, e', he', h2⟩)
      · exact Or.inl (Or.inl h)
      · rcases List.mem_cons.mp he' with r | r
        · subst r; exact Or.inl (Or.inr ⟨h1, h2⟩)
        · exact Or.inr ⟨h1, e', r, h2⟩

/-- reachability only depends on the types and on the *set* of pending entries -/
theorem Reach.of_sets {b b' : Builder} (ht : ∀ k, (b.nodeIn k).isSome = true → Reach b' k)
    (hp : ∀ s x, x ∈ getSlice b.toValidate s →
        x ∈ getSlice b'.toValidate s ∨ ((b'.nodeIn x.dst).isSome = true ∧ (b'.nodeIn s).isSome = true))
    {k : Key} (h : Reach b k) : Reach b' k := by
  induction h with
  | typed hk => exact ht _ hk
  | @fwd s pe hpe _ ih =>
    rcases hp s pe hpe with r | r
    · exact Reach.fwd r ih
    · exact Reach.typed r.1
  | @bwd s pe hpe _ ih =>
    rcases hp s pe hpe with r | r
    · exact Reach.bwd r ih
    · exact Reach.typed r.2


/-- an end node the loop refuses: unknown, or typed with a type the start node's output can
    never be assigned to -/
def badEnd (im : Impl) (b : Builder) (A : Ty) (e : Key) : Prop :=
  (!b.hasNode e && e != END) = true ∨
  ∃ B, b.nodeIn e = some B ∧ checkAssignable im (some A) (some B) = .mustNot

theorem known_end {b : Builder} {e : Key} (hk : ¬ (!b.hasNode e && e != END) = true) :
    b.hasNode e = true ∨ b.nodeIn e ≠ none := by
  by_cases hh : b.hasNode e = true
  · exact Or.inl hh
  · right
    have : e = END := by simpa [hh] using hk
    unfold Builder.nodeIn
    by_cases h3 : e = START
    · simp [h3]
    · subst this; simp only [h3, ↓reduceIte]; simp

/-- one end node: the work list run on `b ⊕ (s → e)` with the start node typed `A` -/
theorem end_update_char (im : Impl) (ord : Ord) (hv : ord.Valid) (b : Builder) (X : List (Key × Key))
    (s e : Key) (A : Ty) (hi : InvC im b X) (hA : b.nodeOut s = some A)
    (hk : ¬ (!b.hasNode e && e != END) = true) :
    let b1 := b.addToValidate s { dst := e, mapped := none }
    ((∃ B, b.nodeIn e = some B ∧ checkAssignable im (some A) (some B) = .mustNot) →
        update im ord b1 = .error .edgeMismatch) ∧
    ((¬ ∃ B, b.nodeIn e = some B ∧ checkAssignable im (some A) (some B) = .mustNot) →
        ∃ c, update im ord b1 = .ok c ∧ StepT b c A ∧ WF c ∧
          (∀ k, (c.nodeIn k).isSome = true ↔ Reach b1 k) ∧
          (∀ s' x, x ∈ getSlice c.toValidate s' ↔
             (x ∈ getSlice b.toValidate s' ∧ c.nodeOut s' = none ∧ c.nodeIn x.dst = none)) ∧
          (∀ s' x, x ∈ getSlice b1.toValidate s' → x ∈ getSlice c.toValidate s' ∨
             ((c.nodeIn x.dst).isSome = true ∧ (c.nodeIn s').isSome = true))) := by
  intro b1
  have hs : b.hasNode s = true ∨ b.nodeOut s ≠ none := Or.inr (by rw [hA]; simp)
  have he := known_end hk
  obtain ⟨w, q, p⟩ := data_pre im b X s e hi hs he
  let pe : PEdge := { dst := e, mapped := none }
  have hsl : ∀ s' x, x ∈ getSlice b1.toValidate s' ↔ (x ∈ getSlice b.toValidate s' ∨ (s' = s ∧ x = pe)) := by
    intro s' x
    show x ∈ getSlice (addPending b.toValidate s pe) s' ↔ _
    rw [getSlice_addPending]
    by_cases hs' : s' = s
    · subst hs'; simp
    · simp [hs']
  have herr : Err im b1 ↔ ∃ B, b.nodeIn e = some B ∧ checkAssignable im (some A) (some B) = .mustNot := by
    constructor
    · rintro ⟨s', x, hx, A', B', ho, hin, hc⟩
      rcases (hsl s' x).mp hx with hx | ⟨rfl, rfl⟩
      · have := hi.i2 s' x hx
        have ho' : b.nodeOut s' = some A' := ho
        rw [this.1] at ho'; simp at ho'
      · have ho' : b.nodeOut s' = some A' := ho
        rw [hA] at ho'; simp at ho'; subst ho'
        exact ⟨B', hin, hc⟩
    · rintro ⟨B, hB, hc⟩
      exact ⟨s, pe, (hsl s pe).mpr (Or.inr ⟨rfl, rfl⟩), A, B, hA, hB, hc⟩
  constructor
  · intro hbad
    exact (update_error_iff im ord hv _ b1 w q p).1 (herr.mpr hbad)
  · intro hgood
    obtain ⟨c, hc⟩ := (update_error_iff im ord hv _ b1 w q p).2 (fun h => hgood (herr.mp h))
    obtain ⟨hu, hi2, _⟩ := update_spec im ord hv _ b1 c w q p hc
    obtain ⟨t1, t2, t3, t4⟩ := update_types im ord hv _ b1 c w q p hc
    refine ⟨c, hc, ?_, hu.wf, t1, ?_, ?_⟩
    rotate_left 2
    · intro s' x hx
      rcases hu.resolved s' x hx with r | r
      · exact Or.inl r
      · obtain ⟨A', B', h1, h2⟩ := r.typed
        exact Or.inr ⟨by rw [h2]; rfl, hu.wf.in_of_out (by rw [h1]; rfl)⟩
    · -- every newly typed node is typed A
      rcases hin : b.nodeIn e with _ | B
      · have hT : chooseT b s e = A := by simp [chooseT, hA, hin]
        rw [hT] at hu
        exact ⟨⟨hu.step.mono.tin, hu.step.mono.tout, hu.step.mono.may⟩, hu.step.tin, hu.step.tout⟩
      · -- the end is typed: nothing new is typed at all
        have hno : ∀ k, Reach b1 k → (b.nodeIn k).isSome = true := by
          intro k hr
          induction hr with
          | typed hk => exact hk
          | @fwd s' x hx _ ih =>
            rcases (hsl s' x).mp hx with hx | ⟨rfl, rfl⟩
            · have := (hi.i2 s' x hx).1
              have hin' := (hi.wf.untyped_iff s').mpr this
              rw [hin'] at ih; simp at ih
            · show (b.nodeIn e).isSome = true
              rw [hin]; rfl
          | @bwd s' x hx _ ih =>
            rcases (hsl s' x).mp hx with hx | ⟨rfl, rfl⟩
            · have := (hi.i2 s' x hx).2
              rw [this] at ih; simp at ih
            · exact hi.wf.in_of_out (by rw [hA]; rfl)
        have hsame_in : ∀ k, c.nodeIn k = b.nodeIn k := by
          intro k
          rcases hb : b.nodeIn k with _ | t
          · rcases hck : c.nodeIn k with _ | t'
            · rfl
            · have := hno k ((t1 k).mp (by rw [hck]; rfl))
              rw [hb] at this; simp at this
          · exact hu.step.mono.tin k t hb
        have hsame_out : ∀ k, c.nodeOut k = b.nodeOut k := by
          intro k
          rcases hb : b.nodeOut k with _ | t
          · have hbi : b.nodeIn k = none := (hi.wf.untyped_iff k).mpr hb
            have hci : c.nodeIn k = none := by rw [hsame_in]; exact hbi
            exact (hu.wf.untyped_iff k).mp hci
          · exact hu.step.mono.tout k t hb
        exact ⟨⟨hu.step.mono.tin, hu.step.mono.tout, hu.step.mono.may⟩,
          fun k => Or.inl (hsame_in k), fun k => Or.inl (hsame_out k)⟩
    · intro s' x
      rw [t4 s' x, hsl s' x]
      constructor
      · rintro ⟨hx | ⟨rfl, rfl⟩, ho, hin⟩
        · exact ⟨hx, ho, hin⟩
        · -- the new entry starts at a typed node: it cannot stay pending
          have := hu.step.mono.tout s' A hA
          rw [ho] at this; simp at this
      · rintro ⟨hx, ho, hin⟩
        exact ⟨Or.inl hx, ho, hin⟩


/-- result of the whole loop over the end nodes `L`, in terms of the state it started from -/
structure EndsPost (b c : Builder) (s : Key) (A : Ty) (L : List Key) : Prop where
  step : StepT b c A
  wf : WF c
  typed : ∀ k, (c.nodeIn k).isSome = true ↔ Reach (addEnds b s L) k
  pend : ∀ s' x, x ∈ getSlice c.toValidate s' ↔
      (x ∈ getSlice b.toValidate s' ∧ c.nodeOut s' = none ∧ c.nodeIn x.dst = none)
  fr : (c.cmp, c.inT, c.outT, c.stateTy, c.controlEdges, c.dataEdges, c.branches, c.fmRecords, c.compiled,
        c.preNode, keysOf c, c.buildError) =
       (b.cmp, b.inT, b.outT, b.stateTy, b.controlEdges, b.dataEdges, b.branches, b.fmRecords, b.compiled,
        b.preNode, keysOf b, b.buildError)
  sn : c.startNodes.isEmpty = (b.startNodes.isEmpty && (decide (s ≠ START) || L.isEmpty))
  en : c.endNodes.isEmpty = (b.endNodes.isEmpty && !(L.contains END))

theorem Frame.endsFr {b c : Builder} (h : Frame b c) :
    (c.cmp, c.inT, c.outT, c.stateTy, c.controlEdges, c.dataEdges, c.branches, c.fmRecords, c.compiled,
        c.preNode, keysOf c, c.buildError) =
    (b.cmp, b.inT, b.outT, b.stateTy, b.controlEdges, b.dataEdges, b.branches, b.fmRecords, b.compiled,
        b.preNode, keysOf b, b.buildError) := by
  simp only [Frame, Builder.frame, Prod.mk.injEq] at h
  obtain ⟨h1, h2, h3, h4, h5, h6, h7, h8, h9, h10, h11, h12, h13, h14, h15, h16⟩ := h
  simp only [keysOf, h1, h2, h3, h4, h5, h6, h7, h10, h13, h14, h15, h16]

theorem badEnd_step {im : Impl} {b c : Builder} {A : Ty} (hst : StepT b c A) (hk : keysOf c = keysOf b) (e : Key) :
    badEnd im c A e ↔ badEnd im b A e := by
  have hh : c.hasNode e = b.hasNode e := (findNode_isSome_of_keys hk e).1
  unfold badEnd
  rw [hh]
  constructor
  · rintro (h | ⟨B, hB, hc⟩)
    · exact Or.inl h
    · rcases hst.tin e with r | r
      · exact Or.inr ⟨B, by rw [← r]; exact hB, hc⟩
      · rw [hB] at r; simp at r; subst r
        rw [checkAssignable_same] at hc; simp at hc
  · rintro (h | ⟨B, hB, hc⟩)
    · exact Or.inl h
    · exact Or.inr ⟨B, hst.mono.tin _ _ hB, hc⟩

theorem branchEnds_char (im : Impl) (ord : Ord) (hv : ord.Valid) (s : Key) (A : Ty) :
    ∀ (L : List Key) (b : Builder) (X : List (Key × Key)), InvC im b X → b.nodeOut s = some A →
      ((∃ e ∈ L, badEnd im b A e) → ∃ k, branchEnds im ord s L b = .error k) ∧
      ((¬ ∃ e ∈ L, badEnd im b A e) → ∃ c, branchEnds im ord s L b = .ok c ∧ EndsPost b c s A L) := by
  intro L
  induction L with
  | nil =>
    intro b X hi hA
    refine ⟨fun ⟨e, he, _⟩ => by simp at he, fun _ => ⟨b, rfl, ?_⟩⟩
    refine ⟨StepT.refl b A, hi.wf, fun k => ⟨Reach.typed, fun h => ?_⟩, ?_, rfl, by simp, by simp⟩
    · -- nothing pending touches a typed node
      induction h with
      | typed hk => exact hk
      | @fwd s' x hx _ ih =>
        have := (hi.i2 s' x hx).1
        rw [(hi.wf.untyped_iff s').mpr this] at ih; simp at ih
      | @bwd s' x hx _ ih =>
        have := (hi.i2 s' x hx).2
        rw [this] at ih; simp at ih
    · intro s' x
      exact ⟨fun hx => ⟨hx, (hi.i2 s' x hx).1, (hi.i2 s' x hx).2⟩, fun h => h.1⟩
  | cons e es ih =>
    intro b X hi hA
    have hs : b.hasNode s = true ∨ b.nodeOut s ≠ none := Or.inr (by rw [hA]; simp)
    by_cases hk : (!b.hasNode e && e != END) = true
    · -- unknown end node
      refine ⟨fun _ => ⟨.branchUnknownEnd, by simp only [branchEnds, hk, ↓reduceIte]⟩, fun hn => absurd ⟨e, List.mem_cons_self, Or.inl hk⟩ hn⟩
    · obtain ⟨hbad, hgood⟩ := end_update_char im ord hv b X s e A hi hA hk
      by_cases hm : ∃ B, b.nodeIn e = some B ∧ checkAssignable im (some A) (some B) = .mustNot
      · have := hbad hm
        refine ⟨fun _ => ⟨.edgeMismatch, by simp only [branchEnds, hk, Bool.false_eq_true, ↓reduceIte, this]⟩,
          fun hn => absurd ⟨e, List.mem_cons_self, Or.inr hm⟩ hn⟩
      · obtain ⟨c0, hc0, hst0, hw0, ht0, hp0, hr0⟩ := hgood hm
        obtain ⟨hic0, hfr0, hmo0⟩ := data_step im ord hv b c0 X s e hi hs (known_end hk) hc0
        let c1 : Builder := { c0 with startNodes := if s = START then c0.startNodes ++ [e] else c0.startNodes,
                                      endNodes := if e = END then c0.endNodes ++ [s] else c0.endNodes }
        have hic1 : InvC im c1 ((s, e) :: X) := ⟨hic0.wf, hic0.i2, hic0.pn, hic0.conn⟩
        have hA1 : c1.nodeOut s = some A := hmo0.tout s A hA
        have hk01 : keysOf c0 = keysOf b := by
          have := hfr0.endsFr; simp only [Prod.mk.injEq] at this; exact this.2.2.2.2.2.2.2.2.2.2.1
        obtain ⟨ihbad, ihgood⟩ := ih c1 ((s, e) :: X) hic1 hA1
        have hst01' : StepT b c1 A := ⟨⟨hst0.mono.tin, hst0.mono.tout, hst0.mono.may⟩, hst0.tin, hst0.tout⟩
        have hbadiff : ∀ e', badEnd im c1 A e' ↔ badEnd im b A e' := fun e' => badEnd_step (c := c1) hst01' hk01 e'
        have hrun : branchEnds im ord s (e :: es) b = branchEnds im ord s es c1 := by
          simp only [branchEnds, hk, Bool.false_eq_true, ↓reduceIte, hc0]
          rfl
        rw [hrun]
        constructor
        · rintro ⟨e', he', hb'⟩
          rcases List.mem_cons.mp he' with r | r
          · subst r
            rcases hb' with hb' | hb'
            · exact absurd hb' hk
            · exact absurd hb' hm
          · exact ihbad ⟨e', r, (hbadiff e').mpr hb'⟩
        · intro hn
          have hn' : ¬ ∃ e' ∈ es, badEnd im c1 A e' := by
            rintro ⟨e', he', hb'⟩
            exact hn ⟨e', List.mem_cons_of_mem _ he', (hbadiff e').mp hb'⟩
          obtain ⟨c, hc, hpost⟩ := ihgood hn'
          refine ⟨c, hc, ?_⟩
          have hst01 : StepT b c1 A := ⟨⟨hst0.mono.tin, hst0.mono.tout, hst0.mono.may⟩, hst0.tin, hst0.tout⟩
          -- reachability in the all-at-once states
          have hR : ∀ k, Reach (addEnds c1 s es) k ↔ Reach (addEnds b s (e :: es)) k := by
            intro k
            show Reach (addEnds c1 s es) k ↔ Reach (addEnds (b.addToValidate s { dst := e, mapped := none }) s es) k
            have tyX := addEnds_types c1 s es
            have tyY := addEnds_types (b.addToValidate s { dst := e, mapped := none }) s es
            constructor
            · apply Reach.of_sets
              · intro k0 hk0
                rw [tyX.1] at hk0
                have : Reach (b.addToValidate s { dst := e, mapped := none }) k0 := (ht0 k0).mp hk0
                -- b ⊕ e is contained in b ⊕ (e :: es)
                refine Reach.of_sets (b' := addEnds (b.addToValidate s { dst := e, mapped := none }) s es) ?_ ?_ this
                · intro k1 hk1; exact Reach.typed (by rw [tyY.1]; exact hk1)
                · intro s1 x1 hx1; exact Or.inl ((addEnds_slice _ s es s1 x1).mpr (Or.inl hx1))
              · intro s1 x1 hx1
                left
                rcases (addEnds_slice c1 s es s1 x1).mp hx1 with r | r
                · have hx0 : x1 ∈ getSlice c0.toValidate s1 := r
                  have := ((hp0 s1 x1).mp hx0).1
                  apply (addEnds_slice _ s es s1 x1).mpr
                  left
                  show x1 ∈ getSlice (addPending b.toValidate s _) s1
                  rw [getSlice_addPending]
                  by_cases hs1 : s1 = s
                  · subst hs1; simp [this]
                  · simp [hs1, this]
                · exact (addEnds_slice _ s es s1 x1).mpr (Or.inr r)
            · apply Reach.of_sets
              · intro k0 hk0
                rw [tyY.1] at hk0
                have hk0' : (b.nodeIn k0).isSome = true := hk0
                refine Reach.typed ?_
                rw [tyX.1]
                rcases hb0 : b.nodeIn k0 with _ | t
                · rw [hb0] at hk0'; simp at hk0'
                · show (c0.nodeIn k0).isSome = true
                  rw [hst0.mono.tin _ _ hb0]; rfl
              · intro s1 x1 hx1
                rcases (addEnds_slice _ s es s1 x1).mp hx1 with r | r
                · rcases hr0 s1 x1 r with q | q
                  · exact Or.inl ((addEnds_slice c1 s es s1 x1).mpr (Or.inl q))
                  · right
                    rw [tyX.1, tyX.1]; exact q
                · exact Or.inl ((addEnds_slice c1 s es s1 x1).mpr (Or.inr r))
          refine ⟨hst01.trans hpost.step, hpost.wf, fun k => (hpost.typed k).trans (hR k), ?_, ?_, ?_, ?_⟩
          · intro s' x
            rw [hpost.pend s' x]
            constructor
            · rintro ⟨hx, ho, hin⟩
              exact ⟨((hp0 s' x).mp hx).1, ho, hin⟩
            · rintro ⟨hx, ho, hin⟩
              refine ⟨(hp0 s' x).mpr ⟨hx, ?_, ?_⟩, ho, hin⟩
              · rcases h0 : c0.nodeOut s' with _ | t
                · rfl
                · have := hpost.step.mono.tout s' t h0; rw [ho] at this; simp at this
              · rcases h0 : c0.nodeIn x.dst with _ | t
                · rfl
                · have := hpost.step.mono.tin x.dst t h0; rw [hin] at this; simp at this
          · rw [hpost.fr]; exact hfr0.endsFr
          · rw [hpost.sn]
            have e0 : c0.startNodes = b.startNodes := by
              have := hfr0; simp only [Frame, Builder.frame, Prod.mk.injEq] at this; exact this.2.2.2.2.2.2.2.1
            show ((if s = START then c0.startNodes ++ [e] else c0.startNodes).isEmpty && _) = _
            by_cases hst : s = START
            · simp [hst, isEmpty_append_singleton]
            · simp [hst, e0]
          · rw [hpost.en]
            have e0 : c0.endNodes = b.endNodes := by
              have := hfr0; simp only [Frame, Builder.frame, Prod.mk.injEq] at this; exact this.2.2.2.2.2.2.2.2.1
            show ((if e = END then c0.endNodes ++ [s] else c0.endNodes).isEmpty && _) = _
            by_cases hen : e = END
            · simp [hen, isEmpty_append_singleton]
            · have : ¬ END = e := fun h => hen h.symm
              simp [hen, e0, this]


theorem badEnd_sim {im : Impl} {b b' : Builder} (hs : Sim b b') (A : Ty) (e : Key) :
    badEnd im b' A e ↔ badEnd im b A e := by
  unfold badEnd; rw [hs.hasNode, hs.tin]

/-- **the loop over a branch's end nodes may visit them in any order** (and the work list in
    any order each time): from indistinguishable states it fails on both sides or on neither,
    and the results are indistinguishable again. -/
theorem branchEnds_perm_sim (im : Impl) (ord ord' : Ord) (hv : ord.Valid) (hv' : ord'.Valid) (s : Key) (A : Ty)
    (L L' : List Key) (hperm : L.Perm L') (b b' : Builder) (X X' : List (Key × Key)) (hs : Sim b b')
    (hi : InvC im b X) (hi' : InvC im b' X') (hA : b.nodeOut s = some A) :
    (∃ k k', branchEnds im ord s L b = .error k ∧ branchEnds im ord' s L' b' = .error k') ∨
    (∃ c c', branchEnds im ord s L b = .ok c ∧ branchEnds im ord' s L' b' = .ok c' ∧ Sim c c') := by
  have hA' : b'.nodeOut s = some A := by rw [hs.tout]; exact hA
  obtain ⟨hbad, hgood⟩ := branchEnds_char im ord hv s A L b X hi hA
  obtain ⟨hbad', hgood'⟩ := branchEnds_char im ord' hv' s A L' b' X' hi' hA'
  have hiff : (∃ e ∈ L', badEnd im b' A e) ↔ (∃ e ∈ L, badEnd im b A e) := by
    constructor
    · rintro ⟨e, he, hb⟩; exact ⟨e, hperm.mem_iff.mpr he, (badEnd_sim hs A e).mp hb⟩
    · rintro ⟨e, he, hb⟩; exact ⟨e, hperm.mem_iff.mp he, (badEnd_sim hs A e).mpr hb⟩
  by_cases hb : ∃ e ∈ L, badEnd im b A e
  · obtain ⟨k, hk⟩ := hbad hb
    obtain ⟨k', hk'⟩ := hbad' (hiff.mpr hb)
    exact Or.inl ⟨k, k', hk, hk'⟩
  · obtain ⟨c, hc, hp⟩ := hgood hb
    obtain ⟨c', hc', hp'⟩ := hgood' (fun h => hb (hiff.mp h))
    refine Or.inr ⟨c, c', hc, hc', ?_⟩
    -- same reachable sets in the two all-at-once states
    have tyX := addEnds_types b s L
    have tyY := addEnds_types b' s L'
    have hreach : ∀ k, Reach (addEnds b' s L') k ↔ Reach (addEnds b s L) k := by
      intro k
      constructor
      · apply Reach.of_sets
        · intro k0 hk0; exact Reach.typed (by rw [tyX.1, ← hs.tin, ← tyY.1]; exact hk0)
        · intro s1 x1 hx1
          left
          rcases (addEnds_slice b' s L' s1 x1).mp hx1 with r | ⟨r1, e, he, r2⟩
          · exact (addEnds_slice b s L s1 x1).mpr (Or.inl ((hs.pend s1 x1).mp r))
          · exact (addEnds_slice b s L s1 x1).mpr (Or.inr ⟨r1, e, hperm.mem_iff.mpr he, r2⟩)
      · apply Reach.of_sets
        · intro k0 hk0; exact Reach.typed (by rw [tyY.1, hs.tin, ← tyX.1]; exact hk0)
        · intro s1 x1 hx1
          left
          rcases (addEnds_slice b s L s1 x1).mp hx1 with r | ⟨r1, e, he, r2⟩
          · exact (addEnds_slice b' s L' s1 x1).mpr (Or.inl ((hs.pend s1 x1).mpr r))
          · exact (addEnds_slice b' s L' s1 x1).mpr (Or.inr ⟨r1, e, hperm.mem_iff.mp he, r2⟩)
    have hsome : ∀ k, (c'.nodeIn k).isSome = (c.nodeIn k).isSome := by
      intro k
      have a := hp.typed k; have a' := hp'.typed k; have r := hreach k
      rcases h1 : (c'.nodeIn k).isSome <;> rcases h2 : (c.nodeIn k).isSome
      · rfl
      · exact absurd (a'.mpr (r.mpr (a.mp h2))) (by rw [h1]; simp)
      · exact absurd (a.mpr (r.mp (a'.mp h1))) (by rw [h2]; simp)
      · rfl
    have hin : ∀ k, c'.nodeIn k = c.nodeIn k := by
      intro k
      rcases hb0 : b.nodeIn k with _ | t
      · have hb0' : b'.nodeIn k = none := by rw [hs.tin]; exact hb0
        have e1 : c.nodeIn k = none ∨ c.nodeIn k = some A := by
          rcases hp.step.tin k with r | r
          · left; rw [r]; exact hb0
          · right; exact r
        have e2 : c'.nodeIn k = none ∨ c'.nodeIn k = some A := by
          rcases hp'.step.tin k with r | r
          · left; rw [r]; exact hb0'
          · right; exact r
        have := hsome k
        rcases e1 with e1 | e1 <;> rcases e2 with e2 | e2 <;> rw [e1, e2] at this ⊢ <;> simp at this
      · rw [hp.step.mono.tin k t hb0, hp'.step.mono.tin k t (by rw [hs.tin]; exact hb0)]
    have hout : ∀ k, c'.nodeOut k = c.nodeOut k := by
      intro k
      rcases hb0 : b.nodeOut k with _ | t
      · have hb0' : b'.nodeOut k = none := by rw [hs.tout]; exact hb0
        have e1 : c.nodeOut k = none ∨ c.nodeOut k = some A := by
          rcases hp.step.tout k with r | r
          · left; rw [r]; exact hb0
          · right; exact r
        have e2 : c'.nodeOut k = none ∨ c'.nodeOut k = some A := by
          rcases hp'.step.tout k with r | r
          · left; rw [r]; exact hb0'
          · right; exact r
        -- typedness of the output follows that of the input (well-formed nodes)
        have hi1 : c.nodeOut k = none ↔ c.nodeIn k = none := (hp.wf.untyped_iff k).symm
        have hi2 : c'.nodeOut k = none ↔ c'.nodeIn k = none := (hp'.wf.untyped_iff k).symm
        have hkk := hin k
        rcases e1 with e1 | e1 <;> rcases e2 with e2 | e2
        · rw [e1, e2]
        · exfalso
          have := hi1.mp e1; rw [← hkk] at this
          have := hi2.mpr this; rw [e2] at this; simp at this
        · exfalso
          have := hi2.mp e2; rw [hkk] at this
          have := hi1.mpr this; rw [e1] at this; simp at this
        · rw [e1, e2]
      · rw [hp.step.mono.tout k t hb0, hp'.step.mono.tout k t (by rw [hs.tout]; exact hb0)]
    have hfr := hs.fr
    simp only [Builder.simFrame, Prod.mk.injEq] at hfr
    obtain ⟨h1, h2, h3, h4, h5, h6, h7, h8, h9, h10, h11, h12, h13⟩ := hfr
    have f := hp.fr; have f' := hp'.fr
    simp only [Prod.mk.injEq, keysOf] at f f'
    obtain ⟨g1, g2, g3, g4, g5, g6, g7, g8, g9, g10, g11, g12⟩ := f
    obtain ⟨g1', g2', g3', g4', g5', g6', g7', g8', g9', g10', g11', g12'⟩ := f'
    refine ⟨?_, ?_, hin, hout, ?_⟩
    · simp only [Builder.simFrame, Prod.mk.injEq]
      refine ⟨by rw [g1', g1, h1], by rw [g2', g2, h2], by rw [g3', g3, h3], by rw [g4', g4, h4], by rw [g5', g5, h5],
        by rw [g6', g6, h6], by rw [g7', g7, h7], by rw [g8', g8, h8], by rw [g9', g9, h9], by rw [g10', g10, h10],
        by rw [g11', g11, h11], ?_, ?_⟩
      · rw [hp'.sn, hp.sn, h12]
        have : L'.isEmpty = L.isEmpty := by
          have := hperm.length_eq
          cases L <;> cases L' <;> simp_all
        rw [this]
      · rw [hp'.en, hp.en, h13]
        have : L'.contains END = L.contains END := by
          have := hperm.mem_iff (a := END)
          cases h1 : L'.contains END <;> cases h2 : L.contains END <;> simp_all
        rw [this]
    · rw [g12, g12']; exact hs.err
    · intro s1 x1
      rw [hp'.pend s1 x1, hp.pend s1 x1, hs.pend s1 x1, hout s1, hin x1.dst]

theorem addBranch_sim (f : Facts) (hf : f.Guarded) (hg : f.branchGuarded = true) (hpr : f.branchPropagates = true)
    (im : Impl) (ord ord' : Ord) (hv : ord.Valid) (hv' : ord'.Valid)
    (b b' : Builder) (hs : Sim b b') (hi : Inv im b) (hi' : Inv im b') (s : Key) (t : Ty) (ends : List Key) :
    (addBranch f im ord b s t ends false).2.cls = (addBranch f im ord' b' s t ends false).2.cls ∧
    (Sim (addBranch f im ord b s t ends false).1 (addBranch f im ord' b' s t ends false).1 ∨
     BothErr (addBranch f im ord b s t ends false).1 (addBranch f im ord' b' s t ends false).1) := by
  unfold addBranch
  apply guarded_sim (R := Sim) f.branchG (by rw [hf.branch]; rfl) b b' hs _ _ _ hs
  rw [addBranchBody_eq f hg hpr, addBranchBody_eq f hg hpr, branchStruct_sim hs]
  rcases hst : branchStruct b s ends with _ | k
  · simp only
    have hex : b.hasNode s = true ∨ s = START := by
      unfold branchStruct at hst
      by_cases h1 : s = END
      · simp [h1] at hst
      · by_cases h2 : (!b.hasNode s && s != START) = true
        · simp [h1, h2] at hst
        · by_cases hh : b.hasNode s = true
          · exact Or.inl hh
          · right; simpa [hh] using h2
    have hex' : b'.hasNode s = true ∨ s = START := by rw [hs.hasNode]; exact hex
    have hst1 := hs.branchTyped s t
    rw [hst1.tout s]
    -- the start node is typed once the condition type has been accepted
    have htyped : ∀ r, checkAssignable im ((branchTyped b s t).nodeOut s) (some t) = r → r ≠ .mustNot →
        ∃ A, (branchTyped b s t).nodeOut s = some A := by
      intro r hr hne
      rcases ho : (branchTyped b s t).nodeOut s with _ | A
      · rw [ho] at hr; simp [checkAssignable] at hr; exact absurd hr.symm hne
      · exact ⟨A, rfl⟩
    rcases hr : checkAssignable im ((branchTyped b s t).nodeOut s) (some t) with _ | _ | _
    · exact Or.inl ⟨_, _, rfl, rfl⟩
    all_goals
      simp only
      obtain ⟨A, hA⟩ := htyped _ hr (by simp)
      obtain ⟨hw1, hq1, hp1, _, _, _⟩ := branchTyped_pre im b s t hi
      obtain ⟨hw1', _, hp1', _, _, _⟩ := branchTyped_pre im b' s t hi'
      -- the propagating run of the work list
      rename_i flag0
      generalize hflag : (_ == Asg.may) = flag
      have hs2 : Sim ({ branchTyped b s t with preBranch := (branchTyped b s t).preBranch ++ [(s, flag)] } : Builder)
          ({ branchTyped b' s t with preBranch := (branchTyped b' s t).preBranch ++ [(s, flag)] } : Builder) :=
        ⟨hst1.fr, hst1.err, hst1.tin, hst1.tout, hst1.pend⟩
      rcases update_sim im ord ord' hv hv' t _ _ hs2 hw1 hw1' hq1 hp1 hp1' with ⟨e1, e2⟩ | ⟨b3, b3', e1, e2, hs3⟩
      · rw [e1, e2]; exact Or.inl ⟨_, _, rfl, rfl⟩
      · rw [e1, e2]
        simp only
        obtain ⟨hc3, _⟩ := branch_mid_inv im ord hv b b3 s t flag hi hex e1
        obtain ⟨hc3', _⟩ := branch_mid_inv im ord' hv' b' b3' s t flag hi' hex' e2
        have hA3 : b3.nodeOut s = some A := by
          have hw2 : WF ({ branchTyped b s t with preBranch := (branchTyped b s t).preBranch ++ [(s, flag)] } : Builder) := hw1
          obtain ⟨hu, _, _⟩ := update_spec im ord hv t
            ({ branchTyped b s t with preBranch := (branchTyped b s t).preBranch ++ [(s, flag)] } : Builder) b3 hw2 hq1 hp1 e1
          exact hu.step.mono.tout s A hA
        have hperm : (ord.ends b3 ends).Perm (ord'.ends b3' ends) :=
          (hv.ends b3 ends).trans (hv'.ends b3' ends).symm
        rcases branchEnds_perm_sim im ord ord' hv hv' s A _ _ hperm b3 b3' [] [] hs3 hc3 hc3' hA3 with
          ⟨k, k', f1, f2⟩ | ⟨b4, b4', f1, f2, hs4⟩
        · rw [f1, f2]; exact Or.inl ⟨_, _, rfl, rfl⟩
        · rw [f1, f2]
          refine Or.inr ⟨_, _, rfl, rfl, ?_⟩
          refine ⟨?_, hs4.err, hs4.tin, hs4.tout, hs4.pend⟩
          have hfr := hs4.fr
          simp only [Builder.simFrame, Prod.mk.injEq] at hfr ⊢
          obtain ⟨h1, h2, h3, h4, h5, h6, h7, h8, h9, h10, h11, h12, h13⟩ := hfr
          simp only [h1, h2, h3, h4, h5, h6, h7, h8, h9, h10, h11, h12, h13, and_self]
  · exact Or.inl ⟨k, k, rfl, rfl⟩


/-! ### key preservation per call, and the run-level theorem -/

theorem guarded_keysOK (g : Guards) (b : Builder) (body : Except ErrKind Builder) (hk : KeysOK b)
    (hbody : ∀ c, body = .ok c → KeysOK c) : KeysOK (guarded g b body).1 := by
  apply guarded_preserves (P := KeysOK) g b body hk (fun _ => ⟨hk.nodup, hk.nores⟩) hbody

theorem addNode_keysOK (f : Facts) (b : Builder) (n : NodeSpec) (hk : KeysOK b) : KeysOK (addNode f b n).1 := by
  unfold addNode
  apply guarded_keysOK _ _ _ hk
  intro c hc
  rcases hck : addNodeCheck b n with _ | k
  · simp only [hck, Except.ok.injEq] at hc
    subst hc
    have hkey : n.key ≠ START ∧ n.key ≠ END ∧ b.hasNode n.key = false := by
      unfold addNodeCheck at hck
      by_cases h1 : (n.key = END || n.key = START) = true
      · simp [h1] at hck
      · simp only [h1] at hck
        by_cases h2 : b.hasNode n.key = true
        · simp [h2] at hck
        · simp only [Bool.or_eq_true, decide_eq_true_eq, not_or] at h1
          exact ⟨h1.2, h1.1, by simpa using h2⟩
    have hnk : (n.node).key = n.key := by unfold NodeSpec.node; split <;> rfl
    refine ⟨?_, ?_⟩
    · show ((b.nodes ++ [n.node]).map (·.key)).Nodup
      rw [List.map_append, List.nodup_append]
      refine ⟨hk.nodup, by simp, ?_⟩
      intro a ha b0 hb0
      simp only [List.map_cons, List.map_nil, List.mem_singleton] at hb0
      rw [hb0, hnk]
      intro e
      obtain ⟨m, hm, hmk⟩ := List.mem_map.mp ha
      have : findNode b.nodes m.key = some m := findNode_of_mem_nodup hk.nodup hm
      have hh : b.hasNode n.key = true := by
        unfold Builder.hasNode; rw [← e, ← hmk, this]; rfl
      rw [hkey.2.2] at hh; simp at hh
    · intro m hm
      rcases List.mem_append.mp hm with hm | hm
      · exact hk.nores m hm
      · simp only [List.mem_singleton] at hm
        subst hm; rw [hnk]; exact ⟨hkey.1, hkey.2.1⟩
  · simp [hck] at hc

theorem addEdge_keysOK (f : Facts) (im : Impl) (ord : Ord) (b : Builder) (s e : Key) (hk : KeysOK b) :
    KeysOK (addEdge f im ord b s e false false none).1 := by
  unfold addEdge
  split
  · exact hk
  · split
    · exact hk
    · simp only [Bool.and_self, Bool.false_eq_true, ↓reduceIte]
      apply guarded_keysOK _ _ _ hk
      intro c hc
      rw [addEdgeBody_eq] at hc
      split at hc
      · simp at hc
      · split at hc
        · simp at hc
        · rename_i b2 hupd
          simp only [Except.ok.injEq] at hc
          subst hc
          have := update_keys im ord _ _ hupd
          exact hk.of_keys (b' := { b2 with dataEdges := b2.dataEdges ++ [(s, e)] }) this

theorem addBranch_keysOK (f : Facts) (hg : f.branchGuarded = true) (hpr : f.branchPropagates = true)
    (im : Impl) (ord : Ord) (b : Builder) (s : Key) (t : Ty) (ends : List Key) (hk : KeysOK b) :
    KeysOK (addBranch f im ord b s t ends false).1 := by
  unfold addBranch
  apply guarded_keysOK _ _ _ hk
  intro c hc
  rw [addBranchBody_eq f hg hpr] at hc
  have hk1 : keysOf (branchTyped b s t) = keysOf b := by
    unfold branchTyped
    split
    · simp [keysOf, Builder.setTy, setTyIn_keys]
    · rfl
  split at hc
  · simp at hc
  · split at hc
    · simp at hc
    · split at hc
      · simp at hc
      · rename_i b3 hupd
        split at hc
        · simp at hc
        · rename_i b4 hends
          simp only [Except.ok.injEq] at hc
          subst hc
          have h3 := update_keys im ord _ _ hupd
          have h4 := branchEnds_keys im ord s _ _ _ hends
          refine hk.of_keys (b' := { b4 with branches := b4.branches ++ [_] }) ?_
          show keysOf b4 = keysOf b
          rw [h4, h3]; exact hk1

theorem compile_keysOK (f : Facts) (ord : Ord) (b : Builder) (o : COpts) (hk : KeysOK b) :
    KeysOK (compile f ord b o).1 := by
  have hm : KeysOK (mutatePre f b) := by
    unfold mutatePre; split
    · exact ⟨hk.nodup, hk.nores⟩
    · exact hk
  unfold compile
  split
  · exact hk
  · split
    · exact hk
    · split
      · exact hm
      · exact ⟨hm.nodup, hm.nores⟩

/-- **Two runs of the same Graph-API call sequence under two iteration orders give the same
    outcome class for every call** (ok / error / ErrGraphCompiled / panic): the orders in
    which the type-inference work list, the end nodes of a branch and Kahn's counters are
    visited are arbitrary, state-dependent and independent of each other. -/
theorem run_order_free (f : Facts) (hf : f.Guarded) (hg : f.branchGuarded = true) (hpr : f.branchPropagates = true)
    (hm : f.compileMutates = false)
    (im : Impl) (ord ord' : Ord) (hv : ord.Valid) (hv' : ord'.Valid) :
    ∀ (ops : List Op) (b b' : Builder), (∀ op ∈ ops, op.isGraphApi = true) →
      ((Sim b b' ∧ Inv im b ∧ Inv im b' ∧ KeysOK b) ∨ BothErr b b') →
      (run f im ord b ops).2.1.map Outcome.cls = (run f im ord' b' ops).2.1.map Outcome.cls := by
  intro ops
  induction ops with
  | nil => intro b b' _ _; rfl
  | cons op ops ih =>
    intro b b' hops hrel
    have hop : op.isGraphApi = true := hops op List.mem_cons_self
    have hrest : ∀ x ∈ ops, x.isGraphApi = true := fun x hx => hops x (List.mem_cons_of_mem _ hx)
    simp only [run, List.map_cons]
    rcases hrel with ⟨hs, hi, hi', hko⟩ | ⟨he, he'⟩
    · have key : (step f im ord b op).2.1.cls = (step f im ord' b' op).2.1.cls ∧
          ((Sim (step f im ord b op).1 (step f im ord' b' op).1 ∧ Inv im (step f im ord b op).1 ∧
              Inv im (step f im ord' b' op).1 ∧ KeysOK (step f im ord b op).1) ∨
            BothErr (step f im ord b op).1 (step f im ord' b' op).1) := by
        cases op with
        | node n =>
          obtain ⟨h1, h2⟩ := addNode_sim f hf b b' hs n
          refine ⟨h1, ?_⟩
          rcases h2 with h2 | h2
          · exact Or.inl ⟨h2, addNode_inv f im b n hi, addNode_inv f im b' n hi', addNode_keysOK f b n hko⟩
          · exact Or.inr h2
        | edge s e nc nd m =>
          simp only [Op.isGraphApi, Bool.and_eq_true, Bool.not_eq_true', Option.isNone_iff_eq_none] at hop
          obtain ⟨⟨rfl, rfl⟩, rfl⟩ := hop
          obtain ⟨h1, h2⟩ := addEdge_sim f hf im ord ord' hv hv' b b' hs hi hi' s e
          refine ⟨h1, ?_⟩
          rcases h2 with h2 | h2
          · exact Or.inl ⟨h2, addEdge_inv f im ord hv b s e hi, addEdge_inv f im ord' hv' b' s e hi',
              addEdge_keysOK f im ord b s e hko⟩
          · exact Or.inr h2
        | branch s t ends sk =>
          simp only [Op.isGraphApi, Bool.not_eq_true'] at hop
          subst hop
          obtain ⟨h1, h2⟩ := addBranch_sim f hf hg hpr im ord ord' hv hv' b b' hs hi hi' s t ends
          refine ⟨h1, ?_⟩
          rcases h2 with h2 | h2
          · exact Or.inl ⟨h2, addBranch_inv f hg hpr im ord hv b s t ends hi,
              addBranch_inv f hg hpr im ord' hv' b' s t ends hi', addBranch_keysOK f hg hpr im ord b s t ends hko⟩
          · exact Or.inr h2
        | compile o =>
          obtain ⟨h1, h2⟩ := compile_sim f hm ord ord'
            (fun x hx => validateDAG_order_free x hx ord' ord hv'.kahn hv.kahn) b b' hs hko o
          refine ⟨h1, ?_⟩
          rcases h2 with h2 | h2
          · exact Or.inl ⟨h2, compile_inv f im ord b o hi, compile_inv f im ord' b' o hi', compile_keysOK f ord b o hko⟩
          · exact Or.inr h2
      rw [key.1]
      congr 1
      exact ih _ _ hrest key.2
    · -- both runs carry a stored error: every call returns it
      obtain ⟨k, hk⟩ := Option.isSome_iff_exists.mp he
      obtain ⟨k', hk'⟩ := Option.isSome_iff_exists.mp he'
      rw [step_stored f hf im ord b k hk op, step_stored f hf im ord' b' k' hk' op]
      simp only [Outcome.cls]
      congr 1
      exact ih b b' hrest (Or.inr ⟨he, he'⟩)


theorem Sim.refl (b : Builder) (h : b.buildError = none) : Sim b b :=
  ⟨rfl, ⟨h, h⟩, fun _ => rfl, fun _ => rfl, fun _ _ => Iff.rfl⟩

theorem Inv_new (im : Impl) (cmp : Cmp) (inT outT : Ty) (st : Option Nat) : Inv im (Builder.new cmp inT outT st) := by
  refine ⟨⟨?_, ?_, ?_, ?_⟩, rfl, ?_⟩
  · intro n hn; simp [Builder.new] at hn
  · intro s pe hpe; simp [Builder.new, getSlice] at hpe
  · intro s pe hpe; simp [Builder.new, getSlice] at hpe
  · intro s e hc
    rcases hc with hc | hc
    · rcases hc with hc | ⟨br, hbr, _⟩
      · simp [Builder.new] at hc
      · simp [Builder.new] at hbr
    · simp at hc
  · intro p hp; simp [Builder.new] at hp

theorem KeysOK_new (cmp : Cmp) (inT outT : Ty) (st : Option Nat) : KeysOK (Builder.new cmp inT outT st) :=
  ⟨by simp [Builder.new], by intro n hn; simp [Builder.new] at hn⟩

end EinoV.Build
