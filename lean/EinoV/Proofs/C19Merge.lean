/-
  C19 — lemmas about the merged-reader model (Model/C19Merge.lean): the invariant of every run of
  `recv` picks and what `close` does under each loop shape.
-/
import EinoV.Model.C19Merge

namespace EinoV.C19.Merge

/-- what every state reached from `init srcs` satisfies -/
structure Inv (srcs : List Src) (s : St) : Prop where
  srcs_eq : s.srcs = srcs
  sub : s.chosen.Sublist (List.range srcs.length)
  done : ∀ i, i < srcs.length → i ∉ s.chosen → s.gotOf i = s.lenOf i
  sig : s.signalled = []

theorem inv_init (srcs : List Src) : Inv srcs (init srcs) where
  srcs_eq := rfl
  sub := List.Sublist.refl _
  done := by
    intro i hi hn
    exact absurd (List.mem_range.mpr hi) hn
  sig := rfl

theorem gotOf_set_ne (s : St) (i j v : Nat) (h : j ≠ i) :
    ({ s with got := s.got.set i v } : St).gotOf j = s.gotOf j := by
  simp only [St.gotOf, List.getD_eq_getElem?_getD]
  rw [List.getElem?_set_ne (Ne.symm h)]

theorem inv_step {srcs : List Src} {s s' : St} (e : Ev) (hi : Inv srcs s) (h : step s e = some s') :
    Inv srcs s' := by
  cases e with
  | chunk i =>
    simp only [step] at h
    split at h
    · rename_i hc
      cases h
      refine ⟨hi.srcs_eq, hi.sub, ?_, hi.sig⟩
      intro j hj hn
      have hne : j ≠ i := fun hji => hn (hji ▸ hc.1)
      rw [gotOf_set_ne s i j _ hne]
      exact hi.done j hj hn
    · cases h
  | ended i =>
    simp only [step] at h
    split at h
    · rename_i hc
      cases h
      refine ⟨hi.srcs_eq, (List.erase_sublist).trans hi.sub, ?_, hi.sig⟩
      intro j hj hn
      by_cases hji : j = i
      · subst hji; exact hc.2
      · have : j ∉ s.chosen := fun hm => hn ((List.mem_erase_of_ne hji).mpr hm)
        exact hi.done j hj this
    · cases h

theorem inv_run {srcs : List Src} : ∀ (evs : List Ev) {s s' : St}, Inv srcs s → run s evs = some s' → Inv srcs s'
  | [], s, s', hi, h => by
    simp only [run, Option.some.injEq] at h
    exact h ▸ hi
  | e :: es, s, s', hi, h => by
    simp only [run] at h
    split at h
    · rename_i s1 h1
      exact inv_run es (inv_step e hi h1) h
    · cases h

theorem chosen_nodup {srcs : List Src} {s : St} (hi : Inv srcs s) : s.chosen.Nodup :=
  hi.sub.nodup List.nodup_range

theorem chosen_lt {srcs : List Src} {s : St} (hi : Inv srcs s) {i : Nat} (h : i ∈ s.chosen) : i < srcs.length :=
  List.mem_range.mp (hi.sub.subset h)

/-- under a sound loop shape `close` signals no source twice -/
theorem closeTargets_nodup {srcs : List Src} {s : St} (hi : Inv srcs s) (sh : CloseShape) :
    (closeTargets sh s).Nodup := by
  cases sh with
  | allSources => exact List.nodup_range
  | openValues => exact chosen_nodup hi
  | openPositions => exact List.nodup_range
  | other => exact List.nodup_nil

/-- under a sound loop shape every source still in `chosenList` is signalled -/
theorem open_mem_closeTargets {srcs : List Src} {s : St} (hi : Inv srcs s) (sh : CloseShape) (hs : sh.sound = true)
    {i : Nat} (h : i ∈ s.chosen) : i ∈ closeTargets sh s := by
  cases sh with
  | allSources =>
    simp only [closeTargets, hi.srcs_eq]
    exact List.mem_range.mpr (chosen_lt hi h)
  | openValues => exact h
  | openPositions => cases hs
  | other => cases hs

theorem released_close {srcs : List Src} {s : St} (hi : Inv srcs s) (sh : CloseShape) (hs : sh.sound = true)
    {i : Nat} (hlt : i < srcs.length) : (close sh s).released i = true := by
  by_cases hc : i ∈ s.chosen
  · have hm := open_mem_closeTargets hi sh hs hc
    simp only [St.released, close, Bool.or_eq_true, List.contains_eq_mem, List.mem_append, decide_eq_true_eq]
    exact Or.inr (Or.inr hm)
  · have hd := hi.done i hlt hc
    simp only [St.released, close, Bool.or_eq_true, beq_iff_eq]
    exact Or.inl (Or.inr hd)

/-- the by-position loop: a source still open whose index is not below the number of open
    sources gets no signal; if its sender still has chunks to deliver it stays blocked -/
theorem positions_miss {srcs : List Src} {s : St} (hi : Inv srcs s) {i : Nat}
    (hge : s.chosen.length ≤ i) (hgot : s.gotOf i ≠ s.lenOf i) (hpre : s.preOf i = false) :
    (close .openPositions s).released i = false := by
  have hnm : i ∉ List.range s.chosen.length := fun h => by
    have := List.mem_range.mp h
    omega
  simp only [St.released, close, closeTargets, hi.sig, List.nil_append, Bool.or_eq_false_iff,
    beq_eq_false_iff_ne, ne_eq, List.contains_eq_mem, decide_eq_false_iff_not]
  exact ⟨⟨hpre, hgot⟩, hnm⟩

end EinoV.C19.Merge
