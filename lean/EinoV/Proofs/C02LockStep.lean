import EinoV.Proofs.C02Confluence
import EinoV.Proofs.C02EndWaits

namespace EinoV.Engine
namespace DagRun

/-! ### lock step: which nodes run in which step on which input does not depend on the schedule -/

theorem Enabled.mono {V} {r : Runner V} {H H' : List (Done V)} (hh : ∀ d, d ∈ H → d ∈ H') {n : Key}
    (h : Enabled r H n) : Enabled r H' n := by
  obtain ⟨h1, h2, ⟨p, hp, o, ho, hr⟩, h4⟩ := h
  refine ⟨h1, fun q hq => ?_, ⟨p, hp, o, hh _ ho, hr⟩, fun q hq => ?_⟩
  · rcases h2 q hq with ⟨o', ho'⟩ | hs
    · exact Or.inl ⟨o', hh _ ho'⟩
    · exact Or.inr (hs.mono hh)
  · rcases h4 q hq with ⟨o', ho'⟩ | hs
    · exact Or.inl ⟨o', hh _ ho'⟩
    · exact Or.inr (hs.mono hh)

theorem enabled_of_facts {V} (ops : ValOps V) (r : Runner V) (H : List (Done V)) (n : Key) (v : V)
    (f : StartFacts ops r H n v) : Enabled r H n :=
  ⟨f.hasCtrl, f.ctrlRes, f.routed f.hasCtrl, f.dataRes⟩

/-- the facts of a trace (newest first), at one of its steps -/
theorem factsTr_at {V} (ops : ValOps V) (r : Runner V) (x : V) (T : Trace V) (h : FactsTr ops r x T) :
    ∀ pre step older, T = pre ++ step :: older →
      ∀ n v, (n, v) ∈ step → StartFacts ops r (histOf r x older) n v := by
  induction T with
  | nil => intro pre step older e; simp at e
  | cons s rest ih =>
    intro pre step older e
    cases pre with
    | nil =>
      simp only [List.nil_append, List.cons.injEq] at e
      obtain ⟨rfl, rfl⟩ := e
      exact h.1
    | cons p pre' =>
      simp only [List.cons_append, List.cons.injEq] at e
      exact ih h.2 pre' step older e.2

theorem compTr_at {V} (r : Runner V) (x : V) (T : Trace V) (h : CompTr r x T) :
    ∀ pre step older, T = pre ++ step :: older →
      ∀ n, Enabled r (histOf r x older) n → n ∈ keysOfTr (step :: older) := by
  induction T with
  | nil => intro pre step older e; simp at e
  | cons s rest ih =>
    intro pre step older e
    cases pre with
    | nil =>
      simp only [List.nil_append, List.cons.injEq] at e
      obtain ⟨rfl, rfl⟩ := e
      exact h.1
    | cons p pre' =>
      simp only [List.cons_append, List.cons.injEq] at e
      exact ih h.2 pre' step older e.2

theorem histOf_mem {V} (r : Runner V) (x : V) (T : Trace V) (d : Done V) :
    d ∈ histOf r x T ↔ d = (START, x) ∨ ∃ t, t ∈ T.flatten ∧ outOf r t = some d := by
  simp only [histOf, List.mem_cons, List.mem_filterMap]

theorem histOf_suffix {V} (r : Runner V) (x : V) (pre : Trace V) (step : List (Key × V)) (older : Trace V) :
    ∀ d, d ∈ histOf r x older → d ∈ histOf r x (pre ++ step :: older) := by
  intro d hd
  rw [histOf_mem] at hd ⊢
  rcases hd with h | ⟨t, ht, ho⟩
  · exact Or.inl h
  · refine Or.inr ⟨t, ?_, ho⟩
    simp only [List.flatten_append, List.flatten_cons, List.mem_append]
    exact Or.inr (Or.inr ht)

/-- the steps of a trace given oldest first: `L[j]`, with the steps before it -/
theorem split_at {α} (L : List α) (j : Nat) (s : α) (h : L[j]? = some s) :
    L.reverse = (L.drop (j + 1)).reverse ++ s :: (L.take j).reverse := by
  have hj : j < L.length := by
    rcases Nat.lt_or_ge j L.length with h' | h'
    · exact h'
    · rw [List.getElem?_eq_none h'] at h; cases h
  have e : L = L.take j ++ s :: L.drop (j + 1) := by
    have hs : L[j] = s := by
      rw [List.getElem?_eq_getElem hj] at h; exact Option.some.inj h
    rw [← hs]
    exact (List.take_append_drop j L).symm.trans (by rw [List.drop_eq_getElem_cons hj])
  calc L.reverse = (L.take j ++ s :: L.drop (j + 1)).reverse := by rw [← e]
    _ = (L.drop (j + 1)).reverse ++ s :: (L.take j).reverse := by simp

theorem mem_take_flatten {α} (L : List (List α)) (j : Nat) (t : α) :
    t ∈ (L.take j).flatten ↔ ∃ i s, i < j ∧ L[i]? = some s ∧ t ∈ s := by
  induction L generalizing j with
  | nil => simp
  | cons a rest ih =>
    cases j with
    | zero => simp
    | succ j =>
      simp only [List.take_succ_cons, List.flatten_cons, List.mem_append, ih]
      constructor
      · rintro (h | ⟨i, s, hi, hs, ht⟩)
        · exact ⟨0, a, Nat.succ_pos _, rfl, h⟩
        · exact ⟨i + 1, s, Nat.succ_lt_succ hi, by simpa using hs, ht⟩
      · rintro ⟨i, s, hi, hs, ht⟩
        cases i with
        | zero =>
          simp only [List.getElem?_cons_zero, Option.some.injEq] at hs
          subst hs; exact Or.inl ht
        | succ i =>
          exact Or.inr ⟨i, s, Nat.lt_of_succ_lt_succ hi, by simpa using hs, ht⟩

theorem mem_reverse_flatten {α} (L : List (List α)) (t : α) : t ∈ L.reverse.flatten ↔ t ∈ L.flatten := by
  simp only [List.mem_flatten, List.mem_reverse]

/-- **lock step.**  Two runs of a runner whose every start has the facts, is complete and happens
    at most once: at every step both of them reach, they start the same nodes on the same inputs. -/
theorem steps_agree {V} (ops : ValOps V) (hm : MergePerm ops) (r : Runner V) (x : V)
    (rank : Key → Nat)
    (hrank : ∀ n p, (p ∈ lookupList n r.ctrlPreds ∨ p ∈ lookupList n r.dataPreds) → rank p < rank n)
    (hstartC : lookupList START r.ctrlPreds = [])
    (LA LB : Trace V)
    (fA : FactsTr ops r x LA.reverse) (fB : FactsTr ops r x LB.reverse)
    (cA : CompTr r x LA.reverse) (cB : CompTr r x LB.reverse)
    (oA : ∀ k, (keysOfTr LA.reverse).count k ≤ 1) (oB : ∀ k, (keysOfTr LB.reverse).count k ≤ 1)
    (sA : (keysOfTr LA.reverse).count START = 0) (sB : (keysOfTr LB.reverse).count START = 0)
    (nA : ∀ t, t ∈ LA.reverse.flatten → (r.node? t.1).isSome = true)
    (nB : ∀ t, t ∈ LB.reverse.flatten → (r.node? t.1).isSome = true) :
    ∀ (j : Nat) (stA stB : List (Key × V)), LA[j]? = some stA → LB[j]? = some stB → ∀ t, t ∈ stA ↔ t ∈ stB := by
  have gA := grounded_of_run ops r x LA.reverse fA oA sA nA
  have gB := grounded_of_run ops r x LB.reverse fB oB sB nB
  -- one direction, for two runs in either role
  have half : ∀ (L L' : Trace V), FactsTr ops r x L.reverse → FactsTr ops r x L'.reverse →
      CompTr r x L'.reverse → (∀ k, (keysOfTr L.reverse).count k ≤ 1) →
      Grounded ops r x (histOf r x L.reverse) → Grounded ops r x (histOf r x L'.reverse) →
      ∀ (j : Nat) (st st' : List (Key × V)), L[j]? = some st → L'[j]? = some st' →
        (∀ (i : Nat) (s s' : List (Key × V)), i < j → L[i]? = some s → L'[i]? = some s' → ∀ t, t ∈ s ↔ t ∈ s') →
        ∀ t, t ∈ st → t ∈ st' := by
    intro L L' f f' c' o g g' j st st' hst hst' ih t ht
    have eL := split_at L j st hst
    have eL' := split_at L' j st' hst'
    have hjL : j < L.length := by
      rcases Nat.lt_or_ge j L.length with h' | h'
      · exact h'
      · rw [List.getElem?_eq_none h'] at hst; cases hst
    have hjL' : j < L'.length := by
      rcases Nat.lt_or_ge j L'.length with h' | h'
      · exact h'
      · rw [List.getElem?_eq_none h'] at hst'; cases hst'
    -- the older histories have the same members
    have holder : ∀ d, d ∈ histOf r x (L.take j).reverse → d ∈ histOf r x (L'.take j).reverse := by
      intro d hd
      rw [histOf_mem] at hd ⊢
      rcases hd with h | ⟨u, hu, ho⟩
      · exact Or.inl h
      · refine Or.inr ⟨u, ?_, ho⟩
        rw [mem_reverse_flatten] at hu ⊢
        obtain ⟨i, s, hi, hs, hus⟩ := (mem_take_flatten L j u).mp hu
        have hi' : i < L'.length := Nat.lt_trans hi hjL'
        exact (mem_take_flatten L' j u).mpr ⟨i, L'[i], hi, List.getElem?_eq_getElem hi',
          (ih i s L'[i] hi hs (List.getElem?_eq_getElem hi') u).mp hus⟩
    obtain ⟨n, v⟩ := t
    have facts := factsTr_at ops r x L.reverse f _ st _ eL n v ht
    have hen : Enabled r (histOf r x (L'.take j).reverse) n :=
      (enabled_of_facts ops r _ n v facts).mono holder
    have hmem := compTr_at r x L'.reverse c' _ st' _ eL' n hen
    rw [keysOfTr_cons, List.mem_append] at hmem
    rcases hmem with hk | hk
    · -- started at this step in the other run: same input
      obtain ⟨v', hv'⟩ := exists_of_mem_akeys _ _ hk
      have facts' := factsTr_at ops r x L'.reverse f' _ st' _ eL' n v' hv'
      have : v = v' := grounded_input_agree ops hm r x rank hrank hstartC
        (histOf r x L.reverse) (histOf r x L'.reverse) _ _ g g'
        (by rw [eL]; exact histOf_suffix r x _ st _) (by rw [eL']; exact histOf_suffix r x _ st' _)
        n v v' facts facts'
      rw [this]; exact hv'
    · -- started earlier in the other run: then also earlier in this run, twice in all
      exfalso
      simp only [keysOfTr, List.mem_map] at hk
      obtain ⟨u, hu, hun⟩ := hk
      rw [mem_reverse_flatten] at hu
      obtain ⟨i, s', hi, hs', hus⟩ := (mem_take_flatten L' j u).mp hu
      have hiL : i < L.length := Nat.lt_trans hi hjL
      have hu2 : u ∈ L[i] := (ih i L[i] s' hi (List.getElem?_eq_getElem hiL) hs' u).mpr hus
      have hcount : 2 ≤ (keysOfTr L.reverse).count n := by
        rw [eL]
        have e1 : keysOfTr ((L.drop (j + 1)).reverse ++ st :: (L.take j).reverse) =
            keysOfTr (L.drop (j + 1)).reverse ++ (akeys st ++ keysOfTr (L.take j).reverse) := by
          simp [keysOfTr, akeys]
        rw [e1, List.count_append, List.count_append]
        have p1 : 0 < (akeys st).count n := List.count_pos_iff.mpr (mem_akeys_of_mem n v _ ht)
        have p2 : 0 < (keysOfTr (L.take j).reverse).count n := by
          apply List.count_pos_iff.mpr
          simp only [keysOfTr, List.mem_map]
          refine ⟨u, ?_, hun⟩
          rw [mem_reverse_flatten]
          exact (mem_take_flatten L j u).mpr ⟨i, L[i], hi, List.getElem?_eq_getElem hiL, hu2⟩
        omega
      have := o n
      omega
  intro j
  induction j using Nat.strongRecOn with
  | _ j ih =>
    intro stA stB hA hB t
    have ihAB : ∀ i s s', i < j → LA[i]? = some s → LB[i]? = some s' → ∀ t, t ∈ s ↔ t ∈ s' :=
      fun i s s' hi hs hs' => ih i hi s s' hs hs'
    have ihBA : ∀ i s s', i < j → LB[i]? = some s → LA[i]? = some s' → ∀ t, t ∈ s ↔ t ∈ s' :=
      fun i s s' hi hs hs' t => (ih i hi s' s hs' hs t).symm
    exact ⟨half LA LB fA fB cB oA gA gB j stA stB hA hB ihAB t,
           half LB LA fB fA cA oB gB gA j stB stA hB hA ihBA t⟩

/-- run level: lock step of two runs under two fair schedules -/
theorem run_steps_sched_independent {V} (ops : ValOps V) (hm : MergePerm ops) (r : Runner V)
    (wf : DagWF r) (wf2 : DagWF2 r) (wf3 : DagWF3 r) (sA sB : Sched V) (hfA : sA.Fair) (hfB : sB.Fair) (x : V) :
    ∀ (j : Nat) (stA stB : List (Key × V)), (runS ops r sA x).trace[j]? = some stA →
      (runS ops r sB x).trace[j]? = some stB → ∀ t, t ∈ stA ↔ t ∈ stB := by
  obtain ⟨rank, _, hrank⟩ := wf3.acyclicAll
  have fa := run_facts ops r wf wf2 wf3 sA hfA x
  have fb := run_facts ops r wf wf2 wf3 sB hfB x
  exact steps_agree ops hm r x rank hrank wf3.startNoPreds _ _ fa.facts fb.facts
    (run_complete ops r wf wf2 sA hfA x) (run_complete ops r wf wf2 sB hfB x)
    fa.once fb.once fa.noStart fb.noStart fa.nodes fb.nodes

/-- a run that returns a value is not outlasted: no other fair schedule executes more steps -/
theorem run_ok_not_outlasted {V} (ops : ValOps V) (hm : MergePerm ops) (r : Runner V)
    (wf : DagWF r) (wf2 : DagWF2 r) (wf3 : DagWF3 r) (sA sB : Sched V) (hfA : sA.Fair) (hfB : sB.Fair) (x v : V)
    (hA : (runS ops r sA x).result = .ok v) :
    (runS ops r sB x).trace.length ≤ (runS ops r sA x).trace.length := by
  apply Classical.byContradiction
  intro hlt
  have hlt : (runS ops r sA x).trace.length < (runS ops r sB x).trace.length := by omega
  generalize hLA : (runS ops r sA x).trace = LA at hlt
  generalize hLB : (runS ops r sB x).trace = LB at hlt
  have fa := run_facts ops r wf wf2 wf3 sA hfA x
  have hEnd := fa.res v hA
  rw [hLA] at hEnd
  -- END is enabled by the completions of A's steps, all of which B has executed by its step |LA|
  have hst : LB[LA.length]? = some LB[LA.length] := List.getElem?_eq_getElem hlt
  have eB := split_at LB LA.length _ hst
  have hsub : ∀ d, d ∈ histOf r x LA.reverse → d ∈ histOf r x (LB.take LA.length).reverse := by
    intro d hd
    rw [histOf_mem] at hd ⊢
    rcases hd with h | ⟨u, hu, ho⟩
    · exact Or.inl h
    · refine Or.inr ⟨u, ?_, ho⟩
      rw [mem_reverse_flatten] at hu ⊢
      obtain ⟨s, hs, hus⟩ := List.mem_flatten.mp hu
      obtain ⟨i, hi, rfl⟩ := List.mem_iff_getElem.mp hs
      have hiB : i < LB.length := Nat.lt_trans hi hlt
      have := run_steps_sched_independent ops hm r wf wf2 wf3 sA sB hfA hfB x i LA[i] LB[i]
        (by rw [hLA]; exact List.getElem?_eq_getElem hi) (by rw [hLB]; exact List.getElem?_eq_getElem hiB) u
      exact (mem_take_flatten LB LA.length u).mpr ⟨i, LB[i], hi, List.getElem?_eq_getElem hiB, this.mp hus⟩
  have hen : Enabled r (histOf r x (LB.take LA.length).reverse) END :=
    (enabled_of_facts ops r _ END v hEnd).mono hsub
  exact run_end_never_waits ops r wf wf2 sB hfB x _ _ _ (by rw [hLB]; exact eB) hen

/-! ### a run that returns a value has no failed task; hence neither has any other schedule -/

theorem runTasks_ok_all {V} (r : Runner V) (sched : Sched V) (hf : sched.Fair) (step : Nat)
    (ts : List (Key × V)) (done : List (Done V)) (h : runTasks r sched step ts = .ok done) :
    ∀ t, t ∈ ts → (outOf r t).isSome = true := by
  unfold runTasks at h
  intro t ht
  have hm : execOne r t ∈ sched step (ts.map (execOne r)) :=
    (hf step _).symm.subset (List.mem_map.mpr ⟨t, ht, rfl⟩)
  obtain ⟨d', _, h2⟩ := mapM_collectOne_mem' _ _ h _ hm
  simp [outOf, h2]

theorem loop_ok_all {V} (ops : ValOps V) (r : Runner V) (sched : Sched V) (hf : sched.Fair) :
    ∀ (fuel : Nat) (cm : Chans V) (tasks : List (Key × V)) (tr : Trace V) (v : V),
      (∀ t, t ∈ tr.flatten → (outOf r t).isSome = true) →
      (loop ops r sched fuel cm tasks tr).result = .ok v →
      ∀ t, t ∈ (loop ops r sched fuel cm tasks tr).trace.flatten → (outOf r t).isSome = true := by
  intro fuel
  induction fuel with
  | zero => intro cm tasks tr v _ h; simp [loop] at h
  | succ f ih =>
    intro cm tasks tr v h0 hres
    unfold loop at hres ⊢
    simp only at hres ⊢
    cases hr : runTasks r sched tr.length tasks with
    | error e => simp [hr] at hres
    | ok done =>
      simp only [hr] at hres ⊢
      have hall : ∀ t, t ∈ (tasks :: tr).flatten → (outOf r t).isSome = true := by
        intro t ht
        simp only [List.flatten_cons, List.mem_append] at ht
        rcases ht with h | h
        · exact runTasks_ok_all r sched hf _ _ _ hr t h
        · exact h0 t h
      have hrev : ∀ t, t ∈ (tasks :: tr).reverse.flatten → (outOf r t).isSome = true := by
        intro t ht
        rw [mem_reverse_flatten] at ht
        exact hall t ht
      by_cases he : done.isEmpty = true
      · simp [he] at hres
      · simp only [he, Bool.false_eq_true, ↓reduceIte] at hres ⊢
        cases hc : calcNext ops r cm done with
        | error e => simp [hc] at hres
        | ok res =>
          obtain ⟨cm', nx⟩ := res
          cases nx with
          | result w => simp only [hc]; exact hrev
          | tasks ts =>
            simp only [hc] at hres ⊢
            exact ih cm' ts (tasks :: tr) v hall hres

/-- every task of a run that returns a value succeeded -/
theorem run_ok_all_tasks_succeed {V} (ops : ValOps V) (r : Runner V) (sched : Sched V) (hf : sched.Fair) (x v : V)
    (h : (runS ops r sched x).result = .ok v) :
    ∀ t, t ∈ (runS ops r sched x).trace.flatten → (outOf r t).isSome = true := by
  unfold runS at h ⊢
  cases hc : calcNext ops r (initChans r) [(START, x)] with
  | error e => simp [hc] at h
  | ok res =>
    obtain ⟨cm', nx⟩ := res
    cases nx with
    | result w => intro t ht; simp at ht
    | tasks ts =>
      simp only [hc] at h ⊢
      exact loop_ok_all ops r sched hf r.fuel cm' ts [] v (by intro t ht; simp at ht) h

/-- **if one schedule returns a value, no node fails under any other fair schedule** -/
theorem run_ok_other_no_node_failure {V} (ops : ValOps V) (hm : MergePerm ops) (r : Runner V)
    (wf : DagWF r) (wf2 : DagWF2 r) (wf3 : DagWF3 r) (sA sB : Sched V) (hfA : sA.Fair) (hfB : sB.Fair) (x v : V)
    (hA : (runS ops r sA x).result = .ok v) :
    ∀ t, t ∈ (runS ops r sB x).trace.flatten → (outOf r t).isSome = true := by
  intro t ht
  obtain ⟨s, hs, hts⟩ := List.mem_flatten.mp ht
  obtain ⟨j, hj, rfl⟩ := List.mem_iff_getElem.mp hs
  have hle := run_ok_not_outlasted ops hm r wf wf2 wf3 sA sB hfA hfB x v hA
  have hjA : j < (runS ops r sA x).trace.length := by omega
  have := run_steps_sched_independent ops hm r wf wf2 wf3 sA sB hfA hfB x j _ _
    (List.getElem?_eq_getElem hjA) (List.getElem?_eq_getElem hj) t
  exact run_ok_all_tasks_succeed ops r sA hfA x v hA t
    (List.mem_flatten.mpr ⟨_, List.getElem_mem hjA, this.mpr hts⟩)

end DagRun
end EinoV.Engine
