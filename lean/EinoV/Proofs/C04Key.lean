import EinoV.Model.C04Key
namespace EinoV.C04
open EinoV.Engine

theorem panicsAt_safe {V} (l : List (KVal V)) : panicsAt true l = false := by
  induction l with
  | nil => rfl
  | cons a l ih => cases a <;> simp [panicsAt, ih]

/-- a stream all of whose chunks carry a well-typed value under the key is forwarded unchanged -/
theorem keyStream_good {V} (vs : List V) :
    keyStream (vs.map KVal.good) = { chunks := vs, err := none } := by
  induction vs with
  | nil => rfl
  | cons v vs ih => simp [keyStream, ih]

/-- the one-chunk stream (what `Stream` / an invoke-only producer hands over): stream mode fails
    exactly when value mode fails, and delivers the same value otherwise -/
theorem key_single_chunk {V} (co : ChunkOps V) (kv : KVal V) :
    (∀ v, keyValue kv = .ok v → lazyConcat co (keyStream [kv]) = .ok v) ∧
    (∀ e, keyValue kv = .error e → ∃ e', lazyConcat co (keyStream [kv]) = .error e') := by
  cases kv with
  | absent =>
    refine ⟨(by intro v h; cases h), fun e _ => ⟨co.emptyErr, ?_⟩⟩
    simp [keyStream, lazyConcat, LStream.force, concat, bind, Except.bind]
  | nilVal =>
    refine ⟨(by intro v h; cases h), fun e _ => ⟨errKeyType, ?_⟩⟩
    simp [keyStream, lazyConcat, LStream.force, bind, Except.bind]
  | wrong =>
    refine ⟨(by intro v h; cases h), fun e _ => ⟨errKeyType, ?_⟩⟩
    simp [keyStream, lazyConcat, LStream.force, bind, Except.bind]
  | good v =>
    refine ⟨?_, (by intro e h; cases h)⟩
    intro w h
    simp only [keyValue, Except.ok.injEq] at h
    subst h
    simp [keyStream, lazyConcat, LStream.force, concat, bind, Except.bind]

end EinoV.C04
