/-
  C08 — helper lemmas for the hand-over of a reader with history (Model/C08Late.lean).
-/
import EinoV.Model.C08Late
import EinoV.Proofs.C08

set_option linter.unusedSimpArgs false
set_option linter.unusedVariables false

namespace EinoV.C08

/-- Reading copy `i` to the end from ANY state of its cell: what is left for it in the shared
    list, then what the source still holds. -/
theorem drainChild_spec (f : CopyFacts) (hfo : f.fillOnce = true) : ∀ (fuel : Nat) (y : CopySys (List Item)) (i k : Nat),
    y.core.cursors[i]? = some (some k) → k ≤ y.core.log.length →
    (y.core.eofSeen = true → y.src = []) →
    y.core.log.length - k + y.src.length < fuel →
    drainChild f fuel y i = some (y.core.log.drop k ++ y.src) := by
  intro fuel
  induction fuel with
  | zero => intro y i k _ _ _ hf; omega
  | succ n ih =>
    intro y i k hc hk he hf
    have hi : i < y.core.cursors.length := (List.getElem?_eq_some_iff.mp hc).1
    cases hl : y.core.log[k]? with
    | some it =>
      have hlt : k < y.core.log.length := (List.getElem?_eq_some_iff.mp hl).1
      have hd : y.core.log.drop k = it :: y.core.log.drop (k + 1) := by
        rw [List.drop_eq_getElem_cons hlt]
        have := (List.getElem?_eq_some_iff.mp hl).2
        rw [this]
      simp only [drainChild, CopySys.recv1, CopyCore.peekLocal, hfo, hc, hl]
      simp only [Bool.not_true, Bool.false_eq_true, if_false]
      rw [ih _ i (k + 1) (by simp [hi]) (by simp; omega) (by simpa using he) (by simp; omega)]
      simp [hd]
    | none =>
      have hge : y.core.log.length ≤ k := List.getElem?_eq_none_iff.mp hl
      have hkeq : k = y.core.log.length := by omega
      have hd : y.core.log.drop k = [] := by simp [hkeq]
      by_cases hes : y.core.eofSeen = true
      · simp only [drainChild, CopySys.recv1, CopyCore.peekLocal, hfo, hc, hl, hes]
        simp [hd, he hes]
      · have hes' : y.core.eofSeen = false := by simpa using hes
        cases hsrc : y.src with
        | nil =>
          simp only [drainChild, CopySys.recv1, CopyCore.peekLocal, hfo, hc, hl, hes', listSrc, hsrc]
          simp [hd]
        | cons x rest =>
          simp only [drainChild, CopySys.recv1, CopyCore.peekLocal, hfo, hc, hl, hes', listSrc, hsrc]
          simp only [Bool.not_true, Bool.false_eq_true, if_false, CopyCore.fill]
          rw [ih _ i (k + 1) (by simp [hi]) (by simp [hkeq]) (by simp [hes']) (by simp [hsrc] at hf ⊢; omega)]
          simp [hd, hkeq]

end EinoV.C08
