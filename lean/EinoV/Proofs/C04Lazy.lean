/-
  C04 — error items on streams (`Model/C04Lazy.lean`): helper lemmas, no property statements.
-/
import EinoV.Model.C04Lazy
import EinoV.Proofs.EngineHom

namespace EinoV.C04
open EinoV.Engine

variable {V : Type}

theorem LStream.force_err (s : LStream V) (e : Err) (he : s.err = some e) : s.force = .error e := by
  simp [LStream.force, he]

theorem LStream.force_ok (s : LStream V) (he : s.err = none) : s.force = .ok s.chunks := by
  simp [LStream.force, he]

theorem findSome_err_mem (ls : List (LStream V)) (e : Err) (h : ls.findSome? (·.err) = some e) :
    ∃ s ∈ ls, s.err = some e := by
  obtain ⟨s, hs, he⟩ := List.exists_of_findSome?_eq_some h
  exact ⟨s, hs, he⟩

theorem findSome_err_none (ls : List (LStream V)) (h : ∀ s ∈ ls, s.err = none) :
    ls.findSome? (·.err) = none := by
  rw [List.findSome?_eq_none_iff]
  exact h

theorem findSome_err_some (ls : List (LStream V)) (s : LStream V) (hs : s ∈ ls) (e : Err) (he : s.err = some e) :
    ∃ e', ls.findSome? (·.err) = some e' := by
  cases hf : ls.findSome? (·.err) with
  | some e' => exact ⟨e', rfl⟩
  | none =>
    rw [List.findSome?_eq_none_iff] at hf
    have := hf s hs
    rw [he] at this
    cases this

/-- the chunk view of error-free lazy streams commutes with the fan-in merge -/
theorem lazy_ops_ok (z : V) : OpsOK (LStream.chunks (V := V)) (fun s => s.err = none) (lazyOps z) (listOps z) where
  merge := by
    intro l _
    simp [lazyOps, listOps]
  mergeKeeps := by
    intro l m hl hm
    simp only [lazyOps, Option.some.injEq] at hm
    subst hm
    exact findSome_err_none l hl
  zero := rfl

end EinoV.C04
