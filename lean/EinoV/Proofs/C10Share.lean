/-
  C10 — helper lemmas about the compile-time model of Lambda nodes (Model/C10Share.lean):
  when every graph node owns its runnable (`owns = true`) the name stored in a node's action
  is the node's own, for every compile order.
  (Property statements are in EinoV/Props/C10.lean.)
-/
import EinoV.Model.C10Share
import EinoV.Proofs.C10

namespace EinoV.C10

/-! ## after the declarations -/

/-- state after the first `k` declarations, every node owning its runnable -/
structure AddInv (nLam : Nat) (ns : List NodeD) (k : Nat) (st : CState) : Prop where
  next : st.next = nLam + k
  ref : ∀ j, j < k → st.ref j = nLam + j
  own : ∀ j d, j < k → ns[j]? = some d → st.cell (nLam + j) = ⟨d.lam, none⟩
  lam : ∀ l, l < nLam → st.cell l = ⟨l, none⟩
  act : ∀ i, st.action i = none

theorem addInv_init (nLam : Nat) (ns : List NodeD) : AddInv nLam ns 0 (CState.init nLam) :=
  ⟨rfl, fun _ h => absurd h (Nat.not_lt_zero _), fun _ _ h => absurd h (Nat.not_lt_zero _),
   fun _ _ => rfl, fun _ => rfl⟩

theorem addInv_step {nLam : Nat} {ns : List NodeD} {k : Nat} {st : CState} (h : AddInv nLam ns k st)
    (d : NodeD) (hd : ns[k]? = some d) (hl : d.lam < nLam) :
    AddInv nLam ns (k + 1) (addNode true st k d) := by
  have hn := h.next
  refine ⟨?_, ?_, ?_, ?_, ?_⟩
  · simp only [addNode, if_true]; omega
  · intro j hj
    simp only [addNode, if_true]
    by_cases hjk : j = k
    · subst hjk; rw [upd_same]; exact hn
    · rw [upd_other _ _ _ _ hjk]; exact h.ref j (by omega)
  · intro j d' hj hd'
    simp only [addNode, if_true]
    by_cases hjk : j = k
    · subst hjk
      rw [hd] at hd'
      cases hd'
      rw [← hn, upd_same]
      exact h.lam _ hl
    · rw [upd_other _ _ _ _ (by omega)]
      exact h.own j d' (by omega) hd'
  · intro l hlt
    simp only [addNode, if_true]
    rw [upd_other _ _ _ _ (by omega)]
    exact h.lam l hlt
  · intro i
    simp only [addNode, if_true]
    exact h.act i

theorem addInv_from {nLam : Nat} {ns : List NodeD} (hwf : ∀ d ∈ ns, d.lam < nLam) :
    ∀ (ds : List NodeD) (k : Nat) (st : CState), AddInv nLam ns k st →
      (∀ j d, ds[j]? = some d → ns[k + j]? = some d) →
      AddInv nLam ns (k + ds.length) (addNodesFrom true st k ds) := by
  intro ds
  induction ds with
  | nil => intro k st h _; simpa [addNodesFrom] using h
  | cons d ds ih =>
    intro k st h hmap
    have hd : ns[k]? = some d := by simpa using hmap 0 d (by simp)
    have hmem : d ∈ ns := List.mem_of_getElem? hd
    have h1 := addInv_step h d hd (hwf d hmem)
    have h2 := ih (k + 1) (addNode true st k d) h1 (by
      intro j d' hj
      have := hmap (j + 1) d' (by simpa using hj)
      rwa [show k + (j + 1) = k + 1 + j by omega] at this)
    have e : k + (d :: ds).length = k + 1 + ds.length := by simp; omega
    rw [e]
    simpa [addNodesFrom] using h2

theorem addInv_all {nLam : Nat} {ns : List NodeD} (hwf : ∀ d ∈ ns, d.lam < nLam) :
    AddInv nLam ns ns.length (addNodes true nLam ns) := by
  have := addInv_from hwf ns 0 (CState.init nLam) (addInv_init nLam ns) (by intro j d h; simpa using h)
  simpa [addNodes] using this

/-! ## while graphs are compiled -/

structure CompInv (nLam : Nat) (ns : List NodeD) (st : CState) : Prop where
  next : nLam + ns.length ≤ st.next
  ref : ∀ j, j < ns.length → st.ref j = nLam + j
  own : ∀ j d, ns[j]? = some d → (st.cell (nLam + j)).lam = d.lam
  /-- a node's action is its own runnable or a wrapper allocated later, and holds the node's
      own name -/
  act : ∀ i a, st.action i = some a → ∃ d, ns[i]? = some d ∧ a < st.next ∧
          (a = nLam + i ∨ nLam + ns.length ≤ a) ∧ st.cell a = ⟨d.lam, some d.name⟩

theorem lt_of_getElem? {α : Type} {l : List α} {i : Nat} {x : α} (h : l[i]? = some x) : i < l.length := by
  rcases List.getElem?_eq_some_iff.mp h with ⟨hi, _⟩
  exact hi

theorem compInv_of_addInv {nLam : Nat} {ns : List NodeD} {st : CState} (h : AddInv nLam ns ns.length st) :
    CompInv nLam ns st := by
  refine ⟨by rw [h.next]; exact Nat.le_refl _, h.ref, ?_, ?_⟩
  · intro j d hd
    rw [h.own j d (lt_of_getElem? hd) hd]
  · intro i a ha
    rw [h.act i] at ha
    cases ha

theorem compInv_step {nLam : Nat} {ns : List NodeD} {st : CState} (h : CompInv nLam ns st) (i : Nat) :
    CompInv nLam ns (compileNode ns st i) := by
  unfold compileNode
  cases hd : ns[i]? with
  | none => exact h
  | some d =>
    have hi : i < ns.length := lt_of_getElem? hd
    have hr : st.ref i = nLam + i := h.ref i hi
    have hlam : (st.cell (nLam + i)).lam = d.lam := h.own i d hd
    have hnext := h.next
    simp only [hr]
    by_cases hk : d.keyed = true
    · simp only [hk, if_true]
      refine ⟨by simp only; omega, h.ref, ?_, ?_⟩
      · intro j d' hd'
        have hj : j < ns.length := lt_of_getElem? hd'
        simp only
        rw [upd_other _ _ _ _ (by omega)]
        by_cases hji : j = i
        · subst hji
          rw [hd] at hd'
          cases hd'
          rw [upd_same]
          exact hlam
        · rw [upd_other _ _ _ _ (by omega)]
          exact h.own j d' hd'
      · intro i' a ha
        simp only at ha ⊢
        by_cases hii : i' = i
        · subst hii
          rw [upd_same] at ha
          cases ha
          refine ⟨d, hd, by omega, Or.inr (by omega), ?_⟩
          rw [upd_same, upd_same, hlam]
        · rw [upd_other _ _ _ _ hii] at ha
          obtain ⟨d', hd', halt, hor, hcell⟩ := h.act i' a ha
          refine ⟨d', hd', by omega, hor, ?_⟩
          rw [upd_other _ _ _ _ (by omega), upd_other _ _ _ _ (by omega)]
          exact hcell
    · have hk' : d.keyed = false := by cases hkk : d.keyed <;> simp_all
      simp only [hk', Bool.false_eq_true, if_false]
      refine ⟨hnext, h.ref, ?_, ?_⟩
      · intro j d' hd'
        simp only
        by_cases hji : j = i
        · subst hji
          rw [hd] at hd'
          cases hd'
          rw [upd_same]
          exact hlam
        · rw [upd_other _ _ _ _ (by omega)]
          exact h.own j d' hd'
      · intro i' a ha
        simp only at ha ⊢
        by_cases hii : i' = i
        · subst hii
          rw [upd_same] at ha
          cases ha
          refine ⟨d, hd, by omega, Or.inl rfl, ?_⟩
          rw [upd_same, hlam]
        · rw [upd_other _ _ _ _ hii] at ha
          obtain ⟨d', hd', halt, hor, hcell⟩ := h.act i' a ha
          refine ⟨d', hd', halt, hor, ?_⟩
          rw [upd_other _ _ _ _ (by omega)]
          exact hcell

theorem compInv_foldl {nLam : Nat} {ns : List NodeD} (order : List Nat) :
    ∀ st, CompInv nLam ns st → CompInv nLam ns (order.foldl (compileNode ns) st) := by
  induction order with
  | nil => intro st h; exact h
  | cons i rest ih => intro st h; exact ih _ (compInv_step h i)

/-- a compiled node has an action, and keeps having one -/
theorem action_isSome_step (ns : List NodeD) (st : CState) (i j : Nat)
    (h : j = i ∧ (ns[i]?).isSome ∨ (st.action j).isSome) :
    ((compileNode ns st i).action j).isSome := by
  unfold compileNode
  cases hd : ns[i]? with
  | none =>
    rcases h with ⟨_, h⟩ | h
    · rw [hd] at h; cases h
    · exact h
  | some d =>
    by_cases hji : j = i
    · subst hji
      by_cases hk : d.keyed = true
      · simp [hk, upd_same]
      · have hk' : d.keyed = false := by cases hkk : d.keyed <;> simp_all
        simp [hk', upd_same]
    · rcases h with ⟨h, _⟩ | h
      · exact absurd h hji
      · by_cases hk : d.keyed = true
        · simp only [hk, if_true]; rw [upd_other _ _ _ _ hji]; exact h
        · have hk' : d.keyed = false := by cases hkk : d.keyed <;> simp_all
          simp only [hk', Bool.false_eq_true, if_false]; rw [upd_other _ _ _ _ hji]; exact h

theorem action_isSome_foldl (ns : List NodeD) (j : Nat) (hj : (ns[j]?).isSome) (order : List Nat) :
    ∀ st, (j ∈ order ∨ (st.action j).isSome) → ((order.foldl (compileNode ns) st).action j).isSome := by
  induction order with
  | nil =>
    intro st h
    rcases h with h | h
    · cases h
    · exact h
  | cons i rest ih =>
    intro st h
    apply ih
    rcases h with h | h
    · rcases List.mem_cons.mp h with rfl | h
      · exact Or.inr (action_isSome_step ns st j j (Or.inl ⟨rfl, hj⟩))
      · exact Or.inl h
    · exact Or.inr (action_isSome_step ns st i j (Or.inr h))

/-- every node owns its runnable ⇒ whatever is compiled in whatever order, a compiled node's
    action holds the node's own name and runs the node's own Lambda -/
theorem own_name_of_owns {nLam : Nat} {ns : List NodeD} (hwf : ∀ d ∈ ns, d.lam < nLam)
    (order : List Nat) (i : Nat) (d : NodeD) (hd : ns[i]? = some d) (hi : i ∈ order) :
    runName (compileAll true nLam ns order) i = some d.name ∧
    runLam (compileAll true nLam ns order) i = some d.lam := by
  have inv : CompInv nLam ns (compileAll true nLam ns order) :=
    compInv_foldl order _ (compInv_of_addInv (addInv_all hwf))
  have hs : ((compileAll true nLam ns order).action i).isSome :=
    action_isSome_foldl ns i (by rw [hd]; rfl) order _ (Or.inl hi)
  obtain ⟨a, ha⟩ := Option.isSome_iff_exists.mp hs
  obtain ⟨d', hd', _, _, hcell⟩ := inv.act i a ha
  rw [hd] at hd'
  cases hd'
  simp [runName, runLam, ha, hcell]

end EinoV.C10
