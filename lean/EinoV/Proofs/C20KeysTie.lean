/- C20: without key options the keyed builder model (Model/C20Keys.lean) is the builder model
   (Model/C20Builder.lean): same outcomes, same runners, same builder after every call. -/
import EinoV.Model.C20Keys
import EinoV.Proofs.C20
import EinoV.Proofs.C20Infer
import EinoV.Proofs.C20Keys

namespace EinoV.Build

set_option linter.unusedSimpArgs false

/-- an error of the builder model is an error value, never a panic -/
def liftE {α β : Type} (g : α → β) : Except ErrKind α → Except Fail β
  | .ok a => .ok (g a)
  | .error k => .error (.err k)

@[simp] theorem ofB_b (b : Builder) (mt : Ty) : (XB.ofB b mt).b = b := rfl
@[simp] theorem ofB_nodeIn (b : Builder) (mt : Ty) (k : Key) : (XB.ofB b mt).nodeIn k = b.nodeIn k := by
  simp [XB.nodeIn, XB.ofB]
@[simp] theorem ofB_nodeOut (b : Builder) (mt : Ty) (k : Key) : (XB.ofB b mt).nodeOut k = b.nodeOut k := by
  simp [XB.nodeOut, XB.ofB]
@[simp] theorem ofB_keyed (b : Builder) (mt : Ty) (k : Key) : (XB.ofB b mt).keyed k = false := by
  simp [XB.keyed, XB.ofB]
@[simp] theorem ofB_setTy (b : Builder) (mt : Ty) (k : Key) (t : Ty) :
    (XB.ofB b mt).setTy k t = XB.ofB (b.setTy k t) mt := rfl
theorem ofB_with (b b' : Builder) (mt : Ty) : ({ XB.ofB b mt with b := b' } : XB) = XB.ofB b' mt := rfl

theorem procEntriesX_plain (K : KFacts) (im : Impl) (mt : Ty) (s : Key) (sTy : Option Ty) :
    ∀ (l : List PEdge) (b : Builder) (kept : List PEdge) (ch : Bool),
      (sTy.isSome = true → (b.nodeOut s).isSome = true) →
      procEntriesX K im s sTy l (XB.ofB b mt) kept ch =
        liftE (fun r => (XB.ofB r.1 mt, r.2.1, r.2.2)) (procEntries im s sTy l b kept ch)
  | [], b, kept, ch, _ => by simp [procEntriesX, procEntries, liftE]
  | pe :: rest, b, kept, ch, hs => by
    unfold procEntriesX procEntries
    simp only [ofB_nodeIn]
    have hin : ∀ et, b.nodeIn pe.dst = some et → (XB.ofB b mt).helperNilIn K pe.dst = false := by
      intro et he; simp only [XB.helperNilIn, ofB_b, he]; rfl
    cases sTy with
    | none =>
      cases he : b.nodeIn pe.dst with
      | none => exact procEntriesX_plain K im mt s _ rest b _ _ hs
      | some et =>
        simp only [hin et he, Bool.false_eq_true, ↓reduceIte, ofB_setTy]
        exact procEntriesX_plain K im mt s _ rest _ _ _ (fun h => by simp at h)
    | some st =>
      have hn : (XB.ofB b mt).helperNilOut K s = false := by
        have := hs rfl
        simp only [XB.helperNilOut, ofB_b]
        cases hh : b.nodeOut s <;> simp_all
      cases he : b.nodeIn pe.dst with
      | none =>
        simp only [hn, Bool.false_eq_true, ↓reduceIte, ofB_setTy]
        exact procEntriesX_plain K im mt s _ rest _ _ _ (fun h => nodeOut_setTy_isSome b _ _ s (hs h))
      | some et =>
        simp only []
        cases hm : pe.mapped with
        | some t => exact procEntriesX_plain K im mt s _ rest _ _ _ (fun h => hs h)
        | none =>
          simp only []
          cases hc : checkAssignable im (some st) (some et) with
          | mustNot => simp [liftE]
          | may =>
            simp only [hin et he, Bool.false_eq_true, ↓reduceIte]
            exact procEntriesX_plain K im mt s _ rest _ _ _ (fun h => hs h)
          | must => exact procEntriesX_plain K im mt s _ rest b _ _ hs

theorem updRoundX_plain (K : KFacts) (im : Impl) (mt : Ty) :
    ∀ (ks : List Key) (b : Builder) (ch : Bool),
      updRoundX K im ks (XB.ofB b mt) ch = liftE (fun r => (XB.ofB r.1 mt, r.2)) (updRound im ks b ch)
  | [], b, ch => by simp [updRoundX, updRound, liftE]
  | s :: ks, b, ch => by
    unfold updRoundX updRound
    simp only [ofB_nodeOut, ofB_b]
    rw [procEntriesX_plain K im mt s _ _ b [] false (fun h => h)]
    cases procEntries im s (b.nodeOut s) (getSlice b.toValidate s) b [] false with
    | error k => simp [liftE]
    | ok r =>
      obtain ⟨b', kept, ch'⟩ := r
      simp only [liftE, ofB_b]
      exact updRoundX_plain K im mt ks _ _

theorem updLoopX_plain (K : KFacts) (im : Impl) (ord : Ord) (mt : Ty) :
    ∀ (fuel : Nat) (b : Builder),
      updLoopX K im ord fuel (XB.ofB b mt) = liftE (fun r => XB.ofB r mt) (updLoop im ord fuel b)
  | 0, b => by simp [updLoopX, updLoop, liftE]
  | fuel + 1, b => by
    unfold updLoopX updLoop
    simp only [ofB_b]
    rw [updRoundX_plain]
    cases updRound im (ord.keys b (b.toValidate.map (·.1))) b false with
    | error k => simp [liftE]
    | ok r =>
      obtain ⟨b', ch⟩ := r
      simp only [liftE]
      split
      · exact updLoopX_plain K im ord mt fuel b'
      · rfl

theorem updateX_plain (K : KFacts) (im : Impl) (ord : Ord) (mt : Ty) (b : Builder) :
    updateX K im ord (XB.ofB b mt) = liftE (fun r => XB.ofB r mt) (update im ord b) := by
  unfold updateX update
  exact updLoopX_plain K im ord mt _ b

theorem guardedX_plain (g : Guards) (b : Builder) (mt : Ty) (body : Except ErrKind Builder) :
    guardedX g (XB.ofB b mt) (liftE (fun r => XB.ofB r mt) body) =
      (XB.ofB (guarded g b body).1 mt, (guarded g b body).2) := by
  unfold guardedX guarded
  simp only [ofB_b]
  cases hE : (if g.checkErr = true then b.buildError else none) with
  | some k => rfl
  | none =>
    simp only []
    by_cases hc : (g.checkCompiled && b.compiled) = true
    · simp only [hc, ↓reduceIte]
    · simp only [hc, ↓reduceIte]
      cases body with
      | ok b' => simp [liftE]
      | error k => simp only [liftE]; cases g.storeErr <;> rfl

theorem addNodeCheckX_plain (b : Builder) (mt : Ty) (n : NodeSpec) :
    addNodeCheckX (XB.ofB b mt) n false false = addNodeCheck b n := by
  obtain ⟨key, pt, inTy, outTy, pre, post, ko⟩ := n
  unfold addNodeCheckX addNodeCheck
  simp only [ofB_b, Bool.false_eq_true, ↓reduceIte]
  cases pt <;> cases pre <;> cases post <;> simp <;> (repeat' split) <;> simp_all

theorem addNodeX_plain (f : Facts) (b : Builder) (mt : Ty) (n : NodeSpec) :
    addNodeX f (XB.ofB b mt) n false false = (XB.ofB (addNode f b n).1 mt, (addNode f b n).2) := by
  unfold addNodeX addNode
  rw [addNodeCheckX_plain]
  rw [← guardedX_plain]
  congr 1
  cases addNodeCheck b n <;> simp [liftE, XB.ofB]

theorem addEdgeBodyX_plain (K : KFacts) (im : Impl) (ord : Ord) (b : Builder) (mt : Ty) (s e : Key)
    (nc nd : Bool) (m : Option Nat) :
    addEdgeBodyX K im ord (XB.ofB b mt) s e nc nd m =
      liftE (fun r => XB.ofB r mt) (addEdgeBody im ord b s e nc nd m) := by
  unfold addEdgeBodyX addEdgeBody
  simp only [ofB_b]
  by_cases h1 : s = END
  · simp only [h1, ↓reduceIte, Bool.false_eq_true, liftE]
  by_cases h2 : e = START
  · simp only [h1, h2, ↓reduceIte, Bool.false_eq_true, liftE]
  by_cases h3 : (!b.hasNode s && s != START) = true
  · simp only [h1, h2, h3, ↓reduceIte, Bool.false_eq_true, liftE]
  by_cases h4 : (!b.hasNode e && e != END) = true
  · simp only [h1, h2, h3, h4, ↓reduceIte, Bool.false_eq_true, liftE]
  simp only [h1, h2, h3, h4, ↓reduceIte, Bool.false_eq_true]
  -- the data part, from the builder `b1` the control part leaves
  have hdata : ∀ b1 : Builder,
      (if nd = true then (Except.ok { XB.ofB b mt with b := b1 } : Except Fail XB)
       else if b1.dataEdges.contains (s, e) = true then .error (.err .dupData)
       else match updateX K im ord { XB.ofB b mt with b := b1.addToValidate s { dst := e, mapped := m } } with
         | .error k => .error k
         | .ok x2 => .ok { x2 with b := { x2.b with dataEdges := x2.b.dataEdges ++ [(s, e)] } }) =
      liftE (fun r => XB.ofB r mt)
        (if nd = true then (Except.ok b1 : Except ErrKind Builder)
         else if b1.dataEdges.contains (s, e) = true then .error .dupData
         else match update im ord (b1.addToValidate s { dst := e, mapped := m }) with
           | .error k => .error k
           | .ok b2 => .ok { b2 with dataEdges := b2.dataEdges ++ [(s, e)] }) := by
    intro b1
    by_cases hnd : nd = true
    · simp only [hnd, ↓reduceIte, Bool.false_eq_true, liftE, ofB_with]
    · simp only [hnd, ↓reduceIte, Bool.false_eq_true]
      by_cases hd : b1.dataEdges.contains (s, e) = true
      · simp only [hd, ↓reduceIte, Bool.false_eq_true, liftE]
      · simp only [hd, ↓reduceIte, Bool.false_eq_true, ofB_with]
        rw [updateX_plain]
        cases update im ord (b1.addToValidate s { dst := e, mapped := m }) <;> simp [liftE, XB.ofB]
  by_cases hnc : nc = true
  · simp only [hnc, ↓reduceIte, Bool.false_eq_true]
    exact hdata b
  · simp only [hnc, ↓reduceIte, Bool.false_eq_true]
    by_cases hcn : b.controlEdges.contains (s, e) = true
    · simp only [hcn, ↓reduceIte, Bool.false_eq_true, liftE]
    · simp only [hcn, ↓reduceIte, Bool.false_eq_true]
      exact hdata _

theorem addEdgeX_plain (K : KFacts) (f : Facts) (im : Impl) (ord : Ord) (b : Builder) (mt : Ty) (s e : Key)
    (nc nd : Bool) (m : Option Nat) :
    addEdgeX K f im ord (XB.ofB b mt) s e nc nd m =
      (XB.ofB (addEdge f im ord b s e nc nd m).1 mt, (addEdge f im ord b s e nc nd m).2) := by
  unfold addEdgeX addEdge
  simp only [ofB_b]
  cases hE : (if f.edgeG.checkErr = true then b.buildError else none) with
  | some k => rfl
  | none =>
    simp only []
    by_cases hc : (f.edgeG.checkCompiled && b.compiled) = true
    · simp only [hc, ↓reduceIte, Bool.false_eq_true]
    · simp only [hc, ↓reduceIte, Bool.false_eq_true]
      by_cases hb : (nc && nd) = true
      · simp only [hb, ↓reduceIte, Bool.false_eq_true]
      · simp only [hb, ↓reduceIte, Bool.false_eq_true]
        rw [addEdgeBodyX_plain, guardedX_plain]

theorem branchEndsX_plain (K : KFacts) (im : Impl) (ord : Ord) (mt : Ty) (s : Key) :
    ∀ (es : List Key) (b : Builder),
      branchEndsX K im ord s es (XB.ofB b mt) = liftE (fun r => XB.ofB r mt) (branchEnds im ord s es b)
  | [], b => by simp [branchEndsX, branchEnds, liftE]
  | e :: es, b => by
    unfold branchEndsX branchEnds
    simp only [ofB_b]
    by_cases h1 : (!b.hasNode e && e != END) = true
    · simp only [h1, ↓reduceIte, Bool.false_eq_true, liftE]
    · simp only [h1, ↓reduceIte, Bool.false_eq_true, ofB_with]
      rw [updateX_plain]
      cases update im ord (b.addToValidate s { dst := e, mapped := none }) with
      | error k => simp [liftE]
      | ok b1 =>
        simp only [liftE, ofB_b, ofB_with]
        exact branchEndsX_plain K im ord mt s es _

/-- `addBranchBody` after the three refusals and the typing of a pass-through start node -/
def branchTail (f : Facts) (im : Impl) (ord : Ord) (b1 : Builder) (s : Key) (t : Ty) (ends : List Key)
    (sk : Bool) : Except ErrKind Builder :=
  match checkAssignable im (b1.nodeOut s) (some t) with
  | .mustNot => .error .branchMismatch
  | r =>
    let b2 := { b1 with preBranch := b1.preBranch ++ [(s, r == .may)] }
    let r3 : Except ErrKind Builder := if f.branchPropagates then update im ord b2 else .ok b2
    match r3 with
    | .error k => .error k
    | .ok b3 =>
      let r4 : Except ErrKind Builder :=
        if sk then .ok b3 else branchEnds im ord s (ord.ends b3 ends) b3
      match r4 with
      | .error k => .error k
      | .ok b4 =>
        .ok { b4 with branches := b4.branches ++ [{ src := s, inTy := t, ends, noData := sk }] }

def branchTailX (K : KFacts) (f : Facts) (im : Impl) (ord : Ord) (x1 : XB) (s : Key) (t : Ty) (ends : List Key)
    (sk : Bool) : Except Fail XB :=
  match checkAssignable im (x1.nodeOut s) (some t) with
  | .mustNot => .error (.err .branchMismatch)
  | r =>
    let x2 := { x1 with b := { x1.b with preBranch := x1.b.preBranch ++ [(s, r == .may)] } }
    let r3 : Except Fail XB := if f.branchPropagates then updateX K im ord x2 else .ok x2
    match r3 with
    | .error k => .error k
    | .ok x3 =>
      let r4 : Except Fail XB :=
        if sk then .ok x3 else branchEndsX K im ord s (ord.ends x3.b ends) x3
      match r4 with
      | .error k => .error k
      | .ok x4 =>
        .ok { x4 with b := { x4.b with
          branches := x4.b.branches ++ [{ src := s, inTy := t, ends, noData := sk }] } }

theorem branchTailX_plain (K : KFacts) (f : Facts) (im : Impl) (ord : Ord) (b1 : Builder) (mt : Ty)
    (s : Key) (t : Ty) (ends : List Key) (sk : Bool) :
    branchTailX K f im ord (XB.ofB b1 mt) s t ends sk =
      liftE (fun r => XB.ofB r mt) (branchTail f im ord b1 s t ends sk) := by
  unfold branchTailX branchTail
  simp only [ofB_nodeOut, ofB_b, ofB_with]
  have hrest : ∀ flag : Bool,
      (match (if f.branchPropagates = true
                then updateX K im ord (XB.ofB { b1 with preBranch := b1.preBranch ++ [(s, flag)] } mt)
                else .ok (XB.ofB { b1 with preBranch := b1.preBranch ++ [(s, flag)] } mt) : Except Fail XB) with
        | .error k => (.error k : Except Fail XB)
        | .ok x3 =>
          match (if sk = true then .ok x3 else branchEndsX K im ord s (ord.ends x3.b ends) x3 : Except Fail XB) with
          | .error k => .error k
          | .ok x4 => .ok { x4 with b := { x4.b with
              branches := x4.b.branches ++ [{ src := s, inTy := t, ends, noData := sk }] } }) =
      liftE (fun r => XB.ofB r mt)
        (match (if f.branchPropagates = true
                  then update im ord { b1 with preBranch := b1.preBranch ++ [(s, flag)] }
                  else .ok { b1 with preBranch := b1.preBranch ++ [(s, flag)] } : Except ErrKind Builder) with
          | .error k => (.error k : Except ErrKind Builder)
          | .ok b3 =>
            match (if sk = true then .ok b3 else branchEnds im ord s (ord.ends b3 ends) b3 : Except ErrKind Builder) with
            | .error k => .error k
            | .ok b4 => .ok { b4 with branches := b4.branches ++ [{ src := s, inTy := t, ends, noData := sk }] }) := by
    intro flag
    have hends : ∀ b3 : Builder,
        (match (if sk = true then .ok (XB.ofB b3 mt)
                else branchEndsX K im ord s (ord.ends (XB.ofB b3 mt).b ends) (XB.ofB b3 mt) : Except Fail XB) with
          | .error k => (.error k : Except Fail XB)
          | .ok x4 => .ok { x4 with b := { x4.b with
              branches := x4.b.branches ++ [{ src := s, inTy := t, ends, noData := sk }] } }) =
        liftE (fun r => XB.ofB r mt)
          (match (if sk = true then .ok b3 else branchEnds im ord s (ord.ends b3 ends) b3 : Except ErrKind Builder) with
            | .error k => (.error k : Except ErrKind Builder)
            | .ok b4 => .ok { b4 with branches := b4.branches ++ [{ src := s, inTy := t, ends, noData := sk }] }) := by
      intro b3
      by_cases hsk : sk = true
      · simp only [hsk, ↓reduceIte, Bool.false_eq_true, liftE, ofB_b]; rfl
      · simp only [hsk, ↓reduceIte, Bool.false_eq_true, ofB_b]
        rw [branchEndsX_plain]
        cases branchEnds im ord s (ord.ends b3 ends) b3 <;> simp [liftE, XB.ofB]
    by_cases hp : f.branchPropagates = true
    · simp only [hp, ↓reduceIte, Bool.false_eq_true]
      rw [updateX_plain]
      cases update im ord { b1 with preBranch := b1.preBranch ++ [(s, flag)] } with
      | error k => simp [liftE]
      | ok b3 => simp only [liftE]; exact hends b3
    · simp only [hp, ↓reduceIte, Bool.false_eq_true]
      exact hends _
  cases hc : checkAssignable im (b1.nodeOut s) (some t) with
  | mustNot => simp [liftE]
  | must => exact hrest _
  | may => exact hrest _

theorem addBranchBody_tail (f : Facts) (im : Impl) (ord : Ord) (b : Builder) (s : Key) (t : Ty)
    (ends : List Key) (sk : Bool) :
    addBranchBody f im ord b s t ends sk =
      if s = END then .error .endAsStart
      else if !b.hasNode s && s != START then .error .branchUnknownStart
      else if ends.length = 1 then .error .branchSingle
      else branchTail f im ord
        (if s != START && isPassthrough b s && (!f.branchGuarded || (b.nodeIn s).isNone) then b.setTy s t else b)
        s t ends sk := rfl

theorem addBranchBodyX_tail (K : KFacts) (f : Facts) (im : Impl) (ord : Ord) (x : XB) (s : Key) (t : Ty)
    (ends : List Key) (sk : Bool) :
    addBranchBodyX K f im ord x s t ends sk =
      if s = END then .error (.err .endAsStart)
      else if !x.b.hasNode s && s != START then .error (.err .branchUnknownStart)
      else if ends.length = 1 then .error (.err .branchSingle)
      else branchTailX K f im ord
        (if s != START && isPassthrough x.b s && (!f.branchGuarded || (x.b.nodeIn s).isNone) then x.setTy s t else x)
        s t ends sk := rfl

theorem addBranchBodyX_plain (K : KFacts) (f : Facts) (im : Impl) (ord : Ord) (b : Builder) (mt : Ty)
    (s : Key) (t : Ty) (ends : List Key) (sk : Bool) :
    addBranchBodyX K f im ord (XB.ofB b mt) s t ends sk =
      liftE (fun r => XB.ofB r mt) (addBranchBody f im ord b s t ends sk) := by
  rw [addBranchBodyX_tail, addBranchBody_tail]
  simp only [ofB_b]
  by_cases h1 : s = END
  · simp only [h1, ↓reduceIte, Bool.false_eq_true, liftE]
  by_cases h2 : (!b.hasNode s && s != START) = true
  · simp only [h1, h2, ↓reduceIte, Bool.false_eq_true, liftE]
  by_cases h3 : ends.length = 1
  · simp only [h1, h2, h3, ↓reduceIte, Bool.false_eq_true, liftE]
  simp only [h1, h2, h3, ↓reduceIte, Bool.false_eq_true]
  by_cases h4 : (s != START && isPassthrough b s && (!f.branchGuarded || (b.nodeIn s).isNone)) = true
  · simp only [h4, ↓reduceIte, Bool.false_eq_true, ofB_setTy]; exact branchTailX_plain K f im ord _ mt s t ends sk
  · simp only [h4, ↓reduceIte, Bool.false_eq_true]; exact branchTailX_plain K f im ord _ mt s t ends sk

theorem addBranchX_plain (K : KFacts) (f : Facts) (im : Impl) (ord : Ord) (b : Builder) (mt : Ty)
    (s : Key) (t : Ty) (ends : List Key) (sk : Bool) :
    addBranchX K f im ord (XB.ofB b mt) s t ends sk =
      (XB.ofB (addBranch f im ord b s t ends sk).1 mt, (addBranch f im ord b s t ends sk).2) := by
  unfold addBranchX addBranch
  rw [addBranchBodyX_plain, guardedX_plain]

/-! ### compile -/

theorem ofB_shownUntyped (b : Builder) (mt : Ty) : (XB.ofB b mt).shownUntyped = b.hasUntyped := by
  simp [XB.shownUntyped, Builder.hasUntyped, XB.ofB]

theorem ofB_keyedUntyped (b : Builder) (mt : Ty) : (XB.ofB b mt).keyedUntyped = false := by
  simp [XB.keyedUntyped, XB.keyed, XB.ofB]

theorem ofB_plainUntyped (b : Builder) (mt : Ty) : (XB.ofB b mt).plainUntyped = b.hasUntyped := by
  simp [XB.plainUntyped, Builder.hasUntyped, XB.keyed, XB.ofB]

theorem compilePreX_plain (K : KFacts) (f : Facts) (hct : f.compileChecksTypes = true) (b : Builder) (mt : Ty)
    (o : COpts) : compilePreX K f (XB.ofB b mt) o = compilePre f b o := by
  unfold compilePreX compilePre
  simp only [ofB_b, ofB_shownUntyped, hct, Bool.true_and]
  by_cases hu : b.hasUntyped = true <;> by_cases hp : b.hasPending = true <;>
    (try simp only [Bool.not_eq_true] at hu hp) <;>
    simp only [hu, hp, Bool.and_true, Bool.and_false, Bool.false_eq_true, ↓reduceIte, ite_self] <;> rfl

theorem compilePostX_plain (K : KFacts) (b : Builder) (mt : Ty) (ord : Ord) (o : COpts) :
    compilePostX K (XB.ofB b mt) ord o = compilePost b ord o := by
  unfold compilePostX compilePost
  simp only [ofB_b, ofB_keyedUntyped, ofB_plainUntyped, Bool.and_false, Bool.false_eq_true, ↓reduceIte]
  rfl

theorem compileX_plain (K : KFacts) (f : Facts) (hct : f.compileChecksTypes = true) (ord : Ord) (b : Builder)
    (mt : Ty) (o : COpts) :
    compileX K f ord (XB.ofB b mt) o =
      (XB.ofB (compile f ord b o).1 mt, (compile f ord b o).2.1, (compile f ord b o).2.2) := by
  unfold compileX compile
  simp only [ofB_b]
  cases hb : b.buildError with
  | some k => rfl
  | none =>
    simp only []
    rw [compilePreX_plain K f hct]
    cases hp : compilePre f b o with
    | some k => rfl
    | none =>
      simp only [ofB_with]
      rw [compilePostX_plain]
      cases hq : compilePost (mutatePre f b) ord o with
      | some oc => rfl
      | none => rfl

/-- **the keyed model extends the builder model**: one call -/
theorem stepX_plain (K : KFacts) (f : Facts) (hct : f.compileChecksTypes = true) (im : Impl) (ord : Ord)
    (b : Builder) (mt : Ty) (op : Op) :
    stepX K f im ord (XB.ofB b mt) (.plain op) =
      (XB.ofB (step f im ord b op).1 mt, (step f im ord b op).2.1, (step f im ord b op).2.2) := by
  cases op with
  | node n => simp only [stepX, step, addNodeX_plain]
  | edge s e nc nd m => simp only [stepX, step, addEdgeX_plain]
  | branch s t ends sk => simp only [stepX, step, addBranchX_plain]
  | compile o => simp only [stepX, step]; exact compileX_plain K f hct ord b mt o

/-- … and every call sequence -/
theorem runX_plain (K : KFacts) (f : Facts) (hct : f.compileChecksTypes = true) (im : Impl) (ord : Ord) (mt : Ty) :
    ∀ (ops : List Op) (b : Builder),
      runX K f im ord (XB.ofB b mt) (ops.map XOp.plain) =
        (XB.ofB (run f im ord b ops).1 mt, (run f im ord b ops).2.1, (run f im ord b ops).2.2)
  | [], b => rfl
  | op :: ops, b => by
    simp only [List.map_cons, runX, run, stepX_plain K f hct im ord b mt op]
    rw [runX_plain K f hct im ord mt ops]
    rfl

end EinoV.Build
