/-
  C03 — helper lemmas: the invariant of the task-manager transition system is preserved by
  every step; the measure decreases; permutation lemmas for `resolveCompletedTasks`.
-/
import EinoV.Model.C03

set_option linter.unusedSimpArgs false

namespace EinoV.C03

/-! ### updateChan -/

theorem updateChan_queue (cap : Nat) (l ch : List Task) :
    (updateChan cap l ch).2 ++ (updateChan cap l ch).1 = ch ++ l := by
  simp [updateChan, List.append_assoc, List.take_append_drop]

theorem updateChan_len (cap : Nat) (l ch : List Task) :
    (updateChan cap l ch).1.length + (updateChan cap l ch).2.length = l.length + ch.length := by
  simp [updateChan]; omega

theorem updateChan_cap {cap : Nat} {l ch : List Task} (h : ch.length ≤ cap) :
    (updateChan cap l ch).2.length ≤ cap := by
  simp [updateChan]; omega

theorem updateChan_full {cap : Nat} {l ch : List Task} (h : ch.length ≤ cap)
    (hne : (updateChan cap l ch).1 ≠ []) : (updateChan cap l ch).2.length = cap := by
  simp [updateChan] at *; omega

/-! ### the invariant -/

theorem inv_init (F : Facts) : Inv F St.init := by
  refine ⟨rfl, Nat.zero_le _, ?_, ?_, ?_⟩
  · intro _ h; exact absurd rfl h
  · exact List.Perm.refl _
  · intro t h; cases h

theorem step_inv {F : Facts} (hF : F.Good) (needAll : Bool) {s s' : St} {e : Ev}
    (hI : Inv F s) (h : step F needAll s e = some s') : Inv F s' := by
  obtain ⟨hR, hP, hX, hC, hE⟩ := hF
  obtain ⟨h1, h2, h3, h4, h5⟩ := hI
  cases e with
  | submit ts =>
    simp only [step] at h
    split at h
    · cases h
    · rename_i hidle
      have hidle' : s.coll = .idle := by simpa using hidle
      cases ts with
      | nil => simp at h; subst h; exact ⟨h1, h2, h3, h4, h5⟩
      | cons t rest =>
        simp only [hX, if_true, Option.some.injEq] at h
        subst h
        by_cases hin : inlines F needAll s (t :: rest) = true
        · simp only [hin, if_true]
          refine ⟨?_, h2, ?_, ?_, ?_⟩
          · simp [List.length_append]; omega
          · intro _ hl; exact h3 (by rw [hidle']; simp) hl
          · have hp : (rest ++ [t]).Perm (t :: rest) := List.perm_append_comm
            have := (h4.append hp)
            refine List.Perm.trans ?_ this
            simp [List.append_assoc]
          · intro t' ht'
            injection ht' with ht'
            subst ht'
            simp
        · simp only [hin, Bool.false_eq_true, if_false]
          refine ⟨?_, h2, ?_, ?_, ?_⟩
          · simp [List.length_append]; omega
          · intro _ hl; exact h3 (by rw [hidle']; simp) hl
          · have := (h4.append (List.Perm.refl (t :: rest)))
            refine List.Perm.trans ?_ this
            simp [List.append_assoc]
          · intro t' ht'; cases ht'
  | finish t err =>
    simp only [step] at h
    split at h
    · rename_i hmem
      have hmem' : t ∈ s.running := by simpa using hmem
      simp only [hP, if_true, Option.some.injEq] at h
      subst h
      have hq := updateChan_queue F.doneCap (s.l ++ [t]) s.ch
      have hl := updateChan_len F.doneCap (s.l ++ [t]) s.ch
      have hlen := List.length_erase_of_mem hmem'
      have hpos : 0 < s.running.length := List.length_pos_of_mem hmem'
      refine ⟨?_, updateChan_cap h2, ?_, ?_, ?_⟩
      · simp only [List.length_append, List.length_cons, List.length_nil] at hl
        simp only [hlen]; omega
      · intro _ hne; exact updateChan_full h2 hne
      · simp only [hq]
        have hp := List.perm_cons_erase hmem'
        -- got ++ (ch ++ (l ++ [t])) ++ erase  ~  got ++ (ch ++ l) ++ running
        refine List.Perm.trans ?_ h4
        have e1 : s.got ++ (s.ch ++ (s.l ++ [t])) ++ s.running.erase t
            = (s.got ++ (s.ch ++ s.l)) ++ (t :: s.running.erase t) := by
          simp [List.append_assoc]
        rw [e1]
        exact (List.Perm.refl _).append hp.symm
      · intro t' ht'
        by_cases hc : s.coll = .inline t
        · simp [hc] at ht'
        · simp only [hc, if_false] at ht'
          have hne : t' ≠ t := by
            intro heq; subst heq; exact hc ht'
          exact (List.mem_erase_of_ne hne).2 (h5 t' ht')
    · cases h
  | recv =>
    simp only [step] at h
    split at h
    · cases h
    · rename_i hidle
      have hidle' : s.coll = .idle := by simpa using hidle
      split at h
      · cases h
      · rename_i hnum
        split at h
        · cases h
        · rename_i t ch' hch
          simp only [hR, hE, Bool.true_or, Bool.and_true, if_true, Option.some.injEq] at h
          subst h
          refine ⟨?_, ?_, ?_, ?_, ?_⟩
          · simp only [hch, List.length_cons] at h1; simp only; omega
          · simp only [hch, List.length_cons] at h2; simp only; omega
          · intro hw; exact absurd rfl hw
          · simp only [hch] at h4
            refine List.Perm.trans ?_ h4
            simp [List.append_assoc]
          · intro t' ht'; cases ht'
  | refill =>
    simp only [step] at h
    split at h
    · simp only [Option.some.injEq] at h
      subst h
      have hq := updateChan_queue F.doneCap s.l s.ch
      have hl := updateChan_len F.doneCap s.l s.ch
      refine ⟨?_, updateChan_cap h2, ?_, ?_, ?_⟩
      · simp only; omega
      · intro _ hne; exact updateChan_full h2 hne
      · simp only [hq]; exact h4
      · intro t' ht'; cases ht'
    · cases h

theorem run_inv {F : Facts} (hF : F.Good) (needAll : Bool) :
    ∀ (evs : List Ev) {s s' : St}, Inv F s → run F needAll s evs = some s' → Inv F s'
  | [], s, s', hI, h => by simp [run] at h; subst h; exact hI
  | e :: es, s, s', hI, h => by
    simp only [run] at h
    split at h
    · rename_i s1 hs1
      exact run_inv hF needAll es (step_inv hF needAll hI hs1) h
    · cases h

theorem reachable_inv {F : Facts} (hF : F.Good) {needAll : Bool} {s : St}
    (h : Reachable F needAll s) : Inv F s := by
  obtain ⟨evs, hr⟩ := h
  exact run_inv hF needAll evs (inv_init F) hr

theorem run_append {F : Facts} {needAll : Bool} :
    ∀ (e1 : List Ev) {e2 : List Ev} {s s1 s2 : St},
      run F needAll s e1 = some s1 → run F needAll s1 e2 = some s2 →
      run F needAll s (e1 ++ e2) = some s2
  | [], _, s, s1, s2, h1, h2 => by simp [run] at h1; subst h1; simpa using h2
  | e :: es, e2, s, s1, s2, h1, h2 => by
    simp only [run, List.cons_append] at h1 ⊢
    cases hs : step F needAll s e with
    | none => simp [hs] at h1
    | some s' =>
      simp only [hs] at h1 ⊢
      exact run_append es h1 h2

theorem run_one {F : Facts} {needAll : Bool} {s s' : St} {e : Ev}
    (h : step F needAll s e = some s') : run F needAll s [e] = some s' := by
  simp only [run, h]

theorem reachable_run {F : Facts} {needAll : Bool} {s s' : St} {evs : List Ev}
    (h : Reachable F needAll s) (hr : run F needAll s evs = some s') : Reachable F needAll s' := by
  obtain ⟨e0, h0⟩ := h
  exact ⟨e0 ++ evs, run_append e0 h0 hr⟩

/-! ### collecting an execution that ended with an error -/

/-- With the good facts every receive — of an execution with or without error — leaves the
    collector in its re-fill window (the early return `if ta.err != nil` comes after the
    re-fill), and hands out the head of the channel. -/
theorem recv_opens_window {F : Facts} (hF : F.Good) (needAll : Bool) {s s' : St}
    (h : step F needAll s .recv = some s') :
    s'.coll = .window ∧ ∃ t, s.ch.head? = some t ∧ s'.got = s.got ++ [t] ∧ s'.errs = s.errs := by
  obtain ⟨hR, _, _, _, hE⟩ := hF
  simp only [step] at h
  split at h
  · cases h
  · split at h
    · cases h
    · split at h
      · cases h
      · rename_i t ch' hch
        simp only [hR, hE, Bool.true_or, Bool.and_true, if_true, Option.some.injEq] at h
        subst h
        exact ⟨rfl, t, by simp [hch], rfl, rfl⟩

/-- the re-fill that follows re-establishes the hand-off: afterwards nothing waits in the
    list while the channel is empty -/
theorem refill_after_recv {F : Facts} (hF : F.Good) (needAll : Bool) {s : St} (hI : Inv F s)
    (hw : s.coll = .window) :
    ∃ s2, step F needAll s .refill = some s2 ∧ s2.coll = .idle ∧ (s2.l ≠ [] → s2.ch ≠ []) := by
  let p := updateChan F.doneCap s.l s.ch
  refine ⟨{ s with l := p.1, ch := p.2, coll := .idle }, by simp [step, hw, p], rfl, ?_⟩
  intro hl hch
  have hfull := updateChan_full hI.cap hl
  have hc : 1 ≤ F.doneCap := hF.2.2.2.1
  simp only [p] at hch
  simp [hch] at hfull
  omega

/-! ### progress -/

/-- With nothing running and something outstanding, the collector can always take the next
    completion: directly, or after the re-fill it is about to do. -/
theorem inv_progress {F : Facts} (hF : F.Good) (needAll : Bool) {s : St} (hI : Inv F s)
    (hn : s.num ≠ 0) (hr : s.running = []) :
    (s.coll = .idle ∧ (step F needAll s .recv).isSome = true) ∨
    (s.coll = .window ∧ ∃ s1, step F needAll s .refill = some s1 ∧ s1.coll = .idle ∧
        (step F needAll s1 .recv).isSome = true) := by
  obtain ⟨hR, hP, hX, hC, hE⟩ := hF
  have hI' := hI
  obtain ⟨h1, h2, h3, h4, h5⟩ := hI
  have hq : s.l.length + s.ch.length ≠ 0 := by
    simp only [hr, List.length_nil] at h1; omega
  cases hc : s.coll with
  | inline t =>
    have := h5 t hc
    simp [hr] at this
  | idle =>
    left
    refine ⟨rfl, ?_⟩
    have hch : s.ch ≠ [] := by
      intro hch
      have hl : s.l ≠ [] := by
        intro hl; simp [hl, hch] at hq
      have := h3 (by rw [hc]; simp) hl
      simp [hch] at this; omega
    cases hch' : s.ch with
    | nil => exact absurd hch' hch
    | cons t ch' => simp [step, hc, hn, hch']
  | window =>
    right
    refine ⟨rfl, ?_⟩
    let p := updateChan F.doneCap s.l s.ch
    refine ⟨{ s with l := p.1, ch := p.2, coll := .idle }, by simp [step, hc, p], rfl, ?_⟩
    have hlen := updateChan_len F.doneCap s.l s.ch
    have hch : p.2 ≠ [] := by
      intro hp2
      by_cases hl : p.1 = []
      · simp only [p] at hp2 hl; simp [hp2, hl] at hlen; omega
      · have := updateChan_full h2 hl
        simp only [p] at hp2; simp [hp2] at this; omega
    cases hch' : p.2 with
    | nil => exact absurd hch' hch
    | cons t ch' =>
      simp only [p] at hch'
      simp [step, hn, hch']

/-- every non-submit step strictly decreases the measure -/
theorem step_measure {F : Facts} (needAll : Bool) {s s' : St} {e : Ev}
    (hns : e.isSubmit = false) (h : step F needAll s e = some s') : measure s' < measure s := by
  cases e with
  | submit ts => simp [Ev.isSubmit] at hns
  | finish t err =>
    simp only [step] at h
    split at h
    · rename_i hmem
      have hmem' : t ∈ s.running := by simpa using hmem
      simp only [Option.some.injEq] at h
      subst h
      have hlen := List.length_erase_of_mem hmem'
      have hpos : 0 < s.running.length := List.length_pos_of_mem hmem'
      have hw : ((if s.coll = .inline t then Coll.idle else s.coll) = .window) ↔ (s.coll = .window) := by
        by_cases hc : s.coll = .inline t
        · simp [hc]
        · simp [hc]
      simp only [measure, hlen, hw]
      omega
    · cases h
  | recv =>
    simp only [step] at h
    split at h
    · cases h
    · rename_i hidle
      have hidle' : s.coll = .idle := by simpa using hidle
      split at h
      · cases h
      · rename_i hnum
        split at h
        · cases h
        · rename_i t ch' hch
          simp only [Option.some.injEq] at h
          subst h
          simp only [measure, hidle']
          by_cases hc : (F.waitOneRefills && (F.refillOnErrorPath || !s.errs.contains t)) = true
          · simp only [hc, if_true]; simp; omega
          · simp only [hc]; simp; omega
  | refill =>
    simp only [step] at h
    split at h
    · rename_i hw
      simp only [Option.some.injEq] at h
      subst h
      simp [measure, hw]
    · cases h

theorem run_measure {F : Facts} (needAll : Bool) :
    ∀ (evs : List Ev) {s s' : St}, (∀ e ∈ evs, e.isSubmit = false) →
      run F needAll s evs = some s' → evs.length + measure s' ≤ measure s
  | [], s, s', _, h => by simp [run] at h; subst h; simp
  | e :: es, s, s', hns, h => by
    simp only [run] at h
    split at h
    · rename_i s1 hs1
      have h1 := step_measure needAll (hns e (by simp)) hs1
      have h2 := run_measure needAll es (fun e' he' => hns e' (by simp [he'])) h
      simp only [List.length_cons]; omega
    · cases h

/-! ### resolveCompletedTasks -/

theorem lookupLast_append {K V} [DecidableEq K] (c : K) (a b : List (K × V)) :
    lookupLast c (a ++ b) = (lookupLast c b).or (lookupLast c a) := by
  induction a with
  | nil => simp [lookupLast]
  | cons x a ih =>
    obtain ⟨k, v⟩ := x
    simp only [List.cons_append, lookupLast, ih]
    cases hb : lookupLast c b <;> cases ha : lookupLast c a <;> simp

theorem lookupLast_none_of_forall {K V} [DecidableEq K] (c : K) (l : List (K × V))
    (h : ∀ p ∈ l, p.1 ≠ c) : lookupLast c l = none := by
  induction l with
  | nil => rfl
  | cons x l ih =>
    obtain ⟨k, v⟩ := x
    have hk : k ≠ c := h (k, v) (by simp)
    simp [lookupLast, ih (fun p hp => h p (by simp [hp])), hk]

/-- a task only writes cells whose `from` is its own key -/
theorem taskWrites_from {V} (t : CTask V) : ∀ p ∈ taskWrites t, p.1.2 = t.key := by
  intro p hp
  simp only [taskWrites, List.mem_map] at hp
  obtain ⟨n, _, rfl⟩ := hp
  rfl

theorem lookup_taskWrites_other {V} (t : CTask V) (to frm : Key) (h : t.key ≠ frm) :
    lookupLast (to, frm) (taskWrites t) = none := by
  apply lookupLast_none_of_forall
  intro p hp heq
  have := taskWrites_from t p hp
  rw [heq] at this
  exact h this.symm

theorem cellOf_perm {V} {b b' : List (CTask V)} (hp : b.Perm b')
    (hnd : (b.map (·.key)).Nodup) (to frm : Key) : cellOf b to frm = cellOf b' to frm := by
  unfold cellOf resolveWrites
  induction hp with
  | nil => rfl
  | cons x _ ih =>
    simp only [List.flatMap_cons, lookupLast_append]
    rw [ih (by simp only [List.map_cons, List.nodup_cons] at hnd; exact hnd.2)]
  | swap x y l =>
    simp only [List.flatMap_cons, lookupLast_append]
    have hne : x.key ≠ y.key := by
      simp only [List.map_cons, List.nodup_cons, List.mem_cons] at hnd
      intro h; exact hnd.1 (Or.inl h.symm)
    by_cases hx : x.key = frm
    · have hy : y.key ≠ frm := fun h => hne (hx.trans h.symm)
      simp [lookup_taskWrites_other y to frm hy]
    · simp [lookup_taskWrites_other x to frm hx]
  | trans h1 _ ih1 ih2 =>
    rw [ih1 hnd]
    exact ih2 (((h1.map (·.key)).nodup_iff).1 hnd)

theorem depsOf_perm {V} {b b' : List (CTask V)} (hp : b.Perm b') (k : Key) :
    (depsOf b k).Perm (depsOf b' k) := by
  unfold depsOf resolveDeps
  exact ((hp.flatMap_right taskDeps).filter _).map _

theorem dagReady_perm {ctrl d d' : List Key} (h : d.Perm d') : dagReady ctrl d = dagReady ctrl d' := by
  unfold dagReady
  congr 1
  funext p
  have := h.mem_iff (a := p)
  by_cases hp : p ∈ d
  · simp [hp, this.1 hp]
  · have hp' : p ∉ d' := fun x => hp (this.2 x)
    simp [hp, hp']

/-! ### eager execution: a started node with a path to END is collected before END is ready -/

theorem key_inj_of_nodup {l : List GNode} (h : (l.map (·.key)).Nodup) :
    ∀ {a b : GNode}, a ∈ l → b ∈ l → a.key = b.key → a = b := by
  induction l with
  | nil => intro a b ha; cases ha
  | cons x l ih =>
    simp only [List.map_cons, List.nodup_cons, List.mem_map, not_exists, not_and] at h
    intro a b ha hb hab
    rcases List.mem_cons.1 ha with rfl | ha' <;> rcases List.mem_cons.1 hb with rfl | hb'
    · rfl
    · exact absurd hab.symm (h.1 b hb')
    · exact absurd hab (h.1 a ha')
    · exact ih h.2 ha' hb' hab

/-- invariant of the eager loop -/
structure EInv (g : GCase) (st : EState) : Prop where
  doneStarted : ∀ k ∈ st.done, k ∈ st.started
  predsDone : ∀ n ∈ g.nodes, n.key ∈ st.started → ∀ p ∈ n.preds, p ∈ st.done
  startDone : startKey ∈ st.done
  startedNode : ∀ k ∈ st.started, k = startKey ∨ ∃ n ∈ g.nodes, n.key = k

theorem mem_eReady {g : GCase} {st : EState} {k : Key} (h : k ∈ eReady g st) :
    ∃ n ∈ g.nodes, n.key = k ∧ ∀ p ∈ n.preds, p ∈ st.done := by
  simp only [eReady, List.mem_map, List.mem_filter, Bool.and_eq_true, List.all_eq_true] at h
  obtain ⟨n, ⟨hn, _, hp⟩, rfl⟩ := h
  exact ⟨n, hn, rfl, fun p hpm => by simpa using hp p hpm⟩

theorem einv_init {g : GCase} (hk : (g.nodes.map (·.key)).Nodup)
    (hs : ∀ n ∈ g.nodes, n.key ≠ startKey) : EInv g (eInit g) := by
  refine ⟨?_, ?_, ?_, ?_⟩
  · intro k hkd
    simp only [eInit, List.mem_singleton] at hkd
    simp [eInit, hkd]
  · intro n hn hst p hp
    simp only [eInit, List.mem_append, List.mem_singleton] at hst
    rcases hst with h | h
    · exact absurd h (hs n hn)
    · obtain ⟨n', hn', hkey, hpd⟩ := mem_eReady h
      have := key_inj_of_nodup hk hn' hn hkey
      subst this
      exact hpd p hp
  · simp [eInit]
  · intro k hkst
    simp only [eInit, List.mem_append, List.mem_singleton] at hkst
    rcases hkst with h | h
    · exact Or.inl h
    · obtain ⟨n', hn', hkey, _⟩ := mem_eReady h
      exact Or.inr ⟨n', hn', hkey⟩

theorem einv_collect {g : GCase} (hk : (g.nodes.map (·.key)).Nodup) {st : EState} {k : Key}
    (hI : EInv g st) (hks : k ∈ st.started) : EInv g (eCollect g st k) := by
  obtain ⟨h1, h2, h3, h4⟩ := hI
  refine ⟨?_, ?_, ?_, ?_⟩
  · intro x hx
    simp only [eCollect, List.mem_append, List.mem_singleton] at hx ⊢
    rcases hx with hx | hx
    · exact Or.inl (h1 x hx)
    · exact Or.inl (hx ▸ hks)
  · intro n hn hst p hp
    simp only [eCollect, List.mem_append] at hst
    rcases hst with h | h
    · simp only [eCollect, List.mem_append]
      exact Or.inl (h2 n hn h p hp)
    · obtain ⟨n', hn', hkey, hpd⟩ := mem_eReady h
      have := key_inj_of_nodup hk hn' hn hkey
      subst this
      exact hpd p hp
  · simp only [eCollect, List.mem_append]; exact Or.inl h3
  · intro x hx
    simp only [eCollect, List.mem_append] at hx
    rcases hx with hx | hx
    · exact h4 x hx
    · obtain ⟨n', hn', hkey, _⟩ := mem_eReady hx
      exact Or.inr ⟨n', hn', hkey⟩

theorem einv_loop {g : GCase} (hk : (g.nodes.map (·.key)).Nodup) (order : List Key) :
    ∀ (fuel : Nat) {st : EState}, EInv g st → EInv g (eLoop g order fuel st)
  | 0, _, hI => hI
  | n + 1, st, hI => by
    simp only [eLoop]
    split
    · exact hI
    · cases hnx : eNext order st with
      | none => exact hI
      | some k =>
        have hp := List.find?_some hnx
        simp only [Bool.and_eq_true, List.contains_iff_mem] at hp
        exact einv_loop hk order n (einv_collect hk hI hp.1)

theorem einv_run {g : GCase} (hk : (g.nodes.map (·.key)).Nodup)
    (hs : ∀ n ∈ g.nodes, n.key ≠ startKey) (order : List Key) : EInv g (eRun g order) :=
  einv_loop hk order _ (einv_init hk hs)

/-- while a node with a path to END is not collected, END is not ready -/
theorem not_ready_of_reaches {g : GCase} {st : EState} (hI : EInv g st) {k : Key}
    (hr : Reaches g k) : k ∉ st.done → eEndReady g st = false := by
  induction hr with
  | direct hmem =>
    intro hnd
    simp only [eEndReady, List.all_eq_false]
    exact ⟨_, hmem, by simpa using hnd⟩
  | via hn hp _ ih =>
    intro hnd
    apply ih
    intro hdone
    exact hnd (hI.predsDone _ hn (hI.doneStarted _ hdone) _ hp)

end EinoV.C03
