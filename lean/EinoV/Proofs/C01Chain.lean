/-
  C01, last clause: a compiled chain computes the composition of its stages.
  Proof plan:
    1. `run_pregel` (C01Refine): the engine run of the compiled chain is `Spec.run`.
    2. `Wired r i pre rest`: what the run needs to know about a runner `r` that contains the
       lowering of the chain suffix `rest` (stage numbers from `i`, previous nodes `pre`).
    3. `spec_from`: for a wired runner the superstep run from the previous stage's finished
       tasks is `semFrom i rest` (induction on the stage list; one superstep per stage).
    4. `wired_lower`: `compile slack (lower c)` is wired (bookkeeping of `graph.compile`).
-/
import EinoV.Model.C01Chain
import EinoV.Spec.Superstep
import EinoV.Proofs.Assoc
import EinoV.Proofs.C01Refine

namespace EinoV.Chain
open EinoV.Engine EinoV.Spec

/-! ### merging the outputs of a parallel stage -/

theorem nodupB_iff (l : List String) : nodupB l = true ↔ l.Nodup := by
  induction l with
  | nil => simp [nodupB]
  | cons a t ih => simp [nodupB, ih]

theorem foldl_mergeTwo_none (l : List CVal) :
    l.foldl (fun acc x => acc.bind (fun m => mergeTwo m x)) none = none := by
  induction l with
  | nil => rfl
  | cons a t ih => simpa using ih

theorem foldl_merge_singles (rest acc : List (String × CVal))
    (h : ((acc ++ rest).map (·.1)).Nodup) :
    (rest.map (fun kv => single kv.1 kv.2)).foldl (fun a x => a.bind (fun m => mergeTwo m x)) (some (.map acc))
      = some (.map (acc ++ rest)) := by
  induction rest generalizing acc with
  | nil => simp
  | cons kv t ih =>
    have hnot : (acc.any (fun x => x.1 == kv.1)) = false := by
      rw [List.map_append, List.nodup_append] at h
      have := h.2.2
      cases hb : acc.any (fun x => x.1 == kv.1) with
      | false => rfl
      | true =>
        exfalso
        rw [List.any_eq_true] at hb
        obtain ⟨x, hx, he⟩ := hb
        have he' : x.1 = kv.1 := by simpa using he
        exact this x.1 (List.mem_map.mpr ⟨x, hx, rfl⟩) kv.1 (by simp) he'
    simp only [List.map_cons, List.foldl_cons]
    have step : (some (CVal.map acc)).bind (fun m => mergeTwo m (single kv.1 kv.2))
        = some (.map (acc ++ [kv])) := by
      simp [single, mergeTwo, hnot]
    rw [step]
    have := ih (acc ++ [kv]) (by simpa using h)
    simpa using this

/-- the fan-in after a parallel stage: merging the members' `{outputKey: value}` maps gives the
    keyed map of the values -/
theorem collect_singles (kvs : List (String × CVal)) (hne : kvs ≠ [])
    (h : (kvs.map (·.1)).Nodup) :
    collect cvalOps (kvs.map (fun kv => single kv.1 kv.2)) = .ready (.map kvs) := by
  match kvs, hne with
  | [kv], _ => simp [collect, single]
  | kv :: kv2 :: t, _ =>
    have := foldl_merge_singles (kv2 :: t) [kv] (by simpa using h)
    simp only [List.map_cons] at this
    simp only [List.map_cons, collect, cvalOps, merge, single]
    simp only [single] at this
    rw [this]
    rfl

/-! ### `graph.compile`: where a node and its connections end up in the runner -/

theorem find_node {V} (nodes : List (Key × (V → Except Err V))) (mk : Key → (V → Except Err V) → Node V)
    (hmk : ∀ k a, (mk k a).key = k)
    (hn : (nodes.map (·.1)).Nodup) (k : Key) (act : V → Except Err V) (hm : (k, act) ∈ nodes) :
    (nodes.map (fun p => mk p.1 p.2)).find? (·.key == k) = some (mk k act) := by
  induction nodes with
  | nil => simp at hm
  | cons p t ih =>
    simp only [List.map_cons, List.nodup_cons] at hn
    simp only [List.map_cons, List.find?_cons, hmk]
    rcases List.mem_cons.mp hm with rfl | hm'
    · simp
    · have : p.1 ≠ k := by
        intro e
        exact hn.1 (e ▸ List.mem_map.mpr ⟨(k, act), hm', rfl⟩)
      have hb : (p.1 == k) = false := by simpa using this
      simp only [hb]
      exact ih hn.2 hm'

theorem compile_node {V} (slack : Nat) (g : GraphDef V) (hn : (g.nodes.map (·.1)).Nodup)
    (k : Key) (act : V → Except Err V) (hm : (k, act) ∈ g.nodes) :
    ∃ n, (compile slack g).node? k = some n ∧ n.act = act ∧
      n.writeTo = (g.edges.filter (·.1 == k)).map (·.2) ∧
      n.branches = (g.branches.filter (·.1 == k)).map (·.2) := by
  let mk (k : Key) (act : V → Except Err V) : Node V :=
    { key := k, act := act, writeTo := (g.edges.filter (·.1 == k)).map (·.2),
      controls := (g.edges.filter (·.1 == k)).map (·.2),
      branches := (g.branches.filter (·.1 == k)).map (·.2) }
  refine ⟨mk k act, ?_, rfl, rfl, rfl⟩
  unfold Runner.node? compile
  simp only
  exact find_node g.nodes mk (fun _ _ => rfl) hn k act hm

theorem compile_start {V} (slack : Nat) (g : GraphDef V) :
    ∃ n, (compile slack g).call? START = some n ∧
      n.writeTo = (g.edges.filter (·.1 == START)).map (·.2) ∧
      n.branches = (g.branches.filter (·.1 == START)).map (·.2) := by
  refine ⟨(compile slack g).start, ?_, rfl, rfl⟩
  simp [Runner.call?]

theorem lookupList_addPred_self (m : List (Key × List Key)) (t f : Key) :
    f ∈ lookupList t (addPred m t f) := by
  simp [lookupList, addPred, alookup_aset_same]

theorem lookupList_addPred_mono (m : List (Key × List Key)) (t f t' f' : Key)
    (h : f' ∈ lookupList t' m) : f' ∈ lookupList t' (addPred m t f) := by
  unfold lookupList addPred at *
  by_cases e : t' = t
  · subst e
    rw [alookup_aset_same]
    simp only [Option.getD_some, List.mem_append]
    exact Or.inl h
  · rw [alookup_aset_other _ _ _ _ e]
    exact h

theorem foldl_addPred_edges_mono (es : List (Key × Key)) (m : List (Key × List Key)) (t' f' : Key)
    (h : f' ∈ lookupList t' m) : f' ∈ lookupList t' (es.foldl (fun m e => addPred m e.2 e.1) m) := by
  induction es generalizing m with
  | nil => exact h
  | cons e t ih => exact ih _ (lookupList_addPred_mono m e.2 e.1 t' f' h)

theorem foldl_addPred_edges_mem (es : List (Key × Key)) (m : List (Key × List Key)) (a b : Key)
    (h : (a, b) ∈ es) : a ∈ lookupList b (es.foldl (fun m e => addPred m e.2 e.1) m) := by
  induction es generalizing m with
  | nil => simp at h
  | cons e t ih =>
    rcases List.mem_cons.mp h with rfl | h'
    · exact foldl_addPred_edges_mono t _ b a (lookupList_addPred_self m b a)
    · exact ih _ h'

theorem foldl_addPred_ends_mono (ends : List Key) (from_ : Key) (m : List (Key × List Key)) (t' f' : Key)
    (h : f' ∈ lookupList t' m) : f' ∈ lookupList t' (ends.foldl (fun m e => addPred m e from_) m) := by
  induction ends generalizing m with
  | nil => exact h
  | cons e t ih => exact ih _ (lookupList_addPred_mono m e from_ t' f' h)

theorem foldl_addPred_ends_mem (ends : List Key) (from_ : Key) (m : List (Key × List Key)) (e : Key)
    (h : e ∈ ends) : from_ ∈ lookupList e (ends.foldl (fun m e => addPred m e from_) m) := by
  induction ends generalizing m with
  | nil => simp at h
  | cons x t ih =>
    rcases List.mem_cons.mp h with rfl | h'
    · exact foldl_addPred_ends_mono t from_ _ e from_ (lookupList_addPred_self m e from_)
    · exact ih _ h'

def brStep {V} (m : List (Key × List Key)) (b : Key × Branch V) : List (Key × List Key) :=
  if b.2.noData then m else b.2.ends.foldl (fun m e => addPred m e b.1) m

theorem foldl_brStep_mono {V} (bs : List (Key × Branch V)) (m : List (Key × List Key)) (t' f' : Key)
    (h : f' ∈ lookupList t' m) : f' ∈ lookupList t' (bs.foldl brStep m) := by
  induction bs generalizing m with
  | nil => exact h
  | cons b t ih =>
    apply ih
    unfold brStep
    split
    · exact h
    · exact foldl_addPred_ends_mono _ _ _ _ _ h

theorem foldl_brStep_mem {V} (bs : List (Key × Branch V)) (m : List (Key × List Key))
    (a : Key) (br : Branch V) (e : Key) (h : (a, br) ∈ bs) (hd : br.noData = false) (he : e ∈ br.ends) :
    a ∈ lookupList e (bs.foldl brStep m) := by
  induction bs generalizing m with
  | nil => simp at h
  | cons b t ih =>
    rcases List.mem_cons.mp h with rfl | h'
    · refine foldl_brStep_mono t (brStep m (a, br)) e a ?_
      have : brStep m (a, br) = br.ends.foldl (fun m e => addPred m e a) m := by
        simp [brStep, hd]
      rw [this]
      exact foldl_addPred_ends_mem _ _ _ _ he
    · exact ih _ h'

/-- an edge makes its source a data predecessor of its target -/
theorem compile_dataPreds_edge {V} (slack : Nat) (g : GraphDef V) (a b : Key) (h : (a, b) ∈ g.edges) :
    (lookupList b (compile slack g).dataPreds).contains a = true := by
  have : a ∈ lookupList b (g.branches.foldl brStep (g.edges.foldl (fun m e => addPred m e.2 e.1) [])) :=
    foldl_brStep_mono _ _ _ _ (foldl_addPred_edges_mem _ _ _ _ h)
  have e : (compile slack g).dataPreds
      = g.branches.foldl brStep (g.edges.foldl (fun m e => addPred m e.2 e.1) []) := rfl
  rw [e]; simpa using this

/-- a (data-carrying) branch makes its source a data predecessor of each of its ends -/
theorem compile_dataPreds_branch {V} (slack : Nat) (g : GraphDef V) (a : Key) (br : Branch V) (e : Key)
    (h : (a, br) ∈ g.branches) (hd : br.noData = false) (he : e ∈ br.ends) :
    (lookupList e (compile slack g).dataPreds).contains a = true := by
  have : a ∈ lookupList e (g.branches.foldl brStep (g.edges.foldl (fun m e => addPred m e.2 e.1) [])) :=
    foldl_brStep_mem _ _ _ _ _ h hd he
  have e' : (compile slack g).dataPreds
      = g.branches.foldl brStep (g.edges.foldl (fun m e => addPred m e.2 e.1) []) := rfl
  rw [e']; simpa using this

/-! ### one superstep of a wired runner -/

/-- the keys the previous stage's nodes send to: the next stage's nodes, or END -/
def firstKeys (i : Nat) : Chain → List Key
  | [] => [END]
  | st :: _ => stageKeys i st

/-- how a node of the previous stage (or START) is connected to what follows -/
def OutOK (n : Node CVal) (i : Nat) (rest : Chain) : Prop :=
  match rest with
  | .branch cond subs :: _ => n.branches = [lowerBranch i cond subs] ∧ n.writeTo = []
  | _ => n.branches = [] ∧ ∀ t, n.writeTo.contains t = (firstKeys i rest).contains t

def Link (r : Runner CVal) (i : Nat) (pre : List Key) (rest : Chain) : Prop :=
  (∀ p ∈ pre, ∃ n, r.call? p = some n ∧ OutOK n i rest) ∧
  (∀ p ∈ pre, ∀ t ∈ firstKeys i rest, (lookupList t r.dataPreds).contains p = true) ∧
  (firstKeys i rest).Sublist (keys r) ∧
  (match rest with | .branch _ _ :: _ => ∃ p, pre = [p] | _ => True)

def NodesOK (r : Runner CVal) (i : Nat) (st : Stage) : Prop :=
  ∀ ka ∈ stageNodes i st, ka.1 ≠ END ∧ ∃ n, r.node? ka.1 = some n ∧ n.act = ka.2

def StageOK : Stage → Prop
  | .parallel subs => subs ≠ [] ∧ (subs.map (·.1)).Nodup
  | _ => True

/-- the runner contains the lowering of the chain suffix `rest` (stage numbers from `i`),
    connected to the nodes `pre` -/
def Wired (r : Runner CVal) : Nat → List Key → Chain → Prop
  | i, pre, [] => Link r i pre []
  | i, pre, st :: rest =>
    Link r i pre (st :: rest) ∧ NodesOK r i st ∧ StageOK st ∧ Wired r (i + 1) (stageKeys i st) rest

/-- the finished tasks of a stage: some of the stage's nodes, carrying (after the fan-in
    merge) the value `w` -/
def DoneOK (pre : List Key) (done : List (Done CVal)) (w : CVal) : Prop :=
  done ≠ [] ∧ (∀ d ∈ done, d.1 ∈ pre) ∧ (done.map (·.1)).Nodup ∧
  collect cvalOps (done.map (·.2)) = .ready w

/-- what the superstep after a stage schedules -/
def nextOf (i : Nat) (rest : Chain) (w : CVal) : Except Err (Next CVal) :=
  match rest with
  | [] => .ok (.result w)
  | .branch cond subs :: _ =>
    match cond w with
    | .error e => .error e
    | .ok k =>
      match alookup k subs with
      | some _ => .ok (.tasks [(brKey i k, w)])
      | none => .error { cls := .badBranchEnd }
  | st :: _ => .ok (.tasks ((stageKeys i st).map (fun k => (k, w))))

theorem filter_contains_of_sublist (T L : List Key) (hs : T.Sublist L) (hn : L.Nodup) :
    L.filter (fun t => T.contains t) = T := by
  induction hs with
  | slnil => rfl
  | cons a hs ih =>
    rename_i l₁ l₂
    simp only [List.nodup_cons] at hn
    have : l₁.contains a = false := by
      cases hc : l₁.contains a with
      | false => rfl
      | true => exact absurd (hs.subset (by simpa using hc)) hn.1
    simp only [List.filter_cons, this, Bool.false_eq_true, ↓reduceIte]
    exact ih hn.2
  | cons_cons a hs ih =>
    rename_i l₁ l₂
    simp only [List.nodup_cons] at hn
    simp only [List.filter_cons, List.contains_cons, BEq.rfl, Bool.true_or, ↓reduceIte, List.cons.injEq, true_and]
    rw [← ih hn.2]
    apply List.filter_congr
    intro x hx
    have : (x == a) = false := by
      cases hc : x == a with
      | false => rfl
      | true =>
        have : x = a := by simpa using hc
        exact absurd (this ▸ hx) hn.1
    simp only [this, Bool.false_or]
    rw [ih hn.2]

theorem ready_of (F : Key × GetResult CVal → Option (Key × CVal))
    (hF1 : ∀ k v, F (k, .ready v) = some (k, v)) (hF2 : ∀ k, F (k, .notReady) = none)
    (L T : List Key) (w : CVal) :
    (L.map (fun t => (t, (if T.contains t then GetResult.ready w else GetResult.notReady)))).filterMap F
      = (L.filter (fun t => T.contains t)).map (fun t => (t, w)) := by
  induction L with
  | nil => rfl
  | cons a t ih =>
    by_cases h : T.contains a = true
    · simp only [List.map_cons, h, ↓reduceIte, List.filter_cons, List.filterMap_cons, ih, hF1]
    · simp only [List.map_cons, h, Bool.false_eq_true, ↓reduceIte, List.filter_cons, List.filterMap_cons, ih, hF2]

theorem no_mergeErr (G : Key × GetResult CVal → Bool)
    (hG1 : ∀ k v, G (k, .ready v) = false) (hG2 : ∀ k, G (k, .notReady) = false)
    (L T : List Key) (w : CVal) :
    (L.map (fun t => (t, (if T.contains t then GetResult.ready w else GetResult.notReady)))).any G = false := by
  induction L with
  | nil => rfl
  | cons a t ih =>
    by_cases h : T.contains a = true
    · simp only [List.map_cons, List.any_cons, ih, Bool.or_false, h, ↓reduceIte, hG1]
    · simp only [List.map_cons, List.any_cons, ih, Bool.or_false, h, Bool.false_eq_true, ↓reduceIte, hG2]

theorem alookup_map_const (T : List Key) (w : CVal) (k : Key) :
    alookup k (T.map (fun t => (t, w))) = if T.contains k then some w else none := by
  induction T with
  | nil => rfl
  | cons a t ih =>
    simp only [List.map_cons, alookup, List.contains_cons]
    by_cases h : (a == k) = true
    · have e : a = k := by simpa using h
      subst e
      simp
    · have : (k == a) = false := by
        cases hc : k == a with
        | false => rfl
        | true =>
          have e : k = a := by simpa using hc
          subst e
          simp at h
      simp only [h, Bool.false_eq_true, ↓reduceIte, ih, this, Bool.false_or]

/-- the superstep, given what every key's inbox collects to -/
theorem next_core (r : Runner CVal) (done : List (Done CVal)) (sent : List (Sent CVal)) (T : List Key)
    (w : CVal) (hs : done.mapM (sentOf r) = .ok sent)
    (hin : ∀ t, collect cvalOps ((inbox r sent t).map (·.2))
              = if T.contains t then GetResult.ready w else GetResult.notReady)
    (hsub : T.Sublist (keys r)) (hnd : (keys r).Nodup) :
    Spec.next cvalOps r done
      = .ok (if T.contains END then Next.result w else Next.tasks (T.map (fun t => (t, w)))) := by
  unfold Spec.next
  simp only [hs, bind, Except.bind, hin]
  rw [no_mergeErr _ (fun _ _ => rfl) (fun _ => rfl), ready_of _ (fun _ _ => rfl) (fun _ => rfl),
    filter_contains_of_sublist T (keys r) hsub hnd, alookup_map_const]
  by_cases h : T.contains END = true
  · simp only [h, Bool.false_eq_true, ↓reduceIte, pure, Except.pure]
  · simp only [h, Bool.false_eq_true, ↓reduceIte, pure, Except.pure]

theorem sentOf_plain (r : Runner CVal) (d : Done CVal) (n : Node CVal)
    (hc : r.call? d.1 = some n) (hb : n.branches = []) :
    sentOf r d = .ok (d.1, d.2, n.writeTo) := by
  simp [sentOf, hc, selectOf, hb, bind, Except.bind, pure, Except.pure]

/-- every finished node sends its output to the keys `T` -/
theorem mapM_sentOf_plain (r : Runner CVal) (T : List Key) (done : List (Done CVal))
    (h : ∀ d ∈ done, ∃ n, r.call? d.1 = some n ∧ n.branches = [] ∧ ∀ t, n.writeTo.contains t = T.contains t)
    (hp : ∀ d ∈ done, ∀ t ∈ T, (lookupList t r.dataPreds).contains d.1 = true) :
    ∃ sent, done.mapM (sentOf r) = .ok sent ∧
      ∀ t, inbox r sent t = if T.contains t then done else [] := by
  induction done with
  | nil => exact ⟨[], rfl, fun t => by simp [inbox]⟩
  | cons d rest ih =>
    obtain ⟨n, hc, hb, hw⟩ := h d (by simp)
    obtain ⟨sent', hs', hin'⟩ := ih (fun d' hd' => h d' (List.mem_cons_of_mem _ hd'))
      (fun d' hd' => hp d' (List.mem_cons_of_mem _ hd'))
    refine ⟨(d.1, d.2, n.writeTo) :: sent', ?_, ?_⟩
    · simp [List.mapM_cons, sentOf_plain r d n hc hb, hs', bind, Except.bind, pure, Except.pure]
    · intro t
      rw [inbox_cons, hin' t]
      simp only [hw t]
      by_cases ht : T.contains t = true
      · have := hp d (by simp) t (by simpa using ht)
        simp only [ht, this, Bool.and_self, ↓reduceIte]
      · simp only [ht, Bool.false_and, Bool.false_eq_true, ↓reduceIte]

theorem doneOK_single (p : Key) (done : List (Done CVal)) (w : CVal) (h : DoneOK [p] done w) :
    done = [(p, w)] := by
  obtain ⟨hne, hin, hnd, hc⟩ := h
  match done, hne with
  | [d], _ =>
    have h1 : d.1 = p := by simpa using hin d (by simp)
    simp only [List.map_cons, List.map_nil, collect, GetResult.ready.injEq] at hc
    obtain ⟨a, b⟩ := d
    simp only at h1 hc
    rw [h1, hc]
  | d1 :: d2 :: t, _ =>
    exfalso
    have h1 : d1.1 = p := by simpa using hin d1 (by simp)
    have h2 : d2.1 = p := by simpa using hin d2 (by simp)
    simp only [List.map_cons, List.nodup_cons, List.mem_cons, not_or] at hnd
    exact hnd.1.1 (h1.trans h2.symm)

theorem alookup_mem {α} (k : Key) (l : List (Key × α)) (v : α) (h : alookup k l = some v) : (k, v) ∈ l := by
  induction l with
  | nil => simp [alookup] at h
  | cons p t ih =>
    obtain ⟨k', v'⟩ := p
    simp only [alookup] at h
    by_cases e : (k' == k) = true
    · simp only [e, ↓reduceIte, Option.some.injEq] at h
      have : k' = k := by simpa using e
      subst this; subst h
      simp
    · simp only [e, Bool.false_eq_true, ↓reduceIte] at h
      exact List.mem_cons_of_mem _ (ih h)

theorem selectOf_branch (n : Node CVal) (i : Nat) (cond : CVal → Except Err String)
    (subs : List (String × Fn)) (w : CVal) (k : String) (f : Fn)
    (hb : n.branches = [lowerBranch i cond subs]) (hcw : cond w = .ok k) (hk : alookup k subs = some f) :
    selectOf n w = .ok [brKey i k] := by
  have hm : brKey i k ∈ List.map (fun kf => brKey i kf.1) subs :=
    List.mem_map.mpr ⟨(k, f), alookup_mem k subs f hk, rfl⟩
  have hall : ([brKey i k].all (List.map (fun kf => brKey i kf.1) subs).contains) = true := by
    simp [hm]
  unfold selectOf
  rw [hb]
  simp only [List.mapM_cons, List.mapM_nil, lowerBranch, lowerCond, hcw, hk, bind, Except.bind, pure,
    Except.pure, hall, ↓reduceIte, List.flatten_cons, List.flatten_nil, List.append_nil]

/-- **one superstep**: after the nodes of the previous stage finished with (merged) value `w`,
    the next superstep schedules the nodes of the next stage on `w` (a branch stage: the
    selected member), or returns `w` when the chain is finished. -/
theorem next_of (r : Runner CVal) (hnd : (keys r).Nodup) (i : Nat) (pre : List Key) (rest : Chain)
    (hl : Link r i pre rest) (hne : ∀ st rest', rest = st :: rest' → END ∉ stageKeys i st)
    (done : List (Done CVal)) (w : CVal) (hd : DoneOK pre done w) :
    Spec.next cvalOps r done = nextOf i rest w := by
  obtain ⟨hout, hpreds, hsub, hbr⟩ := hl
  have plain : (∀ p ∈ pre, ∃ n, r.call? p = some n ∧ n.branches = [] ∧
        ∀ t, n.writeTo.contains t = (firstKeys i rest).contains t) →
      Spec.next cvalOps r done = .ok (if (firstKeys i rest).contains END then Next.result w
        else Next.tasks ((firstKeys i rest).map (fun t => (t, w)))) := by
    intro hp
    obtain ⟨sent, hs, hin⟩ := mapM_sentOf_plain r (firstKeys i rest) done
      (fun d hd' => hp d.1 (hd.2.1 d hd')) (fun d hd' t ht => hpreds d.1 (hd.2.1 d hd') t ht)
    apply next_core r done sent (firstKeys i rest) w hs _ hsub hnd
    intro t
    rw [hin t]
    by_cases ht : (firstKeys i rest).contains t = true
    · simp only [ht, ↓reduceIte]; exact hd.2.2.2
    · simp only [ht, Bool.false_eq_true, ↓reduceIte]; rfl
  cases rest with
  | nil =>
    rw [plain (fun p hp => hout p hp)]
    simp [firstKeys, nextOf]
  | cons st rest' =>
  have hE := hne _ _ rfl
  cases st with
  | lambda f =>
    rw [plain (fun p hp => hout p hp)]
    simp only [firstKeys, nextOf]
    simp [hE]
  | passthrough =>
    rw [plain (fun p hp => hout p hp)]
    simp only [firstKeys, nextOf]
    simp [hE]
  | parallel subs =>
    rw [plain (fun p hp => hout p hp)]
    simp only [firstKeys, nextOf]
    simp [hE]
  | branch cond subs =>
    obtain ⟨p, rfl⟩ := hbr
    have hdone := doneOK_single p done w hd
    subst hdone
    obtain ⟨n, hc, hb, hw⟩ := hout p (by simp)
    simp only [nextOf]
    cases hcw : cond w with
    | error e =>
      simp [Spec.next, sentOf, hc, selectOf, hb, lowerBranch, lowerCond, hcw, bind, Except.bind]
    | ok k =>
      cases hk : alookup k subs with
      | none =>
        simp [Spec.next, sentOf, hc, selectOf, hb, lowerBranch, lowerCond, hcw, hk, bind, Except.bind,
          throw, throwThe, MonadExceptOf.throw]
      | some f =>
        have hmem : brKey i k ∈ stageKeys i (.branch cond subs) := by
          simp only [stageKeys, stageNodes, List.map_map, List.mem_map, Function.comp]
          exact ⟨(k, f), alookup_mem k subs f hk, rfl⟩
        have hs : [(p, w)].mapM (sentOf r) = .ok [(p, w, [brKey i k])] := by
          simp [sentOf, hc, selectOf_branch n i cond subs w k f hb hcw hk, hw, bind, Except.bind,
            pure, Except.pure]
        have key := next_core r [(p, w)] [(p, w, [brKey i k])] [brKey i k] w hs (by
          intro t
          rw [inbox_cons]
          have hdp : p ∈ lookupList (brKey i k) r.dataPreds := by
            simpa using hpreds p (by simp) (brKey i k) hmem
          by_cases ht : (brKey i k == t) = true
          · have e : brKey i k = t := by simpa using ht
            subst e
            simp [hdp, inbox, collect]
          · have e : ¬ brKey i k = t := by simpa using ht
            have e' : ¬ t = brKey i k := fun x => e x.symm
            simp [e', inbox, collect])
          (List.singleton_sublist.mpr (hsub.subset hmem)) hnd
        rw [key]
        have hE' : END ≠ brKey i k := by
          intro e
          exact hE (e ▸ hmem)
        simp [hE', hk]

/-! ### running the nodes of one stage -/

theorem collect_exec (r : Runner CVal) (k : Key) (w : CVal) (n : Node CVal) (f : Fn)
    (hn : r.node? k = some n) (ha : n.act = f) :
    collectOne (execOne r (k, w)) = (atNode k f w).map (fun o => (k, o)) := by
  simp only [execOne, hn, ha, collectOne, atNode]
  cases f w <;> rfl

theorem par_exec (r : Runner CVal) (i : Nat) (w : CVal) (subs : List (String × Fn)) (j : Nat)
    (hn : ∀ ka ∈ parNodes i j subs, ∃ n, r.node? ka.1 = some n ∧ n.act = ka.2) :
    match parSem i j subs w with
    | .error e => ((parNodes i j subs).map (fun ka => execOne r (ka.1, w))).mapM collectOne = .error e
    | .ok os => ∃ done', ((parNodes i j subs).map (fun ka => execOne r (ka.1, w))).mapM collectOne = .ok done' ∧
        done'.map (·.1) = (parNodes i j subs).map (·.1) ∧
        done'.map (·.2) = os.map (fun kv => single kv.1 kv.2) ∧
        os.map (·.1) = subs.map (·.1) := by
  induction subs generalizing j with
  | nil => exact ⟨[], rfl, rfl, rfl, rfl⟩
  | cons kf rest ih =>
    obtain ⟨k, f⟩ := kf
    obtain ⟨n, hn1, ha1⟩ := hn (parKey i j, keyed k f) (by simp [parNodes])
    have hrest := ih (j + 1) (fun ka hka => hn ka (by simp [parNodes, hka]))
    have hce := collect_exec r (parKey i j) w n (keyed k f) hn1 ha1
    simp only [parNodes, List.map_cons, List.mapM_cons, parSem, hce]
    cases hf : f w with
    | error e => simp [atNode, keyed, hf, Except.map, bind, Except.bind]
    | ok o =>
      cases hp : parSem i (j + 1) rest w with
      | error e =>
        rw [hp] at hrest
        simp [atNode, keyed, hf, Except.map, bind, Except.bind, hrest]
      | ok os =>
        rw [hp] at hrest
        obtain ⟨done', h1, h2, h3, h4⟩ := hrest
        simp only [atNode, hf, bind, Except.bind, pure, Except.pure]
        refine ⟨(parKey i j, single k o) :: done', ?_, ?_, ?_, ?_⟩
        · simp [keyed, hf, Except.map, h1]
        · simp [h2]
        · simp [h3]
        · simp [h4]

theorem nextOf_error (i : Nat) (st : Stage) (rest : Chain) (w : CVal) (e : Err)
    (h : nextOf i (st :: rest) w = .error e) : st.sem i w = .error e := by
  cases st with
  | lambda f => simp [nextOf] at h
  | passthrough => simp [nextOf] at h
  | parallel subs => simp [nextOf] at h
  | branch cond subs =>
    simp only [nextOf] at h
    simp only [Stage.sem, bind, Except.bind]
    cases hc : cond w with
    | error e' => simp [hc] at h; simp [h]
    | ok k =>
      simp only [hc] at h
      cases hk : alookup k subs with
      | none => simp [hk] at h; simp [hk, ← h, throw, throwThe, MonadExceptOf.throw]
      | some f => simp [hk] at h

theorem nextOf_not_result (i : Nat) (st : Stage) (rest : Chain) (w v : CVal) :
    nextOf i (st :: rest) w ≠ .ok (.result v) := by
  cases st with
  | lambda f => simp [nextOf]
  | passthrough => simp [nextOf]
  | parallel subs => simp [nextOf]
  | branch cond subs =>
    simp only [nextOf]
    cases cond w with
    | error e => simp
    | ok k => simp only; split <;> simp

/-- **one stage**: running the scheduled nodes of stage `i` (tasks collected in submission
    order) fails exactly when the stage function fails, with the same error; otherwise the
    finished tasks carry the stage function's result. -/
theorem stage_exec (r : Runner CVal) (i : Nat) (st : Stage) (rest : Chain)
    (hn : NodesOK r i st) (hs : StageOK st) (hnd : (stageKeys i st).Nodup)
    (w : CVal) (ts : List (Key × CVal)) (step : Nat)
    (ht : nextOf i (st :: rest) w = .ok (.tasks ts)) :
    match runTasks r Sched.id step ts with
    | .error e => st.sem i w = .error e
    | .ok done' => ∃ o, st.sem i w = .ok o ∧ DoneOK (stageKeys i st) done' o := by
  have single_case : ∀ (k : Key) (f : Fn), (k, f) ∈ stageNodes i st → ts = [(k, w)] →
      match runTasks r Sched.id step ts with
      | .error e => atNode k f w = .error e
      | .ok done' => ∃ o, atNode k f w = .ok o ∧ DoneOK (stageKeys i st) done' o := by
    intro k f hm hts
    obtain ⟨_, n, hn1, ha1⟩ := hn (k, f) hm
    have hce := collect_exec r k w n f hn1 ha1
    subst hts
    simp only [runTasks, Sched.id, List.map_cons, List.map_nil, List.mapM_cons, List.mapM_nil, hce]
    cases hf : atNode k f w with
    | error e => simp [Except.map, bind, Except.bind]
    | ok o =>
      simp only [Except.map, bind, Except.bind, pure, Except.pure]
      refine ⟨o, rfl, by simp, ?_, by simp, by simp [collect]⟩
      intro d hd
      have : d = (k, o) := by simpa using hd
      subst this
      exact List.mem_map.mpr ⟨(k, f), hm, rfl⟩
  cases st with
  | lambda f =>
    simp only [nextOf, stageKeys, stageNodes, List.map_cons, List.map_nil, Except.ok.injEq,
      Next.tasks.injEq] at ht
    exact single_case (nodeKey i) f (by simp [stageNodes]) ht.symm
  | passthrough =>
    simp only [nextOf, stageKeys, stageNodes, List.map_cons, List.map_nil, Except.ok.injEq,
      Next.tasks.injEq] at ht
    have := single_case (nodeKey i) (fun v => .ok v) (by simp [stageNodes]) ht.symm
    simpa [Stage.sem, atNode] using this
  | branch cond subs =>
    simp only [nextOf] at ht
    cases hc : cond w with
    | error e => simp [hc] at ht
    | ok k =>
      simp only [hc] at ht
      cases hk : alookup k subs with
      | none => simp [hk] at ht
      | some f =>
        simp only [hk, Except.ok.injEq, Next.tasks.injEq] at ht
        have := single_case (brKey i k) f
          (List.mem_map.mpr ⟨(k, f), alookup_mem k subs f hk, rfl⟩) ht.symm
        simpa [Stage.sem, hc, hk, bind, Except.bind] using this
  | parallel subs =>
    simp only [nextOf, Except.ok.injEq, Next.tasks.injEq] at ht
    subst ht
    have hpar := par_exec r i w subs 0 (fun ka hka => (hn ka hka).2)
    simp only [runTasks, Sched.id, stageKeys, stageNodes, List.map_map]
    have hfun : (execOne r ∘ (fun k => (k, w)) ∘ fun x : Key × Fn => x.1)
        = (fun ka : Key × Fn => execOne r (ka.1, w)) := rfl
    rw [hfun]
    simp only [Stage.sem, bind, Except.bind]
    cases hp : parSem i 0 subs w with
    | error e =>
      rw [hp] at hpar
      simp [hpar]
    | ok os =>
      rw [hp] at hpar
      obtain ⟨done', h1, h2, h3, h4⟩ := hpar
      simp only [h1, pure, Except.pure]
      obtain ⟨hne, hnd'⟩ := hs
      have hos : os ≠ [] := by
        intro e; subst e
        simp at h4
        exact hne h4
      refine ⟨.map os, rfl, ?_, ?_, ?_, ?_⟩
      · intro e; subst e
        simp at h3
        exact hos h3
      · intro d hd
        have : d.1 ∈ done'.map (·.1) := List.mem_map.mpr ⟨d, hd, rfl⟩
        rw [h2] at this
        exact this
      · rw [h2]; exact hnd
      · rw [h3]
        exact collect_singles os hos (by rw [h4]; exact hnd')

/-! ### the run of a wired runner is the composition of the stages -/

/-- the rest of the superstep run after a superstep's outcome -/
def specResult (r : Runner CVal) (fuel : Nat) (tr : Trace CVal) : Except Err (Next CVal) → Except Err CVal
  | .error e => .error e
  | .ok (.result v) => .ok v
  | .ok (.tasks ts) => (Spec.loop cvalOps r Sched.id fuel ts tr).result

theorem spec_from (r : Runner CVal) (hnd : (keys r).Nodup) :
    ∀ (rest : Chain) (i : Nat) (pre : List Key) (done : List (Done CVal)) (w : CVal) (fuel : Nat)
      (tr : Trace CVal),
      Wired r i pre rest → DoneOK pre done w → rest.length ≤ fuel →
      specResult r fuel tr (Spec.next cvalOps r done) = semFrom i rest w := by
  intro rest
  induction rest with
  | nil =>
    intro i pre done w fuel tr hw hd _
    rw [next_of r hnd i pre [] hw (by intro st rest' h; cases h) done w hd]
    rfl
  | cons st rest' ih =>
    intro i pre done w fuel tr hw hd hlen
    obtain ⟨hl, hn, hs, hw'⟩ := hw
    have hE : END ∉ stageKeys i st := by
      intro hm
      obtain ⟨ka, hka, e⟩ := List.mem_map.mp hm
      exact (hn ka hka).1 e
    have hndk : (stageKeys i st).Nodup := hl.2.2.1.nodup hnd
    rw [next_of r hnd i pre (st :: rest') hl
      (by intro st' r' h; cases h; exact hE) done w hd]
    cases hnx : nextOf i (st :: rest') w with
    | error e =>
      simp [specResult, semFrom, nextOf_error i st rest' w e hnx, bind, Except.bind]
    | ok nx =>
      cases nx with
      | result v => exact absurd hnx (nextOf_not_result i st rest' w v)
      | tasks ts =>
        cases fuel with
        | zero => simp at hlen
        | succ fuel' =>
          have hx := stage_exec r i st rest' hn hs hndk w ts tr.length hnx
          simp only [specResult]
          unfold Spec.loop
          simp only
          cases hr : runTasks r Sched.id tr.length ts with
          | error e =>
            rw [hr] at hx
            simp [semFrom, hx, bind, Except.bind]
          | ok done' =>
            rw [hr] at hx
            obtain ⟨o, hso, hdo⟩ := hx
            have hne' : done'.isEmpty = false := by
              cases done' with
              | nil => exact absurd rfl hdo.1
              | cons _ _ => rfl
            have ih' := ih (i + 1) (stageKeys i st) done' o fuel' (ts :: tr) hw' hdo
              (by simp at hlen; omega)
            simp only [hne', Bool.false_eq_true, ↓reduceIte, semFrom, hso, bind, Except.bind]
            rw [← ih']
            unfold specResult
            cases Spec.next cvalOps r done' with
            | error e => rfl
            | ok nx' => cases nx' <;> rfl

/-! ### `compile (lower c)` is wired -/

theorem parNodes_ne_nil (i j : Nat) (subs : List (String × Fn)) (h : subs ≠ []) : parNodes i j subs ≠ [] := by
  cases subs with
  | nil => exact absurd rfl h
  | cons kf t => obtain ⟨k, f⟩ := kf; simp [parNodes]

theorem distinctKeys_spec (subs : List (String × Fn)) (h : distinctKeys subs = true) :
    subs ≠ [] ∧ (subs.map (·.1)).Nodup := by
  simp only [distinctKeys, Bool.and_eq_true, decide_eq_true_eq] at h
  refine ⟨?_, (nodupB_iff _).mp h.2⟩
  intro e; subst e; simp at h

theorem stageKeys_ne_nil (pm : Bool) (i : Nat) (st : Stage) (rest : Chain)
    (h : stagesOK pm (st :: rest) = true) : stageKeys i st ≠ [] := by
  cases st with
  | lambda f => simp [stageKeys, stageNodes]
  | passthrough => simp [stageKeys, stageNodes]
  | parallel subs =>
    simp only [stagesOK, Bool.and_eq_true] at h
    have := (distinctKeys_spec subs h.1.2).1
    simp only [stageKeys, stageNodes, ne_eq, List.map_eq_nil_iff]
    exact parNodes_ne_nil i 0 subs this
  | branch cond subs =>
    simp only [stagesOK, Bool.and_eq_true] at h
    have := (distinctKeys_spec subs h.1.2).1
    simp only [stageKeys, stageNodes, ne_eq, List.map_eq_nil_iff]
    exact this

theorem headD_mem (pre : List Key) (h : pre ≠ []) : pre.headD START ∈ pre := by
  cases pre with
  | nil => exact absurd rfl h
  | cons a t => simp

theorem stageEdges_src (i : Nat) (pre : List Key) (st : Stage) (hpre : pre ≠ []) :
    ∀ e ∈ stageEdges i pre st, e.1 ∈ pre := by
  intro e he
  cases st with
  | lambda f =>
    simp only [stageEdges, List.mem_map] at he
    obtain ⟨p, hp, rfl⟩ := he; exact hp
  | passthrough =>
    simp only [stageEdges, List.mem_map] at he
    obtain ⟨p, hp, rfl⟩ := he; exact hp
  | parallel subs =>
    simp only [stageEdges, List.mem_map] at he
    obtain ⟨p, _, rfl⟩ := he; exact headD_mem pre hpre
  | branch cond subs => simp [stageEdges] at he

theorem stageBranches_src (i : Nat) (pre : List Key) (st : Stage) (hpre : pre ≠ []) :
    ∀ b ∈ stageBranches i pre st, b.1 ∈ pre := by
  intro b hb
  cases st with
  | lambda f => simp [stageBranches] at hb
  | passthrough => simp [stageBranches] at hb
  | parallel subs => simp [stageBranches] at hb
  | branch cond subs =>
    simp only [stageBranches, List.mem_singleton] at hb
    subst hb; exact headD_mem pre hpre

/-- every connection the lowering adds starts at a previous node or at a node of the chain -/
theorem lowerFrom_src : ∀ (rest : Chain) (i : Nat) (pre : List Key) (pm : Bool),
    stagesOK pm rest = true → pre ≠ [] →
    (∀ e ∈ (lowerFrom i pre rest).edges, e.1 ∈ pre ∨ e.1 ∈ (lowerFrom i pre rest).nodes.map (·.1)) ∧
    (∀ b ∈ (lowerFrom i pre rest).branches, b.1 ∈ pre ∨ b.1 ∈ (lowerFrom i pre rest).nodes.map (·.1)) := by
  intro rest
  induction rest with
  | nil =>
    intro i pre pm _ _
    constructor
    · intro e he
      simp only [lowerFrom, List.mem_map] at he
      obtain ⟨p, hp, rfl⟩ := he
      exact Or.inl hp
    · intro b hb; simp [lowerFrom] at hb
  | cons st rest' ih =>
    intro i pre pm hok hpre
    have hk := stageKeys_ne_nil pm i st rest' hok
    have hok' : stagesOK st.multi rest' = true := by
      simp only [stagesOK, Bool.and_eq_true] at hok; exact hok.2
    obtain ⟨ihe, ihb⟩ := ih (i + 1) (stageKeys i st) st.multi hok' hk
    simp only [lowerFrom, List.map_append, List.mem_append]
    constructor
    · intro e he
      rcases he with he | he
      · exact Or.inl (stageEdges_src i pre st hpre e he)
      · rcases ihe e he with h | h
        · exact Or.inr (Or.inl h)
        · exact Or.inr (Or.inr h)
    · intro b hb
      rcases hb with hb | hb
      · exact Or.inl (stageBranches_src i pre st hpre b hb)
      · rcases ihb b hb with h | h
        · exact Or.inr (Or.inl h)
        · exact Or.inr (Or.inr h)

theorem filter_src_nil {β} (l : List (Key × β)) (p : Key) (h : ∀ e ∈ l, e.1 ≠ p) :
    l.filter (fun e => e.1 == p) = [] := by
  rw [List.filter_eq_nil_iff]
  intro e he
  simpa using h e he

def headEdges (i : Nat) (pre : List Key) : Chain → List (Key × Key)
  | [] => pre.map (fun p => (p, END))
  | st :: _ => stageEdges i pre st

def headBranches (i : Nat) (pre : List Key) : Chain → List (Key × Branch CVal)
  | [] => []
  | st :: _ => stageBranches i pre st

theorem mem_outs (l : List (Key × Key)) (p t : Key) :
    t ∈ (l.filter (fun e => e.1 == p)).map (·.2) ↔ (p, t) ∈ l := by
  simp only [List.mem_map, List.mem_filter, beq_iff_eq]
  constructor
  · rintro ⟨⟨a, b⟩, ⟨h1, h2⟩, h3⟩
    simp only at h2 h3
    subst h2; subst h3; exact h1
  · intro h; exact ⟨(p, t), ⟨h, rfl⟩, rfl⟩

theorem contains_eq_of_iff (a b : List Key) (t : Key) (h : t ∈ a ↔ t ∈ b) : a.contains t = b.contains t := by
  rw [Bool.eq_iff_iff]
  simpa using h

theorem link_of (slack : Nat) (g : GraphDef CVal) (hgn : (g.nodes.map (·.1)).Nodup)
    (hS : START ∉ g.nodes.map (·.1)) (i : Nat) (pre : List Key) (rest : Chain)
    (hcall : ∀ p ∈ pre, p = START ∨ ∃ act, (p, act) ∈ g.nodes)
    (hE : ∀ p ∈ pre, ∀ t, (p, t) ∈ g.edges ↔ (p, t) ∈ headEdges i pre rest)
    (hB : ∀ p ∈ pre, g.branches.filter (fun b => b.1 == p) = (headBranches i pre rest).filter (fun b => b.1 == p))
    (hBm : ∀ b ∈ headBranches i pre rest, b ∈ g.branches)
    (hsub : (firstKeys i rest).Sublist (keys (compile slack g)))
    (hone : (∀ st rest', rest = st :: rest' → st.multi = true → ∃ p, pre = [p])) :
    Link (compile slack g) i pre rest := by
  have hnode : ∀ p ∈ pre, ∃ n, (compile slack g).call? p = some n ∧
      n.writeTo = (g.edges.filter (fun e => e.1 == p)).map (·.2) ∧
      n.branches = (g.branches.filter (fun b => b.1 == p)).map (·.2) := by
    intro p hp
    rcases hcall p hp with rfl | ⟨act, hm⟩
    · exact compile_start slack g
    · obtain ⟨n, h1, _, h3, h4⟩ := compile_node slack g hgn p act hm
      have hne : (p == START) = false := by
        cases hb : p == START with
        | false => rfl
        | true =>
          have : p = START := by simpa using hb
          exact absurd (List.mem_map.mpr ⟨(p, act), hm, rfl⟩) (this ▸ hS)
      exact ⟨n, by simp [Runner.call?, hne, h1], h3, h4⟩
  have hw : ∀ p ∈ pre, ∀ n : Node CVal, n.writeTo = (g.edges.filter (fun e => e.1 == p)).map (·.2) →
      ∀ t, t ∈ n.writeTo ↔ (p, t) ∈ headEdges i pre rest := by
    intro p hp n hn t
    rw [hn, mem_outs]; exact hE p hp t
  have hpreds_e : ∀ p t, (p, t) ∈ headEdges i pre rest → p ∈ pre →
      (lookupList t (compile slack g).dataPreds).contains p = true := by
    intro p t h hp
    exact compile_dataPreds_edge slack g p t ((hE p hp t).mpr h)
  cases rest with
  | nil =>
    refine ⟨?_, ?_, hsub, trivial⟩
    · intro p hp
      obtain ⟨n, hc, hwr, hbr⟩ := hnode p hp
      refine ⟨n, hc, ?_, ?_⟩
      · rw [hbr, hB p hp]; rfl
      · intro t
        apply contains_eq_of_iff
        rw [hw p hp n hwr t]
        simp only [headEdges, firstKeys, List.mem_map, List.mem_singleton, Prod.mk.injEq]
        constructor
        · rintro ⟨_, _, _, rfl⟩; rfl
        · rintro rfl; exact ⟨p, hp, rfl, rfl⟩
    · intro p hp t ht
      simp only [firstKeys, List.mem_singleton] at ht
      subst ht
      exact hpreds_e p END (by simp only [headEdges, List.mem_map]; exact ⟨p, hp, rfl⟩) hp
  | cons st rest' =>
    cases st with
    | lambda f =>
      refine ⟨?_, ?_, hsub, trivial⟩
      · intro p hp
        obtain ⟨n, hc, hwr, hbr⟩ := hnode p hp
        refine ⟨n, hc, ?_, ?_⟩
        · rw [hbr, hB p hp]; rfl
        · intro t
          apply contains_eq_of_iff
          rw [hw p hp n hwr t]
          simp only [headEdges, stageEdges, firstKeys, stageKeys, stageNodes, List.mem_map,
            List.map_cons, List.map_nil, List.mem_singleton, Prod.mk.injEq]
          constructor
          · rintro ⟨_, _, _, rfl⟩; rfl
          · rintro rfl; exact ⟨p, hp, rfl, rfl⟩
      · intro p hp t ht
        simp only [firstKeys, stageKeys, stageNodes, List.map_cons, List.map_nil, List.mem_singleton] at ht
        subst ht
        exact hpreds_e p _ (by simp only [headEdges, stageEdges, List.mem_map]; exact ⟨p, hp, rfl⟩) hp
    | passthrough =>
      refine ⟨?_, ?_, hsub, trivial⟩
      · intro p hp
        obtain ⟨n, hc, hwr, hbr⟩ := hnode p hp
        refine ⟨n, hc, ?_, ?_⟩
        · rw [hbr, hB p hp]; rfl
        · intro t
          apply contains_eq_of_iff
          rw [hw p hp n hwr t]
          simp only [headEdges, stageEdges, firstKeys, stageKeys, stageNodes, List.mem_map,
            List.map_cons, List.map_nil, List.mem_singleton, Prod.mk.injEq]
          constructor
          · rintro ⟨_, _, _, rfl⟩; rfl
          · rintro rfl; exact ⟨p, hp, rfl, rfl⟩
      · intro p hp t ht
        simp only [firstKeys, stageKeys, stageNodes, List.map_cons, List.map_nil, List.mem_singleton] at ht
        subst ht
        exact hpreds_e p _ (by simp only [headEdges, stageEdges, List.mem_map]; exact ⟨p, hp, rfl⟩) hp
    | parallel subs =>
      obtain ⟨p0, rfl⟩ := hone _ _ rfl rfl
      refine ⟨?_, ?_, hsub, trivial⟩
      · intro p hp
        obtain ⟨n, hc, hwr, hbr⟩ := hnode p hp
        have hp' : p = p0 := by simpa using hp
        subst hp'
        refine ⟨n, hc, ?_, ?_⟩
        · rw [hbr, hB p (by simp)]; rfl
        · intro t
          apply contains_eq_of_iff
          rw [hw p (by simp) n hwr t]
          simp only [headEdges, stageEdges, firstKeys, List.headD_cons, List.mem_map, Prod.mk.injEq]
          constructor
          · rintro ⟨k, hk, _, rfl⟩; exact hk
          · intro hk; exact ⟨t, hk, trivial, rfl⟩
      · intro p hp t ht
        have hp' : p = p0 := by simpa using hp
        subst hp'
        exact hpreds_e p t (by
          simp only [headEdges, stageEdges, List.headD_cons, List.mem_map, Prod.mk.injEq]
          exact ⟨t, ht, trivial, rfl⟩) hp
    | branch cond subs =>
      obtain ⟨p0, rfl⟩ := hone _ _ rfl rfl
      refine ⟨?_, ?_, hsub, ⟨p0, rfl⟩⟩
      · intro p hp
        obtain ⟨n, hc, hwr, hbr⟩ := hnode p hp
        have hp' : p = p0 := by simpa using hp
        subst hp'
        refine ⟨n, hc, ?_, ?_⟩
        · rw [hbr, hB p (by simp)]
          simp [headBranches, stageBranches]
        · have : ∀ t, ¬ t ∈ n.writeTo := by
            intro t
            rw [hw p (by simp) n hwr t]
            simp [headEdges, stageEdges]
          exact List.eq_nil_iff_forall_not_mem.mpr this
      · intro p hp t ht
        have hp' : p = p0 := by simpa using hp
        subst hp'
        refine compile_dataPreds_branch slack g p (lowerBranch i cond subs) t
          (hBm _ (by simp [headBranches, stageBranches])) rfl ?_
        simpa [firstKeys, stageKeys, stageNodes, lowerBranch] using ht

theorem keys_compile (slack : Nat) (g : GraphDef CVal) :
    keys (compile slack g) = g.nodes.map (·.1) ++ [END] := by
  simp [keys, compile, List.map_map, Function.comp]

theorem single_of_not_multi (i : Nat) (st : Stage) (h : st.multi = false) : ∃ p, stageKeys i st = [p] := by
  cases st with
  | lambda f => exact ⟨_, rfl⟩
  | passthrough => exact ⟨_, rfl⟩
  | parallel subs => simp [Stage.multi] at h
  | branch cond subs => simp [Stage.multi] at h

theorem multi_needs_single (pm : Bool) (st : Stage) (rest : Chain) (h : stagesOK pm (st :: rest) = true)
    (hm : st.multi = true) : pm = false := by
  cases st with
  | lambda f => simp [Stage.multi] at hm
  | passthrough => simp [Stage.multi] at hm
  | parallel subs => simp only [stagesOK, Bool.and_eq_true, Bool.not_eq_true'] at h; exact h.1.1
  | branch cond subs => simp only [stagesOK, Bool.and_eq_true, Bool.not_eq_true'] at h; exact h.1.1

theorem stageOK_of (pm : Bool) (st : Stage) (rest : Chain) (h : stagesOK pm (st :: rest) = true) : StageOK st := by
  cases st with
  | lambda f => trivial
  | passthrough => trivial
  | parallel subs =>
    simp only [stagesOK, Bool.and_eq_true] at h
    exact distinctKeys_spec subs h.1.2
  | branch cond subs => trivial

theorem wired_suffix (slack : Nat) (g : GraphDef CVal)
    (hgn : (g.nodes.map (·.1)).Nodup) (hS : START ∉ g.nodes.map (·.1)) (hEnd : END ∉ g.nodes.map (·.1)) :
    ∀ (rest : Chain) (i : Nat) (pre : List Key) (pm : Bool) (N0 : List (Key × Fn)) (E0 : List (Key × Key))
      (B0 : List (Key × Branch CVal)),
      g.nodes = N0 ++ (lowerFrom i pre rest).nodes →
      g.edges = E0 ++ (lowerFrom i pre rest).edges →
      g.branches = B0 ++ (lowerFrom i pre rest).branches →
      (∀ e ∈ E0, e.1 ∉ pre ∧ e.1 ∉ (lowerFrom i pre rest).nodes.map (·.1)) →
      (∀ b ∈ B0, b.1 ∉ pre ∧ b.1 ∉ (lowerFrom i pre rest).nodes.map (·.1)) →
      (∀ p ∈ pre, p ∉ (lowerFrom i pre rest).nodes.map (·.1)) →
      (∀ p ∈ pre, p = START ∨ ∃ act, (p, act) ∈ g.nodes) →
      pre ≠ [] → (pm = false → ∃ p, pre = [p]) → stagesOK pm rest = true →
      Wired (compile slack g) i pre rest := by
  intro rest
  induction rest with
  | nil =>
    intro i pre pm N0 E0 B0 hN hE hB hE0 hB0 hpre hcall hne hpm hok
    simp only [lowerFrom, List.append_nil] at hN hE hB
    show Link (compile slack g) i pre []
    apply link_of slack g hgn hS i pre [] hcall
    · intro p hp t
      rw [hE, List.mem_append]
      constructor
      · rintro (h | h)
        · exact absurd hp (hE0 _ h).1
        · exact h
      · exact Or.inr
    · intro p hp
      rw [hB]
      exact filter_src_nil B0 p (fun b hb e => (hB0 b hb).1 (e ▸ hp))
    · intro b hb; simp [headBranches] at hb
    · rw [keys_compile]; simp [firstKeys]
    · intro st rest' h; cases h
  | cons st rest' ih =>
    intro i pre pm N0 E0 B0 hN hE hB hE0 hB0 hpre hcall hne hpm hok
    have hk := stageKeys_ne_nil pm i st rest' hok
    have hok' : stagesOK st.multi rest' = true := by
      simp only [stagesOK, Bool.and_eq_true] at hok; exact hok.2
    obtain ⟨hsrcE, hsrcB⟩ := lowerFrom_src rest' (i + 1) (stageKeys i st) st.multi hok' hk
    simp only [lowerFrom] at hN hE hB hE0 hB0 hpre
    generalize htail : lowerFrom (i + 1) (stageKeys i st) rest' = tail at *
    have hLK : ∀ k, k ∈ stageKeys i st ∨ k ∈ tail.nodes.map (·.1) →
        k ∈ (stageNodes i st ++ tail.nodes).map (·.1) := by
      intro k h
      simp only [List.map_append, List.mem_append]
      exact h
    have hstage_mem : ∀ ka ∈ stageNodes i st, ka ∈ g.nodes := by
      intro ka hka; rw [hN]; simp [hka]
    refine ⟨?_, ?_, stageOK_of pm st rest' hok, ?_⟩
    · apply link_of slack g hgn hS i pre (st :: rest') hcall
      · intro p hp t
        rw [hE]
        simp only [List.mem_append, headEdges]
        constructor
        · rintro (h | h | h)
          · exact absurd hp (hE0 _ h).1
          · exact h
          · exact absurd (hLK p (hsrcE _ h)) (hpre p hp)
        · intro h; exact Or.inr (Or.inl h)
      · intro p hp
        rw [hB]
        simp only [List.filter_append, headBranches]
        rw [filter_src_nil B0 p (fun b hb e => (hB0 b hb).1 (e ▸ hp)),
          filter_src_nil tail.branches p (fun b hb e => hpre p hp (hLK p (e ▸ hsrcB b hb)))]
        simp
      · intro b hb
        rw [hB]; simp only [headBranches] at hb; simp [hb]
      · rw [keys_compile, hN]
        simp only [firstKeys, stageKeys, List.map_append, List.append_assoc]
        exact (List.sublist_append_left _ _).trans (List.sublist_append_right _ _)
      · intro st' r' h hm
        cases h
        exact hpm (multi_needs_single pm st rest' hok hm)
    · intro ka hka
      have hm := hstage_mem ka hka
      refine ⟨?_, ?_⟩
      · intro e
        exact hEnd (e ▸ List.mem_map.mpr ⟨ka, hm, rfl⟩)
      · obtain ⟨n, h1, h2, _, _⟩ := compile_node slack g hgn ka.1 ka.2 hm
        exact ⟨n, h1, h2⟩
    · apply ih (i + 1) (stageKeys i st) st.multi (N0 ++ stageNodes i st) (E0 ++ stageEdges i pre st)
        (B0 ++ stageBranches i pre st)
      · rw [hN, htail, List.append_assoc]
      · rw [hE, htail, List.append_assoc]
      · rw [hB, htail, List.append_assoc]
      · intro e he
        rw [htail]
        rcases List.mem_append.mp he with h | h
        · have := (hE0 e h).2
          exact ⟨fun x => this (hLK _ (Or.inl x)), fun x => this (hLK _ (Or.inr x))⟩
        · have := hpre e.1 (stageEdges_src i pre st hne e h)
          exact ⟨fun x => this (hLK _ (Or.inl x)), fun x => this (hLK _ (Or.inr x))⟩
      · intro b hb
        rw [htail]
        rcases List.mem_append.mp hb with h | h
        · have := (hB0 b h).2
          exact ⟨fun x => this (hLK _ (Or.inl x)), fun x => this (hLK _ (Or.inr x))⟩
        · have := hpre b.1 (stageBranches_src i pre st hne b h)
          exact ⟨fun x => this (hLK _ (Or.inl x)), fun x => this (hLK _ (Or.inr x))⟩
      · intro p hp
        rw [htail]
        rw [hN] at hgn
        simp only [List.map_append, List.nodup_append] at hgn
        intro hin
        exact hgn.2.1.2.2 p hp p hin rfl
      · intro p hp
        obtain ⟨ka, hka, rfl⟩ := List.mem_map.mp hp
        exact Or.inr ⟨ka.2, hstage_mem ka hka⟩
      · exact hk
      · intro hm; exact single_of_not_multi i st hm
      · exact hok'

/-- the runner `Compile` produces for a well-formed chain contains the chain, stage by stage -/
theorem wired_lower (slack : Nat) (c : Chain) (h : c.WF) : Wired (c.runner slack) 0 [START] c := by
  obtain ⟨_, hok, hnd⟩ := h
  simp only [List.nodup_cons, List.mem_append, List.mem_singleton, not_or] at hnd
  obtain ⟨⟨hS, _⟩, hnd⟩ := hnd
  rw [List.nodup_append] at hnd
  obtain ⟨hn, _, hdis⟩ := hnd
  have hEnd : END ∉ lowerKeys c := fun hm => hdis END hm END (by simp) rfl
  apply wired_suffix slack (lower c) hn hS hEnd c 0 [START] false [] [] []
  · rfl
  · rfl
  · rfl
  · intro e he; cases he
  · intro b hb; cases hb
  · intro p hp
    have : p = START := by simpa using hp
    subst this; exact hS
  · intro p hp; exact Or.inl (by simpa using hp)
  · simp
  · intro _; exact ⟨START, rfl⟩
  · exact hok

theorem stages_le_nodes : ∀ (c : Chain) (i : Nat) (pre : List Key) (pm : Bool), stagesOK pm c = true →
    c.length ≤ (lowerFrom i pre c).nodes.length := by
  intro c
  induction c with
  | nil => intros; simp
  | cons st rest ih =>
    intro i pre pm hok
    have hk := stageKeys_ne_nil pm i st rest hok
    have hok' : stagesOK st.multi rest = true := by
      simp only [stagesOK, Bool.and_eq_true] at hok; exact hok.2
    have := ih (i + 1) (stageKeys i st) st.multi hok'
    have h1 : 1 ≤ (stageNodes i st).length := by
      cases hs : stageNodes i st with
      | nil => simp [stageKeys, hs] at hk
      | cons _ _ => simp
    simp only [lowerFrom, List.length_cons, List.length_append]
    omega

/-- a legal chain never hits the step limit: the limit of the compiled chain (default
    `len(nodes) + slack`) is at least the number of stages, and a chain runs one superstep per
    stage -/
theorem chain_stages_le_limit (slack : Nat) (c : Chain) (h : c.WF) :
    c.length ≤ (c.runner slack).maxSteps := by
  have := stages_le_nodes c 0 [START] false h.2.1
  simp only [Chain.runner, compile, lower]
  simp
  omega

/-- **chain_is_composition.** Running the graph `chain.go` builds from a chain computes, for
    every well-formed chain, all stage functions and every input, the composition of the
    stages: same value, or the same error attributed to the same node. -/
theorem chain_is_composition (slack : Nat) (c : Chain) (h : c.WF) (x : CVal) :
    c.exec slack x = c.sem x := by
  have hk : (keys (c.runner slack)).Nodup := by
    have := h.2.2
    rw [Chain.runner, keys_compile]
    exact (List.nodup_cons.mp this).2
  have hrun := run_pregel cvalOps (c.runner slack) rfl hk Sched.id (fun _ _ => List.Perm.refl _) x
  have hw := wired_lower slack c h
  have hd : DoneOK [START] [(START, x)] x := ⟨by simp, by simp, by simp, rfl⟩
  have hs := spec_from (c.runner slack) hk c 0 [START] [(START, x)] x (c.runner slack).maxSteps []
    hw hd (chain_stages_le_limit slack c h)
  unfold Chain.exec Engine.run
  rw [hrun, Chain.sem, ← hs]
  unfold Spec.run specResult
  cases Spec.next cvalOps (c.runner slack) [(START, x)] with
  | error e => rfl
  | ok nx => cases nx <;> rfl

/-- a compiled chain used as a stage of another chain (`AppendGraph(chain)`) is the stage
    whose function is the inner chain's meaning -/
theorem chain_as_stage (slack : Nat) (c' : Chain) (h : c'.WF) :
    Stage.lambda (c'.exec slack) = Stage.lambda c'.sem := by
  congr
  funext x
  exact chain_is_composition slack c' h x

end EinoV.Chain
