import EinoV.Model.GraphBuild
import EinoV.Proofs.C02Run
namespace EinoV.Engine
namespace DagRun

theorem lookupList_addPred_self (m : List (Key × List Key)) (to from_ : Key) :
    from_ ∈ lookupList to (addPred m to from_) := by
  unfold lookupList addPred
  rw [alookup_aset_same]
  simp

theorem lookupList_addPred_mono (m : List (Key × List Key)) (to from_ t p : Key)
    (h : p ∈ lookupList t m) : p ∈ lookupList t (addPred m to from_) := by
  unfold lookupList addPred at *
  by_cases e : t = to
  · subst e
    rw [alookup_aset_same]
    simp only [Option.getD_some, List.mem_append, List.mem_singleton]
    exact Or.inl h
  · rw [alookup_aset_other _ _ _ _ e]; exact h

theorem foldl_ends_mono (from_ : Key) (ends : List Key) (m : List (Key × List Key)) (t p : Key)
    (h : p ∈ lookupList t m) : p ∈ lookupList t (ends.foldl (fun m e => addPred m e from_) m) := by
  induction ends generalizing m with
  | nil => exact h
  | cons e rest ih => exact ih _ (lookupList_addPred_mono m e from_ t p h)

theorem foldl_ends_mem (from_ : Key) (ends : List Key) (m : List (Key × List Key)) (t : Key) (ht : t ∈ ends) :
    from_ ∈ lookupList t (ends.foldl (fun m e => addPred m e from_) m) := by
  induction ends generalizing m with
  | nil => simp at ht
  | cons e rest ih =>
    simp only [List.foldl_cons]
    rcases List.mem_cons.mp ht with rfl | ht
    · exact foldl_ends_mono from_ rest _ t from_ (lookupList_addPred_self m t from_)
    · exact ih _ ht

theorem edgePreds_mem (edges : List (Key × Key)) (m : List (Key × List Key)) (a b : Key) (h : (a, b) ∈ edges) :
    a ∈ lookupList b (edges.foldl (fun m e => addPred m e.2 e.1) m) := by
  induction edges generalizing m with
  | nil => simp at h
  | cons e rest ih =>
    simp only [List.foldl_cons]
    rcases List.mem_cons.mp h with rfl | h
    · have : ∀ (l : List (Key × Key)) (m : List (Key × List Key)), a ∈ lookupList b m →
          a ∈ lookupList b (l.foldl (fun m e => addPred m e.2 e.1) m) := by
        intro l
        induction l with
        | nil => intro m h; exact h
        | cons x y ihy => intro m h; exact ihy _ (lookupList_addPred_mono m x.2 x.1 b a h)
      exact this rest _ (lookupList_addPred_self m b a)
    · exact ih _ h

theorem ctrlPreds_mono {V} (brs : List (Key × Branch V)) (m : List (Key × List Key)) (t p : Key)
    (h : p ∈ lookupList t m) :
    p ∈ lookupList t (brs.foldl (fun m b => b.2.ends.foldl (fun m e => addPred m e b.1) m) m) := by
  induction brs generalizing m with
  | nil => exact h
  | cons b rest ih => exact ih _ (foldl_ends_mono b.1 b.2.ends m t p h)

theorem ctrlPreds_mem {V} (brs : List (Key × Branch V)) (m : List (Key × List Key)) (k : Key) (b : Branch V)
    (hb : (k, b) ∈ brs) (t : Key) (ht : t ∈ b.ends) :
    k ∈ lookupList t (brs.foldl (fun m b => b.2.ends.foldl (fun m e => addPred m e b.1) m) m) := by
  induction brs generalizing m with
  | nil => simp at hb
  | cons x rest ih =>
    simp only [List.foldl_cons]
    rcases List.mem_cons.mp hb with rfl | hb
    · exact ctrlPreds_mono rest _ t k (foldl_ends_mem k b.ends m t ht)
    · exact ih _ hb

/-- every compiled graph declares each node as a control predecessor of all its successors -/
theorem compile_succOK {V} (slack : Nat) (g : GraphDef V) (hd : g.dag = true) : SuccOK (compile slack g) := by
  intro m hm s hs cs ds hsh
  left
  -- the channel of `s`
  simp only [shapes, List.mem_map] at hsh
  obtain ⟨⟨s', c⟩, hc, he⟩ := hsh
  simp only [Prod.mk.injEq] at he
  obtain ⟨rfl, he⟩ := he
  have hcs : cs = akeys c.ctrl := by
    have := congrArg Prod.fst he
    simpa [shapeOf] using this.symm
  have hinit : c = Chan.init true (lookupList s' (compile slack g).ctrlPreds) (lookupList s' (compile slack g).dataPreds) := by
    simp only [initChans, List.mem_append, List.mem_map, List.mem_singleton, Prod.mk.injEq] at hc
    have hdag : (compile slack g).dag = true := by simp [compile, hd]
    rcases hc with ⟨n, _, rfl, rfl⟩ | ⟨rfl, rfl⟩
    · rw [hdag]
    · rw [hdag]
  have hk : ∀ p, p ∈ lookupList s' (compile slack g).ctrlPreds → p ∈ cs := by
    intro p hp
    rw [hcs, hinit]
    simp only [Chan.init, ↓reduceIte, akeys, List.map_map]
    simpa [Function.comp] using hp
  apply hk
  -- `m` is `mk k act` for some key `k`
  have hmk : ∃ k, m.key = k ∧ m.writeTo = (g.edges.filter (·.1 == k)).map (·.2) ∧
      m.controls = (g.edges.filter (·.1 == k)).map (·.2) ∧ m.branches = (g.branches.filter (·.1 == k)).map (·.2) := by
    rcases hm with hm | rfl
    · simp only [compile, List.mem_map] at hm
      obtain ⟨p, _, rfl⟩ := hm
      exact ⟨p.1, rfl, rfl, rfl, rfl⟩
    · exact ⟨START, rfl, rfl, rfl, rfl⟩
  obtain ⟨k, hk1, hk2, hk3, hk4⟩ := hmk
  rw [hk1]
  simp only [Node.successors, List.mem_append, hk2, hk3, hk4, List.mem_map, List.mem_filter, List.mem_flatMap] at hs
  have hedge : ∀ e : Key × Key, e ∈ g.edges → (e.1 == k) = true → e.2 = s' →
      k ∈ lookupList s' (compile slack g).ctrlPreds := by
    intro e he1 he2 he3
    have e1 : e.1 = k := by simpa using he2
    simp only [compile]
    apply ctrlPreds_mono
    apply edgePreds_mem
    rw [← e1, ← he3]; exact he1
  rcases hs with (⟨e, ⟨h1, h2⟩, h3⟩ | ⟨e, ⟨h1, h2⟩, h3⟩) | ⟨b, ⟨x, ⟨h1, h2⟩, rfl⟩, h3⟩
  · exact hedge e h1 h2 h3
  · exact hedge e h1 h2 h3
  · have e1 : x.1 = k := by simpa using h2
    simp only [compile]
    exact ctrlPreds_mem g.branches _ k x.2 (by rw [← e1]; exact h1) s' h3

end DagRun
end EinoV.Engine
