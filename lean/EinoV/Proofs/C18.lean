/-
  C18 — helper lemmas.  The superstep machine of Model/C18.lean, instantiated with the
  expected facts, is shown equal to a fused "round" function (`rounds`: one recursion step =
  chat superstep + tools superstep [+ direct_return superstep]) which recurses over the
  script.  All property theorems are inductions over `rounds`.
-/
import EinoV.Model.C18
import EinoV.Proofs.C18Asm
import EinoV.Expected.C18

namespace EinoV.C18
open EinoV.Expected.C18 (facts topoPlain topoRD firstChunkChecker)

/-! ## concatenation -/

/-- boxing an assistant message whose tool calls are already assembled into a one-chunk stream
    and concatenating that stream gives the message back -/
theorem concat_single (m : Msg) (hr : m.role = .assistant) (hc : m.callId = "")
    (ha : assemble m.calls = m.calls) : concat [Chunk.ofMsg m] = m := by
  cases m with
  | mk role content calls callId =>
    simp only at hr hc ha
    subst hr; subst hc
    simp [concat, Chunk.ofMsg, String.join, ha]

theorem concat_streamOf (mode : Mode) (r : Reply) : concat (streamOf mode r) = r.full := by
  cases mode with
  | stream => rfl
  | generate => exact concat_single _ rfl rfl (assemble_idem _)

theorem concat_calls_nil_iff (cs : List Chunk) :
    (concat cs).calls = [] ↔ ∀ c ∈ cs, c.calls = [] := by
  simp only [concat, assemble_eq_nil_iff, List.flatMap_eq_nil_iff]

/-! ## successors in the two topologies (closed computations over the tables) -/

theorem next_start_plain : nextNodes topoPlain keyStart none = [keyChat] := by decide
theorem next_start_rd : nextNodes topoRD keyStart none = [keyChat] := by decide
theorem next_chat_tools_plain : nextNodes topoPlain keyChat (some keyTools) = [keyTools] := by decide
theorem next_chat_end_plain : nextNodes topoPlain keyChat (some keyEnd) = [keyEnd] := by decide
theorem next_chat_tools_rd : nextNodes topoRD keyChat (some keyTools) = [keyTools] := by decide
theorem next_chat_end_rd : nextNodes topoRD keyChat (some keyEnd) = [keyEnd] := by decide
theorem next_tools_plain (c : Option String) : nextNodes topoPlain keyTools c = [keyChat] := by
  simp [nextNodes, topoPlain, keyTools, keyChat]
theorem next_tools_chat_rd : nextNodes topoRD keyTools (some keyChat) = [keyChat] := by decide
theorem next_tools_direct_rd : nextNodes topoRD keyTools (some keyDirect) = [keyDirect] := by decide
theorem next_direct_rd (c : Option String) : nextNodes topoRD keyDirect c = [keyEnd] := by
  simp [nextNodes, topoRD, keyDirect, keyEnd]

/-! ## single supersteps with the expected facts -/

/-- the branch decision after reply `r`: continue with the tools node? -/
def goes (F : Facts) (cfg : Config) (mode : Mode) (r : Reply) : Bool :=
  runChecker (cfg.checkerSpec F) (streamOf mode r)

/-- state after the chat node's pre-handler and the recording of the model call -/
def chatSt (cfg : Config) (st : St) (input : List Msg) (rest : List Reply) : St :=
  { st with msgs := st.msgs ++ input, seen := st.seen ++ [cfg.modifier (st.msgs ++ input)],
            evs := st.evs ++ [.chat], script := rest }

@[simp] theorem facts_modelPre : facts.modelPreAppends = true := rfl
@[simp] theorem facts_toolsPre : facts.toolsPreAppends = true := rfl
@[simp] theorem k_tc : (keyTools == keyChat) = false := by decide
@[simp] theorem k_dc : (keyDirect == keyChat) = false := by decide
@[simp] theorem k_dt : (keyDirect == keyTools) = false := by decide
@[simp] theorem k_te : (keyTools == keyEnd) = false := by decide
@[simp] theorem k_ce : (keyChat == keyEnd) = false := by decide
@[simp] theorem k_de : (keyDirect == keyEnd) = false := by decide

theorem superstep_chat (cfg : Config) (mode : Mode) (T : Topo)
    (h1 : nextNodes T keyChat (some keyTools) = [keyTools])
    (h2 : nextNodes T keyChat (some keyEnd) = [keyEnd])
    (input : List Msg) (st : St) :
    superstep facts cfg mode T keyChat (.msgs input) st =
      match st.script with
      | [] => (chatSt cfg st input [], .done (.error .modelExhausted))
      | r :: rest =>
        if goes facts cfg mode r then
          (chatSt cfg st input rest, .next keyTools (.stream (streamOf mode r)))
        else (chatSt cfg st input rest, .done (.ok r.full)) := by
  cases hs : st.script with
  | nil => simp [superstep, execNode, hs, chatSt]
  | cons r rest =>
    by_cases hg : goes facts cfg mode r = true
    · have hg' : runChecker (cfg.checkerSpec facts) (streamOf mode r) = true := hg
      simp [superstep, execNode, hs, chatSt, branchChoice, hg, hg', h1]
    · have hg' : runChecker (cfg.checkerSpec facts) (streamOf mode r) = false := by
        simpa [goes] using hg
      simp [superstep, execNode, hs, chatSt, branchChoice, hg, hg', h2, Val.result, concat_streamOf]

/-- state after the tools node's pre-handler and body -/
def toolsSt (cfg : Config) (st : St) (m : Msg) : St :=
  { st with msgs := st.msgs ++ [m], rdId := returnDirectlyId cfg.returnDirectly m,
            evs := st.evs ++ [.tools (runTools cfg m).1] }

theorem superstep_tools_plain (cfg : Config) (mode : Mode) (cs : List Chunk) (st : St) :
    superstep facts cfg mode topoPlain keyTools (.stream cs) st =
      match (runTools cfg (concat cs)).2 with
      | .error e => (toolsSt cfg st (concat cs), .done (.error e))
      | .ok res => (toolsSt cfg st (concat cs), .next keyChat (.msgs res)) := by
  cases hr : runTools cfg (concat cs) with
  | mk started out =>
    cases out with
    | error e => simp [superstep, execNode, hr, toolsSt]
    | ok res => simp [superstep, execNode, hr, toolsSt, next_tools_plain]

theorem superstep_tools_rd (cfg : Config) (mode : Mode) (cs : List Chunk) (st : St) :
    superstep facts cfg mode topoRD keyTools (.stream cs) st =
      match (runTools cfg (concat cs)).2 with
      | .error e => (toolsSt cfg st (concat cs), .done (.error e))
      | .ok res =>
        (toolsSt cfg st (concat cs),
         .next (if returnDirectlyId cfg.returnDirectly (concat cs) != "" then keyDirect else keyChat)
               (.msgs res)) := by
  cases hr : runTools cfg (concat cs) with
  | mk started out =>
    cases out with
    | error e => simp [superstep, execNode, hr, toolsSt]
    | ok res =>
      by_cases hid : returnDirectlyId cfg.returnDirectly (concat cs) = ""
      · simp [superstep, execNode, hr, toolsSt, branchChoice, hid, next_tools_chat_rd]
      · simp [superstep, execNode, hr, toolsSt, branchChoice, hid, next_tools_direct_rd]

theorem superstep_direct_rd (cfg : Config) (mode : Mode) (l : List Msg) (st : St) :
    superstep facts cfg mode topoRD keyDirect (.msgs l) st =
      ({ st with evs := st.evs ++ [.direct] },
       .done (match l.find? (fun m => m.callId == st.rdId) with
              | some m => .ok m
              | none => .error .noDirectResult)) := by
  cases hf : l.find? (fun m => m.callId == st.rdId) with
  | none => simp [superstep, execNode, hf]
  | some m => simp [superstep, execNode, hf, branchChoice, next_direct_rd, Val.result]

/-! ## the fused round function -/

/-- result of direct_return on the tools output -/
def directResult (id : String) (res : List Msg) : Except Err Msg :=
  match res.find? (fun m => m.callId == id) with
  | some m => .ok m
  | none => .error .noDirectResult

/-- What the loop does from a pending chat task on, as a recursion over the script:
    `(model inputs, node executions, result)` produced from here with `b` supersteps left
    and history `h` (= state.Messages after the chat pre-handler). -/
def rounds (cfg : Config) (dec : Reply → Bool) :
    List Reply → Nat → List Msg → List (List Msg) × List Ev × Except Err Msg
  | _, 0, _ => ([], [], .error .maxSteps)
  | [], _ + 1, h => ([cfg.modifier h], [.chat], .error .modelExhausted)
  | r :: rest, b + 1, h =>
    if dec r then
      match b with
      | 0 => ([cfg.modifier h], [.chat], .error .maxSteps)
      | b' + 1 =>
        match (runTools cfg r.full).2 with
        | .error e => ([cfg.modifier h], [.chat, .tools (runTools cfg r.full).1], .error e)
        | .ok res =>
          if returnDirectlyId cfg.returnDirectly r.full != "" then
            match b' with
            | 0 => ([cfg.modifier h], [.chat, .tools (runTools cfg r.full).1], .error .maxSteps)
            | _ + 1 =>
              ([cfg.modifier h], [.chat, .tools (runTools cfg r.full).1, .direct],
               directResult (returnDirectlyId cfg.returnDirectly r.full) res)
          else
            let q := rounds cfg dec rest b' (h ++ r.full :: res)
            (cfg.modifier h :: q.1, .chat :: .tools (runTools cfg r.full).1 :: q.2.1, q.2.2)
    else ([cfg.modifier h], [.chat], .ok r.full)

theorem returnDirectlyId_nil (rd : List String) (m : Msg) (h : rd.isEmpty = true) :
    returnDirectlyId rd m = "" := by
  simp [returnDirectlyId, h]

/-- The superstep loop (expected facts) from a pending chat task = `rounds`. -/
theorem loop_chat (cfg : Config) (mode : Mode) :
    ∀ (script : List Reply) (b : Nat) (st : St) (input : List Msg), st.script = script →
      (loop facts cfg mode (topoOf facts cfg) b keyChat (.msgs input) st).1.seen
          = st.seen ++ (rounds cfg (goes facts cfg mode) script b (st.msgs ++ input)).1 ∧
      (loop facts cfg mode (topoOf facts cfg) b keyChat (.msgs input) st).1.evs
          = st.evs ++ (rounds cfg (goes facts cfg mode) script b (st.msgs ++ input)).2.1 ∧
      (loop facts cfg mode (topoOf facts cfg) b keyChat (.msgs input) st).2
          = (rounds cfg (goes facts cfg mode) script b (st.msgs ++ input)).2.2 := by
  intro script
  induction script with
  | nil =>
    intro b st input hs
    cases b with
    | zero => simp [loop, rounds]
    | succ b =>
      have hT : superstep facts cfg mode (topoOf facts cfg) keyChat (.msgs input) st
          = (chatSt cfg st input [], .done (.error .modelExhausted)) := by
        by_cases hrd : cfg.returnDirectly.isEmpty = true
        · have : topoOf facts cfg = topoPlain := by simp [topoOf, hrd, facts]
          rw [this, superstep_chat cfg mode _ next_chat_tools_plain next_chat_end_plain, hs]
        · have : topoOf facts cfg = topoRD := by simp [topoOf, hrd, facts]
          rw [this, superstep_chat cfg mode _ next_chat_tools_rd next_chat_end_rd, hs]
      simp [loop, hT, rounds, chatSt]
  | cons r rest ih =>
    intro b st input hs
    cases b with
    | zero => simp [loop, rounds]
    | succ b =>
      by_cases hrd : cfg.returnDirectly.isEmpty = true
      · -- plain topology
        have hTopo : topoOf facts cfg = topoPlain := by simp [topoOf, hrd, facts]
        rw [hTopo] at ih ⊢
        have hc := superstep_chat cfg mode _ next_chat_tools_plain next_chat_end_plain input st
        rw [hs] at hc
        by_cases hg : goes facts cfg mode r = true
        · simp only [hg, if_true] at hc
          cases b with
          | zero => simp [loop, hc, rounds, hg, chatSt]
          | succ b' =>
            have ht := superstep_tools_plain cfg mode (streamOf mode r) (chatSt cfg st input rest)
            rw [concat_streamOf] at ht
            have hid := returnDirectlyId_nil cfg.returnDirectly r.full hrd
            cases hres : (runTools cfg r.full).2 with
            | error e =>
              rw [hres] at ht
              simp only [loop, hc, ht]
              simp [rounds, hg, hres, chatSt, toolsSt]
            | ok res =>
              rw [hres] at ht
              have := ih b' (toolsSt cfg (chatSt cfg st input rest) r.full) res rfl
              simp only [loop, hc, ht]
              simp only [rounds, hg, if_true, hres, hid]
              obtain ⟨h1, h2, h3⟩ := this
              refine ⟨?_, ?_, ?_⟩
              · rw [h1]; simp [toolsSt, chatSt]
              · rw [h2]; simp [toolsSt, chatSt]
              · rw [h3]; simp [toolsSt, chatSt]
        · simp only [hg] at hc
          simp [loop, hc, rounds, hg, chatSt]
      · -- return-directly topology
        have hTopo : topoOf facts cfg = topoRD := by simp [topoOf, hrd, facts]
        rw [hTopo] at ih ⊢
        have hc := superstep_chat cfg mode _ next_chat_tools_rd next_chat_end_rd input st
        rw [hs] at hc
        by_cases hg : goes facts cfg mode r = true
        · simp only [hg, if_true] at hc
          cases b with
          | zero => simp [loop, hc, rounds, hg, chatSt]
          | succ b' =>
            have ht := superstep_tools_rd cfg mode (streamOf mode r) (chatSt cfg st input rest)
            rw [concat_streamOf] at ht
            cases hres : (runTools cfg r.full).2 with
            | error e =>
              rw [hres] at ht
              simp only [loop, hc, ht]
              simp [rounds, hg, hres, chatSt, toolsSt]
            | ok res =>
              rw [hres] at ht
              by_cases hid : returnDirectlyId cfg.returnDirectly r.full = ""
              · have := ih b' (toolsSt cfg (chatSt cfg st input rest) r.full) res rfl
                simp only [hid] at ht
                simp only [loop, hc, ht]
                simp only [rounds, hg, if_true, hres, hid]
                obtain ⟨h1, h2, h3⟩ := this
                refine ⟨?_, ?_, ?_⟩
                · simp at h1 ⊢; rw [h1]; simp [toolsSt, chatSt]
                · simp at h2 ⊢; rw [h2]; simp [toolsSt, chatSt]
                · simp at h3 ⊢; rw [h3]; simp [toolsSt, chatSt]
              · have hne : (returnDirectlyId cfg.returnDirectly r.full != "") = true := by
                  simpa using hid
                simp only [hne, if_true] at ht
                cases b' with
                | zero =>
                  simp only [loop, hc, ht]
                  simp [rounds, hg, hres, hne, chatSt, toolsSt]
                | succ b'' =>
                  simp only [loop, hc, ht, superstep_direct_rd]
                  simp [rounds, hg, hres, hne, chatSt, toolsSt, directResult]
        · simp only [hg] at hc
          simp [loop, hc, rounds, hg, chatSt]

/-- `Agent.Generate`/`Agent.Stream` of the model with the expected facts, in closed form. -/
theorem run_eq (cfg : Config) (mode : Mode) (orig : List Msg) (script : List Reply) :
    run facts cfg mode orig script =
      match stepLimit facts cfg with
      | none => { seen := [], evs := [], result := .error .badMaxSteps }
      | some l =>
        { seen := (rounds cfg (goes facts cfg mode) script l orig).1,
          evs := (rounds cfg (goes facts cfg mode) script l orig).2.1,
          result := (rounds cfg (goes facts cfg mode) script l orig).2.2 } := by
  unfold run
  cases hl : stepLimit facts cfg with
  | none => rfl
  | some l =>
    have hn : nextNodes (topoOf facts cfg) keyStart none = [keyChat] := by
      by_cases hrd : cfg.returnDirectly.isEmpty = true
      · have : topoOf facts cfg = topoPlain := by simp [topoOf, hrd, facts]
        rw [this]; exact next_start_plain
      · have : topoOf facts cfg = topoRD := by simp [topoOf, hrd, facts]
        rw [this]; exact next_start_rd
    have h := loop_chat cfg mode script l (initSt script) orig rfl
    simp only [hn]
    obtain ⟨h1, h2, h3⟩ := h
    simp only [initSt, List.nil_append] at h1 h2 h3
    simp only [initSt]
    cases hq : loop facts cfg mode (topoOf facts cfg) l keyChat (.msgs orig)
        { msgs := [], rdId := "", script := script, seen := [], evs := [] } with
    | mk st r =>
      rw [hq] at h1 h2 h3
      simp only at h1 h2 h3
      simp [h1, h2, h3]

/-! ## properties of `rounds` -/

/-- messages the agent itself adds to the history while it works through `script`:
    every assistant message followed by the tool messages for its calls (`none` if a tools
    node fails on the way) -/
def transcript (cfg : Config) : List Reply → Option (List Msg)
  | [] => some []
  | r :: rest =>
    match (runTools cfg r.full).2, transcript cfg rest with
    | .ok res, some t => some (r.full :: res ++ t)
    | _, _ => none

theorem single_getElem? {α} (a s : α) (k : Nat) (h : [a][k]? = some s) : k = 0 ∧ s = a := by
  cases k with
  | zero => simp at h; exact ⟨rfl, h.symm⟩
  | succ k => simp at h

theorem rounds_seen (cfg : Config) (dec : Reply → Bool) :
    ∀ (script : List Reply) (b : Nat) (h : List Msg) (k : Nat) (s : List Msg),
      (rounds cfg dec script b h).1[k]? = some s →
      ∃ t, transcript cfg (script.take k) = some t ∧ s = cfg.modifier (h ++ t) := by
  intro script
  induction script with
  | nil =>
    intro b h k s hk
    cases b with
    | zero => simp [rounds] at hk
    | succ b =>
      simp only [rounds] at hk
      obtain ⟨rfl, rfl⟩ := single_getElem? _ _ _ hk
      exact ⟨[], by simp [transcript], by simp⟩
  | cons r rest ih =>
    intro b h k s hk
    have base : ∀ k s, [cfg.modifier h][k]? = some s →
        ∃ t, transcript cfg ((r :: rest).take k) = some t ∧ s = cfg.modifier (h ++ t) := by
      intro k s hk
      obtain ⟨rfl, rfl⟩ := single_getElem? _ _ _ hk
      exact ⟨[], by simp [transcript], by simp⟩
    cases b with
    | zero => simp [rounds] at hk
    | succ b =>
      simp only [rounds] at hk
      split at hk
      · cases b with
        | zero => exact base k s hk
        | succ b' =>
          simp only at hk
          split at hk
          · exact base k s hk
          · rename_i res hres
            split at hk
            · cases b' with
              | zero => exact base k s hk
              | succ b'' => exact base k s hk
            · cases k with
              | zero =>
                simp at hk
                exact ⟨[], by simp [transcript], by simp [hk]⟩
              | succ k' =>
                simp only [List.getElem?_cons_succ] at hk
                obtain ⟨t, ht, hs⟩ := ih b' (h ++ r.full :: res) k' s hk
                refine ⟨r.full :: res ++ t, ?_, ?_⟩
                · simp [transcript, hres, ht]
                · rw [hs]; simp
      · exact base k s hk

/-- reply `r` makes the agent go round once more -/
def Continues (cfg : Config) (dec : Reply → Bool) (r : Reply) : Prop :=
  dec r = true ∧ (∃ res, (runTools cfg r.full).2 = .ok res) ∧
  returnDirectlyId cfg.returnDirectly r.full = ""

theorem rounds_result (cfg : Config) (dec : Reply → Bool) :
    ∀ (script : List Reply) (b : Nat) (h : List Msg) (m : Msg),
      (rounds cfg dec script b h).2.2 = .ok m →
      ∃ k r, script[k]? = some r ∧
        (∀ (j : Nat) rj, j < k → script[j]? = some rj → Continues cfg dec rj) ∧
        ((dec r = false ∧ m = r.full) ∨
         (dec r = true ∧ returnDirectlyId cfg.returnDirectly r.full ≠ "" ∧
          ∃ res, (runTools cfg r.full).2 = .ok res ∧
            directResult (returnDirectlyId cfg.returnDirectly r.full) res = .ok m)) := by
  intro script
  induction script with
  | nil =>
    intro b h m hm
    cases b <;> simp [rounds] at hm
  | cons r rest ih =>
    intro b h m hm
    cases b with
    | zero => simp [rounds] at hm
    | succ b =>
      simp only [rounds] at hm
      split at hm
      · rename_i hd
        cases b with
        | zero => simp at hm
        | succ b' =>
          simp only at hm
          split at hm
          · simp at hm
          · rename_i res hres
            split at hm
            · rename_i hid
              cases b' with
              | zero => simp at hm
              | succ b'' =>
                simp only at hm
                refine ⟨0, r, by simp, ?_, Or.inr ⟨hd, by simpa using hid, res, hres, hm⟩⟩
                intro j rj hj; omega
            · rename_i hid
              obtain ⟨k, r', hk, hpre, hfin⟩ := ih b' _ m hm
              refine ⟨k + 1, r', by simpa using hk, ?_, hfin⟩
              intro j rj hj hjr
              cases j with
              | zero =>
                simp at hjr; subst hjr
                exact ⟨hd, ⟨res, hres⟩, by simpa using hid⟩
              | succ j' =>
                exact hpre j' rj (by omega) (by simpa using hjr)
      · rename_i hd
        simp only [Except.ok.injEq] at hm
        refine ⟨0, r, by simp, ?_, Or.inl ⟨by simpa using hd, hm.symm⟩⟩
        intro j rj hj; omega

/-- Completeness of the END exit: if reply `k` is the first the branch sends to END, all
    earlier ones went round, and the budget covers the `2k+1` node executions, the run
    returns that assistant message after exactly `k+1` model calls. -/
theorem rounds_complete_end (cfg : Config) (dec : Reply → Bool) :
    ∀ (k : Nat) (script : List Reply) (b : Nat) (h : List Msg) (r : Reply),
      script[k]? = some r →
      (∀ (j : Nat) rj, j < k → script[j]? = some rj → Continues cfg dec rj) →
      dec r = false → 2 * k + 1 ≤ b →
      (rounds cfg dec script b h).2.2 = .ok r.full ∧
      (rounds cfg dec script b h).2.1.length = 2 * k + 1 ∧
      (rounds cfg dec script b h).1.length = k + 1 := by
  intro k
  induction k with
  | zero =>
    intro script b h r hk _ hd hb
    cases script with
    | nil => simp at hk
    | cons r0 rest =>
      simp at hk; subst hk
      cases b with
      | zero => omega
      | succ b => simp [rounds, hd]
  | succ k ih =>
    intro script b h r hk hpre hd hb
    cases script with
    | nil => simp at hk
    | cons r0 rest =>
      simp only [List.getElem?_cons_succ] at hk
      obtain ⟨hd0, ⟨res0, hres0⟩, hid0⟩ := hpre 0 r0 (by omega) (by simp)
      have hpre' : ∀ (j : Nat) rj, j < k → rest[j]? = some rj → Continues cfg dec rj := by
        intro j rj hj hjr
        exact hpre (j + 1) rj (by omega) (by simpa using hjr)
      obtain ⟨b'', rfl⟩ : ∃ b'', b = b'' + 2 := ⟨b - 2, by omega⟩
      obtain ⟨h1, h2, h3⟩ := ih rest b'' (h ++ r0.full :: res0) r hk hpre' hd (by omega)
      simp only [rounds, hd0, if_true, hres0, hid0]
      simp [h1, h2, h3]
      omega

/-- Completeness of the return-directly exit. -/
theorem rounds_complete_direct (cfg : Config) (dec : Reply → Bool) :
    ∀ (k : Nat) (script : List Reply) (b : Nat) (h : List Msg) (r : Reply) (res : List Msg),
      script[k]? = some r →
      (∀ (j : Nat) rj, j < k → script[j]? = some rj → Continues cfg dec rj) →
      dec r = true → (runTools cfg r.full).2 = .ok res →
      returnDirectlyId cfg.returnDirectly r.full ≠ "" → 2 * k + 3 ≤ b →
      (rounds cfg dec script b h).2.2 = directResult (returnDirectlyId cfg.returnDirectly r.full) res ∧
      (rounds cfg dec script b h).2.1.length = 2 * k + 3 := by
  intro k
  induction k with
  | zero =>
    intro script b h r res hk _ hd hres hid hb
    cases script with
    | nil => simp at hk
    | cons r0 rest =>
      simp at hk; subst hk
      obtain ⟨b'', rfl⟩ : ∃ b'', b = b'' + 3 := ⟨b - 3, by omega⟩
      have hne : (returnDirectlyId cfg.returnDirectly r0.full != "") = true := by simpa using hid
      simp [rounds, hd, hres, hne]
  | succ k ih =>
    intro script b h r res hk hpre hd hres hid hb
    cases script with
    | nil => simp at hk
    | cons r0 rest =>
      simp only [List.getElem?_cons_succ] at hk
      obtain ⟨hd0, ⟨res0, hres0⟩, hid0⟩ := hpre 0 r0 (by omega) (by simp)
      have hpre' : ∀ (j : Nat) rj, j < k → rest[j]? = some rj → Continues cfg dec rj := by
        intro j rj hj hjr
        exact hpre (j + 1) rj (by omega) (by simpa using hjr)
      obtain ⟨b'', rfl⟩ : ∃ b'', b = b'' + 2 := ⟨b - 2, by omega⟩
      obtain ⟨h1, h2⟩ := ih rest b'' (h ++ r0.full :: res0) r res hk hpre' hd hres hid (by omega)
      simp only [rounds, hd0, if_true, hres0, hid0]
      simp [h1, h2]
      omega

theorem rounds_evs_le (cfg : Config) (dec : Reply → Bool) :
    ∀ (script : List Reply) (b : Nat) (h : List Msg),
      (rounds cfg dec script b h).2.1.length ≤ b := by
  intro script
  induction script with
  | nil => intro b h; cases b <;> simp [rounds]
  | cons r rest ih =>
    intro b h
    cases b with
    | zero => simp [rounds]
    | succ b =>
      simp only [rounds]
      split
      · cases b with
        | zero => simp
        | succ b' =>
          simp only
          split
          · simp
          · split
            · cases b' <;> simp
            · have := ih b' (h ++ r.full :: ‹List Msg›)
              simp; omega
      · simp

/-- the step-limit error is raised exactly when the budget is used up -/
theorem rounds_maxSteps (cfg : Config) (dec : Reply → Bool) :
    ∀ (script : List Reply) (b : Nat) (h : List Msg),
      (rounds cfg dec script b h).2.2 = .error .maxSteps →
      (rounds cfg dec script b h).2.1.length = b := by
  intro script
  induction script with
  | nil => intro b h; cases b <;> simp [rounds]
  | cons r rest ih =>
    intro b h
    cases b with
    | zero => simp [rounds]
    | succ b =>
      simp only [rounds]
      split
      · cases b with
        | zero => simp
        | succ b' =>
          simp only
          split
          · rename_i e he
            intro hm
            simp only [Except.error.injEq] at hm
            -- a tools-node error is never the step-limit error
            exfalso
            subst hm
            revert he
            unfold runTools
            split
            · simp
            · split
              · simp
              · rename_i tasks _
                simp only
                intro hc
                have : ∀ (ts : List (ToolCall × (String → Except Nat String))),
                    collectResults ts ≠ .error .maxSteps := by
                  intro ts
                  induction ts with
                  | nil => simp [collectResults]
                  | cons t ts iht =>
                    obtain ⟨c, f⟩ := t
                    simp only [collectResults]
                    split
                    · simp
                    · split
                      · rename_i e' he'
                        intro hx; simp only [Except.error.injEq] at hx
                        subst hx; exact iht he'
                      · simp
                exact this tasks hc
          · split
            · cases b' with
              | zero => simp
              | succ b'' =>
                simp only [directResult]
                split <;> simp
            · intro hm
              have := ih b' _ hm
              simp [this]
      · simp

/-- a run that does not end in the step-limit error is unchanged by a larger budget -/
theorem rounds_mono (cfg : Config) (dec : Reply → Bool) :
    ∀ (script : List Reply) (b : Nat) (h : List Msg),
      (rounds cfg dec script b h).2.2 ≠ .error .maxSteps →
      rounds cfg dec script (b + 1) h = rounds cfg dec script b h := by
  intro script
  induction script with
  | nil => intro b h; cases b <;> simp [rounds]
  | cons r rest ih =>
    intro b h hne
    cases b with
    | zero => simp [rounds] at hne
    | succ b =>
      simp only [rounds] at hne ⊢
      split
      · rename_i hd
        simp only [hd, if_true] at hne
        cases b with
        | zero => simp at hne
        | succ b' =>
          simp only at hne ⊢
          split
          · rfl
          · rename_i res hres
            simp only [hres] at hne
            split
            · rename_i hid
              simp only [hid, if_true] at hne
              cases b' with
              | zero => simp at hne
              | succ b'' => rfl
            · rename_i hid
              simp only [hid] at hne
              have := ih b' _ hne
              simp only [this]
      · rfl

theorem rounds_mono_add (cfg : Config) (dec : Reply → Bool) (script : List Reply) (b : Nat)
    (h : List Msg) (hne : (rounds cfg dec script b h).2.2 ≠ .error .maxSteps) (d : Nat) :
    rounds cfg dec script (b + d) h = rounds cfg dec script b h := by
  induction d with
  | zero => rfl
  | succ d ih =>
    rw [show b + (d + 1) = (b + d) + 1 by omega, rounds_mono cfg dec script (b + d) h (by rw [ih]; exact hne), ih]

/-! `MaxStep` enters only through the step limit -/

theorem resolveCalls_setMax (cfg : Config) (n : Int) :
    ∀ calls, resolveCalls { cfg with maxStep := n } calls = resolveCalls cfg calls := by
  intro calls
  induction calls with
  | nil => rfl
  | cons c cs ih =>
    have ht : ({ cfg with maxStep := n } : Config).toolFor c.name = cfg.toolFor c.name := rfl
    simp only [resolveCalls, ih, ht]

theorem runTools_setMax (cfg : Config) (n : Int) (m : Msg) :
    runTools { cfg with maxStep := n } m = runTools cfg m := by
  simp only [runTools, resolveCalls_setMax]

theorem rounds_setMax (cfg : Config) (n : Int) (dec : Reply → Bool) :
    ∀ script b h, rounds { cfg with maxStep := n } dec script b h = rounds cfg dec script b h := by
  intro script
  induction script with
  | nil => intro b h; cases b <;> rfl
  | cons r rest ih =>
    intro b h
    cases b with
    | zero => rfl
    | succ b => simp only [rounds, runTools_setMax, ih]

/-- node executions come as chat, tools, chat, tools, …, optionally closed by
    tools, direct_return -/
inductive Alternates : List Ev → Prop
  | nil : Alternates []
  | chat : Alternates [.chat]
  | direct (s : List ToolCall) : Alternates [.chat, .tools s, .direct]
  | round (s : List ToolCall) (rest : List Ev) : Alternates rest → Alternates (.chat :: .tools s :: rest)

theorem rounds_alternates (cfg : Config) (dec : Reply → Bool) :
    ∀ (script : List Reply) (b : Nat) (h : List Msg),
      Alternates (rounds cfg dec script b h).2.1 := by
  intro script
  induction script with
  | nil => intro b h; cases b <;> simp [rounds] <;> constructor
  | cons r rest ih =>
    intro b h
    cases b with
    | zero => simp only [rounds]; exact .nil
    | succ b =>
      simp only [rounds]
      split
      · cases b with
        | zero => exact .chat
        | succ b' =>
          simp only
          split
          · exact .round _ _ .nil
          · split
            · cases b' with
              | zero => exact .round _ _ .nil
              | succ b'' => exact .direct _
            · exact .round _ _ (ih b' _)
      · exact .chat

/-- `rounds` only looks at the decisions for replies of the script -/
theorem rounds_congr (cfg : Config) (d1 d2 : Reply → Bool) :
    ∀ (script : List Reply) (b : Nat) (h : List Msg), (∀ r ∈ script, d1 r = d2 r) →
      rounds cfg d1 script b h = rounds cfg d2 script b h := by
  intro script
  induction script with
  | nil => intro b h _; cases b <;> simp [rounds]
  | cons r rest ih =>
    intro b h hd
    have hr : d1 r = d2 r := hd r (by simp)
    have hrest : ∀ x ∈ rest, d1 x = d2 x := fun x hx => hd x (by simp [hx])
    cases b with
    | zero => simp [rounds]
    | succ b =>
      simp only [rounds, hr]
      split
      · cases b with
        | zero => rfl
        | succ b' =>
          simp only
          split
          · rfl
          · split
            · rfl
            · simp only [ih b' _ hrest]
      · rfl

/-! ## the checkers -/

theorem firstChunk_single (m : Msg) :
    runChecker firstChunkChecker [Chunk.ofMsg m] = !m.calls.isEmpty := by
  cases hc : m.calls with
  | nil =>
    by_cases hs : m.content = ""
    · simp [runChecker, chunkAct, firstChunkChecker, CheckCond.holds, Chunk.ofMsg, hc, hs]
    · simp [runChecker, chunkAct, firstChunkChecker, CheckCond.holds, Chunk.ofMsg, hc, hs]
  | cons c cs => simp [runChecker, chunkAct, firstChunkChecker, CheckCond.holds, Chunk.ofMsg, hc]

theorem assemble_isEmpty (ds : List ToolCall) : (assemble ds).isEmpty = ds.isEmpty := by
  cases ds with
  | nil => rfl
  | cons d rest =>
    cases h : assemble (d :: rest) with
    | nil => exact absurd ((assemble_eq_nil_iff _).mp h) (by simp)
    | cons _ _ => rfl

theorem concat_calls_isEmpty (cs : List Chunk) :
    (concat cs).calls.isEmpty = (cs.flatMap (·.calls)).isEmpty := assemble_isEmpty _

theorem whole_chunks (cs : List Chunk) :
    runChecker wholeStreamChecker cs = !(concat cs).calls.isEmpty := by
  rw [concat_calls_isEmpty]
  induction cs with
  | nil => simp [runChecker, wholeStreamChecker]
  | cons c cs ih =>
    cases hc : c.calls with
    | nil =>
      have : runChecker wholeStreamChecker (c :: cs) = runChecker wholeStreamChecker cs := by
        simp [runChecker, chunkAct, wholeStreamChecker, CheckCond.holds, hc]
      rw [this, ih]; simp [hc]
    | cons x xs =>
      simp [runChecker, chunkAct, wholeStreamChecker, CheckCond.holds, hc]

theorem whole_single (m : Msg) :
    runChecker wholeStreamChecker [Chunk.ofMsg m] = !m.calls.isEmpty := by
  rw [whole_chunks, concat_calls_isEmpty]; simp [Chunk.ofMsg]

/-- a chunk the first-chunk checker skips -/
def Chunk.blank (c : Chunk) : Prop := c.content = "" ∧ c.calls = []

/-- **The hypothesis under which the default checker sees the tool calls**: if the reply has
    tool calls at all, then the first chunk that is not blank (no content, no tool calls)
    already carries a tool call. -/
def ToolCallsInFirstNonEmptyChunk (r : Reply) : Prop :=
  r.full.calls = [] ∨
  ∃ pre c post, r.chunks = pre ++ c :: post ∧ (∀ x ∈ pre, x.blank) ∧ c.calls ≠ []

theorem firstChunk_blank_prefix (pre rest : List Chunk) (h : ∀ x ∈ pre, x.blank) :
    runChecker firstChunkChecker (pre ++ rest) = runChecker firstChunkChecker rest := by
  induction pre with
  | nil => rfl
  | cons x xs ih =>
    have hx := h x (by simp)
    have : runChecker firstChunkChecker (x :: (xs ++ rest)) = runChecker firstChunkChecker (xs ++ rest) := by
      simp [runChecker, chunkAct, firstChunkChecker, CheckCond.holds, hx.1, hx.2]
    simp only [List.cons_append, this]
    exact ih (fun y hy => h y (by simp [hy]))

theorem firstChunk_no_calls (cs : List Chunk) (h : ∀ c ∈ cs, c.calls = []) :
    runChecker firstChunkChecker cs = false := by
  induction cs with
  | nil => rfl
  | cons c cs ih =>
    have hc := h c (by simp)
    by_cases hs : c.content = ""
    · have : runChecker firstChunkChecker (c :: cs) = runChecker firstChunkChecker cs := by
        simp [runChecker, chunkAct, firstChunkChecker, CheckCond.holds, hc, hs]
      rw [this]; exact ih (fun y hy => h y (by simp [hy]))
    · simp [runChecker, chunkAct, firstChunkChecker, CheckCond.holds, hc, hs]

/-- Under the hypothesis the default checker decides on the chunks exactly as on the whole
    message. -/
theorem firstChunk_agree (r : Reply) (h : ToolCallsInFirstNonEmptyChunk r) :
    runChecker firstChunkChecker r.chunks = runChecker firstChunkChecker [Chunk.ofMsg r.full] := by
  rw [firstChunk_single]
  rcases h with h | ⟨pre, c, post, hch, hpre, hc⟩
  · rw [h]
    have : ∀ c ∈ r.chunks, c.calls = [] := (concat_calls_nil_iff r.chunks).mp h
    rw [firstChunk_no_calls _ this]; rfl
  · have hfull : r.full.calls ≠ [] := by
      intro h0
      have := (concat_calls_nil_iff r.chunks).mp h0 c (by rw [hch]; simp)
      exact hc this
    rw [hch, firstChunk_blank_prefix _ _ hpre]
    cases hcc : c.calls with
    | nil => exact absurd hcc hc
    | cons x xs =>
      cases hf : r.full.calls with
      | nil => exact absurd hf hfull
      | cons y ys => simp [runChecker, chunkAct, firstChunkChecker, CheckCond.holds, hcc]

/-! ## chunk metadata is not looked at -/

theorem holds_bare (cond : CheckCond) (c : Chunk) : cond.holds c.bare = cond.holds c := by
  cases cond <;> rfl

theorem chunkAct_bare (rules : List (CheckCond × CheckAct)) (c : Chunk) :
    chunkAct rules c.bare = chunkAct rules c := by
  induction rules with
  | nil => rfl
  | cons ra rs ih =>
    obtain ⟨cond, act⟩ := ra
    simp only [chunkAct, holds_bare, ih]

/-- any checker expressible as a rule table decides the same with and without metadata -/
theorem runChecker_bare (s : CheckerSpec) (cs : List Chunk) :
    runChecker s (cs.map Chunk.bare) = runChecker s cs := by
  induction cs with
  | nil => rfl
  | cons c cs ih => simp only [List.map_cons, runChecker, chunkAct_bare, ih]

theorem concat_bare (cs : List Chunk) : concat (cs.map Chunk.bare) = concat cs := by
  simp [concat, Chunk.bare, List.flatMap_map, Function.comp_def]

theorem full_bare (r : Reply) : r.bare.full = r.full := concat_bare r.chunks

theorem goes_bare (F : Facts) (cfg : Config) (mode : Mode) (r : Reply) :
    goes F cfg mode r.bare = goes F cfg mode r := by
  cases mode with
  | generate => simp only [goes, streamOf, full_bare]
  | stream => exact runChecker_bare _ _

/-- `rounds` only looks at the whole message of a reply and at the branch decision -/
theorem rounds_map (cfg : Config) (dec : Reply → Bool) (f : Reply → Reply)
    (hfull : ∀ r, (f r).full = r.full) (hdec : ∀ r, dec (f r) = dec r) :
    ∀ (script : List Reply) (b : Nat) (h : List Msg),
      rounds cfg dec (script.map f) b h = rounds cfg dec script b h := by
  intro script
  induction script with
  | nil => intro b h; cases b <;> simp [rounds]
  | cons r rest ih =>
    intro b h
    cases b with
    | zero => simp [rounds]
    | succ b =>
      simp only [List.map_cons, rounds, hfull, hdec]
      split
      · cases b with
        | zero => rfl
        | succ b' =>
          simp only
          split
          · rfl
          · split
            · rfl
            · simp only [ih b' _]
      · rfl

/-! ## how the deltas of different tool calls are interleaved is not looked at -/

/-- two lists related element by element (same length) -/
inductive Pointwise {α β : Type} (R : α → β → Prop) : List α → List β → Prop
  | nil : Pointwise R [] []
  | cons {a : α} {b : β} {as : List α} {bs : List β} :
      R a b → Pointwise R as bs → Pointwise R (a :: as) (b :: bs)

/-- what a checker rule can see of a chunk -/
def Chunk.SameShape (c c' : Chunk) : Prop :=
  c.content = c'.content ∧ c.calls.isEmpty = c'.calls.isEmpty

/-- `r'` streams the same reply as `r` with the tool-call deltas distributed differently: chunk
    by chunk the same content and the same "carries tool-call deltas or not", and for every key
    (every `Index`, and "no `Index`") the same deltas in the same order — the deltas of different
    keys may be interleaved in any other way. -/
def Reply.Reinterleaved (r r' : Reply) : Prop :=
  Pointwise Chunk.SameShape r.chunks r'.chunks ∧
  ∀ k, deltasOf k (r.chunks.flatMap (·.calls)) = deltasOf k (r'.chunks.flatMap (·.calls))

theorem holds_shape (cond : CheckCond) {c c' : Chunk} (h : c.SameShape c') :
    cond.holds c = cond.holds c' := by
  cases cond with
  | hasToolCalls => simp only [CheckCond.holds, h.2]
  | emptyContent => simp only [CheckCond.holds, h.1]
  | otherwise => rfl

theorem chunkAct_shape (rules : List (CheckCond × CheckAct)) {c c' : Chunk} (h : c.SameShape c') :
    chunkAct rules c = chunkAct rules c' := by
  induction rules with
  | nil => rfl
  | cons ra rs ih =>
    obtain ⟨cond, act⟩ := ra
    simp only [chunkAct, holds_shape cond h, ih]

theorem runChecker_shape (s : CheckerSpec) {cs cs' : List Chunk}
    (h : Pointwise Chunk.SameShape cs cs') : runChecker s cs = runChecker s cs' := by
  induction h with
  | nil => rfl
  | cons hc _ ih => simp only [runChecker, chunkAct_shape s.rules hc, ih]

theorem content_shape {cs cs' : List Chunk} (h : Pointwise Chunk.SameShape cs cs') :
    cs.map (·.content) = cs'.map (·.content) := by
  induction h with
  | nil => rfl
  | cons hc _ ih => simp only [List.map_cons, hc.1, ih]

theorem full_reinterleaved {r r' : Reply} (h : r.Reinterleaved r') : r.full = r'.full := by
  have h1 := content_shape h.1
  have h2 := assemble_congr _ _ h.2
  simp only [Reply.full, concat]
  rw [h1, h2]

theorem goes_reinterleaved (F : Facts) (cfg : Config) (mode : Mode) {r r' : Reply}
    (h : r.Reinterleaved r') : goes F cfg mode r = goes F cfg mode r' := by
  cases mode with
  | generate => simp only [goes, streamOf, full_reinterleaved h]
  | stream => exact runChecker_shape _ h.1

/-- `rounds` on two scripts whose replies have, one by one, the same whole message and the same
    branch decision -/
theorem rounds_rel (cfg : Config) (dec : Reply → Bool) {s1 s2 : List Reply}
    (hs : Pointwise (fun r1 r2 => r1.full = r2.full ∧ dec r1 = dec r2) s1 s2) :
    ∀ (b : Nat) (h : List Msg), rounds cfg dec s1 b h = rounds cfg dec s2 b h := by
  induction hs with
  | nil => intro b h; cases b <;> simp [rounds]
  | cons hr _ ih =>
    intro b h
    cases b with
    | zero => simp [rounds]
    | succ b =>
      simp only [rounds, hr.1, hr.2]
      split
      · cases b with
        | zero => rfl
        | succ b' =>
          simp only
          split
          · rfl
          · split
            · rfl
            · simp only [ih b' _]
      · rfl

/-! ## the tools node and direct_return, call by call -/

/-- tool message produced for one call -/
def AnswerOf (cfg : Config) (c : ToolCall) (m : Msg) : Prop :=
  ∃ f out, cfg.toolFor c.name = some f ∧ f c.args = .ok out ∧ m = toolMessage out c.id

/-- call-by-call: the i-th tool message answers the i-th call -/
inductive Answers (cfg : Config) : List ToolCall → List Msg → Prop
  | nil : Answers cfg [] []
  | cons {c m cs ms} : AnswerOf cfg c m → Answers cfg cs ms → Answers cfg (c :: cs) (m :: ms)

theorem collect_spec (cfg : Config) :
    ∀ (calls : List ToolCall) tasks res, resolveCalls cfg calls = some tasks →
      collectResults tasks = .ok res → Answers cfg calls res := by
  intro calls
  induction calls with
  | nil =>
    intro tasks res ht hr
    simp [resolveCalls] at ht; subst ht
    simp [collectResults] at hr; subst hr
    exact .nil
  | cons c cs ih =>
    intro tasks res ht hr
    simp only [resolveCalls] at ht
    split at ht
    · rename_i f rest hf hrest
      simp only [Option.some.injEq] at ht; subst ht
      simp only [collectResults] at hr
      split at hr
      · simp at hr
      · rename_i out hout
        split at hr
        · simp at hr
        · rename_i ms hms
          simp only [Except.ok.injEq] at hr; subst hr
          exact .cons ⟨f, out, hf, hout, rfl⟩ (ih rest ms hrest hms)
    · simp at ht

theorem runTools_spec (cfg : Config) (m : Msg) (res : List Msg) (h : (runTools cfg m).2 = .ok res) :
    Answers cfg m.calls res := by
  unfold runTools at h
  split at h
  · simp at h
  · split at h
    · simp at h
    · rename_i tasks ht
      exact collect_spec cfg _ _ _ ht h

theorem find_answer (cfg : Config) (c : ToolCall) :
    ∀ (calls : List ToolCall) (res : List Msg), Answers cfg calls res →
      c ∈ calls → (calls.map (·.id)).Nodup →
      ∃ m, res.find? (fun m => m.callId == c.id) = some m ∧ AnswerOf cfg c m := by
  intro calls res hf
  induction hf with
  | nil => intro hc; simp at hc
  | @cons c' m' calls' res' hcm _ ih =>
    intro hc hnd
    simp only [List.map_cons, List.nodup_cons] at hnd
    obtain ⟨f, out, hf1, hf2, hm'⟩ := hcm
    by_cases heq : c = c'
    · subst heq
      refine ⟨m', ?_, ⟨f, out, hf1, hf2, hm'⟩⟩
      simp [List.find?, hm', toolMessage]
    · have hc' : c ∈ calls' := by
        cases hc with
        | head => exact absurd rfl heq
        | tail _ h => exact h
      have hid : c'.id ≠ c.id := by
        intro hh
        exact hnd.1 (by rw [hh]; exact List.mem_map_of_mem hc')
      obtain ⟨m, hm, ha⟩ := ih hc' hnd.2
      refine ⟨m, ?_, ha⟩
      have hb : (c'.id == c.id) = false := by simpa using hid
      simp [List.find?, hm', toolMessage, hb, hm]

theorem returnDirectlyId_ne (rd : List String) (m : Msg) (h : returnDirectlyId rd m ≠ "") :
    ∃ c, m.calls.find? (fun c => rd.contains c.name) = some c ∧ returnDirectlyId rd m = c.id := by
  by_cases hrd : rd.isEmpty = true
  · exact absurd (returnDirectlyId_nil rd m hrd) h
  · cases hf : m.calls.find? (fun c => rd.contains c.name) with
    | none => exact absurd (by simp only [returnDirectlyId, hrd, hf]; rfl) h
    | some c => exact ⟨c, rfl, by simp only [returnDirectlyId, hrd, hf]; rfl⟩

/-- When call ids are non-empty, "no return-directly id recorded" means exactly "no call
    names a return-directly tool". (An empty id on such a call makes the code treat it as
    not return-directly: `len(state.ReturnDirectlyToolCallID) > 0` is the flag.) -/
theorem returnDirectlyId_empty_iff (rd : List String) (m : Msg)
    (hids : ∀ c ∈ m.calls, c.id ≠ "") :
    returnDirectlyId rd m = "" ↔ ∀ c ∈ m.calls, c.name ∉ rd := by
  by_cases hrd : rd.isEmpty = true
  · have : rd = [] := by simpa using hrd
    subst this
    simp [returnDirectlyId]
  · cases hf : m.calls.find? (fun c => rd.contains c.name) with
    | none =>
      have h1 : returnDirectlyId rd m = "" := by simp only [returnDirectlyId, hrd, hf]; rfl
      simp only [h1, true_iff]
      intro c hc hin
      have := List.find?_eq_none.mp hf c hc
      simp [hin] at this
    | some c =>
      have h1 : returnDirectlyId rd m = c.id := by simp only [returnDirectlyId, hrd, hf]; rfl
      have hmem : c ∈ m.calls := List.mem_of_find?_eq_some hf
      have hin : c.name ∈ rd := by simpa using List.find?_some hf
      rw [h1]
      constructor
      · intro h; exact absurd h (hids c hmem)
      · intro h; exact absurd hin (h c hmem)

/-- With pairwise distinct call ids, direct_return hands back the answer to the first call
    of a return-directly tool. -/
theorem direct_first (cfg : Config) (m : Msg) (res : List Msg)
    (hres : (runTools cfg m).2 = .ok res) (hnd : (m.calls.map (·.id)).Nodup)
    (hid : returnDirectlyId cfg.returnDirectly m ≠ "") :
    ∃ c, m.calls.find? (fun c => cfg.returnDirectly.contains c.name) = some c ∧
      returnDirectlyId cfg.returnDirectly m = c.id ∧
      ∃ a, directResult (returnDirectlyId cfg.returnDirectly m) res = .ok a ∧ AnswerOf cfg c a := by
  obtain ⟨c, hc, hcid⟩ := returnDirectlyId_ne _ _ hid
  have hmem : c ∈ m.calls := List.mem_of_find?_eq_some hc
  obtain ⟨a, ha, hans⟩ := find_answer cfg c _ _ (runTools_spec cfg m res hres) hmem hnd
  refine ⟨c, hc, hcid, a, ?_, hans⟩
  rw [hcid]; simp [directResult, ha]

end EinoV.C18
