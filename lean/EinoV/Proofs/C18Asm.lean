/-
  C18 — the assembly of a turn's tool calls from streamed deltas (`assemble`, the model of
  `schema.concatToolCalls` in Model/C18.lean): what the assembled list is, index by index, and
  that it does not depend on how the deltas of different indexes are interleaved.
-/
import EinoV.Model.C18

namespace EinoV.C18

/-! ## small facts -/

theorem firstNonEmpty_single (s : String) : firstNonEmpty [s] = s := by
  by_cases h : s = ""
  · simp [firstNonEmpty, h]
  · simp [firstNonEmpty, h]

theorem join_single (s : String) : String.join [s] = s := by
  simp [String.join]

theorem deltasOf_nil (k : Option Nat) : deltasOf k [] = [] := rfl

theorem deltasOf_append (k : Option Nat) (a b : List ToolCall) :
    deltasOf k (a ++ b) = deltasOf k a ++ deltasOf k b := by
  simp [deltasOf]

theorem deltasOf_cons_eq (k : Option Nat) (d : ToolCall) (ds : List ToolCall) (h : d.index = k) :
    deltasOf k (d :: ds) = d :: deltasOf k ds := by
  simp [deltasOf, h]

theorem deltasOf_cons_ne (k : Option Nat) (d : ToolCall) (ds : List ToolCall) (h : d.index ≠ k) :
    deltasOf k (d :: ds) = deltasOf k ds := by
  simp [deltasOf, h]

theorem mem_deltasOf {k : Option Nat} {d : ToolCall} {ds : List ToolCall} :
    d ∈ deltasOf k ds ↔ d ∈ ds ∧ d.index = k := by
  simp [deltasOf]

theorem deltasOf_eq_nil_iff {k : Option Nat} {ds : List ToolCall} :
    deltasOf k ds = [] ↔ ∀ d ∈ ds, d.index ≠ k := by
  simp [deltasOf, List.filter_eq_nil_iff]

/-- projecting twice: same key ⇒ no change, different keys ⇒ nothing left -/
theorem deltasOf_deltasOf (k k' : Option Nat) (ds : List ToolCall) :
    deltasOf k (deltasOf k' ds) = if k = k' then deltasOf k ds else [] := by
  by_cases h : k = k'
  · subst h
    simp only [if_true]
    simp [deltasOf, List.filter_filter]
  · simp only [h, if_false]
    rw [deltasOf_eq_nil_iff]
    intro d hd
    rw [mem_deltasOf] at hd
    intro hk
    exact h (hk.symm.trans hd.2)

theorem groupAt_eq_none_iff {ds : List ToolCall} {i : Nat} :
    groupAt ds i = none ↔ deltasOf (some i) ds = [] := by
  unfold groupAt
  cases h : deltasOf (some i) ds <;> simp

theorem groupAt_of_cons {ds : List ToolCall} {i : Nat} {d : ToolCall} {g : List ToolCall}
    (h : deltasOf (some i) ds = d :: g) : groupAt ds i = some (mergeDeltas i (d :: g)) := by
  unfold groupAt
  rw [h]

/-- a merged call carries the index it was merged under -/
theorem groupAt_index {ds : List ToolCall} {i : Nat} {c : ToolCall} (h : groupAt ds i = some c) :
    c.index = some i := by
  unfold groupAt at h
  cases hg : deltasOf (some i) ds with
  | nil => rw [hg] at h; cases h
  | cons d g =>
    rw [hg] at h
    cases h
    rfl

/-- the group of index `i` only depends on the deltas of index `i` -/
theorem groupAt_congr {ds ds' : List ToolCall} {i : Nat}
    (h : deltasOf (some i) ds = deltasOf (some i) ds') : groupAt ds i = groupAt ds' i := by
  unfold groupAt
  rw [h]

/-! ## the index bound -/

theorem index_lt_bound : ∀ (ds : List ToolCall) (d : ToolCall) (i : Nat),
    d ∈ ds → d.index = some i → i < indexBound ds := by
  intro ds
  induction ds with
  | nil => intro d i hd; cases hd
  | cons x xs ih =>
    intro d i hd hi
    rcases List.mem_cons.mp hd with rfl | hm
    · simp only [indexBound, hi]
      omega
    · have := ih d i hm hi
      simp only [indexBound]
      cases hx : x.index with
      | none => simpa using this
      | some j => simp only; omega

theorem groupAt_none_of_bound (ds : List ToolCall) (i : Nat) (h : indexBound ds ≤ i) :
    groupAt ds i = none := by
  rw [groupAt_eq_none_iff, deltasOf_eq_nil_iff]
  intro d hd hi
  have := index_lt_bound ds d i hd hi
  omega

/-- scanning further than the bound finds nothing more -/
theorem range_filterMap_bound (ds : List ToolCall) (n : Nat) (h : indexBound ds ≤ n) :
    (List.range n).filterMap (groupAt ds) = (List.range (indexBound ds)).filterMap (groupAt ds) := by
  obtain ⟨k, rfl⟩ := Nat.exists_eq_add_of_le h
  induction k with
  | zero => rfl
  | succ k ih =>
    rw [← Nat.add_assoc, List.range_succ, List.filterMap_append, ih (by omega)]
    simp [groupAt_none_of_bound ds (indexBound ds + k) (by omega)]

theorem assemble_eq_of_bound (ds : List ToolCall) (n : Nat) (h : indexBound ds ≤ n) :
    assemble ds = deltasOf none ds ++ (List.range n).filterMap (groupAt ds) := by
  rw [range_filterMap_bound ds n h]
  rfl

/-! ## what the assembled list is -/

/-- the assembled list is determined by the index-less deltas and the group of every index -/
theorem assemble_ext (ds ds' : List ToolCall) (hn : deltasOf none ds = deltasOf none ds')
    (hg : ∀ i, groupAt ds i = groupAt ds' i) : assemble ds = assemble ds' := by
  rw [assemble_eq_of_bound ds (max (indexBound ds) (indexBound ds')) (by omega),
      assemble_eq_of_bound ds' (max (indexBound ds) (indexBound ds')) (by omega), hn]
  congr 1
  have : groupAt ds = groupAt ds' := funext hg
  rw [this]

/-- projection of a scan `(range n).filterMap f` whose results are filed under their position -/
theorem deltasOf_range_filterMap (f : Nat → Option ToolCall)
    (hf : ∀ j c, f j = some c → c.index = some j) (i : Nat) :
    ∀ n, deltasOf (some i) ((List.range n).filterMap f) = if i < n then (f i).toList else [] := by
  intro n
  induction n with
  | zero => simp [deltasOf]
  | succ n ih =>
    rw [List.range_succ, List.filterMap_append, deltasOf_append, ih]
    have hlast : deltasOf (some i) (List.filterMap f [n]) = if i = n then (f i).toList else [] := by
      cases hfn : f n with
      | none =>
        by_cases hin : i = n
        · subst hin; simp [hfn, deltasOf]
        · simp [hfn, hin, deltasOf]
      | some c =>
        have hc := hf n c hfn
        by_cases hin : i = n
        · subst hin
          simp [hfn, deltasOf, hc]
        · have : c.index ≠ some i := by
            rw [hc]; intro h; exact hin (Option.some.inj h).symm
          simp [hfn, hin, deltasOf, this]
    rw [hlast]
    by_cases h1 : i < n
    · have h2 : i ≠ n := by omega
      have h3 : i < n + 1 := by omega
      simp [h1, h2, h3]
    · by_cases h2 : i = n
      · subst h2; simp
      · have h3 : ¬ i < n + 1 := by omega
        simp [h1, h2, h3]

theorem deltasOf_none_range_filterMap (f : Nat → Option ToolCall)
    (hf : ∀ j c, f j = some c → c.index = some j) (n : Nat) :
    deltasOf none ((List.range n).filterMap f) = [] := by
  rw [deltasOf_eq_nil_iff]
  intro d hd
  rw [List.mem_filterMap] at hd
  obtain ⟨j, _, hj⟩ := hd
  rw [hf j d hj]
  intro h; cases h

/-- **the index-less part.** Deltas without `Index` are never merged: they are the index-less
    calls of the assembled list, in arrival order … -/
theorem assemble_unindexed (ds : List ToolCall) :
    deltasOf none (assemble ds) = deltasOf none ds := by
  unfold assemble
  rw [deltasOf_append, deltasOf_deltasOf, deltasOf_none_range_filterMap _ (fun j c h => groupAt_index h)]
  simp

/-- **one call per index.** … and for every index `i` the assembled list has exactly the merge of
    the deltas filed under `i`, taken in arrival order — wherever they sit in the stream — and no
    call of index `i` when no delta carries it. -/
theorem assemble_indexed (ds : List ToolCall) (i : Nat) :
    deltasOf (some i) (assemble ds) = (groupAt ds i).toList := by
  unfold assemble
  rw [deltasOf_append, deltasOf_deltasOf, deltasOf_range_filterMap _ (fun j c h => groupAt_index h)]
  by_cases h : i < indexBound ds
  · simp [h]
  · rw [groupAt_none_of_bound ds i (by omega)]
    simp [h]

/-- indexed calls by strictly ascending index -/
def Ascending (ms : List ToolCall) : Prop :=
  (∀ m ∈ ms, m.index ≠ none) ∧
  ms.Pairwise (fun a b => ∃ i j, a.index = some i ∧ b.index = some j ∧ i < j)

/-- the form `ConcatMessages` produces, and the form of the tool calls of one well-formed chunk
    (a chunk is a message: its tool calls are distinct calls): index-less calls first, then at
    most one call per index, by ascending index -/
def Canonical (cs : List ToolCall) : Prop :=
  ∃ us ms, cs = us ++ ms ∧ (∀ u ∈ us, u.index = none) ∧ Ascending ms

/-- **order.** The index-less calls come first; the merged calls follow by ascending index. -/
theorem assemble_sorted (ds : List ToolCall) : Canonical (assemble ds) := by
  refine ⟨deltasOf none ds, (List.range (indexBound ds)).filterMap (groupAt ds), rfl, ?_, ?_, ?_⟩
  · intro u hu
    exact (mem_deltasOf.mp hu).2
  · intro m hm
    rw [List.mem_filterMap] at hm
    obtain ⟨j, _, hj⟩ := hm
    rw [groupAt_index hj]
    intro h; cases h
  · refine List.Pairwise.filterMap (R := fun a b : Nat => a < b) _ ?_ List.pairwise_lt_range
    intro a a' hlt b hb b' hb'
    exact ⟨a, a', groupAt_index hb, groupAt_index hb', hlt⟩

theorem Ascending.tail {x : ToolCall} {t : List ToolCall} (h : Ascending (x :: t)) : Ascending t :=
  ⟨fun m hm => h.1 m (List.mem_cons_of_mem _ hm), (List.pairwise_cons.mp h.2).2⟩

/-- in an ascending list, the head is the only call of its index, and every later call has a
    larger one -/
theorem Ascending.head_lt {x : ToolCall} {t : List ToolCall} (h : Ascending (x :: t)) {i : Nat}
    (hi : x.index = some i) : ∀ y ∈ t, ∃ j, y.index = some j ∧ i < j := by
  intro y hy
  obtain ⟨i', j, h1, h2, h3⟩ := (List.pairwise_cons.mp h.2).1 y hy
  rw [hi] at h1
  cases h1
  exact ⟨j, h2, h3⟩

theorem Ascending.proj_head {x : ToolCall} {t : List ToolCall} (h : Ascending (x :: t)) {i : Nat}
    (hi : x.index = some i) : deltasOf (some i) (x :: t) = [x] := by
  rw [deltasOf_cons_eq _ _ _ hi]
  congr 1
  rw [deltasOf_eq_nil_iff]
  intro y hy hyi
  obtain ⟨j, hj, hlt⟩ := h.head_lt hi y hy
  rw [hj] at hyi
  cases hyi
  omega

/-- an ascending list is determined by its projections -/
theorem ascending_ext : ∀ (m1 m2 : List ToolCall), Ascending m1 → Ascending m2 →
    (∀ i, deltasOf (some i) m1 = deltasOf (some i) m2) → m1 = m2 := by
  intro m1
  induction m1 with
  | nil =>
    intro m2 _ h2 h
    cases m2 with
    | nil => rfl
    | cons y t2 =>
      exfalso
      cases hy : y.index with
      | none => exact h2.1 y (by simp) hy
      | some j =>
        have := h j
        rw [h2.proj_head hy] at this
        cases this
  | cons x t1 ih =>
    intro m2 h1 h2 h
    cases hx : x.index with
    | none => exact absurd hx (h1.1 x (by simp))
    | some i =>
      have hpx := h1.proj_head hx
      cases m2 with
      | nil =>
        have := h i
        rw [hpx] at this
        cases this
      | cons y t2 =>
        cases hy : y.index with
        | none => exact absurd hy (h2.1 y (by simp))
        | some j =>
          have hpy := h2.proj_head hy
          -- y occurs in x :: t1, so i ≤ j; x occurs in y :: t2, so j ≤ i
          have hyin : y ∈ x :: t1 := by
            have : y ∈ deltasOf (some j) (x :: t1) := by rw [h j, hpy]; simp
            exact (mem_deltasOf.mp this).1
          have hxin : x ∈ y :: t2 := by
            have : x ∈ deltasOf (some i) (y :: t2) := by rw [← h i, hpx]; simp
            exact (mem_deltasOf.mp this).1
          have hij : i ≤ j := by
            rcases List.mem_cons.mp hyin with rfl | hm
            · rw [hx] at hy; cases hy; omega
            · obtain ⟨j', hj', hlt⟩ := h1.head_lt hx y hm
              rw [hy] at hj'; cases hj'; omega
          have hji : j ≤ i := by
            rcases List.mem_cons.mp hxin with rfl | hm
            · rw [hx] at hy; cases hy; omega
            · obtain ⟨i', hi', hlt⟩ := h2.head_lt hy x hm
              rw [hx] at hi'; cases hi'; omega
          have heq : i = j := by omega
          subst heq
          have hxy : x = y := by
            have := h i
            rw [hpx, hpy] at this
            exact (List.cons.inj this).1
          subst hxy
          congr 1
          apply ih t2 h1.tail h2.tail
          intro k
          by_cases hk : k = i
          · subst hk
            have e1 : deltasOf (some k) t1 = [] := by
              rw [deltasOf_eq_nil_iff]
              intro z hz hzk
              obtain ⟨j, hj, hlt⟩ := h1.head_lt hx z hz
              rw [hj] at hzk; cases hzk; omega
            have e2 : deltasOf (some k) t2 = [] := by
              rw [deltasOf_eq_nil_iff]
              intro z hz hzk
              obtain ⟨j, hj, hlt⟩ := h2.head_lt hx z hz
              rw [hj] at hzk; cases hzk; omega
            rw [e1, e2]
          · have hne : x.index ≠ some k := by
              rw [hx]; intro h'; exact hk (Option.some.inj h').symm
            have := h k
            rw [deltasOf_cons_ne _ _ _ hne, deltasOf_cons_ne _ _ _ hne] at this
            exact this

theorem deltasOf_none_ascending {ms : List ToolCall} (h : Ascending ms) : deltasOf none ms = [] := by
  rw [deltasOf_eq_nil_iff]
  intro m hm
  exact h.1 m hm

theorem deltasOf_some_unindexed {us : List ToolCall} (h : ∀ u ∈ us, u.index = none) (i : Nat) :
    deltasOf (some i) us = [] := by
  rw [deltasOf_eq_nil_iff]
  intro u hu hi
  rw [h u hu] at hi
  cases hi

theorem deltasOf_none_unindexed {us : List ToolCall} (h : ∀ u ∈ us, u.index = none) :
    deltasOf none us = us := by
  unfold deltasOf
  rw [List.filter_eq_self]
  intro u hu
  simp [h u hu]

/-- a canonical list is determined by its projections -/
theorem canonical_ext {l1 l2 : List ToolCall} (h1 : Canonical l1) (h2 : Canonical l2)
    (h : ∀ k, deltasOf k l1 = deltasOf k l2) : l1 = l2 := by
  obtain ⟨u1, m1, rfl, hu1, hm1⟩ := h1
  obtain ⟨u2, m2, rfl, hu2, hm2⟩ := h2
  have hu : u1 = u2 := by
    have := h none
    rw [deltasOf_append, deltasOf_append, deltasOf_none_ascending hm1, deltasOf_none_ascending hm2,
        deltasOf_none_unindexed hu1, deltasOf_none_unindexed hu2] at this
    simpa using this
  have hm : m1 = m2 := by
    apply ascending_ext m1 m2 hm1 hm2
    intro i
    have := h (some i)
    rw [deltasOf_append, deltasOf_append, deltasOf_some_unindexed hu1, deltasOf_some_unindexed hu2] at this
    simpa using this
  rw [hu, hm]

/-- merging a single (already merged) call changes nothing -/
theorem mergeDeltas_single {ds : List ToolCall} {i : Nat} {c : ToolCall} (h : groupAt ds i = some c) :
    mergeDeltas i [c] = c := by
  unfold groupAt at h
  cases hg : deltasOf (some i) ds with
  | nil => rw [hg] at h; cases h
  | cons d g =>
    rw [hg] at h
    cases h
    simp [mergeDeltas, firstNonEmpty_single]

/-- **idempotence.** An assembled list is its own assembly (a message that went through
    `ConcatMessages` once is not changed by a second pass; `Generate`'s whole message boxed into
    a one-chunk stream). -/
theorem assemble_idem (ds : List ToolCall) : assemble (assemble ds) = assemble ds := by
  apply assemble_ext
  · exact assemble_unindexed ds
  · intro i
    cases hg : groupAt ds i with
    | none =>
      rw [groupAt_eq_none_iff, assemble_indexed, hg]; rfl
    | some c =>
      have h1 : deltasOf (some i) (assemble ds) = [c] := by rw [assemble_indexed, hg]; rfl
      rw [groupAt_of_cons h1, mergeDeltas_single hg]

/-- **a canonical list is its own assembly**: tool calls that already have the form
    `ConcatMessages` produces (in particular the tool calls of one well-formed chunk, which a
    one-chunk stream hands on without `ConcatMessages`) are not changed by assembling them. -/
theorem assemble_canonical {cs : List ToolCall} (h : Canonical cs) : assemble cs = cs := by
  apply canonical_ext (assemble_sorted cs) h
  intro k
  cases k with
  | none => exact assemble_unindexed cs
  | some i =>
    rw [assemble_indexed]
    obtain ⟨us, ms, rfl, hus, hms⟩ := h
    have hp : deltasOf (some i) (us ++ ms) = deltasOf (some i) ms := by
      rw [deltasOf_append, deltasOf_some_unindexed hus]; rfl
    -- the projection of an ascending list is empty or a single call
    have hsingle : ∀ ms : List ToolCall, Ascending ms →
        deltasOf (some i) ms = [] ∨ ∃ m, deltasOf (some i) ms = [m] ∧ m.index = some i := by
      intro ms
      induction ms with
      | nil => intro _; exact .inl rfl
      | cons x t ih =>
        intro hasc
        by_cases hx : x.index = some i
        · exact .inr ⟨x, hasc.proj_head hx, hx⟩
        · rw [deltasOf_cons_ne _ _ _ hx]; exact ih hasc.tail
    rcases hsingle ms hms with h0 | ⟨m, hm, hmi⟩
    · rw [hp, h0, groupAt_eq_none_iff.mpr (by rw [hp, h0])]; rfl
    · rw [hp, hm, groupAt_of_cons (by rw [hp, hm])]
      cases m with
      | mk id name args index =>
        simp only at hmi
        subst hmi
        simp [mergeDeltas, firstNonEmpty_single]

theorem assemble_eq_nil_iff (ds : List ToolCall) : assemble ds = [] ↔ ds = [] := by
  constructor
  · intro h
    cases ds with
    | nil => rfl
    | cons d rest =>
      exfalso
      cases hi : d.index with
      | none =>
        have : d ∈ deltasOf none (assemble (d :: rest)) := by
          rw [assemble_unindexed]; exact mem_deltasOf.mpr ⟨by simp, hi⟩
        rw [h] at this
        cases this
      | some i =>
        have h1 : deltasOf (some i) (assemble (d :: rest)) = [] := by rw [h]; rfl
        rw [assemble_indexed] at h1
        have h2 : deltasOf (some i) (d :: rest) = d :: deltasOf (some i) rest :=
          deltasOf_cons_eq _ _ _ hi
        rw [groupAt_of_cons h2] at h1
        cases h1
  · intro h; subst h; rfl

/-! ## invariance under interleaving -/

/-- **assemble_congr.** Two delta streams in which every key (every index, and "no index") has the
    same deltas in the same order assemble to the same tool calls — however the deltas of
    different keys are interleaved. -/
theorem assemble_congr (ds ds' : List ToolCall) (h : ∀ k, deltasOf k ds = deltasOf k ds') :
    assemble ds = assemble ds' :=
  assemble_ext ds ds' (h none) (fun i => groupAt_congr (h (some i)))

/-- `Interleave a b l`: `l` is an interleaving of `a` and `b` (both keep their order) -/
inductive Interleave {α : Type} : List α → List α → List α → Prop
  | nil : Interleave [] [] []
  | left {a b l : List α} (x : α) : Interleave a b l → Interleave (x :: a) b (x :: l)
  | right {a b l : List α} (x : α) : Interleave a b l → Interleave a (x :: b) (x :: l)

theorem Interleave.nil_left {α : Type} {b l : List α} (h : Interleave [] b l) : l = b := by
  generalize ha : ([] : List α) = a at h
  induction h with
  | nil => rfl
  | left x _ _ => cases ha
  | right x _ ih => rw [ih ha]

theorem Interleave.nil_right {α : Type} {a l : List α} (h : Interleave a [] l) : l = a := by
  generalize hb : ([] : List α) = b at h
  induction h with
  | nil => rfl
  | left x _ ih => rw [ih hb]
  | right x _ _ => cases hb

theorem Interleave.filter {α : Type} (p : α → Bool) {a b l : List α} (h : Interleave a b l) :
    Interleave (a.filter p) (b.filter p) (l.filter p) := by
  induction h with
  | nil => exact .nil
  | left x _ ih =>
    by_cases hp : p x = true
    · simp only [List.filter_cons, hp, if_true]; exact .left x ih
    · simp only [List.filter_cons, hp]; exact ih
  | right x _ ih =>
    by_cases hp : p x = true
    · simp only [List.filter_cons, hp, if_true]; exact .right x ih
    · simp only [List.filter_cons, hp]; exact ih

theorem Interleave.mem {α : Type} {a b l : List α} (h : Interleave a b l) (x : α) :
    x ∈ l ↔ x ∈ a ∨ x ∈ b := by
  induction h with
  | nil => simp
  | left y _ ih =>
    simp only [List.mem_cons, ih]
    constructor
    · rintro (h | h | h)
      · exact .inl (.inl h)
      · exact .inl (.inr h)
      · exact .inr h
    · rintro ((h | h) | h)
      · exact .inl h
      · exact .inr (.inl h)
      · exact .inr (.inr h)
  | right y _ ih =>
    simp only [List.mem_cons, ih]
    constructor
    · rintro (h | h | h)
      · exact .inr (.inl h)
      · exact .inl h
      · exact .inr (.inr h)
    · rintro (h | h | h)
      · exact .inr (.inl h)
      · exact .inl h
      · exact .inr (.inr h)

/-- two delta lists share no key -/
def KeyDisjoint (a b : List ToolCall) : Prop := ∀ x ∈ a, ∀ y ∈ b, x.index ≠ y.index

/-- per key, an interleaving of two key-disjoint delta lists looks like their concatenation -/
theorem Interleave.proj {a b l : List ToolCall} (h : Interleave a b l) (hd : KeyDisjoint a b)
    (k : Option Nat) : deltasOf k l = deltasOf k (a ++ b) := by
  have hf := h.filter (fun d => decide (d.index = k))
  rw [deltasOf_append]
  by_cases ha : deltasOf k a = []
  · have : Interleave [] (deltasOf k b) (deltasOf k l) := by
      have := hf; unfold deltasOf at ha ⊢; rw [ha] at this; exact this
    rw [this.nil_left, ha]; rfl
  · have hb : deltasOf k b = [] := by
      rw [deltasOf_eq_nil_iff]
      intro y hy hyk
      rw [deltasOf_eq_nil_iff] at ha
      apply ha
      intro x hx hxk
      exact hd x hx y hy (hxk.trans hyk.symm)
    have : Interleave (deltasOf k a) [] (deltasOf k l) := by
      have := hf; unfold deltasOf at hb ⊢; rw [hb] at this; exact this
    rw [this.nil_right, hb]; simp

/-- **assemble_interleave.** Interleaving the deltas of two groups of calls (disjoint keys) in
    any way gives the same tool calls as streaming one group after the other. -/
theorem assemble_interleave {a b l : List ToolCall} (h : Interleave a b l) (hd : KeyDisjoint a b) :
    assemble l = assemble (a ++ b) :=
  assemble_congr _ _ (h.proj hd)

/-- `InterleaveAll gs l`: `l` is an interleaving of all the lists `gs` (each keeps its order) -/
inductive InterleaveAll {α : Type} : List (List α) → List α → Prop
  | nil : InterleaveAll [] []
  | cons {g m l : List α} {gs : List (List α)} :
      InterleaveAll gs m → Interleave g m l → InterleaveAll (g :: gs) l

theorem InterleaveAll.mem {α : Type} {gs : List (List α)} {l : List α} (h : InterleaveAll gs l)
    (x : α) : x ∈ l ↔ ∃ g ∈ gs, x ∈ g := by
  induction h with
  | nil => simp
  | cons _ hi ih =>
    rw [hi.mem, ih]
    simp

/-- per key, an interleaving of pairwise key-disjoint delta lists looks like their concatenation -/
theorem InterleaveAll.proj {gs : List (List ToolCall)} {l : List ToolCall}
    (h : InterleaveAll gs l) (hd : gs.Pairwise KeyDisjoint) (k : Option Nat) :
    deltasOf k l = deltasOf k gs.flatten := by
  induction h with
  | nil => rfl
  | @cons g m l gs hm hi ih =>
    rw [List.pairwise_cons] at hd
    have hgm : KeyDisjoint g m := by
      intro x hx y hy
      obtain ⟨g', hg', hyg⟩ := (hm.mem y).mp hy
      exact hd.1 g' hg' x hx y hyg
    rw [hi.proj hgm, List.flatten_cons, deltasOf_append, deltasOf_append, ih hd.2]

/-- **assemble_interleave_all.** However the delta lists of any number of parallel tool calls
    (pairwise disjoint keys — e.g. one list per `Index`) are interleaved in the stream, the
    assembled tool calls are those of the lists streamed one after the other. -/
theorem assemble_interleave_all {gs : List (List ToolCall)} {l : List ToolCall}
    (h : InterleaveAll gs l) (hd : gs.Pairwise KeyDisjoint) : assemble l = assemble gs.flatten :=
  assemble_congr _ _ (h.proj hd)

end EinoV.C18
