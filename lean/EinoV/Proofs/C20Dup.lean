/-
  C20 — lemmas for Model/C20Dup.lean: the edge lists only grow, the type-inference work list never
  touches them, an edge whose half is already there is refused and the error is kept, and a
  declaration list that names one pair twice with clashing kinds never compiles.
-/
import EinoV.Model.C20Dup
import EinoV.Proofs.C20
import EinoV.Proofs.C20Wf

namespace EinoV.Build

/-! ### what the work list leaves alone: the edge lists -/

/-- control and data edges -/
def Builder.edg (b : Builder) := (b.controlEdges, b.dataEdges)

theorem procEntries_edg (im : Impl) (s : Key) (sTy : Option Ty) (l : List PEdge) :
    ∀ (b : Builder) (kept : List PEdge) (ch : Bool) (r : Builder × List PEdge × Bool),
      procEntries im s sTy l b kept ch = .ok r → r.1.edg = b.edg := by
  induction l with
  | nil => intro b kept ch r h; simp [procEntries] at h; rw [← h]
  | cons pe rest ih =>
    intro b kept ch r h
    unfold procEntries at h
    split at h
    · exact ih _ _ _ _ h
    · rw [ih _ _ _ _ h]; rfl
    · rw [ih _ _ _ _ h]; rfl
    · split at h
      · rw [ih _ _ _ _ h]; rfl
      · split at h
        · simp at h
        · rw [ih _ _ _ _ h]; rfl
        · exact ih _ _ _ _ h

theorem updRound_edg (im : Impl) (ks : List Key) :
    ∀ (b : Builder) (ch : Bool) (r : Builder × Bool), updRound im ks b ch = .ok r → r.1.edg = b.edg := by
  induction ks with
  | nil => intro b ch r h; simp [updRound] at h; rw [← h]
  | cons s ks ih =>
    intro b ch r h
    unfold updRound at h
    split at h
    · simp at h
    · rename_i b' kept ch' hp
      rw [ih _ _ _ h]
      exact procEntries_edg im s _ _ b [] false _ hp

theorem updLoop_edg (im : Impl) (ord : Ord) (fuel : Nat) :
    ∀ (b b' : Builder), updLoop im ord fuel b = .ok b' → b'.edg = b.edg := by
  induction fuel with
  | zero => intro b b' h; simp [updLoop] at h; rw [← h]
  | succ n ih =>
    intro b b' h
    unfold updLoop at h
    split at h
    · simp at h
    · rename_i b1 ch hr
      have h1 := updRound_edg im _ b false _ hr
      split at h
      · rw [ih _ _ h]; exact h1
      · simp at h; rw [← h]; exact h1

theorem update_edg (im : Impl) (ord : Ord) (b b' : Builder) (h : update im ord b = .ok b') :
    b'.edg = b.edg := updLoop_edg im ord _ b b' h

theorem edg_ctl {b b' : Builder} (h : b'.edg = b.edg) : b'.controlEdges = b.controlEdges := by
  simp only [Builder.edg, Prod.mk.injEq] at h; exact h.1
theorem edg_data {b b' : Builder} (h : b'.edg = b.edg) : b'.dataEdges = b.dataEdges := by
  simp only [Builder.edg, Prod.mk.injEq] at h; exact h.2


/-! ### the Add* calls and the edge lists -/

theorem guarded_cases (g : Guards) (b : Builder) (body : Except ErrKind Builder) :
    (guarded g b body).1 = b ∨ (∃ b', body = .ok b' ∧ (guarded g b body).1 = b') ∨
    (∃ k, (guarded g b body).1 = { b with buildError := some k }) := by
  unfold guarded
  split
  · exact Or.inl rfl
  · split
    · exact Or.inl rfl
    · cases body with
      | ok b' => exact Or.inr (Or.inl ⟨b', rfl, rfl⟩)
      | error k =>
        simp only
        split
        · exact Or.inr (Or.inr ⟨k, rfl⟩)
        · exact Or.inl rfl

/-- an accepted edge adds exactly the halves it carries -/
theorem addEdgeBody_edges (im : Impl) (ord : Ord) (b b' : Builder) (s e : Key) (nc nd : Bool) (m : Option Nat)
    (h : addEdgeBody im ord b s e nc nd m = .ok b') :
    b'.controlEdges = (if nc then b.controlEdges else b.controlEdges ++ [(s, e)]) ∧
    b'.dataEdges = (if nd then b.dataEdges else b.dataEdges ++ [(s, e)]) := by
  unfold addEdgeBody at h
  split at h; · simp at h
  split at h; · simp at h
  split at h; · simp at h
  split at h; · simp at h
  simp only at h
  split at h
  · simp at h
  · rename_i b1 hr1
    have hb1 : b1.controlEdges = (if nc then b.controlEdges else b.controlEdges ++ [(s, e)]) ∧
        b1.dataEdges = b.dataEdges := by
      cases nc
      · simp only [Bool.false_eq_true, ↓reduceIte] at hr1
        split at hr1
        · simp at hr1
        · simp only [Except.ok.injEq] at hr1
          subst hr1
          exact ⟨by simp, rfl⟩
      · simp only [↓reduceIte, Except.ok.injEq] at hr1
        subst hr1
        exact ⟨by simp, rfl⟩
    split at h
    · rename_i hnd
      simp only [Except.ok.injEq] at h; subst h
      exact ⟨hb1.1, by simp [hnd, hb1.2]⟩
    · rename_i hnd
      split at h
      · simp at h
      · split at h
        · simp at h
        · rename_i b2 hu
          simp only [Except.ok.injEq] at h
          subst h
          have hx := update_edg im ord _ _ hu
          have h1 := edg_ctl hx
          have h2 := edg_data hx
          simp only [Builder.addToValidate] at h1 h2
          refine ⟨by show b2.controlEdges = _; rw [h1]; exact hb1.1, ?_⟩
          show b2.dataEdges ++ [(s, e)] = _
          rw [h2, hb1.2]; simp [hnd]

/-- an edge one of whose halves is already there is refused -/
theorem addEdgeBody_dup (im : Impl) (ord : Ord) (b : Builder) (s e : Key) (nc nd : Bool) (m : Option Nat)
    (h : (nc = false ∧ (s, e) ∈ b.controlEdges) ∨ (nd = false ∧ (s, e) ∈ b.dataEdges)) :
    ∃ k, addEdgeBody im ord b s e nc nd m = .error k := by
  cases hr : addEdgeBody im ord b s e nc nd m with
  | error k => exact ⟨k, rfl⟩
  | ok b' =>
    exfalso
    unfold addEdgeBody at hr
    split at hr; · simp at hr
    split at hr; · simp at hr
    split at hr; · simp at hr
    split at hr; · simp at hr
    simp only at hr
    rcases h with ⟨hnc, hm⟩ | ⟨hnd, hm⟩
    · simp [hnc, hm] at hr
    · cases nc
      · simp only [Bool.false_eq_true, ↓reduceIte] at hr
        split at hr
        · simp at hr
        · rename_i b1 hb1
          split at hb1
          · simp at hb1
          · simp only [Except.ok.injEq] at hb1
            subst hb1
            simp [hnd, hm] at hr
      · simp [hnd, hm] at hr

theorem branchEnds_edg (im : Impl) (ord : Ord) (s : Key) (ends : List Key) :
    ∀ (b b' : Builder), branchEnds im ord s ends b = .ok b' → b'.edg = b.edg := by
  induction ends with
  | nil => intro b b' h; simp [branchEnds] at h; rw [← h]
  | cons e es ih =>
    intro b b' h
    unfold branchEnds at h
    split at h
    · simp at h
    · split at h
      · simp at h
      · rename_i b1 hu
        have hx := update_edg im ord _ _ hu
        rw [ih _ _ h]
        simpa [Builder.edg, Builder.addToValidate] using hx

theorem addBranchBody_edg (f : Facts) (im : Impl) (ord : Ord) (b b' : Builder) (s : Key) (t : Ty)
    (ends : List Key) (sk : Bool) (h : addBranchBody f im ord b s t ends sk = .ok b') : b'.edg = b.edg := by
  unfold addBranchBody at h
  split at h; · simp at h
  split at h; · simp at h
  split at h; · simp at h
  simp only at h
  split at h; · simp at h
  have key : ∀ (b2 b3 : Builder), b2.edg = b.edg →
      ((if f.branchPropagates = true then update im ord b2 else .ok b2) = .ok b3) → b3.edg = b.edg := by
    intro b2 b3 h2 h3
    split at h3
    · rw [update_edg im ord _ _ h3]; exact h2
    · cases h3; exact h2
  split at h
  · simp at h
  · rename_i b3 h3
    have hb3 := key _ b3 (by split <;> rfl) h3
    split at h
    · simp at h
    · rename_i b4 h4
      cases h
      cases sk
      · simp only [Bool.false_eq_true, ↓reduceIte] at h4
        have hk := branchEnds_edg im ord s _ _ _ h4
        show b4.edg = b.edg
        rw [hk]; exact hb3
      · simp only [↓reduceIte, Except.ok.injEq] at h4
        subst h4
        exact hb3

/-- no Add* call removes an edge -/
theorem step_edges_mono (f : Facts) (im : Impl) (ord : Ord) (b : Builder) (op : Op) (hop : op.isCompile = false)
    (p : Key × Key) :
    (p ∈ b.controlEdges → p ∈ (step f im ord b op).1.controlEdges) ∧
    (p ∈ b.dataEdges → p ∈ (step f im ord b op).1.dataEdges) := by
  cases op with
  | compile o => simp [Op.isCompile] at hop
  | node n =>
    simp only [step, addNode]
    rcases guarded_cases f.nodeG b _ with h | ⟨b', hb, h⟩ | ⟨k, h⟩
    · rw [h]; exact ⟨id, id⟩
    · rw [h]; split at hb <;> simp at hb; rw [← hb]; exact ⟨id, id⟩
    · rw [h]; exact ⟨id, id⟩
  | branch s t ends sk =>
    simp only [step, addBranch]
    rcases guarded_cases f.branchG b (addBranchBody f im ord b s t ends sk) with h | ⟨b', hb, h⟩ | ⟨k, h⟩
    · rw [h]; exact ⟨id, id⟩
    · rw [h]
      have hx := addBranchBody_edg f im ord b b' s t ends sk hb
      rw [edg_ctl hx, edg_data hx]; exact ⟨id, id⟩
    · rw [h]; exact ⟨id, id⟩
  | edge s e nc nd m =>
    simp only [step, addEdge]
    split
    · exact ⟨id, id⟩
    · split
      · exact ⟨id, id⟩
      · split
        · exact ⟨id, id⟩
        · rcases guarded_cases { f.edgeG with checkErr := false, checkCompiled := false } b
            (addEdgeBody im ord b s e nc nd m) with h | ⟨b', hb, h⟩ | ⟨k, h⟩
          · rw [h]; exact ⟨id, id⟩
          · rw [h]
            have hx := addEdgeBody_edges im ord b b' s e nc nd m hb
            rw [hx.1, hx.2]
            constructor
            · intro hp; split
              · exact hp
              · exact List.mem_append_left _ hp
            · intro hp; split
              · exact hp
              · exact List.mem_append_left _ hp
          · rw [h]; exact ⟨id, id⟩


/-! ### a second declaration of a pair -/

/-- an accepted edge call leaves the halves it carries in the lists -/
theorem step_edge_adds (f : Facts) (hf : f.Guarded) (im : Impl) (ord : Ord) (b : Builder)
    (he : b.buildError = none) (hc : b.compiled = false) (s e : Key) (nc nd : Bool) (m : Option Nat)
    (hn : (nc && nd) = false)
    (hok : (step f im ord b (.edge s e nc nd m)).1.buildError = none) :
    (nc = false → (s, e) ∈ (step f im ord b (.edge s e nc nd m)).1.controlEdges) ∧
    (nd = false → (s, e) ∈ (step f im ord b (.edge s e nc nd m)).1.dataEdges) := by
  simp only [step, addEdge, hf.edge, Guards.all, he, hc, hn] at hok ⊢
  simp only [Bool.false_eq_true, ↓reduceIte, Bool.and_false] at hok ⊢
  cases hb : addEdgeBody im ord b s e nc nd m with
  | error k => simp [guarded, hb, hc] at hok
  | ok b' =>
    have hx := addEdgeBody_edges im ord b b' s e nc nd m hb
    simp only [guarded, hc, Bool.false_eq_true, ↓reduceIte, Bool.and_false]
    rw [hx.1, hx.2]
    exact ⟨fun h => by simp [h], fun h => by simp [h]⟩

/-- an edge call that repeats a half is refused and the error is kept -/
theorem step_edge_dup_err (f : Facts) (hf : f.Guarded) (im : Impl) (ord : Ord) (b : Builder)
    (he : b.buildError = none) (hc : b.compiled = false) (s e : Key) (nc nd : Bool) (m : Option Nat)
    (hn : (nc && nd) = false)
    (h : (nc = false ∧ (s, e) ∈ b.controlEdges) ∨ (nd = false ∧ (s, e) ∈ b.dataEdges)) :
    ∃ k, (step f im ord b (.edge s e nc nd m)).2.1 = .fresh k ∧
         (step f im ord b (.edge s e nc nd m)).1.buildError = some k := by
  rcases addEdgeBody_dup im ord b s e nc nd m h with ⟨k, hk⟩
  refine ⟨k, ?_, ?_⟩ <;>
  · simp only [step, addEdge, hf.edge, Guards.all, he, hc, hn, hk]
    simp [guarded, hc]

theorem runK_stored (E : Env) (hf : E.f.Guarded) (hc : E.inCtl = true) (b : Builder) (k : ErrKind)
    (h : b.buildError = some k) (ops : List Op) : runK E b ops = b := by
  induction ops with
  | nil => rfl
  | cons op ops ih => simp only [runK, stepK_stored E hf hc b k h op]; exact ih

/-- the pair's half is in the lists, or an error is stored -/
def HalfOrErr (b : Builder) (s e : Key) (ctl : Bool) : Prop :=
  b.buildError ≠ none ∨ (b.compiled = false ∧ (s, e) ∈ (if ctl then b.controlEdges else b.dataEdges))

theorem stepK_keeps_half (E : Env) (hf : E.f.Guarded) (hc : E.inCtl = true) (hv : E.ord.Valid) (b : Builder)
    (s e : Key) (ctl : Bool) (op : Op) (hop : op.isCompile = false) (h : HalfOrErr b s e ctl) :
    HalfOrErr (stepK E b op).1 s e ctl := by
  rcases h with h | ⟨hcmp, hm⟩
  · cases hb : b.buildError with
    | none => exact absurd hb h
    | some k => rw [stepK_stored E hf hc b k hb op]; exact Or.inl h
  · rw [stepK_true E hc]
    by_cases hb : (step E.f E.im E.ord b op).1.buildError = none
    · right
      have hfl := (step_keeps E.f E.im E.ord hv b op).2.2 hop
      have hcm : (step E.f E.im E.ord b op).1.compiled = b.compiled := congrArg Prod.fst hfl
      refine ⟨by rw [hcm]; exact hcmp, ?_⟩
      have := step_edges_mono E.f E.im E.ord b op hop (s, e)
      cases ctl
      · exact this.2 hm
      · exact this.1 hm
    · exact Or.inl hb

/-- once a half of the pair is recorded, a later edge call that carries the same half ends with a
    stored error, whatever is called in between -/
theorem runK_dup2 (E : Env) (hf : E.f.Guarded) (hc : E.inCtl = true) (hv : E.ord.Valid)
    (s e : Key) (nc nd : Bool) (m : Option Nat) (hn : (nc && nd) = false) (ctl : Bool)
    (hcar : if ctl then nc = false else nd = false) :
    ∀ (ops : List Op) (b : Builder), (∀ op ∈ ops, op.isCompile = false) → .edge s e nc nd m ∈ ops →
      HalfOrErr b s e ctl → (runK E b ops).buildError ≠ none := by
  intro ops
  induction ops with
  | nil => intro b _ hm; simp at hm
  | cons op ops ih =>
    intro b hops hm h
    have hop : op.isCompile = false := hops op (by simp)
    rcases List.mem_cons.mp hm with heq | hin
    · -- this is the call
      subst heq
      rcases h with h | ⟨hcmp, hmem⟩
      · cases hb : b.buildError with
        | none => exact absurd hb h
        | some k => rw [runK_stored E hf hc b k hb]; exact h
      · cases hb : b.buildError with
        | some k => rw [runK_stored E hf hc b k hb]; simp [hb]
        | none =>
          have hd : (nc = false ∧ (s, e) ∈ b.controlEdges) ∨ (nd = false ∧ (s, e) ∈ b.dataEdges) := by
            cases ctl
            · exact Or.inr ⟨hcar, hmem⟩
            · exact Or.inl ⟨hcar, hmem⟩
          rcases step_edge_dup_err E.f hf E.im E.ord b hb hcmp s e nc nd m hn hd with ⟨k, _, hk⟩
          simp only [runK, stepK_true E hc]
          rw [runK_stored E hf hc _ k hk]; simp [hk]
    · simp only [runK]
      exact ih _ (fun o ho => hops o (by simp [ho])) hin (stepK_keeps_half E hf hc hv b s e ctl op hop h)

/-- two edge calls on one pair that share a half, in this order, anywhere in a call list: the list
    ends with a stored error -/
theorem runK_dup (E : Env) (hf : E.f.Guarded) (hc : E.inCtl = true) (hv : E.ord.Valid)
    (s e : Key) (nc1 nd1 nc2 nd2 : Bool) (m1 m2 : Option Nat)
    (hn1 : (nc1 && nd1) = false) (hn2 : (nc2 && nd2) = false)
    (hsh : (nc1 = false ∧ nc2 = false) ∨ (nd1 = false ∧ nd2 = false)) :
    ∀ (ops : List Op) (b : Builder), (∀ op ∈ ops, op.isCompile = false) →
      List.Sublist [Op.edge s e nc1 nd1 m1, Op.edge s e nc2 nd2 m2] ops →
      b.buildError ≠ none ∨ b.compiled = false → (runK E b ops).buildError ≠ none := by
  intro ops
  induction ops with
  | nil => intro b _ hs; simp at hs
  | cons op ops ih =>
    intro b hops hs hb
    have hop : op.isCompile = false := hops op (by simp)
    have hrest : ∀ o ∈ ops, o.isCompile = false := fun o ho => hops o (by simp [ho])
    cases hbe : b.buildError with
    | some k => rw [runK_stored E hf hc b k hbe]; simp [hbe]
    | none =>
      have hcmp : b.compiled = false := by
        rcases hb with hb | hb
        · exact absurd hbe hb
        · exact hb
      rcases List.sublist_cons_iff.mp hs with hs1 | ⟨r, hr, hs2⟩
      · -- both calls come later
        simp only [runK]
        refine ih _ hrest hs1 ?_
        rw [stepK_true E hc]
        by_cases hb' : (step E.f E.im E.ord b op).1.buildError = none
        · right
          have hfl := (step_keeps E.f E.im E.ord hv b op).2.2 hop
          have hcm : (step E.f E.im E.ord b op).1.compiled = b.compiled := congrArg Prod.fst hfl
          rw [hcm]; exact hcmp
        · exact Or.inl hb'
      · -- this is the first of the two
        simp only [List.cons.injEq] at hr
        obtain ⟨hop1, hr⟩ := hr
        subst hr
        subst hop1
        have hin : Op.edge s e nc2 nd2 m2 ∈ ops := List.singleton_sublist.mp hs2
        simp only [runK]
        rcases hsh with ⟨h1, h2⟩ | ⟨h1, h2⟩
        · refine runK_dup2 E hf hc hv s e nc2 nd2 m2 hn2 true h2 ops _ hrest hin ?_
          rw [stepK_true E hc]
          by_cases hb' : (step E.f E.im E.ord b (.edge s e nc1 nd1 m1)).1.buildError = none
          · right
            have hfl := (step_keeps E.f E.im E.ord hv b (.edge s e nc1 nd1 m1)).2.2 hop
            have hcm : (step E.f E.im E.ord b (.edge s e nc1 nd1 m1)).1.compiled = b.compiled := congrArg Prod.fst hfl
            exact ⟨by rw [hcm]; exact hcmp, (step_edge_adds E.f hf E.im E.ord b hbe hcmp s e nc1 nd1 m1 hn1 hb').1 h1⟩
          · exact Or.inl hb'
        · refine runK_dup2 E hf hc hv s e nc2 nd2 m2 hn2 false h2 ops _ hrest hin ?_
          rw [stepK_true E hc]
          by_cases hb' : (step E.f E.im E.ord b (.edge s e nc1 nd1 m1)).1.buildError = none
          · right
            have hfl := (step_keeps E.f E.im E.ord hv b (.edge s e nc1 nd1 m1)).2.2 hop
            have hcm : (step E.f E.im E.ord b (.edge s e nc1 nd1 m1)).1.compiled = b.compiled := congrArg Prod.fst hfl
            exact ⟨by rw [hcm]; exact hcmp, (step_edge_adds E.f hf E.im E.ord b hbe hcmp s e nc1 nd1 m1 hn1 hb').2 h1⟩
          · exact Or.inl hb'


/-! ### declared graphs -/

theorem compileN_stored (f : Facts) (ord : Ord) (b : Builder) (o : COpts) (kids : List Outcome) (k : ErrKind)
    (h : b.buildError = some k) : compileN f ord b o kids = (b, .stored k, none) := by
  simp [compileN, h]

/-- a declared graph whose recorded calls name one pair twice with a shared half never compiles -/
theorem compilesFrom_dup (E : Env) (hf : E.f.Guarded) (hc : E.inCtl = true) (hv : E.ord.Valid)
    (re : List Op) (guard : Option Outcome) (kids : List Outcome)
    (hg : ∀ oc, guard = some oc → oc.isOk = false) (hre : ∀ op ∈ re, op.isCompile = false)
    (s e : Key) (nc1 nd1 nc2 nd2 : Bool) (m1 m2 : Option Nat)
    (hn1 : (nc1 && nd1) = false) (hn2 : (nc2 && nd2) = false)
    (hsh : (nc1 = false ∧ nc2 = false) ∨ (nd1 = false ∧ nd2 = false)) (cos : List COpts) :
    ∀ (b : Builder) (pending : List Op), (∀ op ∈ pending, op.isCompile = false) →
      (b.buildError ≠ none ∨
        (b.compiled = false ∧ List.Sublist [Op.edge s e nc1 nd1 m1, Op.edge s e nc2 nd2 m2] pending)) →
      ∀ r ∈ compilesFrom E re guard kids b pending cos, r.1.isOk = false := by
  induction cos with
  | nil => intro b p _ _ r hr; simp [compilesFrom] at hr
  | cons co rest ih =>
    intro b pending hp hinv r hr
    simp only [compilesFrom, List.mem_cons] at hr
    cases hbe : b.buildError with
    | some k =>
      have ha : attempt E b (re ++ pending) guard co kids = (b, .stored k) := by simp [attempt, hbe]
      rcases hr with rfl | hr
      · rw [ha]; rfl
      · rw [ha] at hr
        exact ih b _ (by intro op hop; split at hop; · simp at hop
                         · exact hp op hop) (Or.inl (by simp [hbe])) r hr
    | none =>
      have hinv' : b.compiled = false ∧ List.Sublist [Op.edge s e nc1 nd1 m1, Op.edge s e nc2 nd2 m2] pending := by
        rcases hinv with h | h
        · exact absurd hbe h
        · exact h
      cases hgd : guard with
      | some oc =>
        have ha : attempt E b (re ++ pending) guard co kids = (b, oc) := by simp [attempt, hbe, hgd]
        rcases hr with rfl | hr
        · rw [ha]; exact hg oc hgd
        · rw [ha] at hr
          refine ih b _ ?_ (Or.inr ?_) r hr
          · intro op hop; simp only [hgd, Option.isNone_some, Bool.and_false] at hop; exact hp op hop
          · simp only [hgd, Option.isNone_some, Bool.and_false]; exact hinv'
      | none =>
        have hcalls : ∀ op ∈ re ++ pending, op.isCompile = false := by
          intro op hop; rcases List.mem_append.mp hop with h | h
          · exact hre op h
          · exact hp op h
        have herr := runK_dup E hf hc hv s e nc1 nd1 nc2 nd2 m1 m2 hn1 hn2 hsh (re ++ pending) b hcalls
          (List.Sublist.trans hinv'.2 (List.sublist_append_right re pending)) (Or.inr hinv'.1)
        cases hk : (runK E b (re ++ pending)).buildError with
        | none => exact absurd hk herr
        | some k =>
          have ha : attempt E b (re ++ pending) guard co kids = (runK E b (re ++ pending), .stored k) := by
            simp [attempt, hbe, hgd, compileN_stored _ _ _ _ _ k hk]
          rcases hr with rfl | hr
          · rw [ha]; rfl
          · rw [ha] at hr
            exact ih _ _ (by intro op hop; split at hop; · simp at hop
                             · exact hp op hop) (Or.inl (by simp [hk])) r hr

theorem sublist_flatMap_of_mem {α β : Type} (f : α → List β) (l : List α) (a : α) (h : a ∈ l) :
    List.Sublist (f a) (l.flatMap f) := by
  induction l with
  | nil => simp at h
  | cons x xs ih =>
    simp only [List.flatMap_cons]
    rcases List.mem_cons.mp h with rfl | h
    · exact List.sublist_append_left _ _
    · exact List.Sublist.trans (ih h) (List.sublist_append_right _ _)

theorem WfIn.op_noBoth (dst : Key) (i : WfIn) :
    ∃ m, i.op dst = .edge i.src dst (i.kind == .indirect) (i.kind == .dep) m ∧
      ((i.kind == .indirect) && (i.kind == .dep)) = false := by
  refine ⟨_, rfl, ?_⟩
  cases i.kind <;> rfl

theorem clash_shares (a b : InKind) (h : a.clash b = true) :
    ((a == .indirect) = false ∧ (b == .indirect) = false) ∨ ((a == .dep) = false ∧ (b == .dep) = false) := by
  cases a <;> cases b <;> simp_all [InKind.clash, InKind.ctl, InKind.data]

/-- **one pair, two declarations that share a half**, anywhere among the declarations of a node
    (or of END), in this order: no Compile of the Workflow succeeds -/
theorem wf_dup_rejected (E : Env) (hf : E.f.Guarded) (hc : E.inCtl = true) (hv : E.ord.Valid)
    (chk : Bool) (d : WfDecl) (dst : Key) (ins : List WfIn)
    (hwhere : (∃ n ∈ d.nodes, n.key = dst ∧ n.ins = ins) ∨ (dst = END ∧ d.endIns = ins))
    (i1 i2 : WfIn) (hsub : List.Sublist [i1, i2] ins) (hsrc : i1.src = i2.src)
    (hcl : i1.kind.clash i2.kind = true) (cos : List COpts) :
    ∀ oc ∈ (d.lower chk).compiles E cos, oc.isOk = false := by
  intro oc hoc
  simp only [Decl.compiles, WfDecl.lower, Decl.compilesX, List.mem_map] at hoc
  rcases hoc with ⟨r, hr, rfl⟩
  have hb := (build_keeps E hc hv (wfNodeOps d.nodes)
    (Builder.new .workflow d.inT d.outT d.stateTy)).2.2 (wfNodeOps_all _ (fun _ => rfl) d.nodes)
  have hcmp : (DOps.build E (wfNodeOps d.nodes) (Builder.new .workflow d.inT d.outT d.stateTy)).1.compiled = false := by
    have := congrArg Prod.fst hb; simp only at this; rw [this]; rfl
  -- the two calls, in this order, among the recorded inputs
  have hops : List.Sublist [i1.op dst, i2.op dst] d.inputOps := by
    have h1 : List.Sublist ([i1, i2].map (WfIn.op dst)) (ins.map (WfIn.op dst)) := hsub.map _
    refine List.Sublist.trans h1 ?_
    unfold WfDecl.inputOps
    rcases hwhere with ⟨n, hn, hk, hi⟩ | ⟨hk, hi⟩
    · subst hk; subst hi
      exact List.Sublist.trans (sublist_flatMap_of_mem (fun n => n.ins.map (WfIn.op n.key)) d.nodes n hn)
        (List.sublist_append_left _ _)
    · subst hk; subst hi
      exact List.sublist_append_right _ _
  obtain ⟨m1, ho1, hn1⟩ := WfIn.op_noBoth dst i1
  obtain ⟨m2, ho2, hn2⟩ := WfIn.op_noBoth dst i2
  rw [ho1, ho2, ← hsrc] at hops
  exact compilesFrom_dup E hf hc hv _ _ _ (wf_guard_not_ok chk d)
    (fun op hop => wf_calls_noCompile d op (List.mem_append_left _ hop))
    i1.src dst _ _ _ _ m1 m2 hn1 hn2 (clash_shares _ _ hcl) cos _ _
    (fun op hop => wf_calls_noCompile d op (List.mem_append_right _ hop))
    (Or.inr ⟨hcmp, hops⟩) r hr

end EinoV.Build
