/-
  gotrans phase 6 — `extractOption` (compose/utils.go, translated on every run into Gen/TransC16.lean, with
  `Option.deepCopy` and `NewNodePath`) computes the model's `extract` (Model/C16.lean), for the fact values
  `Expected.C16.facts`, and never leaves the translated semantics.
-/
import EinoV.Gen.TransC16
import EinoV.Model.C16
import EinoV.Expected.C16
import EinoV.Proofs.GoLoop
import EinoV.Proofs.Assoc
namespace EinoV.TransC16
open EinoV.GoSem EinoV.Gen.TransC16 EinoV.C16
open EinoV.Engine (alookup aset akeys)
variable {V : Type} [Inhabited V]
set_option linter.unusedSectionVars false
set_option linter.unusedSimpArgs false
set_option linter.unusedVariables false

/-- two lists related element by element (this file imports no other translated unit: `./check C16`
    regenerates everything it depends on) -/
inductive ListRel {α β : Type} (R : α → β → Prop) : List α → List β → Prop
  | nil : ListRel R [] []
  | cons {a b as bs} : R a b → ListRel R as bs → ListRel R (a :: as) (b :: bs)

theorem goInRange_append {α} (pre : List α) (x : α) (rest : List α) :
    goInRange (pre ++ x :: rest) (pre.length : Int) = true := by
  simp [goInRange]; omega

theorem goSetIdx_append {α} (pre : List α) (x y : α) (rest : List α) :
    goSetIdx (pre ++ x :: rest) (pre.length : Int) y = pre ++ y :: rest := by
  simp [goSetIdx]

/-! ### `Option.deepCopy`: a copy with equal contents -/

theorem goCopy_make' {α : Type} (d : α) (src : List α) : goCopy (goMake (src.length : Int) d) src = src := by
  simp [goCopy, goMake]

theorem set_loop {α R : Type} (p : R) (suffix : List α) :
    ∀ (pre suffix' : List α) (k : Int), k = pre.length → suffix'.length = suffix.length →
    goLoop (fun (x : Int × α) (s : Option R × List α) =>
        if (!goInRange s.snd x.fst) = true then ForInStep.done (some p, s.snd)
        else ForInStep.yield (none, goSetIdx s.snd x.fst x.snd))
      (goEnumFrom k suffix) (none, pre ++ suffix') = (none, pre ++ suffix) := by
  induction suffix with
  | nil => intro pre s' k _ hl; cases s' <;> simp_all [goEnumFrom, goLoop]
  | cons a l ih =>
    intro pre s' k hk hl
    cases s' with
    | nil => simp at hl
    | cons b l' =>
      subst hk
      simp only [goEnumFrom, goLoop, goInRange_append, goSetIdx_append, Bool.not_true,
        Bool.false_eq_true, if_false]
      have := ih (pre ++ [a]) l' ((pre.length : Int) + 1) (by simp) (by simpa using hl)
      simp only [List.append_assoc, List.singleton_append] at this
      exact this

/-- **`deepCopy` returns an Option with the same contents** (slices are values: the copy is equal) -/
theorem deepCopy_spec (ext : Ext V) (cext : C16Ext V) (o : GoOption V) :
    Option_deepCopy ext cext o = .ret o := by
  unfold Option_deepCopy
  have h1 : ¬ ((o.options.length : Int) < 0) := by omega
  have h2 : ¬ ((o.handler.length : Int) < 0) := by omega
  have h3 : ¬ ((o.paths.length : Int) < 0) := by omega
  simp only [forIn_id, Id.run, bind, pure, h1, h2, h3, decide_false, Bool.false_eq_true, if_false, goCopy_make']
  have := set_loop (R := GoOutcome (GoOption V)) GoOutcome.panic o.paths [] (goMake (o.paths.length : Int) default) 0 rfl
    (by simp [goMake])
  simp only [List.nil_append] at this
  unfold goEnum
  rw [this]

theorem newNodePath_spec (ext : Ext V) (cext : C16Ext V) (p : List String) :
    NewNodePath ext cext p = ({ path := p } : NodePath V) := rfl

/-! ### relations -/

def errFmt : Err → String
  | .emptyPath => "call option has designated an empty path"
  | .unknownNode => "option has designated an unknown node: %s"
  | .wrongType => "option type[%s] is different from which the designated node[%s] expects[%s]"
  | .subPathOfComponent => "cannot designate sub path of a component, path:%s"

abbrev Res (V : Type) := GoOutcome (GoMap (List V) × Option GoErr)
abbrev St (V : Type) := Option (Res V) × GoMap (List V)

/-- what the translated function returns when the model fails with `e` -/
def ERR (e : Err) : Res V := GoOutcome.ret ([], some (GoErr.mk (errFmt e)))

/-- a node of the model as the `*chanCall` `extractOption` reads: `optionType` (nil for a graph and for a
    passthrough) and `isPassthrough` -/
def ccOf : Node → chanCall V
  | .comp _ ty => { action := { optionType := some ty, isPassthrough := false } }
  | .pass _ => { action := { optionType := none, isPassthrough := true } }
  | .graph _ _ => { action := { optionType := none, isPassthrough := false } }

/-- the Go map `nodes` in its stored order is the model's node list -/
def NodesRel (gn : GoMap (chanCall V)) (ns : Nodes) : Prop := gn = ns.toList.map (fun n => (n.key, ccOf n))

def mkPath (p : Path) : NodePath V := { path := p }

section rel
variable (cext : C16Ext V) (vOf hOf : Nat → V)

/-- a Go `Option` and the model's `Opt`: the values, handlers and paths; the type of the Option is the
    `reflect.TypeOf` of its first value -/
structure OptRel (g : GoOption V) (o : Opt) : Prop where
  options : g.options = o.vals.map vOf
  handler : g.handler = o.handlers.map hOf
  paths : g.paths = o.paths.map mkPath
  ty : ∀ v rest, o.vals = v :: rest → cext.typeOf (vOf v) = some o.ty

/-- an element of `optMap[k]` and the model's item -/
def ItemRel (v : V) : Item → Prop
  | .val n => v = vOf n
  | .opt o => ∃ g, v = cext.anyOfOption g ∧ OptRel cext vOf hOf g o

/-- `optMap` against the model's log of appends: for every key, the list under the key is the sub-sequence of
    the log with that key -/
def MapRel (m : GoMap (List V)) (log : Log) : Prop :=
  ∀ k, ListRel (ItemRel cext vOf hOf) (m.getD' k []) (itemsFor log k)

end rel

theorem ListRel.append {α β : Type} {R : α → β → Prop} {l1 l2 : List α} {m1 m2 : List β}
    (h1 : ListRel R l1 m1) (h2 : ListRel R l2 m2) : ListRel R (l1 ++ l2) (m1 ++ m2) := by
  induction h1 with
  | nil => exact h2
  | cons h _ ih => exact ListRel.cons h ih

theorem itemsFor_append (l1 l2 : Log) (k : Key) : itemsFor (l1 ++ l2) k = itemsFor l1 k ++ itemsFor l2 k := by
  simp [itemsFor, List.filterMap_append]

theorem getD'_set_same {α} (m : GoMap α) (k : String) (v z : α) : (m.set k v).getD' k z = v := by
  simp [GoMap.getD', GoMap.set, EinoV.Engine.alookup_aset_same]

theorem getD'_set_other {α} (m : GoMap α) (k k' : String) (v z : α) (h : k' ≠ k) :
    (m.set k v).getD' k' z = m.getD' k' z := by
  simp [GoMap.getD', GoMap.set, EinoV.Engine.alookup_aset_other k k' v m h]

/-- the one step all branches share: `optMap[k] = append(optMap[k], xs...)` against appending entries under `k` -/
theorem MapRel.append (cext : C16Ext V) (vOf hOf : Nat → V) {m : GoMap (List V)} {log : Log}
    (h : MapRel cext vOf hOf m log) (k : Key) (xs : List V) (its : List Item)
    (hx : ListRel (ItemRel cext vOf hOf) xs its) :
    MapRel cext vOf hOf (m.set k (m.getD' k [] ++ xs)) (log ++ its.map (fun i => (k, i))) := by
  intro k'
  rw [itemsFor_append]
  by_cases hk : k' = k
  · subst hk
    rw [getD'_set_same]
    have : itemsFor (its.map (fun i => (k', i))) k' = its := by
      simp [itemsFor, List.filterMap_map, Function.comp_def]
    rw [this]
    exact ListRel.append (h k') hx
  · rw [getD'_set_other _ _ _ _ _ hk]
    have : itemsFor (its.map (fun i => (k, i))) k' = [] := by
      simp [itemsFor, List.filterMap_map, Function.comp_def, Ne.symm hk]
    rw [this, List.append_nil]
    exact h k'

/-! ### loops with an early error return against `mapE` -/

/-- a translated loop whose body, on related elements and a related map, either appends what the model's
    iteration appends or returns the model's error: the loop is the model's `mapE` -/
theorem relE_loop (cext : C16Ext V) (vOf hOf : Nat → V) {α β : Type} (R : α → β → Prop) (ents : β → Except Err Log)
    (body : α → St V → ForInStep (St V))
    (h : ∀ a b, R a b → ∀ m log, MapRel cext vOf hOf m log →
      match ents b with
      | .ok es => ∃ m', body a (none, m) = ForInStep.yield (none, m') ∧ MapRel cext vOf hOf m' (log ++ es)
      | .error e => ∃ m', body a (none, m) = ForInStep.done (some (ERR e), m')) :
    ∀ (la : List α) (lb : List β), ListRel R la lb → ∀ m log, MapRel cext vOf hOf m log →
      match mapE ents lb with
      | .ok ess => ∃ m', goLoop body la (none, m) = (none, m') ∧ MapRel cext vOf hOf m' (log ++ ess.flatten)
      | .error e => ∃ m', goLoop body la (none, m) = (some (ERR e), m') := by
  intro la lb hr
  induction hr with
  | nil => intro m log hm; simpa [mapE, goLoop] using hm
  | @cons a b as bs hab _ ih =>
    intro m log hm
    have h1 := h a b hab m log hm
    simp only [mapE, goLoop]
    cases hb : ents b with
    | error e =>
      rw [hb] at h1
      obtain ⟨m', e1⟩ := h1
      exact ⟨m', by rw [e1]⟩
    | ok es =>
      rw [hb] at h1
      obtain ⟨m', e1, r1⟩ := h1
      have h2 := ih m' (log ++ es) r1
      rw [e1]
      cases hm2 : mapE ents bs with
      | error e => rw [hm2] at h2; exact h2
      | ok ess =>
        rw [hm2] at h2
        obtain ⟨m'', e2, r2⟩ := h2
        exact ⟨m'', e2, by simpa [List.append_assoc] using r2⟩

theorem listRel_map {α β : Type} (f : β → α) (l : List β) : ListRel (fun a b => a = f b) (l.map f) l := by
  induction l with
  | nil => exact ListRel.nil
  | cons x l ih => exact ListRel.cons rfl ih

theorem mapE_ok {α β ε : Type} (f : α → β) (l : List α) :
    mapE (ε := ε) (fun a => Except.ok (f a)) l = .ok (l.map f) := by
  induction l with
  | nil => rfl
  | cons a l ih => simp [mapE, ih]

/-! ### the map `nodes` -/

theorem nodes_lookup (ns : Nodes) (k : Key) :
    alookup k (ns.toList.map (fun n => (n.key, (ccOf n : chanCall V)))) = (ns.find k).map ccOf := by
  unfold Nodes.find
  induction ns.toList with
  | nil => rfl
  | cons n l ih =>
    simp only [List.map_cons, alookup, List.find?_cons]
    by_cases h : (n.key == k) = true <;> simp [h, ih]

theorem nodes_has (gn : GoMap (chanCall V)) (ns : Nodes) (h : NodesRel gn ns) (k : Key) :
    gn.has k = (ns.find k).isSome := by
  rw [h]; simp [GoMap.has, nodes_lookup]

theorem nodes_get (gn : GoMap (chanCall V)) (ns : Nodes) (h : NodesRel gn ns) (k : Key) (n : Node)
    (hf : ns.find k = some n) : gn.getD' k default = ccOf n := by
  rw [h]; simp [GoMap.getD', nodes_lookup, hf]

/-! ### `extractOption` refines `extract` -/

theorem len_zero {α} (l : List α) : (((l.length : Nat) : Int) == 0) = l.isEmpty := by
  cases l with
  | nil => rfl
  | cons a l => simp; omega

theorem len_one {α} (a : α) (l : List α) : ((((a :: l).length : Nat) : Int) == 1) = l.isEmpty := by
  cases l with
  | nil => rfl
  | cons b l => simp; omega

theorem listRel_vals (cext : C16Ext V) (vOf hOf : Nat → V) (vals : List Nat) :
    ListRel (ItemRel cext vOf hOf) (vals.map vOf) (vals.map Item.val) := by
  induction vals with
  | nil => exact ListRel.nil
  | cons v vs ih => exact ListRel.cons rfl ih

abbrev F := EinoV.Expected.C16.facts

/-- the body of `for name, c := range nodes` as it is generated -/
def undStep (cext : C16Ext V) (g : GoOption V) (x : String × chanCall V) (__s : St V) : ForInStep (St V) :=
  if (x.snd.action.optionType == none) = true then
    ForInStep.yield (none, __s.snd.set x.fst (__s.snd.getD' x.fst [] ++ [cext.anyOfOption g]))
  else
    match goIdx? g.options 0 with
    | some __x1 =>
      if (cext.typeOf __x1 == x.snd.action.optionType) = true then
        ForInStep.yield (none, __s.snd.set x.fst (__s.snd.getD' x.fst [] ++ g.options))
      else ForInStep.yield (none, __s.snd)
    | _ => ForInStep.done (some GoOutcome.panic, __s.snd)

theorem und_body (cext : C16Ext V) (vOf hOf : Nat → V) (g : GoOption V) (o : Opt)
    (hr : OptRel cext vOf hOf g o) (hv : o.vals ≠ [])
    (ub : String × chanCall V → St V → ForInStep (St V)) (hu : undStep cext g = ub) :
    ∀ (a : String × chanCall V) (n : Node), a = (n.key, ccOf n) → ∀ m log, MapRel cext vOf hOf m log →
      match (Except.ok (undesignatedFor F o n) : Except Err Log) with
      | .ok es => ∃ m', ub a (none, m) = ForInStep.yield (none, m') ∧ MapRel cext vOf hOf m' (log ++ es)
      | .error e => ∃ m', ub a (none, m) = ForInStep.done (some (ERR e), m') := by
  intro a n ha m log hm
  subst ha
  rw [← hu]
  unfold undStep
  obtain ⟨v0, rest, hvs⟩ : ∃ v0 rest, o.vals = v0 :: rest := by
    cases h : o.vals with
    | nil => exact absurd h hv
    | cons a l => exact ⟨a, l, rfl⟩
  have hidx : goIdx? g.options 0 = some (vOf v0) := by rw [hr.options, hvs]; rfl
  have hty := hr.ty v0 rest hvs
  cases n with
  | comp k ty =>
    simp only [ccOf, Node.key, hidx, hty, undesignatedFor]
    by_cases ht : ty = o.ty
    · subst ht
      have := hm.append cext vOf hOf k g.options (o.vals.map Item.val) (by rw [hr.options]; exact listRel_vals cext vOf hOf o.vals)
      simp only [List.map_map, Function.comp_def] at this
      refine ⟨m.set k (m.getD' k [] ++ g.options), by simp, ?_⟩
      simpa [F, EinoV.Expected.C16.facts, tyMatch] using this
    · have hne : ¬ o.ty = ty := fun e => ht e.symm
      refine ⟨m, by simp [hne], ?_⟩
      simpa [F, EinoV.Expected.C16.facts, tyMatch, ht] using hm
  | pass k =>
    simp only [ccOf, Node.key, undesignatedFor]
    have := hm.append cext vOf hOf k [cext.anyOfOption g] [Item.opt o] (ListRel.cons ⟨g, rfl, hr⟩ ListRel.nil)
    exact ⟨m.set k (m.getD' k [] ++ [cext.anyOfOption g]), by simp, by simpa using this⟩
  | graph k ch =>
    simp only [ccOf, Node.key, undesignatedFor]
    have := hm.append cext vOf hOf k [cext.anyOfOption g] [Item.opt o] (ListRel.cons ⟨g, rfl, hr⟩ ListRel.nil)
    exact ⟨m.set k (m.getD' k [] ++ [cext.anyOfOption g]), by simp, by simpa using this⟩

/-- the body of `for _, path := range opt.paths` as it is generated -/
def pathStep (ext : Ext V) (cext : C16Ext V) (nodes : GoMap (chanCall V)) (opt : GoOption V)
    (path : NodePath V) (__s : St V) : ForInStep (St V) :=
  if (((path.path.length : Nat) : Int) == 0) = true then
    ForInStep.done (some (GoOutcome.ret ([], some (GoErr.mk "call option has designated an empty path"))), __s.snd)
  else
    match goIdx? path.path 0 with
    | some __x2 =>
      if (!nodes.has __x2) = true then
        ForInStep.done (some (GoOutcome.ret ([], some (GoErr.mk "option has designated an unknown node: %s"))), __s.snd)
      else
        match goIdx? path.path 0 with
        | some __x3 =>
          if (((path.path.length : Nat) : Int) == 1) = true then
            if (((opt.options.length : Nat) : Int) == 0) = true then ForInStep.yield (none, __s.snd)
            else
              if ((nodes.getD' __x2 default).action.optionType == none) = true then
                match Option_deepCopy ext cext opt with
                | GoOutcome.ret __t =>
                  ForInStep.yield (none, __s.snd.set __x3 (__s.snd.getD' __x3 [] ++
                    [cext.anyOfOption { options := __t.options, handler := __t.handler, paths := [],
                                        maxRunSteps := __t.maxRunSteps }]))
                | _ => ForInStep.done (some (Option_deepCopy ext cext opt).failAs, __s.snd)
              else
                match goIdx? opt.options 0 with
                | some __x4 =>
                  if ((nodes.getD' __x2 default).action.optionType != cext.typeOf __x4) = true then
                    ForInStep.done (some (GoOutcome.ret ([], some (GoErr.mk
                      "option type[%s] is different from which the designated node[%s] expects[%s]"))), __s.snd)
                  else ForInStep.yield (none, __s.snd.set __x3 (__s.snd.getD' __x3 [] ++ opt.options))
                | _ => ForInStep.done (some GoOutcome.panic, __s.snd)
          else
            if ((nodes.getD' __x2 default).action.optionType != none ||
                (nodes.getD' __x2 default).action.isPassthrough) = true then
              ForInStep.done (some (GoOutcome.ret ([], some (GoErr.mk
                "cannot designate sub path of a component, path:%s"))), __s.snd)
            else
              match Option_deepCopy ext cext opt with
              | GoOutcome.ret __t =>
                match goSlice? path.path 1 ((path.path.length : Nat) : Int) with
                | some __s5 =>
                  ForInStep.yield (none, __s.snd.set __x3 (__s.snd.getD' __x3 [] ++
                    [cext.anyOfOption { options := __t.options, handler := __t.handler,
                                        paths := [NewNodePath ext cext __s5], maxRunSteps := __t.maxRunSteps }]))
                | _ => ForInStep.done (some GoOutcome.panic, __s.snd)
              | _ => ForInStep.done (some (Option_deepCopy ext cext opt).failAs, __s.snd)
        | _ => ForInStep.done (some GoOutcome.panic, __s.snd)
    | _ => ForInStep.done (some GoOutcome.panic, __s.snd)

theorem goSlice_tail {α} (a : α) (l : List α) : goSlice? (a :: l) 1 (((a :: l).length : Nat) : Int) = some l := by
  unfold goSlice?
  have : (0:Int) ≤ 1 ∧ (1:Int) ≤ (((a :: l).length : Nat) : Int) ∧ (((a :: l).length : Nat) : Int) ≤ (((a :: l).length : Nat) : Int) := by
    simp; omega
  simp only [this, and_self, if_true]
  simp

theorem tyMatch_F (a b : Nat) : tyMatch F a b = (a == b) := by
  simp [tyMatch, F, EinoV.Expected.C16.facts]

theorem some_bne (a b : Nat) : ((some a : GoType) != some b) = !(a == b) := by
  by_cases h : a = b <;> simp [h, bne]

theorem path_body (ext : Ext V) (cext : C16Ext V) (vOf hOf : Nat → V) (gn : GoMap (chanCall V)) (ns : Nodes)
    (hn : NodesRel gn ns) (g : GoOption V) (o : Opt) (hr : OptRel cext vOf hOf g o)
    (pb : NodePath V → St V → ForInStep (St V)) (hp : pathStep ext cext gn g = pb) :
    ∀ (a : NodePath V) (p : Path), a = mkPath p → ∀ m log, MapRel cext vOf hOf m log →
      match pathEntry F ns o p with
      | .ok es => ∃ m', pb a (none, m) = ForInStep.yield (none, m') ∧ MapRel cext vOf hOf m' (log ++ es)
      | .error e => ∃ m', pb a (none, m) = ForInStep.done (some (ERR e), m') := by
  intro a p ha m log hm
  subst ha
  rw [← hp]
  unfold pathStep
  have hF1 : F.typeCmpIdentity = true := rfl
  have hF3 : F.passSubPathIsError = true := rfl
  have hF4 : F.strip = 1 := rfl
  cases p with
  | nil => exact ⟨m, rfl⟩
  | cons k rest =>
    have hl0 : ((((k :: rest).length : Nat) : Int) == 0) = false := by simp; omega
    have hidx : goIdx? (k :: rest) 0 = some k := rfl
    simp only [mkPath, hl0, Bool.false_eq_true, if_false, hidx, pathEntry, nodes_has gn ns hn k]
    cases hf : ns.find k with
    | none => exact ⟨m, rfl⟩
    | some n =>
      have hget := nodes_get gn ns hn k n hf
      simp only [Option.isSome_some, Bool.not_true, Bool.false_eq_true, if_false, len_one, hget, deepCopy_spec]
      cases rest with
      | nil =>
        simp only [List.isEmpty_nil, if_true, len_zero]
        cases hvs : o.vals with
        | nil =>
          have : g.options = [] := by rw [hr.options, hvs]; rfl
          simp only [this, List.isEmpty_nil, if_true]
          exact ⟨m, rfl, by simpa using hm⟩
        | cons v0 vr =>
          have hopt : g.options = vOf v0 :: vr.map vOf := by rw [hr.options, hvs]; rfl
          have hidx0 : goIdx? g.options 0 = some (vOf v0) := by rw [hopt]; rfl
          have hty := hr.ty v0 vr hvs
          have hne : ¬ (v0 :: vr = []) := by simp
          have hie : g.options.isEmpty = false := by rw [hopt]; rfl
          simp only [hie, Bool.false_eq_true, if_false, hne]
          cases n with
          | comp k' ty =>
            simp only [ccOf, hidx0, hty, hF1, tyMatch_F, Bool.true_and, some_bne]
            by_cases ht : (ty == o.ty) = true
            · have := hm.append cext vOf hOf k g.options (o.vals.map Item.val)
                (by rw [hr.options]; exact listRel_vals cext vOf hOf o.vals)
              simp only [List.map_map, Function.comp_def, hvs] at this
              simp only [ht, Bool.not_true, Bool.false_eq_true, if_false]
              exact ⟨m.set k (m.getD' k [] ++ g.options), by simp, this⟩
            · simp only [ht, Bool.not_false, if_true]
              exact ⟨m, by simp [ERR, errFmt]⟩
          | pass k' =>
            simp only [ccOf]
            have hr' : OptRel cext vOf hOf { options := g.options, handler := g.handler, paths := [], maxRunSteps := g.maxRunSteps }
                { o with paths := [] } := ⟨hr.options, hr.handler, rfl, hr.ty⟩
            have := hm.append cext vOf hOf k [cext.anyOfOption _] [Item.opt { o with paths := [] }]
              (ListRel.cons ⟨_, rfl, hr'⟩ ListRel.nil)
            exact ⟨_, by simp; rfl, by simpa [hvs] using this⟩
          | graph k' ch =>
            simp only [ccOf]
            have hr' : OptRel cext vOf hOf { options := g.options, handler := g.handler, paths := [], maxRunSteps := g.maxRunSteps }
                { o with paths := [] } := ⟨hr.options, hr.handler, rfl, hr.ty⟩
            have := hm.append cext vOf hOf k [cext.anyOfOption _] [Item.opt { o with paths := [] }]
              (ListRel.cons ⟨_, rfl, hr'⟩ ListRel.nil)
            exact ⟨_, by simp; rfl, by simpa [hvs] using this⟩
      | cons k2 rest2 =>
        have hne : ¬ (k2 :: rest2 = []) := by simp
        simp only [List.isEmpty_cons, Bool.false_eq_true, if_false, hne]
        cases n with
        | comp k' ty => exact ⟨m, by simp [ccOf, ERR, errFmt]⟩
        | pass k' => simp only [hF3, if_true]; exact ⟨m, by simp [ccOf, ERR, errFmt]⟩
        | graph k' ch =>
          let o' : Opt := { o with paths := [k2 :: rest2] }
          let g' : GoOption V := { options := g.options, handler := g.handler, paths := [NewNodePath ext cext (k2 :: rest2)], maxRunSteps := g.maxRunSteps }
          have hr' : OptRel cext vOf hOf g' o' := ⟨hr.options, hr.handler, rfl, hr.ty⟩
          have := hm.append cext vOf hOf k [cext.anyOfOption _] [Item.opt o'] (ListRel.cons ⟨_, rfl, hr'⟩ ListRel.nil)
          refine ⟨_, ?_, by simpa [hF4, o', g'] using this⟩
          rw [goSlice_tail k (k2 :: rest2)]
          simp [ccOf, g']

theorem mapRel_nil (cext : C16Ext V) (vOf hOf : Nat → V) : MapRel cext vOf hOf [] [] := by
  intro k; exact ListRel.nil

/-- **`extractOption` refines `extract`** (for the fact values `Expected.C16.facts`).  For a Go map `nodes`
    that is the model's node list in its stored order and options related element by element, the translated
    function does not leave the translated semantics and returns, for every key, the model's list of items
    (component option values / forwarded Options) — or the error of the model's class, with a nil map. -/
theorem extractOption_refines (ext : Ext V) (cext : C16Ext V) (vOf hOf : Nat → V)
    (gn : GoMap (chanCall V)) (ns : Nodes) (hn : NodesRel gn ns)
    (gopts : List (GoOption V)) (opts : List Opt) (hrel : ListRel (OptRel cext vOf hOf) gopts opts) :
    match extract F ns opts with
    | .ok log => ∃ m, extractOption ext cext gn gopts = .ret (m, none) ∧ MapRel cext vOf hOf m log
    | .error e => extractOption ext cext gn gopts = ERR e := by
  unfold extractOption extract
  simp only [forIn_id, Id.run, bind, pure]
  generalize hb : (fun (opt : GoOption V) (__s : St V) => _) = body
  have hbody : ∀ g o, OptRel cext vOf hOf g o → ∀ m log, MapRel cext vOf hOf m log →
      match optEntries F ns o with
      | .ok es => ∃ m', body g (none, m) = ForInStep.yield (none, m') ∧ MapRel cext vOf hOf m' (log ++ es)
      | .error e => ∃ m', body g (none, m) = ForInStep.done (some (ERR e), m') := by
    intro g o hr m log hm
    rw [← hb]
    simp only []
    generalize hu : (fun (x : String × chanCall V) (__s : St V) => _) = ub
    generalize hp : (fun (path : NodePath V) (__s : St V) => _) = pb
    have hu' : undStep cext g = ub := by rw [← hu]; rfl
    have hp' : pathStep ext cext gn g = pb := by rw [← hp]; rfl
    have hpl := relE_loop cext vOf hOf (fun a p => a = mkPath p) (pathEntry F ns o) pb
      (path_body ext cext vOf hOf gn ns hn g o hr pb hp') g.paths o.paths (by rw [hr.paths]; exact listRel_map _ _)
    unfold optEntries undesignatedEntries
    simp only [len_zero]
    have hpe : g.paths.isEmpty = o.paths.isEmpty := by rw [hr.paths]; cases o.paths <;> rfl
    have hoe : g.options.isEmpty = o.vals.isEmpty := by rw [hr.options]; cases o.vals <;> rfl
    rw [hpe, hoe]
    cases hps : o.paths with
    | cons p ps =>
      have hne : ¬ ((p :: ps) = [] ∧ o.vals ≠ []) := by simp
      simp only [List.isEmpty_cons, Bool.false_eq_true, if_false, hne, List.nil_append]
      have h1 := hpl m log hm
      rw [hps] at h1
      cases hmp : mapE (pathEntry F ns o) (p :: ps) with
      | error e => rw [hmp] at h1; obtain ⟨m', e1⟩ := h1; exact ⟨_, by rw [e1]⟩
      | ok ess => rw [hmp] at h1; obtain ⟨m', e1, r1⟩ := h1; exact ⟨m', by rw [e1], r1⟩
    | nil =>
      have hgp : g.paths = [] := by rw [hr.paths, hps]; rfl
      simp only [List.isEmpty_nil, if_true, mapE, hgp, goLoop, List.flatten_nil, List.append_nil]
      cases hvs : o.vals with
      | nil =>
        simp only [List.isEmpty_nil, if_true]
        exact ⟨m, rfl, by simpa using hm⟩
      | cons v0 vr =>
        have hv : o.vals ≠ [] := by rw [hvs]; simp
        have hul := relE_loop cext vOf hOf (fun a n => a = (n.key, ccOf n)) (fun n => .ok (undesignatedFor F o n)) ub
          (und_body cext vOf hOf g o hr hv ub hu') gn ns.toList (by rw [hn]; exact listRel_map _ _) m log hm
        rw [mapE_ok] at hul
        obtain ⟨m', e1, r1⟩ := hul
        have hc : (True ∧ (v0 :: vr) ≠ []) := ⟨trivial, by simp⟩
        simp only [List.isEmpty_cons, Bool.false_eq_true, if_false, e1, ne_eq, reduceCtorEq, not_false_eq_true, and_self, if_true]
        refine ⟨m', rfl, ?_⟩
        have : (List.map (undesignatedFor F o) ns.toList).flatten = ns.toList.flatMap (undesignatedFor F o) := by
          simp [List.flatMap]
        rw [this] at r1
        exact r1
  have h := relE_loop cext vOf hOf (OptRel cext vOf hOf) (optEntries F ns) body hbody gopts opts hrel [] []
    (mapRel_nil cext vOf hOf)
  cases hm : mapE (optEntries F ns) opts with
  | error e =>
    rw [hm] at h
    obtain ⟨m', e1⟩ := h
    simp only [e1]
  | ok ls =>
    rw [hm] at h
    obtain ⟨m', e1, r1⟩ := h
    simp only [e1]
    exact ⟨m', rfl, by simpa using r1⟩

/-- the translated `extractOption` never leaves the translated semantics: no index out of range, no
    assignment into a nil map, no call through nil — under the same hypotheses -/
theorem extractOption_total (ext : Ext V) (cext : C16Ext V) (vOf hOf : Nat → V)
    (gn : GoMap (chanCall V)) (ns : Nodes) (hn : NodesRel gn ns)
    (gopts : List (GoOption V)) (opts : List Opt) (hrel : ListRel (OptRel cext vOf hOf) gopts opts) :
    ∃ res, extractOption ext cext gn gopts = .ret res := by
  have h := extractOption_refines ext cext vOf hOf gn ns hn gopts opts hrel
  cases he : extract F ns opts with
  | error e => rw [he] at h; exact ⟨_, h⟩
  | ok log => rw [he] at h; obtain ⟨m, e1, _⟩ := h; exact ⟨_, e1⟩

end EinoV.TransC16
