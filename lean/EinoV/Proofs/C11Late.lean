/-
  C11 — lemmas for Model/C11Late.lean: when no context can talk a lock site out of locking,
  the context-aware machine is the machine of Model/C11.lean.
-/
import EinoV.Model.C11Late
import EinoV.Proofs.C11

namespace EinoV.C11

variable {S V : Type}

/-- every context source makes the lock site lock -/
def AlwaysLocks (cf : CtxFacts) : Prop := ∀ src, takesLock cf (ctxVal cf src) = true

theorem alwaysLocks_of_unconditional {cf : CtxFacts} (h : cf.lockUnconditional = true) :
    AlwaysLocks cf := by
  intro src; simp [takesLock, h]

theorem alwaysLocks_of_plain {cf : CtxFacts} (h : cf.handsPlainCtx = true) : AlwaysLocks cf := by
  intro src; cases src <;> simp [takesLock, ctxVal, h]

theorem locksAt_eq {cf : CtxFacts} (h : AlwaysLocks cf) (srcs : Nat → Nat → CtxSrc)
    (locks : Wrapper → Bool) (c : Core S V) (t : Nat) : locksAt cf srcs locks c t = locks := by
  funext w
  simp [locksAt, h _]

theorem stepK_eq {cf : CtxFacts} (h : AlwaysLocks cf) (srcs : Nat → Nat → CtxSrc)
    (locks : Wrapper → Bool) (sys : Sys S V) (t : Nat) :
    stepK cf srcs locks sys t = step locks sys t := by
  unfold stepK; rw [locksAt_eq h]

theorem gstepK_eq {cf : CtxFacts} (h : AlwaysLocks cf) (srcs : Nat → Nat → CtxSrc)
    (locks : Wrapper → Bool) (guard : Sys S V → Nat → Bool) (sys : Sys S V) (t : Nat) :
    gstepK cf srcs locks guard sys t = gstep locks guard sys t := by
  unfold gstepK gstep; rw [stepK_eq h]

/-- with lock sites that always lock, which context an operation is called with is
    irrelevant: the context-aware run is the plain run, for every assignment of contexts -/
theorem runK_eq_run {cf : CtxFacts} (h : AlwaysLocks cf) (srcs : Nat → Nat → CtxSrc)
    (locks : Wrapper → Bool) (guard : Sys S V → Nat → Bool) (sched : List Nat) (sys : Sys S V) :
    runK cf srcs locks guard sched sys = run locks guard sched sys := by
  unfold runK run
  induction sched generalizing sys with
  | nil => rfl
  | cons t rest ih => simp only [List.foldl_cons]; rw [gstepK_eq h]; exact ih _

end EinoV.C11
