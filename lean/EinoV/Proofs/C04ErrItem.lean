import EinoV.Model.C04ErrItem
import EinoV.Proofs.C04Lazy
namespace EinoV.C04
open EinoV.Engine

/-- chunks, then an error item that is not io.EOF itself: an identity-comparing loop reports it -/
theorem view_identity_fail {V} (pre : List V) (rel : EOFRel) (e : Err) (rest : List (Item V))
    (h : rel ≠ .identical) :
    view true (pre.map Item.chunk ++ Item.fail rel e :: rest) = { chunks := pre, err := some e } := by
  induction pre with
  | nil =>
    cases rel with
    | identical => exact absurd rfl h
    | reaches => rfl
    | unrelated => rfl
  | cons v pre ih => simp only [List.map_cons, List.cons_append, view, ih]

/-- a stream without error items is its chunks -/
theorem view_chunks {V} (b : Bool) (l : List V) : view b (l.map Item.chunk) = { chunks := l, err := none } := by
  induction l with
  | nil => rfl
  | cons v l ih => simp only [List.map_cons, view, ih]

end EinoV.C04
