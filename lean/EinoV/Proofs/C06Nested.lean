/-
  C06 — the interrupt info of a run with nested graphs names exactly the interrupted nodes, at every
  level (helper lemmas; the property statements are in Props/C06.lean).
-/
import EinoV.Proofs.C05NestedDepth
import EinoV.Proofs.Assoc

namespace EinoV.Interrupt
open EinoV.Engine

variable {V S X : Type}

/-! ### what is collected comes from the bodies -/

theorem mem_rerunOf_runPosts (r : IRunner V S X) : ∀ (l : List (Key × BodyRes V S X)) (st : S) (k : Key),
    k ∈ rerunOf (runPosts r l st).1 ↔ ∃ s, (k, BodyRes.rerun s) ∈ l := by
  intro l
  induction l with
  | nil => intro st k; simp [runPosts, rerunOf]
  | cons x rest ih =>
    intro st k
    obtain ⟨k', res⟩ := x
    cases res with
    | rerun s' =>
      simp only [runPosts, postOne, rerunOf, List.mem_cons, ih]
      constructor
      · rintro (rfl | ⟨s, hs⟩)
        · exact ⟨s', Or.inl rfl⟩
        · exact ⟨s, Or.inr hs⟩
      · rintro ⟨s, hs | hs⟩
        · injection hs with h1 _; exact Or.inl h1
        · exact Or.inr ⟨s, hs⟩
    | done o s' =>
      simp only [runPosts, postOne]
      split <;> simp only [rerunOf, ih, List.mem_cons] <;>
        exact ⟨fun ⟨s, hs⟩ => ⟨s, Or.inr hs⟩, fun ⟨s, hs⟩ => by rcases hs with hs | hs; cases hs; exact ⟨s, hs⟩⟩
    | fail e s' =>
      simp only [runPosts, postOne, rerunOf, ih, List.mem_cons]
      exact ⟨fun ⟨s, hs⟩ => ⟨s, Or.inr hs⟩, fun ⟨s, hs⟩ => by rcases hs with hs | hs; cases hs; exact ⟨s, hs⟩⟩
    | subInt p s' =>
      simp only [runPosts, postOne, rerunOf, ih, List.mem_cons]
      exact ⟨fun ⟨s, hs⟩ => ⟨s, Or.inr hs⟩, fun ⟨s, hs⟩ => by rcases hs with hs | hs; cases hs; exact ⟨s, hs⟩⟩

theorem mem_subIntOf_runPosts (r : IRunner V S X) : ∀ (l : List (Key × BodyRes V S X)) (st : S) (kp : Key × X),
    kp ∈ subIntOf (runPosts r l st).1 ↔ ∃ s, (kp.1, BodyRes.subInt kp.2 s) ∈ l := by
  intro l
  induction l with
  | nil => intro st kp; simp [runPosts, subIntOf]
  | cons x rest ih =>
    intro st kp
    obtain ⟨k', res⟩ := x
    cases res with
    | subInt p s' =>
      simp only [runPosts, postOne, subIntOf, List.mem_cons, ih]
      constructor
      · rintro (rfl | ⟨s, hs⟩)
        · exact ⟨s', Or.inl rfl⟩
        · exact ⟨s, Or.inr hs⟩
      · rintro ⟨s, hs | hs⟩
        · injection hs with h1 h2
          injection h2 with h2 _
          left
          exact Prod.ext h1 h2
        · exact Or.inr ⟨s, hs⟩
    | done o s' =>
      simp only [runPosts, postOne]
      split <;> simp only [subIntOf, ih, List.mem_cons] <;>
        exact ⟨fun ⟨s, hs⟩ => ⟨s, Or.inr hs⟩, fun ⟨s, hs⟩ => by rcases hs with hs | hs; cases hs; exact ⟨s, hs⟩⟩
    | fail e s' =>
      simp only [runPosts, postOne, subIntOf, ih, List.mem_cons]
      exact ⟨fun ⟨s, hs⟩ => ⟨s, Or.inr hs⟩, fun ⟨s, hs⟩ => by rcases hs with hs | hs; cases hs; exact ⟨s, hs⟩⟩
    | rerun s' =>
      simp only [runPosts, postOne, subIntOf, ih, List.mem_cons]
      exact ⟨fun ⟨s, hs⟩ => ⟨s, Or.inr hs⟩, fun ⟨s, hs⟩ => by rcases hs with hs | hs; cases hs; exact ⟨s, hs⟩⟩

theorem mem_runBodies (r : IRunner V S X) : ∀ (ts : List (Task V X)) (st : S) (x : Key × BodyRes V S X),
    x ∈ (runBodies r ts st).1 → ∃ t ∈ ts, ∃ st', x.1 = t.key ∧ x.2 = (bodyOne r t st').res := by
  intro ts
  induction ts with
  | nil => intro st x h; simp [runBodies] at h
  | cons t rest ih =>
    intro st x h
    simp only [runBodies, List.mem_cons] at h
    rcases h with rfl | h
    · exact ⟨t, by simp, st, rfl, rfl⟩
    · obtain ⟨t', ht', st', h1, h2⟩ := ih _ x h
      exact ⟨t', by simp [ht'], st', h1, h2⟩

/-- a body result that asks for an interrupt comes from a declared node -/
theorem bodyOne_isSR (r : IRunner V S X) (t : Task V X) (st : S) (h : (bodyOne r t st).res.isSR = true) :
    ∃ n, r.inode? t.key = some n ∧ (bodyOne r t st).res = (n.body t.input st t.sub).res := by
  unfold bodyOne at h ⊢
  cases hn : r.inode? t.key with
  | none => simp [hn, BodyRes.isSR] at h
  | some n => exact ⟨n, rfl, rfl⟩

/-! ### the interrupt of one superstep -/

/-- the parts of a sub-graph / rerun interrupt, in terms of the collected batch -/
theorem coreOut_sr_parts (ops : ValOps V) (r : IRunner V S X) (sched : ISched V S X) (cm : Chans V)
    (bres : List (Key × BodyRes V S X)) (st2 : S) (cm' : Chans V) (restore : List Key) (subs : List (Key × X))
    (reruns : List Key) (dones : List (Done V)) (st : S)
    (h : coreOut ops r sched cm bres st2 = .sr cm' restore subs reruns dones st) :
    subs = subIntOf (runPosts r (sched bres) st2).1 ∧ reruns = rerunOf (runPosts r (sched bres) st2).1 ∧
    dones = doneOf (runPosts r (sched bres) st2).1 ∧
    restore = ((runPosts r (sched bres) st2).1.filter (fun o => o.2.isSR)).map (·.1) ∧
    (subs ≠ [] ∨ reruns ≠ []) := by
  unfold coreOut at h
  simp only at h
  split at h
  · simp at h
  · split at h
    · rename_i hc
      split at h
      · simp at h
      · injection h with _ h2 h3 h4 h5 _
        refine ⟨h3.symm, h4.symm, h5.symm, h2.symm, ?_⟩
        subst h3 h4
        simp only [Bool.or_eq_true, Bool.not_eq_true', List.isEmpty_eq_false_iff] at hc
        exact hc
    · split at h
      · simp at h
      · split at h <;> simp at h

/-- **soundness of one superstep's interrupt info.**  Every name in it is justified: BeforeNodes are
    interrupt-before nodes among the pending tasks of the checkpoint, AfterNodes interrupt-after nodes,
    RerunNodes nodes whose body asked for a rerun, SubGraphs graph nodes whose body reported that
    payload; the info is not empty; with a rerun / sub-graph interrupt BeforeNodes is empty and the
    checkpoint carries the same SubGraphs. -/
theorem stepI_info_sound (ops : ValOps V) (r : IRunner V S X) (sched : ISched V S X) (hs : SchedSub sched)
    (ls : LoopSt V S X) (cp : Checkpoint V S X) (info : Info S X) (h : (stepI ops r sched ls).2 = .intr cp info) :
    (∀ k ∈ info.before, k ∈ r.intBefore ∧ k ∈ cp.inputs.map (·.1)) ∧
    (∀ k ∈ info.after, k ∈ r.intAfter) ∧
    (∀ k ∈ info.rerun, ∃ n v s x s', r.inode? k = some n ∧ (n.body v s x).res = .rerun s') ∧
    (∀ kp ∈ info.subs, ∃ n v s x s', r.inode? kp.1 = some n ∧ (n.body v s x).res = .subInt kp.2 s') ∧
    (info.before ≠ [] ∨ info.after ≠ [] ∨ info.rerun ≠ [] ∨ info.subs ≠ []) ∧
    ((info.subs ≠ [] ∨ info.rerun ≠ []) → info.before = []) ∧
    cp.subs = info.subs := by
  rw [stepI_unfold] at h
  simp only at h
  cases hc : coreOut ops r sched ls.cm (runBodies r (runPres r ls.tasks ls.st).1 (runPres r ls.tasks ls.st).2).1
      (runBodies r (runPres r ls.tasks ls.st).1 (runPres r ls.tasks ls.st).2).2.1 with
  | done v => rw [hc] at h; simp [finishStep] at h
  | fail e => rw [hc] at h; simp [finishStep] at h
  | sr cm restore subs reruns dones st =>
    rw [hc] at h
    simp only [finishStep] at h
    injection h with h1 h2
    subst h1 h2
    obtain ⟨hsubs, hreruns, _, _, hne⟩ := coreOut_sr_parts ops r sched _ _ _ cm restore subs reruns dones st hc
    refine ⟨fun k hk => by simp at hk, fun k hk => ((mem_afterHits _ _ k).1 hk).2, ?_, ?_, ?_, fun _ => rfl, rfl⟩
    · intro k hk
      simp only at hk
      rw [hreruns] at hk
      obtain ⟨s, hmem⟩ := (mem_rerunOf_runPosts r _ _ k).1 hk
      obtain ⟨t, _, st', h1, h2⟩ := mem_runBodies r _ _ _ (hs _ _ hmem)
      simp only at h1 h2
      obtain ⟨n, hn, hb⟩ := bodyOne_isSR r t st' (by rw [← h2]; rfl)
      exact ⟨n, t.input, st', t.sub, s, by rw [h1]; exact hn, by rw [← hb, ← h2]⟩
    · intro kp hkp
      simp only at hkp
      rw [hsubs] at hkp
      obtain ⟨s, hmem⟩ := (mem_subIntOf_runPosts r _ _ kp).1 hkp
      obtain ⟨t, _, st', h1, h2⟩ := mem_runBodies r _ _ _ (hs _ _ hmem)
      simp only at h1 h2
      obtain ⟨n, hn, hb⟩ := bodyOne_isSR r t st' (by rw [← h2]; rfl)
      exact ⟨n, t.input, st', t.sub, s, by rw [h1]; exact hn, by rw [← hb, ← h2]⟩
    · rcases hne with h' | h'
      · exact Or.inr (Or.inr (Or.inr h'))
      · exact Or.inr (Or.inr (Or.inl h'))
  | next cm ts dones st =>
    rw [hc] at h
    simp only [finishStep] at h
    split at h
    · simp at h
    · rename_i hcond
      split at h
      · simp at h
      · simp at h
      · rename_i cm2 ts2 _
        injection h with h1 h2
        subst h1 h2
        refine ⟨?_, fun k hk => ((mem_afterHits _ _ k).1 hk).2, fun k hk => by simp at hk,
          fun kp hkp => by simp at hkp, ?_, fun h' => by simp at h', rfl⟩
        · intro k hk
          simp only [List.mem_append] at hk
          simp only [simpleCP, List.map_append, List.mem_append, List.mem_map]
          rcases hk with hk | hk
          · obtain ⟨⟨v, hv⟩, hkb⟩ := (mem_hitKeys _ _ k).1 hk
            exact ⟨hkb, Or.inl ⟨(k, v), hv, rfl⟩⟩
          · obtain ⟨⟨v, hv⟩, hkb⟩ := (mem_hitKeys _ _ k).1 hk
            exact ⟨hkb, Or.inr ⟨(k, v), hv, rfl⟩⟩
        · simp only [Bool.and_eq_true, List.isEmpty_iff] at hcond
          cases hb : hitKeys ts r.intBefore with
          | cons a b => left; simp
          | nil =>
            right; left
            intro ha
            exact hcond ⟨hb, ha⟩

theorem sr_listed_conv : ∀ (coll : List (Key × TaskOut V X)) (k : Key),
    (k ∈ rerunOf coll ∨ k ∈ (subIntOf coll).map (·.1)) → k ∈ (coll.filter (fun o => o.2.isSR)).map (·.1) := by
  intro coll
  induction coll with
  | nil => intro k h; simp [rerunOf, subIntOf] at h
  | cons o rest ih =>
    intro k h
    obtain ⟨k', out⟩ := o
    cases out with
    | done v =>
      have := ih k (by simpa [rerunOf, subIntOf] using h)
      simpa [TaskOut.isSR, List.filter_cons] using this
    | fail e =>
      have := ih k (by simpa [rerunOf, subIntOf] using h)
      simpa [TaskOut.isSR, List.filter_cons] using this
    | rerun =>
      simp only [rerunOf, subIntOf, List.mem_cons] at h
      simp only [List.filter_cons, TaskOut.isSR, ite_true, List.map_cons, List.mem_cons]
      rcases h with (h | h) | h
      · exact Or.inl h
      · exact Or.inr (ih k (Or.inl h))
      · exact Or.inr (ih k (Or.inr h))
    | subInt x =>
      simp only [rerunOf, subIntOf, List.map_cons, List.mem_cons] at h
      simp only [List.filter_cons, TaskOut.isSR, ite_true, List.map_cons, List.mem_cons]
      rcases h with h | h | h
      · exact Or.inr (ih k (Or.inl h))
      · exact Or.inl h
      · exact Or.inr (ih k (Or.inr h))

/-- **completeness of one superstep's interrupt info, and what the checkpoint restores.**  If the
    superstep ends in an interrupt, every node whose body asked for a rerun is in RerunNodes, every
    graph node whose body reported a nested interrupt is in SubGraphs with that payload; and when there
    is such a node, the checkpoint restores exactly those nodes (each with the zero input) — no node
    that completed in the superstep is among them. -/
theorem stepI_sr_complete (ops : ValOps V) (r : IRunner V S X) (sched : ISched V S X) (hk : SchedKeeps sched)
    (ls : LoopSt V S X) (cp : Checkpoint V S X) (info : Info S X) (h : (stepI ops r sched ls).2 = .intr cp info) :
    (∀ k s, (k, BodyRes.rerun s) ∈ (runBodies r (runPres r ls.tasks ls.st).1 (runPres r ls.tasks ls.st).2).1 →
      k ∈ info.rerun) ∧
    (∀ k p s, (k, BodyRes.subInt p s) ∈ (runBodies r (runPres r ls.tasks ls.st).1 (runPres r ls.tasks ls.st).2).1 →
      (k, p) ∈ info.subs) ∧
    ((info.subs ≠ [] ∨ info.rerun ≠ []) →
      (∀ k, k ∈ cp.inputs.map (·.1) ↔ (k ∈ info.rerun ∨ k ∈ info.subs.map (·.1))) ∧
      (∀ q ∈ cp.inputs, q.2 = ops.zero) ∧ cp.skipPre = info.subs.map (·.1)) := by
  rw [stepI_unfold] at h
  simp only at h
  cases hc : coreOut ops r sched ls.cm (runBodies r (runPres r ls.tasks ls.st).1 (runPres r ls.tasks ls.st).2).1
      (runBodies r (runPres r ls.tasks ls.st).1 (runPres r ls.tasks ls.st).2).2.1 with
  | done v => rw [hc] at h; simp [finishStep] at h
  | fail e => rw [hc] at h; simp [finishStep] at h
  | sr cm restore subs reruns dones st =>
    rw [hc] at h
    simp only [finishStep] at h
    injection h with h1 h2
    subst h1 h2
    obtain ⟨hsubs, hreruns, _, hrestore, _⟩ := coreOut_sr_parts ops r sched _ _ _ cm restore subs reruns dones st hc
    refine ⟨?_, ?_, fun _ => ⟨?_, ?_, rfl⟩⟩
    · intro k s hm
      simp only
      rw [hreruns]
      exact (mem_rerunOf_runPosts r _ _ k).2 ⟨s, hk _ _ hm⟩
    · intro k p s hm
      simp only
      rw [hsubs]
      exact (mem_subIntOf_runPosts r _ _ (k, p)).2 ⟨s, hk _ _ hm⟩
    · intro k
      simp only [List.map_map]
      have hid : (restore.map ((fun x : Key × V => x.1) ∘ fun k => (k, ops.zero))) = restore := by
        simp [Function.comp_def]
      rw [hid]
      constructor
      · exact coreOut_sr_listed ops r sched _ _ _ cm restore subs reruns dones st hc k
      · intro hmem
        rw [hrestore]
        rw [hsubs, hreruns] at hmem
        exact sr_listed_conv _ k hmem
    · intro q hq
      simp only [List.mem_map] at hq
      obtain ⟨k, _, rfl⟩ := hq
      rfl
  | next cm ts dones st =>
    have hnosr : ∀ x ∈ (runBodies r (runPres r ls.tasks ls.st).1 (runPres r ls.tasks ls.st).2).1, x.2.isSR = false := by
      intro x hx
      cases hsr : x.2.isSR with
      | false => rfl
      | true =>
        exfalso
        obtain ⟨k, res⟩ := x
        have hx' := hk _ _ hx
        cases res with
        | done o s => simp [BodyRes.isSR] at hsr
        | fail e s => simp [BodyRes.isSR] at hsr
        | rerun s =>
          rcases coreOut_sr_or_fail ops r sched ls.cm _ _ (Or.inr (rerunOf_of_mem r _ _ k s hx')) with ⟨e', he'⟩ | ⟨a, b, c, d, e, f, he'⟩
          · rw [he'] at hc; cases hc
          · rw [he'] at hc; cases hc
        | subInt p s =>
          rcases coreOut_sr_or_fail ops r sched ls.cm _ _ (Or.inl (subIntOf_of_mem r _ _ k p s hx')) with ⟨e', he'⟩ | ⟨a, b, c, d, e, f, he'⟩
          · rw [he'] at hc; cases hc
          · rw [he'] at hc; cases hc
    rw [hc] at h
    simp only [finishStep] at h
    split at h
    · simp at h
    · split at h
      · simp at h
      · simp at h
      · injection h with h1 h2
        subst h1 h2
        refine ⟨?_, ?_, fun h' => by simp at h'⟩
        · intro k s hm
          have := hnosr _ hm
          simp [BodyRes.isSR] at this
        · intro k p s hm
          have := hnosr _ hm
          simp [BodyRes.isSR] at this

theorem loopI_intr_from_step (ops : ValOps V) (r : IRunner V S X) (sched : ISched V S X) (isSub hasID : Bool) :
    ∀ (fuel : Nat) (ls : LoopSt V S X) (cp : Checkpoint V S X) (info : Info S X),
      (loopI ops r sched isSub hasID fuel ls).res = .interrupted cp info →
      ∃ ls', (stepI ops r sched ls').2 = .intr cp info := by
  intro fuel
  induction fuel with
  | zero => intro ls cp info h; simp [loopI] at h
  | succ n ih =>
    intro ls cp info h
    unfold loopI at h
    split at h
    · simp at h
    · simp at h
    · rename_i cp' info' hstep
      simp only at h
      injection h with h1 h2
      subst h1 h2
      exact ⟨ls, hstep⟩
    · rename_i ls' _
      exact ih ls' cp info h

/-- **soundness of the interrupt info of a call**, one level -/
theorem runI_info_sound (ops : ValOps V) (cfg : Cfg) (r : IRunner V S X) (sched : ISched V S X) (hs : SchedSub sched)
    (isSub hasID : Bool) (inp : V ⊕ Checkpoint V S X) (cp : Checkpoint V S X) (info : Info S X)
    (h : (runI ops cfg r sched isSub hasID inp).res = .interrupted cp info) :
    (∀ k ∈ info.before, k ∈ r.intBefore ∧ k ∈ cp.inputs.map (·.1)) ∧
    (∀ k ∈ info.after, k ∈ r.intAfter) ∧
    (∀ k ∈ info.rerun, ∃ n v s x s', r.inode? k = some n ∧ (n.body v s x).res = .rerun s') ∧
    (∀ kp ∈ info.subs, ∃ n v s x s', r.inode? kp.1 = some n ∧ (n.body v s x).res = .subInt kp.2 s') ∧
    (info.before ≠ [] ∨ info.after ≠ [] ∨ info.rerun ≠ [] ∨ info.subs ≠ []) ∧
    ((info.subs ≠ [] ∨ info.rerun ≠ []) → info.before = []) ∧
    cp.subs = info.subs := by
  cases inp with
  | inr cp0 =>
    simp only [runI] at h
    obtain ⟨ls', hstep⟩ := loopI_intr_from_step ops r sched isSub hasID _ _ cp info h
    exact stepI_info_sound ops r sched hs ls' cp info hstep
  | inl x =>
    simp only [runI] at h
    split at h
    · simp at h
    · simp at h
    · rename_i cm ts _
      split at h
      · rename_i hcond
        simp only at h
        injection h with h1 h2
        subst h1 h2
        simp only [Bool.and_eq_true, Bool.not_eq_true', List.isEmpty_eq_false_iff] at hcond
        refine ⟨?_, fun k hk => by simp at hk, fun k hk => by simp at hk, fun kp hkp => by simp at hkp,
          Or.inl hcond.2, fun _ => by simp at *, rfl⟩
        intro k hk
        obtain ⟨⟨v, hv⟩, hkb⟩ := (mem_hitKeys _ _ k).1 hk
        simp only [simpleCP, List.mem_map]
        exact ⟨hkb, (k, v), hv, rfl⟩
      · obtain ⟨ls', hstep⟩ := loopI_intr_from_step ops r sched isSub hasID _ _ cp info h
        exact stepI_info_sound ops r sched hs ls' cp info hstep

/-! ### the task restored for a node that asked for a rerun -/

/-- restored with the zero input, its pre-handler not skipped, no nested checkpoint -/
theorem restoreTasks_rerun (zero : V) (inputs : List (Key × V)) (skip : List Key) (subs : List (Key × X)) (k : Key)
    (hin : ∀ q ∈ inputs, q.2 = zero) (hns : k ∉ skip) (hnsub : k ∉ subs.map (·.1)) :
    ∀ t ∈ restoreTasks inputs skip subs, t.key = k →
      t = { key := k, input := zero, skipPre := false, sub := none } := by
  intro t ht hk
  simp only [restoreTasks, List.mem_map] at ht
  obtain ⟨q, hq, rfl⟩ := ht
  simp only at hk
  subst hk
  have h2 : alookup q.1 subs = none := alookup_none_of_not_mem q.1 subs hnsub
  simp [h2, hin q hq, hns]

/-- its pre-handler runs on the zero input and the restored state: the body is started on what the
    pre-handler rebuilds -/
theorem preOne_rerun (r : IRunner V S X) (k : Key) (n : INode V S X) (h : V → S → V × S)
    (hn : r.inode? k = some n) (hp : n.pre = some h) (zero : V) (st : S) :
    preOne r { key := k, input := zero, skipPre := false, sub := none } st =
      ({ key := k, input := (h zero st).1, skipPre := false, sub := none }, (h zero st).2) := by
  simp [preOne, hn, hp]

/-! ### nested graphs: the info under a graph node's key is the info the nested run returned -/

theorem fnBody_res_cases (f : V → S → Except Err V × S) (v : V) (s : S) (x : Option X) :
    (∃ o s', (fnBody f v s x : BodyOut V S X).res = .done o s') ∨ (∃ e s', (fnBody f v s x : BodyOut V S X).res = .fail e s') := by
  unfold fnBody
  split
  · left; exact ⟨_, _, rfl⟩
  · right; exact ⟨_, _, rfl⟩

section level
variable {C : Type} (ops : ValOps V) (cfg : Cfg) (cd : SubCodec V S X) (toC : C → IRunner V S X)

/-- in a compiled level, a nested interrupt is reported only by a graph node, and its payload packs
    what the nested run returned in that very execution -/
theorem NLevel.subInt_from_child (l : NLevel V S X C) (k : Key) (n : INode V S X) (v : V) (s : S) (x : Option X)
    (p : X) (s' : S) (hn : (l.toIWith ops cfg cd toC).inode? k = some n) (hb : (n.body v s x).res = .subInt p s') :
    ∃ c sc, l.child? k = some c ∧ (∃ n', l.node? k = some n' ∧ n'.body = .graph c sc) ∧
      ∃ cpc infoc, (runI ops cfg (toC c) sc true false (subInp cd v x)).res = .interrupted cpc infoc ∧
        p = cd.pack cpc infoc := by
  rw [NLevel.inode?_toIWith] at hn
  cases hnode : l.node? k with
  | none => rw [hnode] at hn; cases hn
  | some n' =>
    rw [hnode] at hn
    simp only [Option.map_some, Option.some.injEq] at hn
    subst hn
    cases hbody : n'.body with
    | fn f =>
      have h1 : (n'.toI ops cfg cd toC).body = fnBody f := by simp [NNode.toI, hbody]
      rw [h1] at hb
      rcases fnBody_res_cases f v s x with ⟨o, s1, h2⟩ | ⟨e, s1, h2⟩ <;> rw [h2] at hb <;> cases hb
    | graph c sc =>
      have h1 : (n'.toI ops cfg cd toC).body = subBody ops cfg cd (toC c) sc := by simp [NNode.toI, hbody]
      rw [h1, subBody_res] at hb
      refine ⟨c, sc, by simp [NLevel.child?, hnode, hbody], ⟨n', rfl, hbody⟩, ?_⟩
      cases hr : (runI ops cfg (toC c) sc true false (subInp cd v x)).res with
      | done o => rw [hr] at hb; cases hb
      | failed e => rw [hr] at hb; cases hb
      | interrupted cpc infoc =>
        rw [hr] at hb
        injection hb with hb _
        exact ⟨cpc, infoc, rfl, hb.symm⟩

/-- no node of a compiled level asks for a rerun (function nodes complete or fail, graph nodes complete,
    fail or report a nested interrupt) -/
theorem NLevel.no_rerun (l : NLevel V S X C) (k : Key) (n : INode V S X) (v : V) (s : S) (x : Option X) (s' : S)
    (hn : (l.toIWith ops cfg cd toC).inode? k = some n) : (n.body v s x).res ≠ .rerun s' := by
  rw [NLevel.inode?_toIWith] at hn
  cases hnode : l.node? k with
  | none => rw [hnode] at hn; cases hn
  | some n' =>
    rw [hnode] at hn
    simp only [Option.map_some, Option.some.injEq] at hn
    subst hn
    intro hb
    cases hbody : n'.body with
    | fn f =>
      have h1 : (n'.toI ops cfg cd toC).body = fnBody f := by simp [NNode.toI, hbody]
      rw [h1] at hb
      rcases fnBody_res_cases f v s x with ⟨o, s1, h2⟩ | ⟨e, s1, h2⟩ <;> rw [h2] at hb <;> cases hb
    | graph c sc =>
      have h1 : (n'.toI ops cfg cd toC).body = subBody ops cfg cd (toC c) sc := by simp [NNode.toI, hbody]
      rw [h1, subBody_res] at hb
      cases hr : (runI ops cfg (toC c) sc true false (subInp cd v x)).res <;> rw [hr] at hb <;> cases hb

end level

/-- what one level's part of an interrupt info must be: BeforeNodes / AfterNodes are configured
    interrupt points of this level, no RerunNodes (the family `NR` has no rerun-requesting nodes), the
    info names something, and BeforeNodes is empty when a graph node interrupted -/
def LevelInfoOK (B A : List Key) (info : Info S X) : Prop :=
  (∀ k ∈ info.before, k ∈ B) ∧ (∀ k ∈ info.after, k ∈ A) ∧ info.rerun = [] ∧
  (info.before ≠ [] ∨ info.after ≠ [] ∨ info.subs ≠ []) ∧ (info.subs ≠ [] → info.before = [])

section depth
variable (ops : ValOps V) (cfg : Cfg) (cd : SubCodec V S X)

/-- the completion orders used for the nested graphs invent no task -/
def NR.SubScheds : (d : Nat) → NR V S X d → Prop
  | 0, _ => True
  | d + 1, l => NLevel.hypWith (fun c sc => SchedSub sc ∧ NR.SubScheds d c) l

/-- **reported exactly, at every level.**  The checkpoint and info an interrupted run returns: this
    level's lists are justified (`LevelInfoOK`), every BeforeNode is a pending task of the checkpoint,
    the checkpoint stores under `SubGraphs` exactly the payloads the info lists, and each of them is —
    for a graph node `k` of this level — the checkpoint and info of the nested graph, again reported
    exactly. -/
def NR.Reported : (d : Nat) → NR V S X d → Checkpoint V S X → Info S X → Prop
  | 0, l, cp, info =>
    LevelInfoOK l.intBefore l.intAfter info ∧ cp.subs = info.subs ∧
    (∀ k ∈ info.before, k ∈ cp.inputs.map (·.1)) ∧ info.subs = []
  | d + 1, l, cp, info =>
    LevelInfoOK l.intBefore l.intAfter info ∧ cp.subs = info.subs ∧
    (∀ k ∈ info.before, k ∈ cp.inputs.map (·.1)) ∧
    ∀ kp ∈ info.subs, ∃ c, NLevel.child? l kp.1 = some c ∧ NR.Reported d c (cd.cp kp.2) (cd.info kp.2)

theorem levelInfoOK_of_sound (r : IRunner V S X) (cp : Checkpoint V S X) (info : Info S X)
    (hnr : ∀ k n v s x s', r.inode? k = some n → (n.body v s x).res ≠ .rerun s')
    (h : (∀ k ∈ info.before, k ∈ r.intBefore ∧ k ∈ cp.inputs.map (·.1)) ∧
      (∀ k ∈ info.after, k ∈ r.intAfter) ∧
      (∀ k ∈ info.rerun, ∃ n v s x s', r.inode? k = some n ∧ (n.body v s x).res = .rerun s') ∧
      (∀ kp ∈ info.subs, ∃ n v s x s', r.inode? kp.1 = some n ∧ (n.body v s x).res = .subInt kp.2 s') ∧
      (info.before ≠ [] ∨ info.after ≠ [] ∨ info.rerun ≠ [] ∨ info.subs ≠ []) ∧
      ((info.subs ≠ [] ∨ info.rerun ≠ []) → info.before = []) ∧
      cp.subs = info.subs) :
    LevelInfoOK r.intBefore r.intAfter info ∧ cp.subs = info.subs ∧ (∀ k ∈ info.before, k ∈ cp.inputs.map (·.1)) := by
  obtain ⟨h1, h2, h3, _, h5, h6, h7⟩ := h
  have hrr : info.rerun = [] := by
    cases hr : info.rerun with
    | nil => rfl
    | cons k rest =>
      exfalso
      obtain ⟨n, v, s, x, s', hn, hb⟩ := h3 k (by rw [hr]; simp)
      exact hnr k n v s x s' hn hb
  refine ⟨⟨fun k hk => (h1 k hk).1, h2, hrr, ?_, fun hs => h6 (Or.inl hs)⟩, h7, fun k hk => (h1 k hk).2⟩
  rcases h5 with h | h | h | h
  · exact Or.inl h
  · exact Or.inr (Or.inl h)
  · exact absurd hrr h
  · exact Or.inr (Or.inr h)

theorem NR.reported (hcd : ∀ cp info, cd.cp (cd.pack cp info) = cp) (hci : ∀ cp info, cd.info (cd.pack cp info) = info) :
    ∀ (d : Nat) (nr : NR V S X d) (sched : ISched V S X), SchedSub sched → NR.SubScheds d nr →
    ∀ (isSub hasID : Bool) (inp : V ⊕ Checkpoint V S X) (cp : Checkpoint V S X) (info : Info S X),
      (runI ops cfg (NR.toI ops cfg cd d nr) sched isSub hasID inp).res = .interrupted cp info →
      NR.Reported cd d nr cp info := by
  intro d
  induction d with
  | zero =>
    intro nr sched hs _ isSub hasID inp cp info h
    have hsound := runI_info_sound ops cfg _ sched hs isSub hasID inp cp info h
    obtain ⟨h1, h2, h3⟩ := levelInfoOK_of_sound _ cp info
      (fun k n v s x s' hn => NLevel.no_rerun ops cfg cd (fun e : Empty => nomatch e) nr k n v s x s' hn) hsound
    refine ⟨h1, h2, h3, ?_⟩
    cases hsub : info.subs with
    | nil => rfl
    | cons kp rest =>
      exfalso
      obtain ⟨n, v, s, x, s', hn, hb⟩ := hsound.2.2.2.1 kp (by rw [hsub]; simp)
      obtain ⟨c, _⟩ := NLevel.subInt_from_child ops cfg cd (fun e : Empty => nomatch e) nr kp.1 n v s x kp.2 s' hn hb
      exact nomatch c
  | succ d ih =>
    intro nr sched hs hss isSub hasID inp cp info h
    have hsound := runI_info_sound ops cfg _ sched hs isSub hasID inp cp info h
    obtain ⟨h1, h2, h3⟩ := levelInfoOK_of_sound _ cp info
      (fun k n v s x s' hn => NLevel.no_rerun ops cfg cd (NR.toI ops cfg cd d) nr k n v s x s' hn) hsound
    refine ⟨h1, h2, h3, ?_⟩
    intro kp hkp
    obtain ⟨n, v, s, x, s', hn, hb⟩ := hsound.2.2.2.1 kp hkp
    obtain ⟨c, sc, hc, ⟨n', hn', hbody⟩, cpc, infoc, hrun, hp⟩ :=
      NLevel.subInt_from_child ops cfg cd (NR.toI ops cfg cd d) nr kp.1 n v s x kp.2 s' hn hb
    have hmem : n' ∈ NLevel.nodes nr := List.mem_of_find?_eq_some hn'
    obtain ⟨hsc, hssc⟩ := hss n' hmem c sc hbody
    refine ⟨c, hc, ?_⟩
    rw [hp, hcd, hci]
    exact ih c sc hsc hssc true false _ cpc infoc hrun

end depth

end EinoV.Interrupt
