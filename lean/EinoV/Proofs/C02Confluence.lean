/-
  Schedule independence of all-predecessor runs (C03 / C02): two runs of one runner on one input
  under two completion schedules return the same value, and nodes that complete in both complete
  with the same output (`run_result_sched_independent`).

  Part 1 (specification level, no channels): a history is *grounded* when every completion in it
  is the output of a node started on facts drawn from the history itself (a control predecessor
  completed and routed; every data predecessor completed or is skipped; the input is the merge
  of exactly the routed values).  Two grounded histories of one runner agree, by induction along
  the acyclic predecessor order (`grounded_agree`).
  Part 2: every start of the engine has these facts (`round_start_facts`: the invariants K, RV
  and the strict soundness of the skip flags at `getFromReadyChannels`), so the history of a run
  is grounded (`grounded_of_run`).
-/
import EinoV.Spec.DagStatus
import EinoV.Proofs.C02Workflow
import EinoV.Proofs.C02Exact

namespace EinoV.Engine
namespace DagRun

/-! ### two grounded histories of the same runner agree -/

theorem SkippedS.mono {V} {r : Runner V} {H H' : List (Done V)} (hh : ∀ d, d ∈ H → d ∈ H') {n : Key}
    (h : SkippedS r H n) : SkippedS r H' n := by
  induction h with
  | intro n hne _ ih =>
    exact SkippedS.intro n hne (fun p hp hnd => ih p hp (fun ⟨o, ho, hd⟩ => hnd ⟨o, hh _ ho, hd⟩))

theorem perm_of_same_members {α} (l1 l2 : List α) (h1 : l1.Nodup) (h2 : l2.Nodup)
    (h : ∀ a, a ∈ l1 ↔ a ∈ l2) : l1.Perm l2 := by
  induction l1 generalizing l2 with
  | nil =>
    cases l2 with
    | nil => exact List.Perm.refl _
    | cons b t => exact absurd ((h b).mpr (by simp)) (by simp)
  | cons a t ih =>
    have ha : a ∈ l2 := (h a).mp (by simp)
    obtain ⟨s1, s2, rfl⟩ := List.append_of_mem ha
    have hnd1 := List.nodup_cons.mp h1
    have h2' : (s1 ++ s2).Nodup := by
      have := h2
      rw [List.nodup_append] at this ⊢
      obtain ⟨a1, a2, a3⟩ := this
      refine ⟨a1, (List.nodup_cons.mp a2).2, fun x hx y hy => a3 x hx y (List.mem_cons_of_mem _ hy)⟩
    have hnot : a ∉ s1 ++ s2 := by
      intro hm
      rw [List.nodup_append] at h2
      obtain ⟨a1, a2, a3⟩ := h2
      rcases List.mem_append.mp hm with hm | hm
      · exact a3 a hm a (by simp) rfl
      · exact (List.nodup_cons.mp a2).1 hm
    have hmem : ∀ b, b ∈ t ↔ b ∈ s1 ++ s2 := by
      intro b
      constructor
      · intro hb
        have hne : b ≠ a := fun e => hnd1.1 (e ▸ hb)
        have := (h b).mp (List.mem_cons_of_mem _ hb)
        simp only [List.mem_append, List.mem_cons] at this ⊢
        rcases this with h' | h' | h'
        · exact Or.inl h'
        · exact absurd h' hne
        · exact Or.inr h'
      · intro hb
        have hne : b ≠ a := fun e => hnot (e ▸ hb)
        have : b ∈ s1 ++ a :: s2 := by
          simp only [List.mem_append, List.mem_cons] at hb ⊢
          rcases hb with h' | h'
          · exact Or.inl h'
          · exact Or.inr (Or.inr h')
        rcases List.mem_cons.mp ((h b).mpr this) with h' | h'
        · exact absurd h' hne
        · exact h'
    exact ((ih (s1 ++ s2) hnd1.2 h2' hmem).cons a).trans List.perm_middle.symm

theorem nodup_of_nodup_keys {α} (l : List (Key × α)) (h : (akeys l).Nodup) : l.Nodup := by
  induction l with
  | nil => exact List.nodup_nil
  | cons a t ih =>
    simp only [akeys, List.map_cons, List.nodup_cons] at h
    refine List.nodup_cons.mpr ⟨fun hm => h.1 (List.mem_map.mpr ⟨a, hm, rfl⟩), ih (by simpa [akeys] using h.2)⟩

/-- inputs built from agreeing predecessors agree -/
theorem inputs_agree {V} (ops : ValOps V) (hm : MergePerm ops) (r : Runner V) (HA HB HA' HB' : List (Done V))
    (subA : ∀ d, d ∈ HA' → d ∈ HA) (subB : ∀ d, d ∈ HB' → d ∈ HB) (n : Key) (vA vB : V)
    (fA : StartFacts ops r HA' n vA) (fB : StartFacts ops r HB' n vB)
    (hC : ∀ p, p ∈ lookupList n r.dataPreds → ∀ o o', (p, o) ∈ HA → (p, o') ∈ HB → o = o')
    (hEab : ∀ p, p ∈ lookupList n r.dataPreds → ∀ o, (p, o) ∈ HA → ¬ SkippedS r HB p)
    (hEba : ∀ p, p ∈ lookupList n r.dataPreds → ∀ o, (p, o) ∈ HB → ¬ SkippedS r HA p) : vA = vB := by
  obtain ⟨valsA, ndA, memA, valA⟩ := fA.exact
  obtain ⟨valsB, ndB, memB, valB⟩ := fB.exact
  have hAB : ∀ p w, (p, w) ∈ valsA → (p, w) ∈ valsB := by
    intro p w hw
    obtain ⟨h1, h2⟩ := (memA p w).mp hw
    have hdp : p ∈ lookupList n r.dataPreds := by obtain ⟨_, _, _, h⟩ := h2; exact h
    rcases fB.dataRes p hdp with ⟨o', ho'⟩ | hs
    · have := hC p hdp w o' (subA _ h1) (subB _ ho')
      subst this
      exact (memB p w).mpr ⟨ho', h2⟩
    · exact absurd (hs.mono subB) (hEab p hdp w (subA _ h1))
  have hBA : ∀ p w, (p, w) ∈ valsB → (p, w) ∈ valsA := by
    intro p w hw
    obtain ⟨h1, h2⟩ := (memB p w).mp hw
    have hdp : p ∈ lookupList n r.dataPreds := by obtain ⟨_, _, _, h⟩ := h2; exact h
    rcases fA.dataRes p hdp with ⟨o', ho'⟩ | hs
    · have := hC p hdp o' w (subA _ ho') (subB _ h1)
      subst this
      exact (memA p o').mpr ⟨ho', h2⟩
    · exact absurd (hs.mono subA) (hEba p hdp w (subB _ h1))
  have hperm : valsA.Perm valsB :=
    perm_of_same_members valsA valsB (nodup_of_nodup_keys _ ndA) (nodup_of_nodup_keys _ ndB)
      (fun a => ⟨fun h => hAB a.1 a.2 h, fun h => hBA a.1 a.2 h⟩)
  have hcol : collect ops (valsA.map (·.2)) = collect ops (valsB.map (·.2)) :=
    collect_perm ops hm _ _ (hperm.map _)
  have hnil : valsA = [] ↔ valsB = [] := by
    constructor
    · intro e; subst e; exact hperm.symm.eq_nil
    · intro e; subst e; exact hperm.eq_nil
  rcases valA with ⟨e, rfl⟩ | hA
  · rcases valB with ⟨_, rfl⟩ | hB
    · rfl
    · have := hnil.mp e
      subst e; subst this
      simp [collect] at hB
  · rcases valB with ⟨e, rfl⟩ | hB
    · have := hnil.mpr e
      subst e; subst this
      simp [collect] at hA
    · rw [hcol, hB] at hA
      exact (GetResult.ready.inj hA).symm

theorem not_skipped_of_completed {V} (ops : ValOps V) (r : Runner V) (x : V) (HA HB : List (Done V))
    (gA : Grounded ops r x HA) (hstartC : lookupList START r.ctrlPreds = []) (n : Key) (o : V) (hA : (n, o) ∈ HA)
    (hC : ∀ q, q ∈ lookupList n r.ctrlPreds → ∀ o o', (q, o) ∈ HA → (q, o') ∈ HB → o = o')
    (hE : ∀ q, q ∈ lookupList n r.ctrlPreds → ∀ o, (q, o) ∈ HA → ¬ SkippedS r HB q) :
    ¬ SkippedS r HB n := by
  intro hs
  cases hs with
  | intro _ hne hpre =>
    have hns : n ≠ START := fun e => by rw [e] at hne; exact hne hstartC
    obtain ⟨v, H', sub, facts, _⟩ := gA.each n o hA hns
    obtain ⟨q, hq, oq, hoq, hr⟩ := facts.routed hne
    by_cases hdz : ∃ o'', (q, o'') ∈ HB ∧ Deselects r q o'' n
    · obtain ⟨o'', ho'', hd⟩ := hdz
      have := hC q hq oq o'' (sub _ hoq) ho''
      subst this
      exact routes_deselects_excl r q oq n hr hd
    · exact hE q hq oq (sub _ hoq) (hpre q hq hdz)

/-- **two grounded histories of one runner on one input agree**: the same node never completes
    with different outputs in the two, and a node that completed in one is not skipped in the other -/
theorem grounded_agree {V} (ops : ValOps V) (hm : MergePerm ops) (r : Runner V) (x : V) (rank : Key → Nat)
    (hrank : ∀ n p, (p ∈ lookupList n r.ctrlPreds ∨ p ∈ lookupList n r.dataPreds) → rank p < rank n)
    (hstartC : lookupList START r.ctrlPreds = [])
    (HA HB : List (Done V)) (gA : Grounded ops r x HA) (gB : Grounded ops r x HB) :
    ∀ n, (∀ o o', (n, o) ∈ HA → (n, o') ∈ HB → o = o') ∧
         (∀ o, (n, o) ∈ HA → ¬ SkippedS r HB n) ∧ (∀ o, (n, o) ∈ HB → ¬ SkippedS r HA n) := by
  intro n
  induction hr : rank n using Nat.strongRecOn generalizing n with
  | _ m ih =>
    have ihp : ∀ p, (p ∈ lookupList n r.ctrlPreds ∨ p ∈ lookupList n r.dataPreds) →
        (∀ o o', (p, o) ∈ HA → (p, o') ∈ HB → o = o') ∧
        (∀ o, (p, o) ∈ HA → ¬ SkippedS r HB p) ∧ (∀ o, (p, o) ∈ HB → ¬ SkippedS r HA p) :=
      fun p hp => ih (rank p) (by rw [← hr]; exact hrank n p hp) p rfl
    refine ⟨?_, ?_, ?_⟩
    · intro o o' hA hB
      by_cases hns : n = START
      · subst hns
        rw [gA.start o hA, gB.start o' hB]
      · obtain ⟨vA, HA', subA, fA, ndA, hndA, hactA⟩ := gA.each n o hA hns
        obtain ⟨vB, HB', subB, fB, ndB, hndB, hactB⟩ := gB.each n o' hB hns
        have hv : vA = vB := inputs_agree ops hm r HA HB HA' HB' subA subB n vA vB fA fB
          (fun p hp => (ihp p (Or.inr hp)).1) (fun p hp => (ihp p (Or.inr hp)).2.1) (fun p hp => (ihp p (Or.inr hp)).2.2)
        subst hv
        rw [hndA] at hndB
        cases hndB
        rw [hactA] at hactB
        exact Except.ok.inj hactB
    · intro o hA
      exact not_skipped_of_completed ops r x HA HB gA hstartC n o hA
        (fun q hq => (ihp q (Or.inl hq)).1) (fun q hq => (ihp q (Or.inl hq)).2.1)
    · intro o hB
      exact not_skipped_of_completed ops r x HB HA gB hstartC n o hB
        (fun q hq o1 o2 h1 h2 => ((ihp q (Or.inl hq)).1 o2 o1 h2 h1).symm) (fun q hq => (ihp q (Or.inl hq)).2.2)

/-- the value handed to a node on the same facts, in two grounded histories, is the same -/
theorem grounded_input_agree {V} (ops : ValOps V) (hm : MergePerm ops) (r : Runner V) (x : V) (rank : Key → Nat)
    (hrank : ∀ n p, (p ∈ lookupList n r.ctrlPreds ∨ p ∈ lookupList n r.dataPreds) → rank p < rank n)
    (hstartC : lookupList START r.ctrlPreds = [])
    (HA HB HA' HB' : List (Done V)) (gA : Grounded ops r x HA) (gB : Grounded ops r x HB)
    (subA : ∀ d, d ∈ HA' → d ∈ HA) (subB : ∀ d, d ∈ HB' → d ∈ HB) (n : Key) (vA vB : V)
    (fA : StartFacts ops r HA' n vA) (fB : StartFacts ops r HB' n vB) : vA = vB := by
  have ag := grounded_agree ops hm r x rank hrank hstartC HA HB gA gB
  exact inputs_agree ops hm r HA HB HA' HB' subA subB n vA vB fA fB
    (fun p _ => (ag p).1) (fun p _ => (ag p).2.1) (fun p _ => (ag p).2.2)

/-! ### the engine's starts have these facts -/

/-- a flagged channel is skipped in the strict sense -/
theorem skOf_skippedS {V} {r : Runner V} {H : List (Done V)} (hd : r.dag = true) (cm : Chans V) (hK : K r H cm)
    (hsh : shapes cm = shapes (initChans r)) (hHC : HasCtrl r) (rank : Key → Nat)
    (hrank : ∀ n cs ds, (n, cs, ds) ∈ shapes (initChans r) → ∀ p, p ∈ cs ∨ p ∈ ds → rank p < rank n) :
    ∀ n, skOf cm n = 1 → SkippedS r H n := by
  intro n
  induction hr : rank n using Nat.strongRecOn generalizing n with
  | _ m ih =>
    intro hs
    unfold skOf at hs
    cases hl : alookup n cm with
    | none => rw [hl] at hs; simp at hs
    | some c =>
      rw [hl] at hs
      have hc := mem_of_alookup _ _ _ hl
      have hsk : c.skipped = true := by
        by_cases h : c.skipped = true
        · exact h
        · simp [h] at hs
      have keys := chan_ctrl_keys r hd cm hsh hK.nd n c hc
      have hshm := shapes_mem cm n c hc
      rw [hsh] at hshm
      have hcne : c.ctrl ≠ [] := by
        intro hnil
        obtain ⟨p, hp⟩ := (hK.sk n c hc).wit hsk hnil
        have := hHC n _ _ hshm (by rw [hnil]; rfl)
        have hm := mem_akeys_of_mem p true _ hp
        rw [this] at hm; simp at hm
      have hne : lookupList n r.ctrlPreds ≠ [] := by
        intro hnil
        cases hcc : c.ctrl with
        | nil => exact hcne hcc
        | cons a b =>
          have := (keys a.1).mpr (by rw [hcc]; simp [akeys])
          rw [hnil] at this; simp at this
      refine SkippedS.intro n hne (fun p hp hnd => ?_)
      have hpk := (keys p).mp hp
      obtain ⟨d, hdm⟩ := exists_of_mem_akeys _ _ hpk
      have hds := (hK.sk n c hc).all hsk p d hdm
      subst hds
      rcases hK.skp n c hc p hdm with h | h
      · have hlt : rank p < rank n := hrank n _ _ hshm p (Or.inl hpk)
        exact ih (rank p) (by rw [← hr]; exact hlt) p rfl h
      · exact absurd h hnd

theorem calcNext_unpack' {V} (ops : ValOps V) (r : Runner V) (hd : r.dag = true) (cm cm' : Chans V)
    (done : List (Done V)) (nx : Next V) (h : calcNext ops r cm done = .ok (cm', nx)) :
    ∃ res ready, resolve r cm done = .ok res ∧
      getReady ops true (updateDeps r (updateValues r res.cm res.writes) res.deps) = (cm', ready, false) ∧
      ((nx = .tasks ready ∧ alookup END ready = none) ∨ ∃ v, nx = .result v ∧ alookup END ready = some v) := by
  unfold calcNext at h
  cases h1 : resolve r cm done with
  | error e => simp [h1, bind, Except.bind] at h
  | ok res =>
    simp only [h1, bind, Except.bind] at h
    rw [hd] at h
    generalize hg : getReady ops true (updateDeps r (updateValues r res.cm res.writes) res.deps) = gr at h
    obtain ⟨cm3, ready, bad⟩ := gr
    simp only at h
    refine ⟨res, ready, rfl, ?_⟩
    by_cases hbad : bad = true
    · simp [hbad, throw, throwThe, MonadExceptOf.throw] at h
    · simp only [hbad, Bool.false_eq_true, ↓reduceIte] at h
      have hb : bad = false := by simpa using hbad
      split at h
      · rename_i v hv
        simp only [pure, Except.pure, Except.ok.injEq, Prod.mk.injEq] at h
        obtain ⟨rfl, rfl⟩ := h
        exact ⟨by rw [hg, hb], Or.inr ⟨v, rfl, hv⟩⟩
      · rename_i hnone
        simp only [pure, Except.pure, Except.ok.injEq, Prod.mk.injEq] at h
        obtain ⟨rfl, rfl⟩ := h
        exact ⟨by rw [hg, hb], Or.inl ⟨rfl, hnone⟩⟩

/-- one round: whatever `getFromReadyChannels` hands out — the next tasks, or END's value — is
    started on facts drawn from the processed completions `H` -/
theorem round_start_facts {V} {F : Key → Nat} (ops : ValOps V) (r : Runner V) (hd : r.dag = true) (hs : SuccOK r)
    (hpc : PredSuccC r) (hpd : PredSuccD r) (hstart : START ∉ akeys (initChans r)) (hk : r.start.key = START)
    (hHC : HasCtrl r) (rank : Key → Nat)
    (hrank : ∀ n cs ds, (n, cs, ds) ∈ shapes (initChans r) → ∀ p, p ∈ cs ∨ p ∈ ds → rank p < rank n)
    (cm cm' : Chans V) (done : List (Done V)) (nx : Next V) (H : List (Done V)) (OldC : Key → V → Prop)
    (hK : K r H cm) (hsh : shapes cm = shapes (initChans r))
    (hdone : ∀ t, t ∈ done → t ∈ H) (hH : ∀ p o, (p, o) ∈ H → OldC p o ∨ (p, o) ∈ done)
    (hfn : ∀ p o o', (p, o) ∈ H → (p, o') ∈ H → o = o')
    (hq : ∀ p, skOf cm p = 1 → RP F cm p)
    (hold : ∀ p o n, OldC p o → RoutesD r p o n → RV F cm n p)
    (hcall : ∀ t, t ∈ done → (r.call? t.1).isSome = true)
    (h : calcNext ops r cm done = .ok (cm', nx)) :
    ∃ ready : List (Key × V),
      ((nx = .tasks ready ∧ alookup END ready = none) ∨ ∃ v, nx = .result v ∧ alookup END ready = some v) ∧
      ∀ n v, (n, v) ∈ ready → F n = 0 → StartFacts ops r H n v := by
  obtain ⟨res, ready, h1, hg, hnx⟩ := calcNext_unpack' ops r hd cm cm' done nx h
  obtain ⟨hr, _⟩ := resolve_K r hd hs hk done hdone { cm := cm, writes := [], deps := [] } res
    ⟨hK, hsh, fun _ _ hm => by simp at hm, fun _ _ hm => by simp at hm⟩ h1
  obtain ⟨u1, u2, _⟩ := updateValues_K r hd res.writes hr.ws res.cm hr.k hr.sh
  obtain ⟨v1, v2, _⟩ := updateDeps_K r hd res.deps hr.ds _ u1 u2
  obtain ⟨m, _, _, _⟩ := reports_after_updates (F := F) r hd hs hpc hpd hstart hk cm done res hK.nd hK.sk hsh hq hcall h1
  have vnew := values_after_updates (F := F) r hd hs hpc hpd hstart hk cm done res hK.nd hK.sk hsh hq hcall h1
  have rv2 : ∀ p o n, (p, o) ∈ H → RoutesD r p o n →
      RV F (updateDeps r (updateValues r res.cm res.writes) res.deps) n p := by
    intro p o n hm hr'
    rcases hH p o hm with h' | h'
    · exact (hold p o n h' hr').mono m
    · exact vnew (p, o) h' n hr'
  have e2 : (getReady ops true (updateDeps r (updateValues r res.cm res.writes) res.deps)).2.1 = ready := by rw [hg]
  refine ⟨ready, hnx, fun n v hnv hF0 => ?_⟩
  rw [← e2] at hnv
  have hjust := getReady_justified ops hd _ v1 v2 rank hrank n v hnv
  obtain ⟨c, hc, ht, hgv⟩ := getReady_src ops _ n v hnv
  obtain ⟨t0, tne, t1, t2⟩ := triggered_unpack c ht
  have t1w : ∀ p, (p, Dep.waiting) ∉ c.ctrl := fun p hm => by have := t1 p _ hm; simp [pendC] at this
  have dkeys := chan_data_keys r hd _ v2 n c hc
  have ckeys := chan_ctrl_keys r hd _ v2 v1.nd n c hc
  have hne : lookupList n r.ctrlPreds ≠ [] := by
    intro hnil
    have hcnil : c.ctrl = [] := by
      cases hcc : c.ctrl with
      | nil => rfl
      | cons a b =>
        have := (ckeys a.1).mpr (by rw [hcc]; simp [akeys])
        rw [hnil] at this; simp at this
    have hshm := shapes_mem _ n c hc
    rw [v2] at hshm
    have hd0 := hHC n _ _ hshm (by rw [hcnil]; rfl)
    have hdnil : c.data = [] := by
      cases hdd : c.data with
      | nil => rfl
      | cons a b => rw [hdd] at hd0; simp [akeys] at hd0
    exact tne ⟨hcnil, hdnil⟩
  refine ⟨hjust.2.1, fun p hp => ?_, fun p hp => ?_, hne, c.values, v1.vnd n c hc, fun p w => ⟨fun hw => v1.val n c hc p w hw, fun ⟨hm, hr'⟩ => ?_⟩, ?_⟩
  · obtain ⟨b, hb⟩ := exists_of_mem_akeys _ _ ((dkeys p).mp hp)
    have hbt : b = true := by
      have := t2 p b hb
      cases b <;> simp_all [pendD]
    subst hbt
    rcases v1.dat n c hc p hb with h' | h'
    · exact Or.inl h'
    · exact Or.inr (skOf_skippedS hd _ v1 v2 hHC rank hrank p h')
  · obtain ⟨d, hdm⟩ := exists_of_mem_akeys _ _ ((ckeys p).mp hp)
    cases d with
    | waiting => exact absurd hdm (t1w p)
    | ready =>
      obtain ⟨o, ho, _⟩ := v1.rdy n c hc p hdm
      exact Or.inl ⟨o, ho⟩
    | skipped =>
      rcases v1.skp n c hc p hdm with h' | ⟨o, ho, _⟩
      · exact Or.inr (skOf_skippedS hd _ v1 v2 hHC rank hrank p h')
      · exact Or.inl ⟨o, ho⟩
  · rcases rv2 p w n hm hr' c hc with h' | h' | h'
    · omega
    · rw [t0] at h'; cases h'
    · obtain ⟨w', hw'⟩ := exists_of_mem_akeys _ _ h'
      have := (v1.val n c hc p w' hw').1
      rw [hfn p w w' hm this]
      exact hw'
  · unfold Chan.get at hgv
    simp only [↓reduceIte, ht] at hgv
    by_cases hv : c.values.isEmpty = true
    · simp only [hv, ↓reduceIte, GetResult.ready.injEq] at hgv
      exact Or.inl ⟨by simpa [List.isEmpty_iff] using hv, hgv.symm⟩
    · simp only [hv, Bool.false_eq_true, ↓reduceIte] at hgv
      exact Or.inr hgv

/-! ### the batch loop: every start has these facts -/

structure FInv {V} (ops : ValOps V) (r : Runner V) (x : V) (cm : Chans V) (tasks : List (Key × V)) (tr : Trace V) : Prop where
  xi : XInv ops r x cm tasks tr
  facts : FactsTr ops r x (tasks :: tr)
  nodes : ∀ t, t ∈ (tasks :: tr).flatten → (r.node? t.1).isSome = true

theorem node_of_call {V} (r : Runner V) (k : Key) (h : (r.call? k).isSome = true) (hne : k ≠ START) :
    (r.node? k).isSome = true := by
  unfold Runner.call? at h
  have : (k == START) = false := by simpa using hne
  simpa [this] using h

theorem FInv_step {V} (ops : ValOps V) (r : Runner V) (wf : DagWF r) (wf2 : DagWF2 r) (wf3 : DagWF3 r)
    (sched : Sched V) (hf : sched.Fair) (x : V)
    (cm cm' : Chans V) (tasks : List (Key × V)) (tr : Trace V) (done : List (Done V)) (nx : Next V)
    (h : FInv ops r x cm tasks tr) (hr : runTasks r sched tr.length tasks = .ok done)
    (hc : calcNext ops r cm done = .ok (cm', nx)) :
    (∀ ts, nx = .tasks ts → FInv ops r x cm' ts (tasks :: tr)) ∧
    (∀ v, nx = .result v → StartFacts ops r (histOf r x (tasks :: tr)) END v) := by
  obtain ⟨rank, hrank, _⟩ := wf3.acyclicAll
  have hperm := runTasks_keys r sched hf _ _ _ hr
  have hK' : K r (histOf r x (tasks :: tr)) cm := K_mono h.xi.c.k.k (histOf_mono r x tasks tr)
  have hdone : ∀ t, t ∈ done → t ∈ histOf r x (tasks :: tr) := by
    intro d hd
    obtain ⟨t, ht, ho⟩ := runTasks_mem r sched hf _ _ _ hr d hd
    simp only [histOf, List.mem_cons, List.flatten_cons, List.filterMap_append, List.mem_append,
      List.mem_filterMap]
    exact Or.inr (Or.inl ⟨t, ht, ho⟩)
  have hH : ∀ p o, (p, o) ∈ histOf r x (tasks :: tr) → (p, o) ∈ histOf r x tr ∨ (p, o) ∈ done := by
    intro p o hm
    simp only [histOf, List.mem_cons, List.flatten_cons, List.filterMap_append, List.mem_append,
      List.mem_filterMap] at hm
    rcases hm with hm | ⟨t, ht, ho⟩ | hm
    · left; simp [histOf, hm]
    · right; exact runTasks_all r sched hf _ _ _ hr t ht (p, o) ho
    · left
      simp only [histOf, List.mem_cons, List.mem_filterMap]
      exact Or.inr hm
  obtain ⟨ready, hnx, hfacts⟩ := round_start_facts (F := fun n => (keysOfTr (tasks :: tr)).count n) ops r wf.dag wf.succ
    wf2.pc wf2.pd wf.startFresh wf.startKey wf3.hasCtrl rank hrank cm cm' done nx
    (histOf r x (tasks :: tr)) (fun p o => (p, o) ∈ histOf r x tr)
    hK' h.xi.c.l.sh hdone hH (hist_functional r wf x cm tasks tr h.xi.c.l) h.xi.c.rq h.xi.rv
    (by
      intro t ht
      have : t.1 ∈ tasks.map (·.1) := hperm.subset (List.mem_map.mpr ⟨t, ht, rfl⟩)
      obtain ⟨t', ht', e⟩ := List.mem_map.mp this
      rw [← e]; exact h.xi.c.call t' ht')
    hc
  -- END has never been started
  have hEnd : (keysOfTr (tasks :: tr)).count END = 0 := by
    apply List.count_eq_zero.mpr
    intro hm
    simp only [keysOfTr, List.mem_map] at hm
    obtain ⟨t, ht, he⟩ := hm
    have := h.nodes t ht
    rw [he] at this
    -- END is not a node key: the channel keys are distinct
    obtain ⟨nd, hnd⟩ := Option.isSome_iff_exists.mp this
    obtain ⟨hmem, hkey⟩ := node?_some r END nd hnd
    have hnodup := wf.nodup
    simp only [initChans, akeys, List.map_append, List.map_map, List.map_cons, List.map_nil] at hnodup
    rw [List.nodup_append] at hnodup
    exact hnodup.2.2 END (List.mem_map.mpr ⟨nd, hmem, by simp [Function.comp, hkey]⟩) END (by simp) rfl
  refine ⟨fun ts hts => ?_, fun v hv => ?_⟩
  · subst hts
    have hready : ready = ts := by
      rcases hnx with ⟨e, _⟩ | ⟨v, e, _⟩
      · cases e; rfl
      · cases e
    subst hready
    have hxi := XInv_step ops r wf wf2 sched hf x cm cm' tasks ready tr done h.xi hr hc
    have hF0 : ∀ t, t ∈ ready → (keysOfTr (tasks :: tr)).count t.1 = 0 := by
      intro t ht
      have hb := linv_bound r wf cm' ready (tasks :: tr) hxi.c.l t.1
      rw [keysOfTr_cons ready, List.count_append] at hb
      have : 0 < (akeys ready).count t.1 := List.count_pos_iff.mpr (mem_akeys_of_mem t.1 t.2 _ ht)
      omega
    refine ⟨hxi, ⟨fun n v hnv => hfacts n v hnv (hF0 (n, v) hnv), h.facts⟩, ?_⟩
    intro t ht
    simp only [List.flatten_cons, List.mem_append] at ht
    rcases ht with ht | ht
    · have hcall := hxi.c.call t ht
      have hne : t.1 ≠ START := by
        intro e
        have hb := hxi.c.l.pos t.1 (by
          rw [keysOfTr_cons ready, List.count_append]
          have : 0 < (akeys ready).count t.1 := List.count_pos_iff.mpr (mem_akeys_of_mem t.1 t.2 _ ht)
          omega)
        obtain ⟨cs, ds, hmm, _⟩ := hb
        have := mem_akeys_of_mem t.1 (cs, ds) _ hmm
        rw [shapes_keys, e] at this
        exact wf.startFresh this
      exact node_of_call r t.1 hcall hne
    · exact h.nodes t (by simpa using ht)
  · have hmem : (END, v) ∈ ready := by
      rcases hnx with ⟨e, _⟩ | ⟨v', e, hl⟩
      · rw [hv] at e; cases e
      · rw [hv] at e; cases e
        exact mem_of_alookup _ _ _ hl
    exact hfacts END v hmem hEnd

theorem FInv_start {V} (ops : ValOps V) (r : Runner V) (wf : DagWF r) (wf2 : DagWF2 r) (wf3 : DagWF3 r) (x : V)
    (cm' : Chans V) (nx : Next V)
    (hc : calcNext ops r (initChans r) [(START, x)] = .ok (cm', nx)) :
    (∀ ts, nx = .tasks ts → FInv ops r x cm' ts []) ∧
    (∀ v, nx = .result v → StartFacts ops r (histOf r x []) END v) := by
  obtain ⟨rank, hrank, _⟩ := wf3.acyclicAll
  have hJ0 := init_J r wf.dag wf.nodup
  have hH : histOf r x ([] : Trace V) = [(START, x)] := by simp [histOf]
  obtain ⟨ready, hnx, hfacts⟩ := round_start_facts (F := fun _ => 0) ops r wf.dag wf.succ
    wf2.pc wf2.pd wf.startFresh wf.startKey wf3.hasCtrl rank hrank (initChans r) cm' [(START, x)] nx
    (histOf r x []) (fun _ _ => False)
    (init_K r wf.dag wf.nodup _) rfl
    (by intro t ht; simp only [List.mem_singleton] at ht; subst ht; simp [histOf])
    (by intro p o hm; right; simpa [histOf] using hm)
    (by
      intro p o o' hm hm'
      simp only [histOf, List.flatten_nil, List.filterMap_nil, List.mem_singleton, Prod.mk.injEq] at hm hm'
      rw [hm.2, hm'.2])
    (fun p hp => by rw [skOf_init r wf.dag p] at hp; cases hp)
    (fun p o n hf => hf.elim)
    (by
      intro t ht
      simp only [List.mem_singleton] at ht
      subst ht
      simp [Runner.call?])
    hc
  refine ⟨fun ts hts => ?_, fun v hv => ?_⟩
  · subst hts
    have hready : ready = ts := by
      rcases hnx with ⟨e, _⟩ | ⟨v, e, _⟩
      · cases e; rfl
      · cases e
    subst hready
    have hxi := XInv_start ops r wf wf2 x cm' ready hc
    refine ⟨hxi, ⟨fun n v hnv => hfacts n v hnv rfl, trivial⟩, ?_⟩
    intro t ht
    simp only [List.flatten_cons, List.flatten_nil, List.append_nil] at ht
    have hcall := hxi.c.call t ht
    have hne : t.1 ≠ START := by
      intro e
      have hb := hxi.c.l.pos t.1 (by
        rw [keysOfTr_cons ready, List.count_append]
        have : 0 < (akeys ready).count t.1 := List.count_pos_iff.mpr (mem_akeys_of_mem t.1 t.2 _ ht)
        omega)
      obtain ⟨cs, ds, hmm, _⟩ := hb
      have := mem_akeys_of_mem t.1 (cs, ds) _ hmm
      rw [shapes_keys, e] at this
      exact wf.startFresh this
    exact node_of_call r t.1 hcall hne
  · have hmem : (END, v) ∈ ready := by
      rcases hnx with ⟨e, _⟩ | ⟨v', e, hl⟩
      · rw [hv] at e; cases e
      · rw [hv] at e; cases e
        exact mem_of_alookup _ _ _ hl
    exact hfacts END v hmem rfl

/-- what a finished run knows about itself -/
structure RunFacts {V} (ops : ValOps V) (r : Runner V) (x : V) (out : Outcome V) : Prop where
  facts : FactsTr ops r x out.trace.reverse
  once : ∀ k, (keysOfTr out.trace.reverse).count k ≤ 1
  noStart : (keysOfTr out.trace.reverse).count START = 0
  nodes : ∀ t, t ∈ out.trace.reverse.flatten → (r.node? t.1).isSome = true
  res : ∀ v, out.result = .ok v → StartFacts ops r (histOf r x out.trace.reverse) END v

theorem finv_runfacts {V} (ops : ValOps V) (r : Runner V) (wf : DagWF r) (x : V) (cm : Chans V)
    (tasks : List (Key × V)) (tr : Trace V) (h : FInv ops r x cm tasks tr) :
    (∀ k, (keysOfTr (tasks :: tr)).count k ≤ 1) ∧ (keysOfTr (tasks :: tr)).count START = 0 := by
  refine ⟨linv_bound r wf cm tasks tr h.xi.c.l, ?_⟩
  by_cases h0 : 0 < (keysOfTr (tasks :: tr)).count START
  · obtain ⟨cs, ds, hmm, _⟩ := h.xi.c.l.pos START h0
    have := mem_akeys_of_mem START (cs, ds) _ hmm
    rw [shapes_keys] at this
    exact absurd this wf.startFresh
  · omega

theorem mkRunFacts {V} (ops : ValOps V) (r : Runner V) (x : V) (L : Trace V) (res : Except Err V)
    (hf : FactsTr ops r x L) (h1 : ∀ k, (keysOfTr L).count k ≤ 1) (h2 : (keysOfTr L).count START = 0)
    (h3 : ∀ t, t ∈ L.flatten → (r.node? t.1).isSome = true)
    (h4 : ∀ v, res = .ok v → StartFacts ops r (histOf r x L) END v) :
    RunFacts ops r x { result := res, trace := L.reverse } := by
  refine ⟨?_, ?_, ?_, ?_, ?_⟩ <;> simp only [List.reverse_reverse] <;> assumption

theorem loop_facts {V} (ops : ValOps V) (r : Runner V) (wf : DagWF r) (wf2 : DagWF2 r) (wf3 : DagWF3 r)
    (sched : Sched V) (hf : sched.Fair) (x : V) :
    ∀ (fuel : Nat) (cm : Chans V) (tasks : List (Key × V)) (tr : Trace V), FInv ops r x cm tasks tr →
      RunFacts ops r x (loop ops r sched fuel cm tasks tr) := by
  intro fuel
  induction fuel with
  | zero =>
    intro cm tasks tr h
    obtain ⟨b1, b2⟩ := finv_runfacts ops r wf x cm tasks tr h
    simp only [loop]
    apply mkRunFacts ops r x tr _ h.facts.2
    · intro k; have := b1 k; rw [keysOfTr_cons, List.count_append] at this; omega
    · rw [keysOfTr_cons, List.count_append] at b2; omega
    · intro t ht; exact h.nodes t (by simp only [List.flatten_cons, List.mem_append]; exact Or.inr ht)
    · intro v hv; cases hv
  | succ f ih =>
    intro cm tasks tr h
    obtain ⟨b1, b2⟩ := finv_runfacts ops r wf x cm tasks tr h
    have stop : ∀ (e : Err), RunFacts ops r x { result := .error e, trace := (tasks :: tr).reverse } :=
      fun e => mkRunFacts ops r x (tasks :: tr) _ h.facts b1 b2 h.nodes (fun v hv => by cases hv)
    unfold loop
    simp only
    cases hr : runTasks r sched tr.length tasks with
    | error e => exact stop _
    | ok done =>
      simp only
      by_cases he : done.isEmpty = true
      · simp only [he, ↓reduceIte]; exact stop _
      · simp only [he, Bool.false_eq_true, ↓reduceIte]
        cases hc : calcNext ops r cm done with
        | error e => exact stop _
        | ok res =>
          obtain ⟨cm', nx⟩ := res
          obtain ⟨s1, s2⟩ := FInv_step ops r wf wf2 wf3 sched hf x cm cm' tasks tr done nx h hr hc
          cases nx with
          | result v =>
            simp only
            apply mkRunFacts ops r x (tasks :: tr) _ h.facts b1 b2 h.nodes
            intro w hw
            simp only [Except.ok.injEq] at hw
            subst hw
            exact s2 v rfl
          | tasks ts =>
            simp only
            exact ih cm' ts (tasks :: tr) (s1 ts rfl)

theorem run_facts {V} (ops : ValOps V) (r : Runner V) (wf : DagWF r) (wf2 : DagWF2 r) (wf3 : DagWF3 r)
    (sched : Sched V) (hf : sched.Fair) (x : V) : RunFacts ops r x (runS ops r sched x) := by
  unfold runS
  have empty : ∀ (res : Except Err V), (∀ v, res = .ok v → StartFacts ops r (histOf r x []) END v) →
      RunFacts ops r x { result := res, trace := [] } := by
    intro res h4
    have := mkRunFacts ops r x [] res trivial (fun k => by simp [keysOfTr]) (by simp [keysOfTr])
      (fun t ht => by simp at ht) h4
    simpa using this
  cases hc : calcNext ops r (initChans r) [(START, x)] with
  | error e => exact empty _ (fun v hv => by cases hv)
  | ok res =>
    obtain ⟨cm', nx⟩ := res
    obtain ⟨s1, s2⟩ := FInv_start ops r wf wf2 wf3 x cm' nx hc
    cases nx with
    | result v =>
      simp only
      apply empty
      intro w hw
      simp only [Except.ok.injEq] at hw
      subst hw
      exact s2 v rfl
    | tasks ts =>
      simp only
      exact loop_facts ops r wf wf2 wf3 sched hf x _ cm' ts [] (s1 ts rfl)

/-! ### the history of a run is grounded; two runs agree -/

theorem factsTr_mem {V} (ops : ValOps V) (r : Runner V) (x : V) (L : Trace V) (h : FactsTr ops r x L) :
    ∀ n v, (n, v) ∈ L.flatten → ∃ H', (∀ d, d ∈ H' → d ∈ histOf r x L) ∧ StartFacts ops r H' n v := by
  induction L with
  | nil => intro n v hm; simp at hm
  | cons step older ih =>
    intro n v hm
    simp only [List.flatten_cons, List.mem_append] at hm
    rcases hm with hm | hm
    · exact ⟨histOf r x older, histOf_mono r x step older, h.1 n v hm⟩
    · obtain ⟨H', sub, f⟩ := ih h.2 n v hm
      exact ⟨H', fun d hd => histOf_mono r x step older d (sub d hd), f⟩

theorem grounded_of_run {V} (ops : ValOps V) (r : Runner V) (x : V) (L : Trace V)
    (hf : FactsTr ops r x L) (h1 : ∀ k, (keysOfTr L).count k ≤ 1) (h2 : (keysOfTr L).count START = 0)
    (h3 : ∀ t, t ∈ L.flatten → (r.node? t.1).isSome = true) : Grounded ops r x (histOf r x L) := by
  have task_of : ∀ p o, (p, o) ∈ histOf r x L → (p, o) = (START, x) ∨ ∃ t, t ∈ L.flatten ∧ outOf r t = some (p, o) := by
    intro p o hm
    simp only [histOf, List.mem_cons, List.mem_filterMap] at hm
    rcases hm with hm | ⟨t, ht, ho⟩
    · exact Or.inl hm
    · exact Or.inr ⟨t, ht, ho⟩
  have nostart : ∀ t, t ∈ L.flatten → t.1 ≠ START := by
    intro t ht e
    have : START ∈ keysOfTr L := by
      simp only [keysOfTr, List.mem_map]; exact ⟨t, ht, e⟩
    have := List.count_pos_iff.mpr this
    omega
  refine ⟨?_, ?_, ?_⟩
  · intro p o o' hm hm'
    rcases task_of p o hm with e | ⟨t, ht, ho⟩
    · rcases task_of p o' hm' with e' | ⟨t', ht', ho'⟩
      · rw [(Prod.mk.inj e).2, (Prod.mk.inj e').2]
      · exact absurd (by rw [← outOf_key r t' (p, o') ho']; exact (Prod.mk.inj e).1) (nostart t' ht')
    · rcases task_of p o' hm' with e' | ⟨t', ht', ho'⟩
      · exact absurd (by rw [← outOf_key r t (p, o) ho]; exact (Prod.mk.inj e').1) (nostart t ht)
      · have k1 := outOf_key r t (p, o) ho
        have k2 := outOf_key r t' (p, o') ho'
        simp only at k1 k2
        have : t = t' := unique_by_key L.flatten p (by simpa [keysOfTr, akeys] using h1 p) t t' ht ht' k1.symm k2.symm
        subst this
        rw [ho] at ho'
        exact (Prod.mk.inj (Option.some.inj ho')).2
  · intro o hm
    rcases task_of START o hm with e | ⟨t, ht, ho⟩
    · exact (Prod.mk.inj e).2
    · exact absurd (outOf_key r t (START, o) ho).symm (nostart t ht)
  · intro n o hm hns
    rcases task_of n o hm with e | ⟨t, ht, ho⟩
    · exact absurd (Prod.mk.inj e).1 hns
    · have hk := outOf_key r t (n, o) ho
      simp only at hk
      obtain ⟨H', sub, f⟩ := factsTr_mem ops r x L hf t.1 t.2 ht
      obtain ⟨nd, hnd⟩ := Option.isSome_iff_exists.mp (h3 t ht)
      refine ⟨t.2, H', sub, by rw [hk]; exact f, nd, by rw [hk]; exact hnd, ?_⟩
      -- the output is the node body's result
      unfold outOf collectOne execOne at ho
      simp only [hnd] at ho
      cases ha : nd.act t.2 with
      | error e => simp [ha] at ho
      | ok o' =>
        simp only [ha, Option.some.injEq, Prod.mk.injEq] at ho
        rw [ho.2]

/-- **the result does not depend on the completion schedule.**  Two runs of one well-formed acyclic
    all-predecessor runner on one input, under two fair completion schedules, with an
    order-insensitive merge: if both return a value, it is the same value. -/
theorem run_result_sched_independent {V} (ops : ValOps V) (hm : MergePerm ops) (r : Runner V)
    (wf : DagWF r) (wf2 : DagWF2 r) (wf3 : DagWF3 r) (sA sB : Sched V) (hfA : sA.Fair) (hfB : sB.Fair)
    (x vA vB : V) (hA : (runS ops r sA x).result = .ok vA) (hB : (runS ops r sB x).result = .ok vB) : vA = vB := by
  obtain ⟨rank, _, hrank⟩ := wf3.acyclicAll
  have fa := run_facts ops r wf wf2 wf3 sA hfA x
  have fb := run_facts ops r wf wf2 wf3 sB hfB x
  have gA := grounded_of_run ops r x _ fa.facts fa.once fa.noStart fa.nodes
  have gB := grounded_of_run ops r x _ fb.facts fb.once fb.noStart fb.nodes
  exact grounded_input_agree ops hm r x rank hrank wf3.startNoPreds _ _ _ _ gA gB
    (fun _ h => h) (fun _ h => h) END vA vB (fa.res vA hA) (fb.res vB hB)

/-- and the executed nodes agree: a node that completed in both runs completed with the same output -/
theorem run_outputs_sched_independent {V} (ops : ValOps V) (hm : MergePerm ops) (r : Runner V)
    (wf : DagWF r) (wf2 : DagWF2 r) (wf3 : DagWF3 r) (sA sB : Sched V) (hfA : sA.Fair) (hfB : sB.Fair) (x : V)
    (n : Key) (o o' : V)
    (hA : (n, o) ∈ histOf r x (runS ops r sA x).trace.reverse)
    (hB : (n, o') ∈ histOf r x (runS ops r sB x).trace.reverse) : o = o' := by
  obtain ⟨rank, _, hrank⟩ := wf3.acyclicAll
  have fa := run_facts ops r wf wf2 wf3 sA hfA x
  have fb := run_facts ops r wf wf2 wf3 sB hfB x
  have gA := grounded_of_run ops r x _ fa.facts fa.once fa.noStart fa.nodes
  have gB := grounded_of_run ops r x _ fb.facts fb.once fb.noStart fb.nodes
  exact (grounded_agree ops hm r x rank hrank wf3.startNoPreds _ _ gA gB n).1 o o' hA hB

theorem dagWF3b_sound {V} (r : Runner V) (h : dagWF3b r = true) : DagWF3 r := by
  simp only [dagWF3b, Bool.and_eq_true, List.all_eq_true, Bool.or_eq_true, Bool.not_eq_eq_eq_not, Bool.not_true,
    List.isEmpty_iff, decide_eq_true_eq, List.mem_append] at h
  obtain ⟨⟨⟨h1, h2⟩, h3⟩, h4⟩ := h
  refine ⟨?_, h2, ⟨rankOf (shapes (initChans r)), ?_, ?_⟩⟩
  · intro n cs ds hm hcs
    rcases h1 (n, cs, ds) hm with h | h
    · simp only [List.isEmpty_eq_false_iff] at h
      exact absurd hcs h
    · exact h
  · intro n cs ds hm p hp
    exact h3 (n, cs, ds) hm p (by simpa using hp)
  · intro n p hp
    rcases hp with hp | hp
    · unfold lookupList at hp
      cases hl : alookup n r.ctrlPreds with
      | none => rw [hl] at hp; simp at hp
      | some l =>
        rw [hl] at hp
        exact h4 (n, l) (Or.inl (mem_of_alookup _ _ _ hl)) p hp
    · unfold lookupList at hp
      cases hl : alookup n r.dataPreds with
      | none => rw [hl] at hp; simp at hp
      | some l =>
        rw [hl] at hp
        exact h4 (n, l) (Or.inr (mem_of_alookup _ _ _ hl)) p hp

end DagRun
end EinoV.Engine
