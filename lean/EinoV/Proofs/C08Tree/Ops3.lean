/-
  C08 — every operation keeps the network well formed, part 3: `MergeStreamReaders`.
-/
import EinoV.Proofs.C08Tree.Ops2
set_option linter.unusedVariables false
namespace EinoV.C08


/-! ## `MergeStreamReaders` -/

theorem setNode_shp? {net : Net} {r : Nat} (hr : r < net.nodes.size) (x : Node) (k : Nat) :
    (net.setNode r x).shp? k = if k = r then some x.shp else net.shp? k := by
  unfold Net.shp?
  rw [setNode_get]
  by_cases e : r = k
  · subst e; simp [hr]
  · have : ¬ k = r := fun h => e h.symm
    simp [e, this]

/-- an absorbed node that nobody consumes can be removed -/
theorem ShInv.kill {net : Net} (i : ShInv net) {r : Nat} (hr : r < net.nodes.size) (hfree : Free net r)
    (hcell : ∀ src n, net.shp? r ≠ some (.parent src n)) : ShInv (net.setNode r .dead) := by
  have old : ∀ {j s}, (net.setNode r .dead).shp? j = some s → j ≠ r → net.shp? j = some s := by
    intro j s h hne; rw [setNode_shp? hr] at h; simpa [hne] using h
  have new : ∀ {s}, (net.setNode r .dead).shp? r = some s → s = .dead := by
    intro s h; rw [setNode_shp? hr] at h; simpa [Node.shp] using h.symm
  refine ShInv.ofTyped ?_ ?_ ?_ ?_ ?_
  · intro j s u hj hu
    by_cases e : j = r
    · subst e; rw [new hj] at hu; simp [Shp.uses, Shp.par?] at hu
    · exact i.lt j u ⟨s, old hj e, hu⟩
  · intro j s hj
    by_cases e : j = r
    · subst e; rw [new hj]; trivial
    · have h0 := old hj e
      refine (i.typed h0).mono fun k hk => ?_
      rw [setNode_shp? hr]
      have : k ≠ r := by
        rintro rfl
        rcases hk with hk | hk
        · exact hfree j s h0 hk
        · cases s <;> simp [Shp.par?] at hk
          subst hk
          obtain ⟨src, n, hp, _⟩ := i.typed h0
          exact hcell src n hp
      simp [this]
  · intro j j' s s' u hj hj' hu hu'
    by_cases e : j = r
    · subst e; rw [new hj] at hu; simp [Shp.uses] at hu
    · by_cases e' : j' = r
      · subst e'; rw [new hj'] at hu'; simp [Shp.uses] at hu'
      · exact i.lin j j' s s' u (old hj e) (old hj' e') hu hu'
  · intro j s hj
    by_cases e : j = r
    · subst e; rw [new hj]; simp [Shp.uses]
    · exact i.usesNodup j s (old hj e)
  · intro j j' par idx hj hj'
    by_cases e : j = r
    · subst e; have := new hj; cases this
    · by_cases e' : j' = r
      · subst e'; have := new hj'; cases this
      · exact i.childUniq j j' par idx (old hj e) (old hj' e')

theorem Free.kill {net : Net} {u r : Nat} (hr : r < net.nodes.size) (h : Free net u) : Free (net.setNode r .dead) u := by
  intro j s hj
  rw [setNode_shp? hr] at hj
  split at hj
  · cases hj; simp [Node.shp, Shp.uses]
  · exact h j s hj

/-- the loop body of `mkMerge` -/
def mstep (acc : Net × List Nat × List Item) (r : Nat) : Option (Net × List Nat × List Item) :=
  match acc.1.nodes[r]? with
  | some (.pipe _) => some (acc.1, acc.2.1 ++ [r], acc.2.2)
  | some (.arr rest) => some (acc.1, acc.2.1, acc.2.2 ++ rest)
  | some (.merge sts _) => some (acc.1.setNode r .dead, acc.2.1 ++ sts, acc.2.2)
  | some (.conv _ _) | some (.child _ _) =>
    let r' := acc.1.push (.fpipe r .running)
    some (r'.1, acc.2.1 ++ [r'.2], acc.2.2)
  | _ => none

theorem mkMerge_eq (net : Net) (rs : List Nat) :
    mkMerge net rs =
      (rs.foldlM mstep (net, [], [])).bind fun (x : Net × List Nat × List Item) =>
        if x.2.1.isEmpty && !x.2.2.isEmpty then some (x.1.push (.arr x.2.2))
        else
          let y : Net × List Nat :=
            if !x.2.2.isEmpty then
              let r := x.1.push (.pipe ⟨x.2.2.length, x.2.2, true, false⟩)
              (r.1, x.2.1 ++ [r.2])
            else (x.1, x.2.1)
          some (y.1.push (.merge y.2 (List.range y.2.length))) := by
  rfl



def IsSrcShp (net : Net) (u : Nat) : Prop :=
  net.shp? u = some .pipe ∨ ∃ src, net.shp? u = some (.fpipe src)

/-- invariant of the loop of `mkMerge`: `dn` = the readers absorbed so far, `ss` = the collected sources -/
structure MFold (net0 n : Net) (ss dn : List Nat) : Prop where
  sh : ShInv n
  st : StInv n
  rdrs : n.readers = net0.readers
  held : ∀ r ∈ net0.readers, r ∉ dn → Free n r ∧ ∃ t, n.shp? r = some t ∧ t.isReader = true
  ssOk : ∀ u ∈ ss, IsSrcShp n u ∧ Free n u ∧ ¬ (u ∈ net0.readers ∧ u ∉ dn)
  ssNd : ss.Nodup

theorem MFold.init {net : Net} (i : Inv net) : MFold net net [] [] :=
  ⟨i.sh, i.st, rfl, fun r hr _ => ⟨i.rd.free' hr, i.rd.kind r hr⟩, fun u hu => by simp at hu, List.nodup_nil⟩

theorem mstep_inv {net0 n n' : Net} {ss ss' dn : List Nat} {arr arr' : List Item} {r : Nat}
    (m : MFold net0 n ss dn) (hr : r ∈ net0.readers) (hd : r ∉ dn)
    (h : mstep (n, ss, arr) r = some (n', ss', arr')) : MFold net0 n' ss' (r :: dn) := by
  obtain ⟨hfr, t, ht, hk⟩ := m.held r hr hd
  have hlt := shp?_lt ht
  have hrss : r ∉ ss := fun hm => (m.ssOk r hm).2.2 ⟨hr, hd⟩
  unfold mstep at h
  simp only at h
  split at h
  · -- pipe
    rename_i p hp
    simp at h; obtain ⟨rfl, rfl, rfl⟩ := h
    refine ⟨m.sh, m.st, m.rdrs, fun r' hr' hd' => m.held r' hr' (fun hm => hd' (by simp [hm])), ?_, ?_⟩
    · intro u hu
      simp at hu
      rcases hu with hu | rfl
      · obtain ⟨h1, h2, h3⟩ := m.ssOk u hu
        exact ⟨h1, h2, fun ⟨a, b⟩ => h3 ⟨a, fun hm => b (by simp [hm])⟩⟩
      · exact ⟨.inl (shp?_some hp), hfr, fun ⟨_, b⟩ => b (by simp)⟩
    · exact nodup_append_new m.ssNd hrss
  · -- array
    rename_i rest hp
    simp at h; obtain ⟨rfl, rfl, rfl⟩ := h
    refine ⟨m.sh, m.st, m.rdrs, fun r' hr' hd' => m.held r' hr' (fun hm => hd' (by simp [hm])), ?_, m.ssNd⟩
    intro u hu
    obtain ⟨h1, h2, h3⟩ := m.ssOk u hu
    exact ⟨h1, h2, fun ⟨a, b⟩ => h3 ⟨a, fun hm => b (by simp [hm])⟩⟩
  · -- a merged reader is absorbed
    rename_i sts ch hp
    simp at h; obtain ⟨rfl, rfl, rfl⟩ := h
    have hsm := shp?_some hp
    have keep : ∀ k, k ≠ r → (n.setNode r .dead).shp? k = n.shp? k := by
      intro k hk; rw [setNode_shp? hlt]; simp [hk]
    have hsts_ne : ∀ u ∈ sts, u ≠ r := by
      intro u hu e; rw [e] at hu
      exact hfr r _ hsm (by simpa [Node.shp, Shp.uses] using hu)
    refine ⟨m.sh.kill hlt hfr (by intro src k; rw [hsm]; simp [Node.shp]), m.st.setNode (by trivial) _, m.rdrs, ?_, ?_, ?_⟩
    · intro r' hr' hd'
      simp at hd'
      obtain ⟨h1, t', ht', hk'⟩ := m.held r' hr' hd'.2
      exact ⟨h1.kill hlt, t', by rw [keep r' hd'.1]; exact ht', hk'⟩
    · intro u hu
      simp at hu
      rcases hu with hu | hu
      · obtain ⟨h1, h2, h3⟩ := m.ssOk u hu
        have hne : u ≠ r := by rintro rfl; exact hrss hu
        refine ⟨?_, h2.kill hlt, fun ⟨a, b⟩ => h3 ⟨a, fun hm => b (by simp [hm])⟩⟩
        unfold IsSrcShp; rw [keep u hne]; exact h1
      · have hne := hsts_ne u hu
        refine ⟨?_, ?_, ?_⟩
        · unfold IsSrcShp; rw [keep u hne]
          exact m.sh.mergeSrc r sts u hsm hu
        · intro j s hj hju
          rw [setNode_shp? hlt] at hj
          split at hj
          · cases hj; simp [Node.shp, Shp.uses] at hju
          · rename_i hjr
            have := m.sh.lin j r s _ u hj hsm hju (by simpa [Node.shp, Shp.uses] using hu)
            exact hjr this
        · rintro ⟨a, b⟩
          simp at b
          exact (m.held u a b.2).1 r _ hsm (by simpa [Node.shp, Shp.uses] using hu)
    · rw [List.nodup_append]
      refine ⟨m.ssNd, by simpa [Node.shp, Shp.uses] using m.sh.usesNodup r _ hsm, ?_⟩
      intro a ha b hb e; subst e
      exact (m.ssOk a ha).2.1 r _ hsm (by simpa [Node.shp, Shp.uses] using hb)
  · -- convert: a forwarder
    rename_i src g hp
    simp at h; obtain ⟨rfl, rfl, rfl⟩ := h
    have hx : (Node.fpipe r .running).shp.uses = [r] := rfl
    refine ⟨?_, m.st.push (by trivial), by simp [m.rdrs], ?_, ?_, ?_⟩
    · refine m.sh.push _ ?_ ⟨t, ht, hk⟩ ?_ (by simp [hx]) (by intro par idx e; simp [Node.shp] at e)
      · intro u hu; simp [Node.shp, Shp.uses, Shp.par?] at hu; subst hu; exact hlt
      · intro u hu; simp [Node.shp, Shp.uses] at hu; subst hu; exact hfr
    · intro r' hr' hd'
      simp at hd'
      obtain ⟨h1, t', ht', hk'⟩ := m.held r' hr' hd'.2
      exact ⟨h1.push _ (by simpa [hx] using hd'.1), t', push_shp?_old _ ht', hk'⟩
    · intro u hu
      simp at hu
      rcases hu with hu | rfl
      · obtain ⟨h1, h2, h3⟩ := m.ssOk u hu
        have hne : u ≠ r := by rintro rfl; exact hrss hu
        refine ⟨?_, h2.push _ (by simpa [hx] using hne), fun ⟨a, b⟩ => h3 ⟨a, fun hm => b (by simp [hm])⟩⟩
        rcases h1 with h1 | ⟨s, h1⟩
        · exact .inl (push_shp?_old _ h1)
        · exact .inr ⟨s, push_shp?_old _ h1⟩
      · refine ⟨.inr ⟨r, by rw [push_shp?]; simp [Node.shp]⟩, ?_, ?_⟩
        · exact free_new m.sh _ (by intro u hu; simp [hx] at hu; subst hu; exact hlt)
        · rintro ⟨a, b⟩
          simp at b
          obtain ⟨_, t', ht', _⟩ := m.held _ a b.2
          have := shp?_lt ht'; omega
    · refine nodup_append_new m.ssNd (fun hm => ?_)
      rcases (m.ssOk _ hm).1 with h1 | ⟨s, h1⟩ <;> (have := shp?_lt h1; simp at this)
  · -- copy child: a forwarder
    rename_i par idx hp
    simp at h; obtain ⟨rfl, rfl, rfl⟩ := h
    have hx : (Node.fpipe r .running).shp.uses = [r] := rfl
    refine ⟨?_, m.st.push (by trivial), by simp [m.rdrs], ?_, ?_, ?_⟩
    · refine m.sh.push _ ?_ ⟨t, ht, hk⟩ ?_ (by simp [hx]) (by intro par idx e; simp [Node.shp] at e)
      · intro u hu; simp [Node.shp, Shp.uses, Shp.par?] at hu; subst hu; exact hlt
      · intro u hu; simp [Node.shp, Shp.uses] at hu; subst hu; exact hfr
    · intro r' hr' hd'
      simp at hd'
      obtain ⟨h1, t', ht', hk'⟩ := m.held r' hr' hd'.2
      exact ⟨h1.push _ (by simpa [hx] using hd'.1), t', push_shp?_old _ ht', hk'⟩
    · intro u hu
      simp at hu
      rcases hu with hu | rfl
      · obtain ⟨h1, h2, h3⟩ := m.ssOk u hu
        have hne : u ≠ r := by rintro rfl; exact hrss hu
        refine ⟨?_, h2.push _ (by simpa [hx] using hne), fun ⟨a, b⟩ => h3 ⟨a, fun hm => b (by simp [hm])⟩⟩
        rcases h1 with h1 | ⟨s, h1⟩
        · exact .inl (push_shp?_old _ h1)
        · exact .inr ⟨s, push_shp?_old _ h1⟩
      · refine ⟨.inr ⟨r, by rw [push_shp?]; simp [Node.shp]⟩, ?_, ?_⟩
        · exact free_new m.sh _ (by intro u hu; simp [hx] at hu; subst hu; exact hlt)
        · rintro ⟨a, b⟩
          simp at b
          obtain ⟨_, t', ht', _⟩ := m.held _ a b.2
          have := shp?_lt ht'; omega
    · refine nodup_append_new m.ssNd (fun hm => ?_)
      rcases (m.ssOk _ hm).1 with h1 | ⟨s, h1⟩ <;> (have := shp?_lt h1; simp at this)
  · cases h




theorem mfold_inv {net0 : Net} : ∀ (rs : List Nat) (n : Net) (ss : List Nat) (arr : List Item) (dn : List Nat)
    {n1 : Net} {ss1 : List Nat} {arr1 : List Item},
    MFold net0 n ss dn → (∀ r ∈ rs, r ∈ net0.readers ∧ r ∉ dn) → rs.Nodup →
    rs.foldlM mstep (n, ss, arr) = some (n1, ss1, arr1) →
    ∃ dn1, MFold net0 n1 ss1 dn1 ∧ ∀ x, x ∈ dn1 ↔ (x ∈ rs ∨ x ∈ dn) := by
  intro rs
  induction rs with
  | nil =>
    intro n ss arr dn n1 ss1 arr1 m _ _ h
    simp at h; obtain ⟨rfl, rfl, rfl⟩ := h
    exact ⟨dn, m, by simp⟩
  | cons r rest ih =>
    intro n ss arr dn n1 ss1 arr1 m hrs hnd h
    simp only [List.foldlM_cons, Option.bind_eq_bind, Option.bind_eq_some_iff] at h
    obtain ⟨⟨n', ss', arr'⟩, h1, h2⟩ := h
    rw [List.nodup_cons] at hnd
    have hr := hrs r (by simp)
    have m' := mstep_inv m hr.1 hr.2 h1
    obtain ⟨dn1, m1, hdn⟩ := ih n' ss' arr' (r :: dn) m'
      (fun r' hr' => ⟨(hrs r' (by simp [hr'])).1, by
        simp; exact ⟨fun e => hnd.1 (e ▸ hr'), (hrs r' (by simp [hr'])).2⟩⟩) hnd.2 h2
    refine ⟨dn1, m1, fun x => ?_⟩
    rw [hdn]; simp only [List.mem_cons]
    constructor
    · rintro (h | h | h)
      · exact .inl (.inr h)
      · exact .inl (.inl h)
      · exact .inr h
    · rintro ((h | h) | h)
      · exact .inr (.inl h)
      · exact .inl h
      · exact .inr (.inr h)

theorem allDistinct_nodup : ∀ {l : List Nat}, allDistinct l = true → l.Nodup
  | [], _ => List.nodup_nil
  | x :: xs, h => by
    simp [allDistinct] at h
    exact List.nodup_cons.mpr ⟨h.1, allDistinct_nodup h.2⟩

theorem MFold.srcLt {net0 n : Net} {ss dn : List Nat} (m : MFold net0 n ss dn) {u : Nat} (hu : u ∈ ss) :
    u < n.nodes.size := by
  rcases (m.ssOk u hu).1 with h | ⟨s, h⟩ <;> exact shp?_lt h

/-- the reader that `mkMerge` finally pushes -/
theorem MFold.final {net0 n : Net} {ss dn : List Nat} (m : MFold net0 n ss dn) (x : Node)
    (hxr : x.shp.isReader = true) (hpar : x.shp.par? = none) (huse : ∀ u ∈ x.shp.uses, u ∈ ss)
    (hnd : x.shp.uses.Nodup) (htyp : Typed n x.shp) (hok : NodeOK x)
    (R W : List Nat) (hR : ∀ r ∈ R, r ∈ net0.readers ∧ r ∉ dn) (hRnd : R.Nodup) :
    Inv { (n.push x).1 with readers := R ++ [n.nodes.size], writers := W } := by
  have hlt : ∀ u, (u ∈ x.shp.uses ∨ x.shp.par? = some u) → u < n.nodes.size := by
    intro u hu
    rcases hu with hu | hu
    · exact m.srcLt (huse u hu)
    · rw [hpar] at hu; cases hu
  have sh : ShInv (n.push x).1 := m.sh.push x hlt htyp (fun u hu => (m.ssOk u (huse u hu)).2.1) hnd
    (by intro par idx e; rw [e] at hpar; simp [Shp.par?] at hpar)
  refine ⟨(sameShape_with _ _ W).shInv sh, ?_, (m.st.push hok).with _ W⟩
  constructor
  · intro r hr j s hj
    change (n.push x).1.shp? j = some s at hj
    simp at hr
    rcases hr with hr | rfl
    · obtain ⟨h1, h2⟩ := hR r hr
      refine (m.held r h1 h2).1.push x (fun hu => ?_) j s hj
      exact (m.ssOk r (huse r hu)).2.2 ⟨h1, h2⟩
    · exact free_new m.sh x (fun u hu => hlt u (.inl hu)) j s hj
  · intro r hr
    change ∃ t, (n.push x).1.shp? r = some t ∧ _
    simp at hr
    rcases hr with hr | rfl
    · obtain ⟨h1, h2⟩ := hR r hr
      obtain ⟨_, t, ht, hk⟩ := m.held r h1 h2
      exact ⟨t, push_shp?_old x ht, hk⟩
    · exact ⟨x.shp, by rw [push_shp?]; simp, hxr⟩
  · refine nodup_append_new hRnd (fun hm => ?_)
    obtain ⟨h1, h2⟩ := hR _ hm
    obtain ⟨_, t, ht, _⟩ := m.held _ h1 h2
    have := shp?_lt ht; omega

/-- the pipe `mkMerge` fills with the items of the merged arrays -/
theorem MFold.pushPipe {net0 n : Net} {ss dn : List Nat} (m : MFold net0 n ss dn) (p : Pipe) :
    MFold net0 (n.push (.pipe p)).1 (ss ++ [n.nodes.size]) dn := by
  refine ⟨?_, m.st.push (by trivial), by simp [m.rdrs], ?_, ?_, ?_⟩
  · exact m.sh.push _ (by intro u hu; simp [Node.shp, Shp.uses, Shp.par?] at hu) trivial
      (by intro u hu; simp [Node.shp, Shp.uses] at hu) (by simp [Node.shp, Shp.uses])
      (by intro par idx e; simp [Node.shp] at e)
  · intro r hr hd
    obtain ⟨h1, t, ht, hk⟩ := m.held r hr hd
    exact ⟨h1.push _ (by simp [Node.shp, Shp.uses]), t, push_shp?_old _ ht, hk⟩
  · intro u hu
    simp at hu
    rcases hu with hu | rfl
    · obtain ⟨h1, h2, h3⟩ := m.ssOk u hu
      refine ⟨?_, h2.push _ (by simp [Node.shp, Shp.uses]), h3⟩
      rcases h1 with h1 | ⟨s, h1⟩
      · exact .inl (push_shp?_old _ h1)
      · exact .inr ⟨s, push_shp?_old _ h1⟩
    · refine ⟨.inl (by rw [push_shp?]; simp [Node.shp]), ?_, ?_⟩
      · exact free_new m.sh _ (by intro u hu; simp [Node.shp, Shp.uses] at hu)
      · rintro ⟨a, b⟩
        obtain ⟨_, t, ht, _⟩ := m.held _ a b
        have := shp?_lt ht; omega
  · exact nodup_append_new m.ssNd (fun hm => by have := m.srcLt hm; omega)

theorem MFold.mergeInv {net0 n : Net} {ss dn : List Nat} (m : MFold net0 n ss dn)
    (R W : List Nat) (hR : ∀ r ∈ R, r ∈ net0.readers ∧ r ∉ dn) (hRnd : R.Nodup) :
    Inv { (n.push (.merge ss (List.range ss.length))).1 with readers := R ++ [n.nodes.size], writers := W } := by
  refine m.final _ rfl rfl (by intro u hu; simpa [Node.shp, Shp.uses] using hu)
    (by simpa [Node.shp, Shp.uses] using m.ssNd) ?_ ?_ R W hR hRnd
  · intro sid hs; exact (m.ssOk sid hs).1
  · exact ⟨fun sb hsb => by simpa using hsb, List.nodup_range⟩

theorem Inv.of_eq {a b : Net} (h : Inv a) (hn : b.nodes = a.nodes) (hr : b.readers = a.readers) : Inv b := by
  have ss : SameShape a b := ⟨by rw [hn], fun k => by unfold Net.shp?; rw [hn]⟩
  refine ⟨ss.shInv h.sh, ss.rdInv hr h.rd, ?_⟩
  have := h.st
  rw [stInv_iff] at this ⊢
  intro j nd hj; rw [hn] at hj; exact this j nd hj

theorem applyOp_merge_inv {F : Facts} {fuel : Nat} {net net' : Net} {rs : List Nat} {cr : List Nat}
    (i : Inv net) (h : applyOp F fuel net (.merge rs) = .ok (net', cr)) : Inv net' := by
  simp only [applyOp] at h
  split at h
  · cases h; exact i
  · split at h
    · cases h
    · rename_i hc
      simp only [Bool.or_eq_true, Bool.not_eq_true', not_or, Bool.not_eq_false] at hc
      obtain ⟨⟨_, hdist⟩, hall⟩ := hc
      have hnd : rs.Nodup := allDistinct_nodup (by simpa using hdist)
      have hin : ∀ r ∈ rs, r ∈ net.readers := by
        intro r hr
        have := List.all_eq_true.mp hall r hr
        simpa using this
      split at h
      · cases h
      · rename_i n2 id hm
        cases h
        rw [mkMerge_eq] at hm
        simp only [Option.bind_eq_some_iff] at hm
        obtain ⟨⟨n1, ss1, arr1⟩, hf, hfin⟩ := hm
        obtain ⟨dn1, m1, hdn⟩ := mfold_inv rs net [] [] [] (MFold.init i)
          (fun r hr => ⟨hin r hr, by simp⟩) hnd hf
        have hR : ∀ r ∈ net.readers.filter (fun r => !rs.contains r), r ∈ net.readers ∧ r ∉ dn1 := by
          intro r hr
          simp only [List.mem_filter, Bool.not_eq_true', List.contains_eq_mem, decide_eq_false_iff_not] at hr
          exact ⟨hr.1, fun hm => hr.2 (by simpa using (hdn r).mp hm)⟩
        have hRnd : (net.readers.filter (fun r => !rs.contains r)).Nodup := i.rd.nodup.filter _
        simp only at hfin
        split at hfin
        · simp at hfin; obtain ⟨rfl, rfl⟩ := hfin
          have := m1.final (.arr arr1) rfl rfl (by simp [Node.shp, Shp.uses]) (by simp [Node.shp, Shp.uses])
            trivial trivial _ net.writers hR hRnd
          exact this.of_eq (by simp [Net.push]) (by simp [m1.rdrs])
        · simp at hfin
          split at hfin
          · obtain ⟨rfl, rfl⟩ := hfin
            have := m1.mergeInv _ net.writers hR hRnd
            exact this.of_eq (by simp [Net.push]) (by simp [m1.rdrs])
          · obtain ⟨rfl, rfl⟩ := hfin
            have := (m1.pushPipe ⟨arr1.length, arr1, true, false⟩).mergeInv _ net.writers hR hRnd
            exact this.of_eq (by simp [Net.push]) (by simp [m1.rdrs])


end EinoV.C08
