/-
  C08 — the close invariant and the building operations: extensions by several nodes.
-/
import EinoV.Proofs.C08Tree.CloseBuild1
set_option linter.unusedVariables false
set_option linter.unusedSimpArgs false
namespace EinoV.C08


/-! ## extensions by several nodes -/

structure Ext (net N : Net) : Prop where
  size : net.nodes.size ≤ N.nodes.size
  old : ∀ k, k < net.nodes.size → N.nodes[k]? = net.nodes[k]?

theorem Ext.push (net : Net) (x : Node) : Ext net (net.push x).1 := ⟨by simp, fun k hk => push_get_old x hk⟩

theorem Ext.pushAll (net : Net) (xs : List Node) : Ext net (pushAll net xs) :=
  ⟨by rw [pushAll_size]; omega, fun k hk => pushAll_get_old xs net k hk⟩

theorem Ext.pedge_old {net N : Net} (e : Ext net N) {j u : Nat} (hj : j < net.nodes.size) :
    PEdge N j u ↔ PEdge net j u := by
  unfold PEdge; rw [e.old j hj]

theorem Ext.upP_old {net N : Net} (e : Ext net N) (sh : ShInv net) {j k : Nat} (hj : j < net.nodes.size) :
    UpP N j k ↔ UpP net j k := by
  constructor
  · intro h
    induction h with
    | refl _ => exact .refl _
    | @step a u c he _ ih =>
      have he' := (e.pedge_old hj).mp he
      obtain ⟨s, hs, hu⟩ := he'.edge
      have := sh.lt a u ⟨s, hs, .inl hu⟩
      exact .step he' (ih (by omega))
  · intro h
    induction h with
    | refl _ => exact .refl _
    | @step a u c he _ ih =>
      obtain ⟨s, hs, hu⟩ := he.edge
      have := sh.lt a u ⟨s, hs, .inl hu⟩
      exact .step ((e.pedge_old hj).mpr he) (ih (by omega))

theorem Ext.stat_old {net N : Net} (e : Ext net N) (sh : ShInv net) {k : Nat} (hk : k < net.nodes.size) :
    stat N k = stat net k := by
  refine stat_congr (e.old k hk) (fun P idx hc => e.old P ?_)
  have := sh.lt k P (edge_child hc); omega

/-- a new node holds the reading end of `u` -/
def NewHoldsN (net N : Net) (u : Nat) : Prop :=
  ∃ c : Nat, net.nodes.size ≤ c ∧
    ((∃ core : CopyCore, N.nodes[c]? = some (Node.parent u core) ∧ OpenCursor core) ∨
     (∃ st : FwdSt, N.nodes[c]? = some (Node.fpipe u st) ∧ (st = FwdSt.running ∨ st = FwdSt.pending)))

theorem upP_leaf_of_ge {net N : Net} (hnp : ∀ c, net.nodes.size ≤ c → ∀ u, ¬ PEdge N c u) {j k : Nat}
    (hj : net.nodes.size ≤ j) (h : UpP N j k) : j = k := h.of_leaf (hnp j hj)

/-- new nodes that are no converts and no merged readers: the claims of the old nodes are kept if
    what the new nodes hold was held by the caller and is handed over; `D` = held leaves without a
    closed flag (arrays) that the caller gives up -/
theorem claimed_ext_nopass {net N : Net} {H H' D : List Nat} (sh : ShInv net) (e : Ext net N)
    (hnp : ∀ c, net.nodes.size ≤ c → ∀ u, ¬ PEdge N c u)
    (ha : ∀ u, NewHoldsN net N u → u ∈ H)
    (hb : ∀ y, y < net.nodes.size → (y ∈ H' ↔ y ∈ H ∧ ¬ NewHoldsN net N y ∧ y ∉ D))
    (hD : ∀ d ∈ D, ∀ u, ¬ PEdge net d u)
    {k : Nat} (hk : k < net.nodes.size) (hkD : k ∉ D) : Claimed N H' k ↔ Claimed net H k := by
  constructor
  · rintro ⟨j', hu, hc⟩
    have hj' : j' < net.nodes.size := by
      apply Nat.lt_of_not_le; intro hge
      have := upP_leaf_of_ge hnp hge hu; omega
    refine ⟨j', (e.upP_old sh hj').mp hu, ?_⟩
    rcases hc with h | ⟨P, c, hp, ho⟩ | ⟨f, st, hf, hs⟩
    · exact .inl ((hb j' hj').mp h).1
    · by_cases hP : P < net.nodes.size
      · rw [e.old P hP] at hp; exact .inr (.inl ⟨P, c, hp, ho⟩)
      · exact .inl (ha j' ⟨P, by omega, .inl ⟨c, hp, ho⟩⟩)
    · by_cases hf' : f < net.nodes.size
      · rw [e.old f hf'] at hf; exact .inr (.inr ⟨f, st, hf, hs⟩)
      · exact .inl (ha j' ⟨f, by omega, .inr ⟨st, hf, hs⟩⟩)
  · rintro ⟨j', hu, hc⟩
    have hj' : j' < net.nodes.size := by
      rcases hc with h | ⟨P, c, hp, _⟩ | ⟨f, st, hf, _⟩
      · apply Nat.lt_of_not_le; intro hge
        have hnone : net.nodes[j']? = none := by apply Array.getElem?_eq_none; omega
        have : j' = k := hu.of_leaf (by
          rintro u (⟨g, hh⟩ | ⟨sts, ch, hh, _⟩) <;> (rw [hnone] at hh; cases hh))
        omega
      · have := sh.lt P j' (edge_parent hp); have := get_lt hp; omega
      · have := sh.lt f j' (edge_fwd hf); have := get_lt hf; omega
    refine ⟨j', (e.upP_old sh hj').mpr hu, ?_⟩
    rcases hc with h | ⟨P, c, hp, ho⟩ | ⟨f, st, hf, hs⟩
    · by_cases hn : NewHoldsN net N j'
      · obtain ⟨c, _, hc | hc⟩ := hn
        · obtain ⟨core, h1, h2⟩ := hc; exact .inr (.inl ⟨c, core, h1, h2⟩)
        · obtain ⟨st, h1, h2⟩ := hc; exact .inr (.inr ⟨c, st, h1, h2⟩)
      · by_cases hd : j' ∈ D
        · have : j' = k := hu.of_leaf (hD j' hd)
          subst this; exact absurd hd hkD
        · exact .inl ((hb j' hj').mpr ⟨h, hn, hd⟩)
    · exact .inr (.inl ⟨P, c, by rw [e.old P (get_lt hp)]; exact hp, ho⟩)
    · exact .inr (.inr ⟨f, st, by rw [e.old f (get_lt hf)]; exact hf, hs⟩)

/-- the flags of the old nodes after such an extension -/
theorem flag_ext_old {net N : Net} {H H' D : List Nat} (sh : ShInv net) (e : Ext net N) (h : FlagInv net H)
    (hcl : ∀ k, k < net.nodes.size → k ∉ D → (Claimed N H' k ↔ Claimed net H k))
    (hDs : ∀ d ∈ D, stat net d = .none) {k : Nat} (hk : k < net.nodes.size) :
    (stat N k = .open → Claimed N H' k) ∧ (stat N k = .closed → ¬ Claimed N H' k) := by
  rw [e.stat_old sh hk]
  by_cases hd : k ∈ D
  · rw [hDs k hd]; exact ⟨by simp, by simp⟩
  · rw [hcl k hk hd]; exact h k



/-! ## the close invariant only looks at the nodes -/

theorem pedge_nodes_eq {a b : Net} (h : b.nodes = a.nodes) (j u : Nat) : PEdge b j u ↔ PEdge a j u := by
  unfold PEdge; rw [h]

theorem upP_nodes_eq {a b : Net} (h : b.nodes = a.nodes) {j k : Nat} : UpP b j k ↔ UpP a j k := by
  constructor
  · intro hu
    induction hu with
    | refl _ => exact .refl _
    | step he _ ih => exact .step ((pedge_nodes_eq h _ _).mp he) ih
  · intro hu
    induction hu with
    | refl _ => exact .refl _
    | step he _ ih => exact .step ((pedge_nodes_eq h _ _).mpr he) ih

theorem claimed_nodes_eq {a b : Net} (h : b.nodes = a.nodes) (H : List Nat) (k : Nat) :
    Claimed b H k ↔ Claimed a H k := by
  unfold Claimed RootClaimed
  constructor
  · rintro ⟨j, hu, hc⟩; exact ⟨j, (upP_nodes_eq h).mp hu, by rw [h] at hc; exact hc⟩
  · rintro ⟨j, hu, hc⟩; exact ⟨j, (upP_nodes_eq h).mpr hu, by rw [h]; exact hc⟩

theorem stat_nodes_eq {a b : Net} (h : b.nodes = a.nodes) (k : Nat) : stat b k = stat a k := by
  unfold stat; rw [h]

theorem claimed_mem_congr {net : Net} {H H' : List Nat} (h : ∀ y, y ∈ H' ↔ y ∈ H) (k : Nat) :
    Claimed net H' k ↔ Claimed net H k := by
  unfold Claimed RootClaimed
  constructor
  · rintro ⟨j, hu, hc⟩; exact ⟨j, hu, by rw [h] at hc; exact hc⟩
  · rintro ⟨j, hu, hc⟩; exact ⟨j, hu, by rw [h]; exact hc⟩

def CellInv (net : Net) : Prop :=
  (∀ (P src : Nat) (core : CopyCore), net.nodes[P]? = some (.parent src core) →
    ∀ i : Nat, i < core.cursors.length → ∃ c : Nat, net.nodes[c]? = some (Node.child P i)) ∧
  (∀ (P src : Nat) (core : CopyCore), net.nodes[P]? = some (.parent src core) →
    core.closedNum = core.cursors.count none ∧
    core.srcClosed = (if core.cursors.count none = core.cursors.length then 1 else 0) ∧
    0 < core.cursors.length)

theorem closeInvOn_iff {net : Net} {H : List Nat} :
    CloseInvOn net H (fun _ => True) ↔ FlagInv net H ∧ CellInv net :=
  ⟨fun h => ⟨fun k => h.flag k trivial, h.cellKids, h.cellCount⟩, fun h => ⟨fun k _ => h.1 k, h.2.1, h.2.2⟩⟩

theorem closeInv_of_nodes {a b : Net} (hn : b.nodes = a.nodes) {H : List Nat}
    (h : FlagInv a H ∧ CellInv a) (hr : ∀ y, y ∈ b.readers ↔ y ∈ H) : CloseInv b := by
  unfold CloseInv
  rw [closeInvOn_iff]
  refine ⟨fun k => ?_, ?_⟩
  · rw [stat_nodes_eq hn, claimed_mem_congr hr, claimed_nodes_eq hn]; exact h.1 k
  · unfold CellInv; rw [hn]; exact h.2

theorem cellInv_ext {net N : Net} (e : Ext net N)
    (hnp : ∀ c, net.nodes.size ≤ c → ∀ s core, N.nodes[c]? ≠ some (.parent s core)) (h : CellInv net) :
    CellInv N := by
  have hold : ∀ (P s : Nat) (core : CopyCore), N.nodes[P]? = some (Node.parent s core) → net.nodes[P]? = some (Node.parent s core) := by
    intro P s core hp
    by_cases hP : P < net.nodes.size
    · rw [← e.old P hP]; exact hp
    · exact absurd hp (hnp P (by omega) s core)
  refine ⟨fun P s core hp idx hidx => ?_, fun P s core hp => h.2 P s core (hold P s core hp)⟩
  obtain ⟨c, hc⟩ := h.1 P s core (hold P s core hp) idx hidx
  exact ⟨c, by rw [e.old c (get_lt hc)]; exact hc⟩

theorem stat_none_of_get_none {net : Net} {k : Nat} (h : net.nodes[k]? = none) : stat net k = .none := by
  apply stat_none; intro nd hnd; rw [h] at hnd; cases hnd

/-- assembling the flags after an extension -/
theorem flagInv_ext {net N : Net} {H H' D : List Nat} (sh : ShInv net) (e : Ext net N) (h : FlagInv net H)
    (hcl : ∀ k, k < net.nodes.size → k ∉ D → (Claimed N H' k ↔ Claimed net H k))
    (hDs : ∀ d ∈ D, stat net d = .none)
    (hnew : ∀ c, net.nodes.size ≤ c → (stat N c = .open → c ∈ H') ∧ stat N c ≠ .closed) : FlagInv N H' := by
  intro k
  by_cases hk : k < net.nodes.size
  · exact flag_ext_old sh e h hcl hDs hk
  · obtain ⟨h1, h2⟩ := hnew k (by omega)
    exact ⟨fun ho => ⟨k, .refl k, .inl (h1 ho)⟩, fun hc => absurd hc h2⟩

theorem newHoldsN_push_iff {net : Net} (x : Node) (u : Nat) :
    NewHoldsN net (net.push x).1 u ↔ NewHolds x u := by
  unfold NewHoldsN NewHolds
  constructor
  · rintro ⟨c, hc, h⟩
    by_cases e : c = net.nodes.size
    · subst e
      rw [push_get] at h; simp at h
      rcases h with ⟨core, h1, h2⟩ | ⟨st, h1, h2⟩
      · exact .inl ⟨core, h1, h2⟩
      · exact .inr ⟨st, h1, h2⟩
    · have : (net.push x).1.nodes[c]? = none := by apply Array.getElem?_eq_none; simp; omega
      rw [this] at h; simp at h
  · rintro (⟨core, rfl, ho⟩ | ⟨st, rfl, hs⟩)
    · exact ⟨net.nodes.size, Nat.le_refl _, .inl ⟨core, by rw [push_get]; simp, ho⟩⟩
    · exact ⟨net.nodes.size, Nat.le_refl _, .inr ⟨st, by rw [push_get]; simp, hs⟩⟩

/-- pushing one node that is no convert, no merged reader, no cell -/
theorem closeInv_push_plain {net : Net} {H H' : List Nat} (sh : ShInv net) (x : Node)
    (h : FlagInv net H ∧ CellInv net)
    (h1 : ∀ src g, x ≠ .conv src g) (h2 : ∀ sts ch, x ≠ .merge sts ch) (h3 : ∀ s core, x ≠ .parent s core)
    (ha : ∀ u, NewHolds x u → u ∈ H)
    (hb : ∀ y, y < net.nodes.size → (y ∈ H' ↔ y ∈ H ∧ ¬ NewHolds x y))
    (hnew : (stat (net.push x).1 net.nodes.size = .open → net.nodes.size ∈ H') ∧
      stat (net.push x).1 net.nodes.size ≠ .closed) :
    FlagInv (net.push x).1 H' ∧ CellInv (net.push x).1 := by
  have e := Ext.push net x
  have hnp : ∀ c, net.nodes.size ≤ c → ∀ u, ¬ PEdge (net.push x).1 c u := by
    intro c hc
    by_cases ec : c = net.nodes.size
    · subst ec; exact no_pedge_push_new h1 h2
    · have : (net.push x).1.nodes[c]? = none := by apply Array.getElem?_eq_none; simp; omega
      rintro u (⟨g, hh⟩ | ⟨sts, ch, hh, _⟩) <;> (rw [this] at hh; cases hh)
  refine ⟨flagInv_ext (D := []) sh e h.1 (fun k hk _ => ?_) (by simp) (fun c hc => ?_), cellInv_ext e (fun c hc s core => ?_) h.2⟩
  · exact claimed_ext_nopass (D := []) sh e hnp (fun u hu => ha u ((newHoldsN_push_iff x u).mp hu))
      (fun y hy => by rw [hb y hy, newHoldsN_push_iff]; simp) (by simp) hk (by simp)
  · by_cases ec : c = net.nodes.size
    · subst ec; exact hnew
    · have : (net.push x).1.nodes[c]? = none := by apply Array.getElem?_eq_none; simp; omega
      rw [stat_none_of_get_none this]; exact ⟨by simp, by simp⟩
  · by_cases ec : c = net.nodes.size
    · subst ec; rw [push_get]; simp; exact fun hh => h3 s core hh
    · have : (net.push x).1.nodes[c]? = none := by apply Array.getElem?_eq_none; simp; omega
      rw [this]; simp


end EinoV.C08
