/-
  C08 — schedules: every enabled operation keeps the network well formed (`Step.inv`), the
  operations the oracle accepts are enabled operations (`applyOp_step`), what the building
  operations leave alone, a closed writer stays closed.
-/
import EinoV.Proofs.C08Tree.Ops3
import EinoV.Proofs.C08Tree.Sound
import EinoV.Proofs.C08Tree.RecvDen
set_option linter.unusedVariables false
set_option linter.unusedSimpArgs false
namespace EinoV.C08


/-! ## every enabled operation keeps the network well formed -/

theorem GoodFacts.copy' {F : Facts} (g : GoodFacts F) : F.copy = goodCopyFacts := g.copy

theorem Step.inv {F : Facts} {fuel : Nat} (g : GoodFacts F) {net net' : Net} {op : Op}
    (h : Step F fuel net op net') (i : Inv net) : Inv net' := by
  cases h with
  | recv hr hrecv =>
    exact i.ofSameShape hrecv.sameShape.1 hrecv.sameShape.2 (hrecv.stInv g.copy' i.sh i.st)
  | @other _ _ cr h1 ha =>
    cases op with
    | pipe cap => exact applyOp_pipe_inv i ha
    | arr items => exact applyOp_arr_inv i ha
    | conv r g => exact applyOp_conv_inv i ha
    | copy r n => exact applyOp_copy_inv i ha
    | merge rs => exact applyOp_merge_inv i ha
    | send p it oc =>
      rcases applyOp_send_cases ha with ⟨_, x, hx, _, rfl⟩ | ⟨_, l⟩
      · exact i.setPipe hx _
      · exact i.closeLE l
    | feed p its =>
      obtain ⟨x, hx, _, rfl⟩ := applyOp_feed_cases ha
      exact i.setPipe hx _
    | closeSend p =>
      obtain ⟨x, hx, _, rfl⟩ := applyOp_closeSend_cases ha
      exact i.setPipe hx _
    | recv r obs => simp [Op.isRecv] at h1
    | close r =>
      obtain ⟨_, n1, hc, rfl⟩ := applyOp_close_cases ha
      exact (i.closeLE (closeAll_spec F fuel _ _ _ hc).1).eraseReader r _

theorem Behaves.inv {F : Facts} {fuel : Nat} (g : GoodFacts F) {net net' : Net} {ops : List Op}
    (h : Behaves F fuel net ops net') (i : Inv net) : Inv net' := by
  induction h with
  | nil => exact i
  | cons hs _ ih => exact ih (hs.inv g i)

theorem Inv.empty : Inv {} := by
  refine ⟨ShInv.ofTyped ?_ ?_ ?_ ?_ ?_, ⟨?_, ?_, List.nodup_nil⟩, ⟨?_, ?_, ?_⟩⟩ <;>
    simp [Net.shp?]

/-- an operation the oracle accepts is an enabled operation -/
theorem applyOp_step {F : Facts} (g : GoodFacts F) {fuel : Nat} {net net' : Net} {op : Op} {cr : List Nat}
    (h : applyOp F fuel net op = .ok (net', cr)) : Step F fuel net op net' := by
  cases op with
  | recv r obs =>
    simp only [applyOp] at h
    split at h
    · cases h
    · rename_i hc
      split at h
      · rename_i o ho
        cases h
        have hm := List.mem_of_find?_eq_some ho
        have he : o.1 = obs := by simpa using List.find?_some ho
        obtain ⟨tr, hr⟩ := recvAll_sound g.tbl fuel net r o.1 o.2 hm
        exact .recv (by simpa using hc) (he ▸ hr)
      · split at h
        · cases h
        · split at h
          · cases h
          · split at h <;> cases h
  | feed p its => exact .other rfl h
  | pipe cap => exact .other rfl h
  | arr items => exact .other rfl h
  | conv r g => exact .other rfl h
  | copy r n => exact .other rfl h
  | merge rs => exact .other rfl h
  | send p it oc => exact .other rfl h
  | closeSend p => exact .other rfl h
  | close r => exact .other rfl h

/-! ## what the building operations leave alone -/

def IsMergeNode (net : Net) (k : Nat) : Prop := ∃ sts ch, net.nodes[k]? = some (.merge sts ch)

theorem pushAll_get_old (xs : List Node) : ∀ (net : Net) (k : Nat), k < net.nodes.size →
    (pushAll net xs).nodes[k]? = net.nodes[k]? := by
  induction xs with
  | nil => intro net k _; rfl
  | cons x rest ih =>
    intro net k hk
    simp only [pushAll, List.foldl_cons]
    have := ih (net.push x).1 k (by simp; omega)
    simp only [pushAll] at this
    rw [this, push_get_old _ hk]

theorem mstep_old {n n' : Net} {ss ss' : List Nat} {arr arr' : List Item} {r : Nat}
    (h : mstep (n, ss, arr) r = some (n', ss', arr')) :
    n.nodes.size ≤ n'.nodes.size ∧
    ∀ k, k < n.nodes.size → n'.nodes[k]? = n.nodes[k]? ∨ (k = r ∧ IsMergeNode n k) := by
  unfold mstep at h
  simp only at h
  split at h
  · simp at h; obtain ⟨rfl, _, _⟩ := h; exact ⟨Nat.le_refl _, fun k _ => .inl rfl⟩
  · simp at h; obtain ⟨rfl, _, _⟩ := h; exact ⟨Nat.le_refl _, fun k _ => .inl rfl⟩
  · rename_i sts ch hp
    simp at h; obtain ⟨rfl, _, _⟩ := h
    refine ⟨by simp, fun k _ => ?_⟩
    by_cases e : k = r
    · subst e; exact .inr ⟨rfl, sts, ch, hp⟩
    · exact .inl (setNode_get_ne _ e)
  · simp at h; obtain ⟨rfl, _, _⟩ := h
    exact ⟨by simp, fun k hk => .inl (push_get_old _ hk)⟩
  · simp at h; obtain ⟨rfl, _, _⟩ := h
    exact ⟨by simp, fun k hk => .inl (push_get_old _ hk)⟩
  · cases h

theorem mfold_old : ∀ (rs : List Nat) (n : Net) (ss : List Nat) (arr : List Item)
    {n1 : Net} {ss1 : List Nat} {arr1 : List Item},
    rs.foldlM mstep (n, ss, arr) = some (n1, ss1, arr1) →
    n.nodes.size ≤ n1.nodes.size ∧
    ∀ k, k < n.nodes.size → n1.nodes[k]? = n.nodes[k]? ∨ (k ∈ rs ∧ IsMergeNode n k) := by
  intro rs
  induction rs with
  | nil =>
    intro n ss arr n1 ss1 arr1 h
    simp at h; obtain ⟨rfl, _, _⟩ := h
    exact ⟨Nat.le_refl _, fun k _ => .inl rfl⟩
  | cons r rest ih =>
    intro n ss arr n1 ss1 arr1 h
    simp only [List.foldlM_cons, Option.bind_eq_bind, Option.bind_eq_some_iff] at h
    obtain ⟨⟨n', ss', arr'⟩, h1, h2⟩ := h
    obtain ⟨s1, o1⟩ := mstep_old h1
    obtain ⟨s2, o2⟩ := ih n' ss' arr' h2
    refine ⟨by omega, fun k hk => ?_⟩
    rcases o1 k hk with e1 | ⟨rfl, hm⟩
    · rcases o2 k (by omega) with e2 | ⟨hm, sts, ch, hn⟩
      · exact .inl (e2.trans e1)
      · exact .inr ⟨by simp [hm], sts, ch, e1 ▸ hn⟩
    · exact .inr ⟨by simp, hm⟩

def Op.isBuild : Op → Bool
  | .pipe _ | .arr _ | .conv _ _ | .copy _ _ | .merge _ => true
  | _ => false

theorem applyOp_build_old {F : Facts} {fuel : Nat} {net net' : Net} {op : Op} {cr : List Nat}
    (i : Inv net) (hb : op.isBuild = true) (h : applyOp F fuel net op = .ok (net', cr)) :
    ∀ k, k < net.nodes.size →
      net'.nodes[k]? = net.nodes[k]? ∨ (k ∈ net.readers ∧ k ∉ net'.readers ∧ IsMergeNode net k) := by
  intro k hk
  cases op with
  | pipe cap => simp only [applyOp] at h; cases h; exact .inl (push_get_old _ hk)
  | arr items => simp only [applyOp] at h; cases h; exact .inl (push_get_old _ hk)
  | conv r g =>
    simp only [applyOp] at h
    split at h
    · cases h
    · cases h; exact .inl (push_get_old _ hk)
  | copy r n =>
    simp only [applyOp] at h
    split at h
    · cases h
    · split at h
      · cases h; exact .inl rfl
      · split at h
        · cases h; rw [pushMany_eq]; exact .inl (pushAll_get_old _ _ _ hk)
        · cases h; rw [pushMany_eq]
          left
          change (pushAll _ _).nodes[k]? = _
          rw [pushAll_get_old _ _ _ (by simp; omega), push_get_old _ hk]
        · cases h
  | merge rs =>
    simp only [applyOp] at h
    split at h
    · cases h; exact .inl rfl
    · split at h
      · cases h
      · rename_i hc
        simp only [Bool.or_eq_true, Bool.not_eq_true', not_or, Bool.not_eq_false] at hc
        have hin : ∀ r ∈ rs, r ∈ net.readers := by
          intro r hr
          have := List.all_eq_true.mp hc.2 r hr
          simpa using this
        split at h
        · cases h
        · rename_i n2 id hm
          cases h
          rw [mkMerge_eq] at hm
          simp only [Option.bind_eq_some_iff] at hm
          obtain ⟨⟨n1, ss1, arr1⟩, hf, hfin⟩ := hm
          obtain ⟨hsz, hold⟩ := mfold_old rs net [] [] hf
          have hk1 : ¬ k = n1.nodes.size := by omega
          have hk2 : ¬ k = n1.nodes.size + 1 := by omega
          have hn2 : n2.nodes[k]? = n1.nodes[k]? ∧ id ≥ n1.nodes.size := by
            simp only at hfin
            split at hfin
            · simp at hfin; obtain ⟨rfl, rfl⟩ := hfin
              exact ⟨by simp [Net.push, Array.getElem?_push, hk1], by simp [Net.push]⟩
            · simp at hfin
              split at hfin
              · obtain ⟨rfl, rfl⟩ := hfin
                exact ⟨by simp [Net.push, Array.getElem?_push, hk1], by simp [Net.push]⟩
              · obtain ⟨rfl, rfl⟩ := hfin
                exact ⟨by simp [Net.push, Array.getElem?_push, hk1, hk2], by simp [Net.push]⟩
          rcases hold k hk with e | ⟨hm', hmn⟩
          · left; change n2.nodes[k]? = _; rw [hn2.1, e]
          · right
            refine ⟨hin k hm', ?_, hmn⟩
            change k ∉ (List.filter _ n2.readers ++ [id])
            simp only [List.mem_append, List.mem_filter, List.mem_singleton, not_or]
            refine ⟨fun ⟨_, hc⟩ => ?_, by omega⟩
            simp [hm'] at hc
  | _ => simp [Op.isBuild] at hb

/-- a building operation does not change what a reader that stays held is specified to deliver -/
theorem den_build {fut : Nat → List Item} {F : Facts} {fuel : Nat} {net net' : Net} {op : Op} {cr : List Nat}
    (i : Inv net) (hb : op.isBuild = true) (h : applyOp F fuel net op = .ok (net', cr))
    {r : Nat} (hr : r ∈ net.readers) (hr' : r ∈ net'.readers) {l : List Item}
    (hd : Den fut net' r l) : Den fut net r l := by
  refine hd.congr fun k hk => ?_
  have hle := hk.le i.sh
  have hlt := i.rd.lt hr
  rcases applyOp_build_old i hb h k (by omega) with e | ⟨hkr, hnr, sts, ch, hm⟩
  · exact e
  · exfalso
    rcases hk.last with rfl | ⟨b, _, s, hs, he⟩
    · exact hnr hr'
    · rcases he with he | he
      · -- `k` is consumed by `b`: then it is not a merged reader the caller still held
        exact i.rd.free k hkr b s hs he
      · cases s <;> simp [Shp.par?] at he
        subst he
        obtain ⟨src, n, hp, _⟩ := i.sh.childPar b _ _ hs
        rw [shp?_some hm] at hp; simp [Node.shp] at hp



/-! ## a closed writer stays closed -/

def SCM (a b : Net) : Prop :=
  ∀ (p : Nat) (x : Pipe), a.nodes[p]? = some (.pipe x) → x.sendClosed = true →
    ∃ y, b.nodes[p]? = some (.pipe y) ∧ y.sendClosed = true

theorem SCM.refl (a : Net) : SCM a a := fun p x h1 h2 => ⟨x, h1, h2⟩
theorem SCM.trans {a b c : Net} (h1 : SCM a b) (h2 : SCM b c) : SCM a c := fun p x hx hs => by
  obtain ⟨y, hy, hys⟩ := h1 p x hx hs
  exact h2 p y hy hys

theorem SCM.setPipe {net : Net} {i : Nat} {x y : Pipe} (hx : net.nodes[i]? = some (.pipe x))
    (hs : x.sendClosed = true → y.sendClosed = true) : SCM net (net.setNode i (.pipe y)) := by
  intro p z hz hzs
  by_cases e : p = i
  · subst e; rw [hx] at hz; cases hz
    exact ⟨y, setNode_get_self hx _, hs hzs⟩
  · exact ⟨z, by rw [setNode_get_ne _ e]; exact hz, hzs⟩

theorem SCM.setOther {net : Net} {i : Nat} {s : Shp} (hs : net.shp? i = some s) (hne : s ≠ .pipe) (z : Node) :
    SCM net (net.setNode i z) := by
  intro p x hx hxs
  by_cases e : p = i
  · subst e; rw [shp?_some hx] at hs; cases hs; exact absurd rfl hne
  · exact ⟨x, by rw [setNode_get_ne _ e]; exact hx, hxs⟩

theorem CloseLE.scm {a b : Net} (l : CloseLE a b) : SCM a b := by
  intro p x hx hs
  obtain ⟨y, hy, le⟩ := l.node p _ hx
  cases le with
  | refl => exact ⟨x, hy, hs⟩
  | pipe e1 e2 e3 => exact ⟨_, hy, e2 ▸ hs⟩

theorem fwdEnd_scm {F : Facts} {cf : Nat} {n1 n' : Net} {sid src : Nat} {st : FwdSt}
    (hn : n1.nodes[sid]? = some (.fpipe src st)) (h : fwdEnd F cf n1 sid src = some n') : SCM n1 n' := by
  have s1 : SCM n1 (n1.setNode sid (.fpipe src .ended)) :=
    SCM.setOther (shp?_some hn) (by simp [Node.shp]) _
  unfold fwdEnd at h
  split at h
  · exact s1.trans (closeAll_spec F cf _ _ _ h).1.scm
  · cases h; exact s1

theorem Recv.scm {F : Facts} {net net' : Net} {id : Nat} {r : Res} {tr : List (Nat × Item)}
    (h : Recv F net id r net' tr) : SCM net net' := by
  induction h with
  | @pipe net id p p' r hn hr =>
    refine SCM.setPipe hn ?_
    cases r with
    | item x => intro h; rw [(Pipe.recv_item hr).2]; exact h
    | eof => intro h; rw [(Pipe.recv_eof hr).2.2]; exact h
  | arrItem hn => exact SCM.setOther (shp?_some hn) (by simp [Node.shp]) _
  | arrEof _ => exact .refl _
  | convEof _ _ ih => exact ih
  | convItem _ _ _ ih => exact ih
  | convSkip _ _ _ _ ih1 ih2 => exact ih1.trans ih2
  | childHave hn hp hk => exact SCM.setOther (shp?_some hp) (by simp [Node.shp]) _
  | @childFill net n1 id par idx src k core r tr hn hp hk hr ih =>
    have hs : n1.shp? par = some (.parent src core.cursors.length) := by
      rw [hr.sameShape.1.2]; exact shp?_some hp
    exact ih.trans (SCM.setOther hs (by simp) _)
  | mergeEof _ => exact .refl _
  | mergePipeItem _ _ _ hp hr =>
    exact SCM.setPipe hp (fun h => by rw [(Pipe.recv_item hr).2]; exact h)
  | mergeFwdItem _ _ _ _ _ ih => exact ih
  | mergeDropPipe hn _ _ _ _ _ ih => exact (SCM.setOther (shp?_some hn) (by simp [Node.shp]) _).trans ih
  | @mergeDropFwd net n1 n' n2 id sb sid src cf sts chosen r tr1 tr2 hn _ hs hf hr1 hfe _ ih1 ih2 =>
    have hs1 : n1.shp? sid = some (.fpipe src) := by rw [hr1.sameShape.1.2]; exact shp?_some hf
    obtain ⟨nd, hnd, hsh'⟩ := shp?_eq_some hs1
    cases nd <;> simp [Node.shp] at hsh'
    subst hsh'
    obtain ⟨s2, _⟩ := fwdEnd_spec hnd hfe
    have hm : n'.shp? id = some (.merge sts) := by
      rw [s2.2, hr1.sameShape.1.2]; exact shp?_some hn
    exact ih1.trans ((fwdEnd_scm hnd hfe).trans ((SCM.setOther hm (by simp) _).trans ih2))
  | mergeDropEnded hn _ _ _ _ ih => exact (SCM.setOther (shp?_some hn) (by simp [Node.shp]) _).trans ih

theorem scm_with {a : Net} (R W : List Nat) : SCM a { a with readers := R, writers := W } :=
  fun p x hx hs => ⟨x, hx, hs⟩

theorem Step.scm {F : Facts} {fuel : Nat} {net net' : Net} {op : Op} (i : Inv net)
    (h : Step F fuel net op net') : SCM net net' := by
  cases h with
  | recv hr hrecv => exact hrecv.scm
  | @other _ _ cr h1 ha =>
    cases op with
    | send p it oc =>
      rcases applyOp_send_cases ha with ⟨_, x, hx, _, rfl⟩ | ⟨_, l⟩
      · exact SCM.setPipe hx (fun h => h)
      · exact l.scm
    | feed p its =>
      obtain ⟨x, hx, _, rfl⟩ := applyOp_feed_cases ha
      exact SCM.setPipe hx (fun h => h)
    | closeSend p =>
      obtain ⟨x, hx, _, rfl⟩ := applyOp_closeSend_cases ha
      exact SCM.setPipe hx (fun _ => rfl)
    | recv r obs => simp [Op.isRecv] at h1
    | close r =>
      obtain ⟨_, n1, hc, rfl⟩ := applyOp_close_cases ha
      exact (closeAll_spec F fuel _ _ _ hc).1.scm.trans (scm_with _ _)
    | _ =>
      intro p x hx hs
      rcases applyOp_build_old i rfl ha p (get_lt hx) with e | ⟨_, _, sts, ch, hm⟩
      · exact ⟨x, e ▸ hx, hs⟩
      · rw [hx] at hm; cases hm

/-- no item is accepted by a writer that was closed -/
theorem accBy_closed {F : Facts} {fuel : Nat} (g : GoodFacts F) {net net' : Net} {ops : List Op}
    (h : Behaves F fuel net ops net') (i : Inv net) {p : Nat} {x : Pipe}
    (hx : net.nodes[p]? = some (.pipe x)) (hs : x.sendClosed = true) : accBy ops p = [] := by
  induction h generalizing x with
  | nil => rfl
  | @cons net n1 n2 op ops hstep _ ih =>
    obtain ⟨y, hy, hys⟩ := hstep.scm i p x hx hs
    have := ih (hstep.inv g i) hy hys
    simp only [accBy, List.flatMap_cons] at this ⊢
    rw [this, List.append_nil]
    cases hstep with
    | recv _ _ => rfl
    | @other _ _ cr h1 ha =>
      cases op with
      | send p' it oc =>
        cases oc with
        | true => rfl
        | false =>
          simp only [Op.acc]
          split
          · rename_i e; subst e
            rcases applyOp_send_cases ha with ⟨_, x', hx', hs', _⟩ | ⟨h, _⟩
            · rw [hx'] at hx; cases hx
              rw [hs] at hs'; cases hs'
            · cases h
          · rfl
      | feed p' its =>
        simp only [Op.acc]
        split
        · rename_i e; subst e
          obtain ⟨x', hx', hs', _⟩ := applyOp_feed_cases ha
          rw [hx'] at hx; cases hx
          rw [hs] at hs'; cases hs'
        · rfl
      | _ => rfl


end EinoV.C08
