/-
  C08 — `Recv` (relational semantics) keeps the shape, touches only what the reader is built
  on, keeps the state invariant; its trace only mentions nodes the reader is built on.
-/
import EinoV.Proofs.C08Tree.Close
set_option linter.unusedVariables false
namespace EinoV.C08

theorem setNode_sameShape' {net : Net} {i : Nat} {s : Shp} {x : Node} (h : net.shp? i = some s)
    (hs : x.shp = s) : SameShape net (net.setNode i x) := by
  obtain ⟨nd, hnd, hsh⟩ := shp?_eq_some h
  exact setNode_sameShape hnd (hs.trans hsh.symm)

theorem fill_length (c : CopyCore) (idx k : Nat) (r : Res) : (c.fill idx k r).cursors.length = c.cursors.length := by
  cases r <;> simp [CopyCore.fill]

theorem peekLocal_have_length {f : CopyFacts} {c c' : CopyCore} {idx : Nat} {r : Res}
    (h : c.peekLocal f idx = .have r c') : c'.cursors.length = c.cursors.length := by
  unfold CopyCore.peekLocal at h
  split at h <;> try cases h
  split at h <;> try cases h
  split at h
  · cases h; simp
  · split at h <;> cases h
    rfl

theorem fwdEnd_spec {F : Facts} {cf : Nat} {n1 n' : Net} {sid src : Nat} {st : FwdSt}
    (hn : n1.nodes[sid]? = some (.fpipe src st)) (h : fwdEnd F cf n1 sid src = some n') :
    SameShape n1 n' ∧ n'.readers = n1.readers := by
  have s1 : SameShape n1 (n1.setNode sid (.fpipe src .ended)) := setNode_sameShape hn rfl
  unfold fwdEnd at h
  split at h
  · obtain ⟨l, _⟩ := closeAll_spec F cf _ _ _ h
    exact ⟨s1.trans l.sameShape, l.readers⟩
  · cases h; exact ⟨s1, rfl⟩

/-- a `Recv` changes no shape -/
theorem Recv.sameShape {F : Facts} {net net' : Net} {id : Nat} {r : Res} {tr : List (Nat × Item)}
    (h : Recv F net id r net' tr) : SameShape net net' ∧ net'.readers = net.readers := by
  induction h with
  | pipe hn _ => exact ⟨setNode_sameShape hn rfl, rfl⟩
  | arrItem hn => exact ⟨setNode_sameShape hn rfl, rfl⟩
  | arrEof _ => exact ⟨.refl _, rfl⟩
  | convEof _ _ ih => exact ih
  | convItem _ _ _ ih => exact ih
  | convSkip _ _ _ _ ih1 ih2 => exact ⟨ih1.1.trans ih2.1, ih2.2.trans ih1.2⟩
  | childHave hn hp hk =>
    exact ⟨setNode_sameShape hp (by simp [Node.shp, peekLocal_have_length hk]), rfl⟩
  | @childFill net n1 id par idx src k core r tr hn hp hk _ ih =>
    have hs : n1.shp? par = some (.parent src core.cursors.length) := by
      rw [ih.1.2]; exact shp?_some hp
    exact ⟨ih.1.trans (setNode_sameShape' hs (by simp [Node.shp, fill_length])), ih.2⟩
  | mergeEof _ => exact ⟨.refl _, rfl⟩
  | mergePipeItem _ _ _ hp _ => exact ⟨setNode_sameShape hp rfl, rfl⟩
  | mergeFwdItem _ _ _ _ _ ih => exact ih
  | mergeDropPipe hn _ _ _ _ _ ih =>
    exact ⟨(setNode_sameShape (x := Node.merge _ (List.erase _ _)) hn rfl).trans ih.1, ih.2⟩
  | @mergeDropFwd net n1 n' n2 id sb sid src cf sts chosen r tr1 tr2 hn _ _ hs _ hf _ ih1 ih2 =>
    have hs1 : n1.shp? sid = some (.fpipe src) := by rw [ih1.1.2]; exact shp?_some hs
    obtain ⟨nd, hnd, hsh⟩ := shp?_eq_some hs1
    cases nd <;> simp [Node.shp] at hsh
    subst hsh
    obtain ⟨s2, r2⟩ := fwdEnd_spec hnd hf
    have hm : n'.shp? id = some (.merge sts) := by
      rw [s2.2, ih1.1.2]; exact shp?_some hn
    have s3 : SameShape n' (n'.setNode id (.merge sts (chosen.erase sb))) := setNode_sameShape' hm rfl
    exact ⟨ih1.1.trans (s2.trans (s3.trans ih2.1)), by rw [ih2.2]; simp [r2, ih1.2]⟩
  | mergeDropEnded hn _ _ _ _ ih =>
    exact ⟨(setNode_sameShape (x := Node.merge _ (List.erase _ _)) hn rfl).trans ih.1, ih.2⟩

theorem fwdEnd_footprint {F : Facts} {cf : Nat} {n1 n' : Net} {sid src : Nat} {st : FwdSt}
    (hn : n1.nodes[sid]? = some (.fpipe src st)) (h : fwdEnd F cf n1 sid src = some n') :
    ∀ k, ¬ Up n1 sid k → n'.nodes[k]? = n1.nodes[k]? := by
  intro k hk
  have hne : k ≠ sid := by rintro rfl; exact hk (.refl _)
  have s1 : SameShape n1 (n1.setNode sid (.fpipe src .ended)) := setNode_sameShape hn rfl
  unfold fwdEnd at h
  split at h
  · obtain ⟨_, f⟩ := closeAll_spec F cf _ _ _ h
    rw [f k, setNode_get_ne _ hne]
    intro hu
    exact hk (.step (edge_fwd hn) (s1.up.mp hu))
  · cases h; exact setNode_get_ne _ hne

/-- a `Recv` only touches nodes the reader is built on -/
theorem Recv.footprint {F : Facts} {net net' : Net} {id : Nat} {r : Res} {tr : List (Nat × Item)}
    (h : Recv F net id r net' tr) : ∀ k, ¬ Up net id k → net'.nodes[k]? = net.nodes[k]? := by
  induction h with
  | pipe hn _ => intro k hk; exact setNode_get_ne _ (by rintro rfl; exact hk (.refl _))
  | arrItem hn => intro k hk; exact setNode_get_ne _ (by rintro rfl; exact hk (.refl _))
  | arrEof _ => intro k _; rfl
  | convEof hn _ ih => intro k hk; exact ih k fun hu => hk (.step (edge_conv hn) hu)
  | convItem hn _ _ ih => intro k hk; exact ih k fun hu => hk (.step (edge_conv hn) hu)
  | convSkip hn h1 _ _ ih1 ih2 =>
    intro k hk
    rw [ih2 k fun hu => hk (h1.sameShape.1.up.mp hu), ih1 k fun hu => hk (.step (edge_conv hn) hu)]
  | childHave hn hp hk =>
    intro k hk; exact setNode_get_ne _ (by rintro rfl; exact hk (.single (edge_child hn)))
  | childFill hn hp hk _ ih =>
    intro k hk
    rw [setNode_get_ne _ (by rintro rfl; exact hk (.single (edge_child hn)))]
    exact ih k fun hu => hk (.step (edge_child hn) (.step (edge_parent hp) hu))
  | mergeEof _ => intro k _; rfl
  | mergePipeItem hn _ hs hp _ =>
    intro k hk
    exact setNode_get_ne _ (by rintro rfl; exact hk (.single (edge_merge hn (List.mem_of_getElem? hs))))
  | mergeFwdItem hn _ hs hf _ ih =>
    intro k hk
    exact ih k fun hu => hk (.step (edge_merge hn (List.mem_of_getElem? hs)) (.step (edge_fwd hf) hu))
  | mergeDropPipe hn _ _ _ _ _ ih =>
    intro k hk
    rw [ih k fun hu => hk ((setNode_sameShape (x := Node.merge _ (List.erase _ _)) hn rfl).up.mp hu)]
    exact setNode_get_ne _ (by rintro rfl; exact hk (.refl _))
  | @mergeDropFwd net n1 n' n2 id sb sid src cf sts chosen r tr1 tr2 hn _ hs hf h1 hfe _ ih1 ih2 =>
    intro k hk
    have hs1 : n1.shp? sid = some (.fpipe src) := by rw [h1.sameShape.1.2]; exact shp?_some hf
    obtain ⟨nd, hnd, hsh⟩ := shp?_eq_some hs1
    cases nd <;> simp [Node.shp] at hsh
    subst hsh
    obtain ⟨s2, _⟩ := fwdEnd_spec hnd hfe
    have hm : n'.shp? id = some (.merge sts) := by
      rw [s2.2, h1.sameShape.1.2]; exact shp?_some hn
    have s3 : SameShape n' (n'.setNode id (.merge sts (chosen.erase sb))) := setNode_sameShape' hm rfl
    have e1 : Edge net id sid := edge_merge hn (List.mem_of_getElem? hs)
    rw [ih2 k fun hu => hk ((h1.sameShape.1.trans (s2.trans s3)).up.mp hu)]
    rw [setNode_get_ne _ (by rintro rfl; exact hk (.refl _))]
    rw [fwdEnd_footprint hnd hfe k fun hu => hk (.step e1 (h1.sameShape.1.up.mp hu))]
    exact ih1 k fun hu => hk (.step e1 (.step (edge_fwd hf) hu))
  | mergeDropEnded hn _ _ _ _ ih =>
    intro k hk
    rw [ih k fun hu => hk ((setNode_sameShape (x := Node.merge _ (List.erase _ _)) hn rfl).up.mp hu)]
    exact setNode_get_ne _ (by rintro rfl; exact hk (.refl _))



/-! ## state invariant -/

def NodeOK : Node → Prop
  | .parent _ core => ∀ (i k : Nat), core.cursors[i]? = some (some k) → k ≤ core.log.length
  | .merge sts chosen => (∀ sb ∈ chosen, sb < sts.length) ∧ chosen.Nodup
  | _ => True

theorem stInv_iff {net : Net} : StInv net ↔ ∀ (j : Nat) (nd : Node), net.nodes[j]? = some nd → NodeOK nd := by
  constructor
  · intro h j nd hj
    cases nd with
    | parent src core => exact h.cursorLe j src core hj
    | merge sts chosen => exact ⟨h.chosenLt j sts chosen hj, h.chosenNodup j sts chosen hj⟩
    | _ => trivial
  · intro h
    exact ⟨fun j src core hj => h j _ hj, fun j sts chosen hj => (h j _ hj).1, fun j sts chosen hj => (h j _ hj).2⟩

theorem StInv.setNode {net : Net} (h : StInv net) {x : Node} (hx : NodeOK x) (i : Nat) : StInv (net.setNode i x) := by
  rw [stInv_iff] at h ⊢
  intro j nd hj
  rw [setNode_get] at hj
  split at hj
  · split at hj
    · cases hj; exact hx
    · cases hj
  · exact h j nd hj

theorem NodeLE.ok {a b : Node} (l : NodeLE a b) (h : NodeOK a) : NodeOK b := by
  cases l with
  | refl => exact h
  | pipe => trivial
  | parent e1 e2 e3 e4 =>
    intro i k hk
    rw [e1]
    rcases e4 i with e | e
    · exact h i k (e ▸ hk)
    · rw [hk] at e; cases e
  | fpipe => trivial

theorem CloseLE.stInv {a b : Net} (l : CloseLE a b) (h : StInv a) : StInv b := by
  rw [stInv_iff] at h ⊢
  intro j nd hj
  obtain ⟨x, hx, le⟩ := l.back hj
  exact le.ok (h j x hx)

/-! ## `peekLocal` with the facts of the source -/

def goodCopyFacts : CopyFacts := ⟨true, true, true⟩

theorem peek_have {c c' : CopyCore} {idx : Nat} {r : Res} (h : c.peekLocal goodCopyFacts idx = .have r c') :
    ∃ k, c.cursors[idx]? = some (some k) ∧
      ((∃ it, c.log[k]? = some it ∧ r = .item it ∧ c' = { c with cursors := c.cursors.set idx (some (k + 1)) }) ∨
       (c.log[k]? = none ∧ c.eofSeen = true ∧ r = .eof ∧ c' = c)) := by
  unfold CopyCore.peekLocal at h
  split at h <;> try cases h
  rename_i k hk
  simp only [goodCopyFacts, Bool.not_true, Bool.false_eq_true, ↓reduceIte] at h
  refine ⟨k, hk, ?_⟩
  split at h
  · rename_i it hit
    cases h
    exact .inl ⟨it, hit, rfl, rfl⟩
  · rename_i hnone
    split at h
    · rename_i he
      cases h
      exact .inr ⟨hnone, he, rfl, rfl⟩
    · cases h

theorem peek_fill {c : CopyCore} {idx k : Nat} (h : c.peekLocal goodCopyFacts idx = .fill k) :
    c.cursors[idx]? = some (some k) ∧ c.log[k]? = none ∧ c.eofSeen = false := by
  unfold CopyCore.peekLocal at h
  split at h <;> try cases h
  rename_i k' hk
  simp only [goodCopyFacts, Bool.not_true, Bool.false_eq_true, ↓reduceIte] at h
  split at h
  · cases h
  · rename_i hnone
    split at h
    · cases h
    · rename_i he
      cases h
      exact ⟨hk, hnone, by simpa using he⟩

theorem NodeOK.have {src : Nat} {c c' : CopyCore} {idx : Nat} {r : Res}
    (h : c.peekLocal goodCopyFacts idx = .have r c') (ok : NodeOK (.parent src c)) : NodeOK (.parent src c') := by
  obtain ⟨k, hk, h | h⟩ := peek_have h
  · obtain ⟨it, hit, _, rfl⟩ := h
    intro i k' hk'
    simp only [List.getElem?_set] at hk'
    split at hk'
    · split at hk'
      · cases hk'
        rcases List.getElem?_eq_some_iff.mp hit with ⟨hlt, _⟩
        exact hlt
      · cases hk'
    · exact ok i k' hk'
  · obtain ⟨_, _, _, rfl⟩ := h; exact ok

/-- a fill appends to the shared list -/
theorem fill_log {c : CopyCore} {idx k : Nat} (hk : c.peekLocal goodCopyFacts idx = .fill k)
    (ok : ∀ (i k : Nat), c.cursors[i]? = some (some k) → k ≤ c.log.length) :
    k = c.log.length := by
  obtain ⟨h1, h2, _⟩ := peek_fill hk
  have := ok idx k h1
  have := List.getElem?_eq_none_iff.mp h2
  omega

theorem NodeOK.fill {src : Nat} {c : CopyCore} {idx k : Nat} (r : Res)
    (hk : c.peekLocal goodCopyFacts idx = .fill k) (ok : NodeOK (.parent src c)) :
    NodeOK (.parent src (c.fill idx k r)) := by
  have hlen := fill_log hk ok
  cases r with
  | eof => exact ok
  | item it =>
    intro i k' hk'
    simp only [CopyCore.fill, List.getElem?_set] at hk'
    simp only [CopyCore.fill, List.length_append, List.length_take, List.length_cons, List.length_nil]
    split at hk'
    · split at hk'
      · cases hk'; omega
      · cases hk'
    · have := ok i k' hk'; omega



theorem merge_erase_sameShape {net : Net} {id : Nat} {sts chosen : List Nat}
    (hn : net.nodes[id]? = some (.merge sts chosen)) (sb : Nat) :
    SameShape net (net.setNode id (.merge sts (chosen.erase sb))) := setNode_sameShape hn rfl

theorem up_parent_not {net : Net} (i : ShInv net) {par src : Nat} {core : CopyCore}
    (hp : net.nodes[par]? = some (.parent src core)) : ¬ Up net src par := by
  intro hu
  have h1 := hu.le i
  have h2 := i.lt _ _ (edge_parent hp)
  omega

theorem fwdEnd_stInv {F : Facts} {cf : Nat} {n1 n' : Net} {sid src : Nat} {st : FwdSt}
    (hn : n1.nodes[sid]? = some (.fpipe src st)) (h : fwdEnd F cf n1 sid src = some n') (hst : StInv n1) :
    StInv n' := by
  have s1 : StInv (n1.setNode sid (.fpipe src .ended)) := hst.setNode (by trivial) _
  unfold fwdEnd at h
  split at h
  · obtain ⟨l, _⟩ := closeAll_spec F cf _ _ _ h
    exact l.stInv s1
  · cases h; exact s1

theorem NodeOK.erase {sts chosen : List Nat} (sb : Nat) (h : NodeOK (.merge sts chosen)) :
    NodeOK (.merge sts (chosen.erase sb)) :=
  ⟨fun x hx => h.1 x (List.mem_of_mem_erase hx), h.2.erase sb⟩

theorem Recv.stInv {F : Facts} (hF : F.copy = goodCopyFacts) {net net' : Net} {id : Nat} {r : Res}
    {tr : List (Nat × Item)} (h : Recv F net id r net' tr) (hsh : ShInv net) (hst : StInv net) : StInv net' := by
  induction h with
  | pipe hn _ => exact hst.setNode (by trivial) _
  | arrItem hn => exact hst.setNode (by trivial) _
  | arrEof _ => exact hst
  | convEof _ _ ih => exact ih hsh hst
  | convItem _ _ _ ih => exact ih hsh hst
  | convSkip _ h1 _ _ ih1 ih2 => exact ih2 (h1.sameShape.1.shInv hsh) (ih1 hsh hst)
  | childHave hn hp hk =>
    rw [hF] at hk
    exact hst.setNode (NodeOK.have hk ((stInv_iff.mp hst) _ _ hp)) _
  | childFill hn hp hk _ ih =>
    rw [hF] at hk
    exact (ih hsh hst).setNode (NodeOK.fill _ hk ((stInv_iff.mp hst) _ _ hp)) _
  | mergeEof _ => exact hst
  | mergePipeItem _ _ _ hp _ => exact hst.setNode (by trivial) _
  | mergeFwdItem _ _ _ _ _ ih => exact ih hsh hst
  | mergeDropPipe hn _ _ _ _ _ ih =>
    exact ih ((setNode_sameShape (x := Node.merge _ (List.erase _ _)) hn rfl).shInv hsh)
      (hst.setNode (NodeOK.erase _ ((stInv_iff.mp hst) _ _ hn)) _)
  | @mergeDropFwd net n1 n' n2 id sb sid src cf sts chosen r tr1 tr2 hn _ hs hf h1 hfe _ ih1 ih2 =>
    have hs1 : n1.shp? sid = some (.fpipe src) := by rw [h1.sameShape.1.2]; exact shp?_some hf
    obtain ⟨nd, hnd, hsh'⟩ := shp?_eq_some hs1
    cases nd <;> simp [Node.shp] at hsh'
    subst hsh'
    obtain ⟨s2, _⟩ := fwdEnd_spec hnd hfe
    have hm : n'.shp? id = some (.merge sts) := by
      rw [s2.2, h1.sameShape.1.2]; exact shp?_some hn
    have s3 : SameShape n' (n'.setNode id (.merge sts (chosen.erase sb))) := setNode_sameShape' hm rfl
    exact ih2 ((h1.sameShape.1.trans (s2.trans s3)).shInv hsh)
      ((fwdEnd_stInv hnd hfe (ih1 hsh hst)).setNode (NodeOK.erase _ ((stInv_iff.mp hst) _ _ hn)) _)
  | mergeDropEnded hn _ _ _ _ ih =>
    exact ih ((setNode_sameShape (x := Node.merge _ (List.erase _ _)) hn rfl).shInv hsh)
      (hst.setNode (NodeOK.erase _ ((stInv_iff.mp hst) _ _ hn)) _)

/-! ## traces -/

def Res.items : Res → List Item
  | .item x => [x]
  | .eof => []

theorem ofSrc_nil_of {k : Nat} {tr : List (Nat × Item)} (h : ∀ e ∈ tr, e.1 ≠ k) : ofSrc k tr = [] := by
  unfold ofSrc
  rw [List.filterMap_eq_nil_iff]
  intro e he
  simp [h e he]

theorem ofSrc_app (k : Nat) (a b : List (Nat × Item)) : ofSrc k (a ++ b) = ofSrc k a ++ ofSrc k b := by
  simp [ofSrc, List.filterMap_append]

theorem ofSrc_tag_self (k : Nat) (r : Res) : ofSrc k (tag k r) = r.items := by
  cases r <;> simp [ofSrc, tag, Res.items]

theorem ofSrc_tag_ne {k j : Nat} (h : j ≠ k) (r : Res) : ofSrc k (tag j r) = [] := by
  cases r <;> simp [ofSrc, tag, h]

theorem mem_tag {e : Nat × Item} {id : Nat} {r : Res} (h : e ∈ tag id r) : e.1 = id := by
  cases r <;> simp [tag] at h
  subst h; rfl

/-- the trace of a `Recv` mentions only nodes the reader is built on, and the reader itself
    exactly with the item it returns -/
theorem Recv.trace {F : Facts} {net net' : Net} {id : Nat} {r : Res} {tr : List (Nat × Item)}
    (h : Recv F net id r net' tr) (hsh : ShInv net) :
    (∀ e ∈ tr, Up net id e.1) ∧ ofSrc id tr = r.items := by
  induction h with
  | pipe hn _ =>
    refine ⟨fun e he => ?_, ofSrc_tag_self _ _⟩
    rw [mem_tag he]; exact .refl _
  | arrItem hn =>
    refine ⟨fun e he => ?_, by simp [ofSrc, Res.items]⟩
    simp at he; subst he; exact .refl _
  | arrEof _ => exact ⟨fun e he => by simp at he, rfl⟩
  | convEof hn _ ih =>
    obtain ⟨h1, h2⟩ := ih hsh
    have e1 := edge_conv hn
    refine ⟨fun e he => .step e1 (h1 e he), ?_⟩
    rw [ofSrc_nil_of]; · rfl
    intro e he heq
    have := (h1 e he).le hsh; have := hsh.lt _ _ e1; omega
  | convItem hn _ _ ih =>
    obtain ⟨h1, h2⟩ := ih hsh
    have e1 := edge_conv hn
    refine ⟨fun e he => ?_, ?_⟩
    · simp at he
      rcases he with he | he
      · exact .step e1 (h1 e he)
      · subst he; exact .refl _
    · rw [ofSrc_app, ofSrc_nil_of]
      · simp [ofSrc, Res.items]
      · intro e he heq
        have := (h1 e he).le hsh; have := hsh.lt _ _ e1; omega
  | convSkip hn hr1 _ _ ih1 ih2 =>
    obtain ⟨h1, h2⟩ := ih1 hsh
    obtain ⟨h3, h4⟩ := ih2 (hr1.sameShape.1.shInv hsh)
    have e1 := edge_conv hn
    refine ⟨fun e he => ?_, ?_⟩
    · simp at he
      rcases he with he | he
      · exact .step e1 (h1 e he)
      · exact hr1.sameShape.1.up.mp (h3 e he)
    · rw [ofSrc_app, h4, ofSrc_nil_of]
      · rfl
      · intro e he heq
        have := (h1 e he).le hsh; have := hsh.lt _ _ e1; omega
  | childHave hn hp hk =>
    refine ⟨fun e he => ?_, ofSrc_tag_self _ _⟩
    rw [mem_tag he]; exact .refl _
  | childFill hn hp hk _ ih =>
    obtain ⟨h1, h2⟩ := ih hsh
    have e1 := edge_child hn
    have e2 := edge_parent hp
    refine ⟨fun e he => ?_, ?_⟩
    · simp at he
      rcases he with he | he
      · exact .step e1 (.step e2 (h1 e he))
      · rw [mem_tag he]; exact .refl _
    · rw [ofSrc_app, ofSrc_tag_self, ofSrc_nil_of]
      · rfl
      · intro e he heq
        have := (h1 e he).le hsh; have := hsh.lt _ _ e1; have := hsh.lt _ _ e2; omega
  | mergeEof _ => exact ⟨fun e he => by simp at he, rfl⟩
  | mergePipeItem hn _ hs hp _ =>
    have e1 := edge_merge hn (List.mem_of_getElem? hs)
    refine ⟨fun e he => ?_, ?_⟩
    · simp at he
      rcases he with he | he
      · subst he; exact .single e1
      · subst he; exact .refl _
    · have := hsh.lt _ _ e1
      have hne : ¬ (_ = _) := Nat.ne_of_lt this
      simp [ofSrc, Res.items, hne]
  | mergeFwdItem hn _ hs hf _ ih =>
    obtain ⟨h1, h2⟩ := ih hsh
    have e1 := edge_merge hn (List.mem_of_getElem? hs)
    have e2 := edge_fwd hf
    refine ⟨fun e he => ?_, ?_⟩
    · simp at he
      rcases he with he | he | he
      · exact .step e1 (.step e2 (h1 e he))
      · subst he; exact .single e1
      · subst he; exact .refl _
    · have hlt := hsh.lt _ _ e1
      have hne : ¬ (_ = _) := Nat.ne_of_lt hlt
      rw [ofSrc_app, ofSrc_nil_of]
      · simp [ofSrc, Res.items, hne]
      · intro e he heq
        have := (h1 e he).le hsh; have := hsh.lt _ _ e2; omega
  | @mergeDropPipe net n2 id sb sid sts chosen p p' r tr hn _ _ _ _ _ ih =>
    have ss := merge_erase_sameShape hn sb
    obtain ⟨h1, h2⟩ := ih (ss.shInv hsh)
    exact ⟨fun e he => ss.up.mp (h1 e he), h2⟩
  | @mergeDropFwd net n1 n' n2 id sb sid src cf sts chosen r tr1 tr2 hn _ hs hf hr1 hfe _ ih1 ih2 =>
    have hs1 : n1.shp? sid = some (.fpipe src) := by rw [hr1.sameShape.1.2]; exact shp?_some hf
    obtain ⟨nd, hnd, hsh'⟩ := shp?_eq_some hs1
    cases nd <;> simp [Node.shp] at hsh'
    subst hsh'
    obtain ⟨s2, _⟩ := fwdEnd_spec hnd hfe
    have hm : n'.shp? id = some (.merge sts) := by
      rw [s2.2, hr1.sameShape.1.2]; exact shp?_some hn
    have s3 : SameShape n' (n'.setNode id (.merge sts (chosen.erase sb))) := setNode_sameShape' hm rfl
    have ss := hr1.sameShape.1.trans (s2.trans s3)
    obtain ⟨h1, h2⟩ := ih1 hsh
    obtain ⟨h3, h4⟩ := ih2 (ss.shInv hsh)
    have e1 := edge_merge hn (List.mem_of_getElem? hs)
    have e2 := edge_fwd hf
    refine ⟨fun e he => ?_, ?_⟩
    · simp at he
      rcases he with he | he
      · exact .step e1 (.step e2 (h1 e he))
      · exact ss.up.mp (h3 e he)
    · rw [ofSrc_app, h4, ofSrc_nil_of]
      · rfl
      · intro e he heq
        have := (h1 e he).le hsh; have := hsh.lt _ _ e1; have := hsh.lt _ _ e2; omega
  | @mergeDropEnded net n2 id sb sid src sts chosen r tr hn _ _ _ _ ih =>
    have ss := merge_erase_sameShape hn sb
    obtain ⟨h1, h2⟩ := ih (ss.shInv hsh)
    exact ⟨fun e he => ss.up.mp (h1 e he), h2⟩

end EinoV.C08
