/-
  C08 — `Close` of a reader whose claim was withdrawn restores the close invariant (`release`):
  the cases pipe, array, convert, merged reader.
-/
import EinoV.Proofs.C08Tree.Release0
set_option linter.unusedVariables false
set_option linter.unusedSimpArgs false
namespace EinoV.C08


def Node.isHolder : Node → Bool
  | .parent _ _ => true
  | .fpipe _ _ => true
  | _ => false

/-- replacing a node that holds no other node's reading end changes no root claim -/
theorem rootClaimed_set_plain {net : Net} {H : List Nat} {i : Nat} {x y : Node}
    (hx : net.nodes[i]? = some x) (h1 : x.isHolder = false) (h2 : y.isHolder = false) (u : Nat) :
    RootClaimed (net.setNode i y) H u ↔ RootClaimed net H u := by
  have key : ∀ (k : Nat) (nd : Node), nd.isHolder = true →
      ((net.setNode i y).nodes[k]? = some nd ↔ net.nodes[k]? = some nd) := by
    intro k nd hnd
    rw [setNode_get_some hx]
    by_cases e : k = i
    · subst e
      simp only [if_true, hx]
      constructor
      · intro h; cases h; rw [h2] at hnd; cases hnd
      · intro h; cases h; rw [h1] at hnd; cases hnd
    · simp [e]
  unfold RootClaimed
  constructor
  · rintro (h | ⟨P, core, hp, ho⟩ | ⟨f, st, hf, hs⟩)
    · exact .inl h
    · exact .inr (.inl ⟨P, core, (key P _ rfl).mp hp, ho⟩)
    · exact .inr (.inr ⟨f, st, (key f _ rfl).mp hf, hs⟩)
  · rintro (h | ⟨P, core, hp, ho⟩ | ⟨f, st, hf, hs⟩)
    · exact .inl h
    · exact .inr (.inl ⟨P, core, (key P _ rfl).mpr hp, ho⟩)
    · exact .inr (.inr ⟨f, st, (key f _ rfl).mpr hf, hs⟩)

theorem upP_leaf {net : Net} {j k : Nat} {nd : Node} (hn : net.nodes[j]? = some nd)
    (h1 : ∀ src g, nd ≠ .conv src g) (h2 : ∀ sts ch, nd ≠ .merge sts ch) (h : UpP net j k) : j = k :=
  h.of_leaf (no_pedge hn h1 h2)

/-- a node of which nobody is a copy -/
theorem not_child_of {net : Net} (i : ShInv net) {k P idx j : Nat} {nd : Node}
    (hk : net.nodes[k]? = some (.child P idx)) (hj : net.nodes[j]? = some nd)
    (hnp : ∀ src core, nd ≠ .parent src core) : P ≠ j := by
  rintro rfl
  obtain ⟨src, n, hp, _⟩ := i.childPar k P idx (shp?_some hk)
  rw [shp?_some hj] at hp
  cases nd <;> simp [Node.shp] at hp
  exact hnp _ _ rfl

theorem release_pipe {F : Facts} {fuel : Nat} {net : Net} {H : List Nat} {j : Nat} {p : Pipe}
    (i : ShInv net) (hH : ∀ r ∈ H, Free net r) (h : RelHyp net H j)
    (hn : net.nodes[j]? = some (.pipe p)) :
    ∃ net', closeAll F (fuel + 1) net j = some net' ∧ CloseInvOn net' H (fun _ => True) := by
  have hopen : p.recvClosed = false := by
    have := h.opn j (.refl j)
    rw [stat_pipe hn] at this
    cases hc : p.recvClosed <;> simp [hc] at this ⊢
  refine ⟨net.setNode j (.pipe { p with recvClosed := true }), ?_, ?_⟩
  · simp [closeAll, hn, Pipe.closeRecv, hopen]
  · have hss : SameShape net (net.setNode j (.pipe { p with recvClosed := true })) := setNode_sameShape hn rfl
    have hleaf : ∀ k, UpP net j k → k = j := fun k hk =>
      (upP_leaf hn (by simp) (by simp) hk).symm
    refine closeInv_of_release (j := j) ?_ ?_ ?_ (fun k hk => h.unclaimed i hH hk) h.inv ?_ ?_
    · exact claimed_congr hss (rootClaimed_set_plain hn rfl rfl)
    · intro k hk
      have hne : k ≠ j := by rintro rfl; exact hk (.refl _)
      refine stat_congr (setNode_get_ne _ hne) (fun P idx hc => setNode_get_ne _ ?_)
      exact not_child_of i hc hn (by simp)
    · intro k hk
      rw [hleaf k hk, stat_pipe (setNode_get_self hn _)]; simp
    · intro P src core hp
      have hne : P ≠ j := by rintro rfl; rw [setNode_get_self hn] at hp; cases hp
      rw [setNode_get_ne _ hne] at hp
      intro idx hidx
      obtain ⟨c, hc⟩ := h.inv.cellKids P src core hp idx hidx
      have hcj : c ≠ j := by rintro rfl; rw [hn] at hc; cases hc
      exact ⟨c, by rw [setNode_get_ne _ hcj]; exact hc⟩
    · intro P src core hp
      have hne : P ≠ j := by rintro rfl; rw [setNode_get_self hn] at hp; cases hp
      rw [setNode_get_ne _ hne] at hp
      exact h.inv.cellCount P src core hp

theorem release_arr {F : Facts} {fuel : Nat} {net : Net} {H : List Nat} {j : Nat} {rest : List Item}
    (i : ShInv net) (hH : ∀ r ∈ H, Free net r) (h : RelHyp net H j)
    (hn : net.nodes[j]? = some (.arr rest)) :
    ∃ net', closeAll F (fuel + 1) net j = some net' ∧ CloseInvOn net' H (fun _ => True) := by
  refine ⟨net, by simp [closeAll, hn], ?_⟩
  refine closeInv_of_release (j := j) (fun _ => Iff.rfl) (fun _ _ => rfl) ?_
    (fun k hk => h.unclaimed i hH hk) h.inv h.inv.cellKids h.inv.cellCount
  intro k hk
  have := upP_leaf hn (by simp) (by simp) hk
  subst this
  rw [stat_none (by intro nd hnd; rw [hn] at hnd; cases hnd; simp)]; simp

/-- closing a convert = closing what it reads from -/
theorem relHyp_conv {net : Net} {H : List Nat} {j src : Nat} {g : ConvSpec}
    (i : ShInv net) (hH : ∀ r ∈ H, Free net r) (h : RelHyp net H j)
    (hn : net.nodes[j]? = some (.conv src g)) : RelHyp net H src := by
  have he : PEdge net j src := .inl ⟨g, hn⟩
  refine ⟨⟨fun k hk => ?_, h.inv.cellKids, h.inv.cellCount⟩, fun k hk => h.opn k (.step he hk), ?_⟩
  · by_cases hj : UpP net j k
    · have : k = j := by
        rcases hj.first with e | ⟨b, hb, hbk⟩
        · exact e.symm
        · rw [(pedge_conv hn).mp hb] at hbk; exact absurd hbk hk
      subst this
      rw [stat_none (by intro nd hnd; rw [hn] at hnd; cases hnd; simp)]
      exact ⟨by simp, by simp⟩
    · exact h.inv.flag k hj
  · intro j' hj'
    by_cases e : j' = src
    · subst e; exact rootClaimed_not_passed i hH he
    · exact h.noClaim j' (hj'.chain i e he)



/-! ## closing the sources of a merged reader -/

/-- what the close of a merged reader does to one of its sources -/
def closeSrc : Node → Node
  | .pipe p => .pipe { p with recvClosed := true }
  | .fpipe s .running => .fpipe s .pending
  | x => x

def SrcReady (net : Net) (sid : Nat) : Prop :=
  (∃ p, net.nodes[sid]? = some (.pipe p) ∧ p.recvClosed = false) ∨
  (∃ s, net.nodes[sid]? = some (.fpipe s .running)) ∨ (∃ s, net.nodes[sid]? = some (.fpipe s .ended))

theorem setNode_self {net : Net} {i : Nat} {x : Node} (h : net.nodes[i]? = some x) : net.setNode i x = net := by
  have hlt := get_lt h
  cases net with
  | mk nodes readers writers =>
    simp only at h hlt
    simp only [Net.setNode, Net.mk.injEq, and_true]
    apply Array.ext_getElem?
    intro k
    rw [Array.getElem?_setIfInBounds]
    by_cases e : i = k
    · subst e; rw [if_pos rfl, if_pos hlt]; exact h.symm
    · rw [if_neg e]

theorem mcloseStep_ok {net : Net} {sid : Nat} (h : SrcReady net sid) :
    ∃ x, net.nodes[sid]? = some x ∧ mcloseStep net sid = some (net.setNode sid (closeSrc x)) := by
  rcases h with ⟨p, hp, ho⟩ | ⟨s, hs⟩ | ⟨s, hs⟩
  · exact ⟨_, hp, by simp [mcloseStep, hp, Pipe.closeRecv, ho, closeSrc]⟩
  · exact ⟨_, hs, by simp [mcloseStep, hs, closeSrc]⟩
  · refine ⟨_, hs, ?_⟩
    simp only [mcloseStep, hs, closeSrc]
    rw [setNode_self hs]

theorem mcloseFold_ok : ∀ (sts : List Nat) (net : Net), sts.Nodup → (∀ sid ∈ sts, SrcReady net sid) →
    ∃ net', sts.foldlM mcloseStep net = some net' ∧ net'.readers = net.readers ∧
      net'.nodes.size = net.nodes.size ∧
      ∀ k, net'.nodes[k]? = if k ∈ sts then (net.nodes[k]?).map closeSrc else net.nodes[k]? := by
  intro sts
  induction sts with
  | nil => intro net _ _; exact ⟨net, rfl, rfl, rfl, fun k => by simp⟩
  | cons s rest ih =>
    intro net hnd hr
    rw [List.nodup_cons] at hnd
    obtain ⟨x, hx, hstep⟩ := mcloseStep_ok (hr s (by simp))
    have hr' : ∀ sid ∈ rest, SrcReady (net.setNode s (closeSrc x)) sid := by
      intro sid hsid
      have hne : sid ≠ s := by rintro rfl; exact hnd.1 hsid
      unfold SrcReady
      simp only [setNode_get_ne _ hne]
      exact hr sid (by simp [hsid])
    obtain ⟨net', hf, hrd, hsz, hn⟩ := ih (net.setNode s (closeSrc x)) hnd.2 hr'
    refine ⟨net', by simp [List.foldlM_cons, hstep, hf], by simp [hrd], by simp [hsz], fun k => ?_⟩
    rw [hn k]
    by_cases e : k = s
    · subst e
      simp [hnd.1, setNode_get_self hx, hx]
    · simp [e, setNode_get_ne _ e]

theorem closeSrc_shp (x : Node) : (closeSrc x).shp = x.shp := by
  cases x with
  | fpipe s st => cases st <;> rfl
  | _ => rfl

theorem closeSrc_holder_iff (x : Node) (u : Nat) :
    ((∃ core, closeSrc x = .parent u core ∧ OpenCursor core) ∨
      (∃ st, closeSrc x = .fpipe u st ∧ (st = .running ∨ st = .pending))) ↔
    ((∃ core, x = .parent u core ∧ OpenCursor core) ∨ (∃ st, x = .fpipe u st ∧ (st = .running ∨ st = .pending))) := by
  cases x with
  | fpipe s st =>
    cases st with
    | running =>
      simp only [closeSrc]
      constructor
      · rintro (⟨core, h, _⟩ | ⟨st, h, _⟩)
        · cases h
        · cases h; exact .inr ⟨_, rfl, .inl rfl⟩
      · rintro (⟨core, h, _⟩ | ⟨st, h, _⟩)
        · cases h
        · cases h; exact .inr ⟨_, rfl, .inr rfl⟩
    | _ => simp [closeSrc]
  | pipe p => simp [closeSrc]
  | _ => simp [closeSrc]



theorem closeSrc_keeps {x : Node} (h1 : ∀ p, x ≠ .pipe p) (h2 : ∀ s, x ≠ .fpipe s .running) : closeSrc x = x := by
  cases x with
  | pipe p => exact absurd rfl (h1 p)
  | fpipe s st =>
    cases st with
    | running => exact absurd rfl (h2 s)
    | _ => rfl
  | _ => rfl

theorem release_merge {F : Facts} {fuel : Nat} {net : Net} {H : List Nat} {j : Nat} {sts ch : List Nat}
    (i : ShInv net) (hH : ∀ r ∈ H, Free net r) (h : RelHyp net H j)
    (hn : net.nodes[j]? = some (.merge sts ch)) :
    ∃ net', closeAll F (fuel + 1) net j = some net' ∧ CloseInvOn net' H (fun _ => True) := by
  have hup : ∀ sid ∈ sts, UpP net j sid := fun sid hs => .step ((pedge_merge hn).mpr hs) (.refl _)
  have hready : ∀ sid ∈ sts, SrcReady net sid := by
    intro sid hs
    have hst := h.opn sid (hup sid hs)
    rcases i.mergeSrc j sts sid (shp?_some hn) hs with hp | ⟨src, hp⟩
    · obtain ⟨nd, hnd, hsh⟩ := shp?_eq_some hp
      cases nd <;> simp [Node.shp] at hsh
      rename_i p
      rw [stat_pipe hnd] at hst
      refine .inl ⟨p, hnd, ?_⟩
      cases hc : p.recvClosed <;> simp [hc] at hst ⊢
    · obtain ⟨nd, hnd, hsh⟩ := shp?_eq_some hp
      cases nd <;> simp [Node.shp] at hsh
      rename_i s st
      subst hsh
      rw [stat_fwd hnd] at hst
      cases st with
      | running => exact .inr (.inl ⟨_, hnd⟩)
      | ended => exact .inr (.inr ⟨_, hnd⟩)
      | pending => simp [fwdStat] at hst
      | stopped => simp [fwdStat] at hst
  have hnd := i.usesNodup j _ (shp?_some hn)
  simp only [Node.shp, Shp.uses] at hnd
  obtain ⟨net', hf, hrd, hsz, hnodes⟩ := mcloseFold_ok sts net hnd hready
  refine ⟨net', by rw [closeAll_merge_eq F fuel net j sts ch hn]; exact hf, ?_⟩
  -- the nodes of the result
  have hget : ∀ k : Nat, ∃ g : Node → Node, (g = closeSrc ∨ g = id) ∧ net'.nodes[k]? = (net.nodes[k]?).map g := by
    intro k
    by_cases hk : k ∈ sts
    · exact ⟨closeSrc, .inl rfl, by rw [hnodes k]; simp [hk]⟩
    · exact ⟨id, .inr rfl, by rw [hnodes k]; simp [hk]⟩
  have hkeep : ∀ (k : Nat) (x : Node), net.nodes[k]? = some x → (∀ p, x ≠ .pipe p) → (∀ s, x ≠ .fpipe s .running) →
      net'.nodes[k]? = some x := by
    intro k x hx h1 h2
    obtain ⟨g, hg, he⟩ := hget k
    rw [he, hx]
    rcases hg with rfl | rfl
    · simp [closeSrc_keeps h1 h2]
    · rfl
  have hback : ∀ (k : Nat) (y : Node), net'.nodes[k]? = some y → (∀ p, y ≠ .pipe p) → (∀ s, y ≠ .fpipe s .pending) →
      net.nodes[k]? = some y := by
    intro k y hy h1 h2
    obtain ⟨g, hg, he⟩ := hget k
    rw [he] at hy
    cases hx : net.nodes[k]? with
    | none => rw [hx] at hy; cases hy
    | some x =>
      rw [hx] at hy
      simp at hy
      rcases hg with rfl | rfl
      · cases x with
        | pipe p => simp [closeSrc] at hy; exact absurd hy.symm (h1 _)
        | fpipe s st =>
          cases st with
          | running => simp [closeSrc] at hy; exact absurd hy.symm (h2 _)
          | _ => simp [closeSrc] at hy; rw [hy]
        | _ => simp [closeSrc] at hy; rw [hy]
      · simp at hy; rw [hy]
  have hss : SameShape net net' := by
    refine ⟨hsz.symm, fun k => ?_⟩
    obtain ⟨g, hg, he⟩ := hget k
    unfold Net.shp?
    rw [he]
    cases net.nodes[k]? with
    | none => rfl
    | some x => rcases hg with rfl | rfl <;> simp [closeSrc_shp]
  have hroot : ∀ u, RootClaimed net' H u ↔ RootClaimed net H u := by
    intro u
    have key : ∀ k : Nat,
        ((∃ core, net'.nodes[k]? = some (.parent u core) ∧ OpenCursor core) ∨
          (∃ st, net'.nodes[k]? = some (.fpipe u st) ∧ (st = .running ∨ st = .pending))) ↔
        ((∃ core, net.nodes[k]? = some (.parent u core) ∧ OpenCursor core) ∨
          (∃ st, net.nodes[k]? = some (.fpipe u st) ∧ (st = .running ∨ st = .pending))) := by
      intro k
      obtain ⟨g, hg, he⟩ := hget k
      rw [he]
      cases net.nodes[k]? with
      | none => simp
      | some x =>
        rcases hg with rfl | rfl
        · simpa using closeSrc_holder_iff x u
        · simp
    unfold RootClaimed
    constructor
    · rintro (h1 | ⟨P, core, hp, ho⟩ | ⟨f, st, hf', hs⟩)
      · exact .inl h1
      · rcases (key P).mp (.inl ⟨core, hp, ho⟩) with ⟨c, h1, h2⟩ | ⟨s, h1, h2⟩
        · exact .inr (.inl ⟨P, c, h1, h2⟩)
        · exact .inr (.inr ⟨P, s, h1, h2⟩)
      · rcases (key f).mp (.inr ⟨st, hf', hs⟩) with ⟨c, h1, h2⟩ | ⟨s, h1, h2⟩
        · exact .inr (.inl ⟨f, c, h1, h2⟩)
        · exact .inr (.inr ⟨f, s, h1, h2⟩)
    · rintro (h1 | ⟨P, core, hp, ho⟩ | ⟨f, st, hf', hs⟩)
      · exact .inl h1
      · rcases (key P).mpr (.inl ⟨core, hp, ho⟩) with ⟨c, h1, h2⟩ | ⟨s, h1, h2⟩
        · exact .inr (.inl ⟨P, c, h1, h2⟩)
        · exact .inr (.inr ⟨P, s, h1, h2⟩)
      · rcases (key f).mpr (.inr ⟨st, hf', hs⟩) with ⟨c, h1, h2⟩ | ⟨s, h1, h2⟩
        · exact .inr (.inl ⟨f, c, h1, h2⟩)
        · exact .inr (.inr ⟨f, s, h1, h2⟩)
  have hregion : ∀ k, UpP net j k → k = j ∨ k ∈ sts := by
    intro k hk
    rcases hk.first with e | ⟨b, hb, hbk⟩
    · exact .inl e.symm
    · have hbs := (pedge_merge hn).mp hb
      right
      have : b = k := by
        refine hbk.of_leaf ?_
        rcases i.mergeSrc j sts b (shp?_some hn) hbs with hp | ⟨src, hp⟩
        · obtain ⟨nd, hnd, hsh⟩ := shp?_eq_some hp
          cases nd <;> simp [Node.shp] at hsh
          exact no_pedge hnd (by simp) (by simp)
        · obtain ⟨nd, hnd, hsh⟩ := shp?_eq_some hp
          cases nd <;> simp [Node.shp] at hsh
          exact no_pedge hnd (by simp) (by simp)
      exact this ▸ hbs
  refine closeInv_of_release (j := j) (claimed_congr hss hroot) ?_ ?_ (fun k hk => h.unclaimed i hH hk) h.inv ?_ ?_
  · intro k hk
    have hks : k ∉ sts := fun hm => hk (hup k hm)
    refine stat_congr (by rw [hnodes k]; simp [hks]) (fun P idx hc => ?_)
    obtain ⟨src, n, hp, _⟩ := i.childPar k P idx (shp?_some hc)
    obtain ⟨nd, hnd, hsh⟩ := shp?_eq_some hp
    cases nd <;> simp [Node.shp] at hsh
    rw [hkeep P _ hnd (by simp) (by simp), hnd]
  · intro k hk
    rcases hregion k hk with rfl | hks
    · rw [stat_none (by
        intro nd hnd
        rw [hkeep k _ hn (by simp) (by simp)] at hnd
        cases hnd; simp)]
      simp
    · rcases hready k hks with ⟨p, hp, _⟩ | ⟨s, hs⟩ | ⟨s, hs⟩
      · have : net'.nodes[k]? = some (.pipe { p with recvClosed := true }) := by
          rw [hnodes k]; simp [hks, hp, closeSrc]
        rw [stat_pipe this]; simp
      · have : net'.nodes[k]? = some (.fpipe s .pending) := by
          rw [hnodes k]; simp [hks, hs, closeSrc]
        rw [stat_fwd this]; simp [fwdStat]
      · have : net'.nodes[k]? = some (.fpipe s .ended) := by
          rw [hnodes k]; simp [hks, hs, closeSrc]
        rw [stat_fwd this]; simp [fwdStat]
  · intro P src core hp idx hidx
    have hp0 := hback P _ hp (by simp) (by simp)
    obtain ⟨c, hc⟩ := h.inv.cellKids P src core hp0 idx hidx
    exact ⟨c, hkeep c _ hc (by simp) (by simp)⟩
  · intro P src core hp
    exact h.inv.cellCount P src core (hback P _ hp (by simp) (by simp))


end EinoV.C08
