/-
  C08 — the traces the oracle accepts (`runOps`) are schedules (`Behaves`): every candidate
  state the oracle tracks is reachable by enabled operations.
-/
import EinoV.Proofs.C08Tree.Delivery
set_option linter.unusedVariables false
set_option linter.unusedSimpArgs false
namespace EinoV.C08

/-! ## the traces the oracle accepts are schedules -/

theorem dedupNets_sub (l : List Net) : ∀ n ∈ dedupNets l, n ∈ l := by
  unfold dedupNets
  have key : ∀ (l acc : List Net),
      ∀ n ∈ l.foldl (fun acc n => if acc.any (· == n) then acc else acc ++ [n]) acc, n ∈ acc ∨ n ∈ l := by
    intro l
    induction l with
    | nil => intro acc n hn; exact .inl (by simpa using hn)
    | cons x rest ih =>
      intro acc n hn
      simp only [List.foldl_cons] at hn
      rcases ih _ n hn with h | h
      · split at h
        · exact .inl h
        · simp at h
          rcases h with h | h
          · exact .inl h
          · exact .inr (by simp [h])
      · exact .inr (by simp [h])
  intro n hn
  rcases key l [] n hn with h | h
  · simp at h
  · exact h

theorem applyOpSet_step {F : Facts} (g : GoodFacts F) {fuel : Nat} {nets nets' : List Net} {op : Op} {cr : List Nat}
    (h : applyOpSet F fuel nets op = .ok (nets', cr)) :
    ∀ n' ∈ nets', ∃ n ∈ nets, Step F fuel n op n' := by
  intro n' hn'
  cases op with
  | recv r obs =>
    simp only [applyOpSet] at h
    split at h
    · cases h
    · rename_i hall
      split at h
      · split at h
        · cases h
        · cases h
          have hg := dedupNets_sub _ n' hn'
          simp only [List.mem_filterMap] at hg
          obtain ⟨o, ho, hoe⟩ := hg
          split at hoe
          · rename_i heq
            cases hoe
            simp only [List.mem_flatMap] at ho
            obtain ⟨net, hnet, hmem⟩ := ho
            have he : o.1 = obs := by simpa using heq
            obtain ⟨tr, hr⟩ := recvAll_sound g.tbl fuel net r o.1 o.2 hmem
            have hall' : ∀ n ∈ nets, r ∈ n.readers := by simpa using hall
            exact ⟨net, hnet, .recv (hall' net hnet) (he ▸ hr)⟩
          · cases hoe
      · split at h
        · cases h
        · split at h
          · cases h
          · split at h <;> cases h
  | _ =>
    simp only [applyOpSet] at h
    split at h
    · rename_i x rest hoks
      cases h
      have hg := dedupNets_sub _ n' hn'
      simp only [List.mem_map] at hg
      obtain ⟨y, hy, rfl⟩ := hg
      simp only [List.mem_filterMap, List.mem_map] at hy
      obtain ⟨res, ⟨net, hnet, rfl⟩, hres⟩ := hy
      split at hres
      · rename_i z hz
        cases hres
        exact ⟨net, hnet, applyOp_step g (cr := y.2) hz⟩
      · cases hres
    · split at h <;> cases h

theorem runOps_behaves {F : Facts} (g : GoodFacts F) {fuel : Nat} : ∀ (ops : List Op) (nets : List Net) (i : Nat)
    {nets' : List Net} {cr : List Nat}, runOps F fuel nets i ops = .ok (nets', cr) →
    ∀ n' ∈ nets', ∃ n ∈ nets, Behaves F fuel n ops n' := by
  intro ops
  induction ops with
  | nil =>
    intro nets i nets' cr h n' hn'
    simp only [runOps] at h
    cases h
    exact ⟨n', hn', .nil _⟩
  | cons op rest ih =>
    intro nets i nets' cr h n' hn'
    cases rest with
    | nil =>
      simp only [runOps] at h
      split at h
      · rename_i r hr
        cases h
        obtain ⟨n, hn, hs⟩ := applyOpSet_step g hr n' hn'
        exact ⟨n, hn, .cons hs (.nil _)⟩
      · cases h
    | cons op2 rest2 =>
      simp only [runOps] at h
      split at h
      · rename_i r hr
        obtain ⟨n1, hn1, hb⟩ := ih r.1 (i + 1) h n' hn'
        obtain ⟨n, hn, hs⟩ := applyOpSet_step g (cr := r.2) hr n1 hn1
        exact ⟨n, hn, .cons hs hb⟩
      · cases h

theorem Behaves.split {F : Facts} {fuel : Nat} {a c : Net} (o1 o2 : List Op)
    (h : Behaves F fuel a (o1 ++ o2) c) : ∃ b, Behaves F fuel a o1 b ∧ Behaves F fuel b o2 c := by
  induction o1 generalizing a with
  | nil => exact ⟨a, .nil _, h⟩
  | cons o rest ih =>
    cases h with
    | cons hs hr =>
      obtain ⟨b, h1, h2⟩ := ih hr
      exact ⟨b, .cons hs h1, h2⟩

end EinoV.C08

namespace EinoV.C08

/-- executable check used by the non-vacuity examples: the oracle accepts `ops0`, every candidate
    state then holds reader `r`, and it accepts `ops1` followed by `Recv r = io.EOF` -/
def twoPhaseOK (F : Facts) (fuel : Nat) (ops0 ops1 : List Op) (r : Nat) : Bool :=
  match runOps F fuel [{}] 0 ops0 with
  | .ok (nets0, _) =>
    nets0.all (fun n => n.readers.contains r) &&
    (match runOps F fuel nets0 0 (ops1 ++ [.recv r .eof]) with
     | .ok (_ :: _, _) => true
     | _ => false)
  | _ => false

theorem twoPhaseOK_spec {F : Facts} (g : GoodFacts F) {fuel : Nat} {ops0 ops1 : List Op} {r : Nat}
    (h : twoPhaseOK F fuel ops0 ops1 r = true) :
    ∃ net0 net', Behaves F fuel {} ops0 net0 ∧ r ∈ net0.readers ∧
      Behaves F fuel net0 (ops1 ++ [.recv r .eof]) net' := by
  unfold twoPhaseOK at h
  split at h
  · rename_i nets0 cr0 h0
    simp only [Bool.and_eq_true] at h
    obtain ⟨hall, h1⟩ := h
    split at h1
    · rename_i n' rest cr1 h1'
      obtain ⟨n0, hn0, hb1⟩ := runOps_behaves g _ _ _ h1' n' (by simp)
      obtain ⟨n, hn, hb0⟩ := runOps_behaves g _ _ _ h0 n0 hn0
      simp at hn; subst hn
      have hr := List.all_eq_true.mp hall n0 hn0
      exact ⟨n0, n', hb0, by simpa using hr, hb1⟩
    · cases h1
  · cases h

end EinoV.C08

namespace EinoV.C08

/-- executable check used by the non-vacuity examples of close propagation: the oracle accepts
    `ops`, and in every candidate state no reader is held any more and no forwarder is pending -/
def allClosedOK (F : Facts) (fuel : Nat) (ops : List Op) : Bool :=
  match runOps F fuel [{}] 0 ops with
  | .ok (n :: rest, _) => (n :: rest).all fun m => m.readers.isEmpty && (pendings m).isEmpty
  | _ => false

theorem allClosedOK_spec {F : Facts} (g : GoodFacts F) {fuel : Nat} {ops : List Op}
    (h : allClosedOK F fuel ops = true) :
    ∃ net, Behaves F fuel {} ops net ∧ net.readers = [] ∧ pendings net = [] := by
  unfold allClosedOK at h
  split at h
  · rename_i n rest cr h0
    obtain ⟨m, hm, hb⟩ := runOps_behaves g _ _ _ h0 n (by simp)
    simp at hm; subst hm
    have := List.all_eq_true.mp h n (by simp)
    simp only [Bool.and_eq_true, List.isEmpty_iff] at this
    exact ⟨n, hb, this.1, this.2⟩
  · cases h

end EinoV.C08

namespace EinoV.C08

/-- executable check used by the non-vacuity example of the prefix theorem: the oracle accepts
    `ops0`, every candidate state then holds reader `r`, it accepts `ops1`, and `r` is still held -/
def heldOK (F : Facts) (fuel : Nat) (ops0 ops1 : List Op) (r : Nat) : Bool :=
  match runOps F fuel [{}] 0 ops0 with
  | .ok (nets0, _) =>
    nets0.all (fun n => n.readers.contains r) &&
    (match runOps F fuel nets0 0 ops1 with
     | .ok (n :: _, _) => n.readers.contains r
     | _ => false)
  | _ => false

theorem heldOK_spec {F : Facts} (g : GoodFacts F) {fuel : Nat} {ops0 ops1 : List Op} {r : Nat}
    (h : heldOK F fuel ops0 ops1 r = true) :
    ∃ net0 net1, Behaves F fuel {} ops0 net0 ∧ r ∈ net0.readers ∧ Behaves F fuel net0 ops1 net1 ∧
      r ∈ net1.readers := by
  unfold heldOK at h
  split at h
  · rename_i nets0 cr0 h0
    simp only [Bool.and_eq_true] at h
    obtain ⟨hall, h1⟩ := h
    split at h1
    · rename_i n' rest cr1 h1'
      obtain ⟨n0, hn0, hb1⟩ := runOps_behaves g _ _ _ h1' n' (by simp)
      obtain ⟨n, hn, hb0⟩ := runOps_behaves g _ _ _ h0 n0 hn0
      simp at hn; subst hn
      have hr := List.all_eq_true.mp hall n0 hn0
      exact ⟨n0, n', hb0, by simpa using hr, hb1, by simpa using h1⟩
    · cases h1
  · cases h

end EinoV.C08
