/-
  C08 — the close invariant and the building operations: how pushing one node changes the claims.
-/
import EinoV.Proofs.C08Tree.ClosePres2
set_option linter.unusedVariables false
set_option linter.unusedSimpArgs false
namespace EinoV.C08


/-! ## the close invariant and the building operations: pushing one node -/

def FlagInv (net : Net) (H : List Nat) : Prop :=
  ∀ k : Nat, (stat net k = .open → Claimed net H k) ∧ (stat net k = .closed → ¬ Claimed net H k)

theorem pedge_push_old {net : Net} (x : Node) {j u : Nat} (hj : j < net.nodes.size) :
    PEdge (net.push x).1 j u ↔ PEdge net j u := by
  unfold PEdge; rw [push_get_old x hj]

theorem upP_push_old {net : Net} (sh : ShInv net) (x : Node) {j k : Nat} (hj : j < net.nodes.size) :
    UpP (net.push x).1 j k ↔ UpP net j k := by
  constructor
  · intro h
    induction h with
    | refl _ => exact .refl _
    | @step a u c he _ ih =>
      have he' := (pedge_push_old x hj).mp he
      obtain ⟨s, hs, hu⟩ := he'.edge
      have := sh.lt a u ⟨s, hs, .inl hu⟩
      exact .step he' (ih (by omega))
  · intro h
    induction h with
    | refl _ => exact .refl _
    | @step a u c he _ ih =>
      obtain ⟨s, hs, hu⟩ := he.edge
      have := sh.lt a u ⟨s, hs, .inl hu⟩
      exact .step ((pedge_push_old x hj).mpr he) (ih (by omega))

theorem upP_old_lt {net : Net} (sh : ShInv net) {j k : Nat} (h : UpP net j k) (hj : j < net.nodes.size) :
    k < net.nodes.size := by
  have := h.up.le sh; omega

theorem stat_push_old {net : Net} (sh : ShInv net) (x : Node) {k : Nat} (hk : k < net.nodes.size) :
    stat (net.push x).1 k = stat net k := by
  refine stat_congr (push_get_old x hk) (fun P idx hc => push_get_old x ?_)
  have := sh.lt k P (edge_child hc); omega

/-- how a new node claims an old one -/
def NewHolds (x : Node) (u : Nat) : Prop :=
  (∃ core, x = .parent u core ∧ OpenCursor core) ∨ (∃ st, x = .fpipe u st ∧ (st = .running ∨ st = .pending))

theorem rootClaimed_push {net : Net} (x : Node) (H' : List Nat) (u : Nat) :
    RootClaimed (net.push x).1 H' u ↔
      u ∈ H' ∨ (∃ (P : Nat) (core : CopyCore), net.nodes[P]? = some (Node.parent u core) ∧ OpenCursor core) ∨
      (∃ (f : Nat) (st : FwdSt), net.nodes[f]? = some (Node.fpipe u st) ∧ (st = FwdSt.running ∨ st = FwdSt.pending)) ∨
      NewHolds x u := by
  unfold RootClaimed NewHolds
  constructor
  · rintro (h | ⟨P, c, hp, ho⟩ | ⟨f, st, hf, hs⟩)
    · exact .inl h
    · rw [push_get] at hp
      split at hp
      · cases hp; exact .inr (.inr (.inr (.inl ⟨c, rfl, ho⟩)))
      · exact .inr (.inl ⟨P, c, hp, ho⟩)
    · rw [push_get] at hf
      split at hf
      · cases hf; exact .inr (.inr (.inr (.inr ⟨st, rfl, hs⟩)))
      · exact .inr (.inr (.inl ⟨f, st, hf, hs⟩))
  · rintro (h | ⟨P, c, hp, ho⟩ | ⟨f, st, hf, hs⟩ | ⟨c, rfl, ho⟩ | ⟨st, rfl, hs⟩)
    · exact .inl h
    · exact .inr (.inl ⟨P, c, by rw [push_get_old _ (get_lt hp)]; exact hp, ho⟩)
    · exact .inr (.inr ⟨f, st, by rw [push_get_old _ (get_lt hf)]; exact hf, hs⟩)
    · exact .inr (.inl ⟨net.nodes.size, c, by rw [push_get]; simp, ho⟩)
    · exact .inr (.inr ⟨net.nodes.size, st, by rw [push_get]; simp, hs⟩)

theorem upP_push_new {net : Net} (sh : ShInv net) (x : Node) (hx : ∀ u ∈ x.shp.uses, u < net.nodes.size) {k : Nat} :
    UpP (net.push x).1 net.nodes.size k ↔
      k = net.nodes.size ∨ ∃ b, PEdge (net.push x).1 net.nodes.size b ∧ UpP net b k := by
  constructor
  · intro h
    rcases h.first with e | ⟨b, hb, hbk⟩
    · exact .inl e.symm
    · obtain ⟨s, hs, hu⟩ := hb.edge
      rw [push_shp?] at hs; simp at hs; subst hs
      exact .inr ⟨b, hb, (upP_push_old sh x (hx b hu)).mp hbk⟩
  · rintro (rfl | ⟨b, hb, hbk⟩)
    · exact .refl _
    · obtain ⟨s, hs, hu⟩ := hb.edge
      rw [push_shp?] at hs; simp at hs; subst hs
      exact .step hb ((upP_push_old sh x (hx b hu)).mpr hbk)

/-- the general form: the flags of the old nodes stay right if the claims of the old nodes stay
    the same, and the flag of the new node is right -/
theorem flagInv_push {net : Net} {H H' : List Nat} (sh : ShInv net) (x : Node) (h : FlagInv net H)
    (hold : ∀ k, k < net.nodes.size → stat net k ≠ .none →
      (Claimed (net.push x).1 H' k ↔ Claimed net H k))
    (hnew : (stat (net.push x).1 net.nodes.size = .open → Claimed (net.push x).1 H' net.nodes.size) ∧
      (stat (net.push x).1 net.nodes.size = .closed → ¬ Claimed (net.push x).1 H' net.nodes.size)) :
    FlagInv (net.push x).1 H' := by
  intro k
  by_cases hk : k < net.nodes.size
  · rw [stat_push_old sh x hk]
    refine ⟨fun ho => ?_, fun hc => ?_⟩
    · rw [hold k hk (by rw [ho]; simp)]; exact (h k).1 ho
    · rw [hold k hk (by rw [hc]; simp)]; exact (h k).2 hc
  · by_cases e : k = net.nodes.size
    · subst e; exact hnew
    · have : (net.push x).1.nodes[k]? = none := by
        apply Array.getElem?_eq_none; simp; omega
      have hs : stat (net.push x).1 k = .none := by
        apply stat_none; intro nd hnd; rw [this] at hnd; cases hnd
      rw [hs]; exact ⟨by simp, by simp⟩



theorem no_pedge_push_new {net : Net} {x : Node} (h1 : ∀ src g, x ≠ .conv src g) (h2 : ∀ sts ch, x ≠ .merge sts ch) :
    ∀ u, ¬ PEdge (net.push x).1 net.nodes.size u :=
  no_pedge (by rw [push_get]; simp) h1 h2

/-- pushing a node that is no convert and no merged reader: the claims of the old nodes are kept
    if the reader the new node holds (if any) was held by the caller and is handed over -/
theorem claimed_push_nopass {net : Net} {H H' : List Nat} (sh : ShInv net) (x : Node)
    (h1 : ∀ src g, x ≠ .conv src g) (h2 : ∀ sts ch, x ≠ .merge sts ch)
    (ha : ∀ u, NewHolds x u → u ∈ H)
    (hb : ∀ y, y < net.nodes.size → (y ∈ H' ↔ y ∈ H ∧ ¬ NewHolds x y))
    {k : Nat} (hk : k < net.nodes.size) : Claimed (net.push x).1 H' k ↔ Claimed net H k := by
  constructor
  · rintro ⟨j', hu, hc⟩
    by_cases e : j' = net.nodes.size
    · subst e
      have := hu.of_leaf (no_pedge_push_new h1 h2)
      omega
    · have hj' : j' < net.nodes.size := by
        apply Nat.lt_of_not_le; intro hge
        have hnone : (net.push x).1.nodes[j']? = none := by
          apply Array.getElem?_eq_none; simp; omega
        have : j' = k := hu.of_leaf (by
          rintro u (⟨g, hh⟩ | ⟨sts, ch, hh, _⟩) <;> (rw [hnone] at hh; cases hh))
        omega
      refine ⟨j', (upP_push_old sh x hj').mp hu, ?_⟩
      rcases (rootClaimed_push x H' j').mp hc with h | h | h | h
      · exact .inl ((hb j' hj').mp h).1
      · exact .inr (.inl h)
      · exact .inr (.inr h)
      · exact .inl (ha j' h)
  · rintro ⟨j', hu, hc⟩
    have hj' : j' < net.nodes.size := by
      rcases hc with h | ⟨P, c, hp, _⟩ | ⟨f, st, hf, _⟩
      · apply Nat.lt_of_not_le; intro hge
        have hnone : net.nodes[j']? = none := by apply Array.getElem?_eq_none; omega
        have : j' = k := hu.of_leaf (by
          rintro u (⟨g, hh⟩ | ⟨sts, ch, hh, _⟩) <;> (rw [hnone] at hh; cases hh))
        omega
      · have := sh.lt P j' (edge_parent hp); have := get_lt hp; omega
      · have := sh.lt f j' (edge_fwd hf); have := get_lt hf; omega
    refine ⟨j', (upP_push_old sh x hj').mpr hu, (rootClaimed_push x H' j').mpr ?_⟩
    rcases hc with h | h | h
    · by_cases hn : NewHolds x j'
      · exact .inr (.inr (.inr hn))
      · exact .inl ((hb j' hj').mpr ⟨h, hn⟩)
    · exact .inr (.inl h)
    · exact .inr (.inr (.inl h))

theorem pedge_push_new_iff {net : Net} (x : Node) (u : Nat) :
    PEdge (net.push x).1 net.nodes.size u ↔ (∃ g, x = .conv u g) ∨ (∃ sts ch, x = .merge sts ch ∧ u ∈ sts) := by
  unfold PEdge
  rw [push_get]; simp

/-- pushing a convert or a merged reader over readers the caller holds, and holding it instead -/
theorem claimed_push_pass {net : Net} {H H' : List Nat} (sh : ShInv net) (x : Node)
    (hx : ∀ u ∈ x.shp.uses, u < net.nodes.size)
    (hp : ∀ u, PEdge (net.push x).1 net.nodes.size u ↔ u ∈ x.shp.uses)
    (hnh : ∀ u, ¬ NewHolds x u)
    (ha : ∀ u ∈ x.shp.uses, u ∈ H)
    (hb : ∀ y, y < net.nodes.size → (y ∈ H' ↔ y ∈ H ∧ y ∉ x.shp.uses))
    (hn : net.nodes.size ∈ H')
    {k : Nat} (hk : k < net.nodes.size) : Claimed (net.push x).1 H' k ↔ Claimed net H k := by
  constructor
  · rintro ⟨j', hu, hc⟩
    by_cases e : j' = net.nodes.size
    · subst e
      rcases (upP_push_new sh x hx).mp hu with e | ⟨b, hb', hbk⟩
      · omega
      · exact ⟨b, hbk, .inl (ha b ((hp b).mp hb'))⟩
    · have hj' : j' < net.nodes.size := by
        apply Nat.lt_of_not_le; intro hge
        have hnone : (net.push x).1.nodes[j']? = none := by
          apply Array.getElem?_eq_none; simp; omega
        have : j' = k := hu.of_leaf (by
          rintro u (⟨g, hh⟩ | ⟨sts, ch, hh, _⟩) <;> (rw [hnone] at hh; cases hh))
        omega
      refine ⟨j', (upP_push_old sh x hj').mp hu, ?_⟩
      rcases (rootClaimed_push x H' j').mp hc with h | h | h | h
      · exact .inl ((hb j' hj').mp h).1
      · exact .inr (.inl h)
      · exact .inr (.inr h)
      · exact absurd h (hnh j')
  · rintro ⟨j', hu, hc⟩
    have hj' : j' < net.nodes.size := by
      rcases hc with h | ⟨P, c, hp', _⟩ | ⟨f, st, hf, _⟩
      · apply Nat.lt_of_not_le; intro hge
        have hnone : net.nodes[j']? = none := by apply Array.getElem?_eq_none; omega
        have : j' = k := hu.of_leaf (by
          rintro u (⟨g, hh⟩ | ⟨sts, ch, hh, _⟩) <;> (rw [hnone] at hh; cases hh))
        omega
      · have := sh.lt P j' (edge_parent hp'); have := get_lt hp'; omega
      · have := sh.lt f j' (edge_fwd hf); have := get_lt hf; omega
    rcases hc with h | h | h
    · by_cases hu' : j' ∈ x.shp.uses
      · exact ⟨net.nodes.size, (upP_push_new sh x hx).mpr (.inr ⟨j', (hp j').mpr hu', hu⟩),
          (rootClaimed_push x H' _).mpr (.inl hn)⟩
      · exact ⟨j', (upP_push_old sh x hj').mpr hu, (rootClaimed_push x H' j').mpr (.inl ((hb j' hj').mpr ⟨h, hu'⟩))⟩
    · exact ⟨j', (upP_push_old sh x hj').mpr hu, (rootClaimed_push x H' j').mpr (.inr (.inl h))⟩
    · exact ⟨j', (upP_push_old sh x hj').mpr hu, (rootClaimed_push x H' j').mpr (.inr (.inr (.inl h)))⟩


end EinoV.C08
