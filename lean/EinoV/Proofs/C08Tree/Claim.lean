/-
  C08 — pass-through edges (`PEdge`, `UpP`) and claims (`Claimed`): basic facts.
-/
import EinoV.Spec.C08Close
import EinoV.Proofs.C08Tree.Sched
import EinoV.Proofs.C08
set_option linter.unusedVariables false
set_option linter.unusedSimpArgs false
namespace EinoV.C08

/-! ## pass-through edges -/

theorem pedge_iff {net : Net} {j u : Nat} :
    PEdge net j u ↔ (∃ g, net.shp? j = some (.conv u g)) ∨ (∃ sts, net.shp? j = some (.merge sts) ∧ u ∈ sts) := by
  constructor
  · rintro (⟨g, h⟩ | ⟨sts, ch, h, hu⟩)
    · exact .inl ⟨g, shp?_some h⟩
    · exact .inr ⟨sts, shp?_some h, hu⟩
  · rintro (⟨g, h⟩ | ⟨sts, h, hu⟩)
    · obtain ⟨nd, hnd, hs⟩ := shp?_eq_some h
      cases nd <;> simp [Node.shp] at hs
      obtain ⟨rfl, rfl⟩ := hs
      exact .inl ⟨_, hnd⟩
    · obtain ⟨nd, hnd, hs⟩ := shp?_eq_some h
      cases nd <;> simp [Node.shp] at hs
      subst hs
      exact .inr ⟨_, _, hnd, hu⟩

theorem PEdge.edge {net : Net} {j u : Nat} (h : PEdge net j u) : ∃ s, net.shp? j = some s ∧ u ∈ s.uses := by
  rcases pedge_iff.mp h with ⟨g, h⟩ | ⟨sts, h, hu⟩
  · exact ⟨_, h, by simp [Shp.uses]⟩
  · exact ⟨_, h, by simpa [Shp.uses] using hu⟩

theorem SameShape.pedge {a b : Net} (h : SameShape a b) {j u : Nat} : PEdge b j u ↔ PEdge a j u := by
  rw [pedge_iff, pedge_iff, h.2]

theorem SameShape.upP {a b : Net} (h : SameShape a b) {j k : Nat} : UpP b j k ↔ UpP a j k := by
  constructor
  · intro hu
    induction hu with
    | refl j => exact .refl j
    | step he _ ih => exact .step (h.pedge.mp he) ih
  · intro hu
    induction hu with
    | refl j => exact .refl j
    | step he _ ih => exact .step (h.pedge.mpr he) ih

theorem UpP.up {net : Net} {j k : Nat} (h : UpP net j k) : Up net j k := by
  induction h with
  | refl j => exact .refl j
  | step he _ ih =>
    obtain ⟨s, hs, hu⟩ := he.edge
    exact .step ⟨s, hs, .inl hu⟩ ih

theorem UpP.trans {net : Net} {a b c : Nat} (h1 : UpP net a b) (h2 : UpP net b c) : UpP net a c := by
  induction h1 with
  | refl _ => exact h2
  | step he _ ih => exact .step he (ih h2)

theorem UpP.last {net : Net} {a c : Nat} (h : UpP net a c) : a = c ∨ ∃ b, UpP net a b ∧ PEdge net b c := by
  induction h with
  | refl _ => exact .inl rfl
  | @step j u k he _ ih =>
    right
    rcases ih with rfl | ⟨b, hb, hbc⟩
    · exact ⟨j, .refl j, he⟩
    · exact ⟨b, .step he hb, hbc⟩

theorem UpP.first {net : Net} {a c : Nat} (h : UpP net a c) : a = c ∨ ∃ b, PEdge net a b ∧ UpP net b c := by
  cases h with
  | refl _ => exact .inl rfl
  | step he hu => exact .inr ⟨_, he, hu⟩

/-- below `u`, the pass-through chain runs through the unique consumer of `u` -/
theorem UpP.chain {net : Net} (i : ShInv net) {j u c : Nat} (h : UpP net j u) (hne : j ≠ u)
    (hc : PEdge net c u) : UpP net j c := by
  rcases h.last with rfl | ⟨w, hw, he⟩
  · exact absurd rfl hne
  · obtain ⟨s, hs, hu⟩ := he.edge
    obtain ⟨s', hs', hu'⟩ := hc.edge
    have := i.lin w c s s' u hs hs' hu hu'
    subst this; exact hw

/-- `u` is consumed by a node that is not a convert or a merged reader: nothing passes through -/
theorem UpP.stop {net : Net} (i : ShInv net) {j u c : Nat} {s : Shp} (h : UpP net j u)
    (hc : net.shp? c = some s) (hu : u ∈ s.uses) (hnp : ¬ PEdge net c u) : j = u := by
  rcases h.last with rfl | ⟨w, hw, he⟩
  · rfl
  · obtain ⟨s', hs', hu'⟩ := he.edge
    have := i.lin w c s' s u hs' hc hu' hu
    subst this; exact absurd he hnp

theorem UpP.of_leaf {net : Net} {j k : Nat} (h : UpP net j k) (hl : ∀ u, ¬ PEdge net j u) : j = k := by
  cases h with
  | refl _ => rfl
  | step he _ => exact absurd he (hl _)

theorem pedge_conv {net : Net} {j src u : Nat} {g : ConvSpec} (hn : net.nodes[j]? = some (.conv src g)) :
    PEdge net j u ↔ u = src := by
  constructor
  · rintro (⟨g', h⟩ | ⟨sts, ch, h, _⟩)
    · rw [hn] at h; cases h; rfl
    · rw [hn] at h; cases h
  · rintro rfl; exact .inl ⟨g, hn⟩

theorem pedge_merge {net : Net} {j u : Nat} {sts ch : List Nat} (hn : net.nodes[j]? = some (.merge sts ch)) :
    PEdge net j u ↔ u ∈ sts := by
  constructor
  · rintro (⟨g', h⟩ | ⟨sts', ch', h, hu⟩)
    · rw [hn] at h; cases h
    · rw [hn] at h; cases h; exact hu
  · intro hu; exact .inr ⟨sts, ch, hn, hu⟩

theorem no_pedge {net : Net} {j : Nat} {nd : Node} (hn : net.nodes[j]? = some nd)
    (h1 : ∀ src g, nd ≠ .conv src g) (h2 : ∀ sts ch, nd ≠ .merge sts ch) : ∀ u, ¬ PEdge net j u := by
  rintro u (⟨g, h⟩ | ⟨sts, ch, h, _⟩)
  · rw [hn] at h; cases h; exact h1 _ _ rfl
  · rw [hn] at h; cases h; exact h2 _ _ rfl

/-! ## claims -/

theorem Claimed.of_root {net : Net} {H : List Nat} {j : Nat} (h : RootClaimed net H j) : Claimed net H j :=
  ⟨j, .refl j, h⟩

theorem Claimed.pass {net : Net} {H : List Nat} {j u : Nat} (he : PEdge net j u) (h : Claimed net H j) :
    Claimed net H u := by
  obtain ⟨r, hr, hc⟩ := h
  exact ⟨r, hr.trans (.step he (.refl u)), hc⟩

/-- same shape, same open cells, same running forwarders, same held readers: same claims -/
theorem claimed_congr {a b : Net} {H H' : List Nat} (hs : SameShape a b)
    (hr : ∀ j, RootClaimed b H' j ↔ RootClaimed a H j) (k : Nat) : Claimed b H' k ↔ Claimed a H k := by
  constructor
  · rintro ⟨j, hu, hc⟩; exact ⟨j, hs.upP.mp hu, (hr j).mp hc⟩
  · rintro ⟨j, hu, hc⟩; exact ⟨j, hs.upP.mpr hu, (hr j).mpr hc⟩

end EinoV.C08
