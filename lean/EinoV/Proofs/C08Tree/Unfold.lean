/-
  C08 — `Den` unfolded one level (`den_unfold`).
-/
import EinoV.Proofs.C08Tree.Basic
set_option linter.unusedVariables false
namespace EinoV.C08

theorem den_unfold (fut : Nat → List Item) (net : Net) (id : Nat) (l : List Item) :
    Den fut net id l ↔ DenBody fut net id l := by
  constructor
  · intro h
    unfold DenBody
    cases h with
    | pipe h1 => simp [h1]
    | arr h1 => simp [h1]
    | conv h1 h2 => simp only [h1]; exact ⟨_, h2, rfl⟩
    | childOpen h1 h2 h3 h4 h5 => simp only [h1, h2]; exact ⟨_, h3, .inl ⟨h4, _, h5, rfl⟩⟩
    | childEof h1 h2 h3 h4 => simp only [h1, h2]; exact ⟨_, h3, .inr ⟨h4, rfl⟩⟩
    | merge h1 h2 h3 => simp only [h1]; exact ⟨_, h2, h3⟩
    | fwd h1 h2 => simp [h1, h2]
    | fwdEnded h1 => simp [h1]
  · intro h
    unfold DenBody at h
    split at h
    · rename_i p hp; subst h; exact .pipe hp
    · rename_i rest hp; subst h; exact .arr hp
    · rename_i src g hp; obtain ⟨l', h1, rfl⟩ := h; exact .conv hp h1
    · rename_i par idx hp
      split at h
      · rename_i src core hq
        obtain ⟨k, hk, ⟨he, l', h1, rfl⟩ | ⟨he, rfl⟩⟩ := h
        · exact .childOpen hp hq hk he h1
        · exact .childEof hp hq hk he
      · exact h.elim
    · rename_i sts chosen hp; obtain ⟨ls, h1, h2⟩ := h; exact .merge hp h1 h2
    · rename_i src st hp
      rcases h with ⟨rfl, h1⟩ | ⟨rfl, rfl⟩
      · exact .fwd hp h1
      · exact .fwdEnded hp
    · exact h.elim


end EinoV.C08
