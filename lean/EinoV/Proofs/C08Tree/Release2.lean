/-
  C08 — `Close` of a reader whose claim was withdrawn succeeds and restores the close invariant
  (`release`): closing a copy, and the induction over the tree.
-/
import EinoV.Proofs.C08Tree.Release1
import EinoV.Proofs.C08
set_option linter.unusedVariables false
set_option linter.unusedSimpArgs false
namespace EinoV.C08


/-! ## closing a copy -/

/-- the cell after an open copy `idx` was closed -/
def closedCore (core : CopyCore) (idx : Nat) : CopyCore :=
  { core with
      cursors := core.cursors.set idx none, closedNum := core.closedNum + 1,
      srcClosed := if (core.closedNum + 1 == core.cursors.length) then core.srcClosed + 1 else core.srcClosed }

theorem close_good {core : CopyCore} {idx k0 : Nat} (h : core.cursors[idx]? = some (some k0)) :
    core.close goodCopyFacts idx = (closedCore core idx, core.closedNum + 1 == core.cursors.length) := by
  simp [CopyCore.close, h, goodCopyFacts, closedCore]

theorem openCursor_iff (l : List (Option Nat)) :
    (∃ (i k : Nat), l[i]? = some (some k)) ↔ l.count none ≠ l.length := by
  rw [Ne, count_none_eq_length]
  constructor
  · rintro ⟨i, k, hik⟩ hall
    have hlt : i < l.length := by
      rcases List.getElem?_eq_some_iff.mp hik with ⟨h, _⟩; exact h
    rw [hall i hlt] at hik; cases hik
  · intro hne
    by_cases hex : ∃ (i k : Nat), l[i]? = some (some k)
    · exact hex
    · exfalso; apply hne
      intro i hi
      cases hv : l[i]? with
      | none => rw [List.getElem?_eq_none_iff] at hv; omega
      | some v =>
        cases v with
        | none => rfl
        | some k => exact absurd ⟨i, k, hv⟩ hex

/-- replacing a cell by one with the same open-ness changes no root claim -/
theorem rootClaimed_set_parent {net : Net} {H : List Nat} {P src : Nat} {core core' : CopyCore}
    (hp : net.nodes[P]? = some (.parent src core)) (ho : OpenCursor core' ↔ OpenCursor core) (u : Nat) :
    RootClaimed (net.setNode P (.parent src core')) H u ↔ RootClaimed net H u := by
  unfold RootClaimed
  constructor
  · rintro (h | ⟨P', c, hp', hoc⟩ | ⟨f, st, hf, hs⟩)
    · exact .inl h
    · by_cases e : P' = P
      · subst e; rw [setNode_get_self hp] at hp'; cases hp'
        exact .inr (.inl ⟨P', core, hp, ho.mp hoc⟩)
      · rw [setNode_get_ne _ e] at hp'; exact .inr (.inl ⟨P', c, hp', hoc⟩)
    · have e : f ≠ P := by rintro rfl; rw [setNode_get_self hp] at hf; cases hf
      rw [setNode_get_ne _ e] at hf; exact .inr (.inr ⟨f, st, hf, hs⟩)
  · rintro (h | ⟨P', c, hp', hoc⟩ | ⟨f, st, hf, hs⟩)
    · exact .inl h
    · by_cases e : P' = P
      · subst e; rw [hp] at hp'; cases hp'
        exact .inr (.inl ⟨P', core', setNode_get_self hp _, ho.mpr hoc⟩)
      · exact .inr (.inl ⟨P', c, by rw [setNode_get_ne _ e]; exact hp', hoc⟩)
    · have e : f ≠ P := by rintro rfl; rw [hp] at hf; cases hf
      exact .inr (.inr ⟨f, st, by rw [setNode_get_ne _ e]; exact hf, hs⟩)

/-- the cell loses its last open copy: only the claim on its source goes away -/
theorem rootClaimed_set_parent_mono {net : Net} {H : List Nat} {P src : Nat} {core core' : CopyCore}
    (hp : net.nodes[P]? = some (.parent src core)) (ho : OpenCursor core' → OpenCursor core) (u : Nat)
    (h : RootClaimed (net.setNode P (.parent src core')) H u) : RootClaimed net H u := by
  rcases h with h | ⟨P', c, hp', hoc⟩ | ⟨f, st, hf, hs⟩
  · exact .inl h
  · by_cases e : P' = P
    · subst e; rw [setNode_get_self hp] at hp'; cases hp'
      exact .inr (.inl ⟨P', core, hp, ho hoc⟩)
    · rw [setNode_get_ne _ e] at hp'; exact .inr (.inl ⟨P', c, hp', hoc⟩)
  · have e : f ≠ P := by rintro rfl; rw [setNode_get_self hp] at hf; cases hf
    rw [setNode_get_ne _ e] at hf; exact .inr (.inr ⟨f, st, hf, hs⟩)

theorem rootClaimed_set_parent_other {net : Net} {H : List Nat} {P src : Nat} {core core' : CopyCore}
    (i : ShInv net) (hp : net.nodes[P]? = some (.parent src core)) {u : Nat} (hu : u ≠ src)
    (h : RootClaimed net H u) : RootClaimed (net.setNode P (.parent src core')) H u := by
  rcases h with h | ⟨P', c, hp', hoc⟩ | ⟨f, st, hf, hs⟩
  · exact .inl h
  · have e : P' ≠ P := by rintro rfl; rw [hp] at hp'; cases hp'; exact hu rfl
    exact .inr (.inl ⟨P', c, by rw [setNode_get_ne _ e]; exact hp', hoc⟩)
  · have e : f ≠ P := by rintro rfl; rw [hp] at hf; cases hf
    exact .inr (.inr ⟨f, st, by rw [setNode_get_ne _ e]; exact hf, hs⟩)



theorem free_of_sameShape {a b : Net} (h : SameShape a b) {u : Nat} (hf : Free a u) : Free b u := by
  intro j s hj; rw [h.2] at hj; exact hf j s hj

theorem closeAll_child_eq (F : Facts) (fuel : Nat) (net : Net) (j P idx src : Nat) (core : CopyCore)
    (hn : net.nodes[j]? = some (.child P idx)) (hp : net.nodes[P]? = some (.parent src core)) :
    closeAll F (fuel + 1) net j =
      if (core.close F.copy idx).2 then closeAll F fuel (net.setNode P (.parent src (core.close F.copy idx).1)) src
      else some (net.setNode P (.parent src (core.close F.copy idx).1)) := by
  simp only [closeAll, hn, hp]

/-- `Close` of a node whose claim was withdrawn succeeds (nothing is closed twice) and restores
    the close invariant. -/
theorem release {F : Facts} (g : GoodFacts F) : ∀ (fuel : Nat) (net : Net) (H : List Nat) (j : Nat),
    ShInv net → (∀ r ∈ H, Free net r) → j < fuel → RelHyp net H j →
    (∃ t, net.shp? j = some t ∧ t.isReader = true) →
    ∃ net', closeAll F fuel net j = some net' ∧ CloseInvOn net' H (fun _ => True) := by
  intro fuel
  induction fuel with
  | zero => intro net H j _ _ hlt; omega
  | succ fuel ih =>
    intro net H j i hH hlt h ⟨t, ht, hk⟩
    obtain ⟨nd, hn, hsh⟩ := shp?_eq_some ht
    cases nd with
    | pipe p => exact release_pipe i hH h hn
    | arr rest => exact release_arr i hH h hn
    | merge sts ch => exact release_merge i hH h hn
    | conv src gg =>
      have hlt' := i.lt j src (edge_conv hn)
      have : closeAll F (fuel + 1) net j = closeAll F fuel net src := by simp [closeAll, hn]
      rw [this]
      exact ih net H src i hH (by omega) (relHyp_conv i hH h hn) (i.convSrc j src gg (shp?_some hn))
    | child P idx =>
      obtain ⟨src, n, hpS, hidxn⟩ := i.childPar j P idx (shp?_some hn)
      obtain ⟨pn, hp, hps⟩ := shp?_eq_some hpS
      cases pn <;> simp [Node.shp] at hps
      rename_i src' core
      obtain ⟨rfl, hlen⟩ := hps
      have hltP := i.lt j P (edge_child hn)
      have hltS := i.lt P src' (edge_parent hp)
      have hleaf : ∀ k, UpP net j k → k = j := fun k hk => (upP_leaf hn (by simp) (by simp) hk).symm
      -- the cursor is open
      have hcur : ∃ k0, core.cursors[idx]? = some (some k0) := by
        have := h.opn j (.refl j)
        rw [stat_child hn hp] at this
        cases hc : core.cursors[idx]? with
        | none => simp [hc, cursorStat] at this
        | some v =>
          cases v with
          | none => simp [hc, cursorStat] at this
          | some k0 => exact ⟨k0, rfl⟩
      obtain ⟨k0, hk0⟩ := hcur
      obtain ⟨hcn, hsc, hpos⟩ := h.inv.cellCount P src' core hp
      have hcnt := count_none_set hk0
      have hclt := count_none_lt hk0
      have hsc0 : core.srcClosed = 0 := by rw [hsc]; simp; omega
      have hgc : F.copy = goodCopyFacts := g.copy
      rw [closeAll_child_eq F fuel net j P idx src' core hn hp, hgc, close_good hk0]
      simp only
      -- the new cell
      generalize hcore' : closedCore core idx = core'
      have hc'cur : core'.cursors = core.cursors.set idx none := by rw [← hcore']; rfl
      have hc'len : core'.cursors.length = core.cursors.length := by rw [hc'cur]; simp
      have hcount' : core'.closedNum = core'.cursors.count none ∧
          core'.srcClosed = (if core'.cursors.count none = core'.cursors.length then 1 else 0) ∧
          0 < core'.cursors.length := by
        rw [hc'len, hc'cur, hcnt, ← hcore']
        simp only [closedCore]
        refine ⟨by omega, ?_, hpos⟩
        rw [hsc0, hcn]
        by_cases e : core.cursors.count none + 1 = core.cursors.length <;> simp [e]
      have hss : SameShape net (net.setNode P (.parent src' core')) :=
        setNode_sameShape hp (by simp [Node.shp, hc'len])
      have hjne : j ≠ P := by omega
      have hn1 : (net.setNode P (.parent src' core')).nodes[j]? = some (.child P idx) := by
        rw [setNode_get_ne _ hjne]; exact hn
      have hp1 : (net.setNode P (.parent src' core')).nodes[P]? = some (.parent src' core') := setNode_get_self hp _
      have hstat1 : ∀ k, k ≠ j → stat (net.setNode P (.parent src' core')) k = stat net k := by
        intro k hkj
        by_cases hkP : k = P
        · subst hkP
          rw [stat_none (by intro nd hnd; rw [hp1] at hnd; cases hnd; simp),
              stat_none (by intro nd hnd; rw [hp] at hnd; cases hnd; simp)]
        · cases hkn : net.nodes[k]? with
          | none => exact stat_congr (setNode_get_ne _ hkP) (fun P' idx' hc => by rw [hkn] at hc; cases hc)
          | some knd =>
            cases knd with
            | child P' idx' =>
              by_cases hPP : P' = P
              · subst hPP
                have hidx : idx' ≠ idx := by
                  rintro rfl
                  exact hkj (i.childUniq k j P' idx' (shp?_some hkn) (shp?_some hn))
                rw [stat_child (by rw [setNode_get_ne _ hkP]; exact hkn) hp1, stat_child hkn hp, hc'cur]
                simp [List.getElem?_set, Ne.symm hidx]
              · exact stat_congr (setNode_get_ne _ hkP) (fun P'' idx'' hc => by
                  rw [hkn] at hc; cases hc; exact setNode_get_ne _ hPP)
            | _ => exact stat_congr (setNode_get_ne _ hkP) (fun P' idx' hc => by rw [hkn] at hc; cases hc)
      have hstatj : stat (net.setNode P (.parent src' core')) j = .closed := by
        rw [stat_child hn1 hp1, hc'cur]
        have hidxlt : idx < core.cursors.length := by
          rcases List.getElem?_eq_some_iff.mp hk0 with ⟨hh, _⟩; exact hh
        simp [List.getElem?_set, hidxlt, cursorStat]
      have hkids1 : ∀ (P' s' : Nat) (c' : CopyCore), (net.setNode P (.parent src' core')).nodes[P']? = some (.parent s' c') →
          ∀ i' : Nat, i' < c'.cursors.length → ∃ c : Nat, (net.setNode P (.parent src' core')).nodes[c]? = some (Node.child P' i') := by
        intro P' s' c' hp' i' hi'
        have hold : ∃ c0, net.nodes[P']? = some (.parent s' c0) ∧ c0.cursors.length = c'.cursors.length := by
          by_cases e : P' = P
          · subst e; rw [hp1] at hp'; cases hp'; exact ⟨core, hp, hc'len.symm⟩
          · rw [setNode_get_ne _ e] at hp'; exact ⟨c', hp', rfl⟩
        obtain ⟨c0, hp0, hl0⟩ := hold
        obtain ⟨c, hc⟩ := h.inv.cellKids P' s' c0 hp0 i' (by omega)
        have hcP : c ≠ P := by rintro rfl; rw [hp] at hc; cases hc
        exact ⟨c, by rw [setNode_get_ne _ hcP]; exact hc⟩
      have hcount1 : ∀ (P' s' : Nat) (c' : CopyCore), (net.setNode P (.parent src' core')).nodes[P']? = some (.parent s' c') →
          c'.closedNum = c'.cursors.count none ∧
          c'.srcClosed = (if c'.cursors.count none = c'.cursors.length then 1 else 0) ∧ 0 < c'.cursors.length := by
        intro P' s' c' hp'
        by_cases e : P' = P
        · subst e; rw [hp1] at hp'; cases hp'; exact hcount'
        · rw [setNode_get_ne _ e] at hp'; exact h.inv.cellCount P' s' c' hp'
      have hopen' : OpenCursor core' ↔ core.cursors.count none + 1 ≠ core.cursors.length := by
        unfold OpenCursor
        rw [openCursor_iff, hc'cur, hcnt]; simp
      have hopen : OpenCursor core := ⟨idx, k0, hk0⟩
      have hbeq : (core.closedNum + 1 == core.cursors.length) = decide (core.cursors.count none + 1 = core.cursors.length) := by
        rw [hcn]
        by_cases e : core.cursors.count none + 1 = core.cursors.length <;> simp [e]
      rw [hbeq]
      by_cases hlast : core.cursors.count none + 1 = core.cursors.length
      · -- the last copy: the source of the cell is released
        simp only [hlast, decide_true, if_true]
        have hnoopen : ¬ OpenCursor core' := fun ho => (hopen'.mp ho) hlast
        have i1 : ShInv (net.setNode P (.parent src' core')) := hss.shInv i
        have hH1 : ∀ r ∈ H, Free (net.setNode P (.parent src' core')) r := fun r hr => free_of_sameShape hss (hH r hr)
        have hmono : ∀ u, RootClaimed (net.setNode P (.parent src' core')) H u → RootClaimed net H u :=
          fun u => rootClaimed_set_parent_mono hp (fun ho => absurd ho hnoopen) u
        have hcl_to : ∀ k, Claimed (net.setNode P (.parent src' core')) H k → Claimed net H k := by
          rintro k ⟨j', hu, hc⟩; exact ⟨j', hss.upP.mp hu, hmono j' hc⟩
        have hcl_from : ∀ k, ¬ UpP net src' k → Claimed net H k → Claimed (net.setNode P (.parent src' core')) H k := by
          rintro k hk ⟨j', hu, hc⟩
          refine ⟨j', hss.upP.mpr hu, rootClaimed_set_parent_other i hp ?_ hc⟩
          rintro rfl; exact hk hu
        have hsrcP : src' ∈ (Node.parent src' core).shp.uses := by simp [Node.shp, Shp.uses]
        have hrel : RelHyp (net.setNode P (.parent src' core')) H src' := by
          refine ⟨⟨fun k hk => ?_, hkids1, hcount1⟩, fun k hk => ?_, fun j' hj' => ?_⟩
          · have hk0' : ¬ UpP net src' k := fun hu => hk (hss.upP.mpr hu)
            by_cases e : k = j
            · subst e
              rw [hstatj]
              exact ⟨by simp, fun _ hc => h.unclaimed i hH (.refl _) (hcl_to _ hc)⟩
            · rw [hstat1 k e]
              have hf := h.inv.flag k (fun hu => e (hleaf k hu))
              exact ⟨fun ho => hcl_from k hk0' (hf.1 ho), fun hc hcl => hf.2 hc (hcl_to k hcl)⟩
          · have hk' := hss.upP.mp hk
            have hle := hk'.up.le i
            have hkj : k ≠ j := by omega
            rw [hstat1 k hkj]
            have hcl : Claimed net H k := ⟨src', hk', .inr (.inl ⟨P, core, hp, hopen⟩)⟩
            intro hc
            exact (h.inv.flag k (fun hu => hkj (hleaf k hu))).2 hc hcl
          · have hj'' := hss.upP.mp hj'
            have : j' = src' := hj''.stop i (shp?_some hp) hsrcP (by
              rintro (⟨g', hh⟩ | ⟨sts, ch, hh, _⟩) <;> (rw [hp] at hh; cases hh))
            subst this
            rintro (hh | ⟨P', c, hp', hoc⟩ | ⟨f, st, hf, _⟩)
            · exact hH j' hh P _ (shp?_some hp) hsrcP
            · have hp'0 : net.shp? P' = some (.parent j' c.cursors.length) := by
                rw [← hss.2]; exact shp?_some hp'
              have := i.lin P' P _ _ j' hp'0 (shp?_some hp) (by simp [Shp.uses]) hsrcP
              subst this
              rw [hp1] at hp'; cases hp'
              exact hnoopen hoc
            · have hf0 : net.shp? f = some (.fpipe j') := by
                rw [← hss.2]; exact shp?_some hf
              have := i.lin f P _ _ j' hf0 (shp?_some hp) (by simp [Shp.uses]) hsrcP
              subst this
              rw [hp1] at hf; cases hf
        obtain ⟨tS, htS, hkS⟩ := i.parSrc P src' _ (shp?_some hp)
        exact ih _ H src' i1 hH1 (by omega) hrel ⟨tS, by rw [hss.2]; exact htS, hkS⟩
      · -- other copies are still open
        simp only [hlast, decide_false, Bool.false_eq_true, if_false]
        refine ⟨_, rfl, ?_⟩
        have hiff : OpenCursor core' ↔ OpenCursor core := ⟨fun _ => hopen, fun _ => hopen'.mpr hlast⟩
        refine closeInv_of_release (j := j) (claimed_congr hss (rootClaimed_set_parent hp hiff)) ?_ ?_
          (fun k hk => h.unclaimed i hH hk) h.inv hkids1 hcount1
        · intro k hk; exact hstat1 k (fun e => hk (e ▸ .refl _))
        · intro k hk; rw [hleaf k hk, hstatj]; simp
    | parent s c => simp [Node.shp] at hsh; subst hsh; simp [Shp.isReader] at hk
    | fpipe s st => simp [Node.shp] at hsh; subst hsh; simp [Shp.isReader] at hk
    | dead => simp [Node.shp] at hsh; subst hsh; simp [Shp.isReader] at hk


end EinoV.C08
