/-
  C08 — close propagation for whole networks: every enabled operation keeps the close invariant
  (`Step.closeInv`); `Close` of a held reader never closes a source twice (`close_succeeds`);
  once every reader is closed and every forwarder has noticed, everything is closed (`all_closed`).
-/
import EinoV.Proofs.C08Tree.CloseBuild4
set_option linter.unusedVariables false
set_option linter.unusedSimpArgs false
namespace EinoV.C08


/-! ## every enabled operation keeps the close invariant -/

/-- what a refused `Send` does to the network: forwarders notice -/
theorem applyOp_send_true {F : Facts} {fuel : Nat} {net net' : Net} {p : Nat} {it : Item} {cr : List Nat}
    (h : applyOp F fuel net (.send p it true) = .ok (net', cr)) :
    net' = net ∨ resolveReaching F fuel (net.nodes.size + 1) net p = some net' := by
  simp only [applyOp] at h
  split at h
  · cases h
  · split at h
    · cases h
    · split at h
      · cases h
      · split at h
        · cases h; exact .inl rfl
        · cases h
        · rename_i hne; cases hne
        · rename_i hne; cases hne
        · split at h
          · cases h
          · rename_i n1 hr
            split at h
            · split at h
              · cases h; exact .inr hr
              · cases h
            · cases h

theorem closeInv_readers_eq {a b : Net} (hn : b.nodes = a.nodes) (hr : b.readers = a.readers) (h : CloseInv a) :
    CloseInv b :=
  closeInv_of_nodes hn (closeInvOn_iff.mp h) (fun y => by rw [hr])

theorem Step.closeInv {F : Facts} {fuel : Nat} (g : GoodFacts F) {net net' : Net} {op : Op}
    (h : Step F fuel net op net') (i : Inv net) (hc : CloseInv net) : CloseInv net' := by
  have hH : ∀ r ∈ net.readers, Free net r := fun r hr => i.rd.free' hr
  cases h with
  | recv hr hrecv =>
    have := hrecv.closeInv g i.sh hH hc
    unfold CloseInv; rw [hrecv.sameShape.2]; exact this
  | @other _ _ cr h1 ha =>
    cases op with
    | pipe cap => exact applyOp_pipe_closeInv i hc ha
    | arr items => exact applyOp_arr_closeInv i hc ha
    | conv r g' => exact applyOp_conv_closeInv i hc ha
    | copy r n => exact applyOp_copy_closeInv i hc ha
    | merge rs => exact applyOp_merge_closeInv i hc ha
    | send p it oc =>
      cases oc with
      | false =>
        rcases applyOp_send_cases ha with ⟨_, x, hx, _, rfl⟩ | ⟨h0, _⟩
        · exact closeInvOn_set_stat i.sh hx (.pipe rfl) hc
        · cases h0
      | true =>
        rcases applyOp_send_true ha with rfl | hr
        · exact hc
        · have := resolveReaching_closeInv g _ i.sh hH hc hr
          unfold CloseInv; rw [(resolveReaching_closeLE _ hr).readers]; exact this
    | feed p its =>
      obtain ⟨x, hx, _, rfl⟩ := applyOp_feed_cases ha
      exact closeInvOn_set_stat i.sh hx (.pipe rfl) hc
    | closeSend p =>
      obtain ⟨x, hx, _, rfl⟩ := applyOp_closeSend_cases ha
      exact closeInvOn_set_stat i.sh hx (.pipe rfl) hc
    | recv r obs => simp [Op.isRecv] at h1
    | close r =>
      obtain ⟨hr, n1, hcl, rfl⟩ := applyOp_close_cases ha
      have := close_closeInv g i hc hr hcl
      have hrd := (closeAll_spec F fuel _ _ _ hcl).1.readers
      exact closeInv_of_nodes (a := n1) rfl (closeInvOn_iff.mp this) (fun y => by
        change y ∈ n1.readers.erase r ↔ _; rw [hrd])

theorem closeInv_empty : CloseInv {} := by
  unfold CloseInv
  refine ⟨fun k _ => ?_, ?_, ?_⟩
  · rw [stat_none_of_get_none (by simp)]; exact ⟨by simp, by simp⟩
  · intro P s c hp; simp at hp
  · intro P s c hp; simp at hp

theorem Behaves.closeInv {F : Facts} {fuel : Nat} (g : GoodFacts F) {net net' : Net} {ops : List Op}
    (h : Behaves F fuel net ops net') (i : Inv net) (hc : CloseInv net) : CloseInv net' := by
  induction h with
  | nil => exact hc
  | cons hs _ ih => exact ih (hs.inv g i) (hs.closeInv g i hc)



/-! ## the two halves of close propagation -/

/-- the hypotheses of `release` hold for a reader the caller holds -/
theorem relHyp_close {net : Net} {r : Nat} (i : Inv net) (hinv : CloseInv net) (hr : r ∈ net.readers) :
    RelHyp net (net.readers.erase r) r := by
  have hnr : r ∉ net.readers.erase r := fun hm => ((i.rd.nodup.mem_erase_iff).mp hm).1 rfl
  have hroot : ∀ u, RootClaimed net (net.readers.erase r) u → RootClaimed net net.readers u := by
    rintro u (h | h | h)
    · exact .inl (List.mem_of_mem_erase h)
    · exact .inr (.inl h)
    · exact .inr (.inr h)
  have hroot' : ∀ u, u ≠ r → RootClaimed net net.readers u → RootClaimed net (net.readers.erase r) u := by
    rintro u hu (h | h | h)
    · exact .inl ((List.mem_erase_of_ne hu).mpr h)
    · exact .inr (.inl h)
    · exact .inr (.inr h)
  refine ⟨⟨fun k hk => ?_, hinv.cellKids, hinv.cellCount⟩, fun k hk => ?_, fun j' hj' => ?_⟩
  · have hfl := hinv.flag k trivial
    refine ⟨fun ho => ?_, fun hcl hc' => hfl.2 hcl ?_⟩
    · obtain ⟨j', hu, hc'⟩ := hfl.1 ho
      exact ⟨j', hu, hroot' j' (by rintro rfl; exact hk hu) hc'⟩
    · obtain ⟨j', hu, hc''⟩ := hc'
      exact ⟨j', hu, hroot j' hc''⟩
  · intro hcl
    exact (hinv.flag k trivial).2 hcl ⟨r, hk, .inl hr⟩
  · have : j' = r := by
      rcases hj'.last with e | ⟨b, _, he⟩
      · exact e
      · obtain ⟨s, hs, hu⟩ := he.edge
        exact absurd hu (i.rd.free r hr b s hs)
    subst this
    rintro (h | ⟨P, c, hp, _⟩ | ⟨f, st, hf, _⟩)
    · exact hnr h
    · exact i.rd.free j' hr P _ (shp?_some hp) (by simp [Node.shp, Shp.uses])
    · exact i.rd.free j' hr f _ (shp?_some hf) (by simp [Node.shp, Shp.uses])

/-- `Close` of a held reader succeeds: no source is closed a second time -/
theorem close_succeeds {F : Facts} (g : GoodFacts F) {net : Net} {r fuel : Nat} (i : Inv net) (hinv : CloseInv net)
    (hr : r ∈ net.readers) (hf : r < fuel) : ∃ net', closeAll F fuel net r = some net' := by
  have hH : ∀ r' ∈ net.readers.erase r, Free net r' := fun r' hr' => i.rd.free' (List.mem_of_mem_erase hr')
  obtain ⟨net', h, _⟩ := release g fuel net (net.readers.erase r) r i.sh hH hf (relHyp_close i hinv hr) (i.rd.kind r hr)
  exact ⟨net', h⟩

/-- a forwarder that has to notice a close can do so: its source is not closed a second time -/
theorem resolve_succeeds {F : Facts} (g : GoodFacts F) {net : Net} {f src fuel : Nat} (i : Inv net)
    (hinv : CloseInv net) (hf : net.nodes[f]? = some (.fpipe src .pending)) (hfu : src < fuel) :
    ∃ net', resolveOne F fuel net f = some net' := by
  have hH : ∀ r ∈ net.readers, Free net r := fun r hr => i.rd.free' hr
  have hss : SameShape net (net.setNode f (.fpipe src .stopped)) := setNode_sameShape hf rfl
  have hrel := relHyp_fwd_exit (st' := .stopped) i.sh hH hinv hf (.inr ⟨rfl, rfl⟩)
  obtain ⟨t, ht, hk⟩ := i.sh.fwdSrc f src (shp?_some hf)
  obtain ⟨net', h, _⟩ := release g fuel _ net.readers src (hss.shInv i.sh)
    (fun r hr => free_of_sameShape hss (hH r hr)) hfu hrel ⟨t, by rw [hss.2]; exact ht, hk⟩
  exact ⟨net', by simp [resolveOne, hf, g.fwd, h]⟩

theorem pendings_nil {net : Net} (h : pendings net = []) {f src : Nat} :
    net.nodes[f]? ≠ some (.fpipe src .pending) := by
  intro hf
  have hlt := get_lt hf
  have : f ∈ pendings net := by
    unfold pendings
    simp only [List.mem_filter, List.mem_range]
    exact ⟨hlt, by simp [hf]⟩
  rw [h] at this; simp at this

/-- nobody holds anything once every reader is closed and every forwarder has noticed -/
theorem no_root {net : Net} (i : Inv net) (hinv : CloseInv net) (hr : net.readers = [])
    (hp : ∀ (f src : Nat), net.nodes[f]? ≠ some (Node.fpipe src FwdSt.pending)) :
    ∀ n j, net.nodes.size - j ≤ n → ¬ RootClaimed net [] j := by
  have hinv' : CloseInvOn net [] (fun _ => True) := by
    have := hinv; unfold CloseInv at this; rw [hr] at this; exact this
  intro n
  induction n with
  | zero =>
    intro j hj
    rintro (h | ⟨P, c, hP, _⟩ | ⟨f, st, hf, _⟩)
    · simp at h
    · have := i.sh.lt P j (edge_parent hP); have := get_lt hP; omega
    · have := i.sh.lt f j (edge_fwd hf); have := get_lt hf; omega
  | succ n ih =>
    intro j hj
    have hcl : ∀ c, j < c → ¬ Claimed net [] c := by
      rintro c hc ⟨j'', hu, hrc⟩
      have := hu.up.le i.sh
      exact ih j'' (by omega) hrc
    rintro (h | ⟨P, c, hP, ⟨idx, k0, hk0⟩⟩ | ⟨f, st, hf, hs⟩)
    · simp at h
    · have hltP := i.sh.lt P j (edge_parent hP)
      have hidx : idx < c.cursors.length := by
        rcases List.getElem?_eq_some_iff.mp hk0 with ⟨hh, _⟩; exact hh
      obtain ⟨ch, hch⟩ := hinv'.cellKids P j c hP idx hidx
      have hltc := i.sh.lt ch P (edge_child hch)
      have hst : stat net ch = .open := by rw [stat_child hch hP, hk0]; rfl
      exact hcl ch (by omega) ((hinv'.flag ch trivial).1 hst)
    · have hltf := i.sh.lt f j (edge_fwd hf)
      rcases hs with rfl | rfl
      · have hst : stat net f = .open := by rw [stat_fwd hf]; rfl
        exact hcl f hltf ((hinv'.flag f trivial).1 hst)
      · exact hp f j hf

/-- **close propagation**: every reader closed, every forwarder noticed: every pipe's reading side
    is closed, every copy cell has closed its source, exactly once -/
theorem all_closed {net : Net} (i : Inv net) (hinv : CloseInv net) (hr : net.readers = [])
    (hp : ∀ (f src : Nat), net.nodes[f]? ≠ some (Node.fpipe src FwdSt.pending)) :
    (∀ (k : Nat) (p : Pipe), net.nodes[k]? = some (.pipe p) → p.recvClosed = true) ∧
    (∀ (P src : Nat) (core : CopyCore), net.nodes[P]? = some (.parent src core) →
      core.srcClosed = 1 ∧ ∀ idx, idx < core.cursors.length → core.cursors[idx]? = some none) ∧
    (∀ (f src : Nat) (st : FwdSt), net.nodes[f]? = some (.fpipe src st) → st = .ended ∨ st = .stopped) := by
  have hinv' : CloseInvOn net [] (fun _ => True) := by
    have := hinv; unfold CloseInv at this; rw [hr] at this; exact this
  have hnc : ∀ k, ¬ Claimed net [] k := by
    rintro k ⟨j, _, hrc⟩
    exact no_root i hinv hr hp (net.nodes.size - j) j (Nat.le_refl _) hrc
  refine ⟨fun k p hk => ?_, fun P src core hP => ?_, fun f src st hf => ?_⟩
  · cases hc : p.recvClosed with
    | true => rfl
    | false =>
      have hst : stat net k = .open := by rw [stat_pipe hk]; simp [hc]
      exact absurd ((hinv'.flag k trivial).1 hst) (hnc k)
  · have hall : ∀ idx, idx < core.cursors.length → core.cursors[idx]? = some none := by
      intro idx hidx
      obtain ⟨ch, hch⟩ := hinv'.cellKids P src core hP idx hidx
      cases hv : core.cursors[idx]? with
      | none => rw [List.getElem?_eq_none_iff] at hv; omega
      | some v =>
        cases v with
        | none => rfl
        | some k0 =>
          have hst : stat net ch = .open := by rw [stat_child hch hP, hv]; rfl
          exact absurd ((hinv'.flag ch trivial).1 hst) (hnc ch)
    obtain ⟨_, hsc, _⟩ := hinv'.cellCount P src core hP
    refine ⟨?_, hall⟩
    rw [hsc, if_pos (count_none_eq_length.mpr hall)]
  · cases st with
    | running =>
      have hst : stat net f = .open := by rw [stat_fwd hf]; rfl
      exact absurd ((hinv'.flag f trivial).1 hst) (hnc f)
    | pending => exact absurd hf (hp f src)
    | ended => exact .inl rfl
    | stopped => exact .inr rfl


end EinoV.C08
