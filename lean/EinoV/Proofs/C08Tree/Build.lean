/-
  C08 — building networks: `push`, typing of references, freshness.
-/
import EinoV.Proofs.C08Tree.RecvBasic
set_option linter.unusedVariables false
namespace EinoV.C08

/-! ## building networks: `push`, killing an absorbed node -/

theorem push_get (net : Net) (x : Node) (k : Nat) :
    (net.push x).1.nodes[k]? = if k = net.nodes.size then some x else net.nodes[k]? := by
  simp [Net.push, Array.getElem?_push]

@[simp] theorem push_id (net : Net) (x : Node) : (net.push x).2 = net.nodes.size := rfl
@[simp] theorem push_readers (net : Net) (x : Node) : (net.push x).1.readers = net.readers := rfl
@[simp] theorem push_writers (net : Net) (x : Node) : (net.push x).1.writers = net.writers := rfl
@[simp] theorem push_size (net : Net) (x : Node) : (net.push x).1.nodes.size = net.nodes.size + 1 := by
  simp [Net.push]

theorem get_lt {net : Net} {k : Nat} {x : Node} (h : net.nodes[k]? = some x) : k < net.nodes.size := by
  rcases Array.getElem?_eq_some_iff.mp h with ⟨h1, _⟩; exact h1

theorem shp?_lt {net : Net} {k : Nat} {s : Shp} (h : net.shp? k = some s) : k < net.nodes.size := by
  obtain ⟨nd, hnd, _⟩ := shp?_eq_some h; exact get_lt hnd

theorem push_shp? (net : Net) (x : Node) (k : Nat) :
    (net.push x).1.shp? k = if k = net.nodes.size then some x.shp else net.shp? k := by
  unfold Net.shp?; rw [push_get]; split <;> simp

theorem push_shp?_old {net : Net} (x : Node) {k : Nat} {s : Shp} (h : net.shp? k = some s) :
    (net.push x).1.shp? k = some s := by
  rw [push_shp?]; have := shp?_lt h
  have : ¬ k = net.nodes.size := by omega
  simp [this, h]

theorem push_get_old {net : Net} (x : Node) {k : Nat} (h : k < net.nodes.size) :
    (net.push x).1.nodes[k]? = net.nodes[k]? := by
  rw [push_get]; have : ¬ k = net.nodes.size := by omega
  simp [this]

/-- the typing of the references of one node -/
def Typed (net : Net) : Shp → Prop
  | .conv src _ => ∃ t, net.shp? src = some t ∧ t.isReader = true
  | .parent src _ => ∃ t, net.shp? src = some t ∧ t.isReader = true
  | .child par idx => ∃ src n, net.shp? par = some (.parent src n) ∧ idx < n
  | .merge sts => ∀ sid ∈ sts, net.shp? sid = some .pipe ∨ ∃ src, net.shp? sid = some (.fpipe src)
  | .fpipe src => ∃ t, net.shp? src = some t ∧ t.isReader = true
  | _ => True

theorem Typed.mono {net net' : Net} {s : Shp} (h : Typed net s)
    (hm : ∀ k, (k ∈ s.uses ∨ s.par? = some k) → net'.shp? k = net.shp? k) : Typed net' s := by
  cases s with
  | conv src g =>
    obtain ⟨t, ht, hr⟩ := h
    exact ⟨t, by rw [hm src (.inl (by simp [Shp.uses]))]; exact ht, hr⟩
  | parent src n =>
    obtain ⟨t, ht, hr⟩ := h
    exact ⟨t, by rw [hm src (.inl (by simp [Shp.uses]))]; exact ht, hr⟩
  | child par idx =>
    obtain ⟨src, n, ht, hr⟩ := h
    exact ⟨src, n, by rw [hm par (.inr (by simp [Shp.par?]))]; exact ht, hr⟩
  | merge sts =>
    intro sid hs
    rw [hm sid (.inl (by simpa [Shp.uses] using hs))]
    exact h sid hs
  | fpipe src =>
    obtain ⟨t, ht, hr⟩ := h
    exact ⟨t, by rw [hm src (.inl (by simp [Shp.uses]))]; exact ht, hr⟩
  | pipe => trivial
  | arr => trivial
  | dead => trivial

theorem reader_not_cell {t : Shp} (h : t.isReader = true) : t.isCell = false := by
  cases t <;> simp_all [Shp.isReader, Shp.isCell]

theorem Typed.usesKind {net : Net} {s : Shp} (h : Typed net s) {u : Nat} (hu : u ∈ s.uses) :
    ∃ t, net.shp? u = some t ∧ t.isCell = false := by
  cases s with
  | conv src g =>
    simp [Shp.uses] at hu; subst hu
    obtain ⟨t, ht, hr⟩ := h; exact ⟨t, ht, reader_not_cell hr⟩
  | parent src n =>
    simp [Shp.uses] at hu; subst hu
    obtain ⟨t, ht, hr⟩ := h; exact ⟨t, ht, reader_not_cell hr⟩
  | merge sts =>
    simp [Shp.uses] at hu
    rcases h u hu with h | ⟨src, h⟩
    · exact ⟨_, h, rfl⟩
    · exact ⟨_, h, rfl⟩
  | fpipe src =>
    simp [Shp.uses] at hu; subst hu
    obtain ⟨t, ht, hr⟩ := h; exact ⟨t, ht, reader_not_cell hr⟩
  | child par idx => simp [Shp.uses] at hu
  | pipe => simp [Shp.uses] at hu
  | arr => simp [Shp.uses] at hu
  | dead => simp [Shp.uses] at hu

theorem ShInv.typed {net : Net} (i : ShInv net) {j : Nat} {s : Shp} (h : net.shp? j = some s) : Typed net s := by
  cases s with
  | conv src g => exact i.convSrc j src g h
  | parent src n => exact i.parSrc j src n h
  | child par idx => exact i.childPar j par idx h
  | merge sts => exact fun sid hs => i.mergeSrc j sts sid h hs
  | fpipe src => exact i.fwdSrc j src h
  | pipe => trivial
  | arr => trivial
  | dead => trivial

theorem ShInv.ofTyped {net : Net}
    (lt : ∀ j s u, net.shp? j = some s → (u ∈ s.uses ∨ s.par? = some u) → u < j)
    (typed : ∀ j s, net.shp? j = some s → Typed net s)
    (lin : ∀ j j' s s' u, net.shp? j = some s → net.shp? j' = some s' → u ∈ s.uses → u ∈ s'.uses → j = j')
    (usesNodup : ∀ j s, net.shp? j = some s → s.uses.Nodup)
    (childUniq : ∀ j j' par idx, net.shp? j = some (.child par idx) → net.shp? j' = some (.child par idx) → j = j') :
    ShInv net where
  lt := fun j u ⟨s, hs, h⟩ => lt j s u hs h
  usesKind := fun j s u hj hu => (typed j s hj).usesKind hu
  convSrc := fun j src g hj => typed j _ hj
  parSrc := fun j src n hj => typed j _ hj
  childPar := fun j par idx hj => typed j _ hj
  mergeSrc := fun j sts sid hj hs => typed j _ hj sid hs
  fwdSrc := fun j src hj => typed j _ hj
  lin := lin
  usesNodup := usesNodup
  childUniq := childUniq

/-- nobody consumes `u` -/
def Free (net : Net) (u : Nat) : Prop := ∀ j s, net.shp? j = some s → u ∉ s.uses

theorem ShInv.push {net : Net} (i : ShInv net) (x : Node)
    (hlt : ∀ u, (u ∈ x.shp.uses ∨ x.shp.par? = some u) → u < net.nodes.size)
    (htyp : Typed net x.shp)
    (hfree : ∀ u ∈ x.shp.uses, Free net u)
    (hnd : x.shp.uses.Nodup)
    (hch : ∀ par idx, x.shp = .child par idx → ∀ j, net.shp? j ≠ some (.child par idx)) :
    ShInv (net.push x).1 := by
  have old : ∀ {j s}, (net.push x).1.shp? j = some s → j ≠ net.nodes.size → net.shp? j = some s := by
    intro j s h hne; rw [push_shp?] at h; simpa [hne] using h
  have new : ∀ {s}, (net.push x).1.shp? net.nodes.size = some s → s = x.shp := by
    intro s h; rw [push_shp?] at h; simpa using h.symm
  have keep : ∀ k, k < net.nodes.size → (net.push x).1.shp? k = net.shp? k := by
    intro k hk; rw [push_shp?]; have : ¬ k = net.nodes.size := by omega
    simp [this]
  refine ShInv.ofTyped ?_ ?_ ?_ ?_ ?_
  · intro j s u hj hu
    by_cases e : j = net.nodes.size
    · subst e; rw [new hj] at hu; exact hlt u hu
    · exact i.lt j u ⟨s, old hj e, hu⟩
  · intro j s hj
    by_cases e : j = net.nodes.size
    · subst e; rw [new hj]
      exact htyp.mono fun k hk => keep k (hlt k hk)
    · have h0 := old hj e
      exact (i.typed h0).mono fun k hk => keep k (by have := i.lt j k ⟨s, h0, hk⟩; have := shp?_lt h0; omega)
  · intro j j' s s' u hj hj' hu hu'
    by_cases e : j = net.nodes.size
    · by_cases e' : j' = net.nodes.size
      · rw [e, e']
      · subst e; rw [new hj] at hu
        exact absurd hu' (hfree u hu j' s' (old hj' e'))
    · by_cases e' : j' = net.nodes.size
      · subst e'; rw [new hj'] at hu'
        exact absurd hu (hfree u hu' j s (old hj e))
      · exact i.lin j j' s s' u (old hj e) (old hj' e') hu hu'
  · intro j s hj
    by_cases e : j = net.nodes.size
    · subst e; rw [new hj]; exact hnd
    · exact i.usesNodup j s (old hj e)
  · intro j j' par idx hj hj'
    by_cases e : j = net.nodes.size
    · by_cases e' : j' = net.nodes.size
      · rw [e, e']
      · subst e
        exact absurd (old hj' e') (hch par idx (new hj).symm j')
    · by_cases e' : j' = net.nodes.size
      · subst e'
        exact absurd (old hj e) (hch par idx (new hj').symm j)
      · exact i.childUniq j j' par idx (old hj e) (old hj' e')

theorem Free.push {net : Net} {u : Nat} (h : Free net u) (x : Node) (hx : u ∉ x.shp.uses) :
    Free (net.push x).1 u := by
  intro j s hj
  rw [push_shp?] at hj
  split at hj
  · cases hj; exact hx
  · exact h j s hj

theorem free_new {net : Net} (i : ShInv net) (x : Node)
    (hlt : ∀ u ∈ x.shp.uses, u < net.nodes.size) : Free (net.push x).1 net.nodes.size := by
  intro j s hj hu
  rw [push_shp?] at hj
  split at hj
  · cases hj; have := hlt _ hu; omega
  · have := i.lt j _ ⟨s, hj, .inl hu⟩; have := shp?_lt hj; omega

theorem StInv.push {net : Net} (h : StInv net) {x : Node} (hx : NodeOK x) : StInv (net.push x).1 := by
  rw [stInv_iff] at h ⊢
  intro j nd hj
  rw [push_get] at hj
  split at hj
  · cases hj; exact hx
  · exact h j nd hj

end EinoV.C08
