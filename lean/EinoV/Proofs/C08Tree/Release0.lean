/-
  C08 — the closed flag `stat`, and the hypotheses (`RelHyp`) under which closing a reader restores
  the close invariant.
-/
import EinoV.Proofs.C08Tree.Claim
set_option linter.unusedVariables false
set_option linter.unusedSimpArgs false
namespace EinoV.C08

/-! ## the closed flag -/

theorem stat_pipe {net : Net} {k : Nat} {p : Pipe} (h : net.nodes[k]? = some (.pipe p)) :
    stat net k = if p.recvClosed then .closed else .open := by simp [stat, h]

theorem stat_child {net : Net} {c P idx src : Nat} {core : CopyCore} (h : net.nodes[c]? = some (.child P idx))
    (hp : net.nodes[P]? = some (.parent src core)) : stat net c = cursorStat core.cursors[idx]? := by
  unfold stat; rw [h]; simp only; rw [hp]

theorem stat_fwd {net : Net} {f src : Nat} {st : FwdSt} (h : net.nodes[f]? = some (.fpipe src st)) :
    stat net f = fwdStat st := by
  unfold stat; rw [h]

theorem stat_none {net : Net} {k : Nat} (h : ∀ nd, net.nodes[k]? = some nd →
    (∀ p, nd ≠ .pipe p) ∧ (∀ P idx, nd ≠ .child P idx) ∧ (∀ s st, nd ≠ .fpipe s st)) :
    stat net k = .none := by
  unfold stat
  cases hn : net.nodes[k]? with
  | none => rfl
  | some nd =>
    obtain ⟨h1, h2, h3⟩ := h nd hn
    cases nd with
    | pipe p => exact absurd rfl (h1 p)
    | child P idx => exact absurd rfl (h2 P idx)
    | fpipe s st => exact absurd rfl (h3 s st)
    | _ => rfl

/-- the flag of `k` only looks at node `k` and, for a copy, at its cell -/
theorem stat_congr {a b : Net} {k : Nat} (h1 : b.nodes[k]? = a.nodes[k]?)
    (h2 : ∀ P idx, a.nodes[k]? = some (.child P idx) → b.nodes[P]? = a.nodes[P]?) : stat b k = stat a k := by
  unfold stat
  rw [h1]
  cases hn : a.nodes[k]? with
  | none => rfl
  | some nd =>
    cases nd with
    | child P idx => simp only; rw [h2 P idx hn]
    | _ => rfl

/-! ## who can be a root of a claim -/

theorem Free.not_mem {net : Net} {u c : Nat} {s : Shp} (h : Free net u) (hc : net.shp? c = some s) : u ∉ s.uses :=
  h c s hc

/-- a node that a convert or a merged reader consumes is claimed through it only -/
theorem rootClaimed_not_passed {net : Net} {H : List Nat} (i : ShInv net) (hH : ∀ r ∈ H, Free net r)
    {x u : Nat} (he : PEdge net x u) : ¬ RootClaimed net H u := by
  obtain ⟨s, hs, hu⟩ := he.edge
  rintro (h | ⟨P, core, hp, _⟩ | ⟨f, st, hf, _⟩)
  · exact hH u h x s hs hu
  · have := i.lin x P s _ u hs (shp?_some hp) hu (by simp [Node.shp, Shp.uses])
    subst this
    rcases he with ⟨g, h⟩ | ⟨sts, ch, h, _⟩ <;> (rw [hp] at h; cases h)
  · have := i.lin x f s _ u hs (shp?_some hf) hu (by simp [Node.shp, Shp.uses])
    subst this
    rcases he with ⟨g, h⟩ | ⟨sts, ch, h, _⟩ <;> (rw [hf] at h; cases h)

theorem UpP.compare {net : Net} (i : ShInv net) {a b k : Nat} (ha : UpP net a k) (hb : UpP net b k) :
    UpP net a b ∨ UpP net b a := by
  induction ha with
  | refl _ => exact .inr hb
  | @step a u k he _ ih =>
    rcases ih hb with h | h
    · exact .inl (.step he h)
    · by_cases e : b = u
      · subst e; exact .inl (.step he (.refl _))
      · exact .inr (h.chain i e he)

/-- the hypotheses under which `Close` of `j` restores the invariant -/
structure RelHyp (net : Net) (H : List Nat) (j : Nat) : Prop where
  inv : CloseInvOn net H (fun k => ¬ UpP net j k)
  opn : ∀ k, UpP net j k → stat net k ≠ .closed
  noClaim : ∀ j', UpP net j' j → ¬ RootClaimed net H j'

theorem RelHyp.unclaimed {net : Net} {H : List Nat} {j : Nat} (h : RelHyp net H j) (i : ShInv net)
    (hH : ∀ r ∈ H, Free net r) {k : Nat} (hk : UpP net j k) : ¬ Claimed net H k := by
  rintro ⟨j', hj', hc⟩
  rcases UpP.compare i hj' hk with h1 | h1
  · exact h.noClaim j' h1 hc
  · rcases h1.last with rfl | ⟨x, _, he⟩
    · exact h.noClaim _ (.refl _) hc
    · exact rootClaimed_not_passed i hH he hc

/-- the closed flags are right again once the region of `j` is closed and nothing else changed -/
theorem closeInv_of_release {net net' : Net} {H : List Nat} {j : Nat}
    (hcl : ∀ k, Claimed net' H k ↔ Claimed net H k)
    (hsame : ∀ k, ¬ UpP net j k → stat net' k = stat net k)
    (hclosed : ∀ k, UpP net j k → stat net' k ≠ .open)
    (hun : ∀ k, UpP net j k → ¬ Claimed net H k)
    (inv : CloseInvOn net H (fun k => ¬ UpP net j k))
    (hkids : ∀ (P src : Nat) (core : CopyCore), net'.nodes[P]? = some (.parent src core) →
      ∀ i : Nat, i < core.cursors.length → ∃ c : Nat, net'.nodes[c]? = some (Node.child P i))
    (hcount : ∀ (P src : Nat) (core : CopyCore), net'.nodes[P]? = some (.parent src core) →
      core.closedNum = core.cursors.count none ∧
      core.srcClosed = (if core.cursors.count none = core.cursors.length then 1 else 0) ∧
      0 < core.cursors.length) :
    CloseInvOn net' H (fun _ => True) := by
  refine ⟨fun k _ => ?_, hkids, hcount⟩
  by_cases hk : UpP net j k
  · exact ⟨fun h => absurd h (hclosed k hk), fun _ hc => hun k hk ((hcl k).mp hc)⟩
  · rw [hsame k hk, hcl k]; exact inv.flag k hk

end EinoV.C08
