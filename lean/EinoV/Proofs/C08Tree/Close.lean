/-
  C08 — `Close` of a reader (`closeAll`) only closes ends (`CloseLE`), only touches nodes the
  reader is built on, and never enlarges the specified sequence of any reader.
-/
import EinoV.Proofs.C08Tree.Basic
set_option linter.unusedVariables false
namespace EinoV.C08

/-! ## closing only closes: `CloseLE` -/

/-- `NodeLE a b`: `b` is `a` with (possibly) more ends closed -/
inductive NodeLE : Node → Node → Prop where
  | refl (a : Node) : NodeLE a a
  | pipe {p q : Pipe} : q.buf = p.buf → q.sendClosed = p.sendClosed → q.cap = p.cap → NodeLE (.pipe p) (.pipe q)
  | parent {s : Nat} {c c' : CopyCore} : c'.log = c.log → c'.eofSeen = c.eofSeen →
      c'.cursors.length = c.cursors.length →
      (∀ i : Nat, c'.cursors[i]? = c.cursors[i]? ∨ c'.cursors[i]? = some none) → NodeLE (.parent s c) (.parent s c')
  | fpipe {s : Nat} {st st' : FwdSt} : st' ≠ .running → st' ≠ .ended → NodeLE (.fpipe s st) (.fpipe s st')

theorem NodeLE.trans {a b c : Node} (h1 : NodeLE a b) (h2 : NodeLE b c) : NodeLE a c := by
  cases h1 with
  | refl => exact h2
  | pipe e1 e2 e3 =>
    cases h2 with
    | refl => exact .pipe e1 e2 e3
    | pipe f1 f2 f3 => exact .pipe (f1.trans e1) (f2.trans e2) (f3.trans e3)
  | parent e1 e2 e3 e4 =>
    cases h2 with
    | refl => exact .parent e1 e2 e3 e4
    | parent f1 f2 f3 f4 =>
      refine .parent (f1.trans e1) (f2.trans e2) (f3.trans e3) fun i => ?_
      rcases f4 i with h | h
      · rw [h]; exact e4 i
      · exact .inr h
  | fpipe e1 e2 =>
    cases h2 with
    | refl => exact .fpipe e1 e2
    | fpipe f1 f2 => exact .fpipe f1 f2

theorem NodeLE.shp {a b : Node} (h : NodeLE a b) : b.shp = a.shp := by
  cases h <;> simp_all [Node.shp]

structure CloseLE (a b : Net) : Prop where
  size : a.nodes.size = b.nodes.size
  readers : b.readers = a.readers
  node : ∀ (k : Nat) (x : Node), a.nodes[k]? = some x → ∃ y, b.nodes[k]? = some y ∧ NodeLE x y

theorem CloseLE.refl (a : Net) : CloseLE a a := ⟨rfl, rfl, fun _ x h => ⟨x, h, .refl x⟩⟩

theorem CloseLE.trans {a b c : Net} (h1 : CloseLE a b) (h2 : CloseLE b c) : CloseLE a c where
  size := h1.size.trans h2.size
  readers := h2.readers.trans h1.readers
  node := fun k x hx => by
    obtain ⟨y, hy, l1⟩ := h1.node k x hx
    obtain ⟨z, hz, l2⟩ := h2.node k y hy
    exact ⟨z, hz, l1.trans l2⟩

theorem CloseLE.back {a b : Net} (h : CloseLE a b) {k : Nat} {y : Node} (hy : b.nodes[k]? = some y) :
    ∃ x, a.nodes[k]? = some x ∧ NodeLE x y := by
  have hlt : k < b.nodes.size := by
    rcases Array.getElem?_eq_some_iff.mp hy with ⟨h1, _⟩; exact h1
  rw [← h.size] at hlt
  have hx : a.nodes[k]? = some a.nodes[k] := Array.getElem?_eq_getElem hlt
  obtain ⟨y', hy', l⟩ := h.node k _ hx
  rw [hy] at hy'; cases hy'
  exact ⟨_, hx, l⟩

theorem CloseLE.sameShape {a b : Net} (h : CloseLE a b) : SameShape a b := by
  refine ⟨h.size, fun k => ?_⟩
  unfold Net.shp?
  cases hx : a.nodes[k]? with
  | none =>
    have : ¬ k < a.nodes.size := by
      intro hlt; rw [Array.getElem?_eq_getElem hlt] at hx; cases hx
    have : b.nodes[k]? = none := by
      apply Array.getElem?_eq_none; rw [← h.size]; omega
    simp [this]
  | some x =>
    obtain ⟨y, hy, l⟩ := h.node k x hx
    simp [hy, l.shp]

theorem CloseLE.setNode {net : Net} {i : Nat} {x y : Node} (hx : net.nodes[i]? = some x) (l : NodeLE x y) :
    CloseLE net (net.setNode i y) where
  size := by simp
  readers := rfl
  node := fun k z hz => by
    rw [setNode_get_some hx]
    by_cases hk : k = i
    · subst hk; rw [hx] at hz; cases hz; exact ⟨y, by simp, l⟩
    · exact ⟨z, by simp [hk, hz], .refl z⟩

/-- closing never enlarges what a reader is specified to deliver -/
theorem CloseLE.den {fut : Nat → List Item} {a b : Net} (h : CloseLE a b) {j : Nat} {l : List Item}
    (hd : Den fut b j l) : Den fut a j l := by
  induction hd with
  | @pipe id q h1 =>
    obtain ⟨x, hx, le⟩ := h.back h1
    cases le with
    | refl => exact .pipe hx
    | pipe e1 e2 e3 => rw [e1, e2]; exact .pipe hx
  | arr h1 =>
    obtain ⟨x, hx, le⟩ := h.back h1
    cases le; exact .arr hx
  | conv h1 _ ih =>
    obtain ⟨x, hx, le⟩ := h.back h1
    cases le; exact .conv hx ih
  | childOpen h1 h2 h3 h4 _ ih =>
    obtain ⟨x, hx, le⟩ := h.back h1
    cases le
    obtain ⟨y, hy, le2⟩ := h.back h2
    cases le2 with
    | refl => exact .childOpen hx hy h3 h4 ih
    | parent e1 e2 e3 e4 =>
      rw [e1]
      refine .childOpen hx hy ?_ (e2 ▸ h4) ih
      rcases e4 _ with e | e
      · rw [← e]; exact h3
      · rw [h3] at e; cases e
  | childEof h1 h2 h3 h4 =>
    obtain ⟨x, hx, le⟩ := h.back h1
    cases le
    obtain ⟨y, hy, le2⟩ := h.back h2
    cases le2 with
    | refl => exact .childEof hx hy h3 h4
    | parent e1 e2 e3 e4 =>
      rw [e1]
      refine .childEof hx hy ?_ (e2 ▸ h4)
      rcases e4 _ with e | e
      · rw [← e]; exact h3
      · rw [h3] at e; cases e
  | merge h1 _ h3 ih =>
    obtain ⟨x, hx, le⟩ := h.back h1
    cases le; exact .merge hx ih h3
  | fwd h1 _ ih =>
    obtain ⟨x, hx, le⟩ := h.back h1
    cases le with
    | refl => exact .fwd hx ih
    | fpipe e1 e2 => exact absurd rfl e1
  | fwdEnded h1 =>
    obtain ⟨x, hx, le⟩ := h.back h1
    cases le with
    | refl => exact .fwdEnded hx
    | fpipe e1 e2 => exact absurd rfl e2



theorem close_nodeLE (f : CopyFacts) (s : Nat) (c : CopyCore) (idx : Nat) :
    NodeLE (.parent s c) (.parent s (c.close f idx).1) := by
  unfold CopyCore.close
  split
  · refine .parent rfl rfl (by simp) fun i => ?_
    simp only [List.getElem?_set]
    by_cases h : idx = i
    · subst h
      by_cases h2 : idx < c.cursors.length
      · simp [h2]
      · left; simp [h2]
    · simp [h]
  · exact .refl _

/-- the step of the loop that closes the sources of a merged reader -/
def mcloseStep (n : Net) (sid : Nat) : Option Net :=
  match n.nodes[sid]? with
  | some (.pipe p) => (p.closeRecv).map fun p' => n.setNode sid (.pipe p')
  | some (.fpipe src .running) => some (n.setNode sid (.fpipe src .pending))
  | some (.fpipe _ .ended) => some n
  | _ => none

theorem mcloseStep_spec {n n' : Net} {sid : Nat} (h : mcloseStep n sid = some n') :
    CloseLE n n' ∧ ∀ k, k ≠ sid → n'.nodes[k]? = n.nodes[k]? := by
  unfold mcloseStep at h
  split at h
  · rename_i p hp
    simp only [Option.map_eq_some_iff] at h
    obtain ⟨p', hp', rfl⟩ := h
    have : p' = { p with recvClosed := true } := by
      unfold Pipe.closeRecv at hp'; split at hp' <;> simp_all
    subst this
    exact ⟨CloseLE.setNode hp (.pipe rfl rfl rfl), fun k hk => setNode_get_ne _ hk⟩
  · rename_i src hp
    cases h
    exact ⟨CloseLE.setNode hp (.fpipe (by simp) (by simp)), fun k hk => setNode_get_ne _ hk⟩
  · cases h; exact ⟨.refl _, fun _ _ => rfl⟩
  · cases h

theorem mcloseFold_spec {sts : List Nat} {n n' : Net} (h : sts.foldlM mcloseStep n = some n') :
    CloseLE n n' ∧ ∀ k, k ∉ sts → n'.nodes[k]? = n.nodes[k]? := by
  induction sts generalizing n with
  | nil => simp at h; subst h; exact ⟨.refl _, fun _ _ => rfl⟩
  | cons s rest ih =>
    simp only [List.foldlM_cons, Option.bind_eq_bind, Option.bind_eq_some_iff] at h
    obtain ⟨n1, h1, h2⟩ := h
    obtain ⟨l1, f1⟩ := mcloseStep_spec h1
    obtain ⟨l2, f2⟩ := ih h2
    refine ⟨l1.trans l2, fun k hk => ?_⟩
    simp at hk
    rw [f2 k hk.2, f1 k hk.1]

theorem closeAll_merge_eq (F : Facts) (fuel : Nat) (net : Net) (id : Nat) (sts chosen : List Nat)
    (hn : net.nodes[id]? = some (.merge sts chosen)) :
    closeAll F (fuel + 1) net id = sts.foldlM mcloseStep net := by
  simp only [closeAll, hn]
  rfl

/-- `Close` only closes, and only touches nodes the closed reader is built on -/
theorem closeAll_spec (F : Facts) (fuel : Nat) : ∀ (net : Net) (id : Nat) (net' : Net),
    closeAll F fuel net id = some net' →
    CloseLE net net' ∧ ∀ k, ¬ Up net id k → net'.nodes[k]? = net.nodes[k]? := by
  induction fuel with
  | zero => intro net id net' h; simp [closeAll] at h
  | succ fuel ih =>
    intro net id net' h
    cases hn : net.nodes[id]? with
    | none => simp [closeAll, hn] at h
    | some nd =>
      cases nd with
      | pipe p =>
        simp only [closeAll, hn, Option.map_eq_some_iff] at h
        obtain ⟨p', hp', rfl⟩ := h
        have : p' = { p with recvClosed := true } := by
          unfold Pipe.closeRecv at hp'; split at hp' <;> simp_all
        subst this
        refine ⟨CloseLE.setNode hn (.pipe rfl rfl rfl), fun k hk => setNode_get_ne _ ?_⟩
        rintro rfl; exact hk (.refl _)
      | arr rest =>
        simp only [closeAll, hn] at h
        cases h; exact ⟨.refl _, fun _ _ => rfl⟩
      | conv src g =>
        simp only [closeAll, hn] at h
        obtain ⟨l, f⟩ := ih net src net' h
        exact ⟨l, fun k hk => f k fun hu => hk (.step (edge_conv hn) hu)⟩
      | child par idx =>
        simp only [closeAll, hn] at h
        cases hp : net.nodes[par]? with
        | none => simp [hp] at h
        | some pn =>
          cases pn with
          | parent src core =>
            simp only [hp] at h
            have l1 : CloseLE net (net.setNode par (.parent src (core.close F.copy idx).1)) :=
              CloseLE.setNode hp (close_nodeLE _ _ _ _)
            have hne : ∀ k, ¬ Up net id k → k ≠ par := by
              rintro k hk rfl; exact hk (.single (edge_child hn))
            split at h
            · obtain ⟨l2, f2⟩ := ih _ src net' h
              refine ⟨l1.trans l2, fun k hk => ?_⟩
              rw [f2 k, setNode_get_ne _ (hne k hk)]
              intro hu
              exact hk (.step (edge_child hn) (.step (edge_parent hp) (l1.sameShape.up.mp hu)))
            · cases h
              exact ⟨l1, fun k hk => setNode_get_ne _ (hne k hk)⟩
          | _ => simp [hp] at h
      | merge sts chosen =>
        rw [closeAll_merge_eq F fuel net id sts chosen hn] at h
        obtain ⟨l, f⟩ := mcloseFold_spec h
        exact ⟨l, fun k hk => f k fun hm => hk (.single (edge_merge hn hm))⟩
      | _ => simp [closeAll, hn] at h

end EinoV.C08
