/-
  C08 — the delivery lemma for one `Recv` call: whatever a reader is specified to deliver after
  the call, prefixed by what it delivered during the call, it was specified to deliver before
  (`Recv.den`), for the reader itself and for every reader that is not built on it.
-/
import EinoV.Proofs.C08Tree.DenBase
set_option linter.unusedVariables false
namespace EinoV.C08


/-! ## convert -/

theorem ofSrc_sub_nil {net : Net} (hsh : ShInv net) {id src : Nat} {tr : List (Nat × Item)}
    (ht : ∀ e ∈ tr, Up net src e.1) (hlt : src < id) : ofSrc id tr = [] := by
  apply ofSrc_nil_of
  intro e he heq
  have := (ht e he).le hsh
  omega

theorem den_conv_eof {fut : Nat → List Item} {F : Facts} {net n1 : Net} {id src : Nat} {g : ConvSpec}
    {tr : List (Nat × Item)} (hsh : ShInv net)
    (hn : net.nodes[id]? = some (.conv src g)) (hr : Recv F net src .eof n1 tr)
    (ih : DenStep fut net n1 src .eof tr) : DenStep fut net n1 id .eof tr := by
  have e1 := edge_conv hn
  have hlt := hsh.lt _ _ e1
  obtain ⟨ht, hts⟩ := hr.trace hsh
  have hn1 : n1.nodes[id]? = some (.conv src g) := by
    rw [hr.footprint id (fun hu => by have := hu.le hsh; omega)]; exact hn
  constructor
  · intro _; simpa using Den.conv hn (ih.1 rfl)
  · intro j l hj hd
    by_cases e : j = id
    · subst e
      obtain ⟨l', hl', rfl⟩ := Den.conv_inv hn1 hd
      have := ih.2 src l' (.inl rfl) hl'
      rw [hts] at this
      rw [ofSrc_sub_nil hsh ht hlt]
      simpa [Res.items] using Den.conv hn this
    · exact ih.2 j l (dom_src hsh (shp?_some hn) (by simp [Node.shp, Shp.uses]) (not_up_of_dom hj e)) hd

theorem den_conv_item {fut : Nat → List Item} {F : Facts} {net n1 : Net} {id src : Nat} {g : ConvSpec}
    {it y : Item} {tr : List (Nat × Item)} (hsh : ShInv net)
    (hn : net.nodes[id]? = some (.conv src g)) (hr : Recv F net src (.item it) n1 tr)
    (hc : convItem g.fn it = some y)
    (ih : DenStep fut net n1 src (.item it) tr) : DenStep fut net n1 id (.item y) (tr ++ [(id, y)]) := by
  have e1 := edge_conv hn
  have hlt := hsh.lt _ _ e1
  obtain ⟨ht, hts⟩ := hr.trace hsh
  have hn1 : n1.nodes[id]? = some (.conv src g) := by
    rw [hr.footprint id (fun hu => by have := hu.le hsh; omega)]; exact hn
  constructor
  · intro h; cases h
  · intro j l hj hd
    by_cases e : j = id
    · subst e
      obtain ⟨l', hl', rfl⟩ := Den.conv_inv hn1 hd
      have := ih.2 src l' (.inl rfl) hl'
      rw [hts] at this
      rw [ofSrc_app, ofSrc_sub_nil hsh ht hlt]
      have h2 := Den.conv hn this
      simpa [Res.items, ofSrc, hc] using h2
    · have := ih.2 j l (dom_src hsh (shp?_some hn) (by simp [Node.shp, Shp.uses]) (not_up_of_dom hj e)) hd
      rw [ofSrc_app]
      have hz : ofSrc j [(id, y)] = [] := by simp [ofSrc, Ne.symm e]
      rw [hz, List.append_nil]; exact this

theorem den_conv_skip {fut : Nat → List Item} {F : Facts} {net n1 n2 : Net} {id src : Nat} {g : ConvSpec}
    {it : Item} {r : Res} {tr1 tr2 : List (Nat × Item)} (hsh : ShInv net)
    (hn : net.nodes[id]? = some (.conv src g)) (hr1 : Recv F net src (.item it) n1 tr1)
    (hc : convItem g.fn it = none)
    (ih1 : DenStep fut net n1 src (.item it) tr1) (ih2 : DenStep fut n1 n2 id r tr2) :
    DenStep fut net n2 id r (tr1 ++ tr2) := by
  have e1 := edge_conv hn
  have hlt := hsh.lt _ _ e1
  obtain ⟨ht, hts⟩ := hr1.trace hsh
  have hn1 : n1.nodes[id]? = some (.conv src g) := by
    rw [hr1.footprint id (fun hu => by have := hu.le hsh; omega)]; exact hn
  have skipT : ∀ l', Den fut n1 id l' → Den fut net id l' := by
    intro l' hd
    obtain ⟨l'', hl'', rfl⟩ := Den.conv_inv hn1 hd
    have := ih1.2 src l'' (.inl rfl) hl''
    rw [hts] at this
    simpa [Res.items, hc] using Den.conv hn this
  constructor
  · intro h; exact skipT _ (ih2.1 h)
  · intro j l hj hd
    rw [ofSrc_app, List.append_assoc]
    by_cases e : j = id
    · subst e
      rw [ofSrc_sub_nil hsh ht hlt]
      exact skipT _ (ih2.2 j l (.inl rfl) hd)
    · have hj' := not_up_of_dom hj e
      have h2 := ih2.2 j l (.inr fun hu => hj' (hr1.sameShape.1.up.mp hu)) hd
      exact ih1.2 j _ (dom_src hsh (shp?_some hn) (by simp [Node.shp, Shp.uses]) hj') h2



/-! ## copy -/

theorem den_child_have {fut : Nat → List Item} {net : Net} {id par idx src : Nat}
    {core c' : CopyCore} {r : Res} (hsh : ShInv net) (hst : StInv net)
    (hn : net.nodes[id]? = some (.child par idx)) (hp : net.nodes[par]? = some (.parent src core))
    (hk : core.peekLocal goodCopyFacts idx = .have r c') :
    DenStep fut net (net.setNode par (.parent src c')) id r (tag id r) := by
  have e1 := edge_child hn
  have e2 := edge_parent hp
  have hlt1 := hsh.lt _ _ e1
  have hlt2 := hsh.lt _ _ e2
  have hok := hst.cursorLe par src core hp
  have hidx : idx < core.cursors.length := by
    obtain ⟨k, hc, _⟩ := peek_have hk
    rcases List.getElem?_eq_some_iff.mp hc with ⟨h, _⟩; exact h
  have hn' : (net.setNode par (.parent src c')).nodes[id]? = some (.child par idx) := by
    rw [setNode_get_ne _ (by omega)]; exact hn
  have hp' : (net.setNode par (.parent src c')).nodes[par]? = some (.parent src c') := setNode_get_self hp _
  have hsrc : ∀ l, Den fut (net.setNode par (.parent src c')) src l → Den fut net src l := fun l hd =>
    den_off (fun k hk => setNode_get_ne _ hk) (up_parent_not hsh hp) hd
  -- the other readers
  have hoth : ∀ j l, j ≠ id → ¬ Up net j id → Den fut (net.setNode par (.parent src c')) j l →
      Den fut net j (ofSrc j (tag id r) ++ l) := by
    intro j l e hj hd
    rw [ofSrc_tag_other r e]
    obtain ⟨k, hc, hcase⟩ := peek_have hk
    have hcur : ∀ i : Nat, i ≠ idx → c'.cursors[i]? = core.cursors[i]? := by
      intro i hi
      rcases hcase with ⟨it, _, _, rfl⟩ | ⟨_, _, _, rfl⟩
      · simp [Ne.symm hi]
      · rfl
    have hlog : c'.log = core.log ∧ c'.eofSeen = core.eofSeen := by
      rcases hcase with ⟨it, _, _, rfl⟩ | ⟨_, _, _, rfl⟩ <;> exact ⟨rfl, rfl⟩
    have := parent_change (fut := fut) (pre := fun _ => []) hsh hok hn hp (fun _ _ => rfl) (.refl net)
      (fun j l _ h => h) (fun _ _ => rfl) hcur (.inl ⟨by simp [hlog.1], hlog.2, fun _ => rfl⟩) hd hj
    simpa using this
  obtain ⟨k, hc, hcase⟩ := peek_have hk
  rcases hcase with ⟨it, hit, rfl, rfl⟩ | ⟨hnone, heof, rfl, hcc⟩
  · -- an item of the shared list
    constructor
    · intro h; cases h
    · intro j l hj hd
      by_cases e : j = id
      · subst e
        rw [ofSrc_tag_self]
        obtain ⟨k', hk', hc2⟩ := Den.child_inv hn' hp' hd
        have : k' = k + 1 := by
          simp [hidx] at hk'; omega
        subst this
        have hklt : k < core.log.length := by
          rcases List.getElem?_eq_some_iff.mp hit with ⟨h, _⟩; exact h
        have hget : core.log[k] = it := by
          rcases List.getElem?_eq_some_iff.mp hit with ⟨h, h2⟩; exact h2
        have hdrop : core.log.drop k = it :: core.log.drop (k + 1) := by
          rw [List.drop_eq_getElem_cons hklt, hget]
        rcases hc2 with ⟨he, l', hl', rfl⟩ | ⟨he, rfl⟩
        · have := Den.childOpen hn hp hc he (hsrc _ hl')
          rw [hdrop] at this
          simpa [Res.items] using this
        · have := Den.childEof (fut := fut) hn hp hc he
          rw [hdrop] at this
          simpa [Res.items] using this
      · exact hoth j l e (not_up_of_dom hj e) hd
  · -- the end was already seen
    have hcc' := hcc.symm
    subst hcc'
    have hdrop : core.log.drop k = [] := List.drop_eq_nil_of_le (List.getElem?_eq_none_iff.mp hnone)
    have h4 : Den fut net id [] := by
      have := Den.childEof (fut := fut) hn hp hc heof
      rwa [hdrop] at this
    constructor
    · intro _; exact h4
    · intro j l hj hd
      by_cases e : j = id
      · subst e
        obtain ⟨k', hk', hc2⟩ := Den.child_inv hn' hp' hd
        rw [hc] at hk'; cases hk'
        rcases hc2 with ⟨he, _⟩ | ⟨_, rfl⟩
        · rw [heof] at he; cases he
        · rw [hdrop]; simpa [tag, ofSrc] using h4
      · exact hoth j l e (not_up_of_dom hj e) hd



theorem den_child_fill {fut : Nat → List Item} {F : Facts} {net n1 : Net} {id par idx src k : Nat}
    {core : CopyCore} {r : Res} {tr : List (Nat × Item)} (hsh : ShInv net) (hst : StInv net)
    (hn : net.nodes[id]? = some (.child par idx)) (hp : net.nodes[par]? = some (.parent src core))
    (hk : core.peekLocal goodCopyFacts idx = .fill k) (hr : Recv F net src r n1 tr)
    (ih : DenStep fut net n1 src r tr) :
    DenStep fut net (n1.setNode par (.parent src (core.fill idx k r))) id r (tr ++ tag id r) := by
  have e1 := edge_child hn
  have e2 := edge_parent hp
  have hlt1 := hsh.lt _ _ e1
  have hlt2 := hsh.lt _ _ e2
  have hok := hst.cursorLe par src core hp
  obtain ⟨hc, hnone, heof⟩ := peek_fill hk
  have hklen : k = core.log.length := fill_log hk hok
  have hdrop : core.log.drop k = [] := List.drop_eq_nil_of_le (by omega)
  have hidx : idx < core.cursors.length := by
    rcases List.getElem?_eq_some_iff.mp hc with ⟨h, _⟩; exact h
  obtain ⟨ht, hts⟩ := hr.trace hsh
  have hss := hr.sameShape.1
  have hfoot := hr.footprint
  have hp1 : n1.nodes[par]? = some (.parent src core) := by
    rw [hfoot par (up_parent_not hsh hp)]; exact hp
  have hn1 : n1.nodes[id]? = some (.child par idx) := by
    rw [hfoot id (fun hu => by have := hu.le hsh; omega)]; exact hn
  have hn' : (n1.setNode par (.parent src (core.fill idx k r))).nodes[id]? = some (.child par idx) := by
    rw [setNode_get_ne _ (by omega)]; exact hn1
  have hp' : (n1.setNode par (.parent src (core.fill idx k r))).nodes[par]? =
      some (.parent src (core.fill idx k r)) := setNode_get_self hp1 _
  have hsrcN : ∀ l, Den fut (n1.setNode par (.parent src (core.fill idx k r))) src l → Den fut n1 src l :=
    fun l hd => den_off (fun k hk => setNode_get_ne _ hk)
      (fun hu => up_parent_not hsh hp (hss.up.mp hu)) hd
  have hpre : ∀ j, ¬ Up net src j → ofSrc j tr = [] := by
    intro j hj
    apply ofSrc_nil_of
    intro e he heq
    exact hj (heq ▸ ht e he)
  have hcur : ∀ i : Nat, i ≠ idx → (core.fill idx k r).cursors[i]? = core.cursors[i]? := by
    intro i hi
    cases r <;> simp [CopyCore.fill, Ne.symm hi]
  have hidz : ofSrc id tr = [] := hpre id (fun hu => by have := hu.le hsh; omega)
  have hoth : ∀ j l, j ≠ id → ¬ Up net j id →
      Den fut (n1.setNode par (.parent src (core.fill idx k r))) j l →
      Den fut net j (ofSrc j (tr ++ tag id r) ++ l) := by
    intro j l e hj hd
    rw [ofSrc_app, ofSrc_tag_other r e, List.append_nil]
    refine parent_change (fut := fut) (pre := fun j => ofSrc j tr) hsh hok hn hp hfoot hss ih.2 hpre hcur ?_ hd hj
    cases r with
    | item x =>
      left
      refine ⟨?_, rfl, fun h => by rw [heof] at h; cases h⟩
      simp only [CopyCore.fill, hts, Res.items]
      rw [hklen, List.take_length]
    | eof =>
      right
      exact ⟨rfl, hts, rfl, heof, ih.1 rfl⟩
  cases r with
  | item x =>
    constructor
    · intro h; cases h
    · intro j l hj hd
      by_cases e : j = id
      · subst e
        rw [ofSrc_app, ofSrc_tag_self, hidz]
        obtain ⟨k', hk', hc2⟩ := Den.child_inv hn' hp' hd
        have : k' = k + 1 := by
          simp [CopyCore.fill, hidx] at hk'; omega
        subst this
        have hlen : (core.fill idx k (.item x)).log.length = k + 1 := by
          simp [CopyCore.fill, hklen]
        have hd0 : (core.fill idx k (.item x)).log.drop (k + 1) = [] := List.drop_eq_nil_of_le (by omega)
        rcases hc2 with ⟨he, l', hl', rfl⟩ | ⟨he, _⟩
        · have h2 := ih.2 src l' (.inl rfl) (hsrcN _ hl')
          rw [hts] at h2
          have := Den.childOpen hn hp hc heof h2
          rw [hdrop] at this
          rw [hd0]
          simpa [Res.items] using this
        · simp [CopyCore.fill, heof] at he
      · exact hoth j l e (not_up_of_dom hj e) hd
  | eof =>
    have h4 : Den fut net id [] := by
      have := Den.childOpen hn hp hc heof (ih.1 rfl)
      rwa [hdrop] at this
    constructor
    · intro _; exact h4
    · intro j l hj hd
      by_cases e : j = id
      · subst e
        rw [ofSrc_app, ofSrc_tag_self, hidz]
        obtain ⟨k', hk', hc2⟩ := Den.child_inv hn' hp' hd
        have : k' = k := by
          simp [CopyCore.fill, hc] at hk'; omega
        subst this
        rcases hc2 with ⟨he, _⟩ | ⟨_, rfl⟩
        · simp [CopyCore.fill] at he
        · have : (core.fill idx k' .eof).log = core.log := rfl
          rw [this, hdrop]
          simpa [Res.items] using h4
      · exact hoth j l e (not_up_of_dom hj e) hd



/-! ## merge -/

theorem den_merge_eof {fut : Nat → List Item} {net : Net} {id : Nat} {sts : List Nat}
    (hn : net.nodes[id]? = some (.merge sts [])) : DenStep fut net net id .eof [] := by
  constructor
  · intro _
    exact Den.merge (ls := fun _ => []) hn (fun sb sid h _ => by simp at h) (Inter.empty _)
  · intro j l _ hd; simpa [ofSrc] using hd

theorem den_merge_pipe_item {fut : Nat → List Item} {net : Net} {id sb sid : Nat} {sts chosen : List Nat}
    {p p' : Pipe} {x : Item} (hsh : ShInv net)
    (hn : net.nodes[id]? = some (.merge sts chosen)) (hsb : sb ∈ chosen) (hs : sts[sb]? = some sid)
    (hp : net.nodes[sid]? = some (.pipe p)) (hr : p.recv = some (p', .item x)) :
    DenStep fut net (net.setNode sid (.pipe p')) id (.item x) [(sid, x), (id, x)] := by
  have hm := List.mem_of_getElem? hs
  have e1 := edge_merge hn hm
  have hlt := hsh.lt _ _ e1
  have hne : sid ≠ id := by omega
  have hpipe := (Recv.den_pipe (fut := fut) hp hr).2
  have hn' : (net.setNode sid (.pipe p')).nodes[id]? = some (.merge sts chosen) := by
    rw [setNode_get_ne _ (Ne.symm hne)]; exact hn
  have hmu : sid ∈ (Node.merge sts chosen).shp.uses := by simpa [Node.shp, Shp.uses] using hm
  constructor
  · intro h; cases h
  · intro j l hj hd
    by_cases e : j = id
    · subst e
      obtain ⟨ls, hls, hint⟩ := Den.merge_inv hn' hd
      have hof : ofSrc j [(sid, x), (j, x)] = [x] := by simp [ofSrc, hne]
      rw [hof]
      refine Den.merge (ls := upd ls sb (x :: ls sb)) hn (fun b s hb hs' => ?_) (hint.push x hsb)
      by_cases eb : b = sb
      · subst eb
        rw [hs] at hs'; cases hs'
        rw [upd_same]
        have := hpipe sid _ (.inl rfl) (hls b sid hb hs)
        simpa [ofSrc_tag_self, Res.items] using this
      · rw [upd_ne _ _ eb]
        obtain ⟨_, h2⟩ := merge_sib hsh hn hs hs' eb
        exact den_off (fun k hk => setNode_get_ne _ hk) h2 (hls b s hb hs')
    · have hj' := not_up_of_dom hj e
      by_cases e2 : j = sid
      · subst e2
        have := hpipe j l (.inl rfl) hd
        have hof : ofSrc j [(j, x), (id, x)] = [x] := by simp [ofSrc, Ne.symm hne]
        rw [hof]; simpa [ofSrc_tag_self, Res.items] using this
      · have hof : ofSrc j [(sid, x), (id, x)] = [] := by simp [ofSrc, Ne.symm e, Ne.symm e2]
        rw [hof]
        refine den_off (fun k hk => setNode_get_ne _ hk) (fun hu => hj' ?_) hd
        exact hu.chain hsh e2 (shp?_some hn) hmu

theorem den_merge_fwd_item {fut : Nat → List Item} {F : Facts} {net n1 : Net} {id sb sid src : Nat}
    {sts chosen : List Nat} {x : Item} {tr : List (Nat × Item)} (hsh : ShInv net)
    (hn : net.nodes[id]? = some (.merge sts chosen)) (hsb : sb ∈ chosen) (hs : sts[sb]? = some sid)
    (hf : net.nodes[sid]? = some (.fpipe src .running)) (hr : Recv F net src (.item x) n1 tr)
    (ih : DenStep fut net n1 src (.item x) tr) :
    DenStep fut net n1 id (.item x) (tr ++ [(sid, x), (id, x)]) := by
  have hm := List.mem_of_getElem? hs
  have e1 := edge_merge hn hm
  have e2 := edge_fwd hf
  have hlt1 := hsh.lt _ _ e1
  have hlt2 := hsh.lt _ _ e2
  have hne : sid ≠ id := by omega
  obtain ⟨ht, hts⟩ := hr.trace hsh
  have hfoot := hr.footprint
  have hn1 : n1.nodes[id]? = some (.merge sts chosen) := by
    rw [hfoot id (fun hu => by have := hu.le hsh; omega)]; exact hn
  have hf1 : n1.nodes[sid]? = some (.fpipe src .running) := by
    rw [hfoot sid (fun hu => by have := hu.le hsh; omega)]; exact hf
  have hmu : sid ∈ (Node.merge sts chosen).shp.uses := by simpa [Node.shp, Shp.uses] using hm
  have hfu : src ∈ (Node.fpipe src .running).shp.uses := by simp [Node.shp, Shp.uses]
  have hpre : ∀ j, ¬ Up net src j → ofSrc j tr = [] := by
    intro j hj
    apply ofSrc_nil_of
    intro e he heq
    exact hj (heq ▸ ht e he)
  have fwdT : ∀ l', Den fut n1 sid l' → Den fut net sid (x :: l') := by
    intro l' hd
    rcases Den.fwd_inv hf1 hd with ⟨_, h⟩ | ⟨h, _⟩
    · have := ih.2 src l' (.inl rfl) h
      rw [hts] at this
      exact Den.fwd hf (by simpa [Res.items] using this)
    · cases h
  constructor
  · intro h; cases h
  · intro j l hj hd
    rw [ofSrc_app]
    by_cases e : j = id
    · subst e
      obtain ⟨ls, hls, hint⟩ := Den.merge_inv hn1 hd
      have hof : ofSrc j [(sid, x), (j, x)] = [x] := by simp [ofSrc, hne]
      rw [hof, hpre j (fun hu => by have := hu.le hsh; omega)]
      refine Den.merge (ls := upd ls sb (x :: ls sb)) hn (fun b s hb hs' => ?_) (hint.push x hsb)
      by_cases eb : b = sb
      · subst eb
        rw [hs] at hs'; cases hs'
        rw [upd_same]
        exact fwdT _ (hls b sid hb hs)
      · rw [upd_ne _ _ eb]
        obtain ⟨h1, h2⟩ := merge_sib_fwd hsh hn hs hs' eb hf
        have := ih.2 s _ (.inr h1) (hls b s hb hs')
        rwa [hpre s h2] at this
    · have hj' := not_up_of_dom hj e
      by_cases e2 : j = sid
      · subst e2
        have hof : ofSrc j [(j, x), (id, x)] = [x] := by simp [ofSrc, Ne.symm hne]
        rw [hof, hpre j (fun hu => by have := hu.le hsh; omega)]
        exact fwdT _ hd
      · have hof : ofSrc j [(sid, x), (id, x)] = [] := by simp [ofSrc, Ne.symm e, Ne.symm e2]
        rw [hof, List.append_nil]
        have h3 : ¬ Up net j sid := fun hu => hj' (hu.chain hsh e2 (shp?_some hn) hmu)
        exact ih.2 j l (dom_src hsh (shp?_some hf) hfu h3) hd

theorem den_merge_drop_core {fut : Nat → List Item} {net netM : Net} {id sb sid : Nat} {sts chosen : List Nat}
    (hn : net.nodes[id]? = some (.merge sts chosen)) (hnd : chosen.Nodup) (hs : sts[sb]? = some sid)
    (hM : netM.nodes[id]? = some (.merge sts (chosen.erase sb)))
    (hz : Den fut net sid [])
    (T : ∀ b s, b ≠ sb → sts[b]? = some s → ∀ l, Den fut netM s l → Den fut net s l) :
    ∀ l, Den fut netM id l → Den fut net id l := by
  intro l hd
  obtain ⟨ls, hls, hint⟩ := Den.merge_inv hM hd
  have hni : sb ∉ chosen.erase sb := fun h => ((hnd.mem_erase_iff).mp h).1 rfl
  refine Den.merge (ls := upd ls sb []) hn (fun b s hb hs' => ?_) (hint.add_empty hni)
  by_cases eb : b = sb
  · subst eb
    rw [hs] at hs'; cases hs'
    rw [upd_same]; exact hz
  · rw [upd_ne _ _ eb]
    exact T b s eb hs' _ (hls b s ((List.mem_erase_of_ne eb).mpr hb) hs')

theorem den_merge_drop {fut : Nat → List Item} {net netM n2 : Net} {id : Nat} {r : Res}
    {tr1 tr2 : List (Nat × Item)}
    (dropT : ∀ l, Den fut netM id l → Den fut net id l)
    (offT : ∀ j l, j ≠ id → ¬ Up net j id → Den fut netM j l → Den fut net j (ofSrc j tr1 ++ l))
    (hz1 : ofSrc id tr1 = []) (hup : ∀ j, Up netM j id → Up net j id)
    (ih : DenStep fut netM n2 id r tr2) : DenStep fut net n2 id r (tr1 ++ tr2) := by
  constructor
  · intro h; exact dropT _ (ih.1 h)
  · intro j l hj hd
    rw [ofSrc_app, List.append_assoc]
    by_cases e : j = id
    · subst e
      rw [hz1]
      exact dropT _ (ih.2 j l (.inl rfl) hd)
    · have hj' := not_up_of_dom hj e
      exact offT j _ e hj' (ih.2 j l (.inr fun hu => hj' (hup j hu)) hd)



theorem den_merge_drop_simple {fut : Nat → List Item} {net n2 : Net} {id sb sid : Nat}
    {sts chosen : List Nat} {r : Res} {tr : List (Nat × Item)} (hsh : ShInv net) (hst : StInv net)
    (hn : net.nodes[id]? = some (.merge sts chosen)) (hs : sts[sb]? = some sid)
    (hz : Den fut net sid [])
    (ih : DenStep fut (net.setNode id (.merge sts (chosen.erase sb))) n2 id r tr) :
    DenStep fut net n2 id r tr := by
  have hnd := hst.chosenNodup id sts chosen hn
  have ss := merge_erase_sameShape hn sb
  have offT : ∀ j l, j ≠ id → ¬ Up net j id →
      Den fut (net.setNode id (.merge sts (chosen.erase sb))) j l → Den fut net j (ofSrc j [] ++ l) := by
    intro j l _ hj hd
    simpa [ofSrc] using den_off (fun k hk => setNode_get_ne _ hk) hj hd
  have dropT := den_merge_drop_core (fut := fut) hn hnd hs (setNode_get_self hn _) hz
    (fun b s eb hs' l hd => by
      have hlt := hsh.lt _ _ (edge_merge hn (List.mem_of_getElem? hs'))
      exact den_off (fun k hk => setNode_get_ne _ hk) (fun hu => by have := hu.le hsh; omega) hd)
  have := den_merge_drop (tr1 := []) dropT offT rfl (fun j hu => ss.up.mp hu) ih
  simpa using this

theorem den_merge_drop_fwd {fut : Nat → List Item} {F : Facts} {net n1 n' n2 : Net} {id sb sid src cf : Nat}
    {sts chosen : List Nat} {r : Res} {tr1 tr2 : List (Nat × Item)} (hsh : ShInv net) (hst : StInv net)
    (hn : net.nodes[id]? = some (.merge sts chosen)) (hs : sts[sb]? = some sid)
    (hf : net.nodes[sid]? = some (.fpipe src .running)) (hr1 : Recv F net src .eof n1 tr1)
    (hfe : fwdEnd F cf n1 sid src = some n')
    (ih1 : DenStep fut net n1 src .eof tr1)
    (ih2 : DenStep fut (n'.setNode id (.merge sts (chosen.erase sb))) n2 id r tr2) :
    DenStep fut net n2 id r (tr1 ++ tr2) := by
  have hnd := hst.chosenNodup id sts chosen hn
  have hm := List.mem_of_getElem? hs
  have e1 := edge_merge hn hm
  have e2 := edge_fwd hf
  have hlt1 := hsh.lt _ _ e1
  have hlt2 := hsh.lt _ _ e2
  have hne : sid ≠ id := by omega
  obtain ⟨ht, hts⟩ := hr1.trace hsh
  have hfoot := hr1.footprint
  have hss1 := hr1.sameShape.1
  have hf1 : n1.nodes[sid]? = some (.fpipe src .running) := by
    rw [hfoot sid (fun hu => by have := hu.le hsh; omega)]; exact hf
  obtain ⟨s2, _⟩ := fwdEnd_spec hf1 hfe
  have hm' : n'.shp? id = some (.merge sts) := by
    rw [s2.2, hss1.2]; exact shp?_some hn
  obtain ⟨ndm, hndm, _⟩ := shp?_eq_some hm'
  have s3 : SameShape n' (n'.setNode id (.merge sts (chosen.erase sb))) := setNode_sameShape' hm' rfl
  have ssM := hss1.trans (s2.trans s3)
  have hmu : sid ∈ (Node.merge sts chosen).shp.uses := by simpa [Node.shp, Shp.uses] using hm
  have hfu : src ∈ (Node.fpipe src .running).shp.uses := by simp [Node.shp, Shp.uses]
  have hpre : ∀ j, ¬ Up net src j → ofSrc j tr1 = [] := by
    intro j hj
    apply ofSrc_nil_of
    intro e he heq
    exact hj (heq ▸ ht e he)
  have le : ∀ j l, Den fut n' j l → Den fut (n1.setNode sid (.fpipe src .ended)) j l := by
    intro j l hd
    unfold fwdEnd at hfe
    split at hfe
    · exact (closeAll_spec F cf _ _ _ hfe).1.den hd
    · cases hfe; exact hd
  have hz : Den fut net sid [] := Den.fwd hf (ih1.1 rfl)
  have offT : ∀ j l, j ≠ id → ¬ Up net j id →
      Den fut (n'.setNode id (.merge sts (chosen.erase sb))) j l → Den fut net j (ofSrc j tr1 ++ l) := by
    intro j l e hj hd
    have hd1 : Den fut n' j l :=
      den_off (fun k hk => setNode_get_ne _ hk) (fun hu => hj ((hss1.trans s2).up.mp hu)) hd
    have hd2 := le j l hd1
    by_cases e2 : j = sid
    · subst e2
      rcases Den.fwd_inv (setNode_get_self hf1 _) hd2 with ⟨h, _⟩ | ⟨_, rfl⟩
      · cases h
      · rw [hpre j (fun hu => by have := hu.le hsh; omega)]; exact hz
    · have h3 : ¬ Up net j sid := fun hu => hj (hu.chain hsh e2 (shp?_some hn) hmu)
      have hd3 : Den fut n1 j l :=
        den_off (fun k hk => setNode_get_ne _ hk) (fun hu => h3 (hss1.up.mp hu)) hd2
      exact ih1.2 j l (dom_src hsh (shp?_some hf) hfu h3) hd3
  have dropT := den_merge_drop_core (fut := fut) hn hnd hs (setNode_get_self hndm _) hz
    (fun b s eb hs' l hd => by
      have hlt := hsh.lt _ _ (edge_merge hn (List.mem_of_getElem? hs'))
      have := offT s l (by omega) (fun hu => by have := hu.le hsh; omega) hd
      rwa [hpre s (merge_sib_fwd hsh hn hs hs' eb hf).2] at this)
  exact den_merge_drop dropT offT (hpre id (fun hu => by have := hu.le hsh; omega))
    (fun j hu => ssM.up.mp hu) ih2

/-! ## every `Recv` step is covered by the specification -/

theorem Recv.den {fut : Nat → List Item} {F : Facts} (hF : F.copy = goodCopyFacts) {net net' : Net}
    {id : Nat} {r : Res} {tr : List (Nat × Item)} (h : Recv F net id r net' tr)
    (hsh : ShInv net) (hst : StInv net) : DenStep fut net net' id r tr := by
  induction h with
  | pipe hn hr => exact Recv.den_pipe hn hr
  | @arrItem net id x rest hn =>
    constructor
    · intro h; cases h
    · intro j l hj hd
      by_cases e : j = id
      · subst e
        have := Den.arr_inv (setNode_get_self hn _) hd
        subst this
        simpa [ofSrc] using Den.arr (fut := fut) hn
      · have hof : ofSrc j [(id, x)] = [] := by simp [ofSrc, Ne.symm e]
        rw [hof]
        exact den_off (fun k hk => setNode_get_ne _ hk) (not_up_of_dom hj e) hd
  | arrEof hn =>
    constructor
    · intro _; exact Den.arr hn
    · intro j l _ hd; simpa [ofSrc] using hd
  | convEof hn hr ih => exact den_conv_eof hsh hn hr (ih hsh hst)
  | convItem hn hr hc ih => exact den_conv_item hsh hn hr hc (ih hsh hst)
  | convSkip hn hr1 hc hr2 ih1 ih2 =>
    exact den_conv_skip hsh hn hr1 hc (ih1 hsh hst)
      (ih2 (hr1.sameShape.1.shInv hsh) (hr1.stInv hF hsh hst))
  | childHave hn hp hk => rw [hF] at hk; exact den_child_have hsh hst hn hp hk
  | childFill hn hp hk hr ih => rw [hF] at hk; exact den_child_fill hsh hst hn hp hk hr (ih hsh hst)
  | mergeEof hn => exact den_merge_eof hn
  | mergePipeItem hn hsb hs hp hr => exact den_merge_pipe_item hsh hn hsb hs hp hr
  | mergeFwdItem hn hsb hs hf hr ih => exact den_merge_fwd_item hsh hn hsb hs hf hr (ih hsh hst)
  | @mergeDropPipe net n2 id sb sid sts chosen p p' r tr hn hsb hs hp hr hr2 ih =>
    refine den_merge_drop_simple hsh hst hn hs ((Recv.den_pipe hp hr).1 rfl) (ih ?_ ?_)
    · exact (merge_erase_sameShape hn sb).shInv hsh
    · exact hst.setNode (NodeOK.erase _ ((stInv_iff.mp hst) _ _ hn)) _
  | @mergeDropFwd net n1 n' n2 id sb sid src cf sts chosen r tr1 tr2 hn hsb hs hf hr1 hfe hr2 ih1 ih2 =>
    have hss1 := hr1.sameShape.1
    have hf1 : n1.nodes[sid]? = some (.fpipe src .running) := by
      rw [hr1.footprint sid (fun hu => by
        have := hu.le hsh; have := hsh.lt _ _ (edge_fwd hf); omega)]; exact hf
    obtain ⟨s2, _⟩ := fwdEnd_spec hf1 hfe
    have hm' : n'.shp? id = some (.merge sts) := by
      rw [s2.2, hss1.2]; exact shp?_some hn
    have s3 : SameShape n' (n'.setNode id (.merge sts (chosen.erase sb))) := setNode_sameShape' hm' rfl
    refine den_merge_drop_fwd hsh hst hn hs hf hr1 hfe (ih1 hsh hst) (ih2 ?_ ?_)
    · exact (hss1.trans (s2.trans s3)).shInv hsh
    · exact (fwdEnd_stInv hf1 hfe (hr1.stInv hF hsh hst)).setNode
        (NodeOK.erase _ ((stInv_iff.mp hst) _ _ hn)) _
  | @mergeDropEnded net n2 id sb sid src sts chosen r tr hn hsb hs hfe hr2 ih =>
    refine den_merge_drop_simple hsh hst hn hs (Den.fwdEnded hfe) (ih ?_ ?_)
    · exact (merge_erase_sameShape hn sb).shInv hsh
    · exact hst.setNode (NodeOK.erase _ ((stInv_iff.mp hst) _ _ hn)) _


end EinoV.C08
