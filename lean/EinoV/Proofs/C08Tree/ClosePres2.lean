/-
  C08 — the close invariant is kept by every `Recv`, by forwarders that notice a close, and by
  `Close` of a held reader.
-/
import EinoV.Proofs.C08Tree.ClosePres1
set_option linter.unusedVariables false
set_option linter.unusedSimpArgs false
namespace EinoV.C08

theorem sameStat_have {src : Nat} {c c' : CopyCore} {idx : Nat} {r : Res}
    (h : c.peekLocal goodCopyFacts idx = .have r c') : SameStat (.parent src c) (.parent src c') := by
  obtain ⟨k, hk, h | h⟩ := peek_have h
  · obtain ⟨it, hit, _, rfl⟩ := h
    refine .parent (by simp) (fun i => ?_) rfl rfl (count_none_set_some hk)
    simp only [List.getElem?_set]
    by_cases e : idx = i
    · subst e
      have hlt : idx < c.cursors.length := by
        rcases List.getElem?_eq_some_iff.mp hk with ⟨hh, _⟩; exact hh
      rw [if_pos rfl, if_pos hlt, hk]; rfl
    · simp [e]
  · obtain ⟨_, _, _, rfl⟩ := h; exact .refl _

theorem sameStat_fill {src : Nat} {c : CopyCore} {idx k : Nat} (r : Res)
    (h : c.peekLocal goodCopyFacts idx = .fill k) : SameStat (.parent src c) (.parent src (c.fill idx k r)) := by
  obtain ⟨hk, _, _⟩ := peek_fill h
  cases r with
  | eof => exact .parent rfl (fun _ => rfl) rfl rfl rfl
  | item it =>
    refine .parent (by simp [CopyCore.fill]) (fun i => ?_) rfl rfl (by simp [CopyCore.fill, count_none_set_some hk])
    simp only [CopyCore.fill, List.getElem?_set]
    by_cases e : idx = i
    · subst e
      have hlt : idx < c.cursors.length := by
        rcases List.getElem?_eq_some_iff.mp hk with ⟨hh, _⟩; exact hh
      rw [if_pos rfl, if_pos hlt, hk]; rfl
    · simp [e]

/-- every `Recv` keeps the close invariant -/
theorem Recv.closeInv {F : Facts} (g : GoodFacts F) {net net' : Net} {id : Nat} {r : Res} {tr : List (Nat × Item)}
    (h : Recv F net id r net' tr) {H : List Nat} (i : ShInv net) (hH : ∀ r ∈ H, Free net r)
    (hinv : CloseInvOn net H (fun _ => True)) : CloseInvOn net' H (fun _ => True) := by
  have hgc : F.copy = goodCopyFacts := g.copy
  induction h with
  | pipe hn hr => exact closeInvOn_set_stat i hn (.pipe (Pipe.recv_recvClosed hr)) hinv
  | arrItem hn => exact closeInvOn_set_stat i hn .arr hinv
  | arrEof _ => exact hinv
  | convEof _ _ ih => exact ih i hH hinv
  | convItem _ _ _ ih => exact ih i hH hinv
  | convSkip _ hr1 _ _ ih1 ih2 =>
    have ss := hr1.sameShape.1
    exact ih2 (ss.shInv i) (fun r hr => free_of_sameShape ss (hH r hr)) (ih1 i hH hinv)
  | childHave hn hp hk =>
    rw [hgc] at hk
    exact closeInvOn_set_stat i hp (sameStat_have hk) hinv
  | @childFill net n1 id par idx src k core r tr hn hp hk hr ih =>
    rw [hgc] at hk
    have ss := hr.sameShape.1
    have hp1 : n1.nodes[par]? = some (.parent src core) := by
      rw [hr.footprint par (up_parent_not i hp)]; exact hp
    exact closeInvOn_set_stat (ss.shInv i) hp1 (sameStat_fill r hk) (ih i hH hinv)
  | mergeEof _ => exact hinv
  | mergePipeItem _ _ _ hp hr => exact closeInvOn_set_stat i hp (.pipe (Pipe.recv_recvClosed hr)) hinv
  | mergeFwdItem _ _ _ _ _ ih => exact ih i hH hinv
  | @mergeDropPipe net n2 id sb sid sts chosen p p' r tr hn _ _ _ _ _ ih =>
    have ss := merge_erase_sameShape hn sb
    exact ih (ss.shInv i) (fun r hr => free_of_sameShape ss (hH r hr)) (closeInvOn_set_stat i hn .merge hinv)
  | @mergeDropFwd net n1 n' n2 id sb sid src cf sts chosen r tr1 tr2 hn _ hs hf hr1 hfe _ ih1 ih2 =>
    have ss1 := hr1.sameShape.1
    have hf1 : n1.nodes[sid]? = some (.fpipe src .running) := by
      rw [hr1.footprint sid (fun hu => by
        have := hu.le i; have := i.lt _ _ (edge_fwd hf); omega)]; exact hf
    have i1 := ss1.shInv i
    have hH1 : ∀ r ∈ H, Free n1 r := fun r hr => free_of_sameShape ss1 (hH r hr)
    have inv' := fwdEnd_closeInv g i1 hH1 (ih1 i hH hinv) hf1 hfe
    obtain ⟨s2, _⟩ := fwdEnd_spec hf1 hfe
    have hm' : n'.shp? id = some (.merge sts) := by
      rw [s2.2, ss1.2]; exact shp?_some hn
    obtain ⟨ndm, hndm, hsm⟩ := shp?_eq_some hm'
    cases ndm <;> simp [Node.shp] at hsm
    have hsm' := hsm.symm
    subst hsm'
    have i' := (ss1.trans s2).shInv i
    have s3 : SameShape n' (n'.setNode id (.merge sts (chosen.erase sb))) := setNode_sameShape hndm rfl
    exact ih2 (s3.shInv i') (fun r hr => free_of_sameShape (ss1.trans (s2.trans s3)) (hH r hr))
      (closeInvOn_set_stat i' hndm .merge inv')
  | @mergeDropEnded net n2 id sb sid src sts chosen r tr hn _ _ _ _ ih =>
    have ss := merge_erase_sameShape hn sb
    exact ih (ss.shInv i) (fun r hr => free_of_sameShape ss (hH r hr)) (closeInvOn_set_stat i hn .merge hinv)

/-! ## forwarders that notice, `Close(reader)` -/

theorem resolveOne_closeInv {F : Facts} (g : GoodFacts F) {fuel : Nat} {net net' : Net} {H : List Nat} {f : Nat}
    (i : ShInv net) (hH : ∀ r ∈ H, Free net r) (hinv : CloseInvOn net H (fun _ => True))
    (h : resolveOne F fuel net f = some net') : CloseInvOn net' H (fun _ => True) := by
  unfold resolveOne at h
  split at h
  · rename_i src hf
    simp only [g.fwd, if_true] at h
    have hss : SameShape net (net.setNode f (.fpipe src .stopped)) := setNode_sameShape hf rfl
    have hrel := relHyp_fwd_exit (st' := .stopped) i hH hinv hf (.inr ⟨rfl, rfl⟩)
    obtain ⟨t, ht, hk⟩ := i.fwdSrc f src (shp?_some hf)
    exact release_of_some g (hss.shInv i) (fun r hr => free_of_sameShape hss (hH r hr)) hrel
      ⟨t, by rw [hss.2]; exact ht, hk⟩ h
  · cases h; exact hinv

theorem resolveFold_closeInv {F : Facts} (g : GoodFacts F) {fuel : Nat} {H : List Nat} :
    ∀ (ps : List Nat) {net net' : Net}, ShInv net → (∀ r ∈ H, Free net r) →
      CloseInvOn net H (fun _ => True) → ps.foldlM (resolveOne F fuel) net = some net' →
      CloseInvOn net' H (fun _ => True) := by
  intro ps
  induction ps with
  | nil => intro net net' _ _ hinv h; simp at h; subst h; exact hinv
  | cons f rest ih =>
    intro net net' i hH hinv h
    simp only [List.foldlM_cons, Option.bind_eq_bind, Option.bind_eq_some_iff] at h
    obtain ⟨n1, h1, h2⟩ := h
    have ss := (resolveOne_closeLE h1).sameShape
    exact ih (ss.shInv i) (fun r hr => free_of_sameShape ss (hH r hr)) (resolveOne_closeInv g i hH hinv h1) h2

theorem resolveReaching_closeInv {F : Facts} (g : GoodFacts F) {fuel : Nat} {H : List Nat} (r : Nat) :
    ∀ {net net' : Net} {p : Nat}, ShInv net → (∀ r ∈ H, Free net r) →
      CloseInvOn net H (fun _ => True) → resolveReaching F fuel r net p = some net' →
      CloseInvOn net' H (fun _ => True) := by
  induction r with
  | zero => intro net net' p _ _ hinv h; simp [resolveReaching] at h; subst h; exact hinv
  | succ r ih =>
    intro net net' p i hH hinv h
    unfold resolveReaching at h
    split at h
    · cases h; exact hinv
    · split at h
      · cases h; exact hinv
      · simp only at h
        split at h
        · cases h; exact hinv
        · split at h
          · cases h
          · rename_i n1 hf
            have ss := (resolveFold_closeLE hf).sameShape
            exact ih (ss.shInv i) (fun r hr => free_of_sameShape ss (hH r hr))
              (resolveFold_closeInv g _ i hH hinv hf) h

/-- `Close` of a held reader -/
theorem close_closeInv {F : Facts} (g : GoodFacts F) {fuel : Nat} {net n1 : Net} {r : Nat}
    (i : Inv net) (hinv : CloseInv net) (hr : r ∈ net.readers) (hc : closeAll F fuel net r = some n1) :
    CloseInvOn n1 (net.readers.erase r) (fun _ => True) := by
  have hH : ∀ r' ∈ net.readers.erase r, Free net r' := fun r' hr' => i.rd.free' (List.mem_of_mem_erase hr')
  have hnr : r ∉ net.readers.erase r := fun hm => ((i.rd.nodup.mem_erase_iff).mp hm).1 rfl
  have hroot : ∀ u, RootClaimed net (net.readers.erase r) u → RootClaimed net net.readers u := by
    rintro u (h | h | h)
    · exact .inl (List.mem_of_mem_erase h)
    · exact .inr (.inl h)
    · exact .inr (.inr h)
  have hroot' : ∀ u, u ≠ r → RootClaimed net net.readers u → RootClaimed net (net.readers.erase r) u := by
    rintro u hu (h | h | h)
    · exact .inl ((List.mem_erase_of_ne hu).mpr h)
    · exact .inr (.inl h)
    · exact .inr (.inr h)
  have hrel : RelHyp net (net.readers.erase r) r := by
    refine ⟨⟨fun k hk => ?_, hinv.cellKids, hinv.cellCount⟩, fun k hk => ?_, fun j' hj' => ?_⟩
    · have hfl := hinv.flag k trivial
      refine ⟨fun ho => ?_, fun hcl hc' => hfl.2 hcl ?_⟩
      · obtain ⟨j', hu, hc'⟩ := hfl.1 ho
        exact ⟨j', hu, hroot' j' (by rintro rfl; exact hk hu) hc'⟩
      · obtain ⟨j', hu, hc''⟩ := hc'
        exact ⟨j', hu, hroot j' hc''⟩
    · intro hcl
      exact (hinv.flag k trivial).2 hcl ⟨r, hk, .inl hr⟩
    · -- nothing passes through a held reader
      have : j' = r := by
        rcases hj'.last with e | ⟨b, _, he⟩
        · exact e
        · obtain ⟨s, hs, hu⟩ := he.edge
          exact absurd hu (i.rd.free r hr b s hs)
      subst this
      rintro (h | ⟨P, c, hp, _⟩ | ⟨f, st, hf, _⟩)
      · exact hnr h
      · exact i.rd.free j' hr P _ (shp?_some hp) (by simp [Node.shp, Shp.uses])
      · exact i.rd.free j' hr f _ (shp?_some hf) (by simp [Node.shp, Shp.uses])
  exact release_of_some g i.sh hH hrel (i.rd.kind r hr) hc

end EinoV.C08
