/-
  C08 — progress for whole networks (partial): with every writer closed, in a network whose
  converts drop nothing, every claimed reader can take a `Recv` step (relational semantics).
-/
import EinoV.Proofs.C08Tree.ClosePropagate
set_option linter.unusedVariables false
set_option linter.unusedSimpArgs false
namespace EinoV.C08


/-! ## progress: with every writer closed, every claimed reader can take a step -/

/-- every writer has closed -/
def AllSendClosed (net : Net) : Prop := ∀ (k : Nat) (p : Pipe), net.nodes[k]? = some (.pipe p) → p.sendClosed = true

/-- no convert of the network drops items -/
def NoSkip (net : Net) : Prop := ∀ (k src : Nat) (g : ConvSpec), net.nodes[k]? = some (.conv src g) → g.skipMod = 0

theorem noSkip_convItem {g : ConvSpec} (h : g.skipMod = 0) (it : Item) : ∃ y, convItem g.fn it = some y := by
  unfold convItem
  split
  · exact ⟨_, rfl⟩
  · have : g.fn it.chunk ≠ .skip := by
      unfold ConvSpec.fn; simp [h]
      split <;> simp
    cases hf : g.fn it.chunk with
    | val v => exact ⟨_, rfl⟩
    | skip => exact absurd hf this
    | fail c e => exact ⟨_, rfl⟩

theorem SameShape.noSkip {a b : Net} (h : SameShape a b) (hn : NoSkip a) : NoSkip b := by
  intro k src g hk
  have := (h.2 k).symm.trans (shp?_some hk)
  obtain ⟨nd, hnd, hs⟩ := shp?_eq_some this
  cases nd <;> simp [Node.shp] at hs
  obtain ⟨rfl, rfl⟩ := hs
  exact hn k _ _ hnd

theorem allSendClosed_of {a b : Net} (h : SameShape a b) (hs : SCM a b) (ha : AllSendClosed a) : AllSendClosed b := by
  intro k q hk
  have := (h.2 k).symm.trans (shp?_some hk)
  obtain ⟨nd, hnd, hsh⟩ := shp?_eq_some this
  cases nd <;> simp [Node.shp] at hsh
  rename_i p
  obtain ⟨y, hy, hys⟩ := hs k p hnd (ha k p hnd)
  rw [hk] at hy; cases hy; exact hys

theorem Pipe.recv_closed {p : Pipe} (h : p.sendClosed = true) : ∃ p' r, p.recv = some (p', r) := by
  unfold Pipe.recv
  cases p.buf with
  | nil => simp [h]
  | cons x rest => exact ⟨_, _, rfl⟩

/-- claims only look at the nodes from `j` on -/
theorem claimed_of_same_above {a b : Net} {H : List Nat} (hs : SameShape a b) {j : Nat}
    (hab : ∀ k, j < k → b.nodes[k]? = a.nodes[k]?) (sh : ShInv a) (h : Claimed a H j) : Claimed b H j := by
  obtain ⟨r, hu, hc⟩ := h
  refine ⟨r, hs.upP.mpr hu, ?_⟩
  have hle := hu.up.le sh
  rcases hc with h1 | ⟨P, c, hp, ho⟩ | ⟨f, st, hf, hst⟩
  · exact .inl h1
  · have := sh.lt P r (edge_parent hp)
    exact .inr (.inl ⟨P, c, by rw [hab P (by omega)]; exact hp, ho⟩)
  · have := sh.lt f r (edge_fwd hf)
    exact .inr (.inr ⟨f, st, by rw [hab f (by omega)]; exact hf, hst⟩)



structure PHyp (net : Net) (H : List Nat) : Prop where
  sh : ShInv net
  st : StInv net
  hH : ∀ r ∈ H, Free net r
  ci : CloseInvOn net H (fun _ => True)
  asc : AllSendClosed net
  ns : NoSkip net

theorem PHyp.recv {F : Facts} (g : GoodFacts F) {net net' : Net} {H : List Nat} {id : Nat} {r : Res}
    {tr : List (Nat × Item)} (h : Recv F net id r net' tr) (p : PHyp net H) : PHyp net' H :=
  have ss := h.sameShape.1
  ⟨ss.shInv p.sh, h.stInv g.copy p.sh p.st, fun r hr => free_of_sameShape ss (p.hH r hr),
    h.closeInv g p.sh p.hH p.ci, allSendClosed_of ss h.scm p.asc, ss.noSkip p.ns⟩

theorem PHyp.setMerge {net : Net} {H : List Nat} {j sb : Nat} {sts chosen : List Nat} (p : PHyp net H)
    (hn : net.nodes[j]? = some (.merge sts chosen)) : PHyp (net.setNode j (.merge sts (chosen.erase sb))) H :=
  have ss := merge_erase_sameShape hn sb
  ⟨ss.shInv p.sh, p.st.setNode (NodeOK.erase _ ((stInv_iff.mp p.st) _ _ hn)) _,
    fun r hr => free_of_sameShape ss (p.hH r hr), closeInvOn_set_stat p.sh hn .merge p.ci,
    allSendClosed_of ss (SCM.setOther (shp?_some hn) (by simp [Node.shp]) _) p.asc, ss.noSkip p.ns⟩

theorem PHyp.fwdEnd {F : Facts} (g : GoodFacts F) {cf : Nat} {n1 n' : Net} {H : List Nat} {sid src : Nat}
    (p : PHyp n1 H) (hf : n1.nodes[sid]? = some (.fpipe src .running)) (h : fwdEnd F cf n1 sid src = some n') :
    PHyp n' H :=
  have ss := (fwdEnd_spec hf h).1
  ⟨ss.shInv p.sh, fwdEnd_stInv hf h p.st, fun r hr => free_of_sameShape ss (p.hH r hr),
    fwdEnd_closeInv g p.sh p.hH p.ci hf h, allSendClosed_of ss (fwdEnd_scm hf h) p.asc, ss.noSkip p.ns⟩

theorem fwdEnd_succeeds {F : Facts} (g : GoodFacts F) {n1 : Net} {H : List Nat} {sid src : Nat}
    (p : PHyp n1 H) (hf : n1.nodes[sid]? = some (.fpipe src .running)) :
    ∃ n', fwdEnd F (src + 1) n1 sid src = some n' := by
  have hss : SameShape n1 (n1.setNode sid (.fpipe src .ended)) := setNode_sameShape hf rfl
  have hrel := relHyp_fwd_exit (st' := .ended) p.sh p.hH p.ci hf (.inl ⟨rfl, rfl⟩)
  obtain ⟨t, ht, hk⟩ := p.sh.fwdSrc sid src (shp?_some hf)
  obtain ⟨n', h, _⟩ := release g (src + 1) _ H src (hss.shInv p.sh)
    (fun r hr => free_of_sameShape hss (p.hH r hr)) (Nat.lt_succ_self _) hrel ⟨t, by rw [hss.2]; exact ht, hk⟩
  exact ⟨n', by simp [fwdEnd, g.fwd, h]⟩

theorem peek_cases {c : CopyCore} {idx k : Nat} (h : c.cursors[idx]? = some (some k)) :
    (∃ r c', c.peekLocal goodCopyFacts idx = .have r c') ∨ c.peekLocal goodCopyFacts idx = .fill k := by
  unfold CopyCore.peekLocal
  simp only [h, goodCopyFacts, Bool.not_true, Bool.false_eq_true, if_false]
  cases c.log[k]? with
  | some it => exact .inl ⟨_, _, rfl⟩
  | none =>
    cases c.eofSeen with
    | true => exact .inl ⟨_, _, rfl⟩
    | false => exact .inr rfl

/-- the statement of progress for one node, for all networks -/
def CanRecv (F : Facts) (j : Nat) : Prop :=
  ∀ (net : Net) (H : List Nat), PHyp net H → Claimed net H j →
    (∃ t, net.shp? j = some t ∧ (t.isReader = true ∨ ∃ s, t = .fpipe s)) →
    ∃ res net' tr, Recv F net j res net' tr



theorem claimed_stat_ne_closed {net : Net} {H : List Nat} (ci : CloseInvOn net H (fun _ => True)) {k : Nat}
    (h : Claimed net H k) : stat net k ≠ .closed := fun hc => (ci.flag k trivial).2 hc h

/-- a merged reader whose sources can all take a step can take a step -/
theorem merge_enabled {F : Facts} (g : GoodFacts F) {H : List Nat} {j : Nat} {sts : List Nat}
    (ih : ∀ j', j' < j → ∀ (net : Net), PHyp net H → Claimed net H j' →
      (∃ t, net.shp? j' = some t ∧ t.isReader = true) → ∃ res net' tr, Recv F net j' res net' tr) :
    ∀ (m : Nat) (net : Net) (chosen : List Nat), PHyp net H → net.nodes[j]? = some (.merge sts chosen) →
      chosen.length = m → Claimed net H j → ∃ res net' tr, Recv F net j res net' tr := by
  intro m
  induction m with
  | zero =>
    intro net chosen p hn hlen _
    have : chosen = [] := List.length_eq_zero_iff.mp hlen
    subst this
    exact ⟨_, _, _, .mergeEof hn⟩
  | succ m ihm =>
    intro net chosen p hn hlen hcl
    cases chosen with
    | nil => simp at hlen
    | cons sb rest =>
      have hsb : sb ∈ sb :: rest := by simp
      have hlt := p.st.chosenLt j sts _ hn sb hsb
      have hsid : sts[sb]? = some sts[sb] := List.getElem?_eq_getElem hlt
      generalize hsidv : sts[sb] = sid at hsid
      have hmem : sid ∈ sts := List.mem_of_getElem? hsid
      have hlen' : ((sb :: rest).erase sb).length = m := by
        rw [List.length_erase_of_mem hsb]; simp at hlen ⊢; omega
      have hjs := p.sh.lt j sid (edge_merge hn hmem)
      have hcls : Claimed net H sid := hcl.pass ((pedge_merge hn).mpr hmem)
      -- the recursive step after a drop that leaves the nodes after `j` alone
      have drop : ∀ (n'' : Net), PHyp n'' H → SameShape net n'' →
          n''.nodes[j]? = some (.merge sts (sb :: rest)) → (∀ k, j < k → n''.nodes[k]? = net.nodes[k]?) →
          ∃ res net' tr, Recv F (n''.setNode j (.merge sts ((sb :: rest).erase sb))) j res net' tr := by
        intro n'' p'' ss hn'' hab
        have ss2 := merge_erase_sameShape hn'' sb
        refine ihm _ _ (p''.setMerge hn'') (setNode_get_self hn'' _) hlen' ?_
        refine claimed_of_same_above (ss.trans ss2) (fun k hk => ?_) p.sh hcl
        rw [setNode_get_ne _ (by omega), hab k hk]
      rcases p.sh.mergeSrc j sts sid (shp?_some hn) hmem with hp | ⟨src, hp⟩
      · -- a pipe
        obtain ⟨nd, hnd, hsh⟩ := shp?_eq_some hp
        cases nd <;> simp [Node.shp] at hsh
        rename_i pp
        obtain ⟨p', r, hr⟩ := Pipe.recv_closed (p.asc sid pp hnd)
        cases r with
        | item x => exact ⟨_, _, _, .mergePipeItem hn hsb hsid hnd hr⟩
        | eof =>
          obtain ⟨res, net', tr, hrec⟩ := drop net p (.refl _) hn (fun _ _ => rfl)
          exact ⟨_, _, _, .mergeDropPipe hn hsb hsid hnd hr hrec⟩
      · -- a forwarder
        obtain ⟨nd, hnd, hsh⟩ := shp?_eq_some hp
        cases nd <;> simp [Node.shp] at hsh
        rename_i s st
        subst hsh
        have hst := claimed_stat_ne_closed p.ci hcls
        rw [stat_fwd hnd] at hst
        have hss := p.sh.lt sid s (edge_fwd hnd)
        cases st with
        | pending => simp [fwdStat] at hst
        | stopped => simp [fwdStat] at hst
        | ended =>
          obtain ⟨res, net', tr, hrec⟩ := drop net p (.refl _) hn (fun _ _ => rfl)
          exact ⟨_, _, _, .mergeDropEnded hn hsb hsid hnd hrec⟩
        | running =>
          have hclsrc : Claimed net H s := .of_root (.inr (.inr ⟨sid, _, hnd, .inl rfl⟩))
          obtain ⟨res1, n1, tr1, hr1⟩ := ih s (by omega) net p hclsrc (p.sh.fwdSrc sid s (shp?_some hnd))
          cases res1 with
          | item x => exact ⟨_, _, _, .mergeFwdItem hn hsb hsid hnd hr1⟩
          | eof =>
            have p1 := p.recv g hr1
            have ss1 := hr1.sameShape.1
            have hfoot := hr1.footprint
            have hf1 : n1.nodes[sid]? = some (.fpipe s .running) := by
              rw [hfoot sid (fun hu => by have := hu.le p.sh; omega)]; exact hnd
            obtain ⟨n', hfe⟩ := fwdEnd_succeeds g p1 hf1
            have p' := p1.fwdEnd g hf1 hfe
            obtain ⟨s2, _⟩ := fwdEnd_spec hf1 hfe
            have hfoot2 := fwdEnd_footprint hf1 hfe
            have hsame : ∀ k, j ≤ k → n'.nodes[k]? = net.nodes[k]? := by
              intro k hk
              rw [hfoot2 k (fun hu => by have := (ss1.up.mp hu).le p.sh; omega),
                  hfoot k (fun hu => by have := hu.le p.sh; omega)]
            obtain ⟨res, net', tr, hrec⟩ := drop n' p' (ss1.trans s2) (by rw [hsame j (Nat.le_refl _)]; exact hn)
              (fun k hk => hsame k (by omega))
            exact ⟨_, _, _, .mergeDropFwd hn hsb hsid hnd hr1 hfe hrec⟩

/-- **progress.** With every writer closed, in a network whose converts drop nothing, every node
    whose reading end is claimed can take a `Recv` step. -/
theorem recv_enabled {F : Facts} (g : GoodFacts F) (H : List Nat) : ∀ (n j : Nat), j < n →
    ∀ (net : Net), PHyp net H → Claimed net H j → (∃ t, net.shp? j = some t ∧ t.isReader = true) →
    ∃ res net' tr, Recv F net j res net' tr := by
  intro n
  induction n with
  | zero => intro j hj; omega
  | succ n ihn =>
    intro j hj net p hcl ⟨t, ht, hk⟩
    have ih : ∀ j', j' < j → ∀ (net : Net), PHyp net H → Claimed net H j' →
        (∃ t, net.shp? j' = some t ∧ t.isReader = true) → ∃ res net' tr, Recv F net j' res net' tr :=
      fun j' hj' => ihn j' (by omega)
    obtain ⟨nd, hn, hsh⟩ := shp?_eq_some ht
    cases nd with
    | pipe pp =>
      obtain ⟨p', r, hr⟩ := Pipe.recv_closed (p.asc j pp hn)
      exact ⟨_, _, _, .pipe hn hr⟩
    | arr rest =>
      cases rest with
      | nil => exact ⟨_, _, _, .arrEof hn⟩
      | cons x r => exact ⟨_, _, _, .arrItem hn⟩
    | conv src gg =>
      have hlt := p.sh.lt j src (edge_conv hn)
      have hcs : Claimed net H src := hcl.pass (.inl ⟨gg, hn⟩)
      obtain ⟨res1, n1, tr1, hr1⟩ := ih src hlt net p hcs (p.sh.convSrc j src gg (shp?_some hn))
      cases res1 with
      | eof => exact ⟨_, _, _, .convEof hn hr1⟩
      | item it =>
        obtain ⟨y, hy⟩ := noSkip_convItem (p.ns j src gg hn) it
        exact ⟨_, _, _, .convItem hn hr1 hy⟩
    | child P idx =>
      obtain ⟨src, nn, hpS, _⟩ := p.sh.childPar j P idx (shp?_some hn)
      obtain ⟨pn, hp, hps⟩ := shp?_eq_some hpS
      cases pn <;> simp [Node.shp] at hps
      rename_i src' core
      obtain ⟨rfl, _⟩ := hps
      have hst := claimed_stat_ne_closed p.ci hcl
      rw [stat_child hn hp] at hst
      have hcur : ∃ k0, core.cursors[idx]? = some (some k0) := by
        cases hc : core.cursors[idx]? with
        | none => simp [hc, cursorStat] at hst
        | some v =>
          cases v with
          | none => simp [hc, cursorStat] at hst
          | some k0 => exact ⟨k0, rfl⟩
      obtain ⟨k0, hk0⟩ := hcur
      have hgc : F.copy = goodCopyFacts := g.copy
      rcases peek_cases hk0 with ⟨r, c', hpk⟩ | hpk
      · exact ⟨_, _, _, .childHave hn hp (by rw [hgc]; exact hpk)⟩
      · have hltP := p.sh.lt j P (edge_child hn)
        have hltS := p.sh.lt P src' (edge_parent hp)
        have hcs : Claimed net H src' := .of_root (.inr (.inl ⟨P, core, hp, idx, k0, hk0⟩))
        obtain ⟨res1, n1, tr1, hr1⟩ := ih src' (by omega) net p hcs (p.sh.parSrc P src' _ (shp?_some hp))
        exact ⟨_, _, _, .childFill hn hp (by rw [hgc]; exact hpk) hr1⟩
    | merge sts chosen => exact merge_enabled g ih _ net chosen p hn rfl hcl
    | parent s c => simp [Node.shp] at hsh; subst hsh; simp [Shp.isReader] at hk
    | fpipe s st => simp [Node.shp] at hsh; subst hsh; simp [Shp.isReader] at hk
    | dead => simp [Node.shp] at hsh; subst hsh; simp [Shp.isReader] at hk


end EinoV.C08

namespace EinoV.C08

def allSendClosedB (net : Net) : Bool :=
  net.nodes.toList.all fun nd => match nd with | .pipe p => p.sendClosed | _ => true

def noSkipB (net : Net) : Bool :=
  net.nodes.toList.all fun nd => match nd with | .conv _ g => g.skipMod == 0 | _ => true

theorem allSendClosedB_spec {net : Net} (h : allSendClosedB net = true) : AllSendClosed net := by
  intro k p hk
  have hm : Node.pipe p ∈ net.nodes.toList := by
    rw [Array.mem_toList_iff]; exact Array.mem_of_getElem? hk
  have := List.all_eq_true.mp h _ hm
  simpa using this

theorem noSkipB_spec {net : Net} (h : noSkipB net = true) : NoSkip net := by
  intro k src g hk
  have hm : Node.conv src g ∈ net.nodes.toList := by
    rw [Array.mem_toList_iff]; exact Array.mem_of_getElem? hk
  have := List.all_eq_true.mp h _ hm
  simpa using this

end EinoV.C08
