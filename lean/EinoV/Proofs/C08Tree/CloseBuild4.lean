/-
  C08 — the close invariant is kept by `MergeStreamReaders`.
-/
import EinoV.Proofs.C08Tree.CloseBuild3
set_option linter.unusedVariables false
set_option linter.unusedSimpArgs false
namespace EinoV.C08


/-! ## the close invariant: `MergeStreamReaders` -/

/-- a held array is given up -/
theorem flag_drop_arr {net : Net} {H H' : List Nat} {r : Nat} {rest : List Item}
    (hr : net.nodes[r]? = some (.arr rest)) (hH' : ∀ y, y ∈ H' ↔ y ∈ H ∧ y ≠ r) (h : FlagInv net H) :
    FlagInv net H' := by
  intro k
  by_cases e : k = r
  · subst e
    rw [stat_none (by intro nd hnd; rw [hr] at hnd; cases hnd; simp)]; exact ⟨by simp, by simp⟩
  · have hcl : Claimed net H' k ↔ Claimed net H k := by
      constructor
      · rintro ⟨j', hu, hc⟩
        refine ⟨j', hu, ?_⟩
        rcases hc with h1 | h1 | h1
        · exact .inl ((hH' j').mp h1).1
        · exact .inr (.inl h1)
        · exact .inr (.inr h1)
      · rintro ⟨j', hu, hc⟩
        refine ⟨j', hu, ?_⟩
        rcases hc with h1 | h1 | h1
        · by_cases e2 : j' = r
          · subst e2
            exact absurd (upP_leaf hr (by simp) (by simp) hu).symm e
          · exact .inl ((hH' j').mpr ⟨h1, e2⟩)
        · exact .inr (.inl h1)
        · exact .inr (.inr h1)
    rw [hcl]; exact h k

/-- a held merged reader is absorbed: its sources are held instead -/
theorem flag_kill {net : Net} {H H' : List Nat} {r : Nat} {sts ch : List Nat} (sh : ShInv net)
    (hr : net.nodes[r]? = some (.merge sts ch)) (hfree : Free net r) (hrH : r ∈ H)
    (hH' : ∀ y, y ∈ H' ↔ (y ∈ H ∧ y ≠ r) ∨ y ∈ sts) (h : FlagInv net H ∧ CellInv net) :
    FlagInv (net.setNode r .dead) H' ∧ CellInv (net.setNode r .dead) := by
  have hget : ∀ k, k ≠ r → (net.setNode r .dead).nodes[k]? = net.nodes[k]? := fun k hk => setNode_get_ne _ hk
  have hstat : ∀ k, k ≠ r → stat (net.setNode r .dead) k = stat net k := by
    intro k hk
    exact stat_congr (hget k hk) (fun P idx hc => hget P (not_child_of sh hc hr (by simp)))
  have hpe : ∀ j u, PEdge (net.setNode r .dead) j u → PEdge net j u := by
    intro j u he
    have hj : j ≠ r := by
      rintro rfl
      rcases he with ⟨g, hh⟩ | ⟨s, c, hh, _⟩ <;> (rw [setNode_get_self hr] at hh; cases hh)
    unfold PEdge at he; rw [hget j hj] at he; exact he
  have hup1 : ∀ j k, UpP (net.setNode r .dead) j k → UpP net j k := by
    intro j k hu
    induction hu with
    | refl _ => exact .refl _
    | step he _ ih => exact .step (hpe _ _ he) ih
  have hup2 : ∀ j k, UpP net j k → j ≠ r → UpP (net.setNode r .dead) j k := by
    intro j k hu
    induction hu with
    | refl _ => intro _; exact .refl _
    | @step a u c he _ ih =>
      intro ha
      have hu : u ≠ r := by
        rintro rfl
        obtain ⟨s, hs, hm⟩ := he.edge
        exact hfree a s hs hm
      refine .step ?_ (ih hu)
      unfold PEdge; rw [hget a ha]; exact he
  have hroot : ∀ u, RootClaimed (net.setNode r .dead) H' u ↔ RootClaimed net H' u :=
    rootClaimed_set_plain hr rfl rfl
  refine ⟨fun k => ?_, ?_⟩
  · by_cases e : k = r
    · subst e
      rw [stat_none (by intro nd hnd; rw [setNode_get_self hr] at hnd; cases hnd; simp)]
      exact ⟨by simp, by simp⟩
    · have hcl : Claimed (net.setNode r .dead) H' k ↔ Claimed net H k := by
        constructor
        · rintro ⟨j', hu, hc⟩
          have hu' := hup1 _ _ hu
          rcases (hroot j').mp hc with h1 | h1 | h1
          · rcases (hH' j').mp h1 with ⟨h2, _⟩ | h2
            · exact ⟨j', hu', .inl h2⟩
            · exact ⟨r, .step ((pedge_merge hr).mpr h2) hu', .inl hrH⟩
          · exact ⟨j', hu', .inr (.inl h1)⟩
          · exact ⟨j', hu', .inr (.inr h1)⟩
        · rintro ⟨j', hu, hc⟩
          by_cases e2 : j' = r
          · subst e2
            rcases hu.first with e3 | ⟨b, hb, hbk⟩
            · exact absurd e3.symm e
            · have hbs := (pedge_merge hr).mp hb
              have hbr : b ≠ j' := by
                intro hb'
                rw [hb'] at hbs
                exact hfree j' _ (shp?_some hr) (by simpa [Node.shp, Shp.uses] using hbs)
              exact ⟨b, hup2 _ _ hbk hbr, (hroot b).mpr (.inl ((hH' b).mpr (.inr hbs)))⟩
          · refine ⟨j', hup2 _ _ hu e2, (hroot j').mpr ?_⟩
            rcases hc with h1 | h1 | h1
            · exact .inl ((hH' j').mpr (.inl ⟨h1, e2⟩))
            · exact .inr (.inl h1)
            · exact .inr (.inr h1)
      rw [hstat k e, hcl]; exact h.1 k
  · have hback : ∀ (P s : Nat) (core : CopyCore), (net.setNode r .dead).nodes[P]? = some (Node.parent s core) →
        net.nodes[P]? = some (Node.parent s core) := by
      intro P s core hp
      have : P ≠ r := by rintro rfl; rw [setNode_get_self hr] at hp; cases hp
      rw [hget P this] at hp; exact hp
    refine ⟨fun P s core hp idx hidx => ?_, fun P s core hp => h.2.2 P s core (hback P s core hp)⟩
    obtain ⟨c, hc⟩ := h.2.1 P s core (hback P s core hp) idx hidx
    have : c ≠ r := by rintro rfl; rw [hr] at hc; cases hc
    exact ⟨c, by rw [hget c this]; exact hc⟩



/-- the readers held in the middle of `mkMerge`: the caller's readers not yet absorbed, and the
    collected sources -/
def Hmid (net0 : Net) (ss dn : List Nat) : List Nat :=
  net0.readers.filter (fun y => !dn.contains y) ++ ss

theorem mem_Hmid {net0 : Net} {ss dn : List Nat} {y : Nat} :
    y ∈ Hmid net0 ss dn ↔ (y ∈ net0.readers ∧ y ∉ dn) ∨ y ∈ ss := by
  simp [Hmid]

def MClose (net0 n : Net) (ss dn : List Nat) : Prop := FlagInv n (Hmid net0 ss dn) ∧ CellInv n

theorem flagInv_mem_congr {net : Net} {H H' : List Nat} (h : ∀ y, y ∈ H' ↔ y ∈ H) (hf : FlagInv net H) :
    FlagInv net H' := by
  intro k; rw [claimed_mem_congr h]; exact hf k

theorem mstep_close {net0 n n' : Net} {ss ss' dn : List Nat} {arr arr' : List Item} {r : Nat}
    (m : MFold net0 n ss dn) (c : MClose net0 n ss dn) (hr : r ∈ net0.readers) (hd : r ∉ dn)
    (h : mstep (n, ss, arr) r = some (n', ss', arr')) : MClose net0 n' ss' (r :: dn) := by
  obtain ⟨hfr, t, ht, hk⟩ := m.held r hr hd
  have hlt := shp?_lt ht
  have hrss : r ∉ ss := fun hm => (m.ssOk r hm).2.2 ⟨hr, hd⟩
  have hrH : r ∈ Hmid net0 ss dn := mem_Hmid.mpr (.inl ⟨hr, hd⟩)
  unfold mstep at h
  simp only at h
  split at h
  · -- pipe
    rename_i p hp
    simp at h; obtain ⟨rfl, rfl, rfl⟩ := h
    refine ⟨flagInv_mem_congr (fun y => ?_) c.1, c.2⟩
    rw [mem_Hmid, mem_Hmid]
    simp only [List.mem_cons, List.mem_append, List.mem_singleton, List.not_mem_nil, or_false, not_or]
    constructor
    · rintro (⟨h1, h2, h3⟩ | h1 | h1)
      · exact .inl ⟨h1, h3⟩
      · exact .inr h1
      · subst h1; exact .inl ⟨hr, hd⟩
    · rintro (⟨h1, h2⟩ | h1)
      · by_cases e : y = r
        · exact .inr (.inr e)
        · exact .inl ⟨h1, e, h2⟩
      · exact .inr (.inl h1)
  · -- array
    rename_i rest hp
    simp at h; obtain ⟨rfl, rfl, rfl⟩ := h
    refine ⟨flag_drop_arr hp (fun y => ?_) c.1, c.2⟩
    rw [mem_Hmid, mem_Hmid]
    simp only [List.mem_cons, not_or]
    constructor
    · rintro (⟨h1, h2, h3⟩ | h1)
      · exact ⟨.inl ⟨h1, h3⟩, h2⟩
      · exact ⟨.inr h1, fun e => hrss (e ▸ h1)⟩
    · rintro ⟨⟨h1, h2⟩ | h1, h3⟩
      · exact .inl ⟨h1, h3, h2⟩
      · exact .inr h1
  · -- a merged reader is absorbed
    rename_i sts ch hp
    simp at h; obtain ⟨rfl, rfl, rfl⟩ := h
    refine flag_kill m.sh hp hfr hrH (fun y => ?_) c
    rw [mem_Hmid, mem_Hmid]
    simp only [List.mem_cons, List.mem_append, not_or]
    constructor
    · rintro (⟨h1, h2, h3⟩ | h1 | h1)
      · exact .inl ⟨.inl ⟨h1, h3⟩, h2⟩
      · exact .inl ⟨.inr h1, fun e => hrss (e ▸ h1)⟩
      · exact .inr h1
    · rintro (⟨⟨h1, h2⟩ | h1, h3⟩ | h1)
      · exact .inl ⟨h1, h3, h2⟩
      · exact .inr (.inl h1)
      · exact .inr (.inr h1)
  · -- convert: a forwarder
    rename_i src g hp
    simp at h; obtain ⟨rfl, rfl, rfl⟩ := h
    have hnh : ∀ u, NewHolds (.fpipe r .running) u ↔ u = r := by
      intro u
      constructor
      · rintro (⟨c, h, _⟩ | ⟨st, h, _⟩)
        · cases h
        · cases h; rfl
      · rintro rfl; exact .inr ⟨.running, rfl, .inl rfl⟩
    refine closeInv_push_plain m.sh _ c (by simp) (by simp) (by simp)
      (fun u hu => by rw [(hnh u).mp hu]; exact hrH) (fun y hy => ?_) ?_
    · rw [mem_Hmid, mem_Hmid, hnh]
      simp only [List.mem_cons, List.mem_append, List.mem_singleton, List.not_mem_nil, or_false, not_or]
      constructor
      · rintro (⟨h1, h2, h3⟩ | h1 | h1)
        · exact ⟨.inl ⟨h1, h3⟩, h2⟩
        · exact ⟨.inr h1, fun e => hrss (e ▸ h1)⟩
        · omega
      · rintro ⟨⟨h1, h2⟩ | h1, h3⟩
        · exact .inl ⟨h1, h3, h2⟩
        · exact .inr (.inl h1)
    · rw [stat_fwd (src := r) (st := .running) (by rw [push_get]; simp)]
      exact ⟨fun _ => mem_Hmid.mpr (.inr (by simp)), by simp [fwdStat]⟩
  · -- copy child: a forwarder
    rename_i par idx hp
    simp at h; obtain ⟨rfl, rfl, rfl⟩ := h
    have hnh : ∀ u, NewHolds (.fpipe r .running) u ↔ u = r := by
      intro u
      constructor
      · rintro (⟨c, h, _⟩ | ⟨st, h, _⟩)
        · cases h
        · cases h; rfl
      · rintro rfl; exact .inr ⟨.running, rfl, .inl rfl⟩
    refine closeInv_push_plain m.sh _ c (by simp) (by simp) (by simp)
      (fun u hu => by rw [(hnh u).mp hu]; exact hrH) (fun y hy => ?_) ?_
    · rw [mem_Hmid, mem_Hmid, hnh]
      simp only [List.mem_cons, List.mem_append, List.mem_singleton, List.not_mem_nil, or_false, not_or]
      constructor
      · rintro (⟨h1, h2, h3⟩ | h1 | h1)
        · exact ⟨.inl ⟨h1, h3⟩, h2⟩
        · exact ⟨.inr h1, fun e => hrss (e ▸ h1)⟩
        · omega
      · rintro ⟨⟨h1, h2⟩ | h1, h3⟩
        · exact .inl ⟨h1, h3, h2⟩
        · exact .inr (.inl h1)
    · rw [stat_fwd (src := r) (st := .running) (by rw [push_get]; simp)]
      exact ⟨fun _ => mem_Hmid.mpr (.inr (by simp)), by simp [fwdStat]⟩
  · cases h

theorem mfold_both {net0 : Net} : ∀ (rs : List Nat) (n : Net) (ss : List Nat) (arr : List Item) (dn : List Nat)
    {n1 : Net} {ss1 : List Nat} {arr1 : List Item},
    MFold net0 n ss dn → MClose net0 n ss dn → (∀ r ∈ rs, r ∈ net0.readers ∧ r ∉ dn) → rs.Nodup →
    rs.foldlM mstep (n, ss, arr) = some (n1, ss1, arr1) →
    MFold net0 n1 ss1 (rs.reverse ++ dn) ∧ MClose net0 n1 ss1 (rs.reverse ++ dn) := by
  intro rs
  induction rs with
  | nil =>
    intro n ss arr dn n1 ss1 arr1 m c _ _ h
    simp at h; obtain ⟨rfl, rfl, rfl⟩ := h
    exact ⟨m, c⟩
  | cons r rest ih =>
    intro n ss arr dn n1 ss1 arr1 m c hrs hnd h
    simp only [List.foldlM_cons, Option.bind_eq_bind, Option.bind_eq_some_iff] at h
    obtain ⟨⟨n', ss', arr'⟩, h1, h2⟩ := h
    rw [List.nodup_cons] at hnd
    have hr := hrs r (by simp)
    have m' := mstep_inv m hr.1 hr.2 h1
    have c' := mstep_close m c hr.1 hr.2 h1
    have := ih n' ss' arr' (r :: dn) m' c'
      (fun r' hr' => ⟨(hrs r' (by simp [hr'])).1, by
        simp; exact ⟨fun e => hnd.1 (e ▸ hr'), (hrs r' (by simp [hr'])).2⟩⟩) hnd.2 h2
    simpa [List.reverse_cons, List.append_assoc] using this




theorem MClose.pushPipe {net0 n : Net} {ss dn : List Nat} (m : MFold net0 n ss dn) (c : MClose net0 n ss dn)
    (p : Pipe) (hp : p.recvClosed = false) :
    MClose net0 (n.push (.pipe p)).1 (ss ++ [n.nodes.size]) dn := by
  have hn : ∀ u, ¬ NewHolds (.pipe p) u := by rintro u (⟨c, h, _⟩ | ⟨st, h, _⟩) <;> cases h
  refine closeInv_push_plain m.sh _ c (by simp) (by simp) (by simp) (fun u hu => absurd hu (hn u)) (fun y hy => ?_) ?_
  · rw [mem_Hmid, mem_Hmid]
    simp only [List.mem_append, List.mem_singleton, List.mem_cons, List.not_mem_nil, or_false, hn y,
      not_false_eq_true, and_true]
    constructor
    · rintro (h1 | h1 | h1)
      · exact .inl h1
      · exact .inr h1
      · omega
    · rintro (h1 | h1)
      · exact .inl h1
      · exact .inr (.inl h1)
  · rw [stat_pipe (p := p) (by rw [push_get]; simp)]
    simp [hp]
    exact mem_Hmid.mpr (.inr (by simp))

/-- the merged reader that `mkMerge` finally pushes -/
theorem MClose.pushMerge {net0 n : Net} {ss dn : List Nat} (m : MFold net0 n ss dn) (c : MClose net0 n ss dn)
    (H' : List Nat) (hH' : ∀ y, y ∈ H' ↔ (y ∈ net0.readers ∧ y ∉ dn) ∨ y = n.nodes.size) :
    FlagInv (n.push (.merge ss (List.range ss.length))).1 H' ∧
      CellInv (n.push (.merge ss (List.range ss.length))).1 := by
  have e := Ext.push n (.merge ss (List.range ss.length))
  have hx : ∀ u ∈ (Node.merge ss (List.range ss.length)).shp.uses, u < n.nodes.size := by
    intro u hu; exact m.srcLt (by simpa [Node.shp, Shp.uses] using hu)
  refine ⟨flagInv_push m.sh _ c.1 (fun k hk _ => ?_) ?_, cellInv_ext e (fun c' hcs s core => ?_) c.2⟩
  · refine claimed_push_pass m.sh _ hx (fun u => ?_) ?_ ?_ (fun y hy => ?_) ((hH' _).mpr (.inr rfl)) hk
    · rw [pedge_push_new_iff]; simp [Node.shp, Shp.uses]
    · rintro u (⟨c', h, _⟩ | ⟨st, h, _⟩) <;> cases h
    · intro u hu
      exact mem_Hmid.mpr (.inr (by simpa [Node.shp, Shp.uses] using hu))
    · rw [hH', mem_Hmid]
      simp only [Node.shp, Shp.uses]
      constructor
      · rintro (⟨h1, h2⟩ | h1)
        · exact ⟨.inl ⟨h1, h2⟩, fun hm => (m.ssOk y hm).2.2 ⟨h1, h2⟩⟩
        · omega
      · rintro ⟨h1 | h1, h2⟩
        · exact .inl h1
        · exact absurd h1 h2
  · rw [stat_none (by intro nd hnd; rw [push_get] at hnd; simp at hnd; subst hnd; simp)]
    simp
  · by_cases ec : c' = n.nodes.size
    · subst ec; rw [push_get]; simp
    · have : (n.push (Node.merge ss (List.range ss.length))).1.nodes[c']? = none := by
        apply Array.getElem?_eq_none; simp; omega
      rw [this]; simp

theorem applyOp_merge_closeInv {F : Facts} {fuel : Nat} {net net' : Net} {rs : List Nat} {cr : List Nat}
    (i : Inv net) (hc : CloseInv net) (h : applyOp F fuel net (.merge rs) = .ok (net', cr)) : CloseInv net' := by
  simp only [applyOp] at h
  split at h
  · cases h; exact hc
  · split at h
    · cases h
    · rename_i hcnd
      simp only [Bool.or_eq_true, Bool.not_eq_true', not_or, Bool.not_eq_false] at hcnd
      obtain ⟨⟨_, hdist⟩, hall⟩ := hcnd
      have hnd : rs.Nodup := allDistinct_nodup (by simpa using hdist)
      have hin : ∀ r ∈ rs, r ∈ net.readers := by
        intro r hr
        have := List.all_eq_true.mp hall r hr
        simpa using this
      split at h
      · cases h
      · rename_i n2 id hm
        cases h
        rw [mkMerge_eq] at hm
        simp only [Option.bind_eq_some_iff] at hm
        obtain ⟨⟨n1, ss1, arr1⟩, hf, hfin⟩ := hm
        have c0 : MClose net net [] [] := by
          have := closeInvOn_iff.mp hc
          refine ⟨flagInv_mem_congr (fun y => ?_) this.1, this.2⟩
          rw [mem_Hmid]; simp
        obtain ⟨m1, c1⟩ := mfold_both rs net [] [] [] (MFold.init i) c0
          (fun r hr => ⟨hin r hr, by simp⟩) hnd hf
        simp only [List.append_nil] at m1 c1
        have hrd1 := mfold_readers rs net [] [] hf
        have hmemR : ∀ y, y ∈ net.readers.filter (fun r => !rs.contains r) ↔ y ∈ net.readers ∧ y ∉ rs.reverse := by
          intro y; simp
        simp only at hfin
        split at hfin
        · -- only arrays: one array
          rename_i hemp
          simp at hfin; obtain ⟨rfl, rfl⟩ := hfin
          have hss : ss1 = [] := by simp at hemp; exact hemp.1
          subst hss
          have hn : ∀ u, ¬ NewHolds (.arr arr1) u := by rintro u (⟨c, h, _⟩ | ⟨st, h, _⟩) <;> cases h
          refine closeInv_of_nodes (a := (n1.push (.arr arr1)).1)
            (H := Hmid net [] rs.reverse ++ [n1.nodes.size]) rfl ?_ (fun y => ?_)
          · refine closeInv_push_plain m1.sh _ c1 (by simp) (by simp) (by simp)
              (fun u hu => absurd hu (hn u)) (fun y hy => ?_) ?_
            · simp [hn y]; omega
            · rw [stat_none (by intro nd hnd; rw [push_get] at hnd; simp at hnd; subst hnd; simp)]
              simp
          · change y ∈ List.filter _ (n1.push (Node.arr arr1)).1.readers ++ [_] ↔ _
            simp only [push_readers, push_id, hrd1, List.mem_append, hmemR, mem_Hmid, List.mem_singleton,
              List.not_mem_nil, or_false]
        · simp at hfin
          split at hfin
          · obtain ⟨rfl, rfl⟩ := hfin
            refine closeInv_of_nodes (a := (n1.push (.merge ss1 (List.range ss1.length))).1)
              (H := net.readers.filter (fun r => !rs.contains r) ++ [n1.nodes.size]) rfl
              (MClose.pushMerge m1 c1 _ (fun y => by simp [hmemR])) (fun y => ?_)
            change y ∈ List.filter _ (n1.push _).1.readers ++ [_] ↔ _
            simp [hrd1]
          · obtain ⟨rfl, rfl⟩ := hfin
            have m2 := m1.pushPipe ⟨arr1.length, arr1, true, false⟩
            have c2 := MClose.pushPipe m1 c1 ⟨arr1.length, arr1, true, false⟩ rfl
            refine closeInv_of_nodes
              (a := ((n1.push (.pipe ⟨arr1.length, arr1, true, false⟩)).1.push
                (.merge (ss1 ++ [n1.nodes.size]) (List.range (ss1 ++ [n1.nodes.size]).length))).1)
              (H := net.readers.filter (fun r => !rs.contains r) ++ [n1.nodes.size + 1]) (by simp [Net.push])
              ?_ (fun y => ?_)
            · have := MClose.pushMerge m2 c2 (net.readers.filter (fun r => !rs.contains r) ++ [n1.nodes.size + 1])
                (fun y => by simp [hmemR])
              exact this
            · change y ∈ List.filter _ _ ++ [_] ↔ _
              simp [hrd1]


end EinoV.C08
