/-
  C08 — the close invariant is kept by the building operations: sources, convert, copy.
-/
import EinoV.Proofs.C08Tree.CloseBuild2
import EinoV.Proofs.C08Tree.Delivery
set_option linter.unusedVariables false
set_option linter.unusedSimpArgs false
namespace EinoV.C08


/-! ## the close invariant: sources, convert, copy -/

theorem pushAll_get (xs : List Node) : ∀ (net : Net) (k : Nat),
    (pushAll net xs).nodes[k]? = if k < net.nodes.size then net.nodes[k]? else xs[k - net.nodes.size]? := by
  induction xs with
  | nil =>
    intro net k
    simp only [pushAll, List.foldl_nil]
    split
    · rfl
    · rw [Array.getElem?_eq_none (by omega)]; simp
  | cons x rest ih =>
    intro net k
    have := ih (net.push x).1 k
    simp only [pushAll, List.foldl_cons] at this ⊢
    rw [this]
    simp only [push_size]
    by_cases h1 : k < net.nodes.size
    · rw [if_pos (by omega), if_pos h1, push_get_old x h1]
    · by_cases h2 : k = net.nodes.size
      · subst h2; rw [if_pos (by omega), if_neg (by omega), push_get]; simp
      · rw [if_neg (by omega), if_neg h1]
        have : k - net.nodes.size = (k - (net.nodes.size + 1)) + 1 := by omega
        rw [this, List.getElem?_cons_succ]

theorem applyOp_pipe_closeInv {F : Facts} {fuel : Nat} {net net' : Net} {cap : Nat} {cr : List Nat}
    (i : Inv net) (hc : CloseInv net) (h : applyOp F fuel net (.pipe cap) = .ok (net', cr)) : CloseInv net' := by
  simp only [applyOp] at h
  cases h
  refine closeInv_of_nodes (a := (net.push (.pipe (Pipe.new cap))).1) (H := net.readers ++ [net.nodes.size]) rfl ?_ (fun y => Iff.rfl)
  have hn : ∀ u, ¬ NewHolds (.pipe (Pipe.new cap)) u := by rintro u (⟨c, h, _⟩ | ⟨st, h, _⟩) <;> cases h
  refine closeInv_push_plain i.sh _ (closeInvOn_iff.mp hc) (by simp) (by simp) (by simp)
    (fun u hu => absurd hu (hn u)) (fun y hy => ?_) ?_
  · simp [hn y]; omega
  · rw [stat_pipe (p := Pipe.new cap) (by rw [push_get]; simp)]
    simp [Pipe.new]

theorem applyOp_arr_closeInv {F : Facts} {fuel : Nat} {net net' : Net} {items : List Nat} {cr : List Nat}
    (i : Inv net) (hc : CloseInv net) (h : applyOp F fuel net (.arr items) = .ok (net', cr)) : CloseInv net' := by
  simp only [applyOp] at h
  cases h
  refine closeInv_of_nodes (a := (net.push (.arr (items.map fun v => ⟨v, 0⟩))).1) (H := net.readers ++ [net.nodes.size]) rfl ?_ (fun y => Iff.rfl)
  have hn : ∀ u, ¬ NewHolds (.arr (items.map fun v => (⟨v, 0⟩ : Item))) u := by
    rintro u (⟨c, h, _⟩ | ⟨st, h, _⟩) <;> cases h
  refine closeInv_push_plain i.sh _ (closeInvOn_iff.mp hc) (by simp) (by simp) (by simp)
    (fun u hu => absurd hu (hn u)) (fun y hy => ?_) ?_
  · simp [hn y]; omega
  · rw [stat_none (by intro nd hnd; rw [push_get] at hnd; simp at hnd; subst hnd; simp)]
    simp

theorem applyOp_conv_closeInv {F : Facts} {fuel : Nat} {net net' : Net} {r : Nat} {g : ConvSpec} {cr : List Nat}
    (i : Inv net) (hc : CloseInv net) (h : applyOp F fuel net (.conv r g) = .ok (net', cr)) : CloseInv net' := by
  simp only [applyOp] at h
  split at h
  · cases h
  · rename_i hcn
    have hr : r ∈ net.readers := by simpa using hcn
    cases h
    have hc' := closeInvOn_iff.mp hc
    refine closeInv_of_nodes (a := (net.push (.conv r g)).1) (H := net.readers.erase r ++ [net.nodes.size]) rfl ?_ (fun y => Iff.rfl)
    have hx : ∀ u ∈ (Node.conv r g).shp.uses, u < net.nodes.size := by
      intro u hu; simp [Node.shp, Shp.uses] at hu; subst hu; exact i.rd.lt hr
    have e := Ext.push net (.conv r g)
    refine ⟨flagInv_push i.sh _ hc'.1 (fun k hk _ => ?_) ?_, cellInv_ext e (fun c hcs s core => ?_) hc'.2⟩
    · refine claimed_push_pass i.sh _ hx (fun u => ?_) ?_ ?_ (fun y hy => ?_) (by simp) hk
      · rw [pedge_push_new_iff]; simp [Node.shp, Shp.uses]; exact eq_comm
      · rintro u (⟨c, h, _⟩ | ⟨st, h, _⟩) <;> cases h
      · intro u hu; simp [Node.shp, Shp.uses] at hu; subst hu; exact hr
      · simp only [List.mem_append, List.mem_singleton, Node.shp, Shp.uses]
        rw [i.rd.nodup.mem_erase_iff]
        constructor
        · rintro (⟨h1, h2⟩ | h); exact ⟨h2, h1⟩; omega
        · rintro ⟨h1, h2⟩; exact .inl ⟨h2, h1⟩
    · rw [stat_none (by intro nd hnd; rw [push_get] at hnd; simp at hnd; subst hnd; simp)]
      simp
    · by_cases ec : c = net.nodes.size
      · subst ec; rw [push_get]; simp
      · have : (net.push (Node.conv r g)).1.nodes[c]? = none := by apply Array.getElem?_eq_none; simp; omega
        rw [this]; simp



theorem Ext.trans {a b c : Net} (h1 : Ext a b) (h2 : Ext b c) : Ext a c :=
  ⟨Nat.le_trans h1.size h2.size, fun k hk => by rw [h2.old k (by have := h1.size; omega), h1.old k hk]⟩

theorem applyOp_copy_closeInv {F : Facts} {fuel : Nat} {net net' : Net} {r n : Nat} {cr : List Nat}
    (i : Inv net) (hc : CloseInv net) (h : applyOp F fuel net (.copy r n) = .ok (net', cr)) : CloseInv net' := by
  simp only [applyOp] at h
  split at h
  · cases h
  · rename_i hcn
    have hr : r ∈ net.readers := by simpa using hcn
    have hc' := closeInvOn_iff.mp hc
    split at h
    · cases h; exact hc
    · rename_i hn2
      have hn : 2 ≤ n := by omega
      split at h
      · -- array: independent copies
        rename_i rest hnr
        cases h
        rw [pushMany_eq]
        simp only [List.length_replicate]
        refine closeInv_of_nodes (a := pushAll net (List.replicate n (.arr rest)))
          (H := net.readers.erase r ++ List.range' net.nodes.size n) rfl ?_
          (fun y => by rw [pushAll_readers])
        have e := Ext.pushAll net (List.replicate n (.arr rest))
        have hnew : ∀ c, net.nodes.size ≤ c →
            (pushAll net (List.replicate n (.arr rest))).nodes[c]? = none ∨
            (pushAll net (List.replicate n (.arr rest))).nodes[c]? = some (.arr rest) := by
          intro c hc
          rw [pushAll_get, if_neg (by omega)]
          by_cases hlt : c - net.nodes.size < n
          · right; simp [List.getElem?_replicate, hlt]
          · left; simp [List.getElem?_replicate, hlt]
        have hnp : ∀ c, net.nodes.size ≤ c → ∀ u, ¬ PEdge (pushAll net (List.replicate n (.arr rest))) c u := by
          intro c hc u
          rcases hnew c hc with h0 | h0
          · rintro (⟨g, hh⟩ | ⟨sts, ch, hh, _⟩) <;> (rw [h0] at hh; cases hh)
          · exact no_pedge h0 (by simp) (by simp) u
        have hnh : ∀ u, ¬ NewHoldsN net (pushAll net (List.replicate n (.arr rest))) u := by
          rintro u ⟨c, hc, ⟨core, h0, _⟩ | ⟨st, h0, _⟩⟩ <;>
            (rcases hnew c hc with h1 | h1 <;> (rw [h1] at h0; cases h0))
        refine ⟨flagInv_ext (D := [r]) i.sh e hc'.1 (fun k hk hkD => ?_) ?_ (fun c hc => ?_),
          cellInv_ext e (fun c hc s core => ?_) hc'.2⟩
        · refine claimed_ext_nopass (D := [r]) i.sh e hnp (fun u hu => absurd hu (hnh u)) (fun y hy => ?_)
            (fun d hd => ?_) hk hkD
          · simp only [List.mem_append, List.mem_range'_1, List.mem_singleton]
            rw [i.rd.nodup.mem_erase_iff]
            constructor
            · rintro (⟨h1, h2⟩ | h); exact ⟨h2, hnh y, h1⟩; omega
            · rintro ⟨h1, _, h2⟩; exact .inl ⟨h2, h1⟩
          · simp at hd; subst hd; exact no_pedge hnr (by simp) (by simp)
        · intro d hd; simp at hd; subst hd
          exact stat_none (by intro nd hnd; rw [hnr] at hnd; cases hnd; simp)
        · rcases hnew c hc with h0 | h0
          · rw [stat_none_of_get_none h0]; exact ⟨by simp, by simp⟩
          · rw [stat_none (by intro nd hnd; rw [h0] at hnd; cases hnd; simp)]; exact ⟨by simp, by simp⟩
        · rcases hnew c hc with h0 | h0 <;> (rw [h0]; simp)
      · -- the shared cell and its copies
        rename_i nd hnd hnarr
        cases h
        rw [pushMany_eq]
        simp only [List.length_map, List.length_range, push_id, push_size]
        generalize hN : pushAll (net.push (.parent r (CopyCore.new n))).1
          ((List.range n).map fun i => Node.child net.nodes.size i) = N
        refine closeInv_of_nodes (a := N) (H := net.readers.erase r ++ List.range' (net.nodes.size + 1) n) rfl ?_
          (fun y => by rw [← hN, pushAll_readers]; rfl)
        have e : Ext net N := by
          rw [← hN]; exact (Ext.push net _).trans (Ext.pushAll _ _)
        have hsz : N.nodes.size = net.nodes.size + 1 + n := by
          rw [← hN, pushAll_size]; simp
        have hP : N.nodes[net.nodes.size]? = some (.parent r (CopyCore.new n)) := by
          rw [← hN, pushAll_get, if_pos (by simp), push_get]; simp
        have hkid : ∀ j, j < n → N.nodes[net.nodes.size + 1 + j]? = some (.child net.nodes.size j) := by
          intro j hj
          rw [← hN, pushAll_get, if_neg (by simp)]
          simp [hj]
        have hbeyond : ∀ c, net.nodes.size + 1 + n ≤ c → N.nodes[c]? = none := by
          intro c hc; apply Array.getElem?_eq_none; omega
        have hcases : ∀ c, net.nodes.size ≤ c →
            c = net.nodes.size ∨ (∃ j, j < n ∧ c = net.nodes.size + 1 + j) ∨ net.nodes.size + 1 + n ≤ c := by
          intro c hc
          by_cases h1 : c = net.nodes.size
          · exact .inl h1
          · by_cases h2 : c < net.nodes.size + 1 + n
            · exact .inr (.inl ⟨c - (net.nodes.size + 1), by omega, by omega⟩)
            · exact .inr (.inr (by omega))
        have hopen : OpenCursor (CopyCore.new n) := ⟨0, 0, by simp [CopyCore.new, List.getElem?_replicate]; omega⟩
        have hnp : ∀ c, net.nodes.size ≤ c → ∀ u, ¬ PEdge N c u := by
          intro c hc u
          rcases hcases c hc with rfl | ⟨j, hj, rfl⟩ | hge
          · exact no_pedge hP (by simp) (by simp) u
          · exact no_pedge (hkid j hj) (by simp) (by simp) u
          · rintro (⟨g, hh⟩ | ⟨sts, ch, hh, _⟩) <;> (rw [hbeyond c hge] at hh; cases hh)
        have hnh : ∀ u, NewHoldsN net N u ↔ u = r := by
          intro u
          constructor
          · rintro ⟨c, hc, hh⟩
            rcases hcases c hc with rfl | ⟨j, hj, rfl⟩ | hge
            · rw [hP] at hh; simp at hh; obtain ⟨core, ⟨h1, _⟩, _⟩ := hh; exact h1.symm
            · rw [hkid j hj] at hh; simp at hh
            · rw [hbeyond c hge] at hh; simp at hh
          · rintro rfl
            exact ⟨net.nodes.size, Nat.le_refl _, .inl ⟨_, hP, hopen⟩⟩
        refine ⟨flagInv_ext (D := []) i.sh e hc'.1 (fun k hk _ => ?_) (by simp) (fun c hc => ?_), ?_⟩
        · refine claimed_ext_nopass (D := []) i.sh e hnp (fun u hu => by rw [(hnh u).mp hu]; exact hr)
            (fun y hy => ?_) (by simp) hk (by simp)
          simp only [List.mem_append, List.mem_range'_1, hnh, List.not_mem_nil, not_false_eq_true, and_true]
          rw [i.rd.nodup.mem_erase_iff]
          constructor
          · rintro (⟨h1, h2⟩ | h); exact ⟨h2, h1⟩; omega
          · rintro ⟨h1, h2⟩; exact .inl ⟨h2, h1⟩
        · rcases hcases c hc with rfl | ⟨j, hj, rfl⟩ | hge
          · rw [stat_none (by intro nd hnd; rw [hP] at hnd; cases hnd; simp)]; exact ⟨by simp, by simp⟩
          · rw [stat_child (hkid j hj) hP]
            have : (CopyCore.new n).cursors[j]? = some (some 0) := by simp [CopyCore.new, List.getElem?_replicate, hj]
            rw [this]
            refine ⟨fun _ => ?_, by simp [cursorStat]⟩
            simp only [List.mem_append, List.mem_range'_1]
            right; omega
          · rw [stat_none_of_get_none (hbeyond c hge)]; exact ⟨by simp, by simp⟩
        · -- the cells
          have hold : ∀ (P s : Nat) (core : CopyCore), N.nodes[P]? = some (Node.parent s core) →
              (P < net.nodes.size ∧ net.nodes[P]? = some (Node.parent s core)) ∨
              (P = net.nodes.size ∧ s = r ∧ core = CopyCore.new n) := by
            intro P s core hp
            by_cases hlt : P < net.nodes.size
            · left; rw [← e.old P hlt]; exact ⟨hlt, hp⟩
            · right
              rcases hcases P (by omega) with rfl | ⟨j, hj, rfl⟩ | hge
              · rw [hP] at hp; simp at hp; exact ⟨rfl, hp.1.symm, hp.2.symm⟩
              · rw [hkid j hj] at hp; cases hp
              · rw [hbeyond P hge] at hp; cases hp
          refine ⟨fun P s core hp idx hidx => ?_, fun P s core hp => ?_⟩
          · rcases hold P s core hp with ⟨hlt, hp0⟩ | ⟨rfl, rfl, rfl⟩
            · obtain ⟨c, hc0⟩ := hc'.2.1 P s core hp0 idx hidx
              exact ⟨c, by rw [e.old c (get_lt hc0)]; exact hc0⟩
            · simp [CopyCore.new] at hidx
              exact ⟨net.nodes.size + 1 + idx, hkid idx hidx⟩
          · rcases hold P s core hp with ⟨hlt, hp0⟩ | ⟨rfl, rfl, rfl⟩
            · exact hc'.2.2 P s core hp0
            · simp [CopyCore.new, List.count_replicate]
              omega
      · cases h


end EinoV.C08
