/-
  C08 — whole-network delivery: in every network built by the operations of the case language,
  under every schedule, a held reader that reads to `io.EOF` has received exactly a sequence
  its specification `Den` allows (`delivery_core`).
-/
import EinoV.Proofs.C08Tree.Sched
set_option linter.unusedVariables false
set_option linter.unusedSimpArgs false
namespace EinoV.C08


/-! ## the writer side -/

theorem den_setPipe {fut fut' : Nat → List Item} {net : Net} {p : Nat} {x y : Pipe}
    (hx : net.nodes[p]? = some (.pipe x))
    (hrel : (y.buf ++ if y.sendClosed then [] else fut p) = (x.buf ++ if x.sendClosed then [] else fut' p))
    (hoth : ∀ q, q ≠ p → fut q = fut' q) {j : Nat} {l : List Item}
    (hd : Den fut (net.setNode p (.pipe y)) j l) : Den fut' net j l := by
  have hget : ∀ (k : Nat) (nd : Node), (net.setNode p (.pipe y)).nodes[k]? = some nd → (∀ z, nd ≠ .pipe z) →
      net.nodes[k]? = some nd := by
    intro k nd hk hne
    by_cases e : k = p
    · subst e; rw [setNode_get_self hx] at hk; cases hk; exact absurd rfl (hne y)
    · rw [setNode_get_ne _ e] at hk; exact hk
  induction hd with
  | @pipe id q h1 =>
    by_cases e : id = p
    · subst e
      rw [setNode_get_self hx] at h1; cases h1
      rw [hrel]; exact .pipe hx
    · rw [setNode_get_ne _ e] at h1
      rw [hoth id e]; exact .pipe h1
  | arr h1 => exact .arr (hget _ _ h1 (by simp))
  | conv h1 _ ih => exact .conv (hget _ _ h1 (by simp)) ih
  | childOpen h1 h2 h3 h4 _ ih => exact .childOpen (hget _ _ h1 (by simp)) (hget _ _ h2 (by simp)) h3 h4 ih
  | childEof h1 h2 h3 h4 => exact .childEof (hget _ _ h1 (by simp)) (hget _ _ h2 (by simp)) h3 h4
  | merge h1 _ h3 ih => exact .merge (hget _ _ h1 (by simp)) ih h3
  | fwd h1 _ ih => exact .fwd (hget _ _ h1 (by simp)) ih
  | fwdEnded h1 => exact .fwdEnded (hget _ _ h1 (by simp))

theorem Den.of_nodes_eq {fut : Nat → List Item} {a b : Net} (hn : b.nodes = a.nodes) {j : Nat} {l : List Item}
    (hd : Den fut b j l) : Den fut a j l :=
  hd.congr fun k _ => by rw [hn]

/-! ## held readers -/

theorem held_up {net : Net} (i : Inv net) {r j : Nat} (hr : r ∈ net.readers) (hu : Up net j r) : j = r := by
  rcases hu.last with e | ⟨b, _, s, hs, he⟩
  · exact e
  · exfalso
    rcases he with he | he
    · exact i.rd.free r hr b s hs he
    · obtain ⟨t, ht, hk⟩ := i.rd.kind r hr
      cases s with
      | child par idx =>
        simp [Shp.par?] at he
        rw [he] at hs
        obtain ⟨src, n, hp, _⟩ := i.sh.childPar b _ _ hs
        rw [hp] at ht; cases ht; simp [Shp.isReader] at hk
      | _ => simp [Shp.par?] at he

theorem pushAll_readers (xs : List Node) : ∀ (m : Net), (pushAll m xs).readers = m.readers := by
  induction xs with
  | nil => intro m; rfl
  | cons x rest ih => intro m; simp only [pushAll, List.foldl_cons]; exact (ih _).trans rfl

theorem mstep_readers {n n' : Net} {ss ss' : List Nat} {arr arr' : List Item} {r : Nat}
    (h : mstep (n, ss, arr) r = some (n', ss', arr')) : n'.readers = n.readers := by
  unfold mstep at h
  simp only at h
  split at h <;> first | (simp at h; obtain ⟨rfl, _, _⟩ := h; rfl) | cases h

theorem mfold_readers : ∀ (rs : List Nat) (n : Net) (ss : List Nat) (arr : List Item)
    {n1 : Net} {ss1 : List Nat} {arr1 : List Item},
    rs.foldlM mstep (n, ss, arr) = some (n1, ss1, arr1) → n1.readers = n.readers := by
  intro rs
  induction rs with
  | nil => intro n ss arr n1 ss1 arr1 h; simp at h; obtain ⟨rfl, _, _⟩ := h; rfl
  | cons r rest ih =>
    intro n ss arr n1 ss1 arr1 h
    simp only [List.foldlM_cons, Option.bind_eq_bind, Option.bind_eq_some_iff] at h
    obtain ⟨⟨n', ss', arr'⟩, h1, h2⟩ := h
    exact (ih n' ss' arr' h2).trans (mstep_readers h1)

/-- a reader that is held later was held all along (new readers get new identifiers) -/
theorem Step.readers_back {F : Facts} {fuel : Nat} {net net' : Net} {op : Op}
    (h : Step F fuel net op net') (i : Inv net) :
    net.nodes.size ≤ net'.nodes.size ∧ ∀ r, r ∈ net'.readers → r < net.nodes.size → r ∈ net.readers := by
  cases h with
  | recv hr hrecv =>
    exact ⟨by rw [hrecv.sameShape.1.1]; exact Nat.le_refl _, fun r hr' _ => by rw [hrecv.sameShape.2] at hr'; exact hr'⟩
  | @other _ _ cr h1 ha =>
    cases op with
    | pipe cap =>
      simp only [applyOp] at ha; cases ha
      refine ⟨by simp, fun r hr' hlt => ?_⟩
      simp at hr'; rcases hr' with h | h
      · exact h
      · omega
    | arr items =>
      simp only [applyOp] at ha; cases ha
      refine ⟨by simp, fun r hr' hlt => ?_⟩
      simp at hr'; rcases hr' with h | h
      · exact h
      · omega
    | conv r0 g =>
      simp only [applyOp] at ha
      split at ha
      · cases ha
      · cases ha
        refine ⟨by simp, fun r hr' hlt => ?_⟩
        simp at hr'; rcases hr' with h | h
        · exact List.mem_of_mem_erase h
        · omega
    | copy r0 n =>
      simp only [applyOp] at ha
      split at ha
      · cases ha
      · split at ha
        · cases ha; exact ⟨Nat.le_refl _, fun r hr' _ => hr'⟩
        · split at ha
          · cases ha
            rw [pushMany_eq]
            refine ⟨by simp [pushAll_size], fun r hr' hlt => ?_⟩
            simp only [List.mem_append, List.mem_range'_1] at hr'
            rcases hr' with h | h
            · rw [pushAll_readers] at h; exact List.mem_of_mem_erase h
            · omega
          · cases ha
            rw [pushMany_eq]
            refine ⟨by simp [pushAll_size]; omega, fun r hr' hlt => ?_⟩
            simp only [List.mem_append, List.mem_range'_1, push_id, push_size] at hr'
            rcases hr' with h | h
            · rw [pushAll_readers] at h
              exact List.mem_of_mem_erase h
            · omega
          · cases ha
    | merge rs =>
      simp only [applyOp] at ha
      split at ha
      · cases ha; exact ⟨Nat.le_refl _, fun r hr' _ => hr'⟩
      · split at ha
        · cases ha
        · split at ha
          · cases ha
          · rename_i n2 id hm
            cases ha
            rw [mkMerge_eq] at hm
            simp only [Option.bind_eq_some_iff] at hm
            obtain ⟨⟨n1, ss1, arr1⟩, hf, hfin⟩ := hm
            obtain ⟨hsz, _⟩ := mfold_old rs net [] [] hf
            have hrd1 := mfold_readers rs net [] [] hf
            have hn2 : n2.readers = net.readers ∧ id ≥ n1.nodes.size ∧ n1.nodes.size ≤ n2.nodes.size := by
              simp only at hfin
              split at hfin
              · simp at hfin; obtain ⟨rfl, rfl⟩ := hfin
                exact ⟨by simp [hrd1], by simp, by simp⟩
              · simp at hfin
                split at hfin
                · obtain ⟨rfl, rfl⟩ := hfin
                  exact ⟨by simp [hrd1], by simp, by simp⟩
                · obtain ⟨rfl, rfl⟩ := hfin
                  exact ⟨by simp [hrd1], by simp, by simp; omega⟩
            refine ⟨by change net.nodes.size ≤ n2.nodes.size; omega, fun r hr' hlt => ?_⟩
            change r ∈ (List.filter _ n2.readers ++ [id]) at hr'
            simp only [List.mem_append, List.mem_filter, List.mem_singleton] at hr'
            rcases hr' with h | h
            · rw [hn2.1] at h; exact h.1
            · omega
    | send p it oc =>
      rcases applyOp_send_cases ha with ⟨_, x, hx, _, rfl⟩ | ⟨_, l⟩
      · exact ⟨by simp, fun r hr' _ => hr'⟩
      · exact ⟨by rw [l.size]; exact Nat.le_refl _, fun r hr' _ => by rw [l.readers] at hr'; exact hr'⟩
    | feed p its =>
      obtain ⟨x, hx, _, rfl⟩ := applyOp_feed_cases ha
      exact ⟨by simp, fun r hr' _ => hr'⟩
    | closeSend p =>
      obtain ⟨x, hx, _, rfl⟩ := applyOp_closeSend_cases ha
      exact ⟨by simp, fun r hr' _ => hr'⟩
    | recv r obs => simp [Op.isRecv] at h1
    | close r0 =>
      obtain ⟨_, n1, hc, rfl⟩ := applyOp_close_cases ha
      have l := (closeAll_spec F fuel _ _ _ hc).1
      refine ⟨by change net.nodes.size ≤ n1.nodes.size; rw [l.size]; exact Nat.le_refl _, fun r hr' _ => ?_⟩
      change r ∈ n1.readers.erase r0 at hr'
      rw [l.readers] at hr'; exact List.mem_of_mem_erase hr'



theorem Behaves.readers_back {F : Facts} {fuel : Nat} (g : GoodFacts F) {net net' : Net} {ops : List Op}
    (h : Behaves F fuel net ops net') (i : Inv net) :
    net.nodes.size ≤ net'.nodes.size ∧ ∀ r, r ∈ net'.readers → r < net.nodes.size → r ∈ net.readers := by
  induction h with
  | nil => exact ⟨Nat.le_refl _, fun r hr _ => hr⟩
  | cons hs _ ih =>
    obtain ⟨s1, b1⟩ := hs.readers_back i
    obtain ⟨s2, b2⟩ := ih (hs.inv g i)
    exact ⟨by omega, fun r hr hlt => b1 r (b2 r hr (by omega)) hlt⟩

theorem Behaves.append_inv {F : Facts} {fuel : Nat} {net net' : Net} {ops : List Op} {op : Op}
    (h : Behaves F fuel net (ops ++ [op]) net') : ∃ n, Behaves F fuel net ops n ∧ Step F fuel n op net' := by
  induction ops generalizing net with
  | nil =>
    cases h with
    | cons hs hr => cases hr; exact ⟨net, .nil _, hs⟩
  | cons o rest ih =>
    cases h with
    | cons hs hr =>
      obtain ⟨n, hb, hst⟩ := ih hr
      exact ⟨n, .cons hs hb, hst⟩

theorem Behaves.append {F : Facts} {fuel : Nat} {a b c : Net} {o1 o2 : List Op}
    (h1 : Behaves F fuel a o1 b) (h2 : Behaves F fuel b o2 c) : Behaves F fuel a (o1 ++ o2) c := by
  induction h1 with
  | nil => exact h2
  | cons hs _ ih => exact .cons hs (ih h2)

theorem accBy_cons (op : Op) (ops : List Op) : accBy (op :: ops) = fun p => Op.acc p op ++ accBy ops p := by
  funext p; simp [accBy]

theorem gotBy_cons (r : Nat) (op : Op) (ops : List Op) : gotBy r (op :: ops) = Op.got r op ++ gotBy r ops := by
  simp [gotBy]

theorem accBy_append (o1 o2 : List Op) (p : Nat) : accBy (o1 ++ o2) p = accBy o1 p ++ accBy o2 p := by
  simp [accBy]

theorem accBy_of_acc_nil {op : Op} {ops : List Op} (h : ∀ p, Op.acc p op = []) : accBy (op :: ops) = accBy ops := by
  rw [accBy_cons]; funext p; simp [h]

theorem got_recv_self (r : Nat) (obs : Res) : Op.got r (.recv r obs) = obs.items := by
  cases obs <;> simp [Op.got, Res.items]

theorem got_recv_ne {r r' : Nat} (h : r' ≠ r) (obs : Res) : Op.got r (.recv r' obs) = [] := by
  cases obs <;> simp [Op.got, h]

/-- **whole-network delivery.**  Backward induction over the schedule. -/
theorem delivery_core {F : Facts} {fuel : Nat} (g : GoodFacts F) :
    ∀ (ops : List Op) (net net' : Net) (r : Nat), Inv net → r ∈ net.readers →
      Behaves F fuel net (ops ++ [.recv r .eof]) net' → Den (accBy ops) net r (gotBy r ops) := by
  intro ops
  induction ops with
  | nil =>
    intro net net' r i hr h
    cases h with
    | cons hs hrest =>
      cases hs with
      | recv _ hrecv => exact (hrecv.den (fut := accBy []) g.copy' i.sh i.st).1 rfl
      | other h1 _ => simp [Op.isRecv] at h1
  | cons op ops ih =>
    intro net net' r i hr h
    cases h with
    | cons hstep hrest =>
      rename_i n1
      have i1 := hstep.inv g i
      obtain ⟨nk, hb, hlast⟩ := hrest.append_inv
      have hrk : r ∈ nk.readers := by
        cases hlast with
        | recv h _ => exact h
        | other h1 _ => simp [Op.isRecv] at h1
      have hr1 : r ∈ n1.readers :=
        (hb.readers_back g i1).2 r hrk (by have := (hstep.readers_back i).1; have := i.rd.lt hr; omega)
      have IH := ih n1 net' r i1 hr1 hrest
      rw [gotBy_cons]
      cases hstep with
      | @recv _ r' obs tr hr' hrecv =>
        rw [accBy_of_acc_nil (by intro p; rfl)]
        have D := hrecv.den (fut := accBy ops) g.copy' i.sh i.st
        obtain ⟨ht, hts⟩ := hrecv.trace i.sh
        by_cases e : r' = r
        · subst e
          rw [got_recv_self, ← hts]
          exact D.2 r' _ (.inl rfl) IH
        · rw [got_recv_ne e]
          have hn : ¬ Up net r r' := fun hu => e (held_up i hr' hu).symm
          have := D.2 r _ (.inr hn) IH
          rwa [ofSrc_nil_of (fun ev hev heq => e (held_up i hr (by rw [← heq]; exact ht ev hev)))] at this
      | @other _ _ cr h1 ha =>
        cases op with
        | pipe cap =>
          rw [accBy_of_acc_nil (by intro p; rfl)]
          exact den_build i rfl ha hr hr1 IH
        | arr items =>
          rw [accBy_of_acc_nil (by intro p; rfl)]
          exact den_build i rfl ha hr hr1 IH
        | conv r0 g0 =>
          rw [accBy_of_acc_nil (by intro p; rfl)]
          exact den_build i rfl ha hr hr1 IH
        | copy r0 n =>
          rw [accBy_of_acc_nil (by intro p; rfl)]
          exact den_build i rfl ha hr hr1 IH
        | merge rs =>
          rw [accBy_of_acc_nil (by intro p; rfl)]
          exact den_build i rfl ha hr hr1 IH
        | send p it oc =>
          simp only [Op.got, List.nil_append]
          rcases applyOp_send_cases ha with ⟨rfl, x, hx, hs, rfl⟩ | ⟨rfl, l⟩
          · refine den_setPipe (fut := accBy ops) hx ?_ ?_ IH
            · rw [accBy_cons]; simp [hs, Op.acc]
            · intro q hq; rw [accBy_cons]; simp [Op.acc, Ne.symm hq]
          · rw [accBy_of_acc_nil (by intro p; rfl)]
            exact l.den IH
        | feed p its =>
          obtain ⟨x, hx, hs, rfl⟩ := applyOp_feed_cases ha
          simp only [Op.got, List.nil_append]
          refine den_setPipe (fut := accBy ops) hx ?_ ?_ IH
          · rw [accBy_cons]; simp [hs, Op.acc]
          · intro q hq; rw [accBy_cons]; simp [Op.acc, Ne.symm hq]
        | closeSend p =>
          obtain ⟨x, hx, hs, rfl⟩ := applyOp_closeSend_cases ha
          rw [accBy_of_acc_nil (by intro p; rfl)]
          simp only [Op.got, List.nil_append]
          have hz : accBy ops p = [] := by
            have := accBy_closed g hrest i1 (setNode_get_self hx _) rfl
            rw [show ops.append [Op.recv r Res.eof] = ops ++ [Op.recv r Res.eof] from rfl, accBy_append] at this
            exact (List.append_eq_nil_iff.mp this).1
          refine den_setPipe (fut := accBy ops) hx ?_ (fun _ _ => rfl) IH
          simp [hs, hz]
        | recv r0 obs => simp [Op.isRecv] at h1
        | close r0 =>
          obtain ⟨_, n1', hc, rfl⟩ := applyOp_close_cases ha
          rw [accBy_of_acc_nil (by intro p; rfl)]
          simp only [Op.got, List.nil_append]
          exact (closeAll_spec F fuel _ _ _ hc).1.den (IH.congr fun k _ => rfl)


end EinoV.C08
