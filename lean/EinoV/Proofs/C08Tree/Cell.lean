/-
  C08 — interleavings (`Inter`) and the effect of a change of a shared `Copy` cell on the
  specified sequences of the other copies (`parent_change`).
-/
import EinoV.Proofs.C08Tree.RecvBasic
set_option linter.unusedVariables false
namespace EinoV.C08

/-! ## interleavings -/

@[simp] theorem upd_same (f : Nat → List Item) (s : Nat) (v : List Item) : upd f s v s = v := by simp [upd]
theorem upd_ne (f : Nat → List Item) {s t : Nat} (v : List Item) (h : t ≠ s) : upd f s v t = f t := by simp [upd, h]
theorem upd_upd (f : Nat → List Item) (s : Nat) (a b : List Item) : upd (upd f s a) s b = upd f s b := by
  funext t; by_cases h : t = s <;> simp [upd, h]
theorem upd_comm (f : Nat → List Item) {s t : Nat} (a b : List Item) (h : s ≠ t) :
    upd (upd f s a) t b = upd (upd f t b) s a := by
  funext u
  by_cases h1 : u = s
  · subst h1; simp [upd, h]
  · by_cases h2 : u = t
    · subst h2; simp [upd, h1]
    · simp [upd, h1, h2]
theorem upd_self (f : Nat → List Item) (s : Nat) : upd f s (f s) = f := by
  funext t; by_cases h : t = s <;> simp [upd, h]

theorem Inter.push {S : List Nat} {ls : Nat → List Item} {l : List Item} {s : Nat} (x : Item)
    (hs : s ∈ S) (h : Inter S ls l) : Inter S (upd ls s (x :: ls s)) (x :: l) := by
  refine .cons hs (upd_same _ _ _) ?_
  rw [upd_upd, upd_self]; exact h

theorem Inter.add_empty {S : List Nat} {ls : Nat → List Item} {l : List Item} {sb : Nat}
    (hnd : sb ∉ S.erase sb) (h : Inter (S.erase sb) ls l) : Inter S (upd ls sb []) l := by
  induction h with
  | @nil ls h0 =>
    refine .nil fun s hs => ?_
    by_cases e : s = sb
    · subst e; simp
    · rw [upd_ne _ _ e]; exact h0 s ((List.mem_erase_of_ne e).mpr hs)
  | @cons ls s x rest l hs hl _ ih =>
    have hne : s ≠ sb := by rintro rfl; exact hnd hs
    refine .cons (List.mem_of_mem_erase hs) (by rw [upd_ne _ _ hne]; exact hl) ?_
    rw [upd_comm _ _ _ (Ne.symm hne)]; exact ih

theorem Inter.congr {S : List Nat} {ls ls' : Nat → List Item} {l : List Item}
    (h : Inter S ls l) (he : ∀ s ∈ S, ls' s = ls s) : Inter S ls' l := by
  induction h generalizing ls' with
  | nil h0 => exact .nil fun s hs => (he s hs).trans (h0 s hs)
  | @cons ls s x rest l hs hl _ ih =>
    refine .cons hs ((he s hs).trans hl) (ih fun t ht => ?_)
    by_cases e : t = s
    · subst e; simp
    · rw [upd_ne _ _ e, upd_ne _ _ e]; exact he t ht

theorem Inter.empty (S : List Nat) : Inter S (fun _ => []) [] := .nil fun _ _ => rfl



/-! ## a change of a shared cell, seen from the other copies -/

theorem below_cell {net : Net} (i : ShInv net) {par src j u : Nat} {core : CopyCore} {s : Shp}
    (hp : net.nodes[par]? = some (.parent src core)) (hup : Up net j par) (hj : j ≠ par)
    (hs : net.shp? j = some s) (hu : u ∈ s.uses) : ¬ Up net src u := by
  intro h
  have hlt := i.lt _ _ (edge_parent hp)
  have hle := hup.le i
  by_cases e : src = u
  · subst e
    exact hj (i.lin j par s _ src hs (shp?_some hp) hu (by simp [Node.shp, Shp.uses]))
  · have := (h.chain i e hs hu).le i
    omega

theorem edge_of_child {net : Net} {j par idx b : Nat} (hj : net.nodes[j]? = some (.child par idx))
    (he : Edge net j b) : b = par := by
  obtain ⟨s, hs, h⟩ := he
  rw [shp?_some hj] at hs
  cases hs
  rcases h with h | h
  · simp [Node.shp, Shp.uses] at h
  · simpa [Node.shp, Shp.par?] using h.symm

theorem below_cell_child {net : Net} (i : ShInv net) {par src j par2 idx2 src2 : Nat} {core core2 : CopyCore}
    (hp : net.nodes[par]? = some (.parent src core)) (hup : Up net j par)
    (hj : net.nodes[j]? = some (.child par2 idx2)) (hp2 : net.nodes[par2]? = some (.parent src2 core2))
    (hne : par2 ≠ par) : Up net par2 par ∧ ¬ Up net src src2 := by
  have h2 : Up net par2 par := by
    rcases hup.first with e | ⟨b, he, hb⟩
    · subst e; rw [hp] at hj; cases hj
    · rw [edge_of_child hj he] at hb; exact hb
  exact ⟨h2, below_cell i hp h2 hne (shp?_some hp2) (by simp [Node.shp, Shp.uses])⟩

theorem parent_change {fut : Nat → List Item} {net n1 : Net} {par src idx cid : Nat} {core c' : CopyCore}
    {pre : Nat → List Item}
    (hsh : ShInv net)
    (hok : ∀ (i k : Nat), core.cursors[i]? = some (some k) → k ≤ core.log.length)
    (hcid : net.nodes[cid]? = some (.child par idx))
    (hp : net.nodes[par]? = some (.parent src core))
    (hfoot : ∀ k, ¬ Up net src k → n1.nodes[k]? = net.nodes[k]?)
    (hss : SameShape net n1)
    (H1 : ∀ j l, (j = src ∨ ¬ Up net j src) → Den fut n1 j l → Den fut net j (pre j ++ l))
    (hpre : ∀ j, ¬ Up net src j → pre j = [])
    (hcur : ∀ i : Nat, i ≠ idx → c'.cursors[i]? = core.cursors[i]?)
    (hcase : (c'.log = core.log ++ pre src ∧ c'.eofSeen = core.eofSeen ∧ (core.eofSeen = true → pre src = [])) ∨
             (c'.log = core.log ∧ pre src = [] ∧ c'.eofSeen = true ∧ core.eofSeen = false ∧ Den fut net src []))
    {j : Nat} {l : List Item}
    (hd : Den fut (n1.setNode par (.parent src c')) j l) (hnc : ¬ Up net j cid) :
    Den fut net j (pre j ++ l) := by
  have hlt := hsh.lt _ _ (edge_parent hp)
  have hp1 : n1.nodes[par]? = some (.parent src core) := by
    rw [hfoot par (up_parent_not hsh hp)]; exact hp
  have getN : ∀ k, k ≠ par → (n1.setNode par (.parent src c')).nodes[k]? = n1.nodes[k]? :=
    fun k hk => setNode_get_ne _ hk
  have getNpar : (n1.setNode par (.parent src c')).nodes[par]? = some (.parent src c') := setNode_get_self hp1 _
  have notUpSrc : ∀ j, Up net j par → ¬ Up net src j := by
    intro j h1 h2
    have := h1.le hsh; have := h2.le hsh; omega
  have nodeEq : ∀ j, Up net j par → j ≠ par → (n1.setNode par (.parent src c')).nodes[j]? = net.nodes[j]? := by
    intro j h1 h2
    rw [getN j h2, hfoot j (notUpSrc j h1)]
  have offpar : ∀ j l, Den fut (n1.setNode par (.parent src c')) j l → ¬ Up net j par →
      Den fut net j (pre j ++ l) := by
    intro j l hd hup
    have hd1 : Den fut n1 j l := by
      refine hd.congr fun k hk => getN k ?_
      rintro rfl; exact hup (hss.up.mp hk)
    refine H1 j l ?_ hd1
    by_cases e : j = src
    · exact .inl e
    · right; intro hu
      exact hup (hu.chain hsh e (shp?_some hp) (by simp [Node.shp, Shp.uses]))
  induction hd with
  | @pipe id p h1 =>
    by_cases hup : Up net id par
    · have hne : id ≠ par := by rintro rfl; rw [getNpar] at h1; cases h1
      rw [nodeEq id hup hne] at h1
      rw [hpre id (notUpSrc id hup)]; exact .pipe h1
    · exact offpar _ _ (.pipe h1) hup
  | @arr id rest h1 =>
    by_cases hup : Up net id par
    · have hne : id ≠ par := by rintro rfl; rw [getNpar] at h1; cases h1
      rw [nodeEq id hup hne] at h1
      rw [hpre id (notUpSrc id hup)]; exact .arr h1
    · exact offpar _ _ (.arr h1) hup
  | @conv id s g l' h1 h2 ih =>
    by_cases hup : Up net id par
    · have hne : id ≠ par := by rintro rfl; rw [getNpar] at h1; cases h1
      have h1' := h1; rw [nodeEq id hup hne] at h1'
      have e := edge_conv h1'
      have hs0 : pre s = [] :=
        hpre s (below_cell hsh hp hup hne (shp?_some h1') (by simp [Node.shp, Shp.uses]))
      have := ih (fun hu => hnc (.step e hu))
      rw [hs0] at this
      rw [hpre id (notUpSrc id hup)]; exact .conv h1' this
    · exact offpar _ _ (.conv h1 h2) hup
  | @childOpen id par2 idx2 src2 k core2 l' h1 h2 h3 h4 h5 ih =>
    by_cases hup : Up net id par
    · have hne : id ≠ par := by rintro rfl; rw [getNpar] at h1; cases h1
      have h1' := h1; rw [nodeEq id hup hne] at h1'
      have e := edge_child h1'
      rw [hpre id (notUpSrc id hup)]
      by_cases hpar : par2 = par
      · subst hpar
        rw [getNpar] at h2; cases h2
        have hidx : idx2 ≠ idx := by
          rintro rfl
          have := hsh.childUniq id cid par2 idx2 (shp?_some h1') (shp?_some hcid)
          subst this; exact hnc (.refl _)
        have hcursor : core.cursors[idx2]? = some (some k) := by rw [← hcur idx2 hidx]; exact h3
        have hk := hok idx2 k hcursor
        have ihs := ih (fun hu => by have := hu.le hsh; have := hsh.lt _ _ (edge_child hcid); omega)
        rcases hcase with ⟨hl, he, _⟩ | ⟨_, _, he, _, _⟩
        · rw [hl, List.drop_append_of_le_length hk, List.nil_append, List.append_assoc]
          exact .childOpen h1' hp hcursor (he ▸ h4) ihs
        · rw [he] at h4; cases h4
      · have h2' : net.nodes[par2]? = some (.parent src2 core2) := by
          rw [getN par2 hpar] at h2
          obtain ⟨nd, hnd, hs⟩ := shp?_eq_some ((hss.2 par2).symm.trans (shp?_some h2))
          cases nd <;> simp [Node.shp] at hs
          obtain ⟨rfl, _⟩ := hs
          have := (below_cell_child hsh hp hup h1' hnd hpar).1
          rw [hfoot par2 (notUpSrc par2 this)] at h2; exact h2
        have hb := below_cell_child hsh hp hup h1' h2' hpar
        have := ih (fun hu => hnc (.step e (.step (edge_parent h2') hu)))
        rw [hpre src2 hb.2] at this
        exact .childOpen h1' h2' h3 h4 this
    · exact offpar _ _ (.childOpen h1 h2 h3 h4 h5) hup
  | @childEof id par2 idx2 src2 k core2 h1 h2 h3 h4 =>
    by_cases hup : Up net id par
    · have hne : id ≠ par := by rintro rfl; rw [getNpar] at h1; cases h1
      have h1' := h1; rw [nodeEq id hup hne] at h1'
      rw [hpre id (notUpSrc id hup)]
      by_cases hpar : par2 = par
      · subst hpar
        rw [getNpar] at h2; cases h2
        have hidx : idx2 ≠ idx := by
          rintro rfl
          have := hsh.childUniq id cid par2 idx2 (shp?_some h1') (shp?_some hcid)
          subst this; exact hnc (.refl _)
        have hcursor : core.cursors[idx2]? = some (some k) := by rw [← hcur idx2 hidx]; exact h3
        rcases hcase with ⟨hl, he, hz⟩ | ⟨hl, _, _, he, hden⟩
        · rw [hl, hz (he ▸ h4), List.append_nil]
          exact .childEof h1' hp hcursor (he ▸ h4)
        · rw [hl]
          have := Den.childOpen h1' hp hcursor he hden
          simpa using this
      · have h2' : net.nodes[par2]? = some (.parent src2 core2) := by
          rw [getN par2 hpar] at h2
          obtain ⟨nd, hnd, hs⟩ := shp?_eq_some ((hss.2 par2).symm.trans (shp?_some h2))
          cases nd <;> simp [Node.shp] at hs
          obtain ⟨rfl, _⟩ := hs
          have := (below_cell_child hsh hp hup h1' hnd hpar).1
          rw [hfoot par2 (notUpSrc par2 this)] at h2; exact h2
        exact .childEof h1' h2' h3 h4
    · exact offpar _ _ (.childEof h1 h2 h3 h4) hup
  | @merge id sts chosen ls l' h1 h2 h3 ih =>
    by_cases hup : Up net id par
    · have hne : id ≠ par := by rintro rfl; rw [getNpar] at h1; cases h1
      have h1' := h1; rw [nodeEq id hup hne] at h1'
      rw [hpre id (notUpSrc id hup)]
      refine .merge h1' (fun sb sid hsb hsid => ?_) h3
      have hm := List.mem_of_getElem? hsid
      have := ih sb sid hsb hsid (fun hu => hnc (.step (edge_merge h1' hm) hu))
      rw [hpre sid (below_cell hsh hp hup hne (shp?_some h1') (by simpa [Node.shp, Shp.uses] using hm))] at this
      exact this
    · exact offpar _ _ (.merge h1 h2 h3) hup
  | @fwd id s l' h1 h2 ih =>
    by_cases hup : Up net id par
    · have hne : id ≠ par := by rintro rfl; rw [getNpar] at h1; cases h1
      have h1' := h1; rw [nodeEq id hup hne] at h1'
      have e := edge_fwd h1'
      have hs0 : pre s = [] :=
        hpre s (below_cell hsh hp hup hne (shp?_some h1') (by simp [Node.shp, Shp.uses]))
      have := ih (fun hu => hnc (.step e hu))
      rw [hs0] at this
      rw [hpre id (notUpSrc id hup)]; exact .fwd h1' this
    · exact offpar _ _ (.fwd h1 h2) hup
  | @fwdEnded id s h1 =>
    by_cases hup : Up net id par
    · have hne : id ≠ par := by rintro rfl; rw [getNpar] at h1; cases h1
      rw [nodeEq id hup hne] at h1
      rw [hpre id (notUpSrc id hup)]; exact .fwdEnded h1
    · exact offpar _ _ (.fwdEnded h1) hup

end EinoV.C08
