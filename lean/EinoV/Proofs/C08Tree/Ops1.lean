/-
  C08 — every operation of the case language keeps the network well formed (`Inv`), part 1:
  sources, convert, and the operations that build nothing.
-/
import EinoV.Proofs.C08Tree.Build
set_option linter.unusedVariables false
namespace EinoV.C08


theorem sameShape_with (net : Net) (R W : List Nat) : SameShape net { net with readers := R, writers := W } :=
  ⟨rfl, fun _ => rfl⟩

theorem StInv.with {net : Net} (h : StInv net) (R W : List Nat) : StInv { net with readers := R, writers := W } :=
  ⟨h.cursorLe, h.chosenLt, h.chosenNodup⟩

theorem RdInv.free' {net : Net} (h : RdInv net) {r : Nat} (hr : r ∈ net.readers) : Free net r :=
  fun j s hj => h.free r hr j s hj

theorem RdInv.lt {net : Net} (h : RdInv net) {r : Nat} (hr : r ∈ net.readers) : r < net.nodes.size := by
  obtain ⟨t, ht, _⟩ := h.kind r hr; exact shp?_lt ht

/-- pushing one reader that consumes some of the held readers -/
theorem Inv.push_new {net : Net} (i : Inv net) (x : Node) (hr : x.shp.isReader = true)
    (huse : ∀ u ∈ x.shp.uses, u ∈ net.readers) (hpar : x.shp.par? = none)
    (htyp : Typed net x.shp) (hnd : x.shp.uses.Nodup) (hok : NodeOK x)
    (R W : List Nat) (hR : R.Nodup)
    (hmem : ∀ r ∈ R, r = net.nodes.size ∨ (r ∈ net.readers ∧ r ∉ x.shp.uses)) :
    Inv { (net.push x).1 with readers := R, writers := W } := by
  have hlt : ∀ u, (u ∈ x.shp.uses ∨ x.shp.par? = some u) → u < net.nodes.size := by
    intro u hu
    rcases hu with hu | hu
    · exact i.rd.lt (huse u hu)
    · rw [hpar] at hu; cases hu
  have sh : ShInv (net.push x).1 := i.sh.push x hlt htyp (fun u hu => i.rd.free' (huse u hu)) hnd
    (by intro par idx e; rw [e] at hpar; simp [Shp.par?] at hpar)
  refine ⟨(sameShape_with _ R W).shInv sh, ?_, (i.st.push hok).with R W⟩
  constructor
  · intro r hr' j s hj
    change (net.push x).1.shp? j = some s at hj
    rcases hmem r hr' with rfl | ⟨h1, h2⟩
    · exact free_new i.sh x (fun u hu => hlt u (.inl hu)) j s hj
    · exact (i.rd.free' h1).push x h2 j s hj
  · intro r hr'
    change ∃ t, (net.push x).1.shp? r = some t ∧ _
    rcases hmem r hr' with rfl | ⟨h1, h2⟩
    · exact ⟨x.shp, by rw [push_shp?]; simp, hr⟩
    · obtain ⟨t, ht, hk⟩ := i.rd.kind r h1
      exact ⟨t, push_shp?_old x ht, hk⟩
  · exact hR

theorem nodup_append_new {l : List Nat} {n : Nat} (h : l.Nodup) (hn : n ∉ l) : (l ++ [n]).Nodup := by
  rw [List.nodup_append]
  refine ⟨h, by simp, ?_⟩
  intro a ha b hb
  simp at hb; subst hb
  rintro rfl; exact hn ha

theorem applyOp_pipe_inv {F : Facts} {fuel : Nat} {net net' : Net} {cap : Nat} {cr : List Nat}
    (i : Inv net) (h : applyOp F fuel net (.pipe cap) = .ok (net', cr)) : Inv net' := by
  simp only [applyOp] at h
  cases h
  refine i.push_new (.pipe (Pipe.new cap)) rfl (by simp [Node.shp, Shp.uses]) rfl trivial
    (by simp [Node.shp, Shp.uses]) trivial _ _ ?_ ?_
  · exact nodup_append_new i.rd.nodup (fun hm => by have := i.rd.lt hm; simp at this)
  · intro r hr
    simp at hr
    rcases hr with hr | hr
    · exact .inr ⟨hr, by simp [Node.shp, Shp.uses]⟩
    · exact .inl hr

theorem applyOp_arr_inv {F : Facts} {fuel : Nat} {net net' : Net} {items : List Nat} {cr : List Nat}
    (i : Inv net) (h : applyOp F fuel net (.arr items) = .ok (net', cr)) : Inv net' := by
  simp only [applyOp] at h
  cases h
  refine i.push_new (.arr _) rfl (by simp [Node.shp, Shp.uses]) rfl trivial
    (by simp [Node.shp, Shp.uses]) trivial _ _ ?_ ?_
  · exact nodup_append_new i.rd.nodup (fun hm => by have := i.rd.lt hm; simp at this)
  · intro r hr
    simp at hr
    rcases hr with hr | hr
    · exact .inr ⟨hr, by simp [Node.shp, Shp.uses]⟩
    · exact .inl hr

theorem applyOp_conv_inv {F : Facts} {fuel : Nat} {net net' : Net} {r : Nat} {g : ConvSpec} {cr : List Nat}
    (i : Inv net) (h : applyOp F fuel net (.conv r g) = .ok (net', cr)) : Inv net' := by
  simp only [applyOp] at h
  split at h
  · cases h
  · rename_i hc
    have hr : r ∈ net.readers := by simpa using hc
    cases h
    refine i.push_new (.conv r g) rfl (by simpa [Node.shp, Shp.uses] using hr) rfl
      (by obtain ⟨t, ht, hk⟩ := i.rd.kind r hr; exact ⟨t, ht, hk⟩)
      (by simp [Node.shp, Shp.uses]) trivial _ _ ?_ ?_
    · refine nodup_append_new (i.rd.nodup.erase r) (fun hm => ?_)
      have := i.rd.lt (List.mem_of_mem_erase hm); simp at this
    · intro r' hr'
      simp at hr'
      rcases hr' with hr' | hr'
      · have := (i.rd.nodup.mem_erase_iff).mp hr'
        exact .inr ⟨this.2, by simpa [Node.shp, Shp.uses] using this.1⟩
      · exact .inl hr'



/-! ## the operations that build nothing -/

theorem getPipe_some {net : Net} {p : Nat} {x : Pipe} (h : getPipe net p = some x) :
    net.nodes[p]? = some (.pipe x) := by
  unfold getPipe at h
  split at h
  · rename_i y hy; cases h; exact hy
  · cases h

theorem resolveOne_closeLE {F : Facts} {fuel : Nat} {net net' : Net} {f : Nat}
    (h : resolveOne F fuel net f = some net') : CloseLE net net' := by
  unfold resolveOne at h
  split at h
  · rename_i src hf
    have l1 : CloseLE net (net.setNode f (.fpipe src .stopped)) :=
      CloseLE.setNode hf (.fpipe (by simp) (by simp))
    simp only at h
    split at h
    · exact l1.trans (closeAll_spec F fuel _ _ _ h).1
    · cases h; exact l1
  · cases h; exact .refl _

theorem resolveFold_closeLE {F : Facts} {fuel : Nat} {ps : List Nat} {net net' : Net}
    (h : ps.foldlM (resolveOne F fuel) net = some net') : CloseLE net net' := by
  induction ps generalizing net with
  | nil => simp at h; subst h; exact .refl _
  | cons f rest ih =>
    simp only [List.foldlM_cons, Option.bind_eq_bind, Option.bind_eq_some_iff] at h
    obtain ⟨n1, h1, h2⟩ := h
    exact (resolveOne_closeLE h1).trans (ih h2)

theorem resolveReaching_closeLE {F : Facts} {fuel : Nat} (r : Nat) : ∀ {net net' : Net} {p : Nat},
    resolveReaching F fuel r net p = some net' → CloseLE net net' := by
  induction r with
  | zero => intro net net' p h; simp [resolveReaching] at h; subst h; exact .refl _
  | succ r ih =>
    intro net net' p h
    unfold resolveReaching at h
    split at h
    · cases h; exact .refl _
    · split at h
      · cases h; exact .refl _
      · simp only at h
        split at h
        · cases h; exact .refl _
        · split at h
          · cases h
          · rename_i n1 hf
            exact (resolveFold_closeLE hf).trans (ih h)

theorem Pipe.send_false {x x' : Pipe} {it : Item} (h : x.send it = some (x', false)) :
    x' = { x with buf := x.buf ++ [it] } := by
  unfold Pipe.send at h
  split at h
  · cases h
  · split at h
    · simp at h
    · split at h
      · simp at h; exact h.symm
      · cases h

/-- what a `Send` does to the network -/
theorem applyOp_send_cases {F : Facts} {fuel : Nat} {net net' : Net} {p : Nat} {it : Item} {oc : Bool}
    {cr : List Nat} (h : applyOp F fuel net (.send p it oc) = .ok (net', cr)) :
    (oc = false ∧ ∃ x, net.nodes[p]? = some (.pipe x) ∧ x.sendClosed = false ∧
        net' = net.setNode p (.pipe { x with buf := x.buf ++ [it] })) ∨
    (oc = true ∧ CloseLE net net') := by
  simp only [applyOp] at h
  split at h
  · cases h
  · split at h
    · cases h
    · rename_i x hx
      have hx' := getPipe_some hx
      split at h
      · cases h
      · rename_i hsc
        have hsc' : x.sendClosed = false := by simpa using hsc
        split at h
        · cases h; exact .inr ⟨rfl, .refl _⟩
        · cases h
        · rename_i x' hs
          cases h
          exact .inl ⟨rfl, x, hx', hsc', by rw [Pipe.send_false hs]⟩
        · split at h
          · cases h; exact .inl ⟨rfl, x, hx', hsc', rfl⟩
          · cases h
        · split at h
          · cases h
          · rename_i n1 hr
            split at h
            · split at h
              · cases h; exact .inr ⟨rfl, resolveReaching_closeLE _ hr⟩
              · cases h
            · cases h

theorem applyOp_feed_cases {F : Facts} {fuel : Nat} {net net' : Net} {p : Nat} {its : List Item} {cr : List Nat}
    (h : applyOp F fuel net (.feed p its) = .ok (net', cr)) :
    ∃ x, net.nodes[p]? = some (.pipe x) ∧ x.sendClosed = false ∧
      net' = net.setNode p (.pipe { x with buf := x.buf ++ its }) := by
  simp only [applyOp] at h
  split at h
  · cases h
  · rename_i x hx
    split at h
    · cases h
    · rename_i hs
      cases h
      exact ⟨x, getPipe_some hx, by simpa using hs, rfl⟩

theorem applyOp_closeSend_cases {F : Facts} {fuel : Nat} {net net' : Net} {p : Nat} {cr : List Nat}
    (h : applyOp F fuel net (.closeSend p) = .ok (net', cr)) :
    ∃ x, net.nodes[p]? = some (.pipe x) ∧ x.sendClosed = false ∧
      net' = net.setNode p (.pipe { x with sendClosed := true }) := by
  simp only [applyOp] at h
  split at h
  · cases h
  · split at h
    · cases h
    · rename_i x' hb
      cases h
      simp only [Option.bind_eq_some_iff] at hb
      obtain ⟨x, hx, hc⟩ := hb
      unfold Pipe.closeSend at hc
      split at hc
      · cases hc
      · rename_i hsc
        cases hc
        exact ⟨x, getPipe_some hx, by simpa using hsc, rfl⟩

theorem applyOp_close_cases {F : Facts} {fuel : Nat} {net net' : Net} {r : Nat} {cr : List Nat}
    (h : applyOp F fuel net (.close r) = .ok (net', cr)) :
    r ∈ net.readers ∧ ∃ n1, closeAll F fuel net r = some n1 ∧
      net' = { n1 with readers := n1.readers.erase r } := by
  simp only [applyOp] at h
  split at h
  · cases h
  · rename_i hc
    split at h
    · cases h
    · rename_i n1 hcl
      cases h
      exact ⟨by simpa using hc, n1, hcl, rfl⟩

theorem Inv.ofSameShape {net net' : Net} (i : Inv net) (hs : SameShape net net')
    (hr : net'.readers = net.readers) (hst : StInv net') : Inv net' :=
  ⟨hs.shInv i.sh, hs.rdInv hr i.rd, hst⟩

theorem Inv.setPipe {net : Net} (i : Inv net) {p : Nat} {x : Pipe} (hx : net.nodes[p]? = some (.pipe x))
    (y : Pipe) : Inv (net.setNode p (.pipe y)) :=
  i.ofSameShape (setNode_sameShape hx rfl) rfl (i.st.setNode (by trivial) _)

theorem Inv.closeLE {net net' : Net} (i : Inv net) (l : CloseLE net net') : Inv net' :=
  i.ofSameShape l.sameShape l.readers (l.stInv i.st)

theorem Inv.eraseReader {net : Net} (i : Inv net) (r : Nat) (W : List Nat) :
    Inv { net with readers := net.readers.erase r, writers := W } := by
  refine ⟨(sameShape_with net _ W).shInv i.sh, ?_, ⟨i.st.cursorLe, i.st.chosenLt, i.st.chosenNodup⟩⟩
  constructor
  · intro r' hr' j s hj; exact i.rd.free r' (List.mem_of_mem_erase hr') j s hj
  · intro r' hr'; exact i.rd.kind r' (List.mem_of_mem_erase hr')
  · exact i.rd.nodup.erase r


end EinoV.C08
