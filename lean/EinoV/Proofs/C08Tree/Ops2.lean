/-
  C08 — every operation keeps the network well formed, part 2: `Copy`.
-/
import EinoV.Proofs.C08Tree.Ops1
set_option linter.unusedVariables false
namespace EinoV.C08


/-! ## `Copy` -/

def pushAll (net : Net) (xs : List Node) : Net := xs.foldl (fun n x => (n.push x).1) net

theorem pushAll_append (net : Net) (xs : List Node) (x : Node) :
    pushAll net (xs ++ [x]) = ((pushAll net xs).push x).1 := by
  simp [pushAll, List.foldl_append]

theorem pushAll_size (net : Net) (xs : List Node) : (pushAll net xs).nodes.size = net.nodes.size + xs.length := by
  induction xs generalizing net with
  | nil => simp [pushAll]
  | cons x rest ih =>
    have := ih (net.push x).1
    simp only [pushAll, List.foldl_cons] at this ⊢
    rw [this]; simp; omega

theorem pushMany_gen (xs : List Node) : ∀ (net : Net) (ids : List Nat),
    xs.foldl (fun (acc : Net × List Nat) x => let r := acc.1.push x; (r.1, acc.2 ++ [r.2])) (net, ids) =
      (pushAll net xs, ids ++ List.range' net.nodes.size xs.length) := by
  induction xs with
  | nil => intro net ids; simp [pushAll]
  | cons x rest ih =>
    intro net ids
    simp only [List.foldl_cons]
    rw [ih]
    simp [pushAll, List.range'_succ]

theorem pushMany_eq (net : Net) (xs : List Node) :
    pushMany net xs = (pushAll net xs, List.range' net.nodes.size xs.length) := by
  unfold pushMany
  rw [pushMany_gen]; simp

theorem pushLeaves {net : Net} (sh : ShInv net) (st : StInv net) (n : Nat) (f : Nat → Node)
    (huse : ∀ i < n, (f i).shp.uses = []) (hok : ∀ i < n, NodeOK (f i))
    (htyp : ∀ i < n, Typed net (f i).shp)
    (hpar : ∀ i < n, ∀ q, (f i).shp.par? = some q → q < net.nodes.size)
    (hch : ∀ i < n, ∀ par idx, (f i).shp = .child par idx →
      (∀ j, net.shp? j ≠ some (.child par idx)) ∧ ∀ i' < n, (f i').shp = .child par idx → i' = i) :
    ∀ m, m ≤ n →
      ShInv (pushAll net ((List.range m).map f)) ∧ StInv (pushAll net ((List.range m).map f)) ∧
      (pushAll net ((List.range m).map f)).nodes.size = net.nodes.size + m ∧
      (pushAll net ((List.range m).map f)).readers = net.readers ∧
      (∀ k, k < net.nodes.size → (pushAll net ((List.range m).map f)).nodes[k]? = net.nodes[k]?) ∧
      (∀ i, i < m → (pushAll net ((List.range m).map f)).nodes[net.nodes.size + i]? = some (f i)) := by
  intro m
  induction m with
  | zero => intro _; simp [pushAll]; exact ⟨sh, st⟩
  | succ m ih =>
    intro hm
    obtain ⟨sh', st', hsz, hrd, hold, hnew⟩ := ih (by omega)
    rw [List.range_succ, List.map_append, List.map_singleton, pushAll_append]
    have hshp_old : ∀ k, k < net.nodes.size → (pushAll net ((List.range m).map f)).shp? k = net.shp? k := by
      intro k hk; unfold Net.shp?; rw [hold k hk]
    refine ⟨?_, st'.push (hok m (by omega)), by simp [hsz]; omega, by simp [hrd], ?_, ?_⟩
    · refine sh'.push (f m) ?_ ?_ ?_ ?_ ?_
      · intro u hu
        rcases hu with hu | hu
        · rw [huse m (by omega)] at hu; simp at hu
        · have := hpar m (by omega) u hu; omega
      · refine (htyp m (by omega)).mono fun k hk => hshp_old k ?_
        rcases hk with hk | hk
        · rw [huse m (by omega)] at hk; simp at hk
        · exact hpar m (by omega) k hk
      · intro u hu; rw [huse m (by omega)] at hu; simp at hu
      · rw [huse m (by omega)]; simp
      · intro par idx he j hj
        obtain ⟨h1, h2⟩ := hch m (by omega) par idx he
        by_cases hk : j < net.nodes.size
        · rw [hshp_old j hk] at hj; exact h1 j hj
        · have hlt := shp?_lt hj
          rw [hsz] at hlt
          have hj' := hnew (j - net.nodes.size) (by omega)
          have e : net.nodes.size + (j - net.nodes.size) = j := by omega
          rw [e] at hj'
          rw [shp?_some hj'] at hj
          have := h2 (j - net.nodes.size) (by omega) (by simpa using hj)
          omega
    · intro k hk
      rw [push_get_old _ (by rw [hsz]; omega)]; exact hold k hk
    · intro i hi
      by_cases e : i = m
      · subst e; rw [push_get]; simp [hsz]
      · rw [push_get_old _ (by rw [hsz]; omega)]; exact hnew i (by omega)



@[simp] theorem shp?_mk (ns : Array Node) (R W : List Nat) (j : Nat) :
    Net.shp? ⟨ns, R, W⟩ j = (ns[j]?).map Node.shp := rfl

theorem replicate_eq_map_range (n : Nat) (x : Node) : List.replicate n x = (List.range n).map (fun _ => x) := by
  induction n with
  | zero => rfl
  | succ n ih => rw [List.replicate_succ', List.range_succ, List.map_append, ih]; rfl

/-- the readers after a batch of leaf readers was pushed -/
theorem rdInv_afterLeaves {base N : Net} (sh : ShInv base) {n : Nat} {f : Nat → Node} {R0 W : List Nat}
    (hsz : N.nodes.size = base.nodes.size + n)
    (hold : ∀ k, k < base.nodes.size → N.nodes[k]? = base.nodes[k]?)
    (hnew : ∀ i, i < n → N.nodes[base.nodes.size + i]? = some (f i))
    (huse : ∀ i < n, (f i).shp.uses = []) (hreader : ∀ i < n, (f i).shp.isReader = true)
    (hR0 : R0.Nodup)
    (hfree : ∀ r' ∈ R0, Free base r' ∧ ∃ t, base.shp? r' = some t ∧ t.isReader = true) :
    RdInv { N with readers := R0 ++ List.range' base.nodes.size n, writers := W } := by
  have hshp : ∀ j s, N.shp? j = some s →
      (j < base.nodes.size ∧ base.shp? j = some s) ∨ (∃ i, i < n ∧ j = base.nodes.size + i ∧ s = (f i).shp) := by
    intro j s hj
    by_cases hk : j < base.nodes.size
    · left; refine ⟨hk, ?_⟩; unfold Net.shp? at hj ⊢; rw [← hold j hk]; exact hj
    · right
      have hlt := shp?_lt hj
      rw [hsz] at hlt
      refine ⟨j - base.nodes.size, by omega, by omega, ?_⟩
      have := hnew (j - base.nodes.size) (by omega)
      have e : base.nodes.size + (j - base.nodes.size) = j := by omega
      rw [e] at this
      rw [shp?_some this] at hj; cases hj; rfl
  constructor
  · intro r hr j s hj
    change N.shp? j = some s at hj
    simp only [List.mem_append, List.mem_range'_1] at hr
    rcases hshp j s hj with ⟨hk, hb⟩ | ⟨i, hi, rfl, rfl⟩
    · rcases hr with hr | hr
      · exact (hfree r hr).1 j s hb
      · intro hu
        have := sh.lt j r ⟨s, hb, .inl hu⟩
        omega
    · rw [huse i hi]; simp
  · intro r hr
    change ∃ t, N.shp? r = some t ∧ _
    simp only [List.mem_append, List.mem_range'_1] at hr
    rcases hr with hr | hr
    · obtain ⟨t, ht, hk⟩ := (hfree r hr).2
      refine ⟨t, ?_, hk⟩
      unfold Net.shp? at ht ⊢; rw [hold r (shp?_lt ht)]; exact ht
    · have := hnew (r - base.nodes.size) (by omega)
      have e : base.nodes.size + (r - base.nodes.size) = r := by omega
      rw [e] at this
      exact ⟨_, shp?_some this, hreader _ (by omega)⟩
  · change (R0 ++ List.range' base.nodes.size n).Nodup
    rw [List.nodup_append]
    refine ⟨hR0, List.nodup_range', ?_⟩
    intro a ha b hb
    simp only [List.mem_range'_1] at hb
    obtain ⟨t, ht, _⟩ := (hfree a ha).2
    have := shp?_lt ht
    omega

theorem applyOp_copy_inv {F : Facts} {fuel : Nat} {net net' : Net} {r n : Nat} {cr : List Nat}
    (i : Inv net) (h : applyOp F fuel net (.copy r n) = .ok (net', cr)) : Inv net' := by
  simp only [applyOp] at h
  split at h
  · cases h
  · rename_i hc
    have hr : r ∈ net.readers := by simpa using hc
    split at h
    · cases h; exact i
    · have hfree0 : ∀ r' ∈ net.readers.erase r, Free net r' ∧ ∃ t, net.shp? r' = some t ∧ t.isReader = true :=
        fun r' hr' => ⟨i.rd.free' (List.mem_of_mem_erase hr'), i.rd.kind r' (List.mem_of_mem_erase hr')⟩
      split at h
      · -- array: independent copies
        rename_i rest hn
        cases h
        rw [pushMany_eq, replicate_eq_map_range]
        obtain ⟨sh', st', hsz, hrd, hold, hnew⟩ :=
          pushLeaves i.sh i.st n (fun _ => .arr rest) (fun _ _ => rfl) (fun _ _ => trivial) (fun _ _ => trivial)
            (fun _ _ q hq => by simp [Node.shp, Shp.par?] at hq)
            (fun _ _ par idx he => by simp [Node.shp] at he) n (Nat.le_refl _)
        simp only [List.length_map, List.length_range]
        refine ⟨(sameShape_with _ _ _).shInv sh', ?_, st'.with _ _⟩
        rw [hrd]
        exact rdInv_afterLeaves i.sh hsz hold hnew (fun _ _ => rfl) (fun _ _ => rfl) (i.rd.nodup.erase r) hfree0
      · -- the shared cell and its children
        rename_i nd hnd _
        cases h
        rw [pushMany_eq]
        have hp := net.nodes.size
        obtain ⟨t, ht, hk⟩ := i.rd.kind r hr
        have shP : ShInv (net.push (.parent r (CopyCore.new n))).1 := by
          refine i.sh.push _ ?_ ⟨t, ht, hk⟩ ?_ (by simp [Node.shp, Shp.uses]) (by intro par idx e; simp [Node.shp] at e)
          · intro u hu
            simp [Node.shp, Shp.uses, Shp.par?] at hu
            subst hu; exact shp?_lt ht
          · intro u hu
            simp [Node.shp, Shp.uses] at hu
            subst hu; exact i.rd.free' hr
        have stP : StInv (net.push (.parent r (CopyCore.new n))).1 := by
          refine i.st.push ?_
          intro i' k hk
          simp [CopyCore.new] at hk ⊢
          rcases List.getElem?_eq_some_iff.mp hk with ⟨_, h2⟩
          simp at h2; omega
        have hPshp : (net.push (.parent r (CopyCore.new n))).1.shp? net.nodes.size = some (.parent r n) := by
          rw [push_shp?]; simp [Node.shp, CopyCore.new]
        obtain ⟨sh', st', hsz, hrd, hold, hnew⟩ :=
          pushLeaves shP stP n (fun i => .child net.nodes.size i) (fun _ _ => rfl) (fun _ _ => trivial)
            (fun i hi => ⟨r, n, hPshp, hi⟩)
            (fun _ _ q hq => by simp [Node.shp, Shp.par?] at hq; subst hq; simp)
            (fun i hi par idx he => by
              simp [Node.shp] at he
              obtain ⟨rfl, rfl⟩ := he
              refine ⟨fun j hj => ?_, fun i' _ he' => by simpa [Node.shp] using he'⟩
              have := shP.lt j net.nodes.size ⟨_, hj, .inr rfl⟩
              have := shp?_lt hj
              simp at this; omega) n (Nat.le_refl _)
        simp only [List.length_map, List.length_range, push_id]
        refine ⟨(sameShape_with _ _ _).shInv sh', ?_, st'.with _ _⟩
        rw [hrd]
        simp only [push_readers]
        have := rdInv_afterLeaves (base := (net.push (.parent r (CopyCore.new n))).1) (W := net.writers)
          shP hsz hold hnew (fun _ _ => rfl) (fun _ _ => rfl) (i.rd.nodup.erase r) (fun r' hr' => by
            have hne : r' ≠ r := ((i.rd.nodup.mem_erase_iff).mp hr').1
            obtain ⟨hf, t', ht', hk'⟩ := hfree0 r' hr'
            exact ⟨hf.push _ (by simpa [Node.shp, Shp.uses] using hne), t', push_shp?_old _ ht', hk'⟩)
        exact ⟨by simpa using this.free, by simpa using this.kind, by simpa using this.nodup⟩
      · cases h


end EinoV.C08
