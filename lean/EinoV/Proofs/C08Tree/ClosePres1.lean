/-
  C08 — the close invariant is kept by updates that change no closed flag, by a forwarding
  goroutine that exits, and (below) by every `Recv`.
-/
import EinoV.Proofs.C08Tree.Release2
set_option linter.unusedVariables false
set_option linter.unusedSimpArgs false
namespace EinoV.C08


/-! ## updates that change no closed flag -/

inductive SameStat : Node → Node → Prop where
  | refl (x : Node) : SameStat x x
  | pipe {p q : Pipe} : q.recvClosed = p.recvClosed → SameStat (.pipe p) (.pipe q)
  | arr {a b : List Item} : SameStat (.arr a) (.arr b)
  | merge {sts ch ch' : List Nat} : SameStat (.merge sts ch) (.merge sts ch')
  | parent {s : Nat} {c c' : CopyCore} : c'.cursors.length = c.cursors.length →
      (∀ i : Nat, cursorStat c'.cursors[i]? = cursorStat c.cursors[i]?) →
      c'.closedNum = c.closedNum → c'.srcClosed = c.srcClosed →
      c'.cursors.count none = c.cursors.count none → SameStat (.parent s c) (.parent s c')

theorem SameStat.shp {x y : Node} (h : SameStat x y) : y.shp = x.shp := by
  cases h <;> simp_all [Node.shp]

theorem cursorStat_open_iff (v : Option (Option Nat)) : cursorStat v = .open ↔ ∃ k, v = some (some k) := by
  cases v with
  | none => simp [cursorStat]
  | some w => cases w <;> simp [cursorStat]

theorem openCursor_stat (c : CopyCore) : OpenCursor c ↔ ∃ i : Nat, cursorStat c.cursors[i]? = .open := by
  unfold OpenCursor
  constructor
  · rintro ⟨i, k, h⟩; exact ⟨i, (cursorStat_open_iff _).mpr ⟨k, h⟩⟩
  · rintro ⟨i, h⟩; obtain ⟨k, hk⟩ := (cursorStat_open_iff _).mp h; exact ⟨i, k, hk⟩

theorem SameStat.open {s : Nat} {c c' : CopyCore} (h : SameStat (.parent s c) (.parent s c')) :
    OpenCursor c' ↔ OpenCursor c := by
  cases h with
  | refl => exact Iff.rfl
  | parent _ hst _ _ _ =>
    rw [openCursor_stat, openCursor_stat]
    constructor
    · rintro ⟨i, hi⟩; exact ⟨i, by rw [← hst i]; exact hi⟩
    · rintro ⟨i, hi⟩; exact ⟨i, by rw [hst i]; exact hi⟩

theorem rootClaimed_set_stat {net : Net} {H : List Nat} {i : Nat} {x y : Node}
    (hx : net.nodes[i]? = some x) (hs : SameStat x y) (u : Nat) :
    RootClaimed (net.setNode i y) H u ↔ RootClaimed net H u := by
  cases hs with
  | refl => rw [setNode_self hx]
  | pipe _ => exact rootClaimed_set_plain hx rfl rfl u
  | arr => exact rootClaimed_set_plain hx rfl rfl u
  | merge => exact rootClaimed_set_plain hx rfl rfl u
  | parent h1 h2 h3 h4 h5 =>
    exact rootClaimed_set_parent hx (SameStat.open (s := 0) (.parent h1 h2 h3 h4 h5)) u

theorem stat_set_stat {net : Net} (sh : ShInv net) {i : Nat} {x y : Node}
    (hx : net.nodes[i]? = some x) (hs : SameStat x y) (k : Nat) :
    stat (net.setNode i y) k = stat net k := by
  cases hs with
  | refl => rw [setNode_self hx]
  | @pipe p q hpq =>
    by_cases e : k = i
    · subst e; rw [stat_pipe (setNode_get_self hx _), stat_pipe hx, hpq]
    · exact stat_congr (setNode_get_ne _ e) (fun P idx hc => setNode_get_ne _ (not_child_of sh hc hx (by simp)))
  | arr =>
    by_cases e : k = i
    · subst e
      rw [stat_none (by intro nd hnd; rw [setNode_get_self hx] at hnd; cases hnd; simp),
          stat_none (by intro nd hnd; rw [hx] at hnd; cases hnd; simp)]
    · exact stat_congr (setNode_get_ne _ e) (fun P idx hc => setNode_get_ne _ (not_child_of sh hc hx (by simp)))
  | merge =>
    by_cases e : k = i
    · subst e
      rw [stat_none (by intro nd hnd; rw [setNode_get_self hx] at hnd; cases hnd; simp),
          stat_none (by intro nd hnd; rw [hx] at hnd; cases hnd; simp)]
    · exact stat_congr (setNode_get_ne _ e) (fun P idx hc => setNode_get_ne _ (not_child_of sh hc hx (by simp)))
  | @parent s c c' h1 h2 h3 h4 h5 =>
    by_cases e : k = i
    · subst e
      rw [stat_none (by intro nd hnd; rw [setNode_get_self hx] at hnd; cases hnd; simp),
          stat_none (by intro nd hnd; rw [hx] at hnd; cases hnd; simp)]
    · cases hkn : net.nodes[k]? with
      | none => exact stat_congr (setNode_get_ne _ e) (fun P idx hc => by rw [hkn] at hc; cases hc)
      | some knd =>
        cases knd with
        | child P idx =>
          by_cases hP : P = i
          · subst hP
            rw [stat_child (by rw [setNode_get_ne _ e]; exact hkn) (setNode_get_self hx _), stat_child hkn hx, h2]
          · exact stat_congr (setNode_get_ne _ e) (fun P' idx' hc => by
              rw [hkn] at hc; cases hc; exact setNode_get_ne _ hP)
        | _ => exact stat_congr (setNode_get_ne _ e) (fun P idx hc => by rw [hkn] at hc; cases hc)

theorem closeInvOn_set_stat {net : Net} {H : List Nat} {S : Nat → Prop} (sh : ShInv net) {i : Nat} {x y : Node}
    (hx : net.nodes[i]? = some x) (hs : SameStat x y) (h : CloseInvOn net H S) :
    CloseInvOn (net.setNode i y) H S := by
  have hss : SameShape net (net.setNode i y) := setNode_sameShape hx hs.shp
  have hcl := claimed_congr (H := H) (H' := H) hss (rootClaimed_set_stat hx hs)
  refine ⟨fun k hk => ?_, ?_, ?_⟩
  · rw [stat_set_stat sh hx hs k, hcl k]; exact h.flag k hk
  · intro P src core hp idx hidx
    have hold : ∃ c0, net.nodes[P]? = some (.parent src c0) ∧ c0.cursors.length = core.cursors.length := by
      by_cases e : P = i
      · subst e
        rw [setNode_get_self hx] at hp; cases hp
        cases hs with
        | refl => exact ⟨core, hx, rfl⟩
        | parent h1 _ _ _ _ => exact ⟨_, hx, h1.symm⟩
      · rw [setNode_get_ne _ e] at hp; exact ⟨core, hp, rfl⟩
    obtain ⟨c0, hp0, hl0⟩ := hold
    obtain ⟨c, hc⟩ := h.cellKids P src c0 hp0 idx (by omega)
    refine ⟨c, ?_⟩
    by_cases e : c = i
    · subst e
      rw [hx] at hc; cases hc
      cases hs
      exact setNode_get_self hx _
    · rw [setNode_get_ne _ e]; exact hc
  · intro P src core hp
    by_cases e : P = i
    · subst e
      rw [setNode_get_self hx] at hp; cases hp
      cases hs with
      | refl => exact h.cellCount P src core hx
      | parent h1 h2 h3 h4 h5 =>
        have := h.cellCount P src _ hx
        rw [h3, h4, h5, h1]; exact this
    · rw [setNode_get_ne _ e] at hp; exact h.cellCount P src core hp

/-! ## more fuel does not change the result of `Close` -/

theorem closeAll_fuel_succ (F : Facts) : ∀ (cf : Nat) (net : Net) (j : Nat) (n' : Net),
    closeAll F cf net j = some n' → closeAll F (cf + 1) net j = some n' := by
  intro cf
  induction cf with
  | zero => intro net j n' h; simp [closeAll] at h
  | succ cf ih =>
    intro net j n' h
    cases hn : net.nodes[j]? with
    | none => simp [closeAll, hn] at h
    | some nd =>
      cases nd with
      | conv src g =>
        simp only [closeAll, hn] at h ⊢
        exact ih net src n' h
      | child P idx =>
        cases hp : net.nodes[P]? with
        | none => simp [closeAll, hn, hp] at h
        | some pn =>
          cases pn with
          | parent src core =>
            rw [closeAll_child_eq F cf net j P idx src core hn hp] at h
            rw [closeAll_child_eq F (cf + 1) net j P idx src core hn hp]
            split at h
            · rename_i hc; rw [if_pos hc]; exact ih _ src n' h
            · rename_i hc; rw [if_neg hc]; exact h
          | _ => simp [closeAll, hn, hp] at h
      | pipe p => simp only [closeAll, hn] at h ⊢; exact h
      | arr r => simp only [closeAll, hn] at h ⊢; exact h
      | merge sts ch =>
        rw [closeAll_merge_eq F cf net j sts ch hn] at h
        rw [closeAll_merge_eq F (cf + 1) net j sts ch hn]; exact h
      | _ => simp [closeAll, hn] at h

theorem closeAll_fuel_mono (F : Facts) {cf cf' : Nat} {net : Net} {j : Nat} {n' : Net}
    (h : closeAll F cf net j = some n') (hle : cf ≤ cf') : closeAll F cf' net j = some n' := by
  induction hle with
  | refl => exact h
  | step _ ih => exact closeAll_fuel_succ F _ net j n' ih

/-- `Close` of a released node, whatever fuel it was run with: the result satisfies the invariant -/
theorem release_of_some {F : Facts} (g : GoodFacts F) {cf : Nat} {net n' : Net} {H : List Nat} {j : Nat}
    (i : ShInv net) (hH : ∀ r ∈ H, Free net r) (h : RelHyp net H j)
    (hk : ∃ t, net.shp? j = some t ∧ t.isReader = true) (hc : closeAll F cf net j = some n') :
    CloseInvOn n' H (fun _ => True) := by
  obtain ⟨net', hc', hinv⟩ := release g (max cf (j + 1)) net H j i hH (by omega) h hk
  have := closeAll_fuel_mono F hc (Nat.le_max_left cf (j + 1))
  rw [this] at hc'; cases hc'; exact hinv



/-! ## a forwarding goroutine exits -/

theorem relHyp_fwd_exit {net : Net} {H : List Nat} {f src : Nat} {st st' : FwdSt}
    (i : ShInv net) (hH : ∀ r ∈ H, Free net r) (hinv : CloseInvOn net H (fun _ => True))
    (hf : net.nodes[f]? = some (.fpipe src st))
    (hs : (st = .running ∧ st' = .ended) ∨ (st = .pending ∧ st' = .stopped)) :
    RelHyp (net.setNode f (.fpipe src st')) H src := by
  have hss : SameShape net (net.setNode f (.fpipe src st')) := setNode_sameShape hf rfl
  have hlt := i.lt f src (edge_fwd hf)
  have hf1 : (net.setNode f (.fpipe src st')).nodes[f]? = some (.fpipe src st') := setNode_get_self hf _
  have hsrcU : src ∈ (Node.fpipe src st).shp.uses := by simp [Node.shp, Shp.uses]
  have hclaimed : st = .running ∨ st = .pending := by rcases hs with ⟨h, _⟩ | ⟨h, _⟩ <;> simp [h]
  have hexit : st' = .ended ∨ st' = .stopped := by rcases hs with ⟨_, h⟩ | ⟨_, h⟩ <;> simp [h]
  have hmono : ∀ u, RootClaimed (net.setNode f (.fpipe src st')) H u → RootClaimed net H u := by
    rintro u (h | ⟨P, c, hp, ho⟩ | ⟨f', s2, hf', hs2⟩)
    · exact .inl h
    · have e : P ≠ f := by rintro rfl; rw [hf1] at hp; cases hp
      rw [setNode_get_ne _ e] at hp; exact .inr (.inl ⟨P, c, hp, ho⟩)
    · by_cases e : f' = f
      · subst e; rw [hf1] at hf'; cases hf'
        exact .inr (.inr ⟨f', st, hf, hclaimed⟩)
      · rw [setNode_get_ne _ e] at hf'; exact .inr (.inr ⟨f', s2, hf', hs2⟩)
  have hother : ∀ u, u ≠ src → RootClaimed net H u → RootClaimed (net.setNode f (.fpipe src st')) H u := by
    rintro u hu (h | ⟨P, c, hp, ho⟩ | ⟨f', s2, hf', hs2⟩)
    · exact .inl h
    · have e : P ≠ f := by rintro rfl; rw [hf] at hp; cases hp
      exact .inr (.inl ⟨P, c, by rw [setNode_get_ne _ e]; exact hp, ho⟩)
    · have e : f' ≠ f := by rintro rfl; rw [hf] at hf'; cases hf'; exact hu rfl
      exact .inr (.inr ⟨f', s2, by rw [setNode_get_ne _ e]; exact hf', hs2⟩)
  have hcl_to : ∀ k, Claimed (net.setNode f (.fpipe src st')) H k → Claimed net H k := by
    rintro k ⟨j', hu, hc⟩; exact ⟨j', hss.upP.mp hu, hmono j' hc⟩
  have hcl_from : ∀ k, ¬ UpP net src k → Claimed net H k → Claimed (net.setNode f (.fpipe src st')) H k := by
    rintro k hk ⟨j', hu, hc⟩
    refine ⟨j', hss.upP.mpr hu, hother j' ?_ hc⟩
    rintro rfl; exact hk hu
  have hstat : ∀ k, k ≠ f → stat (net.setNode f (.fpipe src st')) k = stat net k := by
    intro k hk
    exact stat_congr (setNode_get_ne _ hk) (fun P idx hc => setNode_get_ne _ (not_child_of i hc hf (by simp)))
  refine ⟨⟨fun k hk => ?_, ?_, ?_⟩, fun k hk => ?_, fun j' hj' => ?_⟩
  · have hk0 : ¬ UpP net src k := fun hu => hk (hss.upP.mpr hu)
    by_cases e : k = f
    · subst e
      rw [stat_fwd hf1]
      rcases hs with ⟨_, rfl⟩ | ⟨rfl, rfl⟩
      · simp [fwdStat]
      · refine ⟨by simp [fwdStat], fun _ hc => ?_⟩
        have := (hinv.flag k trivial).2 (by rw [stat_fwd hf]; simp [fwdStat])
        exact this (hcl_to k hc)
    · rw [hstat k e]
      have hfl := hinv.flag k trivial
      exact ⟨fun ho => hcl_from k hk0 (hfl.1 ho), fun hc hcl => hfl.2 hc (hcl_to k hcl)⟩
  · intro P s c hp idx hidx
    have e : P ≠ f := by rintro rfl; rw [hf1] at hp; cases hp
    rw [setNode_get_ne _ e] at hp
    obtain ⟨c', hc'⟩ := hinv.cellKids P s c hp idx hidx
    have e' : c' ≠ f := by rintro rfl; rw [hf] at hc'; cases hc'
    exact ⟨c', by rw [setNode_get_ne _ e']; exact hc'⟩
  · intro P s c hp
    have e : P ≠ f := by rintro rfl; rw [hf1] at hp; cases hp
    rw [setNode_get_ne _ e] at hp
    exact hinv.cellCount P s c hp
  · have hk' := hss.upP.mp hk
    have hle := hk'.up.le i
    have hkf : k ≠ f := by omega
    rw [hstat k hkf]
    have hcl : Claimed net H k := ⟨src, hk', .inr (.inr ⟨f, st, hf, hclaimed⟩)⟩
    intro hc
    exact (hinv.flag k trivial).2 hc hcl
  · have hj'' := hss.upP.mp hj'
    have : j' = src := hj''.stop i (shp?_some hf) hsrcU (by
      rintro (⟨g', hh⟩ | ⟨sts, ch, hh, _⟩) <;> (rw [hf] at hh; cases hh))
    subst this
    rintro (hh | ⟨P, c, hp, _⟩ | ⟨f', s2, hf', hs2⟩)
    · exact hH j' hh f _ (shp?_some hf) hsrcU
    · have hp0 : net.shp? P = some (.parent j' c.cursors.length) := by rw [← hss.2]; exact shp?_some hp
      have := i.lin P f _ _ j' hp0 (shp?_some hf) (by simp [Shp.uses]) hsrcU
      subst this
      rw [hf1] at hp; cases hp
    · have hf0 : net.shp? f' = some (.fpipe j') := by rw [← hss.2]; exact shp?_some hf'
      have := i.lin f' f _ _ j' hf0 (shp?_some hf) (by simp [Shp.uses]) hsrcU
      subst this
      rw [hf1] at hf'; cases hf'
      rcases hexit with rfl | rfl <;> simp at hs2

/-- the forwarder exits on `io.EOF` and closes its source -/
theorem fwdEnd_closeInv {F : Facts} (g : GoodFacts F) {cf : Nat} {n1 n' : Net} {H : List Nat} {sid src : Nat}
    (i : ShInv n1) (hH : ∀ r ∈ H, Free n1 r) (hinv : CloseInvOn n1 H (fun _ => True))
    (hf : n1.nodes[sid]? = some (.fpipe src .running)) (h : fwdEnd F cf n1 sid src = some n') :
    CloseInvOn n' H (fun _ => True) := by
  have hss : SameShape n1 (n1.setNode sid (.fpipe src .ended)) := setNode_sameShape hf rfl
  have hrel := relHyp_fwd_exit (st' := .ended) i hH hinv hf (.inl ⟨rfl, rfl⟩)
  unfold fwdEnd at h
  rw [g.fwd] at h
  simp only [if_true] at h
  obtain ⟨t, ht, hk⟩ := i.fwdSrc sid src (shp?_some hf)
  exact release_of_some g (hss.shInv i) (fun r hr => free_of_sameShape hss (hH r hr)) hrel
    ⟨t, by rw [hss.2]; exact ht, hk⟩ h

theorem Pipe.recv_recvClosed {p p' : Pipe} {r : Res} (h : p.recv = some (p', r)) : p'.recvClosed = p.recvClosed := by
  unfold Pipe.recv at h
  split at h
  · simp at h; rw [← h.1]
  · split at h <;> simp at h
    rw [← h.1]


end EinoV.C08
