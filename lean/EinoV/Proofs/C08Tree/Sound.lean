/-
  C08 — the executable `recvAll` of the network model refines the relational semantics `Recv`
  (`recvAll_sound`): every outcome the oracle enumerates is a derivation of `Recv`.
-/
import EinoV.Proofs.C08Tree.RecvBasic
import EinoV.Proofs.C08
set_option linter.unusedVariables false
namespace EinoV.C08

/-! ## the function `recvAll` of the network model refines the relation `Recv` -/

/-- status of one select case of a merged reader (the body of the `filterMap` in `recvAll`) -/
def srcStat (F : Facts) (fuel : Nat) (net : Net) (sts chosen : List Nat) (ab : Nat × Nat) : Option (Nat × SrcStatus) :=
  match chosen[ab.1]?, chosen[ab.2]? with
  | some sa, some sb =>
    match sts[sa]? with
    | none => none
    | some sid =>
      match net.nodes[sid]? with
      | some (.pipe p) =>
        match p.recv with
        | none => some (sb, .blocked)
        | some (p', .item x) => some (sb, .items [(x, net.setNode sid (.pipe p'))])
        | some (_, .eof) => some (sb, .closed net)
      | some (.fpipe src .running) =>
        let outs := recvAll F fuel net src
        match outs.find? (fun o => o.1.isEof) with
        | some o =>
          let n1 := o.2.setNode sid (.fpipe src .ended)
          if F.fwdCloses then
            match closeAll F fuel n1 src with
            | some n' => some (sb, .closed n')
            | none => none
          else some (sb, .closed n1)
        | none =>
          if outs.isEmpty then some (sb, .blocked)
          else some (sb, .items (outs.filterMap fun o => o.1.item?.map (·, o.2)))
      | some (.fpipe _ .ended) => some (sb, .closed net)
      | _ => none
  | _, _ => none

theorem recvAll_merge_eq (F : Facts) (fuel : Nat) (net : Net) (id : Nat) (sts chosen : List Nat)
    (hn : net.nodes[id]? = some (.merge sts chosen)) :
    recvAll F (fuel + 1) net id =
      if chosen.isEmpty then [(.eof, net)] else
      let stats := (selCases F.tbl F.maxSel chosen.length).filterMap (srcStat F fuel net sts chosen)
      match stats.findSome? (fun s => match s.2 with | .closed n' => some (s.1, n') | _ => none) with
      | some (sb, n') => recvAll F fuel (n'.setNode id (.merge sts (chosen.erase sb))) id
      | none => stats.flatMap fun s =>
          match s.2 with
          | .items outs => outs.map fun o => (Res.item o.1, o.2)
          | _ => [] := by
  simp only [recvAll, hn]
  rfl


theorem res_isEof {r : Res} (h : r.isEof = true) : r = .eof := by
  cases r <;> simp [Res.isEof] at h ⊢

theorem srcStat_closed {F : Facts} {fuel : Nat} {net n' : Net} {sts chosen : List Nat} {j sb : Nat}
    (h : srcStat F fuel net sts chosen (j, j) = some (sb, .closed n')) :
    chosen[j]? = some sb ∧ ∃ sid, sts[sb]? = some sid ∧
      ((∃ p p', net.nodes[sid]? = some (.pipe p) ∧ p.recv = some (p', .eof) ∧ n' = net) ∨
       (∃ src, net.nodes[sid]? = some (.fpipe src .ended) ∧ n' = net) ∨
       (∃ src n1, net.nodes[sid]? = some (.fpipe src .running) ∧ (Res.eof, n1) ∈ recvAll F fuel net src ∧
          fwdEnd F fuel n1 sid src = some n')) := by
  unfold srcStat at h
  simp only at h
  split at h
  · rename_i sa sb' hsa hsb'
    rw [hsa] at hsb'; cases hsb'
    split at h
    · cases h
    · rename_i sid hsid
      split at h
      · rename_i p hp
        split at h
        · cases h
        · cases h
        · rename_i p' hr
          simp at h; obtain ⟨rfl, rfl⟩ := h
          exact ⟨hsa, sid, hsid, .inl ⟨p, p', hp, hr, rfl⟩⟩
      · rename_i src hp
        split at h
        · rename_i o ho
          have hmem := List.mem_of_find?_eq_some ho
          have heof := res_isEof (r := o.1) (List.find?_some (p := fun (o : Res × Net) => o.1.isEof) ho)
          have ho' : (Res.eof, o.2) ∈ recvAll F fuel net src := by rw [← heof]; exact hmem
          split at h
          · rename_i hfc
            split at h
            · rename_i n'' hc
              simp at h; obtain ⟨rfl, rfl⟩ := h
              exact ⟨hsa, sid, hsid, .inr (.inr ⟨src, o.2, hp, ho', by simp [fwdEnd, hfc, hc]⟩)⟩
            · cases h
          · rename_i hfc
            simp at h; obtain ⟨rfl, rfl⟩ := h
            exact ⟨hsa, sid, hsid, .inr (.inr ⟨src, o.2, hp, ho', by simp [fwdEnd, hfc]⟩)⟩
        · split at h <;> cases h
      · rename_i src hp
        simp at h; obtain ⟨rfl, rfl⟩ := h
        exact ⟨hsa, sid, hsid, .inr (.inl ⟨src, hp, rfl⟩)⟩
      · cases h
  · cases h

theorem srcStat_items {F : Facts} {fuel : Nat} {net n'' : Net} {sts chosen : List Nat} {j sb : Nat}
    {outs : List (Item × Net)} {x : Item}
    (h : srcStat F fuel net sts chosen (j, j) = some (sb, .items outs)) (ho : (x, n'') ∈ outs) :
    chosen[j]? = some sb ∧ ∃ sid, sts[sb]? = some sid ∧
      ((∃ p p', net.nodes[sid]? = some (.pipe p) ∧ p.recv = some (p', .item x) ∧
          n'' = net.setNode sid (.pipe p')) ∨
       (∃ src, net.nodes[sid]? = some (.fpipe src .running) ∧ (Res.item x, n'') ∈ recvAll F fuel net src)) := by
  unfold srcStat at h
  simp only at h
  split at h
  · rename_i sa sb' hsa hsb'
    rw [hsa] at hsb'; cases hsb'
    split at h
    · cases h
    · rename_i sid hsid
      split at h
      · rename_i p hp
        split at h
        · cases h
        · rename_i p' y hr
          simp at h; obtain ⟨rfl, rfl⟩ := h
          simp at ho; obtain ⟨rfl, rfl⟩ := ho
          exact ⟨hsa, sid, hsid, .inl ⟨p, p', hp, hr, rfl⟩⟩
        · cases h
      · rename_i src hp
        split at h
        · split at h
          · split at h <;> cases h
          · cases h
        · split at h
          · cases h
          · simp at h; obtain ⟨rfl, rfl⟩ := h
            simp only [List.mem_filterMap] at ho
            obtain ⟨o, hom, hoe⟩ := ho
            obtain ⟨r, nn⟩ := o
            cases r with
            | eof => simp [Res.item?] at hoe
            | item y =>
              simp [Res.item?] at hoe; obtain ⟨rfl, rfl⟩ := hoe
              exact ⟨hsa, sid, hsid, .inr ⟨src, hp, hom⟩⟩
      · cases h
      · cases h
  · cases h


theorem recvAll_sound {F : Facts} (ht : tblOK F.tbl F.maxSel = true) (fuel : Nat) :
    ∀ (net : Net) (id : Nat) (res : Res) (net' : Net), (res, net') ∈ recvAll F fuel net id →
      ∃ tr, Recv F net id res net' tr := by
  induction fuel with
  | zero => intro net id res net' h; simp [recvAll] at h
  | succ fuel ih =>
    intro net id res net' h
    cases hn : net.nodes[id]? with
    | none => simp [recvAll, hn] at h
    | some nd =>
      cases nd with
      | pipe p =>
        simp only [recvAll, hn] at h
        split at h
        · rename_i p' r hr
          simp at h; obtain ⟨rfl, rfl⟩ := h
          exact ⟨_, .pipe hn hr⟩
        · simp at h
      | arr rest =>
        simp only [recvAll, hn] at h
        split at h
        · rename_i x r
          simp at h; obtain ⟨rfl, rfl⟩ := h
          exact ⟨_, .arrItem hn⟩
        · simp at h; obtain ⟨rfl, rfl⟩ := h
          exact ⟨_, .arrEof hn⟩
      | conv src g =>
        simp only [recvAll, hn, List.mem_flatMap] at h
        obtain ⟨o, ho, h⟩ := h
        obtain ⟨r1, n1⟩ := o
        cases r1 with
        | eof =>
          simp at h; obtain ⟨rfl, rfl⟩ := h
          obtain ⟨tr, hr⟩ := ih _ _ _ _ ho
          exact ⟨_, .convEof hn hr⟩
        | item it =>
          obtain ⟨tr, hr⟩ := ih _ _ _ _ ho
          simp only at h
          split at h
          · rename_i y hy
            simp at h; obtain ⟨rfl, rfl⟩ := h
            exact ⟨_, .convItem hn hr hy⟩
          · rename_i hy
            obtain ⟨tr2, hr2⟩ := ih _ _ _ _ h
            exact ⟨_, .convSkip hn hr hy hr2⟩
      | child par idx =>
        simp only [recvAll, hn] at h
        split at h
        · rename_i src core hp
          split at h
          · simp at h
          · rename_i r c' hk
            simp at h; obtain ⟨rfl, rfl⟩ := h
            exact ⟨_, .childHave hn hp hk⟩
          · rename_i k hk
            simp only [List.mem_map] at h
            obtain ⟨o, ho, h⟩ := h
            obtain ⟨r1, n1⟩ := o
            simp at h; obtain ⟨rfl, rfl⟩ := h
            obtain ⟨tr, hr⟩ := ih _ _ _ _ ho
            exact ⟨_, .childFill hn hp hk hr⟩
        · simp at h
      | merge sts chosen =>
        rw [recvAll_merge_eq F fuel net id sts chosen hn] at h
        split at h
        · rename_i hc
          simp at h; obtain ⟨rfl, rfl⟩ := h
          have : chosen = [] := by simpa using hc
          subst this
          exact ⟨_, .mergeEof hn⟩
        · simp only at h
          split at h
          · -- a source found closed and drained is dropped
            rename_i sb n' hf
            obtain ⟨s, hs, hse⟩ := List.exists_of_findSome?_eq_some hf
            obtain ⟨sb', st⟩ := s
            cases st with
            | closed n'' =>
              simp at hse; obtain ⟨rfl, rfl⟩ := hse
              obtain ⟨ab, hab, hst⟩ := List.mem_filterMap.mp hs
              obtain ⟨c, hc⟩ := List.getElem?_of_mem hab
              obtain ⟨a, b⟩ := ab
              obtain ⟨rfl, rfl, _⟩ := selCases_get ht hc
              obtain ⟨hch, sid, hsid, hcase⟩ := srcStat_closed hst
              have hsb : sb' ∈ chosen := List.mem_of_getElem? hch
              obtain ⟨tr2, hr2⟩ := ih _ _ _ _ h
              rcases hcase with ⟨p, p', hp, hr, rfl⟩ | ⟨src, hp, rfl⟩ | ⟨src, n1, hp, ho, hfe⟩
              · exact ⟨_, .mergeDropPipe hn hsb hsid hp hr hr2⟩
              · exact ⟨_, .mergeDropEnded hn hsb hsid hp hr2⟩
              · obtain ⟨tr1, hr1⟩ := ih _ _ _ _ ho
                exact ⟨_, .mergeDropFwd hn hsb hsid hp hr1 hfe hr2⟩
            | _ => simp at hse
          · simp only [List.mem_flatMap] at h
            obtain ⟨s, hs, h⟩ := h
            obtain ⟨sb', st⟩ := s
            cases st with
            | items outs =>
              simp only [List.mem_map] at h
              obtain ⟨o, ho, h⟩ := h
              obtain ⟨x, n''⟩ := o
              simp at h; obtain ⟨rfl, rfl⟩ := h
              obtain ⟨ab, hab, hst⟩ := List.mem_filterMap.mp hs
              obtain ⟨c, hc⟩ := List.getElem?_of_mem hab
              obtain ⟨a, b⟩ := ab
              obtain ⟨rfl, rfl, _⟩ := selCases_get ht hc
              obtain ⟨hch, sid, hsid, hcase⟩ := srcStat_items hst ho
              have hsb : sb' ∈ chosen := List.mem_of_getElem? hch
              rcases hcase with ⟨p, p', hp, hr, rfl⟩ | ⟨src, hp, ho'⟩
              · exact ⟨_, .mergePipeItem hn hsb hsid hp hr⟩
              · obtain ⟨tr1, hr1⟩ := ih _ _ _ _ ho'
                exact ⟨_, .mergeFwdItem hn hsb hsid hp hr1⟩
            | _ => simp at h
      | _ => simp [recvAll, hn] at h

end EinoV.C08
