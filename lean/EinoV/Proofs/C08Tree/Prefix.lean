/-
  C08 — delivery at every moment: every claimed reader has a specified remaining sequence
  (`den_exists`), and what a held reader was handed so far is a prefix of a sequence specified for
  it (`delivery_general`, `delivery_prefix`).
-/
import EinoV.Proofs.C08Tree.Progress
set_option linter.unusedVariables false
set_option linter.unusedSimpArgs false
namespace EinoV.C08


/-! ## a claimed reader always has a specified sequence -/

theorem Inter.prepend {S : List Nat} {ls : Nat → List Item} {l : List Item} {s : Nat} (hs : s ∈ S)
    (h : Inter S ls l) : ∀ pre : List Item, Inter S (upd ls s (pre ++ ls s)) (pre ++ l) := by
  intro pre
  induction pre with
  | nil => simpa [upd_self] using h
  | cons x rest ih =>
    have := ih.push x hs
    simp only [upd_same, upd_upd] at this
    exact this

theorem inter_exists (ls : Nat → List Item) : ∀ S : List Nat, S.Nodup → ∃ l, Inter S ls l := by
  intro S
  induction S with
  | nil => intro _; exact ⟨[], .nil (by simp)⟩
  | cons s rest ih =>
    intro hnd
    rw [List.nodup_cons] at hnd
    obtain ⟨l, hl⟩ := ih hnd.2
    have h1 : Inter (s :: rest) (upd ls s []) l := by
      have : (s :: rest).erase s = rest := by simp
      exact Inter.add_empty (S := s :: rest) (by rw [this]; exact hnd.1) (by rw [this]; exact hl)
    have h2 := h1.prepend (s := s) (by simp) (ls s)
    simp only [upd_same, upd_upd, List.append_nil, upd_self] at h2
    exact ⟨_, h2⟩

/-- every node whose reading end is claimed has a specified remaining sequence -/
theorem den_exists {fut : Nat → List Item} {H : List Nat} : ∀ (n j : Nat), j < n → ∀ (net : Net),
    ShInv net → StInv net → CloseInvOn net H (fun _ => True) → Claimed net H j →
    (∃ t, net.shp? j = some t ∧ t.isReader = true) → ∃ l, Den fut net j l := by
  intro n
  induction n with
  | zero => intro j hj; omega
  | succ n ihn =>
    intro j hj net sh st ci hcl ⟨t, ht, hk⟩
    have ih : ∀ j', j' < j → Claimed net H j' → (∃ t, net.shp? j' = some t ∧ t.isReader = true) →
        ∃ l, Den fut net j' l := fun j' hj' => ihn j' (by omega) net sh st ci
    obtain ⟨nd, hn, hsh⟩ := shp?_eq_some ht
    cases nd with
    | pipe p => exact ⟨_, .pipe hn⟩
    | arr rest => exact ⟨_, .arr hn⟩
    | conv src g =>
      obtain ⟨l, hl⟩ := ih src (sh.lt j src (edge_conv hn)) (hcl.pass (.inl ⟨g, hn⟩)) (sh.convSrc j src g (shp?_some hn))
      exact ⟨_, .conv hn hl⟩
    | child P idx =>
      obtain ⟨src, nn, hpS, _⟩ := sh.childPar j P idx (shp?_some hn)
      obtain ⟨pn, hp, hps⟩ := shp?_eq_some hpS
      cases pn <;> simp [Node.shp] at hps
      rename_i src' core
      obtain ⟨rfl, _⟩ := hps
      have hst := claimed_stat_ne_closed ci hcl
      rw [stat_child hn hp] at hst
      have hcur : ∃ k0, core.cursors[idx]? = some (some k0) := by
        cases hc : core.cursors[idx]? with
        | none => simp [hc, cursorStat] at hst
        | some v =>
          cases v with
          | none => simp [hc, cursorStat] at hst
          | some k0 => exact ⟨k0, rfl⟩
      obtain ⟨k0, hk0⟩ := hcur
      cases he : core.eofSeen with
      | true => exact ⟨_, .childEof hn hp hk0 he⟩
      | false =>
        have hltP := sh.lt j P (edge_child hn)
        have hltS := sh.lt P src' (edge_parent hp)
        obtain ⟨l, hl⟩ := ih src' (by omega) (.of_root (.inr (.inl ⟨P, core, hp, idx, k0, hk0⟩)))
          (sh.parSrc P src' _ (shp?_some hp))
        exact ⟨_, .childOpen hn hp hk0 he hl⟩
    | merge sts chosen =>
      have hsrc : ∀ sb ∈ chosen, ∃ l, ∀ sid, sts[sb]? = some sid → Den fut net sid l := by
        intro sb hsb
        have hlt := st.chosenLt j sts chosen hn sb hsb
        have hmem : sts[sb] ∈ sts := List.getElem_mem hlt
        have hget : sts[sb]? = some sts[sb] := List.getElem?_eq_getElem hlt
        have hjs := sh.lt j sts[sb] (edge_merge hn hmem)
        have hcls : Claimed net H sts[sb] := hcl.pass ((pedge_merge hn).mpr hmem)
        have key : ∃ l, Den fut net sts[sb] l := by
          rcases sh.mergeSrc j sts sts[sb] (shp?_some hn) hmem with hp | ⟨src, hp⟩
          · obtain ⟨nd, hnd, hsh'⟩ := shp?_eq_some hp
            cases nd <;> simp [Node.shp] at hsh'
            exact ⟨_, .pipe hnd⟩
          · obtain ⟨nd, hnd, hsh'⟩ := shp?_eq_some hp
            cases nd <;> simp [Node.shp] at hsh'
            rename_i s fs
            subst hsh'
            have hst := claimed_stat_ne_closed ci hcls
            rw [stat_fwd hnd] at hst
            cases fs with
            | pending => simp [fwdStat] at hst
            | stopped => simp [fwdStat] at hst
            | ended => exact ⟨_, .fwdEnded hnd⟩
            | running =>
              have hss := sh.lt sts[sb] s (edge_fwd hnd)
              obtain ⟨l, hl⟩ := ih s (by omega) (.of_root (.inr (.inr ⟨sts[sb], _, hnd, .inl rfl⟩)))
                (sh.fwdSrc sts[sb] s (shp?_some hnd))
              exact ⟨_, .fwd hnd hl⟩
        obtain ⟨l, hl⟩ := key
        exact ⟨l, fun sid hsid => by rw [hget] at hsid; cases hsid; exact hl⟩
      -- choose one sequence per source
      have hch : ∃ ls : Nat → List Item, ∀ sb ∈ chosen, ∀ sid, sts[sb]? = some sid → Den fut net sid (ls sb) := by
        refine ⟨fun sb => if h : sb ∈ chosen then Classical.choose (hsrc sb h) else [], fun sb hsb sid hsid => ?_⟩
        simp only [hsb, dite_true]
        exact Classical.choose_spec (hsrc sb hsb) sid hsid
      obtain ⟨ls, hls⟩ := hch
      obtain ⟨l, hl⟩ := inter_exists ls chosen (st.chosenNodup j sts chosen hn)
      exact ⟨l, .merge hn (fun sb sid hsb hsid => hls sb hsb sid hsid) hl⟩
    | parent s c => simp [Node.shp] at hsh; subst hsh; simp [Shp.isReader] at hk
    | fpipe s fs => simp [Node.shp] at hsh; subst hsh; simp [Shp.isReader] at hk
    | dead => simp [Node.shp] at hsh; subst hsh; simp [Shp.isReader] at hk



theorem Behaves.scm {F : Facts} {fuel : Nat} (g : GoodFacts F) {net net' : Net} {ops : List Op}
    (h : Behaves F fuel net ops net') (i : Inv net) : SCM net net' := by
  induction h with
  | nil => exact .refl _
  | cons hs _ ih => exact (hs.scm i).trans (ih (hs.inv g i))

/-- **delivery, at every moment.** Backward induction over the schedule, with an arbitrary
    continuation: whatever `r` is still specified to deliver at the end, prefixed by what it was
    handed during the schedule, it was specified to deliver at the start. -/
theorem delivery_general {F : Facts} {fuel : Nat} (g : GoodFacts F) :
    ∀ (ops : List Op) (net net1 : Net) (r : Nat) (fut : Nat → List Item) (l : List Item),
      Inv net → r ∈ net.readers → Behaves F fuel net ops net1 → r ∈ net1.readers →
      (∀ (p : Nat) (x : Pipe), net1.nodes[p]? = some (.pipe x) → x.sendClosed = true → fut p = []) →
      Den fut net1 r l → Den (fun p => accBy ops p ++ fut p) net r (gotBy r ops ++ l) := by
  intro ops
  induction ops with
  | nil =>
    intro net net1 r fut l i hr h hr1 hfut hd
    cases h
    simpa [accBy, gotBy] using hd
  | cons op ops ih =>
    intro net net1 r fut l i hr h hr1' hfut hd
    cases h with
    | cons hstep hrest =>
      rename_i n1
      have i1 := hstep.inv g i
      have hr1 : r ∈ n1.readers :=
        (hrest.readers_back g i1).2 r hr1' (by have := (hstep.readers_back i).1; have := i.rd.lt hr; omega)
      have IH := ih n1 net1 r fut l i1 hr1 hrest hr1' hfut hd
      have hnil : ∀ {op' : Op}, (∀ p, Op.acc p op' = []) →
          (fun p => accBy (op' :: ops) p ++ fut p) = (fun p => accBy ops p ++ fut p) := by
        intro op' h0; rw [accBy_of_acc_nil h0]
      rw [gotBy_cons, List.append_assoc]
      cases hstep with
      | @recv _ r' obs tr hr' hrecv =>
        rw [hnil (by intro p; rfl)]
        have D := hrecv.den (fut := fun p => accBy ops p ++ fut p) g.copy' i.sh i.st
        obtain ⟨ht, hts⟩ := hrecv.trace i.sh
        by_cases e : r' = r
        · subst e
          rw [got_recv_self, ← hts]
          exact D.2 r' _ (.inl rfl) IH
        · rw [got_recv_ne e]
          have hn : ¬ Up net r r' := fun hu => e (held_up i hr' hu).symm
          have := D.2 r _ (.inr hn) IH
          rwa [ofSrc_nil_of (fun ev hev heq => e (held_up i hr (by rw [← heq]; exact ht ev hev)))] at this
      | @other _ _ cr h1 ha =>
        cases op with
        | pipe cap => rw [hnil (by intro p; rfl)]; exact den_build i rfl ha hr hr1 IH
        | arr items => rw [hnil (by intro p; rfl)]; exact den_build i rfl ha hr hr1 IH
        | conv r0 g0 => rw [hnil (by intro p; rfl)]; exact den_build i rfl ha hr hr1 IH
        | copy r0 n => rw [hnil (by intro p; rfl)]; exact den_build i rfl ha hr hr1 IH
        | merge rs => rw [hnil (by intro p; rfl)]; exact den_build i rfl ha hr hr1 IH
        | send p it oc =>
          simp only [Op.got, List.nil_append]
          rcases applyOp_send_cases ha with ⟨rfl, x, hx, hs, rfl⟩ | ⟨rfl, lcl⟩
          · refine den_setPipe (fut := fun p => accBy ops p ++ fut p) hx ?_ ?_ IH
            · rw [accBy_cons]; simp [hs, Op.acc]
            · intro q hq; rw [accBy_cons]; simp [Op.acc, Ne.symm hq]
          · rw [hnil (by intro p; rfl)]
            exact lcl.den IH
        | feed p its =>
          obtain ⟨x, hx, hs, rfl⟩ := applyOp_feed_cases ha
          simp only [Op.got, List.nil_append]
          refine den_setPipe (fut := fun p => accBy ops p ++ fut p) hx ?_ ?_ IH
          · rw [accBy_cons]; simp [hs, Op.acc]
          · intro q hq; rw [accBy_cons]; simp [Op.acc, Ne.symm hq]
        | closeSend p =>
          obtain ⟨x, hx, hs, rfl⟩ := applyOp_closeSend_cases ha
          rw [hnil (by intro p; rfl)]
          simp only [Op.got, List.nil_append]
          have hz : accBy ops p = [] := accBy_closed g hrest i1 (setNode_get_self hx _) rfl
          have hzf : fut p = [] := by
            obtain ⟨y, hy, hys⟩ := hrest.scm g i1 p _ (setNode_get_self hx _) rfl
            exact hfut p y hy hys
          refine den_setPipe (fut := fun p => accBy ops p ++ fut p) hx ?_ (fun _ _ => rfl) IH
          simp [hs, hz, hzf]
        | recv r0 obs => simp [Op.isRecv] at h1
        | close r0 =>
          obtain ⟨_, n1', hc, rfl⟩ := applyOp_close_cases ha
          rw [hnil (by intro p; rfl)]
          simp only [Op.got, List.nil_append]
          exact (closeAll_spec F fuel _ _ _ hc).1.den (IH.congr fun k _ => rfl)

/-- what a held reader has been handed so far is a prefix of a sequence specified for it (with
    the items accepted so far) -/
theorem delivery_prefix {F : Facts} {fuel : Nat} (g : GoodFacts F) (ops : List Op) (net net1 : Net) (r : Nat)
    (i : Inv net) (hc : CloseInv net) (hr : r ∈ net.readers) (h : Behaves F fuel net ops net1)
    (hr1 : r ∈ net1.readers) : ∃ l, Den (accBy ops) net r (gotBy r ops ++ l) := by
  have i1 := h.inv g i
  have hc1 := h.closeInv g i hc
  obtain ⟨l, hl⟩ := den_exists (fut := fun _ => []) (H := net1.readers) (r + 1) r (Nat.lt_succ_self _) net1
    i1.sh i1.st hc1 (.of_root (.inl hr1)) (i1.rd.kind r hr1)
  refine ⟨l, ?_⟩
  have := delivery_general g ops net net1 r (fun _ => []) l i hr h hr1 (fun _ _ _ _ => rfl) hl
  simpa using this


end EinoV.C08
