/-
  C08 — helper facts for the delivery theorem: pipes, sibling sources of a merge, `DenStep`.
-/
import EinoV.Proofs.C08Tree.Cell
set_option linter.unusedVariables false
namespace EinoV.C08

theorem Pipe.recv_item {p p' : Pipe} {x : Item} (h : p.recv = some (p', .item x)) :
    p.buf = x :: p'.buf ∧ p'.sendClosed = p.sendClosed := by
  unfold Pipe.recv at h
  split at h
  · rename_i y rest hb
    simp at h
    obtain ⟨rfl, rfl⟩ := h
    exact ⟨hb, rfl⟩
  · split at h <;> simp at h

theorem Pipe.recv_eof {p p' : Pipe} (h : p.recv = some (p', .eof)) :
    p.buf = [] ∧ p.sendClosed = true ∧ p' = p := by
  unfold Pipe.recv at h
  split at h
  · simp at h
  · rename_i hb
    split at h
    · rename_i hs; simp at h; exact ⟨hb, hs, h.symm⟩
    · simp at h

theorem dom_src {net : Net} (hsh : ShInv net) {id src j : Nat} {s : Shp} (hs : net.shp? id = some s)
    (hu : src ∈ s.uses) (hj : ¬ Up net j id) : j = src ∨ ¬ Up net j src := by
  by_cases e : j = src
  · exact .inl e
  · exact .inr fun h => hj (h.chain hsh e hs hu)

theorem ofSrc_tag_other {j id : Nat} (r : Res) (h : j ≠ id) : ofSrc j (tag id r) = [] :=
  ofSrc_tag_ne (Ne.symm h) r

theorem den_off {fut : Nat → List Item} {net net' : Net} {id j : Nat} {l : List Item}
    (hget : ∀ k, k ≠ id → net'.nodes[k]? = net.nodes[k]?) (hj : ¬ Up net j id)
    (hd : Den fut net' j l) : Den fut net j l :=
  hd.congr fun k hk => hget k (by rintro rfl; exact hj hk)

theorem Recv.den_pipe {fut : Nat → List Item} {net : Net} {id : Nat} {p p' : Pipe} {r : Res}
    (hn : net.nodes[id]? = some (.pipe p)) (hr : p.recv = some (p', r)) :
    (r = .eof → Den fut net id []) ∧
    (∀ j l, (j = id ∨ ¬ Up net j id) → Den fut (net.setNode id (.pipe p')) j l →
      Den fut net j (ofSrc j (tag id r) ++ l)) := by
  constructor
  · rintro rfl
    obtain ⟨hb, hs, _⟩ := Pipe.recv_eof hr
    have := Den.pipe (fut := fut) hn
    simpa [hb, hs] using this
  · intro j l hj hd
    by_cases e : j = id
    · subst e
      have hl := Den.pipe_inv (setNode_get_self hn _) hd
      rw [ofSrc_tag_self]
      cases r with
      | item x =>
        obtain ⟨hb, hs⟩ := Pipe.recv_item hr
        have := Den.pipe (fut := fut) hn
        rw [hb, ← hs] at this
        rw [hl]; simpa [Res.items] using this
      | eof =>
        obtain ⟨_, _, rfl⟩ := Pipe.recv_eof hr
        rw [hl]; simpa [Res.items] using Den.pipe (fut := fut) hn
    · have hj' : ¬ Up net j id := by rcases hj with h | h; exact absurd h e; exact h
      rw [ofSrc_tag_other r e]
      exact den_off (fun k hk => setNode_get_ne _ hk) hj' hd


theorem nodup_getElem?_inj {l : List Nat} (h : l.Nodup) {i j a : Nat} (hi : l[i]? = some a) (hj : l[j]? = some a) :
    i = j := by
  induction l generalizing i j with
  | nil => simp at hi
  | cons x xs ih =>
    rw [List.nodup_cons] at h
    cases i with
    | zero =>
      cases j with
      | zero => rfl
      | succ j =>
        simp at hi hj; subst hi
        exact absurd (List.mem_of_getElem? hj) h.1
    | succ i =>
      cases j with
      | zero =>
        simp at hi hj; subst hj
        exact absurd (List.mem_of_getElem? hi) h.1
      | succ j =>
        simp at hi hj
        rw [ih h.2 hi hj]

/-- two sources of one merged reader -/
theorem merge_sib {net : Net} (hsh : ShInv net) {id sb sid b s : Nat} {sts chosen : List Nat}
    (hn : net.nodes[id]? = some (.merge sts chosen)) (hs : sts[sb]? = some sid) (hb : sts[b]? = some s)
    (hne : b ≠ sb) : s ≠ sid ∧ ¬ Up net s sid := by
  have hnd : sts.Nodup := hsh.usesNodup id _ (shp?_some hn)
  have h1 : s ≠ sid := by
    rintro rfl; exact hne (nodup_getElem?_inj hnd hb hs)
  refine ⟨h1, fun hu => ?_⟩
  have hm : sid ∈ (Node.merge sts chosen).shp.uses := by
    simpa [Node.shp, Shp.uses] using List.mem_of_getElem? hs
  have := (hu.chain hsh h1 (shp?_some hn) hm).le hsh
  have := hsh.lt _ _ (edge_merge hn (List.mem_of_getElem? hb))
  omega

/-- a source of a merged reader and what another source, a forwarder, reads from -/
theorem merge_sib_fwd {net : Net} (hsh : ShInv net) {id sb sid b s src : Nat} {sts chosen : List Nat} {st : FwdSt}
    (hn : net.nodes[id]? = some (.merge sts chosen)) (hs : sts[sb]? = some sid) (hb : sts[b]? = some s)
    (hne : b ≠ sb) (hf : net.nodes[sid]? = some (.fpipe src st)) : ¬ Up net s src ∧ ¬ Up net src s := by
  obtain ⟨h1, h2⟩ := merge_sib hsh hn hs hb hne
  have hms : s ∈ (Node.merge sts chosen).shp.uses := by
    simpa [Node.shp, Shp.uses] using List.mem_of_getElem? hb
  have hfs : src ∈ (Node.fpipe src st).shp.uses := by simp [Node.shp, Shp.uses]
  have hne2 : s ≠ src := by
    rintro rfl
    have := hsh.lin id sid _ _ s (shp?_some hn) (shp?_some hf) hms hfs
    have := hsh.lt _ _ (edge_merge hn (List.mem_of_getElem? hs))
    omega
  constructor
  · intro hu
    exact h2 (hu.chain hsh hne2 (shp?_some hf) hfs)
  · intro hu
    have := (hu.chain hsh (Ne.symm hne2) (shp?_some hn) hms).le hsh
    have := hsh.lt _ _ (edge_merge hn (List.mem_of_getElem? hs))
    have := hsh.lt _ _ (edge_fwd hf)
    omega

def DenStep (fut : Nat → List Item) (net net' : Net) (id : Nat) (r : Res) (tr : List (Nat × Item)) : Prop :=
  (r = .eof → Den fut net id []) ∧
  (∀ j l, (j = id ∨ ¬ Up net j id) → Den fut net' j l → Den fut net j (ofSrc j tr ++ l))

theorem not_up_of_dom {net : Net} {j id : Nat} (h : j = id ∨ ¬ Up net j id) (e : j ≠ id) : ¬ Up net j id := by
  rcases h with h | h
  · exact absurd h e
  · exact h

end EinoV.C08
