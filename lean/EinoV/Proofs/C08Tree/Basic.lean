/-
  C08 — basic facts about the shape of networks (`Edge`, `Up`, `SameShape`) and about the
  specified sequence `Den` (inversion, locality).
-/
import EinoV.Spec.C08Tree
set_option linter.unusedVariables false
namespace EinoV.C08

/-! ## `setNode`, shapes -/

theorem setNode_get (net : Net) (i k : Nat) (x : Node) :
    (net.setNode i x).nodes[k]? =
      if i = k then (if i < net.nodes.size then some x else none) else net.nodes[k]? := by
  simp [Net.setNode, Array.getElem?_setIfInBounds]

theorem setNode_get_some {net : Net} {i : Nat} {y : Node} (h : net.nodes[i]? = some y) (k : Nat) (x : Node) :
    (net.setNode i x).nodes[k]? = if k = i then some x else net.nodes[k]? := by
  have hlt : i < net.nodes.size := by
    rcases Array.getElem?_eq_some_iff.mp h with ⟨h1, _⟩; exact h1
  rw [setNode_get]
  by_cases hk : i = k
  · subst hk; simp [hlt]
  · have : ¬ k = i := fun e => hk e.symm
    simp [hk, this]

theorem setNode_get_self {net : Net} {i : Nat} {y : Node} (h : net.nodes[i]? = some y) (x : Node) :
    (net.setNode i x).nodes[i]? = some x := by
  rw [setNode_get_some h]; simp

theorem setNode_get_ne {net : Net} {i k : Nat} (x : Node) (hk : k ≠ i) :
    (net.setNode i x).nodes[k]? = net.nodes[k]? := by
  rw [setNode_get]
  have : ¬ i = k := fun e => hk e.symm
  simp [this]

@[simp] theorem setNode_readers (net : Net) (i : Nat) (x : Node) : (net.setNode i x).readers = net.readers := rfl
@[simp] theorem setNode_writers (net : Net) (i : Nat) (x : Node) : (net.setNode i x).writers = net.writers := rfl
@[simp] theorem setNode_size (net : Net) (i : Nat) (x : Node) : (net.setNode i x).nodes.size = net.nodes.size := by
  simp [Net.setNode]

theorem SameShape.refl (a : Net) : SameShape a a := ⟨rfl, fun _ => rfl⟩

theorem SameShape.trans {a b c : Net} (h1 : SameShape a b) (h2 : SameShape b c) : SameShape a c :=
  ⟨h1.1.trans h2.1, fun k => (h2.2 k).trans (h1.2 k)⟩

theorem SameShape.symm {a b : Net} (h : SameShape a b) : SameShape b a :=
  ⟨h.1.symm, fun k => (h.2 k).symm⟩

theorem setNode_sameShape {net : Net} {i : Nat} {y x : Node} (h : net.nodes[i]? = some y)
    (hs : x.shp = y.shp) : SameShape net (net.setNode i x) := by
  refine ⟨by simp, fun k => ?_⟩
  unfold Net.shp?
  rw [setNode_get_some h]
  by_cases hk : k = i
  · subst hk; simp [h, hs]
  · simp [hk]

theorem shp?_some {net : Net} {j : Nat} {nd : Node} (h : net.nodes[j]? = some nd) :
    net.shp? j = some nd.shp := by simp [Net.shp?, h]

theorem shp?_eq_some {net : Net} {j : Nat} {s : Shp} (h : net.shp? j = some s) :
    ∃ nd, net.nodes[j]? = some nd ∧ nd.shp = s := by
  unfold Net.shp? at h
  cases hn : net.nodes[j]? with
  | none => simp [hn] at h
  | some nd => exact ⟨nd, rfl, by simpa [hn] using h⟩

theorem SameShape.edge {a b : Net} (h : SameShape a b) {j u : Nat} : Edge b j u ↔ Edge a j u := by
  unfold Edge; rw [h.2 j]

theorem SameShape.up {a b : Net} (h : SameShape a b) {j k : Nat} : Up b j k ↔ Up a j k := by
  constructor
  · intro hu
    induction hu with
    | refl j => exact .refl j
    | step he _ ih => exact .step (h.edge.mp he) ih
  · intro hu
    induction hu with
    | refl j => exact .refl j
    | step he _ ih => exact .step (h.edge.mpr he) ih

theorem SameShape.shInv {a b : Net} (h : SameShape a b) (i : ShInv a) : ShInv b where
  lt := fun j u he => i.lt j u (h.edge.mp he)
  usesKind := fun j s u hj hu => by
    rw [h.2] at hj; obtain ⟨t, ht, hc⟩ := i.usesKind j s u hj hu; exact ⟨t, by rw [h.2]; exact ht, hc⟩
  convSrc := fun j src g hj => by
    rw [h.2] at hj; obtain ⟨t, ht, hc⟩ := i.convSrc j src g hj; exact ⟨t, by rw [h.2]; exact ht, hc⟩
  parSrc := fun j src n hj => by
    rw [h.2] at hj; obtain ⟨t, ht, hc⟩ := i.parSrc j src n hj; exact ⟨t, by rw [h.2]; exact ht, hc⟩
  childPar := fun j par idx hj => by
    rw [h.2] at hj; obtain ⟨s, n, ht, hc⟩ := i.childPar j par idx hj; exact ⟨s, n, by rw [h.2]; exact ht, hc⟩
  mergeSrc := fun j sts sid hj hs => by
    rw [h.2] at hj; rw [h.2]; exact i.mergeSrc j sts sid hj hs
  fwdSrc := fun j src hj => by
    rw [h.2] at hj; obtain ⟨t, ht, hc⟩ := i.fwdSrc j src hj; exact ⟨t, by rw [h.2]; exact ht, hc⟩
  lin := fun j j' s s' u hj hj' => by
    rw [h.2] at hj hj'; exact i.lin j j' s s' u hj hj'
  usesNodup := fun j s hj => by rw [h.2] at hj; exact i.usesNodup j s hj
  childUniq := fun j j' par idx hj hj' => by
    rw [h.2] at hj hj'; exact i.childUniq j j' par idx hj hj'

theorem SameShape.rdInv {a b : Net} (h : SameShape a b) (hr : b.readers = a.readers) (i : RdInv a) : RdInv b where
  free := fun r hr' j s hj => by rw [h.2] at hj; rw [hr] at hr'; exact i.free r hr' j s hj
  kind := fun r hr' => by
    rw [hr] at hr'; obtain ⟨t, ht, hc⟩ := i.kind r hr'; exact ⟨t, by rw [h.2]; exact ht, hc⟩
  nodup := by rw [hr]; exact i.nodup

/-! ## `Up` -/

theorem Up.trans {net : Net} {a b c : Nat} (h1 : Up net a b) (h2 : Up net b c) : Up net a c := by
  induction h1 with
  | refl _ => exact h2
  | step he _ ih => exact .step he (ih h2)

theorem Up.single {net : Net} {a b : Nat} (h : Edge net a b) : Up net a b := .step h (.refl b)

theorem Up.tail {net : Net} {a b c : Nat} (h1 : Up net a b) (h2 : Edge net b c) : Up net a c :=
  h1.trans (.single h2)

theorem Up.le {net : Net} (i : ShInv net) {a b : Nat} (h : Up net a b) : b ≤ a := by
  induction h with
  | refl _ => exact Nat.le_refl _
  | step he _ ih => have := i.lt _ _ he; omega

/-- last edge of a non-trivial path -/
theorem Up.last {net : Net} {a c : Nat} (h : Up net a c) : a = c ∨ ∃ b, Up net a b ∧ Edge net b c := by
  induction h with
  | refl _ => exact .inl rfl
  | @step j u k he _ ih =>
    right
    rcases ih with rfl | ⟨b, hb, hbc⟩
    · exact ⟨j, .refl j, he⟩
    · exact ⟨b, .step he hb, hbc⟩

theorem Up.first {net : Net} {a c : Nat} (h : Up net a c) : a = c ∨ ∃ b, Edge net a b ∧ Up net b c := by
  cases h with
  | refl _ => exact .inl rfl
  | step he hu => exact .inr ⟨_, he, hu⟩

theorem edge_uses {net : Net} {c u : Nat} {s : Shp} (hc : net.shp? c = some s) (hu : u ∈ s.uses) : Edge net c u :=
  ⟨s, hc, .inl hu⟩

/-- the unique consumer of `u` lies on every path that ends in `u` -/
theorem Up.chain {net : Net} (i : ShInv net) {j u c : Nat} {s : Shp} (h : Up net j u) (hne : j ≠ u)
    (hc : net.shp? c = some s) (hu : u ∈ s.uses) : Up net j c := by
  rcases h.last with rfl | ⟨w, hw, s', hs', he⟩
  · exact absurd rfl hne
  · rcases he with he | he
    · have := i.lin w c s' s u hs' hc he hu
      subst this; exact hw
    · -- a child edge ends in a cell, a consumed reader is not a cell
      obtain ⟨t, ht, hcell⟩ := i.usesKind c s u hc hu
      cases s' with
      | child par idx =>
        simp [Shp.par?] at he
        subst he
        obtain ⟨src, n, hp, _⟩ := i.childPar w par idx hs'
        rw [hp] at ht
        cases ht
        simp [Shp.isCell] at hcell
      | _ => simp [Shp.par?] at he

/-- a node without out-edges is built on itself only -/
theorem Up.of_no_edge {net : Net} {j k : Nat} (h : Up net j k) (hn : ∀ u, ¬ Edge net j u) : j = k := by
  cases h with
  | refl _ => rfl
  | step he _ => exact absurd he (hn _)



/-! ## `Den`: inversion -/

theorem Den.pipe_inv {fut : Nat → List Item} {net : Net} {id : Nat} {p : Pipe} {l : List Item}
    (hn : net.nodes[id]? = some (.pipe p)) (h : Den fut net id l) :
    l = p.buf ++ if p.sendClosed then [] else fut id := by
  cases h <;> simp_all

theorem Den.arr_inv {fut : Nat → List Item} {net : Net} {id : Nat} {rest l : List Item}
    (hn : net.nodes[id]? = some (.arr rest)) (h : Den fut net id l) : l = rest := by
  cases h <;> simp_all

theorem Den.conv_inv {fut : Nat → List Item} {net : Net} {id src : Nat} {g : ConvSpec} {l : List Item}
    (hn : net.nodes[id]? = some (.conv src g)) (h : Den fut net id l) :
    ∃ l', Den fut net src l' ∧ l = l'.filterMap (convItem g.fn) := by
  cases h with
  | conv h1 h2 => rw [hn] at h1; cases h1; exact ⟨_, h2, rfl⟩
  | _ => simp_all

theorem Den.child_inv {fut : Nat → List Item} {net : Net} {id par idx src : Nat} {core : CopyCore} {l : List Item}
    (hn : net.nodes[id]? = some (.child par idx)) (hp : net.nodes[par]? = some (.parent src core))
    (h : Den fut net id l) :
    ∃ k, core.cursors[idx]? = some (some k) ∧
      ((core.eofSeen = false ∧ ∃ l', Den fut net src l' ∧ l = core.log.drop k ++ l') ∨
       (core.eofSeen = true ∧ l = core.log.drop k)) := by
  cases h with
  | childOpen h1 h2 h3 h4 h5 =>
    rw [hn] at h1; cases h1; rw [hp] at h2; cases h2
    exact ⟨_, h3, .inl ⟨h4, _, h5, rfl⟩⟩
  | childEof h1 h2 h3 h4 =>
    rw [hn] at h1; cases h1; rw [hp] at h2; cases h2
    exact ⟨_, h3, .inr ⟨h4, rfl⟩⟩
  | _ => simp_all

theorem Den.merge_inv {fut : Nat → List Item} {net : Net} {id : Nat} {sts chosen : List Nat} {l : List Item}
    (hn : net.nodes[id]? = some (.merge sts chosen)) (h : Den fut net id l) :
    ∃ ls : Nat → List Item, (∀ sb sid, sb ∈ chosen → sts[sb]? = some sid → Den fut net sid (ls sb)) ∧
      Inter chosen ls l := by
  cases h with
  | merge h1 h2 h3 => rw [hn] at h1; cases h1; exact ⟨_, h2, h3⟩
  | _ => simp_all

theorem Den.fwd_inv {fut : Nat → List Item} {net : Net} {id src : Nat} {st : FwdSt} {l : List Item}
    (hn : net.nodes[id]? = some (.fpipe src st)) (h : Den fut net id l) :
    (st = .running ∧ Den fut net src l) ∨ (st = .ended ∧ l = []) := by
  cases h with
  | fwd h1 h2 => rw [hn] at h1; cases h1; exact .inl ⟨rfl, h2⟩
  | fwdEnded h1 => rw [hn] at h1; cases h1; exact .inr ⟨rfl, rfl⟩
  | _ => simp_all

theorem Den.parent_inv {fut : Nat → List Item} {net : Net} {id src : Nat} {core : CopyCore} {l : List Item}
    (hn : net.nodes[id]? = some (.parent src core)) (h : Den fut net id l) : False := by
  cases h <;> simp_all

/-- the node a specified reader sits on -/
theorem Den.node {fut : Nat → List Item} {net : Net} {id : Nat} {l : List Item} (h : Den fut net id l) :
    ∃ nd, net.nodes[id]? = some nd := by
  cases h <;> exact ⟨_, by assumption⟩

theorem edge_conv {net : Net} {id src : Nat} {g : ConvSpec} (h : net.nodes[id]? = some (.conv src g)) : Edge net id src :=
  ⟨_, shp?_some h, .inl (by simp [Node.shp, Shp.uses])⟩
theorem edge_child {net : Net} {id par idx : Nat} (h : net.nodes[id]? = some (.child par idx)) : Edge net id par :=
  ⟨_, shp?_some h, .inr (by simp [Node.shp, Shp.par?])⟩
theorem edge_parent {net : Net} {par src : Nat} {core : CopyCore} (h : net.nodes[par]? = some (.parent src core)) : Edge net par src :=
  ⟨_, shp?_some h, .inl (by simp [Node.shp, Shp.uses])⟩
theorem edge_merge {net : Net} {id sid : Nat} {sts chosen : List Nat} (h : net.nodes[id]? = some (.merge sts chosen))
    (hs : sid ∈ sts) : Edge net id sid :=
  ⟨_, shp?_some h, .inl (by simpa [Node.shp, Shp.uses] using hs)⟩
theorem edge_fwd {net : Net} {id src : Nat} {st : FwdSt} (h : net.nodes[id]? = some (.fpipe src st)) : Edge net id src :=
  ⟨_, shp?_some h, .inl (by simp [Node.shp, Shp.uses])⟩

/-! ## `Den` only looks at the nodes the reader is built on -/

theorem Den.congr {fut : Nat → List Item} {net net' : Net} {j : Nat} {l : List Item}
    (h : Den fut net' j l) (hs : ∀ k, Up net j k → net'.nodes[k]? = net.nodes[k]?) : Den fut net j l := by
  induction h with
  | pipe h1 => rw [hs _ (.refl _)] at h1; exact .pipe h1
  | arr h1 => rw [hs _ (.refl _)] at h1; exact .arr h1
  | @conv id src g l h1 _ ih =>
    rw [hs _ (.refl _)] at h1
    have he : Edge net id src := edge_conv h1
    exact .conv h1 (ih fun k hk => hs k (.step he hk))
  | @childOpen id par idx src k core l h1 h2 h3 h4 _ ih =>
    rw [hs _ (.refl _)] at h1
    have he : Edge net id par := edge_child h1
    rw [hs _ (.single he)] at h2
    have he2 : Edge net par src := edge_parent h2
    exact .childOpen h1 h2 h3 h4 (ih fun k hk => hs k (.step he (.step he2 hk)))
  | @childEof id par idx src k core h1 h2 h3 h4 =>
    rw [hs _ (.refl _)] at h1
    have he : Edge net id par := edge_child h1
    rw [hs _ (.single he)] at h2
    exact .childEof h1 h2 h3 h4
  | @merge id sts chosen ls l h1 h2 h3 ih =>
    rw [hs _ (.refl _)] at h1
    refine .merge h1 (fun sb sid hsb hsid => ih sb sid hsb hsid fun k hk => ?_) h3
    have he : Edge net id sid := edge_merge h1 (List.mem_of_getElem? hsid)
    exact hs k (.step he hk)
  | @fwd id src l h1 _ ih =>
    rw [hs _ (.refl _)] at h1
    have he : Edge net id src := edge_fwd h1
    exact .fwd h1 (ih fun k hk => hs k (.step he hk))
  | fwdEnded h1 => rw [hs _ (.refl _)] at h1; exact .fwdEnded h1

end EinoV.C08
