import EinoV.Model.C19Callbacks
namespace EinoV.C19.Cb

theorem handedAux_every (seen : List Nat) (l : List Occ) (i : Nat) :
    handedAux .everyKept seen l i = (List.range l.length).map (· + i) := by
  induction l generalizing seen i with
  | nil => simp [handedAux]
  | cons o rest ih =>
    simp only [handedAux, List.length_cons, List.range_succ_eq_map, List.map_cons, List.map_map, ih]
    simp only [Nat.zero_add, List.cons.injEq, true_and]
    apply List.map_congr_left
    intro a _
    simp only [Function.comp]
    omega

theorem handedAux_skip_le (seen : List Nat) (l : List Occ) (i : Nat) :
    (handedAux .skipRepeated seen l i).length ≤ l.length := by
  induction l generalizing seen i with
  | nil => simp [handedAux]
  | cons o rest ih =>
    simp only [handedAux]
    split
    · have := ih seen (i + 1); simp only [List.length_cons]; omega
    · have := ih (o.id :: seen) (i + 1); simp only [List.length_cons]; omega

theorem handedAux_skip_seen (seen : List Nat) (o : Occ) (rest : List Occ) (i : Nat)
    (h : seen.contains o.id = true) :
    (handedAux .skipRepeated seen (o :: rest) i).length ≤ rest.length := by
  simp only [handedAux, h, ↓reduceIte]
  exact handedAux_skip_le _ _ _

end EinoV.C19.Cb
