/-
  C10 — helper lemmas about the units of an interrupted / resumed run (Model/C10Runs.lean)
  and about the run info of a unit of a compose case (Model/C10.lean `progOf`).
  The compose-level facts are hypotheses here; Props/C10.lean instantiates them with the
  regenerated ones.
-/
import EinoV.Model.C10
import EinoV.Model.C10Runs
import EinoV.Proofs.C10

namespace EinoV.C10

/-- the program of a unit is one start timing followed by one finishing timing -/
def Paired (cf : CFacts) (k : UKind) : Prop :=
  ∃ s e, kindProg cf k = [s, e] ∧ s.isStart = true ∧ e.isStart = false

theorem paired_wrapped {cf : CFacts} (hw : cf.wrapperOnErrorAlways = true) (s : Bool) (k : EndKind) :
    Paired cf (.wrapped s k) := by
  refine ⟨startT s, endT k, ?_, by cases s <;> rfl, by cases k <;> rfl⟩
  cases k <;> simp [kindProg, wrapperCalls, hw, endT]

theorem paired_graph {cf : CFacts} (hd : cf.hasDefer = true) (hs : cf.deferStarts = true) (s : Bool) (p : RunPath) :
    Paired cf (.graph s p) := by
  refine ⟨startT s, (match p with | .ok => (if s then Timing.endStream else Timing.end_) | _ => Timing.error), ?_, ?_, ?_⟩
  · simp only [kindProg, hd, hs]
    cases p <;> cases s <;> rfl
  · cases s <;> rfl
  · cases p <;> cases s <;> rfl

theorem paired_lamKind {cf : CFacts} (hw : cf.wrapperOnErrorAlways = true) (lk : LK) (self act : Bool) :
    Paired cf (lamKind lk self act) := by
  unfold lamKind
  cases self
  · exact paired_wrapped hw _ _
  · exact ⟨.start, _, rfl, rfl, by cases act <;> rfl⟩

theorem paired_toolKind {cf : CFacts} (hw : cf.wrapperOnErrorAlways = true) (t : ToolD) (stream act : Bool) :
    Paired cf (t.kind stream act) := by
  unfold ToolD.kind
  cases hcb : t.cb
  · exact paired_wrapped hw _ _
  · refine ⟨.start, _, rfl, rfl, ?_⟩
    cases act <;> cases t.usesStream stream <;> rfl

theorem paired_innerUnits {cf : CFacts} (hw : cf.wrapperOnErrorAlways = true) (stream first : Bool)
    (pre : List String) (n : InnerD) (u : UnitSpec) (hu : u ∈ innerUnits stream first pre n) :
    Paired cf u.kind := by
  cases n with
  | lam key lk self intr =>
    simp only [innerUnits, List.mem_singleton] at hu
    subst hu
    exact paired_lamKind hw _ _ _
  | tools key ts =>
    simp only [innerUnits, List.mem_cons, List.mem_map] at hu
    rcases hu with rfl | ⟨t, _, rfl⟩
    · exact paired_wrapped hw _ _
    · exact paired_toolKind hw _ _ _

theorem paired_levelUnits {cf : CFacts} (hw : cf.wrapperOnErrorAlways = true) (stream first : Bool)
    (pre : List String) (ns : List InnerD) (u : UnitSpec) (hu : u ∈ levelUnits stream first pre ns) :
    Paired cf u.kind := by
  simp only [levelUnits, List.mem_append, List.mem_flatMap] at hu
  rcases hu with ⟨n, _, hn⟩ | hj
  · exact paired_innerUnits hw _ _ _ n u hn
  · split at hj
    · simp at hj
    · simp only [List.mem_singleton] at hj
      subst hj
      exact paired_wrapped hw _ _

theorem paired_topUnits {cf : CFacts} (hd : cf.hasDefer = true) (hs : cf.deferStarts = true)
    (hw : cf.wrapperOnErrorAlways = true) (stream first : Bool) (n : TopD) (u : UnitSpec)
    (hu : u ∈ topUnits stream first n) : Paired cf u.kind := by
  cases n with
  | inner n => exact paired_innerUnits hw _ _ _ n u hu
  | sub key ns =>
    simp only [topUnits, List.mem_cons] at hu
    rcases hu with rfl | hu
    · exact paired_graph hd hs _ _
    · exact paired_levelUnits hw _ _ _ ns u hu

theorem paired_runUnits {cf : CFacts} (hd : cf.hasDefer = true) (hs : cf.deferStarts = true)
    (hw : cf.wrapperOnErrorAlways = true) (sh : Shape) (first : Bool) (u : UnitSpec)
    (hu : u ∈ runUnits sh first) : Paired cf u.kind := by
  simp only [runUnits, List.mem_cons, List.mem_append, List.mem_flatMap] at hu
  rcases hu with rfl | ⟨n, _, hn⟩ | hj
  · exact paired_graph hd hs _ _
  · exact paired_topUnits hd hs hw _ _ n u hn
  · split at hj
    · simp at hj
    · simp only [List.mem_singleton] at hj
      subst hj
      exact paired_wrapped hw _ _


/-! ## a refused resume -/

theorem paired_failedResumeUnits {cf : CFacts} (hd : cf.hasDefer = true) (hs : cf.deferStarts = true)
    (hw : cf.wrapperOnErrorAlways = true) (sh : Shape) (w : ResumeFail) (u : UnitSpec)
    (hu : u ∈ failedResumeUnits sh w) : Paired cf u.kind := by
  cases w with
  | top =>
    simp only [failedResumeUnits, List.mem_singleton] at hu
    subst hu
    exact paired_graph hd hs _ _
  | sub key =>
    simp only [failedResumeUnits, List.mem_cons, List.mem_flatMap] at hu
    rcases hu with rfl | ⟨n, _, hn⟩
    · exact paired_graph hd hs _ _
    · cases n with
      | inner m => exact paired_topUnits hd hs hw _ _ _ u hn
      | sub k ns =>
        dsimp only at hn
        split at hn
        · simp only [List.mem_singleton] at hn
          subst hn
          exact paired_graph hd hs _ _
        · exact paired_topUnits hd hs hw _ _ _ u hn

/-! ## nothing interrupts in the resumed run -/

theorem resumed_innerUnits (stream : Bool) (pre : List String) (n : InnerD) (u : UnitSpec)
    (hu : u ∈ innerUnits stream false pre n) : u.kind.isInterrupt = false := by
  cases n with
  | lam key lk self intr =>
    simp only [innerUnits, List.mem_singleton] at hu
    subst hu
    cases self <;> cases lk <;> simp [lamKind, UKind.isInterrupt, LK.outStream]
  | tools key ts =>
    simp only [innerUnits, List.mem_cons, List.mem_map] at hu
    rcases hu with rfl | ⟨t, _, rfl⟩
    · cases stream <;> simp [UKind.isInterrupt]
    · simp only [ToolD.kind, Bool.false_and]
      cases t.cb <;> cases t.usesStream stream <;> simp [UKind.isInterrupt]

theorem resumed_levelUnits (stream : Bool) (pre : List String) (ns : List InnerD) (u : UnitSpec)
    (hu : u ∈ levelUnits stream false pre ns) : u.kind.isInterrupt = false := by
  simp only [levelUnits, List.mem_append, List.mem_flatMap, Bool.false_and] at hu
  rcases hu with ⟨n, _, hn⟩ | hj
  · exact resumed_innerUnits _ _ n u hn
  · simp at hj
    subst hj
    rfl

theorem resumed_runUnits (sh : Shape) (u : UnitSpec) (hu : u ∈ runUnits sh false) :
    u.kind.isInterrupt = false := by
  simp only [runUnits, List.mem_cons, List.mem_append, List.mem_flatMap, Bool.false_and] at hu
  rcases hu with rfl | ⟨n, _, hn⟩ | hj
  · rfl
  · cases n with
    | inner n => exact resumed_innerUnits _ _ n u hn
    | sub key ns =>
      simp only [topUnits, List.mem_cons, Bool.false_and] at hn
      rcases hn with rfl | hn
      · rfl
      · exact resumed_levelUnits _ _ ns u hn
  · simp at hj
    subst hj
    rfl

/-! ## the run info a unit of a compose case fires its callbacks with -/

theorem mkUnit_info (cf : CFacts) (c : Case) (root : UnitDecl) (shift : Nat) (u : UnitSpec) :
    (mkUnit cf c root shift u).info = effInfo cf c.units u := by
  unfold mkUnit
  split <;> rfl

theorem effInfo_own {cf : CFacts} (ht : cf.toolOwnInfoAlways = true) (us : List UnitSpec) (u : UnitSpec) :
    effInfo cf us u = u.info := by
  simp [effInfo, ht]

/-- index of `c.units[k]` in the unit machine's program -/
def shiftOf (c : Case) : Nat := if c.userInit.isSome then 1 else 0

theorem unitInfo_progOf {cf : CFacts} (ht : cf.toolOwnInfoAlways = true) (c : Case) (k : Nat) (u : UnitSpec)
    (hu : c.units[k]? = some u) : unitInfo (progOf cf c) (k + shiftOf c) = u.info := by
  unfold progOf shiftOf unitInfo
  cases hui : c.userInit with
  | none => simp [List.getElem?_map, hu, mkUnit_info, effInfo_own ht]
  | some p => simp [List.getElem?_map, hu, mkUnit_info, effInfo_own ht]

/-! ## start / finish counters -/

def countStart (log : List LogEv) (i : Nat) (h : Hd) : Nat :=
  countEv log i h .start + countEv log i h .startStream

def countFinish (log : List LogEv) (i : Nat) (h : Hd) : Nat :=
  countEv log i h .end_ + countEv log i h .error + countEv log i h .endStream

end EinoV.C10
