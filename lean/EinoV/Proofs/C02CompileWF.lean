import EinoV.Proofs.C02Compile
import EinoV.Spec.GraphDefWF
import EinoV.Proofs.C02Confluence

namespace EinoV.Engine
namespace DagRun

/-! ### every well-formed acyclic graph definition compiles to a well-formed runner -/

theorem lookupList_addPred_inv (m : List (Key × List Key)) (to from_ t p : Key)
    (h : p ∈ lookupList t (addPred m to from_)) : p ∈ lookupList t m ∨ (t = to ∧ p = from_) := by
  unfold lookupList addPred at *
  by_cases e : t = to
  · subst e
    rw [alookup_aset_same] at h
    simp only [Option.getD_some, List.mem_append, List.mem_singleton] at h
    rcases h with h | h
    · exact Or.inl h
    · exact Or.inr ⟨rfl, h⟩
  · rw [alookup_aset_other _ _ _ _ e] at h; exact Or.inl h

theorem edgePreds_inv (edges : List (Key × Key)) (m : List (Key × List Key)) (t p : Key)
    (h : p ∈ lookupList t (edges.foldl (fun m e => addPred m e.2 e.1) m)) :
    p ∈ lookupList t m ∨ (p, t) ∈ edges := by
  induction edges generalizing m with
  | nil => exact Or.inl h
  | cons e rest ih =>
    simp only [List.foldl_cons] at h
    rcases ih _ h with h1 | h1
    · rcases lookupList_addPred_inv m e.2 e.1 t p h1 with h2 | ⟨rfl, rfl⟩
      · exact Or.inl h2
      · exact Or.inr (by simp)
    · exact Or.inr (List.mem_cons_of_mem _ h1)

theorem endsPreds_inv (from_ : Key) (ends : List Key) (m : List (Key × List Key)) (t p : Key)
    (h : p ∈ lookupList t (ends.foldl (fun m e => addPred m e from_) m)) :
    p ∈ lookupList t m ∨ (p = from_ ∧ t ∈ ends) := by
  induction ends generalizing m with
  | nil => exact Or.inl h
  | cons e rest ih =>
    simp only [List.foldl_cons] at h
    rcases ih _ h with h1 | ⟨h1, h2⟩
    · rcases lookupList_addPred_inv m e from_ t p h1 with h2 | ⟨rfl, rfl⟩
      · exact Or.inl h2
      · exact Or.inr ⟨rfl, by simp⟩
    · exact Or.inr ⟨h1, List.mem_cons_of_mem _ h2⟩

theorem brPreds_inv {V} (sel : Branch V → Bool) (brs : List (Key × Branch V)) (m : List (Key × List Key)) (t p : Key)
    (h : p ∈ lookupList t (brs.foldl (fun m b => if sel b.2 then b.2.ends.foldl (fun m e => addPred m e b.1) m else m) m)) :
    p ∈ lookupList t m ∨ ∃ b, b ∈ brs ∧ sel b.2 = true ∧ b.1 = p ∧ t ∈ b.2.ends := by
  induction brs generalizing m with
  | nil => exact Or.inl h
  | cons b rest ih =>
    simp only [List.foldl_cons] at h
    rcases ih _ h with h1 | ⟨b', hb', hs, hk, ht⟩
    · by_cases hsel : sel b.2 = true
      · simp only [hsel, ↓reduceIte] at h1
        rcases endsPreds_inv b.1 b.2.ends m t p h1 with h2 | ⟨rfl, h2⟩
        · exact Or.inl h2
        · exact Or.inr ⟨b, by simp, hsel, rfl, h2⟩
      · simp only [hsel, Bool.false_eq_true, ↓reduceIte] at h1
        exact Or.inl h1
    · exact Or.inr ⟨b', List.mem_cons_of_mem _ hb', hs, hk, ht⟩

/-- where the control predecessors of a compiled graph come from -/
theorem compile_ctrlPreds_inv {V} (slack : Nat) (g : GraphDef V) (t p : Key)
    (h : p ∈ lookupList t (compile slack g).ctrlPreds) :
    (p, t) ∈ g.edges ∨ ∃ b, b ∈ g.branches ∧ b.1 = p ∧ t ∈ b.2.ends := by
  simp only [compile] at h
  have h' : p ∈ lookupList t (g.branches.foldl (fun m b => if (fun _ : Branch V => true) b.2 then
      b.2.ends.foldl (fun m e => addPred m e b.1) m else m) (g.edges.foldl (fun m e => addPred m e.2 e.1) [])) := by
    simpa using h
  rcases brPreds_inv (fun _ => true) g.branches _ t p h' with h1 | ⟨b, hb, _, hk, ht⟩
  · rcases edgePreds_inv g.edges [] t p h1 with h2 | h2
    · simp [lookupList, alookup] at h2
    · exact Or.inl h2
  · exact Or.inr ⟨b, hb, hk, ht⟩

theorem compile_dataPreds_inv {V} (slack : Nat) (g : GraphDef V) (t p : Key)
    (h : p ∈ lookupList t (compile slack g).dataPreds) :
    (p, t) ∈ g.edges ∨ ∃ b, b ∈ g.branches ∧ b.2.noData = false ∧ b.1 = p ∧ t ∈ b.2.ends := by
  simp only [compile] at h
  have h' : p ∈ lookupList t (g.branches.foldl (fun m b => if (fun b : Branch V => !b.noData) b.2 then
      b.2.ends.foldl (fun m e => addPred m e b.1) m else m) (g.edges.foldl (fun m e => addPred m e.2 e.1) [])) := by
    have : (fun (m : List (Key × List Key)) (b : Key × Branch V) => if b.2.noData = true then m else
        b.2.ends.foldl (fun m e => addPred m e b.1) m) =
        (fun m b => if (!b.2.noData) = true then b.2.ends.foldl (fun m e => addPred m e b.1) m else m) := by
      funext m b; cases b.2.noData <;> simp
    rw [this] at h; exact h
  rcases brPreds_inv (fun b => !b.noData) g.branches _ t p h' with h1 | ⟨b, hb, hs, hk, ht⟩
  · rcases edgePreds_inv g.edges [] t p h1 with h2 | h2
    · simp [lookupList, alookup] at h2
    · exact Or.inl h2
  · exact Or.inr ⟨b, hb, by simpa using hs, hk, ht⟩

theorem compile_keys {V} (slack : Nat) (g : GraphDef V) :
    akeys (initChans (compile slack g)) = g.nodes.map (·.1) ++ [END] := by
  simp [initChans, akeys, compile, List.map_map, Function.comp]

theorem compile_shape {V} (slack : Nat) (g : GraphDef V) (hd : g.dag = true) (n : Key) (cs ds : List Key)
    (h : (n, cs, ds) ∈ shapes (initChans (compile slack g))) :
    (∀ p, p ∈ cs ↔ p ∈ lookupList n (compile slack g).ctrlPreds) ∧
    (∀ p, p ∈ ds ↔ p ∈ lookupList n (compile slack g).dataPreds) := by
  simp only [shapes, List.mem_map] at h
  obtain ⟨⟨n', c⟩, hc, he⟩ := h
  simp only [Prod.mk.injEq] at he
  obtain ⟨rfl, he⟩ := he
  have hdag : (compile slack g).dag = true := by simp [compile, hd]
  have hinit : c = Chan.init true (lookupList n' (compile slack g).ctrlPreds) (lookupList n' (compile slack g).dataPreds) := by
    simp only [initChans, List.mem_append, List.mem_map, List.mem_singleton, Prod.mk.injEq] at hc
    rcases hc with ⟨nd, _, rfl, rfl⟩ | ⟨rfl, rfl⟩
    · rw [hdag]
    · rw [hdag]
  have e1 : cs = akeys c.ctrl := by have := congrArg Prod.fst he; simpa [shapeOf] using this.symm
  have e2 : ds = akeys c.data := by have := congrArg Prod.snd he; simpa [shapeOf] using this.symm
  rw [e1, e2, hinit]
  simp only [Chan.init, ↓reduceIte, akeys, List.map_map]
  constructor <;> intro p <;> simp [Function.comp]

theorem compile_call {V} (slack : Nat) (g : GraphDef V) (p : Key) (nd : Node V)
    (h : (compile slack g).call? p = some nd) :
    nd.writeTo = (g.edges.filter (·.1 == p)).map (·.2) ∧ nd.controls = (g.edges.filter (·.1 == p)).map (·.2) ∧
    nd.branches = (g.branches.filter (·.1 == p)).map (·.2) := by
  obtain ⟨hm, hk⟩ := call?_some (compile slack g) rfl p nd h
  rcases hm with hm | rfl
  · simp only [compile, List.mem_map] at hm
    obtain ⟨q, _, rfl⟩ := hm
    simp only at hk
    subst hk
    exact ⟨rfl, rfl, rfl⟩
  · simp only [compile] at hk
    subst hk
    exact ⟨rfl, rfl, rfl⟩

/-- **every well-formed acyclic graph definition compiles to a runner that satisfies all the
    hypotheses of the run-level theorems** -/
theorem compile_wf {V} (slack : Nat) (g : GraphDef V) (w : GraphDefWF g) :
    DagWF (compile slack g) ∧ DagWF2 (compile slack g) ∧ DagWF3 (compile slack g) := by
  obtain ⟨rank, hre, hrb⟩ := w.acyclic
  have hse : START ≠ END := by decide
  have hkeys := compile_keys slack g
  have rankC : ∀ n p, p ∈ lookupList n (compile slack g).ctrlPreds → rank p < rank n := by
    intro n p hp
    rcases compile_ctrlPreds_inv slack g n p hp with h | ⟨b, hb, hk, ht⟩
    · exact hre (p, n) h
    · rw [← hk]; exact hrb b hb n ht
  have rankD : ∀ n p, p ∈ lookupList n (compile slack g).dataPreds → rank p < rank n := by
    intro n p hp
    rcases compile_dataPreds_inv slack g n p hp with h | ⟨b, hb, _, hk, ht⟩
    · exact hre (p, n) h
    · rw [← hk]; exact hrb b hb n ht
  have rankS : ∀ n cs ds, (n, cs, ds) ∈ shapes (initChans (compile slack g)) → ∀ p, p ∈ cs ∨ p ∈ ds → rank p < rank n := by
    intro n cs ds hm p hp
    obtain ⟨a, b⟩ := compile_shape slack g w.dag n cs ds hm
    rcases hp with hp | hp
    · exact rankC n p ((a p).mp hp)
    · exact rankD n p ((b p).mp hp)
  have targetKey : ∀ n p, p ∈ lookupList n (compile slack g).ctrlPreds → n ∈ akeys (initChans (compile slack g)) := by
    intro n p hp
    rw [hkeys]
    rcases compile_ctrlPreds_inv slack g n p hp with h | ⟨b, hb, _, ht⟩
    · rcases w.edgeTo (p, n) h with h1 | h1
      · simp only at h1; simp [h1]
      · simp only at h1; exact List.mem_append_left _ h1
    · rcases w.brTo b hb n ht with h1 | h1
      · simp [h1]
      · exact List.mem_append_left _ h1
  refine ⟨⟨by simp [compile, w.dag], ?_, rfl, ?_, compile_succOK slack g w.dag, ⟨rank, rankS⟩⟩, ⟨?_, ?_, ?_⟩, ⟨?_, ?_, ⟨rank, rankS, ?_⟩⟩⟩
  · rw [hkeys]
    exact List.nodup_append.mpr ⟨w.keys, by simp, by
      intro a ha b hb
      simp at hb; subst hb
      exact fun e => w.noEnd (e ▸ ha)⟩
  · rw [hkeys]
    simp only [List.mem_append, List.mem_singleton, not_or]
    exact ⟨w.noStart, hse⟩
  · -- PredSuccC
    intro m cs ds hm p hp nd hn
    obtain ⟨a, _⟩ := compile_shape slack g w.dag m cs ds hm
    obtain ⟨_, hc, hb⟩ := compile_call slack g p nd hn
    rcases compile_ctrlPreds_inv slack g m p ((a p).mp hp) with h | ⟨b, hbm, hk, ht⟩
    · left
      rw [hc]
      exact List.mem_map.mpr ⟨(p, m), List.mem_filter.mpr ⟨h, by simp⟩, rfl⟩
    · right
      rw [hb]
      simp only [List.mem_flatMap, List.mem_map, List.mem_filter]
      exact ⟨b.2, ⟨b, ⟨hbm, by simp [hk]⟩, rfl⟩, ht⟩
  · -- PredSuccD
    intro m cs ds hm p hp nd hn
    obtain ⟨_, bq⟩ := compile_shape slack g w.dag m cs ds hm
    obtain ⟨hw, hc, hb⟩ := compile_call slack g p nd hn
    rcases compile_dataPreds_inv slack g m p ((bq p).mp hp) with h | ⟨b, hbm, _, hk, ht⟩
    · left
      rw [hw]
      exact List.mem_map.mpr ⟨(p, m), List.mem_filter.mpr ⟨h, by simp⟩, rfl⟩
    · by_cases hin : m ∈ nd.controls
      · left; rw [hw, ← hc]; exact hin
      · right
        refine ⟨?_, hin⟩
        rw [hb]
        simp only [List.mem_flatMap, List.mem_map, List.mem_filter]
        exact ⟨b.2, ⟨b, ⟨hbm, by simp [hk]⟩, rfl⟩, ht⟩
  · -- p4
    intro n hne
    cases hl : lookupList n (compile slack g).ctrlPreds with
    | nil => exact absurd hl hne
    | cons p t => exact targetKey n p (by rw [hl]; simp)
  · -- hasCtrl
    intro n cs ds hm hcs
    obtain ⟨a, b⟩ := compile_shape slack g w.dag n cs ds hm
    cases hds : ds with
    | nil => rfl
    | cons p t =>
      exfalso
      have hp : p ∈ lookupList n (compile slack g).dataPreds := (b p).mp (by rw [hds]; simp)
      have : p ∈ lookupList n (compile slack g).ctrlPreds := by
        rcases compile_dataPreds_inv slack g n p hp with h | ⟨br, hbm, _, hk, ht⟩
        · simp only [compile]
          exact ctrlPreds_mono g.branches _ n p (edgePreds_mem g.edges [] p n h)
        · simp only [compile]
          rw [← hk]
          exact ctrlPreds_mem g.branches _ br.1 br.2 hbm n ht
      have := (a p).mpr this
      rw [hcs] at this; simp at this
  · -- startNoPreds
    cases hl : lookupList START (compile slack g).ctrlPreds with
    | nil => rfl
    | cons p t =>
      exfalso
      have := targetKey START p (by rw [hl]; simp)
      rw [hkeys] at this
      simp only [List.mem_append, List.mem_singleton] at this
      rcases this with h | h
      · exact w.noStart h
      · exact hse h
  · intro n p hp
    rcases hp with hp | hp
    · exact rankC n p hp
    · exact rankD n p hp

/-- the executable check of `GraphDefWF` (evaluated by the C02 oracle on every generated
    all-predecessor case eino compiled) implies it: the check tests a computed rank on every edge
    and branch end, so the rank is the witness -/
theorem graphDefWFb_sound {V} (g : GraphDef V) (h : graphDefWFb g = true) : GraphDefWF g := by
  simp only [graphDefWFb, Bool.and_eq_true, Bool.not_eq_true', List.all_eq_true, Bool.or_eq_true,
    beq_iff_eq, List.contains_eq_mem, decide_eq_true_eq, decide_eq_false_iff_not] at h
  obtain ⟨⟨⟨⟨⟨⟨⟨h1, h2⟩, h3⟩, h4⟩, h5⟩, h6⟩, h7⟩, h8⟩ := h
  exact ⟨h1, nodupb_sound _ h2, h3, h4, h5, h6, ⟨_, h7, h8⟩⟩

end DagRun
end EinoV.Engine
