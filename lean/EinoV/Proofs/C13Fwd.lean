/-
  C13 — helper lemmas about the stream-forwarding model (Model/C13Fwd.lean) and the
  context-end model (Model/C13.lean, `ctxEndThrough`).  Property statements: Props/C13.lean.
-/
import EinoV.Model.C13
import EinoV.Model.C13Fwd
import EinoV.Proofs.C13

namespace EinoV.C13

/-- only a converted reader or a copy can make `Recv` panic on its puller -/
theorem build_panics_ty (f : FwdFacts) (t : STree) : ∀ (r : Rd), build f t = some r →
    r.panics.isSome = true → (r.ty = .conv ∨ r.ty = .child) := by
  induction t with
  | arr xs => intro r h hp; simp [build] at h; subst h; simp at hp
  | pipe xs => intro r h hp; simp [build] at h; subst h; simp at hp
  | conv s p e ih =>
    intro r h hp
    simp only [build] at h
    split at h
    · simp at h
    · simp at h; subst h; exact Or.inl rfl
  | copy s ih =>
    intro r h hp
    simp only [build] at h
    split at h
    · simp at h
    · rename_i r' hr'
      simp at h; subst h
      have := ih r' hr' hp
      rcases this with h1 | h1 <;> simp [h1]
  | merge a b iha ihb =>
    intro r h hp
    simp only [build] at h
    split at h
    · split at h
      · simp at h; subst h; simp at hp
      · split at h
        · simp at h; subst h; simp at hp
        · simp at h
    · simp at h

theorem mergeSide_recovering (r : Rd) :
    mergeSide ⟨true, true⟩ r = some (match r.panics with
      | none => r.evs
      | some v => if r.ty = .conv ∨ r.ty = .child then r.evs ++ [.perr v] else r.evs) := by
  unfold mergeSide forward
  cases hp : r.panics <;> cases ht : r.ty <;> simp

/-- with both forwarding goroutines recovering nothing ever kills the process -/
theorem build_recovering_isSome (t : STree) : (build ⟨true, true⟩ t).isSome = true := by
  induction t with
  | arr xs => simp [build]
  | pipe xs => simp [build]
  | conv s p e ih =>
    simp only [build]
    cases h : build ⟨true, true⟩ s with
    | none => simp [h] at ih
    | some r => simp
  | copy s ih =>
    simp only [build]
    cases h : build ⟨true, true⟩ s with
    | none => simp [h] at ih
    | some r => simp
  | merge a b iha ihb =>
    simp only [build]
    cases ha : build ⟨true, true⟩ a with
    | none => simp [ha] at iha
    | some ra =>
      cases hb : build ⟨true, true⟩ b with
      | none => simp [hb] at ihb
      | some rb =>
        simp only
        split
        · simp
        · rw [mergeSide_recovering ra, mergeSide_recovering rb]; simp

/-- what a merge of two readers delivers, both goroutines recovering -/
theorem build_merge_recovering (a b : STree) (ra rb r : Rd)
    (ha : build ⟨true, true⟩ a = some ra) (hb : build ⟨true, true⟩ b = some rb)
    (hr : build ⟨true, true⟩ (.merge a b) = some r) :
    r.panics = none ∧ (∀ e ∈ ra.evs, e ∈ r.evs) ∧ (∀ e ∈ rb.evs, e ∈ r.evs) ∧
    (∀ v, ra.panics = some v → Ev.perr v ∈ r.evs) ∧ (∀ v, rb.panics = some v → Ev.perr v ∈ r.evs) := by
  have hta := build_panics_ty ⟨true, true⟩ a ra ha
  have htb := build_panics_ty ⟨true, true⟩ b rb hb
  simp only [build, ha, hb] at hr
  split at hr
  · rename_i hc
    simp at hr; subst hr
    refine ⟨rfl, ?_, ?_, ?_, ?_⟩
    · intro e he; simp [he]
    · intro e he; simp [he]
    · intro v hv
      have := hta (by simp [hv])
      rcases this with h1 | h1 <;> simp [h1] at hc
    · intro v hv
      have := htb (by simp [hv])
      rcases this with h1 | h1 <;> simp [h1] at hc
  · rw [mergeSide_recovering ra, mergeSide_recovering rb] at hr
    simp at hr; subst hr
    refine ⟨rfl, ?_, ?_, ?_, ?_⟩
    · intro e he
      cases hp : ra.panics with
      | none => simp [he]
      | some v => by_cases hty : (ra.ty = .conv ∨ ra.ty = .child) <;> simp [hty, he]
    · intro e he
      cases hp : rb.panics with
      | none => simp [he]
      | some v => by_cases hty : (rb.ty = .conv ∨ rb.ty = .child) <;> simp [hty, he]
    · intro v hv
      have hty := hta (by simp [hv])
      simp [hv, hty]
    · intro v hv
      have hty := htb (by simp [hv])
      simp [hv, hty]


/-! ### the text of the error; observers -/

theorem hop_cache_none (hu : Bool) (st : ErrSt) (h : Hop) (hc : st.cache = none) :
    (hop hu false st h).cache = none := by
  cases h <;> simp [hop, observeSt, hc]

theorem foldl_hop_cache_none (hu : Bool) (hops : List Hop) (st : ErrSt) (hc : st.cache = none) :
    (hops.foldl (hop hu false) st).cache = none := by
  induction hops generalizing st with
  | nil => simpa using hc
  | cons h r ih => simp only [List.foldl_cons]; exact ih _ (hop_cache_none hu st h hc)

/-- without memoisation the text names whatever the path field holds at the end -/
theorem textPath_travel_noMemo (hu : Bool) (hops : List Hop) (e : GoErr) :
    textPath (travel hu false hops e) = nodePath (travel hu false hops e).err := by
  have := foldl_hop_cache_none hu hops { err := e, cache := none } rfl
  unfold textPath travel
  rw [this]

theorem nodePath_wrapf (x : GoErr) : nodePath (.wrapf x) = nodePath x := by
  simp [nodePath, asInternal]

theorem foldl_hop_path (hops : List Hop) (st : ErrSt) (hi : isInterrupt true st.err = false) :
    nodePath (hops.foldl (hop true false) st).err = (hopKeys hops).reverse ++ nodePath st.err
    ∧ isInterrupt true (hops.foldl (hop true false) st).err = false := by
  induction hops generalizing st with
  | nil => simp [hopKeys, hi]
  | cons h r ih =>
    simp only [List.foldl_cons]
    cases h with
    | wrap k =>
      have h1 : isInterrupt true (hop true false st (.wrap k)).err = false := by
        simp [hop, isInterrupt_wrapNode, hi]
      have := ih _ h1
      refine ⟨?_, this.2⟩
      rw [this.1]
      simp [hop, hopKeys, nodePath_wrapNode k st.err hi]
    | observe =>
      have h1 : isInterrupt true (hop true false st .observe).err = false := by
        simp [hop, observeSt, hi]
      have := ih _ h1
      refine ⟨?_, this.2⟩
      rw [this.1]; simp [hop, observeSt, hopKeys]
    | rewrap =>
      have h1 : isInterrupt true (hop true false st .rewrap).err = false := by
        simp [hop, observeSt, isInterrupt, hi]
      have := ih _ h1
      refine ⟨?_, this.2⟩
      rw [this.1]; simp [hop, observeSt, hopKeys, nodePath_wrapf]

theorem errorsIs_foldl_hop (memo : Bool) (hops : List Hop) (st : ErrSt) (t : Nat) :
    errorsIs true (hops.foldl (hop true memo) st).err t = errorsIs true st.err t := by
  induction hops generalizing st with
  | nil => rfl
  | cons h r ih =>
    simp only [List.foldl_cons]
    rw [ih]
    cases h with
    | wrap k => simp [hop, errorsIs_wrapNode]
    | observe => simp only [hop, observeSt]; split <;> rfl
    | rewrap => simp only [hop, observeSt]; split <;> simp [errorsIs]

theorem errorsIs_travel (memo : Bool) (hops : List Hop) (e : GoErr) (t : Nat) :
    errorsIs true (travel true memo hops e).err t = errorsIs true e t := by
  unfold travel; rw [errorsIs_foldl_hop]

/-! ### an interrupt and a node failure meet -/

theorem firstFailure_some_of_mem (hu : Bool) (ts : List (Key × Option GoErr))
    (h : ∃ k e, (k, some e) ∈ ts ∧ isInterrupt hu e = false) :
    ∃ k e, (k, some e) ∈ ts ∧ isInterrupt hu e = false ∧ firstFailure hu ts = some (k, e) := by
  induction ts with
  | nil => obtain ⟨k, e, hm, _⟩ := h; simp at hm
  | cons t rest ih =>
    obtain ⟨k0, r0⟩ := t
    cases r0 with
    | none =>
      obtain ⟨k, e, hm, hi⟩ := h
      have hm' : (k, some e) ∈ rest := by
        rcases List.mem_cons.mp hm with h1 | h1
        · cases h1
        · exact h1
      obtain ⟨k', e', h1, h2, h3⟩ := ih ⟨k, e, hm', hi⟩
      exact ⟨k', e', List.mem_cons_of_mem _ h1, h2, by simpa [firstFailure] using h3⟩
    | some e0 =>
      by_cases hi0 : isInterrupt hu e0 = true
      · obtain ⟨k, e, hm, hi⟩ := h
        have hm' : (k, some e) ∈ rest := by
          rcases List.mem_cons.mp hm with h1 | h1
          · cases h1; rw [hi0] at hi; cases hi
          · exact h1
        obtain ⟨k', e', h1, h2, h3⟩ := ih ⟨k, e, hm', hi⟩
        exact ⟨k', e', List.mem_cons_of_mem _ h1, h2, by simpa [firstFailure, hi0] using h3⟩
      · have hi0' : isInterrupt hu e0 = false := by simpa using hi0
        exact ⟨k0, e0, by simp, hi0', by simp [firstFailure, hi0']⟩

theorem firstFailure_none_of_no_failure (hu : Bool) (ts : List (Key × Option GoErr))
    (h : ∀ k e, (k, some e) ∈ ts → isInterrupt hu e = true) : firstFailure hu ts = none := by
  induction ts with
  | nil => rfl
  | cons t rest ih =>
    obtain ⟨k0, r0⟩ := t
    have ih' := ih (fun k e hm => h k e (List.mem_cons_of_mem _ hm))
    cases r0 with
    | none => simpa [firstFailure] using ih'
    | some e0 =>
      have := h k0 e0 (by simp)
      simpa [firstFailure, this] using ih'

/-- whatever the completion order: if a task really failed, the eager loop (drain checked) reports
    the wrapped error of a task that really failed -/
theorem eagerRun_failure_wins (hu : Bool) (point : Key → Bool) (ts : List (Key × Option GoErr))
    (h : ∃ k e, (k, some e) ∈ ts ∧ isInterrupt hu e = false) :
    ∃ k e, (k, some e) ∈ ts ∧ isInterrupt hu e = false ∧ eagerRun hu true point ts = .failed (wrapNode hu k e) := by
  induction ts with
  | nil => obtain ⟨k, e, hm, _⟩ := h; simp at hm
  | cons t rest ih =>
    obtain ⟨k0, r0⟩ := t
    cases r0 with
    | none =>
      obtain ⟨k, e, hm, hi⟩ := h
      have hm' : (k, some e) ∈ rest := by
        rcases List.mem_cons.mp hm with h1 | h1
        · cases h1
        · exact h1
      by_cases hp : point k0 = true
      · obtain ⟨k', e', h1, h2, h3⟩ := firstFailure_some_of_mem hu rest ⟨k, e, hm', hi⟩
        exact ⟨k', e', List.mem_cons_of_mem _ h1, h2, by simp [eagerRun, hp, drainAtInterrupt, h3]⟩
      · obtain ⟨k', e', h1, h2, h3⟩ := ih ⟨k, e, hm', hi⟩
        exact ⟨k', e', List.mem_cons_of_mem _ h1, h2, by simpa [eagerRun, hp] using h3⟩
    | some e0 =>
      by_cases hi0 : isInterrupt hu e0 = true
      · obtain ⟨k, e, hm, hi⟩ := h
        have hm' : (k, some e) ∈ rest := by
          rcases List.mem_cons.mp hm with h1 | h1
          · cases h1; rw [hi0] at hi; cases hi
          · exact h1
        obtain ⟨k', e', h1, h2, h3⟩ := firstFailure_some_of_mem hu rest ⟨k, e, hm', hi⟩
        exact ⟨k', e', List.mem_cons_of_mem _ h1, h2, by simp [eagerRun, hi0, drainAtInterrupt, h3]⟩
      · have hi0' : isInterrupt hu e0 = false := by simpa using hi0
        exact ⟨k0, e0, by simp, hi0', by simp [eagerRun, hi0']⟩

/-- without a real failure the loop never reports one -/
theorem eagerRun_no_failure (hu dc : Bool) (point : Key → Bool) (ts : List (Key × Option GoErr))
    (h : ∀ k e, (k, some e) ∈ ts → isInterrupt hu e = true) :
    eagerRun hu dc point ts = .interrupted ∨ eagerRun hu dc point ts = .goesOn := by
  induction ts with
  | nil => right; rfl
  | cons t rest ih =>
    obtain ⟨k0, r0⟩ := t
    have hrest : ∀ k e, (k, some e) ∈ rest → isInterrupt hu e = true := fun k e hm => h k e (List.mem_cons_of_mem _ hm)
    have hd : drainAtInterrupt hu dc rest = .interrupted := by
      unfold drainAtInterrupt
      cases dc <;> simp [firstFailure_none_of_no_failure hu rest hrest]
    cases r0 with
    | none =>
      by_cases hp : point k0 = true
      · left; simp [eagerRun, hp, hd]
      · simpa [eagerRun, hp] using ih hrest
    | some e0 =>
      have := h k0 e0 (by simp)
      left; simp [eagerRun, this, hd]

/-! ### the context of the run ends -/

theorem errorsIs_loopCtxError (rce : Bool) (c : CtxEnd) (t : Nat) :
    errorsIs true (loopCtxError rce c) t = ((if rce then c.id else canceledId) == t) := by
  simp [loopCtxError, errorsIs]

end EinoV.C13
