/-
  C13 — helper lemmas about the stream-forwarding model (Model/C13Fwd.lean) and the
  context-end model (Model/C13.lean, `ctxEndThrough`).  Property statements: Props/C13.lean.
-/
import EinoV.Model.C13
import EinoV.Model.C13Fwd
import EinoV.Proofs.C13

namespace EinoV.C13

/-- only a converted reader or a copy can make `Recv` panic on its puller -/
theorem build_panics_ty (f : FwdFacts) (t : STree) : ∀ (r : Rd), build f t = some r →
    r.panics.isSome = true → (r.ty = .conv ∨ r.ty = .child) := by
  induction t with
  | arr xs => intro r h hp; simp [build] at h; subst h; simp at hp
  | pipe xs => intro r h hp; simp [build] at h; subst h; simp at hp
  | conv s p e ih =>
    intro r h hp
    simp only [build] at h
    split at h
    · simp at h
    · simp at h; subst h; exact Or.inl rfl
  | copy s ih =>
    intro r h hp
    simp only [build] at h
    split at h
    · simp at h
    · rename_i r' hr'
      simp at h; subst h
      have := ih r' hr' hp
      rcases this with h1 | h1 <;> simp [h1]
  | merge a b iha ihb =>
    intro r h hp
    simp only [build] at h
    split at h
    · split at h
      · simp at h; subst h; simp at hp
      · split at h
        · simp at h; subst h; simp at hp
        · simp at h
    · simp at h

theorem mergeSide_recovering (r : Rd) :
    mergeSide ⟨true, true⟩ r = some (match r.panics with
      | none => r.evs
      | some v => if r.ty = .conv ∨ r.ty = .child then r.evs ++ [.perr v] else r.evs) := by
  unfold mergeSide forward
  cases hp : r.panics <;> cases ht : r.ty <;> simp

/-- with both forwarding goroutines recovering nothing ever kills the process -/
theorem build_recovering_isSome (t : STree) : (build ⟨true, true⟩ t).isSome = true := by
  induction t with
  | arr xs => simp [build]
  | pipe xs => simp [build]
  | conv s p e ih =>
    simp only [build]
    cases h : build ⟨true, true⟩ s with
    | none => simp [h] at ih
    | some r => simp
  | copy s ih =>
    simp only [build]
    cases h : build ⟨true, true⟩ s with
    | none => simp [h] at ih
    | some r => simp
  | merge a b iha ihb =>
    simp only [build]
    cases ha : build ⟨true, true⟩ a with
    | none => simp [ha] at iha
    | some ra =>
      cases hb : build ⟨true, true⟩ b with
      | none => simp [hb] at ihb
      | some rb =>
        simp only
        split
        · simp
        · rw [mergeSide_recovering ra, mergeSide_recovering rb]; simp

/-- what a merge of two readers delivers, both goroutines recovering -/
theorem build_merge_recovering (a b : STree) (ra rb r : Rd)
    (ha : build ⟨true, true⟩ a = some ra) (hb : build ⟨true, true⟩ b = some rb)
    (hr : build ⟨true, true⟩ (.merge a b) = some r) :
    r.panics = none ∧ (∀ e ∈ ra.evs, e ∈ r.evs) ∧ (∀ e ∈ rb.evs, e ∈ r.evs) ∧
    (∀ v, ra.panics = some v → Ev.perr v ∈ r.evs) ∧ (∀ v, rb.panics = some v → Ev.perr v ∈ r.evs) := by
  have hta := build_panics_ty ⟨true, true⟩ a ra ha
  have htb := build_panics_ty ⟨true, true⟩ b rb hb
  simp only [build, ha, hb] at hr
  split at hr
  · rename_i hc
    simp at hr; subst hr
    refine ⟨rfl, ?_, ?_, ?_, ?_⟩
    · intro e he; simp [he]
    · intro e he; simp [he]
    · intro v hv
      have := hta (by simp [hv])
      rcases this with h1 | h1 <;> simp [h1] at hc
    · intro v hv
      have := htb (by simp [hv])
      rcases this with h1 | h1 <;> simp [h1] at hc
  · rw [mergeSide_recovering ra, mergeSide_recovering rb] at hr
    simp at hr; subst hr
    refine ⟨rfl, ?_, ?_, ?_, ?_⟩
    · intro e he
      cases hp : ra.panics with
      | none => simp [he]
      | some v => by_cases hty : (ra.ty = .conv ∨ ra.ty = .child) <;> simp [hty, he]
    · intro e he
      cases hp : rb.panics with
      | none => simp [he]
      | some v => by_cases hty : (rb.ty = .conv ∨ rb.ty = .child) <;> simp [hty, he]
    · intro v hv
      have hty := hta (by simp [hv])
      simp [hv, hty]
    · intro v hv
      have hty := htb (by simp [hv])
      simp [hv, hty]


/-! ### the text of the error; observers -/

theorem hop_cache_none (hu : Bool) (st : ErrSt) (h : Hop) (hc : st.cache = none) :
    (hop hu false st h).cache = none := by
  cases h <;> simp [hop, observeSt, hc]

theorem foldl_hop_cache_none (hu : Bool) (hops : List Hop) (st : ErrSt) (hc : st.cache = none) :
    (hops.foldl (hop hu false) st).cache = none := by
  induction hops generalizing st with
  | nil => simpa using hc
  | cons h r ih => simp only [List.foldl_cons]; exact ih _ (hop_cache_none hu st h hc)

/-- without memoisation the text names whatever the path field holds at the end -/
theorem textPath_travel_noMemo (hu : Bool) (hops : List Hop) (e : GoErr) :
    textPath (travel hu false hops e) = nodePath (travel hu false hops e).err := by
  have := foldl_hop_cache_none hu hops { err := e, cache := none } rfl
  unfold textPath travel
  rw [this]

theorem nodePath_wrapf (x : GoErr) : nodePath (.wrapf x) = nodePath x := by
  simp [nodePath, asInternal]

theorem foldl_hop_path (hops : List Hop) (st : ErrSt) (hi : isInterrupt true st.err = false) :
    nodePath (hops.foldl (hop true false) st).err = (hopKeys hops).reverse ++ nodePath st.err
    ∧ isInterrupt true (hops.foldl (hop true false) st).err = false := by
  induction hops generalizing st with
  | nil => simp [hopKeys, hi]
  | cons h r ih =>
    simp only [List.foldl_cons]
    cases h with
    | wrap k =>
      have h1 : isInterrupt true (hop true false st (.wrap k)).err = false := by
        simp [hop, isInterrupt_wrapNode, hi]
      have := ih _ h1
      refine ⟨?_, this.2⟩
      rw [this.1]
      simp [hop, hopKeys, nodePath_wrapNode k st.err hi]
    | observe =>
      have h1 : isInterrupt true (hop true false st .observe).err = false := by
        simp [hop, observeSt, hi]
      have := ih _ h1
      refine ⟨?_, this.2⟩
      rw [this.1]; simp [hop, observeSt, hopKeys]
    | rewrap =>
      have h1 : isInterrupt true (hop true false st .rewrap).err = false := by
        simp [hop, observeSt, isInterrupt, hi]
      have := ih _ h1
      refine ⟨?_, this.2⟩
      rw [this.1]; simp [hop, observeSt, hopKeys, nodePath_wrapf]

theorem errorsIs_foldl_hop (memo : Bool) (hops : List Hop) (st : ErrSt) (t : Nat) :
    errorsIs true (hops.foldl (hop true memo) st).err t = errorsIs true st.err t := by
  induction hops generalizing st with
  | nil => rfl
  | cons h r ih =>
    simp only [List.foldl_cons]
    rw [ih]
    cases h with
    | wrap k => simp [hop, errorsIs_wrapNode]
    | observe => simp only [hop, observeSt]; split <;> rfl
    | rewrap => simp only [hop, observeSt]; split <;> simp [errorsIs]

theorem errorsIs_travel (memo : Bool) (hops : List Hop) (e : GoErr) (t : Nat) :
    errorsIs true (travel true memo hops e).err t = errorsIs true e t := by
  unfold travel; rw [errorsIs_foldl_hop]

/-! ### the context of the run ends -/

theorem errorsIs_loopCtxError (rce : Bool) (c : CtxEnd) (t : Nat) :
    errorsIs true (loopCtxError rce c) t = ((if rce then c.id else canceledId) == t) := by
  simp [loopCtxError, errorsIs]

end EinoV.C13
