/-
  C02, run level, completeness: a node the specification calls enabled has been started
  (`run_complete`).  Third invariant over the channel manager — "the reports that are due have
  been made": for every completed or skipped predecessor `p`, every channel waiting for `p`
  has `p`'s entry reported (or has been started, or is skipped) — with the skip work list shown
  to drain within its fuel; combined with the counting invariant (`J`, at most once) and the
  history invariant (`K`, every report is justified) at every round boundary (`Boundary`,
  `complete_at`).
-/
import EinoV.Proofs.C02Just
import EinoV.Proofs.C02Eager
import EinoV.Proofs.C02

namespace EinoV.Engine
namespace DagRun

/-! ### reports only accumulate (until the channel fires) -/

/-- `c'` has every report `c` has: same predecessor keys, skip flag kept, non-waiting control
    entries stay non-waiting, reported data entries stay reported -/
structure ChanMono {V} (c c' : Chan V) : Prop where
  shape : shapeOf c' = shapeOf c
  sk : c.skipped = true → c'.skipped = true
  nw : ∀ p d, (p, d) ∈ c.ctrl → d ≠ Dep.waiting → ∃ d', (p, d') ∈ c'.ctrl ∧ d' ≠ Dep.waiting
  dt : ∀ p, (p, true) ∈ c.data → (p, true) ∈ c'.data
  vk : ∀ p, p ∈ akeys c.values → p ∈ akeys c'.values

theorem ChanMono.refl {V} (c : Chan V) : ChanMono c c :=
  ⟨rfl, fun h => h, fun p d h hd => ⟨d, h, hd⟩, fun p h => h, fun p h => h⟩

theorem ChanMono.trans {V} {a b c : Chan V} (h1 : ChanMono a b) (h2 : ChanMono b c) : ChanMono a c :=
  ⟨h2.shape.trans h1.shape, fun h => h2.sk (h1.sk h),
   fun p d h hd => by
     obtain ⟨d', a1, a2⟩ := h1.nw p d h hd
     exact h2.nw p d' a1 a2,
   fun p h => h2.dt p (h1.dt p h), fun p h => h2.vk p (h1.vk p h)⟩

theorem mem_aset_true_keep (k : Key) (l : List (Key × Bool)) (p : Key) (h : (p, true) ∈ l) :
    (p, true) ∈ aset k true l := by
  by_cases e : p = k
  · subst e; exact mem_aset_self _ _ _
  · exact mem_aset_of_ne _ _ _ _ _ e h

theorem reportSkip_mono {V} (c : Chan V) (k : Key) (h : SkOK c) (hk : k ∈ akeys c.ctrl ∨ k ∈ akeys c.data) :
    ChanMono c (c.reportSkip true [k]).1 ∧
    (k ∈ akeys c.ctrl → (k, Dep.skipped) ∈ (c.reportSkip true [k]).1.ctrl) ∧
    (k ∈ akeys c.data → (k, true) ∈ (c.reportSkip true [k]).1.data) := by
  obtain ⟨hs, _, _, _, h3, _, _⟩ := reportSkip_one c k
  obtain ⟨_, k2⟩ := reportSkip_skOK c k h hk
  have hctrl : (c.reportSkip true [k]).1.ctrl = if (alookup k c.ctrl).isSome then aset k Dep.skipped c.ctrl else c.ctrl := by
    simp only [Chan.reportSkip, ↓reduceIte, List.foldl_cons, List.foldl_nil]
    split <;> split <;> rfl
  have hdata : (c.reportSkip true [k]).1.data = if (alookup k c.data).isSome then aset k true c.data else c.data := by
    simp only [Chan.reportSkip, ↓reduceIte, List.foldl_cons, List.foldl_nil]
    split <;> split <;> rfl
  refine ⟨⟨hs, k2, ?_, ?_, fun p h => by rw [reportSkip_values]; exact h⟩, ?_, h3⟩
  · intro p d hm hd
    rw [hctrl]
    split
    · by_cases e : p = k
      · subst e; exact ⟨Dep.skipped, mem_aset_self _ _ _, by simp⟩
      · exact ⟨d, mem_aset_of_ne _ _ _ _ _ e hm, hd⟩
    · exact ⟨d, hm, hd⟩
  · intro p hm
    rw [hdata]
    split
    · exact mem_aset_true_keep _ _ _ hm
    · exact hm
  · intro hkc
    rw [hctrl]
    simp only [(alookup_isSome_iff _ _).mpr hkc, ↓reduceIte]
    exact mem_aset_self _ _ _

theorem depsF_fold_sets {V} (deps : List Key) (c : Chan V) (p : Key) (hp : p ∈ deps) (hk : p ∈ akeys c.ctrl) :
    (p, Dep.ready) ∈ (deps.foldl depsF c).ctrl := by
  induction deps generalizing c with
  | nil => simp at hp
  | cons k t ih =>
    simp only [List.foldl_cons]
    have hkeys : akeys (depsF c k).ctrl = akeys c.ctrl := by
      unfold depsF
      split
      · rename_i hs; exact akeys_aset_of_mem _ _ _ ((alookup_isSome_iff _ _).mp hs)
      · rfl
    rcases List.mem_cons.mp hp with rfl | hp
    · -- set now; later steps keep a ready entry for p
      have h0 : (p, Dep.ready) ∈ (depsF c p).ctrl := by
        unfold depsF
        simp only [(alookup_isSome_iff _ _).mpr hk, ↓reduceIte]
        exact mem_aset_self _ _ _
      have keep : ∀ (l : List Key) (c : Chan V), (p, Dep.ready) ∈ c.ctrl → (p, Dep.ready) ∈ (l.foldl depsF c).ctrl := by
        intro l
        induction l with
        | nil => intro c h; exact h
        | cons x y ihy =>
          intro c h
          simp only [List.foldl_cons]
          apply ihy
          unfold depsF
          split
          · by_cases e : p = x
            · subst e; exact mem_aset_self _ _ _
            · exact mem_aset_of_ne _ _ _ _ _ e h
          · exact h
      exact keep t _ h0
    · exact ih _ hp (by rw [hkeys]; exact hk)

theorem reportDeps_mono {V} (c : Chan V) (deps : List Key) :
    ChanMono c (c.reportDeps true deps) ∧
    (∀ p, p ∈ deps → p ∈ akeys c.ctrl → c.skipped = true ∨ (p, Dep.ready) ∈ (c.reportDeps true deps).ctrl) := by
  rw [reportDeps_eq]
  split
  · rename_i hs
    exact ⟨ChanMono.refl c, fun p _ _ => Or.inl hs⟩
  · obtain ⟨a, b, cc, _⟩ := depsF_fold deps c
    obtain ⟨_, _, d3⟩ := depsF_fold' deps c
    refine ⟨⟨a, fun h => by rw [b]; exact h, ?_, fun p h => by rw [cc]; exact h,
      fun p h => by rw [(depsF_fold' deps c).1]; exact h⟩, fun p hp hk => Or.inr (depsF_fold_sets deps c p hp hk)⟩
    intro p d hm hd
    rcases d3 p d hm with h | h
    · exact ⟨d, h, hd⟩
    · exact ⟨Dep.ready, h, by simp⟩

theorem valsF_fold_data {V} (ins : List (Key × V)) (c : Chan V) :
    (∀ p, (p, true) ∈ c.data → (p, true) ∈ (ins.foldl valsF c).data) ∧
    (∀ p, p ∈ akeys ins → p ∈ akeys c.data → (p, true) ∈ (ins.foldl valsF c).data) := by
  induction ins generalizing c with
  | nil => exact ⟨fun p h => h, fun p h => by simp [akeys] at h⟩
  | cons kv t ih =>
    simp only [List.foldl_cons]
    obtain ⟨i1, i2⟩ := ih (valsF c kv)
    have hkeep : ∀ p, (p, true) ∈ c.data → (p, true) ∈ (valsF c kv).data := by
      intro p h
      unfold valsF
      split
      · exact mem_aset_true_keep _ _ _ h
      · exact h
    have hkeys : akeys (valsF c kv).data = akeys c.data := by
      unfold valsF
      split
      · rename_i hs; exact akeys_aset_of_mem _ _ _ ((alookup_isSome_iff _ _).mp hs)
      · rfl
    refine ⟨fun p h => i1 p (hkeep p h), fun p hp hk => ?_⟩
    simp only [akeys, List.map_cons, List.mem_cons] at hp
    rcases hp with rfl | hp
    · apply i1
      unfold valsF
      simp only [(alookup_isSome_iff _ _).mpr hk, ↓reduceIte]
      exact mem_aset_self _ _ _
    · exact i2 p (by simpa [akeys] using hp) (by rw [hkeys]; exact hk)

theorem valsF_fold_vkeys {V} (ins : List (Key × V)) (c : Chan V) :
    (∀ p, p ∈ akeys c.values → p ∈ akeys (ins.foldl valsF c).values) ∧
    (∀ p, p ∈ akeys ins → p ∈ akeys c.data → p ∈ akeys (ins.foldl valsF c).values) := by
  induction ins generalizing c with
  | nil => exact ⟨fun p h => h, fun p h => by simp [akeys] at h⟩
  | cons kv t ih =>
    simp only [List.foldl_cons]
    obtain ⟨i1, i2⟩ := ih (valsF c kv)
    have hkeep : ∀ p, p ∈ akeys c.values → p ∈ akeys (valsF c kv).values := by
      intro p h
      unfold valsF
      split
      · simp only
        rw [akeys_aset]
        split
        · exact h
        · exact List.mem_append_left _ h
      · exact h
    have hkeys : akeys (valsF c kv).data = akeys c.data := by
      unfold valsF
      split
      · rename_i hs; exact akeys_aset_of_mem _ _ _ ((alookup_isSome_iff _ _).mp hs)
      · rfl
    refine ⟨fun p h => i1 p (hkeep p h), fun p hp hk => ?_⟩
    simp only [akeys, List.map_cons, List.mem_cons] at hp
    rcases hp with rfl | hp
    · apply i1
      unfold valsF
      simp only [(alookup_isSome_iff _ _).mpr hk, ↓reduceIte]
      exact mem_akeys_of_mem _ kv.2 _ (mem_aset_self _ _ _)
    · exact i2 p (by simpa [akeys] using hp) (by rw [hkeys]; exact hk)

theorem reportValues_mono {V} (c : Chan V) (ins : List (Key × V)) :
    ChanMono c (c.reportValues true ins) ∧
    (∀ p, p ∈ akeys ins → p ∈ akeys c.data → c.skipped = true ∨ (p, true) ∈ (c.reportValues true ins).data) := by
  rw [reportValues_eq]
  split
  · rename_i hs
    exact ⟨ChanMono.refl c, fun p _ _ => Or.inl hs⟩
  · obtain ⟨a, b, cc, _⟩ := valsF_fold ins c
    obtain ⟨d1, d2⟩ := valsF_fold_data ins c
    exact ⟨⟨a, fun h => by rw [b]; exact h, fun p d hm hd => ⟨d, by rw [cc]; exact hm, hd⟩, d1,
      (valsF_fold_vkeys ins c).1⟩, fun p hp hk => Or.inr (d2 p hp hk)⟩

/-! ### the same for the channel manager -/

structure Mono {V} (cm cm' : Chans V) : Prop where
  keys : akeys cm' = akeys cm
  step : ∀ n c', (n, c') ∈ cm' → ∃ c, (n, c) ∈ cm ∧ ChanMono c c'

theorem Mono.refl {V} (cm : Chans V) : Mono cm cm := ⟨rfl, fun n c h => ⟨c, h, ChanMono.refl c⟩⟩

theorem Mono.trans {V} {a b c : Chans V} (h1 : Mono a b) (h2 : Mono b c) : Mono a c :=
  ⟨h2.keys.trans h1.keys, fun n c' h => by
    obtain ⟨cb, hb, m2⟩ := h2.step n c' h
    obtain ⟨ca, ha, m1⟩ := h1.step n cb hb
    exact ⟨ca, ha, m1.trans m2⟩⟩

theorem Mono.modChan {V} (cm : Chans V) (k : Key) (f : Chan V → Chan V)
    (h : ∀ c, (k, c) ∈ cm → ChanMono c (f c)) : Mono cm (modChan cm k f) := by
  refine ⟨akeys_modChan _ _ _, fun n c' hm => ?_⟩
  obtain ⟨c, hc, rfl⟩ := (mem_modChan _ _ _ _ _).mp hm
  by_cases hk : (n == k) = true
  · have e : n = k := by simpa using hk
    subst e
    simp only [hk, ↓reduceIte]
    exact ⟨c, hc, h c hc⟩
  · simp only [hk, Bool.false_eq_true, ↓reduceIte]
    exact ⟨c, hc, ChanMono.refl c⟩

theorem Mono.skOf {V} {cm cm' : Chans V} (h : Mono cm cm') (hnd : (akeys cm).Nodup) (p : Key) (hp : skOf cm p = 1) :
    skOf cm' p = 1 := by
  unfold DagRun.skOf at hp ⊢
  cases hl : alookup p cm with
  | none => rw [hl] at hp; simp at hp
  | some c =>
    rw [hl] at hp
    have hsk : c.skipped = true := by
      by_cases hh : c.skipped = true
      · exact hh
      · simp [hh] at hp
    have hpk : p ∈ akeys cm' := by rw [h.keys]; exact mem_akeys_of_mem p c cm (mem_of_alookup _ _ _ hl)
    obtain ⟨c', hc'⟩ := exists_of_mem_akeys _ _ hpk
    obtain ⟨c0, hc0, m⟩ := h.step p c' hc'
    have : c0 = c := by
      have := alookup_of_mem_nodup cm hnd p c0 hc0
      rw [hl] at this; exact (Option.some.inj this).symm
    subst this
    rw [alookup_of_mem_nodup cm' (by rw [h.keys]; exact hnd) p c' hc']
    simp [m.sk hsk]

/-! ### "the reports of `p` have been made" -/

/-- every channel that waits for `p` has `p`'s report (or has been started, or is skipped) -/
def RP {V} (F : Key → Nat) (cm : Chans V) (p : Key) : Prop :=
  (∀ n c, (n, c) ∈ cm → p ∈ akeys c.ctrl →
      1 ≤ F n ∨ c.skipped = true ∨ ∃ d, (p, d) ∈ c.ctrl ∧ d ≠ Dep.waiting) ∧
  (∀ n c, (n, c) ∈ cm → p ∈ akeys c.data → 1 ≤ F n ∨ c.skipped = true ∨ (p, true) ∈ c.data)

theorem RP.mono {V} {F : Key → Nat} {cm cm' : Chans V} (hm : Mono cm cm') {p : Key} (h : RP F cm p) : RP F cm' p := by
  refine ⟨fun n c' hc' hp => ?_, fun n c' hc' hp => ?_⟩
  · obtain ⟨c, hc, m⟩ := hm.step n c' hc'
    have hpk : p ∈ akeys c.ctrl := by
      have := congrArg Prod.fst m.shape
      simp only [shapeOf] at this
      rw [← this]; exact hp
    rcases h.1 n c hc hpk with h1 | h1 | ⟨d, h1, h2⟩
    · exact Or.inl h1
    · exact Or.inr (Or.inl (m.sk h1))
    · exact Or.inr (Or.inr (m.nw p d h1 h2))
  · obtain ⟨c, hc, m⟩ := hm.step n c' hc'
    have hpk : p ∈ akeys c.data := by
      have := congrArg Prod.snd m.shape
      simp only [shapeOf] at this
      rw [← this]; exact hp
    rcases h.2 n c hc hpk with h1 | h1 | h1
    · exact Or.inl h1
    · exact Or.inr (Or.inl (m.sk h1))
    · exact Or.inr (Or.inr (m.dt p h1))

/-- a list of distinct keys of skipped channels -/
structure WL {V} (cm : Chans V) (l : List Key) : Prop where
  nd : l.Nodup
  fl : ∀ k, k ∈ l → skOf cm k = 1

theorem skOf_one_mem {V} (cm : Chans V) (k : Key) (h : skOf cm k = 1) : k ∈ akeys cm := by
  unfold skOf at h
  cases hl : alookup k cm with
  | none => rw [hl] at h; simp at h
  | some c => exact mem_akeys_of_mem k c cm (mem_of_alookup _ _ _ hl)

theorem WL.length_le {V} {cm : Chans V} {l : List Key} (h : WL cm l) : l.length ≤ (akeys cm).length :=
  h.nd.length_le_of_subset (fun k hk => skOf_one_mem cm k (h.fl k hk))

/-- one `reportSkip([from_])` on channel `s`: reports accumulate, `s` now has `from_`'s report,
    and `s` is pushed exactly when it turns skipped -/
theorem skipOne_R {V} (cm : Chans V) (hnd : (akeys cm).Nodup) (hsk : ∀ n c, (n, c) ∈ cm → SkOK c) (s from_ : Key)
    (hwf : ∀ c, (s, c) ∈ cm → from_ ∈ akeys c.ctrl ∨ from_ ∈ akeys c.data) :
    Mono cm (skipOne true cm s from_).1 ∧
    (∀ n c, (n, c) ∈ (skipOne true cm s from_).1 → SkOK c) ∧
    (∀ c', (s, c') ∈ (skipOne true cm s from_).1 →
        (from_ ∈ akeys c'.ctrl → ∃ d, (from_, d) ∈ c'.ctrl ∧ d ≠ Dep.waiting) ∧
        (from_ ∈ akeys c'.data → (from_, true) ∈ c'.data)) ∧
    ((skipOne true cm s from_).2 = true → skOf cm s = 0 ∧ skOf (skipOne true cm s from_).1 s = 1) ∧
    (∀ p, skOf (skipOne true cm s from_).1 p = 1 → skOf cm p = 1 ∨ (p = s ∧ (skipOne true cm s from_).2 = true)) := by
  unfold skipOne
  simp only [Bool.not_true, Bool.false_eq_true, ↓reduceIte]
  cases hl : alookup s cm with
  | none =>
    simp only
    refine ⟨Mono.refl cm, hsk, fun c' hc' => ?_, fun h => by simp at h, fun p h => Or.inl h⟩
    have := alookup_of_mem_nodup cm hnd s c' hc'
    rw [hl] at this; cases this
  | some c0 =>
    simp only
    have hm0 := mem_of_alookup _ _ _ hl
    have uniq : ∀ c, (s, c) ∈ cm → c = c0 := by
      intro c hc
      have := alookup_of_mem_nodup cm hnd s c hc
      rw [hl] at this; exact (Option.some.inj this).symm
    obtain ⟨m1, m2, m3⟩ := reportSkip_mono c0 from_ (hsk s c0 hm0) (hwf c0 hm0)
    obtain ⟨k1, _⟩ := reportSkip_skOK c0 from_ (hsk s c0 hm0) (hwf c0 hm0)
    obtain ⟨_, hr2, _⟩ := reportSkip_one c0 from_
    have hlook : alookup s (modChan cm s (fun _ => (c0.reportSkip true [from_]).1)) = some (c0.reportSkip true [from_]).1 := by
      rw [alookup_modChan]; simp [hl]
    have hother : ∀ p, p ≠ s → skOf (modChan cm s (fun _ => (c0.reportSkip true [from_]).1)) p = skOf cm p := by
      intro p hne
      unfold skOf
      rw [alookup_modChan]
      have : (p == s) = false := by simpa using hne
      simp [this]
    refine ⟨Mono.modChan cm s _ (fun c hc => by rw [uniq c hc]; exact m1), ?_, ?_, ?_, ?_⟩
    · intro n c' hc'
      obtain ⟨c, hc, rfl⟩ := (mem_modChan _ _ _ _ _).mp hc'
      by_cases hk : (n == s) = true
      · simp only [hk, ↓reduceIte]; exact k1
      · simp only [hk, Bool.false_eq_true, ↓reduceIte]; exact hsk n c hc
    · intro c' hc'
      obtain ⟨c, hc, rfl⟩ := (mem_modChan _ _ _ _ _).mp hc'
      simp only [beq_self_eq_true, ↓reduceIte]
      have hs := m1.shape
      refine ⟨fun hk => ?_, fun hk => ?_⟩
      · have : from_ ∈ akeys c0.ctrl := by
          have e := congrArg Prod.fst hs; simp only [shapeOf] at e; rw [← e]; exact hk
        exact ⟨Dep.skipped, m2 this, by simp⟩
      · have : from_ ∈ akeys c0.data := by
          have e := congrArg Prod.snd hs; simp only [shapeOf] at e; rw [← e]; exact hk
        exact m3 this
    · intro hb
      simp only [Bool.and_eq_true, Bool.not_eq_eq_eq_not, Bool.not_true] at hb
      refine ⟨by unfold skOf; rw [hl]; simp [hb.2], ?_⟩
      have hsk' : (c0.reportSkip true [from_]).1.skipped = true := by rw [← hr2]; exact hb.1
      unfold skOf; rw [hlook]; simp [hsk']
    · intro p hp
      by_cases e : p = s
      · subst e
        by_cases hold : c0.skipped = true
        · left; unfold skOf; rw [hl]; simp [hold]
        · right
          refine ⟨rfl, ?_⟩
          unfold skOf at hp; rw [hlook] at hp
          have : (c0.reportSkip true [from_]).1.skipped = true := by
            by_cases hh : (c0.reportSkip true [from_]).1.skipped = true
            · exact hh
            · simp [hh] at hp
          simp only [Bool.and_eq_true, Bool.not_eq_eq_eq_not, Bool.not_true]
          exact ⟨by rw [hr2]; exact this, by simpa using hold⟩
      · left; rw [← hother p e]; exact hp

/-- `from_`'s report is present on channel `s` -/
def Reported {V} (cm : Chans V) (s from_ : Key) : Prop :=
  ∀ c', (s, c') ∈ cm →
    (from_ ∈ akeys c'.ctrl → ∃ d, (from_, d) ∈ c'.ctrl ∧ d ≠ Dep.waiting) ∧
    (from_ ∈ akeys c'.data → (from_, true) ∈ c'.data)

theorem Reported.mono {V} {cm cm' : Chans V} (hm : Mono cm cm') {s from_ : Key} (h : Reported cm s from_) :
    Reported cm' s from_ := by
  intro c' hc'
  obtain ⟨c, hc, m⟩ := hm.step s c' hc'
  obtain ⟨h1, h2⟩ := h c hc
  have e1 := congrArg Prod.fst m.shape
  have e2 := congrArg Prod.snd m.shape
  simp only [shapeOf] at e1 e2
  refine ⟨fun hk => ?_, fun hk => ?_⟩
  · obtain ⟨d, a, b⟩ := h1 (by rw [← e1]; exact hk)
    exact m.nw from_ d a b
  · exact m.dt from_ (h2 (by rw [← e2]; exact hk))

theorem skipFold_R {V} (from_ : Key) (ss : List Key) (base : List Key) (acc : Chans V × List Key)
    (hnd : (akeys acc.1).Nodup) (hsk : ∀ n c, (n, c) ∈ acc.1 → SkOK c) (hwl : WL acc.1 (base ++ acc.2))
    (hwf : ∀ cm' : Chans V, shapes cm' = shapes acc.1 → ∀ s ∈ ss, ∀ c, (s, c) ∈ cm' →
        from_ ∈ akeys c.ctrl ∨ from_ ∈ akeys c.data) :
    Mono acc.1 (ss.foldl (skipStep true from_) acc).1 ∧
    (∀ n c, (n, c) ∈ (ss.foldl (skipStep true from_) acc).1 → SkOK c) ∧
    shapes (ss.foldl (skipStep true from_) acc).1 = shapes acc.1 ∧
    WL (ss.foldl (skipStep true from_) acc).1 (base ++ (ss.foldl (skipStep true from_) acc).2) ∧
    (∀ s, s ∈ ss → Reported (ss.foldl (skipStep true from_) acc).1 s from_) ∧
    (∀ p, skOf (ss.foldl (skipStep true from_) acc).1 p = 1 →
        skOf acc.1 p = 1 ∨ p ∈ (ss.foldl (skipStep true from_) acc).2) := by
  induction ss generalizing acc with
  | nil => exact ⟨Mono.refl _, hsk, rfl, hwl, fun s h => by simp at h, fun p h => Or.inl h⟩
  | cons s t ih =>
    simp only [List.foldl_cons]
    obtain ⟨j1, j2, j3, j4, j5⟩ := skipOne_R acc.1 hnd hsk s from_ (hwf acc.1 rfl s (by simp))
    have jsh := skipOne_shapes acc.1 hnd s from_
    have hstep1 : (skipStep true from_ acc s).1 = (skipOne true acc.1 s from_).1 := rfl
    have hstep2 : (skipStep true from_ acc s).2 =
        if (skipOne true acc.1 s from_).2 then acc.2 ++ [s] else acc.2 := rfl
    have hnd' : (akeys (skipStep true from_ acc s).1).Nodup := by rw [hstep1, j1.keys]; exact hnd
    have hwl' : WL (skipStep true from_ acc s).1 (base ++ (skipStep true from_ acc s).2) := by
      rw [hstep1, hstep2]
      by_cases hb : (skipOne true acc.1 s from_).2 = true
      · obtain ⟨b1, b2⟩ := j4 hb
        simp only [hb, ↓reduceIte]
        have hnot : s ∉ base ++ acc.2 := by
          intro hin
          have := hwl.fl s hin
          rw [b1] at this; cases this
        refine ⟨?_, ?_⟩
        · rw [← List.append_assoc]
          exact List.nodup_append.mpr ⟨hwl.nd, by simp, by
            intro a ha b hb'
            simp at hb'; subst hb'
            exact fun e => hnot (e ▸ ha)⟩
        · intro k hk
          rw [← List.append_assoc] at hk
          rcases List.mem_append.mp hk with h1 | h1
          · exact j1.skOf hnd k (hwl.fl k h1)
          · simp only [List.mem_singleton] at h1; subst h1; exact b2
      · simp only [hb, Bool.false_eq_true, ↓reduceIte]
        exact ⟨hwl.nd, fun k hk => j1.skOf hnd k (hwl.fl k hk)⟩
    obtain ⟨i1, i2, i3, i4, i5, i6⟩ := ih (skipStep true from_ acc s) hnd' (by rw [hstep1]; exact j2) hwl'
      (fun cm' h s' hs' => hwf cm' (by rw [h, hstep1]; exact jsh) s' (List.mem_cons_of_mem _ hs'))
    refine ⟨(by rw [hstep1] at i1; exact j1.trans i1), i2, by rw [i3, hstep1]; exact jsh, i4, ?_, ?_⟩
    · intro s' hs'
      rcases List.mem_cons.mp hs' with rfl | hs'
      · have : Reported (skipOne true acc.1 s' from_).1 s' from_ := j3
        rw [hstep1] at i1
        exact this.mono i1
      · exact i5 s' hs'
    · intro p hp
      rcases i6 p hp with h | h
      · rw [hstep1] at h
        rcases j5 p h with h' | ⟨rfl, hb⟩
        · exact Or.inl h'
        · right
          -- pushed now, and the pushed list only grows
          have hin : p ∈ (skipStep true from_ acc p).2 := by
            rw [hstep2]; simp [hb]
          have grow : ∀ (l : List Key) (a : Chans V × List Key) x, x ∈ a.2 → x ∈ (l.foldl (skipStep true from_) a).2 := by
            intro l
            induction l with
            | nil => intro a x h; exact h
            | cons y z ihz =>
              intro a x h
              simp only [List.foldl_cons]
              apply ihz
              show x ∈ (if (skipOne true a.1 y from_).2 then a.2 ++ [y] else a.2)
              split
              · exact List.mem_append_left _ h
              · exact h
          exact grow t _ p hin
      · exact Or.inr h

theorem RP_of_reported {V} {F : Key → Nat} (r : Runner V) (hps : PredSucc r) (cm : Chans V)
    (hsh : shapes cm = shapes (initChans r)) (k : Key) (nd : Node V) (hn : r.call? k = some nd)
    (h : ∀ s, s ∈ nd.successors → Reported cm s k) : RP F cm k := by
  refine ⟨fun m c' hc' hk => ?_, fun m c' hc' hk => ?_⟩
  · have hm := shapes_mem cm m c' hc'
    rw [hsh] at hm
    have := hps m _ _ hm k (Or.inl hk) nd hn
    exact Or.inr (Or.inr ((h m this c' hc').1 hk))
  · have hm := shapes_mem cm m c' hc'
    rw [hsh] at hm
    have := hps m _ _ hm k (Or.inr hk) nd hn
    exact Or.inr (Or.inr ((h m this c' hc').2 hk))

theorem node_call {V} (r : Runner V) (hstart : START ∉ akeys (initChans r)) (k : Key) (n : Node V)
    (h : r.node? k = some n) : r.call? k = some n := by
  unfold Runner.call?
  have hne : (k == START) = false := by
    obtain ⟨hm, hk⟩ := node?_some r k n h
    have : k ∈ akeys (initChans r) := by
      simp only [initChans, akeys, List.map_append, List.map_map, List.mem_append, List.mem_map]
      left; exact ⟨n, hm, by simp [Function.comp, hk]⟩
    have hne' : k ≠ START := fun e => hstart (e ▸ this)
    simpa using hne'
  simp [hne, h]

theorem propagate_R {V} {F : Key → Nat} (r : Runner V) (hd : r.dag = true) (hs : SuccOK r) (hps : PredSucc r)
    (hstart : START ∉ akeys (initChans r)) :
    ∀ (fuel : Nat) (cm : Chans V) (wl done_ : List Key) (cm' : Chans V), (akeys cm).Nodup →
      (∀ n c, (n, c) ∈ cm → SkOK c) → shapes cm = shapes (initChans r) → WL cm (done_ ++ wl) →
      (akeys cm).length + 1 ≤ fuel + done_.length →
      (∀ p, skOf cm p = 1 → p ∈ wl ∨ RP F cm p) →
      propagateSkips r fuel cm wl = .ok cm' →
      Mono cm cm' ∧ (∀ n c, (n, c) ∈ cm' → SkOK c) ∧ shapes cm' = shapes (initChans r) ∧
      (∀ p, skOf cm' p = 1 → RP F cm' p) := by
  intro fuel
  induction fuel with
  | zero =>
    intro cm wl done_ cm' _ _ _ hwl hf _ _
    have h1 := hwl.length_le
    simp only [List.length_append] at h1
    omega
  | succ f ih =>
    intro cm wl done_ cm' hnd hsk hsh hwl hf hq h
    cases wl with
    | nil =>
      simp only [propagateSkips, Except.ok.injEq] at h
      subst h
      refine ⟨Mono.refl _, hsk, hsh, fun p hp => ?_⟩
      rcases hq p hp with h1 | h1
      · simp at h1
      · exact h1
    | cons k rest =>
      simp only [propagateSkips] at h
      cases hn : r.node? k with
      | none => simp [hn] at h
      | some n =>
        simp only [hn, hd] at h
        obtain ⟨hmem, hkey⟩ := node?_some r k n hn
        have hp := hs n (Or.inl hmem)
        rw [hkey] at hp
        have hbase : done_ ++ k :: rest = ((done_ ++ [k]) ++ rest) ++ ([] : List Key) := by simp
        obtain ⟨j1, j2, j3, j4, j5, j6⟩ := skipFold_R k n.successors ((done_ ++ [k]) ++ rest) (cm, []) hnd hsk
          (by rw [← hbase]; exact hwl)
          (fun cm' h => predOK_use hp cm' (by rw [h]; exact hsh))
        have hRPk : RP F (n.successors.foldl (skipStep true k) (cm, [])).1 k :=
          RP_of_reported r hps _ (by rw [j3]; exact hsh) k n (node_call r hstart k n hn) j5
        obtain ⟨i1, i2, i3, i4⟩ := ih _ (rest ++ (n.successors.foldl (skipStep true k) (cm, [])).2) (done_ ++ [k]) cm'
          (by rw [j1.keys]; exact hnd) j2 (by rw [j3]; exact hsh)
          (by rw [← List.append_assoc]; exact j4)
          (by rw [j1.keys]; simp only [List.length_append, List.length_cons, List.length_nil]; omega)
          (by
            intro p hp'
            rcases j6 p hp' with h1 | h1
            · rcases hq p h1 with h2 | h2
              · rcases List.mem_cons.mp h2 with rfl | h2
                · exact Or.inr hRPk
                · exact Or.inl (List.mem_append_left _ h2)
              · exact Or.inr (h2.mono j1)
            · exact Or.inl (List.mem_append_right _ h1))
          h
        exact ⟨j1.trans i1, i2, i3, i4⟩

theorem reportBranch_R {V} {F : Key → Nat} (r : Runner V) (hd : r.dag = true) (hs : SuccOK r) (hps : PredSucc r)
    (hstart : START ∉ akeys (initChans r))
    (cm cm' : Chans V) (from_ : Key) (ss : List Key)
    (hp : PredOK (shapes (initChans r)) from_ ss)
    (hnd : (akeys cm).Nodup) (hsk : ∀ n c, (n, c) ∈ cm → SkOK c) (hsh : shapes cm = shapes (initChans r))
    (hq : ∀ p, skOf cm p = 1 → RP F cm p)
    (h : reportBranch r cm from_ ss = .ok cm') :
    Mono cm cm' ∧ (∀ n c, (n, c) ∈ cm' → SkOK c) ∧ shapes cm' = shapes (initChans r) ∧
    (∀ p, skOf cm' p = 1 → RP F cm' p) ∧ (∀ s, s ∈ ss → Reported cm' s from_) := by
  unfold reportBranch at h
  simp only [hd] at h
  obtain ⟨j1, j2, j3, j4, j5, j6⟩ := skipFold_R from_ ss [] (cm, []) hnd hsk ⟨List.nodup_nil, by simp⟩
    (fun cm' h => predOK_use hp cm' (by rw [h]; exact hsh))
  have hlen : (akeys (ss.foldl (skipStep true from_) (cm, [])).1).length = r.nodes.length + 1 := by
    rw [j1.keys, ← shapes_keys cm, hsh, shapes_keys]
    simp [initChans, akeys]
  obtain ⟨i1, i2, i3, i4⟩ := propagate_R (F := F) r hd hs hps hstart _ _ (ss.foldl (skipStep true from_) (cm, [])).2 [] cm'
    (by rw [j1.keys]; exact hnd) j2 (by rw [j3]; exact hsh) (by simpa using j4)
    (by
      rw [hlen]
      simp only [List.length_nil, Nat.add_zero]
      have : r.nodes.length + 2 ≤ (r.nodes.length + 2) * (r.nodes.length + 2) := Nat.le_mul_self _
      omega)
    (by
      intro p hp'
      rcases j6 p hp' with h1 | h1
      · exact Or.inr ((hq p h1).mono j1)
      · exact Or.inl h1)
    h
  exact ⟨j1.trans i1, i2, i3, i4, fun s hs' => (j5 s hs').mono i1⟩

/-! ### ready reports and values: what the two update passes establish -/

def EstC {V} (cm : Chans V) (to p : Key) : Prop :=
  ∀ c', (to, c') ∈ cm → p ∈ akeys c'.ctrl → c'.skipped = true ∨ ∃ d, (p, d) ∈ c'.ctrl ∧ d ≠ Dep.waiting

def EstD {V} (cm : Chans V) (to p : Key) : Prop :=
  ∀ c', (to, c') ∈ cm → p ∈ akeys c'.data → c'.skipped = true ∨ (p, true) ∈ c'.data

theorem EstC.mono {V} {cm cm' : Chans V} (hm : Mono cm cm') {to p : Key} (h : EstC cm to p) : EstC cm' to p := by
  intro c' hc' hk
  obtain ⟨c, hc, m⟩ := hm.step to c' hc'
  have e1 := congrArg Prod.fst m.shape
  simp only [shapeOf] at e1
  rcases h c hc (by rw [← e1]; exact hk) with h1 | ⟨d, a, b⟩
  · exact Or.inl (m.sk h1)
  · exact Or.inr (m.nw p d a b)

theorem EstD.mono {V} {cm cm' : Chans V} (hm : Mono cm cm') {to p : Key} (h : EstD cm to p) : EstD cm' to p := by
  intro c' hc' hk
  obtain ⟨c, hc, m⟩ := hm.step to c' hc'
  have e2 := congrArg Prod.snd m.shape
  simp only [shapeOf] at e2
  rcases h c hc (by rw [← e2]; exact hk) with h1 | h1
  · exact Or.inl (m.sk h1)
  · exact Or.inr (m.dt p h1)

theorem Reported.estC {V} {cm : Chans V} {s p : Key} (h : Reported cm s p) : EstC cm s p :=
  fun c' hc' hk => Or.inr ((h c' hc').1 hk)
theorem Reported.estD {V} {cm : Chans V} {s p : Key} (h : Reported cm s p) : EstD cm s p :=
  fun c' hc' hk => Or.inr ((h c' hc').2 hk)

theorem updateDeps_R {V} (r : Runner V) (hd : r.dag = true) (deps : List (Key × List Key)) (cm : Chans V)
    (hnd : (akeys cm).Nodup) :
    Mono cm (updateDeps r cm deps) ∧
    (∀ to l, (to, l) ∈ deps → ∀ p, p ∈ l → p ∈ lookupList to r.ctrlPreds → EstC (updateDeps r cm deps) to p) := by
  unfold updateDeps
  induction deps generalizing cm with
  | nil => exact ⟨Mono.refl _, fun to l h => by simp at h⟩
  | cons w rest ih =>
    simp only [List.foldl_cons]
    have hm1 : Mono cm (modChan cm w.1 (fun c => c.reportDeps r.dag (w.2.filter (lookupList w.1 r.ctrlPreds).contains))) :=
      Mono.modChan cm w.1 _ (fun c _ => by rw [hd]; exact (reportDeps_mono c _).1)
    have hest : ∀ p, p ∈ w.2 → p ∈ lookupList w.1 r.ctrlPreds →
        EstC (modChan cm w.1 (fun c => c.reportDeps r.dag (w.2.filter (lookupList w.1 r.ctrlPreds).contains))) w.1 p := by
      intro p hp hcp c' hc' hk
      obtain ⟨c, hc, rfl⟩ := (mem_modChan _ _ _ _ _).mp hc'
      simp only [beq_self_eq_true, ↓reduceIte] at hk ⊢
      rw [hd] at hk ⊢
      obtain ⟨mm, est⟩ := reportDeps_mono c (w.2.filter (lookupList w.1 r.ctrlPreds).contains)
      have hkc : p ∈ akeys c.ctrl := by
        have e1 := congrArg Prod.fst mm.shape
        simp only [shapeOf] at e1
        rw [← e1]; exact hk
      rcases est p (List.mem_filter.mpr ⟨hp, by simpa using hcp⟩) hkc with h1 | h1
      · exact Or.inl (mm.sk h1)
      · exact Or.inr ⟨Dep.ready, h1, by simp⟩
    obtain ⟨i1, i2⟩ := ih _ (by rw [hm1.keys]; exact hnd)
    refine ⟨hm1.trans i1, fun to l hm p hp hcp => ?_⟩
    rcases List.mem_cons.mp hm with e | hm
    · have e1 : to = w.1 := by rw [← e]
      have e2 : l = w.2 := by rw [← e]
      subst e1; subst e2
      exact (hest p hp hcp).mono i1
    · exact i2 to l hm p hp hcp

theorem updateValues_R {V} (r : Runner V) (hd : r.dag = true) (writes : List (Key × List (Key × V))) (cm : Chans V)
    (hnd : (akeys cm).Nodup) :
    Mono cm (updateValues r cm writes) ∧
    (∀ to l, (to, l) ∈ writes → ∀ p, p ∈ akeys l → p ∈ lookupList to r.dataPreds → EstD (updateValues r cm writes) to p) := by
  unfold updateValues
  induction writes generalizing cm with
  | nil => exact ⟨Mono.refl _, fun to l h => by simp at h⟩
  | cons w rest ih =>
    simp only [List.foldl_cons]
    have hm1 : Mono cm (modChan cm w.1 (fun c => c.reportValues r.dag (w.2.filter (fun kv => (lookupList w.1 r.dataPreds).contains kv.1)))) :=
      Mono.modChan cm w.1 _ (fun c _ => by rw [hd]; exact (reportValues_mono c _).1)
    have hest : ∀ p, p ∈ akeys w.2 → p ∈ lookupList w.1 r.dataPreds →
        EstD (modChan cm w.1 (fun c => c.reportValues r.dag (w.2.filter (fun kv => (lookupList w.1 r.dataPreds).contains kv.1)))) w.1 p := by
      intro p hp hcp c' hc' hk
      obtain ⟨c, hc, rfl⟩ := (mem_modChan _ _ _ _ _).mp hc'
      simp only [beq_self_eq_true, ↓reduceIte] at hk ⊢
      rw [hd] at hk ⊢
      obtain ⟨mm, est⟩ := reportValues_mono c (w.2.filter (fun kv => (lookupList w.1 r.dataPreds).contains kv.1))
      have hkc : p ∈ akeys c.data := by
        have e1 := congrArg Prod.snd mm.shape
        simp only [shapeOf] at e1
        rw [← e1]; exact hk
      have hin : p ∈ akeys (w.2.filter (fun kv => (lookupList w.1 r.dataPreds).contains kv.1)) := by
        simp only [akeys, List.mem_map, List.mem_filter] at hp ⊢
        obtain ⟨x, hx, rfl⟩ := hp
        exact ⟨x, ⟨hx, by simpa using hcp⟩, rfl⟩
      rcases est p hin hkc with h1 | h1
      · exact Or.inl (mm.sk h1)
      · exact Or.inr h1
    obtain ⟨i1, i2⟩ := ih _ (by rw [hm1.keys]; exact hnd)
    refine ⟨hm1.trans i1, fun to l hm p hp hcp => ?_⟩
    rcases List.mem_cons.mp hm with e | hm
    · have e1 : to = w.1 := by rw [← e]
      have e2 : l = w.2 := by rw [← e]
      subst e1; subst e2
      exact (hest p hp hcp).mono i1
    · exact i2 to l hm p hp hcp

/-! ### what `resolve` records for the two update passes -/

def DepsHave (ds : List (Key × List Key)) (to p : Key) : Prop := ∃ l, alookup to ds = some l ∧ p ∈ l
def WritesHave {V} (ws : List (Key × List (Key × V))) (to p : Key) : Prop :=
  ∃ l, alookup to ws = some l ∧ p ∈ akeys l

theorem addDep_have (ds : List (Key × List Key)) (to from_ : Key) :
    DepsHave (addDep ds to from_) to from_ ∧
    (∀ to' p, DepsHave ds to' p → DepsHave (addDep ds to from_) to' p) := by
  unfold addDep
  refine ⟨⟨_, alookup_aset_same _ _ _, by simp⟩, fun to' p ⟨l, hl, hp⟩ => ?_⟩
  by_cases e : to' = to
  · subst e
    exact ⟨_, alookup_aset_same _ _ _, by rw [hl]; simp [hp]⟩
  · exact ⟨l, by rw [alookup_aset_other _ _ _ _ e]; exact hl, hp⟩

theorem addWrite_have {V} (ws : List (Key × List (Key × V))) (to from_ : Key) (v : V) :
    WritesHave (addWrite ws to from_ v) to from_ ∧
    (∀ to' p, WritesHave ws to' p → WritesHave (addWrite ws to from_ v) to' p) := by
  unfold addWrite
  refine ⟨⟨_, alookup_aset_same _ _ _, mem_akeys_of_mem _ v _ (mem_aset_self _ _ _)⟩, fun to' p ⟨l, hl, hp⟩ => ?_⟩
  by_cases e : to' = to
  · subst e
    refine ⟨_, alookup_aset_same _ _ _, ?_⟩
    rw [hl]
    simp only [Option.getD_some]
    rw [akeys_aset]
    split
    · exact hp
    · exact List.mem_append_left _ hp
  · exact ⟨l, by rw [alookup_aset_other _ _ _ _ e]; exact hl, hp⟩

theorem foldl_addDep_have (from_ : Key) (tg : List Key) (ds : List (Key × List Key)) :
    (∀ to, to ∈ tg → DepsHave (tg.foldl (fun ds k => addDep ds k from_) ds) to from_) ∧
    (∀ to' p, DepsHave ds to' p → DepsHave (tg.foldl (fun ds k => addDep ds k from_) ds) to' p) := by
  induction tg generalizing ds with
  | nil => exact ⟨fun to h => by simp at h, fun to' p h => h⟩
  | cons t rest ih =>
    simp only [List.foldl_cons]
    obtain ⟨a1, a2⟩ := addDep_have ds t from_
    obtain ⟨i1, i2⟩ := ih (addDep ds t from_)
    refine ⟨fun to hto => ?_, fun to' p h => i2 to' p (a2 to' p h)⟩
    rcases List.mem_cons.mp hto with rfl | hto
    · exact i2 _ _ a1
    · exact i1 to hto

theorem foldl_addWrite_have {V} (from_ : Key) (v : V) (tg : List Key) (ws : List (Key × List (Key × V))) :
    (∀ to, to ∈ tg → WritesHave (tg.foldl (fun ws k => addWrite ws k from_ v) ws) to from_) ∧
    (∀ to' p, WritesHave ws to' p → WritesHave (tg.foldl (fun ws k => addWrite ws k from_ v) ws) to' p) := by
  induction tg generalizing ws with
  | nil => exact ⟨fun to h => by simp at h, fun to' p h => h⟩
  | cons t rest ih =>
    simp only [List.foldl_cons]
    obtain ⟨a1, a2⟩ := addWrite_have ws t from_ v
    obtain ⟨i1, i2⟩ := ih (addWrite ws t from_ v)
    refine ⟨fun to hto => ?_, fun to' p h => i2 to' p (a2 to' p h)⟩
    rcases List.mem_cons.mp hto with rfl | hto
    · exact i2 _ _ a1
    · exact i1 to hto

structure RS {V} (F : Key → Nat) (r : Runner V) (acc : Resolved V) : Prop where
  nd : (akeys acc.cm).Nodup
  sk : ∀ n c, (n, c) ∈ acc.cm → SkOK c
  sh : shapes acc.cm = shapes (initChans r)
  q : ∀ p, skOf acc.cm p = 1 → RP F acc.cm p

/-- what resolving the completed task `t` has recorded -/
def TaskFacts {V} (r : Runner V) (acc : Resolved V) (t : Done V) : Prop :=
  ∀ nd, r.call? t.1 = some nd → ∃ sel, selectOf nd t.2 = .ok sel ∧
    (∀ s, s ∈ skippedOf nd sel → Reported acc.cm s t.1) ∧
    (∀ to, to ∈ nd.controls ++ sel → DepsHave acc.deps to t.1) ∧
    (∀ to, to ∈ sel ++ nd.writeTo → WritesHave acc.writes to t.1)

structure Grows {V} (acc acc' : Resolved V) : Prop where
  cm : Mono acc.cm acc'.cm
  ds : ∀ to p, DepsHave acc.deps to p → DepsHave acc'.deps to p
  ws : ∀ to p, WritesHave acc.writes to p → WritesHave acc'.writes to p

theorem Grows.refl {V} (acc : Resolved V) : Grows acc acc := ⟨Mono.refl _, fun _ _ h => h, fun _ _ h => h⟩
theorem Grows.trans {V} {a b c : Resolved V} (h1 : Grows a b) (h2 : Grows b c) : Grows a c :=
  ⟨h1.cm.trans h2.cm, fun to p h => h2.ds to p (h1.ds to p h), fun to p h => h2.ws to p (h1.ws to p h)⟩

theorem TaskFacts.mono {V} {r : Runner V} {acc acc' : Resolved V} (g : Grows acc acc') {t : Done V}
    (h : TaskFacts r acc t) : TaskFacts r acc' t := by
  intro nd h1
  obtain ⟨sel, h2, a, b, c⟩ := h nd h1
  exact ⟨sel, h2, fun s hs => (a s hs).mono g.cm, fun to hto => g.ds to _ (b to hto), fun to hto => g.ws to _ (c to hto)⟩

theorem resolveStep_R {V} {F : Key → Nat} (r : Runner V) (hd : r.dag = true) (hs : SuccOK r) (hps : PredSucc r)
    (hstart : START ∉ akeys (initChans r)) (hk : r.start.key = START)
    (acc acc' : Resolved V) (t : Done V) (hi : RS F r acc) (h : resolveStep r acc t = .ok acc') :
    RS F r acc' ∧ Grows acc acc' ∧ TaskFacts r acc' t := by
  unfold resolveStep at h
  cases hc : r.call? t.1 with
  | none =>
    simp only [hc, pure, Except.pure, Except.ok.injEq] at h
    subst h
    exact ⟨hi, Grows.refl _, fun nd h1 => by rw [hc] at h1; cases h1⟩
  | some n =>
    simp only [hc, bind, Except.bind] at h
    obtain ⟨hn, hkey⟩ := call?_some r hk t.1 n hc
    cases hb : calcBranch r acc.cm n t.2 with
    | error e => simp [hb] at h
    | ok res =>
      obtain ⟨cm', sel⟩ := res
      simp only [hb, pure, Except.pure, Except.ok.injEq] at h
      subst h
      unfold calcBranch at hb
      cases h1 : selectOf n t.2 with
      | error e => simp [h1, bind, Except.bind] at hb
      | ok selected =>
        simp only [h1, bind, Except.bind] at hb
        cases h2 : reportBranch r acc.cm n.key (skippedOf n selected) with
        | error e => simp [h2] at hb
        | ok cm1 =>
          simp only [h2, pure, Except.pure, Except.ok.injEq, Prod.mk.injEq] at hb
          obtain ⟨rfl, rfl⟩ := hb
          obtain ⟨j1, j2, j3, j4, j5⟩ := reportBranch_R (F := F) r hd hs hps hstart acc.cm cm1 n.key (skippedOf n selected)
            (fun s hs' => hs n hn s (skippedOf_sub n selected s hs')) hi.nd hi.sk hi.sh hi.q h2
          obtain ⟨d1, d2⟩ := foldl_addDep_have t.1 n.controls acc.deps
          obtain ⟨d3, d4⟩ := foldl_addDep_have t.1 selected (n.controls.foldl (fun ds k => addDep ds k t.1) acc.deps)
          obtain ⟨w1, w2⟩ := foldl_addWrite_have t.1 t.2 (selected ++ n.writeTo) acc.writes
          refine ⟨⟨by rw [j1.keys]; exact hi.nd, j2, j3, j4⟩, ⟨j1, fun to p h => d4 to p (d2 to p h), w2⟩, ?_⟩
          intro nd e1
          rw [hc] at e1
          cases e1
          refine ⟨selected, h1, fun s hs' => by rw [← hkey]; exact j5 s hs', fun to hto => ?_, fun to hto => w1 to hto⟩
          rcases List.mem_append.mp hto with h' | h'
          · exact d4 to _ (d1 to h')
          · exact d3 to h'

theorem resolve_R {V} {F : Key → Nat} (r : Runner V) (hd : r.dag = true) (hs : SuccOK r) (hps : PredSucc r)
    (hstart : START ∉ akeys (initChans r)) (hk : r.start.key = START)
    (done : List (Done V)) (acc acc' : Resolved V) (hi : RS F r acc)
    (h : done.foldlM (resolveStep r) acc = .ok acc') :
    RS F r acc' ∧ Grows acc acc' ∧ (∀ t, t ∈ done → TaskFacts r acc' t) := by
  induction done generalizing acc with
  | nil =>
    simp only [List.foldlM_nil, pure, Except.pure, Except.ok.injEq] at h
    subst h; exact ⟨hi, Grows.refl _, fun t ht => by simp at ht⟩
  | cons t rest ih =>
    simp only [List.foldlM_cons, bind, Except.bind] at h
    cases h1 : resolveStep r acc t with
    | error e => simp [h1] at h
    | ok acc1 =>
      simp only [h1] at h
      obtain ⟨a1, a2, a3⟩ := resolveStep_R r hd hs hps hstart hk acc acc1 t hi h1
      obtain ⟨b1, b2, b3⟩ := ih acc1 a1 h
      refine ⟨b1, a2.trans b2, fun t' ht' => ?_⟩
      rcases List.mem_cons.mp ht' with rfl | ht'
      · exact a3.mono b2
      · exact b3 t' ht'

/-! ### one scheduling round -/

theorem predSucc_of {V} (r : Runner V) (hc : PredSuccC r) (hdd : PredSuccD r) : PredSucc r := by
  intro m cs ds hm p hp nd hn
  simp only [Node.successors, List.mem_append]
  rcases hp with hp | hp
  · rcases hc m cs ds hm p hp nd hn with h | h
    · exact Or.inl (Or.inr h)
    · exact Or.inr h
  · rcases hdd m cs ds hm p hp nd hn with h | ⟨h, _⟩
    · exact Or.inl (Or.inl h)
    · exact Or.inr h

theorem chan_data_keys {V} (r : Runner V) (hd : r.dag = true) (cm : Chans V)
    (hsh : shapes cm = shapes (initChans r)) (n : Key) (c : Chan V) (hc : (n, c) ∈ cm) :
    ∀ p, p ∈ lookupList n r.dataPreds ↔ p ∈ akeys c.data := by
  have hm := shapes_mem cm n c hc
  rw [hsh] at hm
  simp only [shapes, List.mem_map] at hm
  obtain ⟨⟨n0, c0⟩, hc0, he⟩ := hm
  simp only [Prod.mk.injEq] at he
  obtain ⟨rfl, he⟩ := he
  have e1 : akeys c0.data = akeys c.data := by
    have := congrArg Prod.snd he
    simpa [shapeOf] using this
  have hinit : c0 = Chan.init true (lookupList n0 r.ctrlPreds) (lookupList n0 r.dataPreds) := by
    simp only [initChans, List.mem_append, List.mem_map, List.mem_singleton, Prod.mk.injEq] at hc0
    rcases hc0 with ⟨nd, _, rfl, rfl⟩ | ⟨rfl, rfl⟩
    · rw [hd]
    · rw [hd]
  intro p
  rw [← e1, hinit]
  simp only [Chan.init, ↓reduceIte, akeys, List.map_map]
  simp [Function.comp]

theorem skOf_modChan_same {V} (cm : Chans V) (k : Key) (f : Chan V → Chan V)
    (h : ∀ c, (f c).skipped = c.skipped) (p : Key) : skOf (modChan cm k f) p = skOf cm p := by
  unfold skOf
  rw [alookup_modChan]
  by_cases hk : (p == k) = true
  · simp only [hk, ↓reduceIte]
    cases alookup p cm with
    | none => rfl
    | some c => simp only [Option.map_some]; rw [h c]
  · simp only [hk, Bool.false_eq_true, ↓reduceIte]

theorem reportValues_skipped {V} (c : Chan V) (ins : List (Key × V)) : (c.reportValues true ins).skipped = c.skipped := by
  rw [reportValues_eq]; split
  · rfl
  · exact (valsF_fold ins c).2.1

theorem reportDeps_skipped {V} (c : Chan V) (deps : List Key) : (c.reportDeps true deps).skipped = c.skipped := by
  rw [reportDeps_eq]; split
  · rfl
  · exact (depsF_fold deps c).2.1

theorem updateValues_skOf {V} (r : Runner V) (hd : r.dag = true) (writes : List (Key × List (Key × V))) (cm : Chans V) (p : Key) :
    skOf (updateValues r cm writes) p = skOf cm p := by
  unfold updateValues
  induction writes generalizing cm with
  | nil => rfl
  | cons w rest ih =>
    simp only [List.foldl_cons]
    rw [ih]
    exact skOf_modChan_same cm w.1 _ (fun c => by rw [hd]; exact reportValues_skipped c _) p

theorem updateDeps_skOf {V} (r : Runner V) (hd : r.dag = true) (deps : List (Key × List Key)) (cm : Chans V) (p : Key) :
    skOf (updateDeps r cm deps) p = skOf cm p := by
  unfold updateDeps
  induction deps generalizing cm with
  | nil => rfl
  | cons w rest ih =>
    simp only [List.foldl_cons]
    rw [ih]
    exact skOf_modChan_same cm w.1 _ (fun c => by rw [hd]; exact reportDeps_skipped c _) p

theorem mem_skippedOf {V} (n : Node V) (sel : List Key) (s : Key)
    (h1 : s ∈ n.branches.flatMap (·.ends)) (h2 : s ∉ sel) (h3 : s ∉ n.controls) : s ∈ skippedOf n sel := by
  simp only [skippedOf, List.mem_filter, List.mem_eraseDups, Bool.and_eq_true, Bool.not_eq_eq_eq_not, Bool.not_true]
  refine ⟨h1, ?_, ?_⟩
  · simpa using h2
  · simpa using h3

/-- after resolving `done` and the two update passes, the reports of every completed task have
    been made (channel manager before `getFromReadyChannels`) -/
theorem reports_after_updates {V} {F : Key → Nat} (r : Runner V) (hd : r.dag = true) (hs : SuccOK r)
    (hpc : PredSuccC r) (hpd : PredSuccD r) (hstart : START ∉ akeys (initChans r)) (hk : r.start.key = START)
    (cm : Chans V) (done : List (Done V)) (res : Resolved V)
    (hnd : (akeys cm).Nodup) (hsk : ∀ n c, (n, c) ∈ cm → SkOK c) (hsh : shapes cm = shapes (initChans r))
    (hq : ∀ p, skOf cm p = 1 → RP F cm p)
    (hcall : ∀ t, t ∈ done → (r.call? t.1).isSome = true)
    (h1 : resolve r cm done = .ok res) :
    let cm2 := updateDeps r (updateValues r res.cm res.writes) res.deps
    Mono cm cm2 ∧ shapes cm2 = shapes (initChans r) ∧
    (∀ p, skOf cm2 p = 1 → RP F cm2 p) ∧
    (∀ t, t ∈ done → RP F cm2 t.1) := by
  intro cm2
  obtain ⟨a1, a2, a3⟩ := resolve_R (F := F) r hd hs (predSucc_of r hpc hpd) hstart hk done
    { cm := cm, writes := [], deps := [] } res ⟨hnd, hsk, hsh, hq⟩ h1
  have hnd1 : (akeys res.cm).Nodup := a1.nd
  obtain ⟨u1, u2⟩ := updateValues_R r hd res.writes res.cm hnd1
  obtain ⟨v1, v2⟩ := updateDeps_R r hd res.deps (updateValues r res.cm res.writes) (by rw [u1.keys]; exact hnd1)
  have hmono : Mono res.cm cm2 := u1.trans v1
  have hsh2 : shapes cm2 = shapes (initChans r) := by
    -- shapes follow from Mono (same keys in the same order is not needed: use the K-free lemma on modChan)
    have e1 : shapes (updateValues r res.cm res.writes) = shapes res.cm := by
      unfold updateValues
      generalize res.writes = ws
      generalize res.cm = c0
      induction ws generalizing c0 with
      | nil => rfl
      | cons w rest ih =>
        simp only [List.foldl_cons]
        rw [ih]
        exact shapes_modChan _ _ _ (fun c _ => by rw [hd]; exact (reportValues_mono c _).1.shape)
    have e2 : shapes cm2 = shapes (updateValues r res.cm res.writes) := by
      show shapes (updateDeps r (updateValues r res.cm res.writes) res.deps) = _
      unfold updateDeps
      generalize res.deps = ds
      generalize (updateValues r res.cm res.writes) = c0
      induction ds generalizing c0 with
      | nil => rfl
      | cons w rest ih =>
        simp only [List.foldl_cons]
        rw [ih]
        exact shapes_modChan _ _ _ (fun c _ => by rw [hd]; exact (reportDeps_mono c _).1.shape)
    rw [e2, e1]; exact a1.sh
  refine ⟨a2.cm.trans hmono, hsh2, ?_, ?_⟩
  · intro p hp
    have : skOf res.cm p = 1 := by
      have e : skOf cm2 p = skOf res.cm p := by
        show skOf (updateDeps r (updateValues r res.cm res.writes) res.deps) p = _
        rw [updateDeps_skOf r hd, updateValues_skOf r hd]
      rw [← e]; exact hp
    exact (a1.q p this).mono hmono
  · intro t ht
    obtain ⟨nd, hnd'⟩ := Option.isSome_iff_exists.mp (hcall t ht)
    obtain ⟨sel, hsel, f1, f2, f3⟩ := a3 t ht nd hnd'
    refine ⟨fun n c' hc' hkc => ?_, fun n c' hc' hkd => ?_⟩
    · have hm := shapes_mem cm2 n c' hc'
      rw [hsh2] at hm
      have hpl := (chan_ctrl_keys r hd cm2 hsh2 (by rw [(a2.cm.trans hmono).keys]; exact hnd) n c' hc' t.1).mpr hkc
      have viaDeps : DepsHave res.deps n t.1 → 1 ≤ F n ∨ c'.skipped = true ∨ ∃ d, (t.1, d) ∈ c'.ctrl ∧ d ≠ Dep.waiting := by
        rintro ⟨l, hl, hp⟩
        exact Or.inr (v2 n l (mem_of_alookup _ _ _ hl) t.1 hp hpl c' hc' hkc)
      rcases hpc n _ _ hm t.1 hkc nd hnd' with h | h
      · exact viaDeps (f2 n (List.mem_append_left _ h))
      · by_cases hs1 : n ∈ sel
        · exact viaDeps (f2 n (List.mem_append_right _ hs1))
        · by_cases hs2 : n ∈ nd.controls
          · exact viaDeps (f2 n (List.mem_append_left _ hs2))
          · have := ((f1 n (mem_skippedOf nd sel n h hs1 hs2)).mono hmono) c' hc'
            exact Or.inr (Or.inr (this.1 hkc))
    · have hm := shapes_mem cm2 n c' hc'
      rw [hsh2] at hm
      have hpl := (chan_data_keys r hd cm2 hsh2 n c' hc' t.1).mpr hkd
      have viaWrites : WritesHave res.writes n t.1 → 1 ≤ F n ∨ c'.skipped = true ∨ (t.1, true) ∈ c'.data := by
        rintro ⟨l, hl, hp⟩
        exact Or.inr (((u2 n l (mem_of_alookup _ _ _ hl) t.1 hp hpl).mono v1) c' hc' hkd)
      rcases hpd n _ _ hm t.1 hkd nd hnd' with h | ⟨h, hnc⟩
      · exact viaWrites (f3 n (List.mem_append_right _ h))
      · by_cases hs1 : n ∈ sel
        · exact viaWrites (f3 n (List.mem_append_left _ hs1))
        · have := ((f1 n (mem_skippedOf nd sel n h hs1 hnc)).mono hmono) c' hc'
          exact Or.inr (Or.inr (this.2 hkd))

/-! ### handing out: every triggered channel fires, none is left triggered -/

theorem reset_not_triggered {V} (c : Chan V) (h : ¬ (c.ctrl = [] ∧ c.data = [])) : c.reset.triggered = false := by
  simp only [Chan.triggered, Chan.reset]
  by_cases hc : c.ctrl = []
  · have hdne : c.data ≠ [] := fun e => h ⟨hc, e⟩
    cases hdd : c.data with
    | nil => exact absurd hdd hdne
    | cons a b => simp [hc]
  · cases hcc : c.ctrl with
    | nil => exact absurd hcc hc
    | cons a b => simp

theorem getReady_untriggered {V} (ops : ValOps V) (cm : Chans V) :
    ∀ n c', (n, c') ∈ (getReady ops true cm).1 → c'.triggered = false := by
  intro n c' hm
  obtain ⟨_, _, g3⟩ := getReady_facts ops cm
  obtain ⟨c, hc, h⟩ := g3 n c' hm
  rcases h with ⟨ht, rfl⟩ | ⟨hf, rfl, _⟩
  · exact reset_not_triggered c (triggered_unpack c ht).2.1
  · exact hf

theorem getReady_fired {V} (ops : ValOps V) (cm : Chans V) (hb : (getReady ops true cm).2.2 = false) :
    ∀ n c, (n, c) ∈ cm → c.triggered = true → n ∈ akeys (getReady ops true cm).2.1 := by
  induction cm with
  | nil => intro n c h; simp at h
  | cons q t ih =>
    obtain ⟨k, c0⟩ := q
    intro n c hm ht
    simp only [getReady] at hb ⊢
    cases hg : (c0.get ops true).2 with
    | notReady =>
      simp only [hg] at hb ⊢
      rcases List.mem_cons.mp hm with e | hm
      · cases e
        exfalso
        unfold Chan.get at hg
        simp only [↓reduceIte, ht] at hg
        by_cases hv : c0.values = []
        · simp [hv] at hg
        · simp only [List.isEmpty_iff, hv, ↓reduceIte] at hg
          have hne : c0.values.map (·.2) ≠ [] := by
            intro e
            exact hv (by simpa using e)
          exact collect_ne_notReady ops _ hne hg
      · exact ih hb n c hm ht
    | mergeErr => simp [hg] at hb
    | ready v =>
      simp only [hg] at hb ⊢
      rcases List.mem_cons.mp hm with e | hm
      · cases e; simp [akeys]
      · simp only [akeys, List.map_cons, List.mem_cons]
        exact Or.inr (ih hb n c hm ht)

/-! ### the specification of "enabled" and completeness at a round boundary -/

theorem nodup_eraseDups (l : List Key) : l.eraseDups.Nodup := by
  induction hl : l.length using Nat.strongRecOn generalizing l with
  | _ n ih =>
    cases l with
    | nil => simp
    | cons a as =>
      rw [List.eraseDups_cons]
      refine List.nodup_cons.mpr ⟨?_, ?_⟩
      · intro hm
        have := List.mem_eraseDups.mp hm
        simp at this
      · apply ih (as.filter (fun b => !(b == a))).length _ _ rfl
        rw [← hl]
        simp only [List.length_cons]
        exact Nat.lt_succ_of_le (List.length_filter_le _ _)


theorem routes_deselects_excl {V} (r : Runner V) (p : Key) (o : V) (n : Key)
    (h1 : RoutesC r p o n) (h2 : Deselects r p o n) : False := by
  obtain ⟨nd, hn, hr⟩ := h1
  obtain ⟨nd', sel, hn', hs, hm⟩ := h2
  rw [hn] at hn'; cases hn'
  simp only [skippedOf, List.mem_filter, List.mem_eraseDups, Bool.and_eq_true, Bool.not_eq_eq_eq_not,
    Bool.not_true] at hm
  rcases hr with h | ⟨sel', hs', h⟩
  · have : nd.controls.contains n = true := List.contains_iff_mem.mpr h
    rw [this] at hm; exact absurd hm.2.2 (by simp)
  · rw [hs] at hs'; cases hs'
    have : sel.contains n = true := List.contains_iff_mem.mpr h
    rw [this] at hm; exact absurd hm.2.1 (by simp)

/-- the part of `Boundary` that already holds before the ready channels are handed out
    (everything but "no channel is triggered") -/
structure PreB {V} (r : Runner V) (Hc H : List (Done V)) (F : Key → Nat) (cm : Chans V) : Prop where
  sub : ∀ d, d ∈ Hc → d ∈ H
  k : K r H cm
  sh : shapes cm = shapes (initChans r)
  bound : ∀ n, F n + skOf cm n ≤ 1
  rp : ∀ p, ((∃ o, (p, o) ∈ Hc) ∨ skOf cm p = 1) → RP F cm p
  hf : ∀ p o, (p, o) ∈ H → p = START ∨ 1 ≤ F p
  fn : ∀ p o o', (p, o) ∈ H → (p, o') ∈ H → o = o'
  just : ∀ n, 1 ≤ F n → lookupList n r.ctrlPreds ≠ [] →
      ∃ p, p ∈ lookupList n r.ctrlPreds ∧ ∃ o, (p, o) ∈ H ∧ RoutesC r p o n

/-- what is known at a round boundary (after `calcNext` produced the next tasks): `Hc` are the
    completions that have been processed, `H ⊇ Hc` a history the soundness invariant holds for
    (batch loop: the same; eager loop: the outputs of everything submitted) -/
structure Boundary {V} (r : Runner V) (Hc H : List (Done V)) (F : Key → Nat) (cm : Chans V) : Prop where
  sub : ∀ d, d ∈ Hc → d ∈ H
  k : K r H cm
  sh : shapes cm = shapes (initChans r)
  bound : ∀ n, F n + skOf cm n ≤ 1
  rp : ∀ p, ((∃ o, (p, o) ∈ Hc) ∨ skOf cm p = 1) → RP F cm p
  untr : ∀ n c, (n, c) ∈ cm → c.triggered = false
  hf : ∀ p o, (p, o) ∈ H → p = START ∨ 1 ≤ F p
  fn : ∀ p o o', (p, o) ∈ H → (p, o') ∈ H → o = o'
  just : ∀ n, 1 ≤ F n → lookupList n r.ctrlPreds ≠ [] →
      ∃ p, p ∈ lookupList n r.ctrlPreds ∧ ∃ o, (p, o) ∈ H ∧ RoutesC r p o n

theorem Boundary.pre {V} {r : Runner V} {Hc H : List (Done V)} {F : Key → Nat} {cm : Chans V}
    (b : Boundary r Hc H F cm) : PreB r Hc H F cm :=
  ⟨b.sub, b.k, b.sh, b.bound, b.rp, b.hf, b.fn, b.just⟩

theorem completed_not_skipped_pre {V} {r : Runner V} {Hc H : List (Done V)} {F : Key → Nat} {cm : Chans V}
    (b : PreB r Hc H F cm) (hstart : START ∉ akeys cm) (p : Key) (o : V) (h : (p, o) ∈ H) : skOf cm p = 0 := by
  rcases b.hf p o h with rfl | h1
  · unfold skOf; rw [alookup_none_of_not_mem _ _ hstart]
  · have := b.bound p; omega

/-- completeness of the skip flags: what the specification calls skipped is flagged -/
theorem skippedS_flagged_pre {V} {r : Runner V} {Hc H : List (Done V)} {F : Key → Nat} {cm : Chans V}
    (hd : r.dag = true) (b : PreB r Hc H F cm) (hstart : START ∉ akeys cm)
    (hp4 : ∀ n, lookupList n r.ctrlPreds ≠ [] → n ∈ akeys cm) :
    ∀ n, SkippedS r Hc n → skOf cm n = 1 := by
  intro n hs
  induction hs with
  | intro n hne hpre ih =>
    obtain ⟨c, hc⟩ := exists_of_mem_akeys _ _ (hp4 n hne)
    have keys := chan_ctrl_keys r hd cm b.sh b.k.nd n c hc
    have hl := alookup_of_mem_nodup cm b.k.nd n c hc
    -- a control predecessor that is not "deselecting" is flagged
    have pre : ∀ p, p ∈ lookupList n r.ctrlPreds → (∃ o, (p, o) ∈ Hc ∧ Deselects r p o n) ∨ skOf cm p = 1 := by
      intro p hp
      by_cases hdz : ∃ o, (p, o) ∈ Hc ∧ Deselects r p o n
      · exact Or.inl hdz
      · exact Or.inr (ih p hp hdz)
    -- `n` was never started
    have hF : F n = 0 := by
      by_cases h0 : 1 ≤ F n
      · exfalso
        obtain ⟨p, hp, o, ho, hr⟩ := b.just n h0 hne
        rcases pre p hp with ⟨o', ho', hdz⟩ | hfl
        · rw [b.fn p o' o (b.sub _ ho') ho] at hdz
          exact routes_deselects_excl r p o n hr hdz
        · have := completed_not_skipped_pre b hstart p o ho
          omega
      · omega
    by_cases hsk : c.skipped = true
    · unfold skOf; rw [hl]; simp [hsk]
    · exfalso
      -- every control entry is reported, and none can be `ready`: all are `skipped`
      have hall : ∀ p d, (p, d) ∈ c.ctrl → d = Dep.skipped := by
        intro p d hm
        have hp := (keys p).mpr (mem_akeys_of_mem p d _ hm)
        have hres : (∃ o, (p, o) ∈ Hc) ∨ skOf cm p = 1 := by
          rcases pre p hp with ⟨o, ho, _⟩ | h
          · exact Or.inl ⟨o, ho⟩
          · exact Or.inr h
        rcases (b.rp p hres).1 n c hc (mem_akeys_of_mem p d _ hm) with h1 | h1 | ⟨d', hm', hd'⟩
        · omega
        · exact absurd h1 hsk
        · -- entries are functional (distinct keys): d' = d
          have hndk : (akeys c.ctrl).Nodup := by
            have hm0 := shapes_mem cm n c hc
            rw [b.sh] at hm0
            simp only [shapes, List.mem_map] at hm0
            obtain ⟨⟨n0, c0⟩, hc0, he⟩ := hm0
            simp only [Prod.mk.injEq] at he
            obtain ⟨rfl, he⟩ := he
            have e1 : akeys c0.ctrl = akeys c.ctrl := by
              have := congrArg Prod.fst he
              simpa [shapeOf] using this
            have hinit : c0 = Chan.init true (lookupList n0 r.ctrlPreds) (lookupList n0 r.dataPreds) := by
              simp only [initChans, List.mem_append, List.mem_map, List.mem_singleton, Prod.mk.injEq] at hc0
              rcases hc0 with ⟨nd, _, rfl, rfl⟩ | ⟨rfl, rfl⟩
              · rw [hd]
              · rw [hd]
            rw [← e1, hinit]
            simp only [Chan.init, ↓reduceIte, akeys, List.map_map]
            have : (List.map ((fun x => x.1) ∘ fun x => (x, Dep.waiting)) (lookupList n0 r.ctrlPreds).eraseDups) =
                (lookupList n0 r.ctrlPreds).eraseDups := by
              have : ((fun x : Key × Dep => x.1) ∘ fun x : Key => (x, Dep.waiting)) = id := rfl
              rw [this, List.map_id]
            rw [this]
            exact nodup_eraseDups _
          have e1 := alookup_of_mem_nodup c.ctrl hndk p d hm
          have e2 := alookup_of_mem_nodup c.ctrl hndk p d' hm'
          rw [e1] at e2
          have : d = d' := Option.some.inj e2
          subst this
          cases d with
          | waiting => exact absurd rfl hd'
          | skipped => rfl
          | ready =>
            exfalso
            obtain ⟨o, ho, hr⟩ := b.k.rdy n c hc p hm
            rcases pre p hp with ⟨o', ho', hdz⟩ | hfl
            · rw [b.fn p o' o (b.sub _ ho') ho] at hdz
              exact routes_deselects_excl r p o n hr hdz
            · have := completed_not_skipped_pre b hstart p o ho
              omega
      have hcne : c.ctrl ≠ [] := by
        intro hnil
        cases hll : lookupList n r.ctrlPreds with
        | nil => exact hne hll
        | cons a t =>
          have := (keys a).mp (by rw [hll]; simp)
          rw [hnil] at this; simp [akeys] at this
      exact hsk (b.k.flag n c hc hcne hall)

/-- a node the specification calls enabled and that has not been started sits on a triggered
    channel (before the ready channels are handed out) -/
theorem triggered_of_enabled {V} {r : Runner V} {Hc H : List (Done V)} {F : Key → Nat} {cm : Chans V}
    (hd : r.dag = true) (b : PreB r Hc H F cm) (hstart : START ∉ akeys cm)
    (hp4 : ∀ n, lookupList n r.ctrlPreds ≠ [] → n ∈ akeys cm) :
    ∀ n, Enabled r Hc n → F n = 0 → ∃ c, (n, c) ∈ cm ∧ c.triggered = true := by
  intro n ⟨hne, hctrl, ⟨p0, hp0, o0, ho0, hr0⟩, hdata⟩ hF0
  obtain ⟨c, hc⟩ := exists_of_mem_akeys _ _ (hp4 n hne)
  have keys := chan_ctrl_keys r hd cm b.sh b.k.nd n c hc
  have dkeys := chan_data_keys r hd cm b.sh n c hc
  have resolved : ∀ p, ((∃ o, (p, o) ∈ Hc) ∨ SkippedS r Hc p) → RP F cm p := by
    intro p hp
    rcases hp with h | h
    · exact b.rp p (Or.inl h)
    · exact b.rp p (Or.inr (skippedS_flagged_pre hd b hstart hp4 p h))
  -- the channel cannot be skipped: the routed predecessor's entry would be `skipped`
  have hnsk : c.skipped = false := by
    by_cases hsk : c.skipped = true
    · exfalso
      obtain ⟨d, hdm⟩ := exists_of_mem_akeys _ _ ((keys p0).mp hp0)
      have := (b.k.sk n c hc).all hsk p0 d hdm
      subst this
      rcases b.k.skp n c hc p0 hdm with h | ⟨o', ho', hdz⟩
      · have := completed_not_skipped_pre b hstart p0 o0 (b.sub _ ho0)
        omega
      · rw [b.fn p0 o' o0 ho' (b.sub _ ho0)] at hdz
        exact routes_deselects_excl r p0 o0 n hr0 hdz
    · simpa using hsk
  have hcne : c.ctrl ≠ [] := by
    intro hnil
    have := (keys p0).mp hp0
    rw [hnil] at this; simp [akeys] at this
  -- so it is triggered
  have htrig : c.triggered = true := by
    simp only [Chan.triggered, Bool.and_eq_true, Bool.not_eq_eq_eq_not, Bool.not_true, List.any_eq_false,
      beq_iff_eq, Bool.and_eq_false_imp, List.isEmpty_iff]
    refine ⟨⟨⟨hnsk, fun e => absurd e hcne⟩, ?_⟩, ?_⟩
    · intro x hx hw
      have hp := (keys x.1).mpr (mem_akeys_of_mem x.1 x.2 _ hx)
      rcases (resolved x.1 (hctrl x.1 hp)).1 n c hc (mem_akeys_of_mem x.1 x.2 _ hx) with h1 | h1 | ⟨d', hm', hd'⟩
      · omega
      · rw [hnsk] at h1; cases h1
      · -- entries are functional
        have hndk : (akeys c.ctrl).Nodup := by
          have hm0 := shapes_mem cm n c hc
          rw [b.sh] at hm0
          simp only [shapes, List.mem_map] at hm0
          obtain ⟨⟨n0, c0⟩, hc0, he⟩ := hm0
          simp only [Prod.mk.injEq] at he
          obtain ⟨rfl, he⟩ := he
          have e1 : akeys c0.ctrl = akeys c.ctrl := by
            have := congrArg Prod.fst he
            simpa [shapeOf] using this
          have hinit : c0 = Chan.init true (lookupList n0 r.ctrlPreds) (lookupList n0 r.dataPreds) := by
            simp only [initChans, List.mem_append, List.mem_map, List.mem_singleton, Prod.mk.injEq] at hc0
            rcases hc0 with ⟨nd, _, rfl, rfl⟩ | ⟨rfl, rfl⟩
            · rw [hd]
            · rw [hd]
          rw [← e1, hinit]
          simp only [Chan.init, ↓reduceIte, akeys, List.map_map]
          have : ((fun x : Key × Dep => x.1) ∘ fun x : Key => (x, Dep.waiting)) = id := rfl
          rw [this, List.map_id]
          exact nodup_eraseDups _
        have e1 := alookup_of_mem_nodup c.ctrl hndk x.1 x.2 hx
        have e2 := alookup_of_mem_nodup c.ctrl hndk x.1 d' hm'
        rw [e1] at e2
        have : x.2 = d' := Option.some.inj e2
        rw [← this] at hd'
        exact hd' hw
    · intro x hx
      have hp := (dkeys x.1).mpr (mem_akeys_of_mem x.1 x.2 _ hx)
      rcases (resolved x.1 (hdata x.1 hp)).2 n c hc (mem_akeys_of_mem x.1 x.2 _ hx) with h1 | h1 | h1
      · omega
      · rw [hnsk] at h1; cases h1
      · have hndk : (akeys c.data).Nodup := by
          have hm0 := shapes_mem cm n c hc
          rw [b.sh] at hm0
          simp only [shapes, List.mem_map] at hm0
          obtain ⟨⟨n0, c0⟩, hc0, he⟩ := hm0
          simp only [Prod.mk.injEq] at he
          obtain ⟨rfl, he⟩ := he
          have e1 : akeys c0.data = akeys c.data := by
            have := congrArg Prod.snd he
            simpa [shapeOf] using this
          have hinit : c0 = Chan.init true (lookupList n0 r.ctrlPreds) (lookupList n0 r.dataPreds) := by
            simp only [initChans, List.mem_append, List.mem_map, List.mem_singleton, Prod.mk.injEq] at hc0
            rcases hc0 with ⟨nd, _, rfl, rfl⟩ | ⟨rfl, rfl⟩
            · rw [hd]
            · rw [hd]
          rw [← e1, hinit]
          simp only [Chan.init, ↓reduceIte, akeys, List.map_map]
          have : ((fun x : Key × Bool => x.1) ∘ fun x : Key => (x, false)) = id := rfl
          rw [this, List.map_id]
          exact nodup_eraseDups _
        have e1 := alookup_of_mem_nodup c.data hndk x.1 x.2 hx
        have e2 := alookup_of_mem_nodup c.data hndk x.1 true h1
        rw [e1] at e2
        have : x.2 = true := Option.some.inj e2
        simp [this]
  exact ⟨c, hc, htrig⟩

theorem completed_not_skipped {V} {r : Runner V} {Hc H : List (Done V)} {F : Key → Nat} {cm : Chans V}
    (b : Boundary r Hc H F cm) (hstart : START ∉ akeys cm) (p : Key) (o : V) (h : (p, o) ∈ H) : skOf cm p = 0 :=
  completed_not_skipped_pre b.pre hstart p o h

/-- completeness of the skip flags: what the specification calls skipped is flagged -/
theorem skippedS_flagged {V} {r : Runner V} {Hc H : List (Done V)} {F : Key → Nat} {cm : Chans V}
    (hd : r.dag = true) (b : Boundary r Hc H F cm) (hstart : START ∉ akeys cm)
    (hp4 : ∀ n, lookupList n r.ctrlPreds ≠ [] → n ∈ akeys cm) :
    ∀ n, SkippedS r Hc n → skOf cm n = 1 :=
  skippedS_flagged_pre hd b.pre hstart hp4

/-- **completeness at a round boundary**: a node the specification calls enabled has been started -/
theorem complete_at {V} {r : Runner V} {Hc H : List (Done V)} {F : Key → Nat} {cm : Chans V}
    (hd : r.dag = true) (b : Boundary r Hc H F cm) (hstart : START ∉ akeys cm)
    (hp4 : ∀ n, lookupList n r.ctrlPreds ≠ [] → n ∈ akeys cm) :
    ∀ n, Enabled r Hc n → 1 ≤ F n := by
  intro n hen
  apply Classical.byContradiction
  intro hF
  obtain ⟨c, hc, htrig⟩ := triggered_of_enabled hd b.pre hstart hp4 n hen (by omega)
  have := b.untr n c hc
  rw [htrig] at this; cases this

/-! ### one round, for the completeness invariant -/

theorem calcNext_unpack {V} (ops : ValOps V) (r : Runner V) (hd : r.dag = true) (cm cm' : Chans V)
    (done : List (Done V)) (ts : List (Key × V)) (h : calcNext ops r cm done = .ok (cm', .tasks ts)) :
    ∃ res, resolve r cm done = .ok res ∧
      getReady ops true (updateDeps r (updateValues r res.cm res.writes) res.deps) = (cm', ts, false) ∧
      alookup END ts = none := by
  unfold calcNext at h
  cases h1 : resolve r cm done with
  | error e => simp [h1, bind, Except.bind] at h
  | ok res =>
    simp only [h1, bind, Except.bind] at h
    rw [hd] at h
    refine ⟨res, rfl, ?_⟩
    generalize hg : getReady ops true (updateDeps r (updateValues r res.cm res.writes) res.deps) = gr at h
    obtain ⟨cm3, ready, bad⟩ := gr
    simp only at h
    by_cases hbad : bad = true
    · simp [hbad, throw, throwThe, MonadExceptOf.throw] at h
    · simp only [hbad, Bool.false_eq_true, ↓reduceIte] at h
      have hb : bad = false := by simpa using hbad
      split at h
      · simp [pure, Except.pure] at h
      · rename_i hnone
        simp only [pure, Except.pure, Except.ok.injEq, Prod.mk.injEq, Next.tasks.injEq] at h
        obtain ⟨rfl, rfl⟩ := h
        exact ⟨by rw [hb], hnone⟩

theorem getReady_RP {V} {F : Key → Nat} (ops : ValOps V) (cm : Chans V) (hnd : (akeys cm).Nodup)
    (hb : (getReady ops true cm).2.2 = false) (p : Key) (h : RP F cm p) :
    RP (fun n => F n + (akeys (getReady ops true cm).2.1).count n) (getReady ops true cm).1 p := by
  obtain ⟨_, _, g3⟩ := getReady_facts ops cm
  have fired := getReady_fired ops cm hb
  refine ⟨fun n c' hc' hk => ?_, fun n c' hc' hk => ?_⟩
  · obtain ⟨c, hc, hh⟩ := g3 n c' hc'
    rcases hh with ⟨ht, rfl⟩ | ⟨_, rfl, _⟩
    · left
      have := List.count_pos_iff.mpr (fired n c hc ht)
      show 1 ≤ F n + _
      omega
    · rcases h.1 n c' hc hk with h1 | h1 | h1
      · left
        show 1 ≤ F n + _
        omega
      · exact Or.inr (Or.inl h1)
      · exact Or.inr (Or.inr h1)
  · obtain ⟨c, hc, hh⟩ := g3 n c' hc'
    rcases hh with ⟨ht, rfl⟩ | ⟨_, rfl, _⟩
    · left
      have := List.count_pos_iff.mpr (fired n c hc ht)
      show 1 ≤ F n + _
      omega
    · rcases h.2 n c' hc hk with h1 | h1 | h1
      · left
        show 1 ≤ F n + _
        omega
      · exact Or.inr (Or.inl h1)
      · exact Or.inr (Or.inr h1)

/-- one round: every report that is due has been made when the next tasks are handed out -/
theorem round_R {V} {F : Key → Nat} (ops : ValOps V) (r : Runner V) (hd : r.dag = true) (hs : SuccOK r)
    (hpc : PredSuccC r) (hpd : PredSuccD r) (hstart : START ∉ akeys (initChans r)) (hk : r.start.key = START)
    (cm cm' : Chans V) (done : List (Done V)) (ts : List (Key × V)) (Old : Key → Prop)
    (hnd : (akeys cm).Nodup) (hsk : ∀ n c, (n, c) ∈ cm → SkOK c) (hsh : shapes cm = shapes (initChans r))
    (hq : ∀ p, skOf cm p = 1 → RP F cm p) (hold : ∀ p, Old p → RP F cm p)
    (hcall : ∀ t, t ∈ done → (r.call? t.1).isSome = true)
    (h : calcNext ops r cm done = .ok (cm', .tasks ts)) :
    (∀ p, (Old p ∨ p ∈ done.map (·.1) ∨ skOf cm' p = 1) →
        RP (fun n => F n + (akeys ts).count n) cm' p) ∧
    (∀ n c, (n, c) ∈ cm' → c.triggered = false) ∧
    (∀ t, t ∈ ts → t.1 ∈ akeys (initChans r) ∧ t.1 ≠ END) := by
  obtain ⟨res, h1, hg, hend⟩ := calcNext_unpack ops r hd cm cm' done ts h
  obtain ⟨m, sh2, q2, t2⟩ := reports_after_updates (F := F) r hd hs hpc hpd hstart hk cm done res hnd hsk hsh hq hcall h1
  have hnd2 : (akeys (updateDeps r (updateValues r res.cm res.writes) res.deps)).Nodup := by rw [m.keys]; exact hnd
  have hb : (getReady ops true (updateDeps r (updateValues r res.cm res.writes) res.deps)).2.2 = false := by rw [hg]
  have e1 : (getReady ops true (updateDeps r (updateValues r res.cm res.writes) res.deps)).1 = cm' := by rw [hg]
  have e2 : (getReady ops true (updateDeps r (updateValues r res.cm res.writes) res.deps)).2.1 = ts := by rw [hg]
  refine ⟨fun p hp => ?_, ?_, ?_⟩
  · have base : RP F (updateDeps r (updateValues r res.cm res.writes) res.deps) p := by
      rcases hp with h' | h' | h'
      · exact (hold p h').mono m
      · obtain ⟨t, ht, rfl⟩ := List.mem_map.mp h'
        exact t2 t ht
      · apply q2
        rw [← e1, getReady_skOf] at h'
        exact h'
    have := getReady_RP ops _ hnd2 hb p base
    rw [e1, e2] at this
    exact this
  · intro n c hc
    rw [← e1] at hc
    exact getReady_untriggered ops _ n c hc
  · intro t ht
    obtain ⟨_, g2, _⟩ := getReady_facts ops (updateDeps r (updateValues r res.cm res.writes) res.deps)
    rw [e2] at g2
    have hk1 : t.1 ∈ akeys (updateDeps r (updateValues r res.cm res.writes) res.deps) :=
      g2.subset (mem_akeys_of_mem t.1 t.2 _ ht)
    refine ⟨?_, ?_⟩
    · rw [← shapes_keys, sh2, shapes_keys] at hk1; exact hk1
    · intro e
      have : (alookup END ts).isSome = true := (alookup_isSome_iff _ _).mpr (e ▸ mem_akeys_of_mem t.1 t.2 _ ht)
      rw [hend] at this; cases this

/-! ### the loop -/

theorem LInv_step {V} (ops : ValOps V) (r : Runner V) (wf : DagWF r) (sched : Sched V) (hf : sched.Fair)
    (cm cm' : Chans V) (tasks ts : List (Key × V)) (tr : Trace V) (done : List (Done V)) (nx : Next V)
    (h : LInv r cm tasks tr) (hr : runTasks r sched tr.length tasks = .ok done)
    (hc : calcNext ops r cm done = .ok (cm', nx)) (hnx : nx = .tasks ts) : LInv r cm' ts (tasks :: tr) := by
  obtain ⟨ready, j1, j2, j3, j4⟩ := calcNext_J ops r wf.dag wf.succ wf.startKey cm cm' done nx h.j h.sh hc
  have hready : ready = ts := by
    rcases j4 with ⟨v, hv⟩ | hv
    · rw [hnx] at hv; cases hv
    · rw [hnx] at hv; cases hv; rfl
  subst hready
  have hperm := runTasks_keys r sched hf _ _ _ hr
  refine ⟨?_, j2, ?_⟩
  · have e1 : (fun n => (keysOfTr (ready :: tasks :: tr)).count n) =
        (fun n => (keysOfTr (tasks :: tr)).count n + (akeys ready).count n) := by
      funext n
      rw [keysOfTr_cons ready, List.count_append]; omega
    have e2 : (fun p => (keysOfTr (tasks :: tr)).count p + if p = START then 1 else 0) =
        (fun p => ((keysOfTr tr).count p + if p = START then 1 else 0) + (done.map (·.1)).count p) := by
      funext p
      rw [keysOfTr_cons tasks, List.count_append, hperm.count_eq]
      simp only [akeys]; omega
    rw [e1, e2]; exact j1
  · intro n hn
    rw [keysOfTr_cons ready, List.count_append] at hn
    by_cases h0 : 0 < (akeys ready).count n
    · exact j3 n (List.count_pos_iff.mp h0)
    · exact h.pos n (by omega)

theorem linv_static {V} (r : Runner V) (wf : DagWF r) (cm : Chans V) (tasks : List (Key × V)) (tr : Trace V)
    (h : LInv r cm tasks tr) : ∀ n, (keysOfTr (tasks :: tr)).count n + skOf cm n ≤ 1 := by
  obtain ⟨rank, hrank⟩ := wf.acyclic
  have hk : akeys cm = akeys (initChans r) := by rw [← shapes_keys cm, h.sh, shapes_keys]
  exact static_bound cm rank (by rw [h.sh]; exact hrank) (by rw [hk]; exact wf.startFresh) h.j
    (by
      intro p
      simp only [keysOfTr_cons, List.count_append]
      omega)
    (by rw [h.sh]; exact h.pos)

theorem KInv_step {V} (ops : ValOps V) (r : Runner V) (wf : DagWF r) (sched : Sched V) (hf : sched.Fair) (x : V)
    (cm cm' : Chans V) (tasks ts : List (Key × V)) (tr : Trace V) (done : List (Done V))
    (h : KInv ops r x cm tasks tr) (hr : runTasks r sched tr.length tasks = .ok done)
    (hc : calcNext ops r cm done = .ok (cm', .tasks ts)) : KInv ops r x cm' ts (tasks :: tr) := by
  obtain ⟨rank, hrank⟩ := wf.acyclic
  have hK' : K r (histOf r x (tasks :: tr)) cm := K_mono h.k (histOf_mono r x tasks tr)
  have hdone : ∀ t, t ∈ done → t ∈ histOf r x (tasks :: tr) := by
    intro d hd
    obtain ⟨t, ht, ho⟩ := runTasks_mem r sched hf _ _ _ hr d hd
    simp only [histOf, List.mem_cons, List.flatten_cons, List.filterMap_append, List.mem_append,
      List.mem_filterMap]
    exact Or.inr (Or.inl ⟨t, ht, ho⟩)
  obtain ⟨j1, j2, j3⟩ := calcNext_K ops r wf.dag wf.succ wf.startKey rank hrank cm cm' done _ hK' h.sh hdone hc
  rcases j3 with ⟨v, hv, _⟩ | ⟨ts', hts, hj⟩
  · cases hv
  · cases hts
    exact ⟨j1, j2, hj, h.just⟩

theorem justTr_all {V} (ops : ValOps V) (r : Runner V) (x : V) (L : Trace V) (h : JustTr ops r x L) :
    ∀ n v, (n, v) ∈ L.flatten → Justified ops r (histOf r x L) n v := by
  induction L with
  | nil => intro n v hm; simp at hm
  | cons step older ih =>
    intro n v hm
    simp only [List.flatten_cons, List.mem_append] at hm
    rcases hm with hm | hm
    · exact (h.1 n v hm).mono (histOf_mono r x step older)
    · exact (ih h.2 n v hm).mono (histOf_mono r x step older)

theorem mapM_collectOne_mem' {V} (l : List (Key × Except Err V)) (ds : List (Done V))
    (h : l.mapM collectOne = .ok ds) : ∀ e, e ∈ l → ∃ d, d ∈ ds ∧ collectOne e = .ok d := by
  induction l generalizing ds with
  | nil => intro e he; simp at he
  | cons a t ih =>
    simp only [List.mapM_cons, bind, Except.bind] at h
    cases ha : collectOne a with
    | error e => simp [ha] at h
    | ok x =>
      simp only [ha] at h
      cases ht : List.mapM collectOne t with
      | error e => simp [ht] at h
      | ok d' =>
        simp only [ht, pure, Except.pure, Except.ok.injEq] at h
        subst h
        intro e he
        rcases List.mem_cons.mp he with rfl | he
        · exact ⟨x, by simp, ha⟩
        · obtain ⟨d, h1, h2⟩ := ih d' ht e he
          exact ⟨d, List.mem_cons_of_mem _ h1, h2⟩

theorem runTasks_all {V} (r : Runner V) (sched : Sched V) (hf : sched.Fair) (step : Nat)
    (ts : List (Key × V)) (done : List (Done V)) (h : runTasks r sched step ts = .ok done) :
    ∀ t, t ∈ ts → ∀ d, outOf r t = some d → d ∈ done := by
  unfold runTasks at h
  intro t ht d ho
  have hm : execOne r t ∈ sched step (ts.map (execOne r)) :=
    (hf step _).symm.subset (List.mem_map.mpr ⟨t, ht, rfl⟩)
  obtain ⟨d', h1, h2⟩ := mapM_collectOne_mem' _ _ h _ hm
  simp only [outOf, h2, Option.some.injEq] at ho
  rw [← ho]; exact h1

theorem call_of_key {V} (r : Runner V) (k : Key) (h1 : k ∈ akeys (initChans r)) (h2 : k ≠ END) :
    (r.call? k).isSome = true := by
  unfold Runner.call?
  split
  · rfl
  · simp only [initChans, akeys, List.map_append, List.map_map, List.mem_append, List.mem_map, List.map_cons,
      List.map_nil, List.mem_singleton] at h1
    rcases h1 with ⟨nd, hm, hk⟩ | h1
    · unfold Runner.node?
      rw [List.find?_isSome]
      exact ⟨nd, hm, by simpa [Function.comp] using hk⟩
    · exact absurd h1 h2

structure CInv {V} (ops : ValOps V) (r : Runner V) (x : V) (cm : Chans V) (tasks : List (Key × V)) (tr : Trace V) : Prop where
  l : LInv r cm tasks tr
  k : KInv ops r x cm tasks tr
  rq : ∀ p, skOf cm p = 1 → RP (fun n => (keysOfTr (tasks :: tr)).count n) cm p
  rc : ∀ p, (∃ o, (p, o) ∈ histOf r x tr) → RP (fun n => (keysOfTr (tasks :: tr)).count n) cm p
  call : ∀ t, t ∈ tasks → (r.call? t.1).isSome = true
  comp : CompTr r x (tasks :: tr)

theorem unique_by_key {V} (l : List (Key × V)) (p : Key) (h : (akeys l).count p ≤ 1) (t t' : Key × V)
    (ht : t ∈ l) (ht' : t' ∈ l) (e : t.1 = p) (e' : t'.1 = p) : t = t' := by
  induction l with
  | nil => simp at ht
  | cons a rest ih =>
    simp only [akeys, List.map_cons, List.count_cons] at h
    have hpos : ∀ u : Key × V, u ∈ rest → u.1 = p → 0 < (List.map (fun x => x.1) rest).count p :=
      fun u hu eu => List.count_pos_iff.mpr (List.mem_map.mpr ⟨u, hu, eu⟩)
    rcases List.mem_cons.mp ht with h1 | h1
    · rcases List.mem_cons.mp ht' with h2 | h2
      · rw [h1, h2]
      · exfalso
        have := hpos t' h2 e'
        rw [← h1, e] at h
        simp only [beq_self_eq_true, ↓reduceIte] at h
        omega
    · rcases List.mem_cons.mp ht' with h2 | h2
      · exfalso
        have := hpos t h1 e
        rw [← h2, e'] at h
        simp only [beq_self_eq_true, ↓reduceIte] at h
        omega
      · apply ih _ h1 h2
        simp only [akeys]
        split at h <;> omega

theorem outOf_key {V} (r : Runner V) (t : Key × V) (d : Done V) (h : outOf r t = some d) : d.1 = t.1 := by
  unfold outOf at h
  cases hc : collectOne (execOne r t) with
  | error e => simp [hc] at h
  | ok d' =>
    simp only [hc, Option.some.injEq] at h
    subst h
    exact collect_exec_key r t d' hc

theorem CInv_step {V} (ops : ValOps V) (r : Runner V) (wf : DagWF r) (wf2 : DagWF2 r) (sched : Sched V)
    (hf : sched.Fair) (x : V)
    (cm cm' : Chans V) (tasks ts : List (Key × V)) (tr : Trace V) (done : List (Done V))
    (h : CInv ops r x cm tasks tr) (hr : runTasks r sched tr.length tasks = .ok done)
    (hc : calcNext ops r cm done = .ok (cm', .tasks ts)) : CInv ops r x cm' ts (tasks :: tr) := by
  have hl' := LInv_step ops r wf sched hf cm cm' tasks ts tr done _ h.l hr hc rfl
  have hk' := KInv_step ops r wf sched hf x cm cm' tasks ts tr done h.k hr hc
  have hperm := runTasks_keys r sched hf _ _ _ hr
  have hkeys' : akeys cm' = akeys (initChans r) := by rw [← shapes_keys cm', hl'.sh, shapes_keys]
  have hstart' : START ∉ akeys cm' := by rw [hkeys']; exact wf.startFresh
  -- the reports
  obtain ⟨r1, r2, r3⟩ := round_R (F := fun n => (keysOfTr (tasks :: tr)).count n) ops r wf.dag wf.succ wf2.pc wf2.pd
    wf.startFresh wf.startKey cm cm' done ts (fun p => ∃ o, (p, o) ∈ histOf r x tr)
    h.k.k.nd h.k.k.sk h.l.sh h.rq h.rc
    (by
      intro t ht
      have : t.1 ∈ tasks.map (·.1) := hperm.subset (List.mem_map.mpr ⟨t, ht, rfl⟩)
      obtain ⟨t', ht', e⟩ := List.mem_map.mp this
      rw [← e]; exact h.call t' ht')
    hc
  have eF : (fun n => (keysOfTr (tasks :: tr)).count n + (akeys ts).count n) =
      (fun n => (keysOfTr (ts :: tasks :: tr)).count n) := by
    funext n
    rw [keysOfTr_cons ts, List.count_append]; omega
  rw [eF] at r1
  -- completions of the new history
  have hcomp : ∀ p o, (p, o) ∈ histOf r x (tasks :: tr) →
      (∃ o', (p, o') ∈ histOf r x tr) ∨ p ∈ done.map (·.1) := by
    intro p o hm
    simp only [histOf, List.mem_cons, List.flatten_cons, List.filterMap_append, List.mem_append,
      List.mem_filterMap] at hm
    rcases hm with hm | ⟨t, ht, ho⟩ | hm
    · left; exact ⟨o, by simp [histOf, hm]⟩
    · right
      have := runTasks_all r sched hf _ _ _ hr t ht (p, o) ho
      exact List.mem_map.mpr ⟨(p, o), this, rfl⟩
    · left
      refine ⟨o, ?_⟩
      simp only [histOf, List.mem_cons, List.mem_filterMap]
      exact Or.inr hm
  have hb : Boundary r (histOf r x (tasks :: tr)) (histOf r x (tasks :: tr)) (fun n => (keysOfTr (ts :: tasks :: tr)).count n) cm' := by
    refine ⟨fun _ h => h, hk'.k, hl'.sh, linv_static r wf cm' ts (tasks :: tr) hl', ?_, r2, ?_, ?_, ?_⟩
    · intro p hp
      apply r1
      rcases hp with ⟨o, ho⟩ | hp
      · rcases hcomp p o ho with h1 | h1
        · exact Or.inl h1
        · exact Or.inr (Or.inl h1)
      · exact Or.inr (Or.inr hp)
    · intro p o hm
      simp only [histOf, List.mem_cons, List.mem_filterMap] at hm
      rcases hm with hm | ⟨t, ht, ho⟩
      · left; exact (Prod.mk.inj hm).1
      · right
        have hkk := outOf_key r t (p, o) ho
        simp only at hkk
        have : p ∈ keysOfTr (tasks :: tr) := by
          simp only [keysOfTr, List.mem_map]
          exact ⟨t, ht, hkk.symm⟩
        show 1 ≤ (keysOfTr (ts :: tasks :: tr)).count p
        rw [keysOfTr_cons ts, List.count_append]
        have := List.count_pos_iff.mpr this
        omega
    · intro p o o' hm hm'
      have hcnt := linv_bound r wf cm tasks tr h.l p
      have hF0 : (keysOfTr (tasks :: tr)).count START = 0 := by
        by_cases h0 : 0 < (keysOfTr (tasks :: tr)).count START
        · obtain ⟨cs, ds, hmm, _⟩ := h.l.pos START h0
          have := mem_akeys_of_mem START (cs, ds) _ hmm
          rw [shapes_keys] at this
          exact absurd this wf.startFresh
        · omega
      simp only [histOf, List.mem_cons, List.mem_filterMap] at hm hm'
      rcases hm with hm | ⟨t, ht, ho⟩
      · rcases hm' with hm' | ⟨t', ht', ho'⟩
        · rw [(Prod.mk.inj hm).2, (Prod.mk.inj hm').2]
        · exfalso
          have hkk := outOf_key r t' (p, o') ho'
          simp only at hkk
          have : START ∈ keysOfTr (tasks :: tr) := by
            simp only [keysOfTr, List.mem_map]
            exact ⟨t', ht', by rw [← hkk, (Prod.mk.inj hm).1]⟩
          have := List.count_pos_iff.mpr this
          omega
      · rcases hm' with hm' | ⟨t', ht', ho'⟩
        · exfalso
          have hkk := outOf_key r t (p, o) ho
          simp only at hkk
          have : START ∈ keysOfTr (tasks :: tr) := by
            simp only [keysOfTr, List.mem_map]
            exact ⟨t, ht, by rw [← hkk, (Prod.mk.inj hm').1]⟩
          have := List.count_pos_iff.mpr this
          omega
        · have k1 := outOf_key r t (p, o) ho
          have k2 := outOf_key r t' (p, o') ho'
          simp only at k1 k2
          have : t = t' := unique_by_key (tasks :: tr).flatten p (by simpa [keysOfTr, akeys] using hcnt) t t' ht ht' k1.symm k2.symm
          subst this
          rw [ho] at ho'
          exact (Prod.mk.inj (Option.some.inj ho')).2
    · intro n hn hne
      have hmem : n ∈ keysOfTr (ts :: tasks :: tr) := List.count_pos_iff.mp hn
      simp only [keysOfTr, List.mem_map] at hmem
      obtain ⟨t, ht, rfl⟩ := hmem
      simp only [List.flatten_cons, List.mem_append] at ht
      have hj : Justified ops r (histOf r x (tasks :: tr)) t.1 t.2 := by
        rcases ht with ht | ht
        · exact hk'.just.1 t.1 t.2 ht
        · exact justTr_all ops r x (tasks :: tr) h.k.just t.1 t.2 (by simpa using ht)
      exact hj.2.1 hne
  refine ⟨hl', hk', ?_, ?_, ?_, ?_⟩
  · intro p hp; exact hb.rp p (Or.inr hp)
  · intro p hp; exact hb.rp p (Or.inl hp)
  · intro t ht
    obtain ⟨a, b⟩ := r3 t ht
    exact call_of_key r t.1 a b
  · refine ⟨fun n hen => ?_, h.comp⟩
    have := complete_at wf.dag hb hstart' (fun n hne => by rw [hkeys']; exact wf2.p4 n hne) n hen
    exact List.count_pos_iff.mp this

theorem skOf_init {V} (r : Runner V) (hd : r.dag = true) (p : Key) : skOf (initChans r) p = 0 := by
  unfold skOf
  cases hl : alookup p (initChans r) with
  | none => rfl
  | some c =>
    have hm := mem_of_alookup _ _ _ hl
    simp only [initChans, List.mem_append, List.mem_map, List.mem_singleton, Prod.mk.injEq] at hm
    have : c.skipped = false := by
      rcases hm with ⟨nd, _, _, rfl⟩ | ⟨_, rfl⟩ <;> simp [Chan.init, hd]
    simp [this]

theorem CInv_start {V} (ops : ValOps V) (r : Runner V) (wf : DagWF r) (wf2 : DagWF2 r) (x : V)
    (cm' : Chans V) (ts : List (Key × V))
    (hc : calcNext ops r (initChans r) [(START, x)] = .ok (cm', .tasks ts)) : CInv ops r x cm' ts [] := by
  obtain ⟨rank, hrank⟩ := wf.acyclic
  have hl' := start_LInv ops r wf x cm' ts hc
  obtain ⟨j1, j2, j3⟩ := calcNext_K (H := histOf r x []) ops r wf.dag wf.succ wf.startKey rank hrank
    (initChans r) cm' [(START, x)] _ (init_K r wf.dag wf.nodup _) rfl
    (by intro t ht; simp only [List.mem_singleton] at ht; subst ht; simp [histOf]) hc
  have hj : ∀ n v, (n, v) ∈ ts → Justified ops r (histOf r x []) n v := by
    rcases j3 with ⟨v, hv, _⟩ | ⟨ts', hts, hj⟩
    · cases hv
    · cases hts; exact hj
  have hk' : KInv ops r x cm' ts [] := ⟨j1, j2, hj, trivial⟩
  have hkeys' : akeys cm' = akeys (initChans r) := by rw [← shapes_keys cm', hl'.sh, shapes_keys]
  have hstart' : START ∉ akeys cm' := by rw [hkeys']; exact wf.startFresh
  have hJ0 := init_J r wf.dag wf.nodup
  obtain ⟨r1, r2, r3⟩ := round_R (F := fun _ => 0) ops r wf.dag wf.succ wf2.pc wf2.pd
    wf.startFresh wf.startKey (initChans r) cm' [(START, x)] ts (fun _ => False)
    wf.nodup hJ0.sk rfl
    (fun p hp => by rw [skOf_init r wf.dag p] at hp; cases hp)
    (fun p hp => hp.elim)
    (by
      intro t ht
      simp only [List.mem_singleton] at ht
      subst ht
      simp [Runner.call?])
    hc
  have eF : (fun n => 0 + (akeys ts).count n) = (fun n => (keysOfTr (ts :: ([] : Trace V))).count n) := by
    funext n; simp [keysOfTr, akeys]
  rw [eF] at r1
  have hb : Boundary r (histOf r x []) (histOf r x []) (fun n => (keysOfTr (ts :: ([] : Trace V))).count n) cm' := by
    refine ⟨fun _ h => h, j1, j2, linv_static r wf cm' ts [] hl', ?_, r2, ?_, ?_, ?_⟩
    · intro p hp
      apply r1
      rcases hp with ⟨o, ho⟩ | hp
      · right; left
        simp only [histOf, List.flatten_nil, List.filterMap_nil, List.mem_singleton, Prod.mk.injEq] at ho
        simp [ho.1]
      · exact Or.inr (Or.inr hp)
    · intro p o hm
      simp only [histOf, List.flatten_nil, List.filterMap_nil, List.mem_singleton, Prod.mk.injEq] at hm
      exact Or.inl hm.1
    · intro p o o' hm hm'
      simp only [histOf, List.flatten_nil, List.filterMap_nil, List.mem_singleton, Prod.mk.injEq] at hm hm'
      rw [hm.2, hm'.2]
    · intro n hn hne
      have hmem : n ∈ keysOfTr (ts :: ([] : Trace V)) := List.count_pos_iff.mp hn
      simp only [keysOfTr, List.flatten_cons, List.flatten_nil, List.append_nil, List.mem_map] at hmem
      obtain ⟨t, ht, rfl⟩ := hmem
      exact (hj t.1 t.2 ht).2.1 hne
  refine ⟨hl', hk', ?_, ?_, ?_, ?_⟩
  · intro p hp; exact hb.rp p (Or.inr hp)
  · intro p hp; exact hb.rp p (Or.inl hp)
  · intro t ht
    obtain ⟨a, b⟩ := r3 t ht
    exact call_of_key r t.1 a b
  · refine ⟨fun n hen => ?_, trivial⟩
    have := complete_at wf.dag hb hstart' (fun n hne => by rw [hkeys']; exact wf2.p4 n hne) n hen
    exact List.count_pos_iff.mp this

theorem loop_complete {V} (ops : ValOps V) (r : Runner V) (wf : DagWF r) (wf2 : DagWF2 r) (sched : Sched V)
    (hf : sched.Fair) (x : V) :
    ∀ (fuel : Nat) (cm : Chans V) (tasks : List (Key × V)) (tr : Trace V), CInv ops r x cm tasks tr →
      CompTr r x (loop ops r sched fuel cm tasks tr).trace.reverse := by
  intro fuel
  induction fuel with
  | zero =>
    intro cm tasks tr h
    simp only [loop, List.reverse_reverse]
    exact h.comp.2
  | succ f ih =>
    intro cm tasks tr h
    unfold loop
    simp only
    cases hr : runTasks r sched tr.length tasks with
    | error e => simp only [List.reverse_reverse]; exact h.comp
    | ok done =>
      simp only
      by_cases he : done.isEmpty = true
      · simp only [he, ↓reduceIte, List.reverse_reverse]; exact h.comp
      · simp only [he, Bool.false_eq_true, ↓reduceIte]
        cases hc : calcNext ops r cm done with
        | error e => simp only [List.reverse_reverse]; exact h.comp
        | ok res =>
          obtain ⟨cm', nx⟩ := res
          cases nx with
          | result v => simp only [List.reverse_reverse]; exact h.comp
          | tasks ts =>
            simp only
            exact ih cm' ts (tasks :: tr) (CInv_step ops r wf wf2 sched hf x cm cm' tasks ts tr done h hr hc)

/-- **completeness.** In a run of a well-formed acyclic all-predecessor runner, under any fair
    completion schedule: at every step, every node that is *enabled* by the completions of the
    older steps (it has control predecessors, each completed or skipped, at least one completed
    and routed to it, and every data predecessor completed or skipped) has been started by then. -/
theorem run_complete {V} (ops : ValOps V) (r : Runner V) (wf : DagWF r) (wf2 : DagWF2 r) (sched : Sched V)
    (hf : sched.Fair) (x : V) : CompTr r x (runS ops r sched x).trace.reverse := by
  unfold runS
  cases hc : calcNext ops r (initChans r) [(START, x)] with
  | error e => exact trivial
  | ok res =>
    obtain ⟨cm', nx⟩ := res
    cases nx with
    | result v => exact trivial
    | tasks ts =>
      simp only
      exact loop_complete ops r wf wf2 sched hf x _ cm' ts [] (CInv_start ops r wf wf2 x cm' ts hc)


theorem dagWF2b_sound {V} (r : Runner V) (h : dagWF2b r = true) : DagWF2 r := by
  simp only [dagWF2b, Bool.and_eq_true, List.all_eq_true] at h
  obtain ⟨⟨h1, h2⟩, h3⟩ := h
  refine ⟨?_, ?_, ?_⟩
  · intro m cs ds hm p hp nd hn
    have := h1 (m, cs, ds) hm p hp
    simp only [hn, Bool.or_eq_true] at this
    rcases this with h | h
    · exact Or.inl (List.contains_iff_mem.mp h)
    · exact Or.inr (List.contains_iff_mem.mp h)
  · intro m cs ds hm p hp nd hn
    have := h2 (m, cs, ds) hm p hp
    simp only [hn, Bool.or_eq_true, Bool.and_eq_true, Bool.not_eq_eq_eq_not, Bool.not_true] at this
    rcases this with h | ⟨h, h'⟩
    · exact Or.inl (List.contains_iff_mem.mp h)
    · refine Or.inr ⟨List.contains_iff_mem.mp h, fun hc => ?_⟩
      have : nd.controls.contains m = true := List.contains_iff_mem.mpr hc
      rw [this] at h'; cases h'
  · intro n hne
    unfold lookupList at hne
    cases hl : alookup n r.ctrlPreds with
    | none => rw [hl] at hne; exact absurd rfl hne
    | some l =>
      rw [hl] at hne
      have := h3 (n, l) (mem_of_alookup _ _ _ hl)
      simp only [Bool.or_eq_true, List.isEmpty_iff] at this
      rcases this with h | h
      · exact absurd h hne
      · exact List.contains_iff_mem.mp h

end DagRun
end EinoV.Engine
