/-
  C16 — helper lemmas about the option-distribution model (no property statements here;
  those are in EinoV/Props/C16.lean).
-/
import EinoV.Model.C16

namespace EinoV.C16

/-! ### `mapE` -/

theorem mapE_ok_mem {α β ε : Type} {f : α → Except ε β} {l : List α} {r : List β}
    (h : mapE f l = .ok r) (b : β) : b ∈ r ↔ ∃ a ∈ l, f a = .ok b := by
  induction l generalizing r with
  | nil => simp [mapE] at h; subst h; simp
  | cons a as ih =>
    simp only [mapE] at h
    split at h
    · cases h
    · rename_i b' hb
      split at h
      · cases h
      · rename_i bs hbs
        cases h
        simp only [List.mem_cons, ih hbs]
        constructor
        · rintro (rfl | ⟨a', ha', hf⟩)
          · exact ⟨a, Or.inl rfl, hb⟩
          · exact ⟨a', Or.inr ha', hf⟩
        · rintro ⟨a', (rfl | ha'), hf⟩
          · left; rw [hb] at hf; cases hf; rfl
          · right; exact ⟨a', ha', hf⟩

theorem mapE_ok_all {α β ε : Type} {f : α → Except ε β} {l : List α} {r : List β}
    (h : mapE f l = .ok r) : ∀ a ∈ l, ∃ b, f a = .ok b ∧ b ∈ r := by
  induction l generalizing r with
  | nil => simp
  | cons a as ih =>
    simp only [mapE] at h
    split at h
    · cases h
    · rename_i b' hb
      split at h
      · cases h
      · rename_i bs hbs
        cases h
        intro a' ha'
        rcases List.mem_cons.mp ha' with rfl | ha'
        · exact ⟨b', hb, by simp⟩
        · obtain ⟨b, hb1, hb2⟩ := ih hbs a' ha'
          exact ⟨b, hb1, by simp [hb2]⟩

theorem mapE_error_iff {α β ε : Type} {f : α → Except ε β} {l : List α} :
    (∃ e, mapE f l = .error e) ↔ ∃ a ∈ l, ∃ e, f a = .error e := by
  induction l with
  | nil => simp [mapE]
  | cons a as ih =>
    simp only [mapE]
    cases hfa : f a with
    | error e => simp; exact Or.inl ⟨e, hfa⟩
    | ok b =>
      cases hm : mapE f as with
      | error e =>
        have := ih.mp ⟨e, hm⟩
        obtain ⟨a', ha', e', he'⟩ := this
        simp
        exact Or.inr ⟨a', ha', e', he'⟩
      | ok bs =>
        constructor
        · rintro ⟨e, he⟩; cases he
        · rintro ⟨a', ha', e', he'⟩
          rcases List.mem_cons.mp ha' with rfl | ha'
          · rw [hfa] at he'; cases he'
          · have : ∃ e, mapE f as = .error e := ih.mpr ⟨a', ha', e', he'⟩
            rw [hm] at this; obtain ⟨_, h⟩ := this; cases h

/-! ### the log and its projections -/

theorem mem_itemsFor {log : Log} {k : Key} {it : Item} : it ∈ itemsFor log k ↔ (k, it) ∈ log := by
  unfold itemsFor
  simp only [List.mem_filterMap]
  constructor
  · rintro ⟨⟨k', it'⟩, hm, h⟩
    simp only at h
    split at h
    · rename_i hk; cases h; subst hk; exact hm
    · cases h
  · intro h; exact ⟨(k, it), h, by simp⟩

theorem mem_valsOf {items : List Item} {v : Nat} : v ∈ valsOf items ↔ Item.val v ∈ items := by
  unfold valsOf
  simp only [List.mem_filterMap]
  constructor
  · rintro ⟨it, hm, h⟩
    cases it with
    | val v' => simp at h; subst h; exact hm
    | opt o => simp at h
  · intro h; exact ⟨.val v, h, rfl⟩

theorem mem_optsOf {items : List Item} {o : Opt} : o ∈ optsOf items ↔ Item.opt o ∈ items := by
  unfold optsOf
  simp only [List.mem_filterMap]
  constructor
  · rintro ⟨it, hm, h⟩
    cases it with
    | val v' => simp at h
    | opt o' => simp at h; subst h; exact hm
  · intro h; exact ⟨.opt o, h, rfl⟩

theorem mem_vals_log {log : Log} {k : Key} {v : Nat} :
    v ∈ valsOf (itemsFor log k) ↔ (k, Item.val v) ∈ log := by
  rw [mem_valsOf, mem_itemsFor]

theorem mem_opts_log {log : Log} {k : Key} {o : Opt} :
    o ∈ optsOf (itemsFor log k) ↔ (k, Item.opt o) ∈ log := by
  rw [mem_optsOf, mem_itemsFor]

/-! ### one level: `extract` -/

theorem optEntries_ok_mem {F : Facts} {nodes : Nodes} {o : Opt} {l : Log}
    (h : optEntries F nodes o = .ok l) (x : Key × Item) :
    x ∈ l ↔ x ∈ undesignatedEntries F nodes o ∨
      ∃ p ∈ o.paths, ∃ lp, pathEntry F nodes o p = .ok lp ∧ x ∈ lp := by
  unfold optEntries at h
  split at h
  · cases h
  · rename_i ds hds
    cases h
    simp only [List.mem_append, List.mem_flatten]
    constructor
    · rintro (hu | ⟨lp, hlp, hx⟩)
      · exact Or.inl hu
      · obtain ⟨p, hp, hpe⟩ := (mapE_ok_mem hds lp).mp hlp
        exact Or.inr ⟨p, hp, lp, hpe, hx⟩
    · rintro (hu | ⟨p, hp, lp, hpe, hx⟩)
      · exact Or.inl hu
      · exact Or.inr ⟨lp, (mapE_ok_mem hds lp).mpr ⟨p, hp, hpe⟩, hx⟩

theorem optEntries_ok_paths {F : Facts} {nodes : Nodes} {o : Opt} {l : Log}
    (h : optEntries F nodes o = .ok l) : ∀ p ∈ o.paths, ∃ lp, pathEntry F nodes o p = .ok lp := by
  unfold optEntries at h
  split at h
  · cases h
  · rename_i ds hds
    intro p hp
    obtain ⟨lp, h1, _⟩ := mapE_ok_all hds p hp
    exact ⟨lp, h1⟩

theorem optEntries_error_iff {F : Facts} {nodes : Nodes} {o : Opt} :
    (∃ e, optEntries F nodes o = .error e) ↔ ∃ p ∈ o.paths, ∃ e, pathEntry F nodes o p = .error e := by
  rw [← mapE_error_iff]
  unfold optEntries
  cases mapE (pathEntry F nodes o) o.paths with
  | error e => simp
  | ok ds => simp

theorem extract_ok_mem {F : Facts} {nodes : Nodes} {opts : List Opt} {log : Log}
    (h : extract F nodes opts = .ok log) (x : Key × Item) :
    x ∈ log ↔ ∃ o ∈ opts, x ∈ undesignatedEntries F nodes o ∨
      ∃ p ∈ o.paths, ∃ lp, pathEntry F nodes o p = .ok lp ∧ x ∈ lp := by
  unfold extract at h
  split at h
  · cases h
  · rename_i ls hls
    cases h
    simp only [List.mem_flatten]
    constructor
    · rintro ⟨l, hl, hx⟩
      obtain ⟨o, ho, hoe⟩ := (mapE_ok_mem hls l).mp hl
      exact ⟨o, ho, (optEntries_ok_mem hoe x).mp hx⟩
    · rintro ⟨o, ho, hx⟩
      obtain ⟨l, hoe, hl⟩ := mapE_ok_all hls o ho
      exact ⟨l, hl, (optEntries_ok_mem hoe x).mpr hx⟩

theorem extract_ok_paths {F : Facts} {nodes : Nodes} {opts : List Opt} {log : Log}
    (h : extract F nodes opts = .ok log) :
    ∀ o ∈ opts, ∀ p ∈ o.paths, ∃ lp, pathEntry F nodes o p = .ok lp := by
  unfold extract at h
  split at h
  · cases h
  · rename_i ls hls
    intro o ho
    obtain ⟨l, hoe, _⟩ := mapE_ok_all hls o ho
    exact optEntries_ok_paths hoe

theorem extract_error_iff {F : Facts} {nodes : Nodes} {opts : List Opt} :
    (∃ e, extract F nodes opts = .error e) ↔
      ∃ o ∈ opts, ∃ p ∈ o.paths, ∃ e, pathEntry F nodes o p = .error e := by
  have : (∃ e, extract F nodes opts = .error e) ↔ ∃ e, mapE (optEntries F nodes) opts = .error e := by
    unfold extract
    cases mapE (optEntries F nodes) opts with
    | error e => simp
    | ok ds => simp
  rw [this, mapE_error_iff]
  constructor
  · rintro ⟨o, ho, he⟩; exact ⟨o, ho, optEntries_error_iff.mp he⟩
  · rintro ⟨o, ho, he⟩; exact ⟨o, ho, optEntries_error_iff.mpr he⟩

/-! ### node lookup -/

theorem find_some {nodes : Nodes} {k : Key} {n : Node} (h : nodes.find k = some n) :
    n ∈ nodes.toList ∧ n.key = k := by
  unfold Nodes.find at h
  have h1 := List.mem_of_find?_eq_some h
  have h2 := List.find?_some h
  exact ⟨h1, by simpa using h2⟩

theorem find_none {nodes : Nodes} {k : Key} (h : nodes.find k = none) :
    ∀ n ∈ nodes.toList, n.key ≠ k := by
  unfold Nodes.find at h
  intro n hn
  have := List.find?_eq_none.mp h n hn
  simpa using this

theorem wf_find {nodes : Nodes} (hwf : nodes.wf = true) {n : Node} (hn : n ∈ nodes.toList) :
    nodes.find n.key = some n := by
  cases nodes with
  | nil => simp [Nodes.toList] at hn
  | cons m ms =>
    simp only [Nodes.wf, Bool.and_eq_true, Bool.not_eq_true', List.any_eq_false] at hwf
    obtain ⟨⟨_, hms⟩, hdist⟩ := hwf
    simp only [Nodes.toList, List.mem_cons] at hn
    unfold Nodes.find
    simp only [Nodes.toList, List.find?_cons]
    rcases hn with rfl | hn
    · simp
    · have hne : (m.key == n.key) = false := by
        have := hdist n hn
        simp at this
        simp
        exact fun h => this h.symm
      rw [hne]
      exact wf_find hms hn

theorem wf_child {nodes : Nodes} (hwf : nodes.wf = true) {k : Key} {ch : Nodes}
    (hn : Node.graph k ch ∈ nodes.toList) : ch.wf = true := by
  cases nodes with
  | nil => simp [Nodes.toList] at hn
  | cons m ms =>
    simp only [Nodes.wf, Bool.and_eq_true] at hwf
    obtain ⟨⟨hm, hms⟩, _⟩ := hwf
    simp only [Nodes.toList, List.mem_cons] at hn
    rcases hn with rfl | hn
    · simpa [Node.wf] using hm
    · exact wf_child hms hn

/-! ### what one level hands to a node -/

/-- with the source's test (`==` / `!=` on `reflect.Type`s) matching is identity of the tags -/
theorem tyMatch_id {F : Facts} (hI : F.typeCmpImplements = false) (a b : Nat) :
    tyMatch F a b = (a == b) := by
  simp [tyMatch, hI]

theorem not_tyMatch_id {F : Facts} (hI : F.typeCmpImplements = false) (a b : Nat) :
    (!tyMatch F a b) = (a != b) := by
  simp [tyMatch, hI, bne]

theorem mem_undesignatedFor_val {F : Facts} (hT : F.typeCmpIdentity = true)
    (hI : F.typeCmpImplements = false) {o : Opt} {n : Node}
    {k : Key} {v : Nat} :
    (k, Item.val v) ∈ undesignatedFor F o n ↔ ∃ ty, n = .comp k ty ∧ ty = o.ty ∧ v ∈ o.vals := by
  cases n with
  | comp k' ty' =>
    simp only [undesignatedFor, hT, tyMatch_id hI, Bool.not_true, Bool.false_or, beq_iff_eq]
    split
    · rename_i hty
      simp only [List.mem_map, Prod.mk.injEq, Item.val.injEq, Node.comp.injEq]
      constructor
      · rintro ⟨v', hv', rfl, rfl⟩; exact ⟨ty', ⟨rfl, rfl⟩, hty, hv'⟩
      · rintro ⟨ty, ⟨rfl, rfl⟩, _, hv⟩; exact ⟨v, hv, rfl, rfl⟩
    · rename_i hty
      simp only [List.not_mem_nil, Node.comp.injEq, false_iff, not_exists, not_and]
      rintro ty ⟨_, rfl⟩ h; exact absurd h hty
  | pass k' => simp [undesignatedFor]
  | graph k' ch => simp [undesignatedFor]

theorem mem_undesignatedFor_opt {F : Facts} {o o' : Opt} {n : Node} {k : Key} :
    (k, Item.opt o') ∈ undesignatedFor F o n ↔
      ((n = .pass k ∨ ∃ ch, n = .graph k ch) ∧ o' = o) := by
  cases n with
  | comp k' ty' =>
    simp only [undesignatedFor]
    split <;> simp
  | pass k' =>
    simp only [undesignatedFor, List.mem_singleton, Prod.mk.injEq, Item.opt.injEq, Node.pass.injEq,
      reduceCtorEq, exists_false, or_false]
    constructor <;> rintro ⟨rfl, rfl⟩ <;> exact ⟨rfl, rfl⟩
  | graph k' ch =>
    simp only [undesignatedFor, List.mem_singleton, Prod.mk.injEq, Item.opt.injEq, reduceCtorEq,
      Node.graph.injEq, false_or]
    constructor
    · rintro ⟨rfl, rfl⟩; exact ⟨⟨ch, rfl, rfl⟩, rfl⟩
    · rintro ⟨⟨ch', rfl, _⟩, rfl⟩; exact ⟨rfl, rfl⟩

theorem mem_undesignatedEntries {F : Facts} {nodes : Nodes} {o : Opt} {x : Key × Item} :
    x ∈ undesignatedEntries F nodes o ↔
      o.paths = [] ∧ o.vals ≠ [] ∧ ∃ n ∈ nodes.toList, x ∈ undesignatedFor F o n := by
  unfold undesignatedEntries
  split
  · rename_i h; simp [List.mem_flatMap, h.1, h.2]
  · rename_i h
    simp only [List.not_mem_nil, false_iff]
    rintro ⟨h1, h2, _⟩; exact h ⟨h1, h2⟩



theorem pathEntry_ok_val {F : Facts} (hT : F.typeCmpIdentity = true)
    (hI : F.typeCmpImplements = false) {nodes : Nodes} {o : Opt}
    {p : Path} {lp : Log} (h : pathEntry F nodes o p = .ok lp) (k : Key) (v : Nat) :
    (k, Item.val v) ∈ lp ↔
      p = [k] ∧ v ∈ o.vals ∧ ∃ k' ty, nodes.find k = some (.comp k' ty) ∧ ty = o.ty := by
  unfold pathEntry at h
  cases p with
  | nil => simp at h
  | cons k0 rest =>
    simp only at h
    cases hf : nodes.find k0 with
    | none => simp [hf] at h
    | some n =>
      simp only [hf] at h
      by_cases hr : rest = []
      · subst hr
        simp only [↓reduceIte] at h
        by_cases hv : o.vals = []
        · simp [hv] at h; subst h; simp [hv]
        · simp only [hv, ↓reduceIte] at h
          cases n with
          | comp k' ty =>
            simp only [hT, not_tyMatch_id hI, Bool.true_and, bne_iff_ne, ne_eq, ite_not] at h
            split at h
            · rename_i hty
              cases h
              simp only [List.mem_map, Prod.mk.injEq, Item.val.injEq, List.cons.injEq, and_true]
              constructor
              · rintro ⟨v', hv', rfl, rfl⟩
                exact ⟨rfl, hv', k', ty, hf, hty⟩
              · rintro ⟨rfl, hv', _⟩
                exact ⟨v, hv', rfl, rfl⟩
            · cases h
          | pass k' =>
            cases h
            simp only [List.mem_singleton, Prod.mk.injEq, reduceCtorEq, and_false, List.cons.injEq,
              and_true, false_iff, not_and, not_exists]
            rintro rfl _ k'' ty h1; rw [hf] at h1; cases h1
          | graph k' ch =>
            cases h
            simp only [List.mem_singleton, Prod.mk.injEq, reduceCtorEq, and_false, List.cons.injEq,
              and_true, false_iff, not_and, not_exists]
            rintro rfl _ k'' ty h1; rw [hf] at h1; cases h1
      · simp only [hr, ↓reduceIte] at h
        have hne : ¬ (k0 :: rest = [k]) := by simp [hr]
        cases n with
        | comp k' ty => cases h
        | pass k' =>
          by_cases hp : F.passSubPathIsError = true
          · simp [hp] at h
          · simp only [hp] at h; cases h; simp [hne]
        | graph k' ch => cases h; simp [hne]



theorem pathEntry_ok_opt {F : Facts} (hS : F.strip = 1) {nodes : Nodes} {o : Opt}
    {p : Path} {lp : Log} (h : pathEntry F nodes o p = .ok lp) (k : Key) (o' : Opt) :
    (k, Item.opt o') ∈ lp ↔ ∃ n, nodes.find k = some n ∧ (∀ k' ty, n ≠ .comp k' ty) ∧
      ((p = [k] ∧ o.vals ≠ [] ∧ o' = { o with paths := [] }) ∨
       (∃ rest, rest ≠ [] ∧ p = k :: rest ∧ o' = { o with paths := [rest] })) := by
  unfold pathEntry at h
  cases p with
  | nil => simp at h
  | cons k0 rest =>
    simp only at h
    cases hf : nodes.find k0 with
    | none => simp [hf] at h
    | some n =>
      simp only [hf] at h
      by_cases hr : rest = []
      · subst hr
        simp only [↓reduceIte] at h
        by_cases hv : o.vals = []
        · simp [hv] at h; subst h; simp [hv]
          intro x _ _ r hr _ hr'; exact absurd hr' hr
        · simp only [hv, ↓reduceIte] at h
          cases n with
          | comp k' ty =>
            by_cases hc : (F.typeCmpIdentity && !tyMatch F ty o.ty) = true
            · simp [hc] at h
            · simp only [hc] at h
              cases h
              simp only [List.mem_map, Prod.mk.injEq, reduceCtorEq, and_false, exists_false,
                false_iff, not_exists, not_and]
              rintro n hn hnc
              rintro (⟨hp, _⟩ | ⟨r, hr, hp, _⟩)
              · simp at hp; subst hp; rw [hf] at hn; cases hn; exact hnc k' ty rfl
              · simp at hp; exact hr hp.2
          | pass k' =>
            cases h
            simp only [List.mem_singleton, Prod.mk.injEq, Item.opt.injEq]
            constructor
            · rintro ⟨rfl, rfl⟩
              exact ⟨_, hf, by simp, Or.inl ⟨rfl, hv, rfl⟩⟩
            · rintro ⟨n, hn, hnc, (⟨hp, _, rfl⟩ | ⟨r, hr, hp, _⟩)⟩
              · simp at hp; exact ⟨hp.symm, rfl⟩
              · simp at hp; exact absurd hp.2 hr
          | graph k' ch =>
            cases h
            simp only [List.mem_singleton, Prod.mk.injEq, Item.opt.injEq]
            constructor
            · rintro ⟨rfl, rfl⟩
              exact ⟨_, hf, by simp, Or.inl ⟨rfl, hv, rfl⟩⟩
            · rintro ⟨n, hn, hnc, (⟨hp, _, rfl⟩ | ⟨r, hr, hp, _⟩)⟩
              · simp at hp; exact ⟨hp.symm, rfl⟩
              · simp at hp; exact absurd hp.2 hr
      · simp only [hr, ↓reduceIte] at h
        have hd : List.drop F.strip (k0 :: rest) = rest := by simp [hS]
        have key : lp = [(k0, Item.opt { o with paths := [rest] })] →
            (∀ k' ty, n ≠ .comp k' ty) →
            ((k, Item.opt o') ∈ lp ↔ ∃ n, nodes.find k = some n ∧ (∀ k' ty, n ≠ .comp k' ty) ∧
              ((k0 :: rest = [k] ∧ o.vals ≠ [] ∧ o' = { o with paths := [] }) ∨
              (∃ r, r ≠ [] ∧ k0 :: rest = k :: r ∧ o' = { o with paths := [r] }))) := by
          rintro rfl hnc
          simp only [List.mem_singleton, Prod.mk.injEq, Item.opt.injEq]
          constructor
          · rintro ⟨rfl, rfl⟩
            exact ⟨n, hf, hnc, Or.inr ⟨rest, hr, rfl, rfl⟩⟩
          · rintro ⟨n', hn', _, (⟨hp, _⟩ | ⟨r, _, hp, rfl⟩)⟩
            · simp at hp; exact absurd hp.2 hr
            · simp at hp; obtain ⟨rfl, rfl⟩ := hp; exact ⟨rfl, rfl⟩
        cases n with
        | comp k' ty => cases h
        | pass k' =>
          by_cases hp : F.passSubPathIsError = true
          · simp [hp] at h
          · simp only [hp, hd] at h; cases h
            exact key rfl (by simp)
        | graph k' ch =>
          simp only [hd] at h; cases h
          exact key rfl (by simp)


theorem level_vals {F : Facts} (hT : F.typeCmpIdentity = true)
    (hI : F.typeCmpImplements = false) {nodes : Nodes} {opts : List Opt}
    {log : Log} (hwf : nodes.wf = true) (he : extract F nodes opts = .ok log) {k : Key} {ty : Nat}
    (hn : Node.comp k ty ∈ nodes.toList) (v : Nat) :
    (k, Item.val v) ∈ log ↔
      ∃ o ∈ opts, v ∈ o.vals ∧ ty = o.ty ∧ (o.paths = [] ∨ [k] ∈ o.paths) := by
  have hfind : nodes.find k = some (.comp k ty) := wf_find hwf hn
  rw [extract_ok_mem he]
  constructor
  · rintro ⟨o, ho, (hu | ⟨p, hp, lp, hpe, hx⟩)⟩
    · obtain ⟨h1, _, n', hn', hx⟩ := mem_undesignatedEntries.mp hu
      obtain ⟨ty', rfl, hty, hv⟩ := (mem_undesignatedFor_val hT hI).mp hx
      have := wf_find hwf hn'
      simp only [Node.key] at this
      rw [hfind] at this; cases this
      exact ⟨o, ho, hv, hty, Or.inl h1⟩
    · obtain ⟨rfl, hv, k', ty', hf, hty⟩ := (pathEntry_ok_val hT hI hpe k v).mp hx
      rw [hfind] at hf; cases hf
      exact ⟨o, ho, hv, hty, Or.inr hp⟩
  · rintro ⟨o, ho, hv, hty, (h1 | hk)⟩
    · refine ⟨o, ho, Or.inl (mem_undesignatedEntries.mpr ⟨h1, ?_, _, hn, ?_⟩)⟩
      · intro h; rw [h] at hv; cases hv
      · exact (mem_undesignatedFor_val hT hI).mpr ⟨ty, rfl, hty, hv⟩
    · obtain ⟨lp, hpe⟩ := extract_ok_paths he o ho _ hk
      exact ⟨o, ho, Or.inr ⟨_, hk, lp, hpe,
        (pathEntry_ok_val hT hI hpe k v).mpr ⟨rfl, hv, k, ty, hfind, hty⟩⟩⟩

theorem level_opts {F : Facts} (hS : F.strip = 1) {nodes : Nodes} {opts : List Opt}
    {log : Log} (hwf : nodes.wf = true) (he : extract F nodes opts = .ok log) {k : Key} {ch : Nodes}
    (hn : Node.graph k ch ∈ nodes.toList) (o' : Opt) :
    (k, Item.opt o') ∈ log ↔ ∃ o ∈ opts,
      (o.paths = [] ∧ o.vals ≠ [] ∧ o' = o) ∨
      ([k] ∈ o.paths ∧ o.vals ≠ [] ∧ o' = { o with paths := [] }) ∨
      (∃ rest, rest ≠ [] ∧ k :: rest ∈ o.paths ∧ o' = { o with paths := [rest] }) := by
  have hfind : nodes.find k = some (.graph k ch) := wf_find hwf hn
  rw [extract_ok_mem he]
  constructor
  · rintro ⟨o, ho, (hu | ⟨p, hp, lp, hpe, hx⟩)⟩
    · obtain ⟨h1, h2, n', _, hx⟩ := mem_undesignatedEntries.mp hu
      obtain ⟨_, rfl⟩ := mem_undesignatedFor_opt.mp hx
      exact ⟨o', ho, Or.inl ⟨h1, h2, rfl⟩⟩
    · obtain ⟨n, _, _, (⟨rfl, hv, rfl⟩ | ⟨rest, hr, rfl, rfl⟩)⟩ := (pathEntry_ok_opt hS hpe k o').mp hx
      · exact ⟨o, ho, Or.inr (Or.inl ⟨hp, hv, rfl⟩)⟩
      · exact ⟨o, ho, Or.inr (Or.inr ⟨rest, hr, hp, rfl⟩)⟩
  · rintro ⟨o, ho, (⟨h1, h2, rfl⟩ | ⟨hk, hv, rfl⟩ | ⟨rest, hr, hk, rfl⟩)⟩
    · exact ⟨o', ho, Or.inl (mem_undesignatedEntries.mpr ⟨h1, h2, _, hn,
        mem_undesignatedFor_opt.mpr ⟨Or.inr ⟨ch, rfl⟩, rfl⟩⟩)⟩
    · obtain ⟨lp, hpe⟩ := extract_ok_paths he o ho _ hk
      exact ⟨o, ho, Or.inr ⟨_, hk, lp, hpe,
        (pathEntry_ok_opt hS hpe k _).mpr ⟨_, hfind, by simp, Or.inl ⟨rfl, hv, rfl⟩⟩⟩⟩
    · obtain ⟨lp, hpe⟩ := extract_ok_paths he o ho _ hk
      exact ⟨o, ho, Or.inr ⟨_, hk, lp, hpe,
        (pathEntry_ok_opt hS hpe k _).mpr ⟨_, hfind, by simp, Or.inr ⟨rest, hr, rfl, rfl⟩⟩⟩⟩



/-! ### specification vocabulary -/

/-- designated part: one of `o`'s designated paths is `rel` itself or a node above it -/
def CoversD (o : Opt) (rel : Path) : Prop := ∃ q ∈ o.paths, q ≠ [] ∧ q <+: rel

/-- `o` addresses the node at (relative) path `rel` -/
def Covers (o : Opt) (rel : Path) : Prop := o.paths = [] ∨ CoversD o rel

/-- the node a path names, walking down through graph nodes only -/
def nodeAt : Nodes → Path → Option Node
  | _, [] => none
  | ns, k :: rest =>
    match ns.find k with
    | none => none
    | some n =>
      if rest = [] then some n
      else match n with
        | .graph _ ch => nodeAt ch rest
        | _ => none

theorem nodeAt_ne_nil {ns : Nodes} {p : Path} {n : Node} (h : nodeAt ns p = some n) : p ≠ [] := by
  cases p with
  | nil => simp [nodeAt] at h
  | cons => simp

theorem prefix_singleton {q : Path} {k : Key} (hne : q ≠ []) : q <+: [k] ↔ q = [k] := by
  cases q with
  | nil => exact absurd rfl hne
  | cons a as =>
    constructor
    · intro h
      have := List.cons_prefix_cons.mp h
      obtain ⟨rfl, h2⟩ := this
      have : as = [] := List.prefix_nil.mp h2
      rw [this]
    · intro h; rw [h]; exact List.prefix_refl _

theorem coversD_singleton {o : Opt} {k : Key} : CoversD o [k] ↔ [k] ∈ o.paths := by
  unfold CoversD
  constructor
  · rintro ⟨q, hq, hne, hp⟩; rw [(prefix_singleton hne).mp hp] at hq; exact hq
  · intro h; exact ⟨[k], h, by simp, List.prefix_refl _⟩

theorem coversD_nil {o : Opt} : ¬ CoversD o [] := by
  rintro ⟨q, _, hne, hp⟩; exact hne (List.prefix_nil.mp hp)

theorem mem_graphHandlers {opts : List Opt} {h : Nat} :
    h ∈ graphHandlers opts ↔ ∃ o ∈ opts, o.paths = [] ∧ h ∈ o.handlers := by
  unfold graphHandlers
  simp only [List.mem_flatMap]
  constructor
  · rintro ⟨o, ho, hh⟩
    split at hh
    · rename_i hp; exact ⟨o, ho, hp, hh⟩
    · cases hh
  · rintro ⟨o, ho, hp, hh⟩; exact ⟨o, ho, by simp [hp, hh]⟩

theorem mem_nodeHandlers {opts : List Opt} {k : Key} {h : Nat} :
    h ∈ nodeHandlers opts k ↔ ∃ o ∈ opts, [k] ∈ o.paths ∧ h ∈ o.handlers := by
  unfold nodeHandlers
  simp only [List.mem_flatMap]
  constructor
  · rintro ⟨o, ho, hh⟩
    split at hh
    · rename_i hp; exact ⟨o, ho, hp, hh⟩
    · cases hh
  · rintro ⟨o, ho, hp, hh⟩; exact ⟨o, ho, by simp [hp, hh]⟩

/-- the Options a graph node hands to its nested run, in terms of the enclosing run's -/
def SubOf (opts sub : List Opt) (k : Key) : Prop :=
  ∀ o', o' ∈ sub ↔ ∃ o ∈ opts,
      (o.paths = [] ∧ o.vals ≠ [] ∧ o' = o) ∨
      ([k] ∈ o.paths ∧ o.vals ≠ [] ∧ o' = { o with paths := [] }) ∨
      (∃ rest, rest ≠ [] ∧ k :: rest ∈ o.paths ∧ o' = { o with paths := [rest] })

theorem sub_vals {opts sub : List Opt} {k : Key} (hsub : SubOf opts sub k) (rel' : Path)
    (v ty : Nat) :
    (∃ o' ∈ sub, v ∈ o'.vals ∧ ty = o'.ty ∧ Covers o' rel') ↔
    (∃ o ∈ opts, v ∈ o.vals ∧ ty = o.ty ∧ Covers o (k :: rel')) := by
  constructor
  · rintro ⟨o', ho', hv, hty, hc⟩
    obtain ⟨o, ho, (⟨h1, _, rfl⟩ | ⟨hk, _, rfl⟩ | ⟨rest, hr, hk, rfl⟩)⟩ := (hsub o').mp ho'
    · exact ⟨o', ho, hv, hty, Or.inl h1⟩
    · exact ⟨o, ho, hv, hty, Or.inr ⟨[k], hk, by simp, by simp [List.cons_prefix_cons]⟩⟩
    · rcases hc with hc | ⟨q, hq, hne, hp⟩
      · simp at hc
      · simp only [List.mem_singleton] at hq; subst hq
        exact ⟨o, ho, hv, hty, Or.inr ⟨k :: q, hk, by simp, List.cons_prefix_cons.mpr ⟨rfl, hp⟩⟩⟩
  · rintro ⟨o, ho, hv, hty, hc⟩
    have hvne : o.vals ≠ [] := by intro h; rw [h] at hv; cases hv
    rcases hc with h1 | ⟨q, hq, hne, hp⟩
    · exact ⟨o, (hsub o).mpr ⟨o, ho, Or.inl ⟨h1, hvne, rfl⟩⟩, hv, hty, Or.inl h1⟩
    · cases q with
      | nil => exact absurd rfl hne
      | cons k0 rest0 =>
        obtain ⟨rfl, hp'⟩ := List.cons_prefix_cons.mp hp
        by_cases hr : rest0 = []
        · subst hr
          exact ⟨{ o with paths := [] }, (hsub _).mpr ⟨o, ho, Or.inr (Or.inl ⟨hq, hvne, rfl⟩)⟩,
            hv, hty, Or.inl rfl⟩
        · exact ⟨{ o with paths := [rest0] },
            (hsub _).mpr ⟨o, ho, Or.inr (Or.inr ⟨rest0, hr, hq, rfl⟩)⟩,
            hv, hty, Or.inr ⟨rest0, by simp, hr, hp'⟩⟩

theorem sub_handlers {opts sub : List Opt} {k : Key} (hsub : SubOf opts sub k) {gH : List Nat}
    (hG : ∀ h ∈ graphHandlers opts, h ∈ gH) (rel' : Path) (h : Nat) :
    (h ∈ (gH ++ nodeHandlers opts k) ++ graphHandlers sub ∨
        ∃ o' ∈ sub, h ∈ o'.handlers ∧ CoversD o' rel') ↔
    (h ∈ gH ∨ ∃ o ∈ opts, h ∈ o.handlers ∧ CoversD o (k :: rel')) := by
  constructor
  · rintro (hm | ⟨o', ho', hh, q, hq, hne, hp⟩)
    · simp only [List.mem_append] at hm
      rcases hm with (hm | hm) | hm
      · exact Or.inl hm
      · obtain ⟨o, ho, hk, hh⟩ := mem_nodeHandlers.mp hm
        exact Or.inr ⟨o, ho, hh, [k], hk, by simp, by simp [List.cons_prefix_cons]⟩
      · obtain ⟨o', ho', hp', hh⟩ := mem_graphHandlers.mp hm
        obtain ⟨o, ho, (⟨h1, _, rfl⟩ | ⟨hk, _, rfl⟩ | ⟨rest, hr, hk, rfl⟩)⟩ := (hsub o').mp ho'
        · exact Or.inl (hG h (mem_graphHandlers.mpr ⟨o', ho, h1, hh⟩))
        · exact Or.inr ⟨o, ho, hh, [k], hk, by simp, by simp [List.cons_prefix_cons]⟩
        · simp at hp'
    · obtain ⟨o, ho, (⟨h1, _, rfl⟩ | ⟨hk, _, rfl⟩ | ⟨rest, hr, hk, rfl⟩)⟩ := (hsub o').mp ho'
      · rw [h1] at hq; cases hq
      · cases hq
      · simp only [List.mem_singleton] at hq; subst hq
        exact Or.inr ⟨o, ho, hh, k :: q, hk, by simp, List.cons_prefix_cons.mpr ⟨rfl, hp⟩⟩
  · rintro (hm | ⟨o, ho, hh, q, hq, hne, hp⟩)
    · exact Or.inl (by simp [hm])
    · cases q with
      | nil => exact absurd rfl hne
      | cons k0 rest0 =>
        obtain ⟨rfl, hp'⟩ := List.cons_prefix_cons.mp hp
        by_cases hr : rest0 = []
        · subst hr
          left
          simp only [List.mem_append]
          exact Or.inl (Or.inr (mem_nodeHandlers.mpr ⟨o, ho, hq, hh⟩))
        · exact Or.inr ⟨{ o with paths := [rest0] },
            (hsub _).mpr ⟨o, ho, Or.inr (Or.inr ⟨rest0, hr, hq, rfl⟩)⟩, hh, rest0, by simp, hr, hp'⟩



/-- What the theorems say about one entry of a successful run of the graph `all` (reached
    under path `pre`, context handlers `gH`, called with `opts`). -/
def EntrySpec (all : Nodes) (pre : Path) (gH : List Nat) (opts : List Opt) (e : Entry) : Prop :=
  ∃ rel, e.path = pre ++ rel ∧
    (∃ n, nodeAt all rel = some n ∧
      ((e.isGraph = false ∧ ∃ k ty, n = .comp k ty ∧
          ∀ v, v ∈ e.vals ↔ ∃ o ∈ opts, v ∈ o.vals ∧ ty = o.ty ∧ Covers o rel) ∨
       (e.isGraph = true ∧ ∃ k ch, n = .graph k ch ∧ e.vals = []))) ∧
    (∀ h, h ∈ e.handlers ↔ h ∈ gH ∨ ∃ o ∈ opts, h ∈ o.handlers ∧ CoversD o rel)

theorem nodeAt_singleton {all : Nodes} {k : Key} {n : Node} (h : all.find k = some n) :
    nodeAt all [k] = some n := by
  simp [nodeAt, h]

theorem nodeAt_cons {all ch : Nodes} {k : Key} {rel : Path} (h : all.find k = some (.graph k ch))
    (hr : rel ≠ []) : nodeAt all (k :: rel) = nodeAt ch rel := by
  simp [nodeAt, h, hr]

theorem subOf_of_extract {F : Facts} (hS : F.strip = 1) {all : Nodes} {opts : List Opt} {log : Log}
    (hwf : all.wf = true) (he : extract F all opts = .ok log) {k : Key} {ch : Nodes}
    (hn : Node.graph k ch ∈ all.toList) : SubOf opts (optsOf (itemsFor log k)) k := by
  intro o'
  rw [mem_opts_log]
  exact level_opts hS hwf he hn o'

mutual
theorem runNode_sound {F : Facts} (hT : F.typeCmpIdentity = true)
    (hI : F.typeCmpImplements = false) (hS : F.strip = 1) :
    ∀ (n : Node) (all : Nodes) (pre : Path) (gH : List Nat) (opts : List Opt) (log : Log)
      (out : List Entry),
      all.wf = true → extract F all opts = .ok log → n ∈ all.toList →
      (∀ h ∈ graphHandlers opts, h ∈ gH) →
      runNode F pre gH opts log n = .ok out → ∀ e ∈ out, EntrySpec all pre gH opts e
  | .comp k ty, all, pre, gH, opts, log, out, hwf, he, hn, hG, hrun => by
    simp only [runNode, Except.ok.injEq] at hrun
    subst hrun
    intro e hemem
    simp only [List.mem_singleton] at hemem
    subst hemem
    have hfind := wf_find hwf hn
    simp only [Node.key] at hfind
    refine ⟨[k], rfl, ⟨_, nodeAt_singleton hfind, Or.inl ⟨rfl, k, ty, rfl, ?_⟩⟩, ?_⟩
    · intro v
      simp only [mem_vals_log, level_vals hT hI hwf he hn v, Covers, coversD_singleton]
    · intro h
      simp only [List.mem_append, mem_nodeHandlers, coversD_singleton]
      constructor
      · rintro (h1 | ⟨o, ho, hk, hh⟩)
        · exact Or.inl h1
        · exact Or.inr ⟨o, ho, hh, hk⟩
      · rintro (h1 | ⟨o, ho, hh, hk⟩)
        · exact Or.inl h1
        · exact Or.inr ⟨o, ho, hk, hh⟩
  | .pass k, all, pre, gH, opts, log, out, hwf, he, hn, hG, hrun => by
    simp only [runNode, Except.ok.injEq] at hrun
    subst hrun
    intro e hemem; cases hemem
  | .graph k ch, all, pre, gH, opts, log, out, hwf, he, hn, hG, hrun => by
    have hfind := wf_find hwf hn
    simp only [Node.key] at hfind
    have hsub := subOf_of_extract hS hwf he hn
    simp only [runNode] at hrun
    split at hrun
    · cases hrun
    · rename_i log' he'
      split at hrun
      · cases hrun
      · rename_i es hes
        cases hrun
        have hG' : ∀ h ∈ graphHandlers (optsOf (itemsFor log k)),
            h ∈ (gH ++ nodeHandlers opts k) ++ graphHandlers (optsOf (itemsFor log k)) := by
          intro h hh; simp [hh]
        have ih := runNodes_sound hT hI hS ch ch (pre ++ [k]) _ _ log' es (wf_child hwf hn) he'
          (fun _ h => h) hG' hes
        intro e hemem
        rcases List.mem_cons.mp hemem with rfl | hemem
        · refine ⟨[k], rfl, ⟨_, nodeAt_singleton hfind, Or.inr ⟨rfl, k, ch, rfl, rfl⟩⟩, ?_⟩
          intro h
          have := sub_handlers hsub hG [] h
          simp only [coversD_nil, and_false, exists_false, or_false] at this
          exact this
        · obtain ⟨rel', hpath, ⟨n', hn', hkind⟩, hh⟩ := ih e hemem
          have hne := nodeAt_ne_nil hn'
          refine ⟨k :: rel', by simp [hpath], ⟨n', by rw [nodeAt_cons hfind hne]; exact hn', ?_⟩, ?_⟩
          · rcases hkind with ⟨hg, k', ty, rfl, hv⟩ | hgr
            · refine Or.inl ⟨hg, k', ty, rfl, ?_⟩
              intro v
              rw [hv v]
              exact sub_vals hsub rel' v ty
            · exact Or.inr hgr
          · intro h
            rw [hh h]
            exact sub_handlers hsub hG rel' h
theorem runNodes_sound {F : Facts} (hT : F.typeCmpIdentity = true)
    (hI : F.typeCmpImplements = false) (hS : F.strip = 1) :
    ∀ (ns : Nodes) (all : Nodes) (pre : Path) (gH : List Nat) (opts : List Opt) (log : Log)
      (out : List Entry),
      all.wf = true → extract F all opts = .ok log → (∀ n ∈ ns.toList, n ∈ all.toList) →
      (∀ h ∈ graphHandlers opts, h ∈ gH) →
      runNodes F pre gH opts log ns = .ok out → ∀ e ∈ out, EntrySpec all pre gH opts e
  | .nil, all, pre, gH, opts, log, out, hwf, he, hns, hG, hrun => by
    simp only [runNodes, Except.ok.injEq] at hrun
    subst hrun
    intro e hemem; cases hemem
  | .cons n ns, all, pre, gH, opts, log, out, hwf, he, hns, hG, hrun => by
    simp only [runNodes] at hrun
    split at hrun
    · cases hrun
    · rename_i a ha
      split at hrun
      · cases hrun
      · rename_i b hb
        cases hrun
        intro e hemem
        rcases List.mem_append.mp hemem with h | h
        · exact runNode_sound hT hI hS n all pre gH opts log a hwf he
            (hns n (by simp [Nodes.toList])) hG ha e h
        · exact runNodes_sound hT hI hS ns all pre gH opts log b hwf he
            (fun m hm => hns m (by simp [Nodes.toList, hm])) hG hb e h
end



/-! ### completeness: every component / graph node of the tree has an entry -/

theorem find_cons (n : Node) (ns : Nodes) (k : Key) :
    (Nodes.cons n ns).find k = if n.key = k then some n else ns.find k := by
  unfold Nodes.find
  simp only [Nodes.toList, List.find?_cons]
  by_cases h : n.key = k
  · simp [h]
  · have : (n.key == k) = false := by simp [h]
    simp [this, h]

def Node.isPass : Node → Bool
  | .pass _ => true
  | _ => false

mutual
theorem runNode_complete {F : Facts} :
    ∀ (n : Node) (pre : Path) (gH : List Nat) (opts : List Opt) (log : Log) (out : List Entry),
      runNode F pre gH opts log n = .ok out →
      (n.isPass = false → ∃ e ∈ out, e.path = pre ++ [n.key]) ∧
      (∀ k ch rel n', n = .graph k ch → nodeAt ch rel = some n' → n'.isPass = false →
        ∃ e ∈ out, e.path = pre ++ k :: rel)
  | .comp k ty, pre, gH, opts, log, out, hrun => by
    simp only [runNode, Except.ok.injEq] at hrun
    subst hrun
    refine ⟨fun _ => ⟨_, List.mem_singleton.mpr rfl, rfl⟩, ?_⟩
    intro k' ch rel n' h; cases h
  | .pass k, pre, gH, opts, log, out, hrun => by
    refine ⟨fun h => by simp [Node.isPass] at h, ?_⟩
    intro k' ch rel n' h; cases h
  | .graph k ch, pre, gH, opts, log, out, hrun => by
    simp only [runNode] at hrun
    split at hrun
    · cases hrun
    · rename_i log' he'
      split at hrun
      · cases hrun
      · rename_i es hes
        cases hrun
        refine ⟨fun _ => ⟨_, List.mem_cons_self, rfl⟩, ?_⟩
        intro k' ch' rel n' h hn' hp
        cases h
        obtain ⟨e, he, hpath⟩ := runNodes_complete ch (pre ++ [k]) _ _ log' es hes rel n' hn' hp
        exact ⟨e, List.mem_cons_of_mem _ he, by simp [hpath]⟩
theorem runNodes_complete {F : Facts} :
    ∀ (ns : Nodes) (pre : Path) (gH : List Nat) (opts : List Opt) (log : Log) (out : List Entry),
      runNodes F pre gH opts log ns = .ok out →
      ∀ rel n', nodeAt ns rel = some n' → n'.isPass = false → ∃ e ∈ out, e.path = pre ++ rel
  | .nil, pre, gH, opts, log, out, hrun => by
    intro rel n' h
    cases rel with
    | nil => simp [nodeAt] at h
    | cons k rest => simp [nodeAt, Nodes.find, Nodes.toList] at h
  | .cons n ns, pre, gH, opts, log, out, hrun => by
    simp only [runNodes] at hrun
    split at hrun
    · cases hrun
    · rename_i a ha
      split at hrun
      · cases hrun
      · rename_i b hb
        cases hrun
        intro rel n' h hp
        cases rel with
        | nil => simp [nodeAt] at h
        | cons k rest =>
          by_cases hk : n.key = k
          · have hf : (Nodes.cons n ns).find k = some n := by rw [find_cons]; simp [hk]
            simp only [nodeAt, hf] at h
            obtain ⟨h1, h2⟩ := runNode_complete n pre gH opts log a ha
            by_cases hr : rest = []
            · subst hr
              simp only [↓reduceIte, Option.some.injEq] at h
              subst h
              obtain ⟨e, he, hpath⟩ := h1 hp
              exact ⟨e, List.mem_append_left _ he, by rw [hpath, hk]⟩
            · simp only [hr, ↓reduceIte] at h
              cases n with
              | comp k' ty => cases h
              | pass k' => cases h
              | graph k' ch =>
                simp only [Node.key] at hk
                subst hk
                obtain ⟨e, he, hpath⟩ := h2 k' ch rest n' rfl h hp
                exact ⟨e, List.mem_append_left _ he, hpath⟩
          · have hf : (Nodes.cons n ns).find k = ns.find k := by rw [find_cons]; simp [hk]
            have h' : nodeAt ns (k :: rest) = some n' := by
              simp only [nodeAt, hf] at h
              simpa only [nodeAt] using h
            obtain ⟨e, he, hpath⟩ := runNodes_complete ns pre gH opts log b hb (k :: rest) n' h' hp
            exact ⟨e, List.mem_append_right _ he, hpath⟩
end



/-! ### which designated paths are rejected -/

/-- The verdict on one designated path `p` of option `o` against the tree: why the run that
    receives it fails, if it does. Walks down through graph nodes. -/
def pathErr (F : Facts) : Nodes → Opt → Path → Option Err
  | _, _, [] => some .emptyPath
  | ns, o, k :: rest =>
    match ns.find k with
    | none => some .unknownNode
    | some (.comp _ ty) =>
      if rest ≠ [] then some .subPathOfComponent
      else if o.vals ≠ [] ∧ F.typeCmpIdentity = true ∧ tyMatch F ty o.ty = false then some .wrongType
      else none
    | some (.pass _) =>
      if rest ≠ [] ∧ F.passSubPathIsError = true then some .subPathOfComponent else none
    | some (.graph _ ch) => if rest = [] then none else pathErr F ch o rest

theorem pathErr_congr {F : Facts} {o o' : Opt} (hv : o'.vals = o.vals) (ht : o'.ty = o.ty) :
    ∀ (p : Path) (ns : Nodes), pathErr F ns o' p = pathErr F ns o p
  | [], ns => by simp [pathErr]
  | k :: rest, ns => by
    simp only [pathErr]
    cases ns.find k with
    | none => rfl
    | some n =>
      cases n with
      | comp k' ty => simp only [hv, ht]
      | pass k' => rfl
      | graph k' ch =>
        simp only
        split
        · rfl
        · exact pathErr_congr hv ht rest ch

/-- One step of `pathErr`: the path fails at this level, or it continues into a graph node
    and fails further down. -/
theorem pathErr_step {F : Facts} (ns : Nodes) (o : Opt) (p : Path) :
    (pathErr F ns o p).isSome = true ↔
      (∃ e, pathEntry F ns o p = .error e) ∨
      (∃ k k' ch rest, p = k :: rest ∧ rest ≠ [] ∧ ns.find k = some (.graph k' ch) ∧
        (pathErr F ch o rest).isSome = true) := by
  cases p with
  | nil => simp [pathErr, pathEntry]
  | cons k rest =>
    simp only [pathErr, pathEntry]
    cases hf : ns.find k with
    | none => simp
    | some n =>
      cases n with
      | comp k' ty =>
        by_cases hr : rest = []
        · subst hr
          by_cases hv : o.vals = []
          · simp [hv]
          · by_cases hty : tyMatch F ty o.ty = true
            · simp [hv, hty]
            · by_cases hT : F.typeCmpIdentity = true
              · simp [hv, hty, hT]
              · simp [hv, hty, hT]
        · simp [hr]
      | pass k' =>
        by_cases hr : rest = []
        · subst hr
          by_cases hv : o.vals = [] <;> simp [hv]
        · by_cases hP : F.passSubPathIsError = true
          · simp [hr, hP]
          · have hP' : F.passSubPathIsError = false := by simpa using hP
            simp only [hr, hP', Bool.false_eq_true, and_false, ↓reduceIte]
            constructor
            · intro h; simp at h
            · rintro (⟨e, he⟩ | ⟨k0, k'', ch', rest', heq, _, hf', _⟩)
              · cases he
              · cases heq; rw [hf] at hf'; cases hf'
      | graph k' ch =>
        by_cases hr : rest = []
        · subst hr
          by_cases hv : o.vals = [] <;> simp [hv]
        · simp only [hr, ↓reduceIte]
          constructor
          · intro h; exact Or.inr ⟨k, k', ch, rest, rfl, hr, hf, h⟩
          · rintro (⟨e, he⟩ | ⟨k0, k'', ch', rest', heq, _, hf', h⟩)
            · cases he
            · cases heq; rw [hf] at hf'; cases hf'; exact h

theorem sub_err {F : Facts} {opts sub : List Opt} {k : Key} (hsub : SubOf opts sub k) (ch : Nodes) :
    (∃ o' ∈ sub, ∃ p' ∈ o'.paths, (pathErr F ch o' p').isSome = true) ↔
    (∃ o ∈ opts, ∃ rest, rest ≠ [] ∧ k :: rest ∈ o.paths ∧ (pathErr F ch o rest).isSome = true) := by
  constructor
  · rintro ⟨o', ho', p', hp', herr⟩
    obtain ⟨o, ho, (⟨h1, _, rfl⟩ | ⟨hk, _, rfl⟩ | ⟨rest, hr, hk, rfl⟩)⟩ := (hsub o').mp ho'
    · rw [h1] at hp'; cases hp'
    · cases hp'
    · simp only [List.mem_singleton] at hp'; subst hp'
      have hc := pathErr_congr (F := F) (o := o) (o' := { o with paths := [p'] }) rfl rfl p' ch
      rw [hc] at herr
      exact ⟨o, ho, p', hr, hk, herr⟩
  · rintro ⟨o, ho, rest, hr, hk, herr⟩
    refine ⟨{ o with paths := [rest] }, (hsub _).mpr ⟨o, ho, Or.inr (Or.inr ⟨rest, hr, hk, rfl⟩)⟩,
      rest, by simp, ?_⟩
    have hc := pathErr_congr (F := F) (o := o) (o' := { o with paths := [rest] }) rfl rfl rest ch
    rw [hc]; exact herr

/-- The failures below one level, as `runNodes` finds them. -/
def DeepErr (F : Facts) (ns : List Node) (opts : List Opt) : Prop :=
  ∃ n ∈ ns, ∃ k ch, n = .graph k ch ∧
    ∃ o ∈ opts, ∃ rest, rest ≠ [] ∧ k :: rest ∈ o.paths ∧ (pathErr F ch o rest).isSome = true

theorem level_err {F : Facts} {all : Nodes} (hwf : all.wf = true) (opts : List Opt) :
    ((∃ e, extract F all opts = .error e) ∨ DeepErr F all.toList opts) ↔
    ∃ o ∈ opts, ∃ p ∈ o.paths, (pathErr F all o p).isSome = true := by
  rw [extract_error_iff]
  constructor
  · rintro (⟨o, ho, p, hp, he⟩ | ⟨n, hn, k, ch, rfl, o, ho, rest, hr, hk, herr⟩)
    · exact ⟨o, ho, p, hp, (pathErr_step all o p).mpr (Or.inl he)⟩
    · have hf := wf_find hwf hn
      simp only [Node.key] at hf
      exact ⟨o, ho, _, hk, (pathErr_step all o _).mpr (Or.inr ⟨k, k, ch, rest, rfl, hr, hf, herr⟩)⟩
  · rintro ⟨o, ho, p, hp, herr⟩
    rcases (pathErr_step all o p).mp herr with he | ⟨k, k', ch, rest, rfl, hr, hf, herr'⟩
    · exact Or.inl ⟨o, ho, p, hp, he⟩
    · obtain ⟨hmem, hkey⟩ := find_some hf
      simp only [Node.key] at hkey
      subst hkey
      exact Or.inr ⟨_, hmem, k', ch, rfl, o, ho, rest, hr, hp, herr'⟩

mutual
theorem runNode_err {F : Facts} (hS : F.strip = 1) :
    ∀ (n : Node) (all : Nodes) (pre : Path) (gH : List Nat) (opts : List Opt) (log : Log),
      all.wf = true → extract F all opts = .ok log → n ∈ all.toList →
      ((∃ e, runNode F pre gH opts log n = .error e) ↔ DeepErr F [n] opts)
  | .comp k ty, all, pre, gH, opts, log, hwf, he, hn => by
    simp [runNode, DeepErr]
  | .pass k, all, pre, gH, opts, log, hwf, he, hn => by
    simp [runNode, DeepErr]
  | .graph k ch, all, pre, gH, opts, log, hwf, he, hn => by
    have hsub := subOf_of_extract hS hwf he hn
    have hwf' := wf_child hwf hn
    have hlev := level_err (F := F) hwf' (optsOf (itemsFor log k))
    have hD : DeepErr F [Node.graph k ch] opts ↔
        ∃ o ∈ opts, ∃ rest, rest ≠ [] ∧ k :: rest ∈ o.paths ∧ (pathErr F ch o rest).isSome = true := by
      simp only [DeepErr, List.mem_singleton]
      constructor
      · rintro ⟨_, rfl, _, _, heq, h⟩; cases heq; exact h
      · intro h; exact ⟨_, rfl, k, ch, rfl, h⟩
    rw [hD, ← sub_err hsub ch, ← hlev]
    simp only [runNode]
    cases he' : extract F ch (optsOf (itemsFor log k)) with
    | error e0 => simp
    | ok log' =>
      have ih := runNodes_err hS ch ch (pre ++ [k])
        ((gH ++ nodeHandlers opts k) ++ graphHandlers (optsOf (itemsFor log k)))
        (optsOf (itemsFor log k)) log' hwf' he' (fun _ h => h)
      simp only [reduceCtorEq, exists_false, false_or]
      rw [← ih]
      cases runNodes F (pre ++ [k])
        ((gH ++ nodeHandlers opts k) ++ graphHandlers (optsOf (itemsFor log k)))
        (optsOf (itemsFor log k)) log' ch with
      | error e => simp
      | ok es => simp
theorem runNodes_err {F : Facts} (hS : F.strip = 1) :
    ∀ (ns : Nodes) (all : Nodes) (pre : Path) (gH : List Nat) (opts : List Opt) (log : Log),
      all.wf = true → extract F all opts = .ok log → (∀ n ∈ ns.toList, n ∈ all.toList) →
      ((∃ e, runNodes F pre gH opts log ns = .error e) ↔ DeepErr F ns.toList opts)
  | .nil, all, pre, gH, opts, log, hwf, he, hns => by
    simp [runNodes, DeepErr, Nodes.toList]
  | .cons n ns, all, pre, gH, opts, log, hwf, he, hns => by
    have ih1 := runNode_err hS n all pre gH opts log hwf he (hns n (by simp [Nodes.toList]))
    have ih2 := runNodes_err hS ns all pre gH opts log hwf he
      (fun m hm => hns m (by simp [Nodes.toList, hm]))
    have hD : DeepErr F (Nodes.cons n ns).toList opts ↔ DeepErr F [n] opts ∨ DeepErr F ns.toList opts := by
      simp only [DeepErr, Nodes.toList, List.mem_cons, List.not_mem_nil, or_false]
      constructor
      · rintro ⟨m, (rfl | hm), h⟩
        · exact Or.inl ⟨m, rfl, h⟩
        · exact Or.inr ⟨m, hm, h⟩
      · rintro (⟨m, rfl, h⟩ | ⟨m, hm, h⟩)
        · exact ⟨m, Or.inl rfl, h⟩
        · exact ⟨m, Or.inr hm, h⟩
    rw [hD, ← ih1, ← ih2]
    simp only [runNodes]
    cases runNode F pre gH opts log n with
    | error e => simp
    | ok a =>
      cases runNodes F pre gH opts log ns with
      | error e => simp
      | ok b => simp
end

theorem run_err {F : Facts} (hS : F.strip = 1) {g : Nodes} (hwf : g.wf = true) (opts : List Opt) :
    (∃ e, run F g opts = .error e) ↔ ∃ o ∈ opts, ∃ p ∈ o.paths, (pathErr F g o p).isSome = true := by
  rw [← level_err hwf]
  unfold run
  cases he : extract F g opts with
  | error e0 => simp
  | ok log =>
    have ih := runNodes_err hS g g [] (graphHandlers opts) opts log hwf he (fun _ h => h)
    simp only [reduceCtorEq, exists_false, false_or]
    rw [← ih]
    cases runNodes F [] (graphHandlers opts) opts log g with
    | error e => simp
    | ok es => simp



/-! ### `pathErr` along a path that names a node -/

theorem pathErr_at {F : Facts} (o : Opt) :
    ∀ (q : Path) (g : Nodes) (n : Node), nodeAt g q = some n →
      pathErr F g o q =
        match n with
        | .comp _ ty => if o.vals ≠ [] ∧ F.typeCmpIdentity = true ∧ tyMatch F ty o.ty = false then some .wrongType else none
        | _ => none
  | [], g, n, h => by simp [nodeAt] at h
  | k :: rest, g, n, h => by
    simp only [nodeAt] at h
    simp only [pathErr]
    cases hf : g.find k with
    | none => simp [hf] at h
    | some m =>
      simp only [hf] at h
      by_cases hr : rest = []
      · subst hr
        simp only [↓reduceIte, Option.some.injEq] at h
        subst h
        cases m <;> simp
      · simp only [hr, ↓reduceIte] at h
        cases m with
        | comp k' ty => cases h
        | pass k' => cases h
        | graph k' ch =>
          simp only [hr, ↓reduceIte]
          exact pathErr_at o rest ch n h

theorem pathErr_below {F : Facts} (o : Opt) (r : Path) (hr : r ≠ []) :
    ∀ (q : Path) (g : Nodes) (n : Node), nodeAt g q = some n →
      pathErr F g o (q ++ r) =
        match n with
        | .comp _ _ => some .subPathOfComponent
        | .pass _ => if F.passSubPathIsError = true then some .subPathOfComponent else none
        | .graph _ ch => pathErr F ch o r
  | [], g, n, h => by simp [nodeAt] at h
  | k :: rest, g, n, h => by
    simp only [nodeAt] at h
    simp only [List.cons_append, pathErr]
    cases hf : g.find k with
    | none => simp [hf] at h
    | some m =>
      simp only [hf] at h
      by_cases hrest : rest = []
      · subst hrest
        simp only [↓reduceIte, Option.some.injEq] at h
        subst h
        cases m <;> simp [hr]
      · simp only [hrest, ↓reduceIte] at h
        cases m with
        | comp k' ty => cases h
        | pass k' => cases h
        | graph k' ch =>
          have : rest ++ r ≠ [] := by simp [hrest]
          simp only [this, ↓reduceIte]
          exact pathErr_below o r hr rest ch n h

theorem pathErr_unknown {F : Facts} (o : Opt) (g : Nodes) (k : Key) (r : Path)
    (h : g.find k = none) : pathErr F g o (k :: r) = some .unknownNode := by
  simp [pathErr, h]

/-! ### the caller's store -/

theorem storeAfterAux_copies {F : Facts} (hC : F.nestedCopies = true) (c : Call) :
    ∀ (store : List Opt) (i : Nat), storeAfterAux F c i store = store
  | [], i => rfl
  | o :: os, i => by
    simp only [storeAfterAux, afterCall, hC, ↓reduceIte, ite_self, storeAfterAux_copies hC c os (i + 1)]

theorem runCalls_copies {F : Facts} (hC : F.nestedCopies = true) :
    ∀ (cs : List Call) (store : List Opt),
      runCalls F store cs = (cs.map (fun c => run F c.g (pick store c.ixs)), store)
  | [], store => rfl
  | c :: cs, store => by
    simp only [runCalls, storeAfter, storeAfterAux_copies hC, runCalls_copies hC cs store, List.map_cons]



/-! ### constructing Options -/

def BInv (st : BState) (acc : List (List Path)) : Prop :=
  st.opts.map (pathsOf st) = acc ∧ ∀ h ∈ st.opts, h.arr < st.next

theorem pathsOf_setArr_fresh {st : BState} {cells : List Path} {h : Hdr} (hlt : h.arr < st.next)
    (opts' : List Hdr) :
    pathsOf { heap := setArr st.heap st.next cells, next := st.next + 1, opts := opts' } h
      = pathsOf st h := by
  simp only [pathsOf, setArr]
  have : h.arr ≠ st.next := Nat.ne_of_lt hlt
  simp [this]

theorem bstep_copies_inv (grow : Nat → Nat → Nat) {st : BState} {acc : List (List Path)}
    (hinv : BInv st acc) (op : BuildOp) : BInv (bstep true grow st op) (specStep acc op) := by
  obtain ⟨hmap, hlt⟩ := hinv
  cases op with
  | base =>
    simp only [bstep, specStep]
    refine ⟨?_, ?_⟩
    · simp only [List.map_append, List.map_cons, List.map_nil]
      congr 1
      · rw [← hmap]
        apply List.map_congr_left
        intro h hh
        exact pathsOf_setArr_fresh (hlt h hh) _
    · intro h hh
      rcases List.mem_append.mp hh with hh | hh
      · exact Nat.lt_succ_of_lt (hlt h hh)
      · simp only [List.mem_singleton] at hh; subst hh; exact Nat.lt_succ_self _
  | designate src added =>
    simp only [bstep, ↓reduceIte, specStep]
    refine ⟨?_, ?_⟩
    · simp only [List.map_append, List.map_cons, List.map_nil]
      congr 1
      · rw [← hmap]
        apply List.map_congr_left
        intro h hh
        exact pathsOf_setArr_fresh (hlt h hh) _
      · have hsrc : pathsOf st ((st.opts[src]?).getD ⟨st.next, 0, 0⟩) = (acc[src]?).getD [] := by
          rw [← hmap, List.getElem?_map]
          cases st.opts[src]? with
          | none => simp [pathsOf]
          | some h => simp
        simp only [pathsOf, setArr, ↓reduceIte, List.cons.injEq, and_true]
        rw [← hsrc]
        apply List.take_of_length_le
        simp only [List.length_append, List.length_take]
        omega
    · intro h hh
      rcases List.mem_append.mp hh with hh | hh
      · exact Nat.lt_succ_of_lt (hlt h hh)
      · simp only [List.mem_singleton] at hh; subst hh; exact Nat.lt_succ_self _

theorem foldl_copies_inv (grow : Nat → Nat → Nat) :
    ∀ (ops : List BuildOp) (st : BState) (acc : List (List Path)), BInv st acc →
      BInv (ops.foldl (bstep true grow) st) (ops.foldl specStep acc)
  | [], _, _, h => h
  | op :: ops, _, _, h => foldl_copies_inv grow ops _ _ (bstep_copies_inv grow h op)

theorem builtPaths_copies (grow : Nat → Nat → Nat) (ops : List BuildOp) :
    builtPaths true grow ops = specPaths ops := by
  have : BInv BState.init [] := ⟨rfl, by intro h hh; cases hh⟩
  exact (foldl_copies_inv grow ops _ _ this).1

end EinoV.C16
