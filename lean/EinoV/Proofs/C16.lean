/-
  C16 — helper lemmas about the option-distribution model (no property statements here;
  those are in EinoV/Props/C16.lean).
-/
import EinoV.Model.C16

namespace EinoV.C16

/-! ### `mapE` -/

theorem mapE_ok_mem {α β ε : Type} {f : α → Except ε β} {l : List α} {r : List β}
    (h : mapE f l = .ok r) (b : β) : b ∈ r ↔ ∃ a ∈ l, f a = .ok b := by
  induction l generalizing r with
  | nil => simp [mapE] at h; subst h; simp
  | cons a as ih =>
    simp only [mapE] at h
    split at h
    · cases h
    · rename_i b' hb
      split at h
      · cases h
      · rename_i bs hbs
        cases h
        simp only [List.mem_cons, ih hbs]
        constructor
        · rintro (rfl | ⟨a', ha', hf⟩)
          · exact ⟨a, Or.inl rfl, hb⟩
          · exact ⟨a', Or.inr ha', hf⟩
        · rintro ⟨a', (rfl | ha'), hf⟩
          · left; rw [hb] at hf; cases hf; rfl
          · right; exact ⟨a', ha', hf⟩

theorem mapE_ok_all {α β ε : Type} {f : α → Except ε β} {l : List α} {r : List β}
    (h : mapE f l = .ok r) : ∀ a ∈ l, ∃ b, f a = .ok b ∧ b ∈ r := by
  induction l generalizing r with
  | nil => simp
  | cons a as ih =>
    simp only [mapE] at h
    split at h
    · cases h
    · rename_i b' hb
      split at h
      · cases h
      · rename_i bs hbs
        cases h
        intro a' ha'
        rcases List.mem_cons.mp ha' with rfl | ha'
        · exact ⟨b', hb, by simp⟩
        · obtain ⟨b, hb1, hb2⟩ := ih hbs a' ha'
          exact ⟨b, hb1, by simp [hb2]⟩

theorem mapE_error_iff {α β ε : Type} {f : α → Except ε β} {l : List α} :
    (∃ e, mapE f l = .error e) ↔ ∃ a ∈ l, ∃ e, f a = .error e := by
  induction l with
  | nil => simp [mapE]
  | cons a as ih =>
    simp only [mapE]
    cases hfa : f a with
    | error e => simp; exact Or.inl ⟨e, hfa⟩
    | ok b =>
      cases hm : mapE f as with
      | error e =>
        have := ih.mp ⟨e, hm⟩
        obtain ⟨a', ha', e', he'⟩ := this
        simp
        exact Or.inr ⟨a', ha', e', he'⟩
      | ok bs =>
        constructor
        · rintro ⟨e, he⟩; cases he
        · rintro ⟨a', ha', e', he'⟩
          rcases List.mem_cons.mp ha' with rfl | ha'
          · rw [hfa] at he'; cases he'
          · have : ∃ e, mapE f as = .error e := ih.mpr ⟨a', ha', e', he'⟩
            rw [hm] at this; obtain ⟨_, h⟩ := this; cases h

/-! ### the log and its projections -/

theorem mem_itemsFor {log : Log} {k : Key} {it : Item} : it ∈ itemsFor log k ↔ (k, it) ∈ log := by
  unfold itemsFor
  simp only [List.mem_filterMap]
  constructor
  · rintro ⟨⟨k', it'⟩, hm, h⟩
    simp only at h
    split at h
    · rename_i hk; cases h; subst hk; exact hm
    · cases h
  · intro h; exact ⟨(k, it), h, by simp⟩

theorem mem_valsOf {items : List Item} {v : Nat} : v ∈ valsOf items ↔ Item.val v ∈ items := by
  unfold valsOf
  simp only [List.mem_filterMap]
  constructor
  · rintro ⟨it, hm, h⟩
    cases it with
    | val v' => simp at h; subst h; exact hm
    | opt o => simp at h
  · intro h; exact ⟨.val v, h, rfl⟩

theorem mem_optsOf {items : List Item} {o : Opt} : o ∈ optsOf items ↔ Item.opt o ∈ items := by
  unfold optsOf
  simp only [List.mem_filterMap]
  constructor
  · rintro ⟨it, hm, h⟩
    cases it with
    | val v' => simp at h
    | opt o' => simp at h; subst h; exact hm
  · intro h; exact ⟨.opt o, h, rfl⟩

theorem mem_vals_log {log : Log} {k : Key} {v : Nat} :
    v ∈ valsOf (itemsFor log k) ↔ (k, Item.val v) ∈ log := by
  rw [mem_valsOf, mem_itemsFor]

theorem mem_opts_log {log : Log} {k : Key} {o : Opt} :
    o ∈ optsOf (itemsFor log k) ↔ (k, Item.opt o) ∈ log := by
  rw [mem_optsOf, mem_itemsFor]

/-! ### one level: `extract` -/

theorem optEntries_ok_mem {F : Facts} {nodes : Nodes} {o : Opt} {l : Log}
    (h : optEntries F nodes o = .ok l) (x : Key × Item) :
    x ∈ l ↔ x ∈ undesignatedEntries F nodes o ∨
      ∃ p ∈ o.paths, ∃ lp, pathEntry F nodes o p = .ok lp ∧ x ∈ lp := by
  unfold optEntries at h
  split at h
  · cases h
  · rename_i ds hds
    cases h
    simp only [List.mem_append, List.mem_flatten]
    constructor
    · rintro (hu | ⟨lp, hlp, hx⟩)
      · exact Or.inl hu
      · obtain ⟨p, hp, hpe⟩ := (mapE_ok_mem hds lp).mp hlp
        exact Or.inr ⟨p, hp, lp, hpe, hx⟩
    · rintro (hu | ⟨p, hp, lp, hpe, hx⟩)
      · exact Or.inl hu
      · exact Or.inr ⟨lp, (mapE_ok_mem hds lp).mpr ⟨p, hp, hpe⟩, hx⟩

theorem optEntries_ok_paths {F : Facts} {nodes : Nodes} {o : Opt} {l : Log}
    (h : optEntries F nodes o = .ok l) : ∀ p ∈ o.paths, ∃ lp, pathEntry F nodes o p = .ok lp := by
  unfold optEntries at h
  split at h
  · cases h
  · rename_i ds hds
    intro p hp
    obtain ⟨lp, h1, _⟩ := mapE_ok_all hds p hp
    exact ⟨lp, h1⟩

theorem optEntries_error_iff {F : Facts} {nodes : Nodes} {o : Opt} :
    (∃ e, optEntries F nodes o = .error e) ↔ ∃ p ∈ o.paths, ∃ e, pathEntry F nodes o p = .error e := by
  rw [← mapE_error_iff]
  unfold optEntries
  cases mapE (pathEntry F nodes o) o.paths with
  | error e => simp
  | ok ds => simp

theorem extract_ok_mem {F : Facts} {nodes : Nodes} {opts : List Opt} {log : Log}
    (h : extract F nodes opts = .ok log) (x : Key × Item) :
    x ∈ log ↔ ∃ o ∈ opts, x ∈ undesignatedEntries F nodes o ∨
      ∃ p ∈ o.paths, ∃ lp, pathEntry F nodes o p = .ok lp ∧ x ∈ lp := by
  unfold extract at h
  split at h
  · cases h
  · rename_i ls hls
    cases h
    simp only [List.mem_flatten]
    constructor
    · rintro ⟨l, hl, hx⟩
      obtain ⟨o, ho, hoe⟩ := (mapE_ok_mem hls l).mp hl
      exact ⟨o, ho, (optEntries_ok_mem hoe x).mp hx⟩
    · rintro ⟨o, ho, hx⟩
      obtain ⟨l, hoe, hl⟩ := mapE_ok_all hls o ho
      exact ⟨l, hl, (optEntries_ok_mem hoe x).mpr hx⟩

theorem extract_ok_paths {F : Facts} {nodes : Nodes} {opts : List Opt} {log : Log}
    (h : extract F nodes opts = .ok log) :
    ∀ o ∈ opts, ∀ p ∈ o.paths, ∃ lp, pathEntry F nodes o p = .ok lp := by
  unfold extract at h
  split at h
  · cases h
  · rename_i ls hls
    intro o ho
    obtain ⟨l, hoe, _⟩ := mapE_ok_all hls o ho
    exact optEntries_ok_paths hoe

theorem extract_error_iff {F : Facts} {nodes : Nodes} {opts : List Opt} :
    (∃ e, extract F nodes opts = .error e) ↔
      ∃ o ∈ opts, ∃ p ∈ o.paths, ∃ e, pathEntry F nodes o p = .error e := by
  have : (∃ e, extract F nodes opts = .error e) ↔ ∃ e, mapE (optEntries F nodes) opts = .error e := by
    unfold extract
    cases mapE (optEntries F nodes) opts with
    | error e => simp
    | ok ds => simp
  rw [this, mapE_error_iff]
  constructor
  · rintro ⟨o, ho, he⟩; exact ⟨o, ho, optEntries_error_iff.mp he⟩
  · rintro ⟨o, ho, he⟩; exact ⟨o, ho, optEntries_error_iff.mpr he⟩

/-! ### node lookup -/

theorem find_some {nodes : Nodes} {k : Key} {n : Node} (h : nodes.find k = some n) :
    n ∈ nodes.toList ∧ n.key = k := by
  unfold Nodes.find at h
  have h1 := List.mem_of_find?_eq_some h
  have h2 := List.find?_some h
  exact ⟨h1, by simpa using h2⟩

theorem find_none {nodes : Nodes} {k : Key} (h : nodes.find k = none) :
    ∀ n ∈ nodes.toList, n.key ≠ k := by
  unfold Nodes.find at h
  intro n hn
  have := List.find?_eq_none.mp h n hn
  simpa using this

theorem wf_find {nodes : Nodes} (hwf : nodes.wf = true) {n : Node} (hn : n ∈ nodes.toList) :
    nodes.find n.key = some n := by
  cases nodes with
  | nil => simp [Nodes.toList] at hn
  | cons m ms =>
    simp only [Nodes.wf, Bool.and_eq_true, Bool.not_eq_true', List.any_eq_false] at hwf
    obtain ⟨⟨_, hms⟩, hdist⟩ := hwf
    simp only [Nodes.toList, List.mem_cons] at hn
    unfold Nodes.find
    simp only [Nodes.toList, List.find?_cons]
    rcases hn with rfl | hn
    · simp
    · have hne : (m.key == n.key) = false := by
        have := hdist n hn
        simp at this
        simp [beq_iff_eq]
        exact fun h => this h.symm
      rw [hne]
      exact wf_find hms hn

theorem wf_child {nodes : Nodes} (hwf : nodes.wf = true) {k : Key} {ch : Nodes}
    (hn : Node.graph k ch ∈ nodes.toList) : ch.wf = true := by
  cases nodes with
  | nil => simp [Nodes.toList] at hn
  | cons m ms =>
    simp only [Nodes.wf, Bool.and_eq_true] at hwf
    obtain ⟨⟨hm, hms⟩, _⟩ := hwf
    simp only [Nodes.toList, List.mem_cons] at hn
    rcases hn with rfl | hn
    · simpa [Node.wf] using hm
    · exact wf_child hms hn

/-! ### what one level hands to a node -/

theorem mem_undesignatedFor_val {F : Facts} (hT : F.typeCmpIdentity = true) {o : Opt} {n : Node}
    {k : Key} {v : Nat} :
    (k, Item.val v) ∈ undesignatedFor F o n ↔ ∃ ty, n = .comp k ty ∧ ty = o.ty ∧ v ∈ o.vals := by
  cases n with
  | comp k' ty' =>
    simp only [undesignatedFor, hT, Bool.not_true, Bool.false_or, beq_iff_eq]
    split
    · rename_i hty
      simp only [List.mem_map, Prod.mk.injEq, Item.val.injEq, Node.comp.injEq]
      constructor
      · rintro ⟨v', hv', rfl, rfl⟩; exact ⟨ty', ⟨rfl, rfl⟩, hty, hv'⟩
      · rintro ⟨ty, ⟨rfl, rfl⟩, _, hv⟩; exact ⟨v, hv, rfl, rfl⟩
    · rename_i hty
      simp only [List.not_mem_nil, Node.comp.injEq, false_iff, not_exists, not_and]
      rintro ty ⟨_, rfl⟩ h; exact absurd h hty
  | pass k' => simp [undesignatedFor]
  | graph k' ch => simp [undesignatedFor]

theorem mem_undesignatedFor_opt {F : Facts} {o o' : Opt} {n : Node} {k : Key} :
    (k, Item.opt o') ∈ undesignatedFor F o n ↔
      ((n = .pass k ∨ ∃ ch, n = .graph k ch) ∧ o' = o) := by
  cases n with
  | comp k' ty' =>
    simp only [undesignatedFor]
    split <;> simp
  | pass k' =>
    simp only [undesignatedFor, List.mem_singleton, Prod.mk.injEq, Item.opt.injEq, Node.pass.injEq,
      reduceCtorEq, exists_false, or_false]
    constructor <;> rintro ⟨rfl, rfl⟩ <;> exact ⟨rfl, rfl⟩
  | graph k' ch =>
    simp only [undesignatedFor, List.mem_singleton, Prod.mk.injEq, Item.opt.injEq, reduceCtorEq,
      Node.graph.injEq, false_or]
    constructor
    · rintro ⟨rfl, rfl⟩; exact ⟨⟨ch, rfl, rfl⟩, rfl⟩
    · rintro ⟨⟨ch', rfl, _⟩, rfl⟩; exact ⟨rfl, rfl⟩

theorem mem_undesignatedEntries {F : Facts} {nodes : Nodes} {o : Opt} {x : Key × Item} :
    x ∈ undesignatedEntries F nodes o ↔
      o.paths = [] ∧ o.vals ≠ [] ∧ ∃ n ∈ nodes.toList, x ∈ undesignatedFor F o n := by
  unfold undesignatedEntries
  split
  · rename_i h; simp [List.mem_flatMap, h.1, h.2]
  · rename_i h
    simp only [List.not_mem_nil, false_iff]
    rintro ⟨h1, h2, _⟩; exact h ⟨h1, h2⟩



theorem pathEntry_ok_val {F : Facts} (hT : F.typeCmpIdentity = true) {nodes : Nodes} {o : Opt}
    {p : Path} {lp : Log} (h : pathEntry F nodes o p = .ok lp) (k : Key) (v : Nat) :
    (k, Item.val v) ∈ lp ↔
      p = [k] ∧ v ∈ o.vals ∧ ∃ k' ty, nodes.find k = some (.comp k' ty) ∧ ty = o.ty := by
  unfold pathEntry at h
  cases p with
  | nil => simp at h
  | cons k0 rest =>
    simp only at h
    cases hf : nodes.find k0 with
    | none => simp [hf] at h
    | some n =>
      simp only [hf] at h
      by_cases hr : rest = []
      · subst hr
        simp only [↓reduceIte] at h
        by_cases hv : o.vals = []
        · simp [hv] at h; subst h; simp [hv]
        · simp only [hv, ↓reduceIte] at h
          cases n with
          | comp k' ty =>
            simp only [hT, Bool.true_and, bne_iff_ne, ne_eq, ite_not] at h
            split at h
            · rename_i hty
              cases h
              simp only [List.mem_map, Prod.mk.injEq, Item.val.injEq, List.cons.injEq, and_true]
              constructor
              · rintro ⟨v', hv', rfl, rfl⟩
                exact ⟨rfl, hv', k', ty, hf, hty⟩
              · rintro ⟨rfl, hv', _⟩
                exact ⟨v, hv', rfl, rfl⟩
            · cases h
          | pass k' =>
            cases h
            simp only [List.mem_singleton, Prod.mk.injEq, reduceCtorEq, and_false, List.cons.injEq,
              and_true, false_iff, not_and, not_exists]
            rintro rfl _ k'' ty h1; rw [hf] at h1; cases h1
          | graph k' ch =>
            cases h
            simp only [List.mem_singleton, Prod.mk.injEq, reduceCtorEq, and_false, List.cons.injEq,
              and_true, false_iff, not_and, not_exists]
            rintro rfl _ k'' ty h1; rw [hf] at h1; cases h1
      · simp only [hr, ↓reduceIte] at h
        have hne : ¬ (k0 :: rest = [k]) := by simp [hr]
        cases n with
        | comp k' ty => cases h
        | pass k' =>
          by_cases hp : F.passSubPathIsError = true
          · simp [hp] at h
          · simp only [hp] at h; cases h; simp [hne]
        | graph k' ch => cases h; simp [hne]



theorem pathEntry_ok_opt {F : Facts} (hS : F.strip = 1) {nodes : Nodes} {o : Opt}
    {p : Path} {lp : Log} (h : pathEntry F nodes o p = .ok lp) (k : Key) (o' : Opt) :
    (k, Item.opt o') ∈ lp ↔ ∃ n, nodes.find k = some n ∧ (∀ k' ty, n ≠ .comp k' ty) ∧
      ((p = [k] ∧ o.vals ≠ [] ∧ o' = { o with paths := [] }) ∨
       (∃ rest, rest ≠ [] ∧ p = k :: rest ∧ o' = { o with paths := [rest] })) := by
  unfold pathEntry at h
  cases p with
  | nil => simp at h
  | cons k0 rest =>
    simp only at h
    cases hf : nodes.find k0 with
    | none => simp [hf] at h
    | some n =>
      simp only [hf] at h
      by_cases hr : rest = []
      · subst hr
        simp only [↓reduceIte] at h
        by_cases hv : o.vals = []
        · simp [hv] at h; subst h; simp [hv]
          intro x _ _ r hr _ hr'; exact absurd hr' hr
        · simp only [hv, ↓reduceIte] at h
          cases n with
          | comp k' ty =>
            by_cases hc : (F.typeCmpIdentity && ty != o.ty) = true
            · simp [hc] at h
            · simp only [hc] at h
              cases h
              simp only [List.mem_map, Prod.mk.injEq, reduceCtorEq, and_false, exists_false,
                false_iff, not_exists, not_and]
              rintro n hn hnc
              rintro (⟨hp, _⟩ | ⟨r, hr, hp, _⟩)
              · simp at hp; subst hp; rw [hf] at hn; cases hn; exact hnc k' ty rfl
              · simp at hp; exact hr hp.2
          | pass k' =>
            cases h
            simp only [List.mem_singleton, Prod.mk.injEq, Item.opt.injEq]
            constructor
            · rintro ⟨rfl, rfl⟩
              exact ⟨_, hf, by simp, Or.inl ⟨rfl, hv, rfl⟩⟩
            · rintro ⟨n, hn, hnc, (⟨hp, _, rfl⟩ | ⟨r, hr, hp, _⟩)⟩
              · simp at hp; exact ⟨hp.symm, rfl⟩
              · simp at hp; exact absurd hp.2 hr
          | graph k' ch =>
            cases h
            simp only [List.mem_singleton, Prod.mk.injEq, Item.opt.injEq]
            constructor
            · rintro ⟨rfl, rfl⟩
              exact ⟨_, hf, by simp, Or.inl ⟨rfl, hv, rfl⟩⟩
            · rintro ⟨n, hn, hnc, (⟨hp, _, rfl⟩ | ⟨r, hr, hp, _⟩)⟩
              · simp at hp; exact ⟨hp.symm, rfl⟩
              · simp at hp; exact absurd hp.2 hr
      · simp only [hr, ↓reduceIte] at h
        have hd : List.drop F.strip (k0 :: rest) = rest := by simp [hS]
        have key : lp = [(k0, Item.opt { o with paths := [rest] })] →
            (∀ k' ty, n ≠ .comp k' ty) →
            ((k, Item.opt o') ∈ lp ↔ ∃ n, nodes.find k = some n ∧ (∀ k' ty, n ≠ .comp k' ty) ∧
              ((k0 :: rest = [k] ∧ o.vals ≠ [] ∧ o' = { o with paths := [] }) ∨
              (∃ r, r ≠ [] ∧ k0 :: rest = k :: r ∧ o' = { o with paths := [r] }))) := by
          rintro rfl hnc
          simp only [List.mem_singleton, Prod.mk.injEq, Item.opt.injEq]
          constructor
          · rintro ⟨rfl, rfl⟩
            exact ⟨n, hf, hnc, Or.inr ⟨rest, hr, rfl, rfl⟩⟩
          · rintro ⟨n', hn', _, (⟨hp, _⟩ | ⟨r, _, hp, rfl⟩)⟩
            · simp at hp; exact absurd hp.2 hr
            · simp at hp; obtain ⟨rfl, rfl⟩ := hp; exact ⟨rfl, rfl⟩
        cases n with
        | comp k' ty => cases h
        | pass k' =>
          by_cases hp : F.passSubPathIsError = true
          · simp [hp] at h
          · simp only [hp, hd] at h; cases h
            exact key rfl (by simp)
        | graph k' ch =>
          simp only [hd] at h; cases h
          exact key rfl (by simp)


theorem level_vals {F : Facts} (hT : F.typeCmpIdentity = true) {nodes : Nodes} {opts : List Opt}
    {log : Log} (hwf : nodes.wf = true) (he : extract F nodes opts = .ok log) {k : Key} {ty : Nat}
    (hn : Node.comp k ty ∈ nodes.toList) (v : Nat) :
    (k, Item.val v) ∈ log ↔
      ∃ o ∈ opts, v ∈ o.vals ∧ ty = o.ty ∧ (o.paths = [] ∨ [k] ∈ o.paths) := by
  have hfind : nodes.find k = some (.comp k ty) := wf_find hwf hn
  rw [extract_ok_mem he]
  constructor
  · rintro ⟨o, ho, (hu | ⟨p, hp, lp, hpe, hx⟩)⟩
    · obtain ⟨h1, _, n', hn', hx⟩ := mem_undesignatedEntries.mp hu
      obtain ⟨ty', rfl, hty, hv⟩ := (mem_undesignatedFor_val hT).mp hx
      have := wf_find hwf hn'
      simp only [Node.key] at this
      rw [hfind] at this; cases this
      exact ⟨o, ho, hv, hty, Or.inl h1⟩
    · obtain ⟨rfl, hv, k', ty', hf, hty⟩ := (pathEntry_ok_val hT hpe k v).mp hx
      rw [hfind] at hf; cases hf
      exact ⟨o, ho, hv, hty, Or.inr hp⟩
  · rintro ⟨o, ho, hv, hty, (h1 | hk)⟩
    · refine ⟨o, ho, Or.inl (mem_undesignatedEntries.mpr ⟨h1, ?_, _, hn, ?_⟩)⟩
      · intro h; rw [h] at hv; cases hv
      · exact (mem_undesignatedFor_val hT).mpr ⟨ty, rfl, hty, hv⟩
    · obtain ⟨lp, hpe⟩ := extract_ok_paths he o ho _ hk
      exact ⟨o, ho, Or.inr ⟨_, hk, lp, hpe,
        (pathEntry_ok_val hT hpe k v).mpr ⟨rfl, hv, k, ty, hfind, hty⟩⟩⟩

theorem level_opts {F : Facts} (hS : F.strip = 1) {nodes : Nodes} {opts : List Opt}
    {log : Log} (hwf : nodes.wf = true) (he : extract F nodes opts = .ok log) {k : Key} {ch : Nodes}
    (hn : Node.graph k ch ∈ nodes.toList) (o' : Opt) :
    (k, Item.opt o') ∈ log ↔ ∃ o ∈ opts,
      (o.paths = [] ∧ o.vals ≠ [] ∧ o' = o) ∨
      ([k] ∈ o.paths ∧ o.vals ≠ [] ∧ o' = { o with paths := [] }) ∨
      (∃ rest, rest ≠ [] ∧ k :: rest ∈ o.paths ∧ o' = { o with paths := [rest] }) := by
  have hfind : nodes.find k = some (.graph k ch) := wf_find hwf hn
  rw [extract_ok_mem he]
  constructor
  · rintro ⟨o, ho, (hu | ⟨p, hp, lp, hpe, hx⟩)⟩
    · obtain ⟨h1, h2, n', _, hx⟩ := mem_undesignatedEntries.mp hu
      obtain ⟨_, rfl⟩ := mem_undesignatedFor_opt.mp hx
      exact ⟨o', ho, Or.inl ⟨h1, h2, rfl⟩⟩
    · obtain ⟨n, _, _, (⟨rfl, hv, rfl⟩ | ⟨rest, hr, rfl, rfl⟩)⟩ := (pathEntry_ok_opt hS hpe k o').mp hx
      · exact ⟨o, ho, Or.inr (Or.inl ⟨hp, hv, rfl⟩)⟩
      · exact ⟨o, ho, Or.inr (Or.inr ⟨rest, hr, hp, rfl⟩)⟩
  · rintro ⟨o, ho, (⟨h1, h2, rfl⟩ | ⟨hk, hv, rfl⟩ | ⟨rest, hr, hk, rfl⟩)⟩
    · exact ⟨o', ho, Or.inl (mem_undesignatedEntries.mpr ⟨h1, h2, _, hn,
        mem_undesignatedFor_opt.mpr ⟨Or.inr ⟨ch, rfl⟩, rfl⟩⟩)⟩
    · obtain ⟨lp, hpe⟩ := extract_ok_paths he o ho _ hk
      exact ⟨o, ho, Or.inr ⟨_, hk, lp, hpe,
        (pathEntry_ok_opt hS hpe k _).mpr ⟨_, hfind, by simp, Or.inl ⟨rfl, hv, rfl⟩⟩⟩⟩
    · obtain ⟨lp, hpe⟩ := extract_ok_paths he o ho _ hk
      exact ⟨o, ho, Or.inr ⟨_, hk, lp, hpe,
        (pathEntry_ok_opt hS hpe k _).mpr ⟨_, hfind, by simp, Or.inr ⟨rest, hr, rfl, rfl⟩⟩⟩⟩

end EinoV.C16
