/-
  The type-inference invariant of the builder (used by C07 soundness and C20 order-freeness):
  what `updateToValidateMap` preserves whatever order Go's map iteration takes.
-/
import EinoV.Model.C20Builder
import EinoV.Proofs.C20

namespace EinoV.Build

/-! ### node table lemmas -/

theorem findNode_setTyIn_ne (ns : List Node) (k k' : Key) (t : Ty) (h : k' ≠ k) :
    findNode (setTyIn ns k t) k' = findNode ns k' := by
  induction ns with
  | nil => rfl
  | cons n ns ih =>
    simp only [setTyIn]
    by_cases hk : n.key = k
    · simp only [hk, ↓reduceIte, findNode]
      have : ¬ k = k' := fun e => h e.symm
      simp [this]
    · simp only [hk, ↓reduceIte, findNode]
      split
      · rfl
      · exact ih

theorem findNode_setTyIn_eq (ns : List Node) (k : Key) (t : Ty) :
    findNode (setTyIn ns k t) k =
      (findNode ns k).map (fun n => { n with inTy := some t, outTy := some t }) := by
  induction ns with
  | nil => rfl
  | cons n ns ih =>
    simp only [setTyIn]
    by_cases hk : n.key = k
    · simp [hk, findNode]
    · simp [hk, findNode, ih]

theorem nodeIn_setTy_ne (b : Builder) (k k' : Key) (t : Ty) (h : k' ≠ k) :
    (b.setTy k t).nodeIn k' = b.nodeIn k' := by
  simp [Builder.nodeIn, Builder.setTy, findNode_setTyIn_ne _ _ _ _ h]

theorem nodeOut_setTy_ne (b : Builder) (k k' : Key) (t : Ty) (h : k' ≠ k) :
    (b.setTy k t).nodeOut k' = b.nodeOut k' := by
  simp [Builder.nodeOut, Builder.setTy, findNode_setTyIn_ne _ _ _ _ h]

/-- a key whose input type is unknown is a node key or absent, never START/END -/
theorem nodeIn_none_ne (b : Builder) (k : Key) (h : b.nodeIn k = none) : k ≠ START ∧ k ≠ END := by
  unfold Builder.nodeIn at h
  constructor <;> intro e <;> simp [e] at h
  · by_cases h2 : END = START <;> simp [h2] at h

theorem nodeOut_none_ne (b : Builder) (k : Key) (h : b.nodeOut k = none) : k ≠ START ∧ k ≠ END := by
  unfold Builder.nodeOut at h
  constructor <;> intro e <;> simp [e] at h
  · by_cases h2 : END = START <;> simp [h2] at h

private theorem auxIn (x : Option Node) (t : Ty) :
    (match Option.map (fun n : Node => { n with inTy := some t, outTy := some t }) x with
      | some n => n.inTy
      | none => none) = if x.isSome = true then some t else none := by
  cases x <;> rfl

private theorem auxOut (x : Option Node) (t : Ty) :
    (match Option.map (fun n : Node => { n with inTy := some t, outTy := some t }) x with
      | some n => n.outTy
      | none => none) = if x.isSome = true then some t else none := by
  cases x <;> rfl

/-- after `setTy k t` the key reads `t` on both sides – if it is a node -/
theorem nodeIn_setTy_self (b : Builder) (k : Key) (t : Ty) (h1 : k ≠ START) (h2 : k ≠ END) :
    (b.setTy k t).nodeIn k = if b.hasNode k then some t else none := by
  simp only [Builder.nodeIn, Builder.setTy, h1, h2, ↓reduceIte, findNode_setTyIn_eq, Builder.hasNode]
  exact auxIn _ _

theorem nodeOut_setTy_self (b : Builder) (k : Key) (t : Ty) (h1 : k ≠ START) (h2 : k ≠ END) :
    (b.setTy k t).nodeOut k = if b.hasNode k then some t else none := by
  simp only [Builder.nodeOut, Builder.setTy, h1, h2, ↓reduceIte, findNode_setTyIn_eq, Builder.hasNode]
  exact auxOut _ _

end EinoV.Build
